import TypVerif.Lemmas.RingHeap
/-
The read-only loops of `Len`, `Do` and of the forward / backward walks, run on a linked ring.
-/
namespace TypVerif.Lemmas.Ring
open TypVerif.Model TypVerif.Model.Ring TypVerif.Spec.RingOp TypVerif.Spec.RingSeq

theorem chain_step {f : PF} {a r : RingId} {l : List RingId} (h : Chain f (a :: (l ++ [r]))) :
    f a = (l ++ [r]).head? ∧ Chain f (l ++ [r]) := by
  cases l with
  | nil => exact ⟨h.1, trivial⟩
  | cons b l' => exact ⟨h.1, h.2⟩

theorem Next_of_some {h : RHeap} {a q : RingId} (e : h.nx a = some q) : Next h a = (h, q) := by
  unfold Next; rw [e]

theorem Prev_of_some {h : RHeap} {a q : RingId} (e : h.nx a = some q) : Prev h a = (h, h.pv a) := by
  unfold Prev; rw [e]

theorem lenLoop_chain (h : RHeap) (r : RingId) : ∀ (l : List RingId) (fuel : Nat) (p : Option RingId) (n : Int),
    Chain h.nx (l ++ [r]) → r ∉ l → l.length ≤ fuel → p = (l ++ [r]).head? →
    lenLoop h r fuel p n = .ok (n + (l.length : Int)) := by
  intro l
  induction l with
  | nil =>
    intro fuel p n _ _ _ hp
    simp only [List.nil_append, List.head?_cons] at hp
    subst hp
    cases fuel <;> simp [lenLoop]
  | cons a l' ih =>
    intro fuel p n hc hr hf hp
    simp only [List.cons_append, List.head?_cons] at hp
    subst hp
    rw [List.mem_cons, not_or] at hr
    cases fuel with
    | zero => simp at hf
    | succ fuel =>
      have hne : ¬ (some a = some r) := fun e => hr.1 (Option.some.inj e).symm
      simp only [lenLoop, hne, if_false]
      have hs := chain_step hc
      rw [ih fuel (h.nx a) (n + 1) hs.2 hr.2 (by simp at hf; omega) hs.1]
      simp only [List.length_cons]
      congr 1
      omega

theorem doLoop_chain (h : RHeap) (r : RingId) : ∀ (l : List RingId) (fuel : Nat) (p : Option RingId) (acc : List Int),
    Chain h.nx (l ++ [r]) → r ∉ l → l.length ≤ fuel → p = (l ++ [r]).head? →
    doLoop h r fuel p acc = .ok (acc ++ l.map h.val) := by
  intro l
  induction l with
  | nil =>
    intro fuel p acc _ _ _ hp
    simp only [List.nil_append, List.head?_cons] at hp
    subst hp
    cases fuel <;> simp [doLoop]
  | cons a l' ih =>
    intro fuel p acc hc hr hf hp
    simp only [List.cons_append, List.head?_cons] at hp
    subst hp
    rw [List.mem_cons, not_or] at hr
    cases fuel with
    | zero => simp at hf
    | succ fuel =>
      have hne : ¬ (some a = some r) := fun e => hr.1 (Option.some.inj e).symm
      simp only [doLoop, hne, if_false]
      have hs := chain_step hc
      rw [ih fuel (h.nx a) _ hs.2 hr.2 (by simp at hf; omega) hs.1]
      simp

theorem fwdLoop_chain (h : RHeap) (r : RingId) : ∀ (l : List RingId) (fuel : Nat) (p : RingId),
    Chain h.nx (l ++ [r]) → r ∉ l → some p = (l ++ [r]).head? →
    fwdLoop r fuel h p = (h, l.take fuel) := by
  intro l
  induction l with
  | nil =>
    intro fuel p _ _ hp
    simp only [List.nil_append, List.head?_cons, Option.some.injEq] at hp
    subst hp
    cases fuel <;> simp [fwdLoop]
  | cons a l' ih =>
    intro fuel p hc hr hp
    simp only [List.cons_append, List.head?_cons, Option.some.injEq] at hp
    subst hp
    rw [List.mem_cons, not_or] at hr
    cases fuel with
    | zero => simp [fwdLoop]
    | succ fuel =>
      have hne : ¬ (p = r) := fun e => hr.1 e.symm
      have hs := chain_step hc
      obtain ⟨q, hq⟩ : ∃ q, (l' ++ [r]).head? = some q := by cases l' <;> simp
      have hnx : h.nx p = some q := by rw [hs.1, hq]
      simp only [fwdLoop, hne, if_false, Next_of_some hnx]
      rw [ih fuel q hs.2 hr.2 hq.symm]
      simp

theorem bwdLoop_chain (h : RHeap) (r : RingId) : ∀ (l : List RingId) (fuel : Nat) (p : Option RingId),
    Chain h.pv (l ++ [r]) → (∀ y ∈ l, h.nx y ≠ none) → r ∉ l → p = (l ++ [r]).head? →
    bwdLoop r fuel h p = (h, .ok (l.take fuel)) := by
  intro l
  induction l with
  | nil =>
    intro fuel p _ _ _ hp
    simp only [List.nil_append, List.head?_cons] at hp
    subst hp
    cases fuel <;> simp [bwdLoop]
  | cons a l' ih =>
    intro fuel p hc hi hr hp
    simp only [List.cons_append, List.head?_cons] at hp
    subst hp
    rw [List.mem_cons, not_or] at hr
    cases fuel with
    | zero => simp [bwdLoop]
    | succ fuel =>
      have hne : ¬ (some a = some r) := fun e => hr.1 (Option.some.inj e).symm
      have hs := chain_step hc
      obtain ⟨q, hq⟩ : ∃ q, h.nx a = some q := by
        have := hi a (by simp)
        cases e : h.nx a with
        | none => exact absurd e this
        | some q => exact ⟨q, rfl⟩
      simp only [bwdLoop, hne, if_false, Prev_of_some hq]
      rw [ih fuel (h.pv a) hs.2 (fun y hy => hi y (List.mem_cons_of_mem _ hy)) hr.2 hs.1]
      simp

/-- everything the loops need to know about the ring of an initialised `r` -/
theorem bridge2 {h : RHeap} {w : RWorld} (wf : RingWF h w) {r : RingId} (hr : r < h.size)
    (hi : h.nx r ≠ none) :
    ∃ t, cycOf w r = r :: t ∧ Linked h.nx h.pv (r :: t ++ [r]) ∧ (r :: t).Nodup ∧ t.length < h.size ∧
      ∀ y ∈ r :: t, y < h.size ∧ h.nx y ≠ none := by
  obtain ⟨c, t, hc, hrc, hcy, hperm, hcl, hl⟩ := bridge wf hr hi
  refine ⟨t, hcy, hl, hperm.nodup_iff.2 (cycle_nodup wf.world.nodup hc), ?_, ?_⟩
  · have := cycle_length_le wf.world hc
    rw [← hperm.length_eq, ← wf.size_eq] at this
    simp only [List.length_cons] at this
    exact this
  · intro y hy
    have := members wf hc hcl (hperm.mem_iff.1 hy)
    exact ⟨this.1, this.2.1⟩

theorem Len_spec {h : RHeap} {w : RWorld} (wf : RingWF h w) {r : RingId} (hr : r < h.size) :
    RingWF (Len h r).1 w ∧ (Len h r).2 = .ok ((cycOf w r).length : Int) := by
  obtain ⟨wf1, hn, hsz, _⟩ := Next_spec wf hr
  refine ⟨wf1, ?_⟩
  have hi : (Next h r).1.nx r ≠ none := by rw [hn]; simp
  obtain ⟨t, hcy, hl, hnd, hlen, _⟩ := bridge2 wf1 (hsz ▸ hr) hi
  have hs := chain_step (l := t) (r := r) (by simpa using hl.chain_nx)
  show lenLoop (Next h r).1 r (Next h r).1.size (some (Next h r).2) 1 = _
  rw [lenLoop_chain (Next h r).1 r t _ _ 1 hs.2 (List.nodup_cons.1 hnd).1 (Nat.le_of_lt hlen) (by rw [← hn, hs.1])]
  rw [hcy, List.length_cons]
  congr 1
  omega

theorem Do_spec {h : RHeap} {w : RWorld} (wf : RingWF h w) {r : RingId} (hr : r < h.size) :
    RingWF (Do h r).1 w ∧ (Do h r).2 = .ok ((cycOf w r).map (fun (i : RingId) => (i : Int))) := by
  obtain ⟨wf1, hn, hsz, _⟩ := Next_spec wf hr
  refine ⟨wf1, ?_⟩
  have hi : (Next h r).1.nx r ≠ none := by rw [hn]; simp
  obtain ⟨t, hcy, hl, hnd, hlen, hmem⟩ := bridge2 wf1 (hsz ▸ hr) hi
  have hs := chain_step (l := t) (r := r) (by simpa using hl.chain_nx)
  show doLoop (Next h r).1 r (Next h r).1.size (some (Next h r).2) [h.val r] = _
  rw [doLoop_chain (Next h r).1 r t _ _ _ hs.2 (List.nodup_cons.1 hnd).1 (Nat.le_of_lt hlen) (by rw [← hn, hs.1])]
  rw [hcy, List.map_cons, wf.value_eq r hr]
  congr 1
  simp only [List.singleton_append, List.cons.injEq, true_and]
  apply List.map_congr_left
  intro y hy
  exact wf1.value_eq y (hmem y (List.mem_cons_of_mem _ hy)).1

theorem Fwd_spec {h : RHeap} {w : RWorld} (wf : RingWF h w) {r : RingId} (hr : r < h.size) (fuel : Nat) :
    RingWF (Fwd h r fuel).1 w ∧ (Fwd h r fuel).2 = (cycOf w r).take fuel := by
  cases fuel with
  | zero => exact ⟨wf, by simp [Fwd]⟩
  | succ fuel =>
    obtain ⟨wf1, hn, hsz, _⟩ := Next_spec wf hr
    have hi : (Next h r).1.nx r ≠ none := by rw [hn]; simp
    obtain ⟨t, hcy, hl, hnd, hlen, hmem⟩ := bridge2 wf1 (hsz ▸ hr) hi
    have hs := chain_step (l := t) (r := r) (by simpa using hl.chain_nx)
    have e := fwdLoop_chain (Next h r).1 r t fuel (Next h r).2 hs.2 (List.nodup_cons.1 hnd).1 (by rw [← hn, hs.1])
    have e2 : Fwd h r (fuel + 1) = ((fwdLoop r fuel (Next h r).1 (Next h r).2).1, r :: (fwdLoop r fuel (Next h r).1 (Next h r).2).2) := rfl
    rw [e2, e, hcy]
    exact ⟨wf1, by simp⟩

theorem Bwd_spec {h : RHeap} {w : RWorld} (wf : RingWF h w) {r : RingId} (hr : r < h.size) (fuel : Nat) :
    RingWF (Bwd h r fuel).1 w ∧ (Bwd h r fuel).2 = .ok ((r :: (cycOf w r).tail.reverse).take fuel) := by
  cases fuel with
  | zero => exact ⟨wf, by simp [Bwd]⟩
  | succ fuel =>
    obtain ⟨wf1, ⟨p, hp1, hp2⟩, hi, hsz, _⟩ := Prev_spec wf hr
    obtain ⟨t, hcy, hl, hnd, hlen, hmem⟩ := bridge2 wf1 (hsz ▸ hr) hi
    have hrev : Chain (Prev h r).1.pv (r :: (t.reverse ++ [r])) := by
      have := hl.chain_pv
      simpa using this
    have hs := chain_step hrev
    have e := bwdLoop_chain (Prev h r).1 r t.reverse fuel (Prev h r).2 hs.2
      (fun y hy => (hmem y (List.mem_cons_of_mem _ (List.mem_reverse.1 hy))).2)
      (fun hy => (List.nodup_cons.1 hnd).1 (List.mem_reverse.1 hy)) (by rw [hp1, ← hp2, hs.1])
    have e2 : Bwd h r (fuel + 1) = (match bwdLoop r fuel (Prev h r).1 (Prev h r).2 with
      | (h2, .ok l) => (h2, .ok (r :: l))
      | (h2, .error e) => (h2, .error e)) := rfl
    rw [e2, e, hcy]
    exact ⟨wf1, by simp⟩

end TypVerif.Lemmas.Ring
