import TypVerif.Model.Splice
/-
A concrete heap / header for the non-vacuity examples of `Props/C12.lean`:
backing array `[1,2,3,7,7]`, header `len 3`, `cap 4`, offset 0.
-/
namespace TypVerif.Lemmas.Splice.Ex
open TypVerif.Model TypVerif.Model.GoSlice

def exHeap : Heap Nat := (ofList Heap.empty [1, 2, 3] [7, 7] 1).1
def exSlice : Slice := (ofList (Heap.empty : Heap Nat) [1, 2, 3] [7, 7] 1).2
/-- (live contents, whole backing array 0) of a result -/
def exOut (r : Except String (Heap Nat × Slice)) : List Nat × List Nat :=
  match r with
  | .ok (h', s') => (contents h' s', h'.cells 0)
  | .error _ => ([], [])
theorem exWF : WF exHeap exSlice := by refine ⟨?_, ?_, ?_⟩ <;> decide

end TypVerif.Lemmas.Splice.Ex
