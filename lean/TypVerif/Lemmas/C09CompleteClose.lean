import TypVerif.Lemmas.C09AcceptStep
/-
Acceptance completeness for the judge `Drv/C09.lean`: the work-list closure `closeF` is COMPLETE as long as it does not run out
of fuel, and it has not run out of fuel when the result has at most `fuel` states.
-/
namespace TypVerif.Lemmas.C09Complete
open TypVerif TypVerif.Conc TypVerif.Model.KeyedMutex TypVerif.Drv.C09
open TypVerif.Lemmas.KeyedMutex TypVerif.Lemmas.C09Accept

/-- the normal forms of the internal successors of `s` (what `closeF` adds for `s`) -/
def intNexts (rw : Bool) (s : State) : List State :=
  (succ rw true [] s).filterMap (fun p => match p.1 with | none => some (norm p.2) | some _ => none)

/-- `ss` is closed under (normalised) internal steps -/
def Sat (rw : Bool) (ss : List State) : Prop := ∀ y ∈ ss, ∀ z ∈ intNexts rw y, z ∈ ss

theorem mem_intNexts {rw : Bool} {s z : State} (h : (none, z) ∈ succ rw true [] s) : norm z ∈ intNexts rw s :=
  List.mem_filterMap.2 ⟨(none, z), h, rfl⟩

/-- one step of the inner fold of `closeF` -/
def closeStep (x : Std.HashSet State × List State × Array State) (s' : State) :
    Std.HashSet State × List State × Array State :=
  if x.1.contains s' then x else (x.1.insert s', s' :: x.2.1, x.2.2.push s')

/-- one step of the start fold of `stepEvent` -/
def startStep (x : Std.HashSet State × Array State) (s' : State) : Std.HashSet State × Array State :=
  if x.1.contains s' then x else (x.1.insert s', x.2.push s')

/-- `seen` is exactly the set of elements of `acc` -/
def SeenIs (seen : Std.HashSet State) (acc : Array State) : Prop :=
  ∀ s, seen.contains s = true ↔ s ∈ acc.toList

theorem seenIs_insert {seen : Std.HashSet State} {acc : Array State} (h : SeenIs seen acc) (s' : State) :
    SeenIs (seen.insert s') (acc.push s') := by
  intro s
  rw [Std.HashSet.contains_insert]
  simp only [Bool.or_eq_true, beq_iff_eq, Array.toList_push, List.mem_append, List.mem_singleton]
  constructor
  · rintro (rfl | h')
    · exact Or.inr rfl
    · exact Or.inl ((h s).1 h')
  · rintro (h' | rfl)
    · exact Or.inr ((h s).2 h')
    · exact Or.inl rfl

theorem close_fold_complete (ns : List State) :
    ∀ (x : Std.HashSet State × List State × Array State), SeenIs x.1 x.2.2 → (∀ y ∈ x.2.1, y ∈ x.2.2.toList) →
      SeenIs (ns.foldl closeStep x).1 (ns.foldl closeStep x).2.2 ∧
      (∀ y ∈ (ns.foldl closeStep x).2.1, y ∈ (ns.foldl closeStep x).2.2.toList) ∧
      (∀ y ∈ x.2.2.toList, y ∈ (ns.foldl closeStep x).2.2.toList) ∧
      (∀ z ∈ ns, z ∈ (ns.foldl closeStep x).2.2.toList) ∧
      (∀ y ∈ (ns.foldl closeStep x).2.2.toList, y ∈ x.2.2.toList ∨ y ∈ (ns.foldl closeStep x).2.1) ∧
      (∀ y ∈ x.2.1, y ∈ (ns.foldl closeStep x).2.1) ∧
      (ns.foldl closeStep x).2.2.size + x.2.1.length = x.2.2.size + (ns.foldl closeStep x).2.1.length := by
  induction ns with
  | nil =>
    intro x h1 h2
    exact ⟨h1, h2, fun _ h => h, fun _ h => (by cases h), fun _ h => Or.inl h, fun _ h => h, rfl⟩
  | cons s' rest ih =>
    intro x h1 h2
    rw [List.foldl_cons]
    by_cases hc : x.1.contains s' = true
    · have hx : closeStep x s' = x := by unfold closeStep; rw [if_pos hc]
      rw [hx]
      obtain ⟨a, b, c, d, e, f, g⟩ := ih x h1 h2
      refine ⟨a, b, c, ?_, e, f, g⟩
      intro z hz
      rcases List.mem_cons.1 hz with rfl | hz
      · exact c _ ((h1 _).1 hc)
      · exact d z hz
    · have hx : closeStep x s' = (x.1.insert s', s' :: x.2.1, x.2.2.push s') := by
        unfold closeStep; rw [if_neg hc]
      rw [hx]
      have h1' : SeenIs (x.1.insert s') (x.2.2.push s') := seenIs_insert h1 s'
      have h2' : ∀ y ∈ s' :: x.2.1, y ∈ (x.2.2.push s').toList := by
        intro y hy
        simp only [Array.toList_push, List.mem_append, List.mem_singleton]
        rcases List.mem_cons.1 hy with rfl | hy
        · exact Or.inr rfl
        · exact Or.inl (h2 y hy)
      obtain ⟨a, b, c, d, e, f, g⟩ := ih (x.1.insert s', s' :: x.2.1, x.2.2.push s') h1' h2'
      simp only at a b c d e f g
      refine ⟨a, b, ?_, ?_, ?_, ?_, ?_⟩
      · intro y hy
        exact c y (by simp only [Array.toList_push, List.mem_append]; exact Or.inl hy)
      · intro z hz
        rcases List.mem_cons.1 hz with rfl | hz
        · exact c _ (by simp)
        · exact d z hz
      · intro y hy
        rcases e y hy with h | h
        · simp only [Array.toList_push, List.mem_append, List.mem_singleton] at h
          rcases h with h | rfl
          · exact Or.inl h
          · exact Or.inr (f _ List.mem_cons_self)
        · exact Or.inr h
      · intro y hy
        exact f y (List.mem_cons_of_mem _ hy)
      · simp only [Array.size_push, List.length_cons] at g
        omega

theorem closeF_eq_succ_cons (rw : Bool) (fuel : Nat) (seen : Std.HashSet State) (s : State) (rest : List State)
    (acc : Array State) :
    closeF rw (fuel + 1) seen (s :: rest) acc =
      closeF rw fuel ((intNexts rw s).foldl closeStep (seen, rest, acc)).1
        ((intNexts rw s).foldl closeStep (seen, rest, acc)).2.1
        ((intNexts rw s).foldl closeStep (seen, rest, acc)).2.2 := rfl

theorem closeF_complete (rw : Bool) (fuel : Nat) :
    ∀ (p : Nat) (seen : Std.HashSet State) (todo : List State) (acc : Array State),
      SeenIs seen acc → (∀ y ∈ todo, y ∈ acc.toList) →
      (∀ y ∈ acc.toList, y ∈ todo ∨ (∀ z ∈ intNexts rw y, z ∈ acc.toList)) →
      acc.size = p + todo.length →
      (∀ y ∈ acc.toList, y ∈ (closeF rw fuel seen todo acc).toList) ∧
      ((closeF rw fuel seen todo acc).size ≤ p + fuel → Sat rw (closeF rw fuel seen todo acc).toList) := by
  induction fuel with
  | zero =>
    intro p seen todo acc _ _ h3 h4
    have hr : closeF rw 0 seen todo acc = acc := by unfold closeF; rfl
    rw [hr]
    refine ⟨fun _ h => h, fun hle => ?_⟩
    have : todo = [] := List.eq_nil_of_length_eq_zero (by omega)
    subst this
    intro y hy
    rcases h3 y hy with h | h
    · cases h
    · exact h
  | succ fuel ih =>
    intro p seen todo acc h1 h2 h3 h4
    cases todo with
    | nil =>
      have hr : closeF rw (fuel + 1) seen [] acc = acc := by unfold closeF; rfl
      rw [hr]
      refine ⟨fun _ h => h, fun _ => ?_⟩
      intro y hy
      rcases h3 y hy with h | h
      · cases h
      · exact h
    | cons s rest =>
      rw [closeF_eq_succ_cons]
      obtain ⟨a, b, c, d, e, f, g⟩ := close_fold_complete (intNexts rw s) (seen, rest, acc) h1
        (fun y hy => h2 y (List.mem_cons_of_mem _ hy))
      simp only at c e f g
      have h3' : ∀ y ∈ ((intNexts rw s).foldl closeStep (seen, rest, acc)).2.2.toList,
          y ∈ ((intNexts rw s).foldl closeStep (seen, rest, acc)).2.1 ∨
          (∀ z ∈ intNexts rw y, z ∈ ((intNexts rw s).foldl closeStep (seen, rest, acc)).2.2.toList) := by
        intro y hy
        rcases e y hy with h | h
        · rcases h3 y h with h' | h'
          · rcases List.mem_cons.1 h' with rfl | h'
            · exact Or.inr d
            · exact Or.inl (f y h')
          · exact Or.inr (fun z hz => c z (h' z hz))
        · exact Or.inl h
      have h4' : ((intNexts rw s).foldl closeStep (seen, rest, acc)).2.2.size =
          (p + 1) + ((intNexts rw s).foldl closeStep (seen, rest, acc)).2.1.length := by
        simp only [List.length_cons] at h4
        omega
      obtain ⟨k1, k2⟩ := ih (p + 1) _ _ _ a b h3' h4'
      refine ⟨fun y hy => k1 y (c y hy), fun hle => k2 (by omega)⟩

theorem start_fold_complete (ns : List State) :
    ∀ (x : Std.HashSet State × Array State), SeenIs x.1 x.2 →
      SeenIs (ns.foldl startStep x).1 (ns.foldl startStep x).2 ∧
      (∀ y ∈ x.2.toList, y ∈ (ns.foldl startStep x).2.toList) ∧
      (∀ z ∈ ns, z ∈ (ns.foldl startStep x).2.toList) := by
  induction ns with
  | nil => intro x h1; exact ⟨h1, fun _ h => h, fun _ h => (by cases h)⟩
  | cons s' rest ih =>
    intro x h1
    rw [List.foldl_cons]
    by_cases hc : x.1.contains s' = true
    · have hx : startStep x s' = x := by unfold startStep; rw [if_pos hc]
      rw [hx]
      obtain ⟨a, c, d⟩ := ih x h1
      refine ⟨a, c, ?_⟩
      intro z hz
      rcases List.mem_cons.1 hz with rfl | hz
      · exact c _ ((h1 _).1 hc)
      · exact d z hz
    · have hx : startStep x s' = (x.1.insert s', x.2.push s') := by unfold startStep; rw [if_neg hc]
      rw [hx]
      obtain ⟨a, c, d⟩ := ih (x.1.insert s', x.2.push s') (seenIs_insert h1 s')
      simp only at a c d
      refine ⟨a, ?_, ?_⟩
      · intro y hy
        exact c y (by simp only [Array.toList_push, List.mem_append]; exact Or.inl hy)
      · intro z hz
        rcases List.mem_cons.1 hz with rfl | hz
        · exact c _ (by simp)
        · exact d z hz

/-- the `e`-successors of `ss`, normalised (the list `next` of `stepEvent`) -/
def evNexts (rw : Bool) (ops : List Op) (ss : List State) (e : Event) : List State :=
  ss.flatMap (fun s => (succ rw true ops s).filterMap (fun p => match p.1 with
    | some e' => if e' = e then some (norm p.2) else none
    | none => none))

theorem stepEvent_unfold (rw : Bool) (ops : List Op) (ss : List State) (e : Event) :
    Drv.C09.stepEvent rw ops ss e =
      (closeF rw closeBudget ((evNexts rw ops ss e).foldl startStep (({} : Std.HashSet State), #[])).1
        ((evNexts rw ops ss e).foldl startStep (({} : Std.HashSet State), #[])).2.toList
        ((evNexts rw ops ss e).foldl startStep (({} : Std.HashSet State), #[])).2).toList := rfl

/-- `Drv.C09.stepEvent`: the result contains the normal form of every `e`-successor of a state of `ss`, and is closed under
normalised internal steps unless the closure ran out of fuel — which it has not when the result has at most `closeBudget` states -/
theorem stepEvent_complete (rw : Bool) (ops : List Op) (ss : List State) (e : Event) :
    (∀ x ∈ ss, ∀ z, (some e, z) ∈ succ rw true ops x → norm z ∈ Drv.C09.stepEvent rw ops ss e) ∧
    ((Drv.C09.stepEvent rw ops ss e).length ≤ closeBudget → Sat rw (Drv.C09.stepEvent rw ops ss e)) := by
  rw [stepEvent_unfold]
  have h0 : SeenIs (({} : Std.HashSet State), (#[] : Array State)).1 (({} : Std.HashSet State), (#[] : Array State)).2 := by
    intro s
    simp
  obtain ⟨a, _, d⟩ := start_fold_complete (evNexts rw ops ss e) (({} : Std.HashSet State), #[]) h0
  obtain ⟨k1, k2⟩ := closeF_complete rw closeBudget 0 _ _ _ a (fun _ h => h) (fun _ h => Or.inl h)
    (by simp)
  refine ⟨?_, fun hle => k2 (by simpa using hle)⟩
  intro x hx z hz
  apply k1
  apply d
  refine List.mem_flatMap.2 ⟨x, hx, List.mem_filterMap.2 ⟨(some e, z), hz, ?_⟩⟩
  simp

end TypVerif.Lemmas.C09Complete
