import TypVerif.Spec.SortContract
import TypVerif.Lemmas.Sorted
/-
Lemmas for C15 (`slices/sort.go` adapters).
-/
namespace TypVerif.Lemmas.SortAdapters
open TypVerif.Model TypVerif.Model.SortAdapters TypVerif.Spec.Order TypVerif.Spec.SortContract

/-! ### swapList -/

theorem swapList_of_lt (l : List α) (i j : Nat) (hi : i < l.length) (hj : j < l.length) :
    swapList l i j = (l.set i l[j]).set j l[i] := by
  simp [swapList, List.getElem?_eq_getElem hi, List.getElem?_eq_getElem hj]

theorem swapList_of_ge_left (l : List α) (i j : Nat) (hi : l.length ≤ i) : swapList l i j = l := by
  simp [swapList, List.getElem?_eq_none hi]

theorem swapList_of_ge_right (l : List α) (i j : Nat) (hj : l.length ≤ j) : swapList l i j = l := by
  unfold swapList
  rw [List.getElem?_eq_none hj]
  cases l[i]? <;> rfl

theorem swapList_perm (l : List α) (i j : Nat) : (swapList l i j).Perm l := by
  by_cases hi : i < l.length
  · by_cases hj : j < l.length
    · rw [swapList_of_lt l i j hi hj]; exact List.set_set_perm hi hj
    · rw [swapList_of_ge_right l i j (by omega)]
  · rw [swapList_of_ge_left l i j (by omega)]

@[simp] theorem length_swapList (l : List α) (i j : Nat) : (swapList l i j).length = l.length :=
  (swapList_perm l i j).length_eq

theorem swapList_map (f : α → β) (l : List α) (i j : Nat) :
    (swapList l i j).map f = swapList (l.map f) i j := by
  unfold swapList
  rw [List.getElem?_map, List.getElem?_map]
  cases l[i]? <;> cases l[j]? <;> simp [List.map_set]

theorem swapList_append_right (pre cur : List α) (i j : Nat) :
    swapList (pre ++ cur) (pre.length + i) (pre.length + j) = pre ++ swapList cur i j := by
  unfold swapList
  rw [List.getElem?_append_right (by omega), List.getElem?_append_right (by omega)]
  simp only [Nat.add_sub_cancel_left]
  cases cur[i]? <;> cases cur[j]? <;> simp [List.set_append_right]

theorem swapList_zero_eq_cons (cur : List α) (p : Nat) (hp : p < cur.length) :
    swapList cur 0 p = cur[p] :: (swapList cur 0 p).tail := by
  cases cur with
  | nil => simp at hp
  | cons c rest =>
    cases p with
    | zero => simp [swapList]
    | succ p =>
      have hp' : p < rest.length := by simpa using hp
      simp [swapList, List.getElem?_eq_getElem hp']

/-! ### applySwaps -/

theorem applySwaps_nil (l : List α) : applySwaps l [] = l := rfl

theorem applySwaps_cons (l : List α) (p : Nat × Nat) (sw : List (Nat × Nat)) :
    applySwaps l (p :: sw) = applySwaps (swapList l p.1 p.2) sw := rfl

theorem applySwaps_perm (l : List α) (sw : List (Nat × Nat)) : (applySwaps l sw).Perm l := by
  induction sw generalizing l with
  | nil => exact List.Perm.refl _
  | cons p sw ih => rw [applySwaps_cons]; exact (ih _).trans (swapList_perm l p.1 p.2)

theorem applySwaps_map (f : α → β) (l : List α) (sw : List (Nat × Nat)) :
    (applySwaps l sw).map f = applySwaps (l.map f) sw := by
  induction sw generalizing l with
  | nil => rfl
  | cons p sw ih => rw [applySwaps_cons, applySwaps_cons, ih, swapList_map]

/-! ### realising a permutation by swaps -/

theorem realize_spec : ∀ (target cur pre : List Nat), cur.Perm target →
    applySwaps (pre ++ cur) (realize pre.length cur target) = pre ++ target := by
  intro target
  induction target with
  | nil =>
    intro cur pre hp
    have : cur = [] := List.Perm.eq_nil hp
    subst this; rfl
  | cons t ts ih =>
    intro cur pre hp
    have hmem : t ∈ cur := hp.symm.subset List.mem_cons_self
    have hlt : cur.idxOf t < cur.length := List.idxOf_lt_length_of_mem hmem
    have hget : cur[cur.idxOf t] = t := List.getElem_idxOf hlt
    have hcons := swapList_zero_eq_cons cur (cur.idxOf t) hlt
    rw [hget] at hcons
    have hperm : (swapList cur 0 (cur.idxOf t)).tail.Perm ts := by
      have h1 : (t :: (swapList cur 0 (cur.idxOf t)).tail).Perm (t :: ts) := by
        rw [← hcons]; exact (swapList_perm _ _ _).trans hp
      exact h1.cons_inv
    simp only [realize]
    rw [applySwaps_cons]
    show applySwaps (swapList (pre ++ cur) (pre.length + 0) (pre.length + cur.idxOf t)) _ = _
    rw [swapList_append_right, hcons]
    have := ih (swapList cur 0 (cur.idxOf t)).tail (pre ++ [t]) hperm
    simp only [List.length_append, List.length_cons, List.length_nil, List.append_assoc,
      List.singleton_append, Nat.zero_add] at this
    exact this

theorem realize_range : ∀ (target cur : List Nat) (k : Nat), cur.Perm target →
    ∀ p ∈ realize k cur target, p.1 < k + cur.length ∧ p.2 < k + cur.length := by
  intro target
  induction target with
  | nil => intro cur k _ p hp; simp [realize] at hp
  | cons t ts ih =>
    intro cur k hp p hpm
    have hmem : t ∈ cur := hp.symm.subset List.mem_cons_self
    have hlt : cur.idxOf t < cur.length := List.idxOf_lt_length_of_mem hmem
    have hget : cur[cur.idxOf t] = t := List.getElem_idxOf hlt
    have hcons := swapList_zero_eq_cons cur (cur.idxOf t) hlt
    rw [hget] at hcons
    have hperm : (swapList cur 0 (cur.idxOf t)).tail.Perm ts := by
      have h1 : (t :: (swapList cur 0 (cur.idxOf t)).tail).Perm (t :: ts) := by
        rw [← hcons]; exact (swapList_perm _ _ _).trans hp
      exact h1.cons_inv
    simp only [realize, List.mem_cons] at hpm
    rcases hpm with rfl | hpm
    · exact ⟨by simp; omega, by simp; omega⟩
    · have := ih _ (k + 1) hperm p hpm
      have hl : (swapList cur 0 (cur.idxOf t)).tail.length = cur.length - 1 := by simp
      rw [hl] at this
      omega

/-! ### the reference sort through a consistent interface -/

theorem view_ifaceSwaps {I : Iface σ} {view : σ → List β} {lt : β → β → Bool} (hc : Consistent I view lt) :
    ∀ (sw : List (Nat × Nat)) (s : σ), (∀ p ∈ sw, p.1 < (view s).length ∧ p.2 < (view s).length) →
      view (ifaceSwaps I s sw) = applySwaps (view s) sw := by
  intro sw
  induction sw with
  | nil => intro s _; rfl
  | cons p sw ih =>
    intro s h
    have hp := h p List.mem_cons_self
    have hsw := hc.swap_eq s p.1 p.2 hp.1 hp.2
    show view (ifaceSwaps I (I.swap s p.1 p.2) sw) = applySwaps (swapList (view s) p.1 p.2) sw
    rw [ih (I.swap s p.1 p.2) (by
      intro q hq
      rw [hsw, length_swapList]
      exact h q (List.mem_cons_of_mem _ hq)), hsw]

/-- the reference sort computes, on the view, the stable merge sort by `lt` -/
theorem refSort_view {I : Iface σ} {view : σ → List β} {lt : β → β → Bool} (hc : Consistent I view lt) (s : σ) :
    view (refSort σ I s) = Sorted.stableSort lt (view s) := by
  have hperm : (List.range (I.len s)).Perm ((List.range (I.len s)).mergeSort (fun i j => !I.less s j i)) :=
    (List.mergeSort_perm _ _).symm
  have hrange := realize_range _ _ 0 hperm
  have hv : view (refSort σ I s) =
      applySwaps (view s) (realize 0 (List.range (I.len s)) ((List.range (I.len s)).mergeSort (fun i j => !I.less s j i))) := by
    apply view_ifaceSwaps hc
    intro p hp
    have := hrange p hp
    simp only [List.length_range, Nat.zero_add, hc.len_eq s] at this
    exact this
  rw [hv]
  have hn := hc.len_eq s
  generalize hvs : view s = v at *
  cases v with
  | nil =>
    simp only [List.length_nil] at hn
    simp [hn, realize, applySwaps, Sorted.stableSort]
  | cons d tl =>
    let g : Nat → β := fun i => (d :: tl).getD i d
    have hg : ∀ i (h : i < (d :: tl).length), g i = (d :: tl)[i] := by
      intro i h
      show (d :: tl).getD i d = _
      rw [List.getD_eq_getElem?_getD, List.getElem?_eq_getElem h]; rfl
    have hmap : (List.range (I.len s)).map g = d :: tl := by
      apply List.ext_getElem
      · simp [hn]
      · intro i h1 h2
        simp only [List.getElem_map, List.getElem_range]
        exact hg i h2
    conv => lhs; rw [← hmap]
    rw [← applySwaps_map]
    have hreal := realize_spec _ _ [] hperm
    simp only [List.nil_append, List.length_nil] at hreal
    rw [hreal]
    rw [List.map_mergeSort (s := fun a b => !lt b a), hmap]
    · rfl
    · intro i hi j hj
      rw [List.mem_range] at hi hj
      rw [hn] at hi hj
      have := hc.less_eq s j i (by rw [hvs]; exact hj) (by rw [hvs]; exact hi)
      rw [this, hg i hi, hg j hj]
      simp only [hvs]

/-! ### stability: from "ordered sublists survive" to "ties keep their order" -/

theorem tied_flip (lt : β → β → Bool) (x y : β) : tied (fun a b => lt b a) x y = tied lt x y := by
  simp [tied, Bool.and_comm]

theorem stable_filter {lt : β → β → Bool} (hw : StrictWeak lt) (l out : List β) (hperm : out.Perm l)
    (hst : ∀ ys, IsSorted lt ys → ys.Sublist l → ys.Sublist out) (x : β) :
    out.filter (tied lt x) = l.filter (tied lt x) := by
  have hsorted : IsSorted lt (l.filter (tied lt x)) := by
    apply List.pairwise_of_forall_mem_list
    intro a ha b hb
    have ha' := (List.mem_filter.mp ha).2
    have hb' := (List.mem_filter.mp hb).2
    simp only [tied, Bool.and_eq_true, Bool.not_eq_true'] at ha' hb'
    exact (hw.incomp_trans b x a hb'.2 hb'.1 ha'.1 ha'.2).1
  have hsub := hst _ hsorted List.filter_sublist
  have hsub2 := hsub.filter (tied lt x)
  rw [List.filter_filter] at hsub2
  simp only [Bool.and_self] at hsub2
  have hlen : (l.filter (tied lt x)).length = (out.filter (tied lt x)).length :=
    (hperm.filter _).length_eq.symm
  exact (hsub2.eq_of_length hlen).symm

theorem refSort_stableContract : StableContract refSort := by
  intro σ β I view lt hw hc s
  rw [refSort_view hc s]
  refine ⟨Lemmas.Sorted.stableSort_perm lt _, Lemmas.Sorted.stableSort_sorted hw _, ?_⟩
  intro x
  exact stable_filter hw _ _ (Lemmas.Sorted.stableSort_perm lt _)
    (fun ys h1 h2 => Lemmas.Sorted.stableSort_stable hw _ ys h1 h2) x

theorem refSort_sortContract : SortContract refSort := refSort_stableContract.toSortContract

/-! ### the adapters are consistent interfaces -/

theorem sortLess_consistent (less : α → α → Bool) : Consistent (sortLess less) id less where
  len_eq _ := rfl
  less_eq s i j hi hj := by
    simp only [id] at hi hj
    simp [sortLess, List.getElem?_eq_getElem hi, List.getElem?_eq_getElem hj]
  swap_eq _ _ _ _ _ := rfl

theorem sortOrdered_consistent [LT α] [DecidableLT α] :
    Consistent (sortOrdered (α := α)) id (fun a b => decide (a < b)) where
  len_eq _ := rfl
  less_eq s i j hi hj := by
    simp only [id] at hi hj
    simp [sortOrdered, List.getElem?_eq_getElem hi, List.getElem?_eq_getElem hj]
  swap_eq _ _ _ _ _ := rfl

theorem reverse_consistent {I : Iface σ} {view : σ → List β} {lt : β → β → Bool} (hc : Consistent I view lt) :
    Consistent (reverse I) view (fun a b => lt b a) where
  len_eq := hc.len_eq
  less_eq s i j hi hj := hc.less_eq s j i hj hi
  swap_eq := hc.swap_eq

/-! ### binary search -/

theorem binarySearch_eq_search [LT α] [DecidableLT α] [LE α] [DecidableLE α]
    (hge : ∀ a b : α, a ≥ b ↔ ¬ a < b) (slice : List α) (v : α) :
    binarySearch slice v = (⟨slice, fun a b => decide (a < b)⟩ : Sorted.Sorted α).search v := by
  unfold binarySearch Sorted.Sorted.search
  apply GoSearch.search_congr
  intro k hk
  simp only [Sorted.Sorted.pred, List.getElem?_eq_getElem hk]
  by_cases h : slice[k] < v <;> simp [h, hge]

theorem binarySearchFunc_spec (slice : List α) (less : α → Bool)
    (hmono : ∀ i j (hi : i < slice.length) (hj : j < slice.length), i ≤ j → less slice[j] = true → less slice[i] = true) :
    binarySearchFunc slice less ≤ slice.length ∧
    (∀ i (h : i < slice.length), i < binarySearchFunc slice less → less slice[i] = true) ∧
    (∀ i (h : i < slice.length), binarySearchFunc slice less ≤ i → less slice[i] = false) := by
  have hm : GoSearch.Monotone slice.length (fun i => match slice[i]? with | some x => !less x | none => true) := by
    intro i j hij hj hi
    have hi' : i < slice.length := by omega
    simp only [List.getElem?_eq_getElem hi', List.getElem?_eq_getElem hj, Bool.not_eq_true'] at hi ⊢
    cases hlj : less slice[j] with
    | false => rfl
    | true => rw [hmono i j hi' hj hij hlj] at hi; cases hi
  obtain ⟨h1, h2, h3⟩ := GoSearch.search_lower_bound _ _ hm
  refine ⟨h1, ?_, ?_⟩
  · intro i h hi
    have := h2 i hi
    simpa [List.getElem?_eq_getElem h] using this
  · intro i h hi
    have := h3 i hi h
    simpa [List.getElem?_eq_getElem h] using this

end TypVerif.Lemmas.SortAdapters
