import TypVerif.Lemmas.ConcAcceptC10
/-
C10, completeness of the judge's reduction (`Drv.C10.succJ`): definitions and the algebra of the "lag" transformer.

A LAG STEP is one of the two kinds of internal steps that the judge's reduced system may postpone:
* `rd`  — a `sendAsync` goroutine takes the read lock (`asyncStart o it ↦ asyncSend o it false`, `readers + 1`);
* `ann` — a writer announces (`subStart/unsubStart/uaStart ↦ …Wait`, `waiting + 1`).
Both only touch the task itself and one counter of the `RWMutex` of one object: `lagT o f g t'`.
-/
namespace TypVerif.Lemmas.PubSubRed
open TypVerif TypVerif.Conc TypVerif.Model.PubSub TypVerif.Drv.C10

/-! ### object updates -/

def updObj (o : Nat) (F : ObjSt → ObjSt) (x : State) : State := x.setObj o (F (x.obj o))

def rwMap (f : RW → RW) (ob : ObjSt) : ObjSt := { ob with rw := f ob.rw }

/-- the lag transformer: `f` on the RWMutex of object `o`, task `g` becomes `t'` -/
def lagT (o : Nat) (f : RW → RW) (g : Nat) (t' : Task) (x : State) : State :=
  (updObj o (rwMap f) x).setTask g t'

theorem rlock_eq (x : State) (o : Nat) : x.rlock o = updObj o (rwMap RW.rlock) x := rfl
theorem runlock_eq (x : State) (o : Nat) : x.runlock o = updObj o (rwMap RW.runlock) x := rfl
theorem announce_eq (x : State) (o : Nat) : x.announce o = updObj o (rwMap RW.announce) x := rfl

theorem obj_setObj (x : State) (o o' : Nat) (A : ObjSt) :
    (x.setObj o A).obj o' = if o = o' ∧ o < x.objs.length then A else x.obj o' := by
  simp only [State.obj, State.setObj, List.getD_eq_getElem?_getD, List.getElem?_set]
  by_cases h : o = o'
  · subst h
    by_cases hl : o < x.objs.length
    · simp [hl]
    · simp [hl]
  · simp [h]

theorem obj_setObj_self (x : State) (o : Nat) (A : ObjSt) (ho : o < x.objs.length) : (x.setObj o A).obj o = A := by
  rw [obj_setObj]; simp [ho]

theorem obj_setObj_ne (x : State) (o o' : Nat) (A : ObjSt) (h : o ≠ o') : (x.setObj o A).obj o' = x.obj o' := by
  rw [obj_setObj]; simp [h]

theorem setObj_setObj_same (x : State) (o : Nat) (A B : ObjSt) : (x.setObj o A).setObj o B = x.setObj o B := by
  simp [State.setObj, List.set_set]

theorem setObj_setObj_ne (x : State) (o o' : Nat) (A B : ObjSt) (h : o ≠ o') :
    (x.setObj o A).setObj o' B = (x.setObj o' B).setObj o A := by
  simp [State.setObj, List.set_comm _ _ h]

theorem updObj_updObj_same (x : State) (o : Nat) (F H : ObjSt → ObjSt) (ho : o < x.objs.length) :
    updObj o F (updObj o H x) = x.setObj o (F (H (x.obj o))) := by
  unfold updObj
  rw [obj_setObj_self _ _ _ ho, setObj_setObj_same]

theorem updObj_comm_ne (x : State) (o o' : Nat) (F H : ObjSt → ObjSt) (h : o ≠ o') :
    updObj o F (updObj o' H x) = updObj o' H (updObj o F x) := by
  unfold updObj
  rw [obj_setObj_ne _ _ _ _ (Ne.symm h), obj_setObj_ne _ _ _ _ h, setObj_setObj_ne _ _ _ _ _ (Ne.symm h)]

/-- two updates of objects commute: different objects, or commuting functions -/
theorem updObj_comm (x : State) (o o' : Nat) (F H : ObjSt → ObjSt) (ho : o < x.objs.length)
    (h : o = o' → F (H (x.obj o)) = H (F (x.obj o))) :
    updObj o F (updObj o' H x) = updObj o' H (updObj o F x) := by
  by_cases hne : o = o'
  · subst hne
    rw [updObj_updObj_same _ _ _ _ ho, updObj_updObj_same _ _ _ _ ho, h rfl]
  · exact updObj_comm_ne x o o' F H hne

@[simp] theorem updObj_objs_length (x : State) (o : Nat) (F : ObjSt → ObjSt) : (updObj o F x).objs.length = x.objs.length := by
  simp [updObj, State.setObj]


/-! ### fields of `lagT` -/
section
variable (o : Nat) (f : RW → RW) (g : Nat) (t' : Task) (x : State)

@[simp] theorem lagT_chans : (lagT o f g t' x).chans = x.chans := rfl
@[simp] theorem lagT_wgs : (lagT o f g t' x).wgs = x.wgs := rfl
@[simp] theorem lagT_pids : (lagT o f g t' x).pids = x.pids := rfl
@[simp] theorem lagT_panicked : (lagT o f g t' x).panicked = x.panicked := rfl
@[simp] theorem lagT_exited : (lagT o f g t' x).exited = x.exited := rfl
@[simp] theorem lagT_delivered : (lagT o f g t' x).delivered = x.delivered := rfl
@[simp] theorem lagT_timedOut : (lagT o f g t' x).timedOut = x.timedOut := rfl
theorem lagT_tasks : (lagT o f g t' x).tasks = x.tasks.set g t' := rfl
@[simp] theorem lagT_tasks_length : (lagT o f g t' x).tasks.length = x.tasks.length := by simp [lagT_tasks]
@[simp] theorem lagT_objs_length : (lagT o f g t' x).objs.length = x.objs.length := by
  show (updObj o (rwMap f) x).objs.length = _
  simp

theorem lagT_task_ne (k : Nat) (hk : k ≠ g) : (lagT o f g t' x).tasks[k]? = x.tasks[k]? := by
  rw [lagT_tasks, List.getElem?_set_ne (Ne.symm hk)]

theorem lagT_task_self (hg : g < x.tasks.length) : (lagT o f g t' x).tasks[g]? = some t' := by
  rw [lagT_tasks, List.getElem?_set_self hg]

theorem lagT_obj (ho : o < x.objs.length) (o' : Nat) :
    (lagT o f g t' x).obj o' = if o' = o then rwMap f (x.obj o) else x.obj o' := by
  show ((x.setObj o (rwMap f (x.obj o))).setTask g t').obj o' = _
  show (x.setObj o (rwMap f (x.obj o))).obj o' = _
  rw [obj_setObj]
  by_cases h : o = o'
  · subst h; simp [ho]
  · simp [h, Ne.symm h]

theorem lagT_obj_self (ho : o < x.objs.length) : (lagT o f g t' x).obj o = rwMap f (x.obj o) := by
  rw [lagT_obj _ _ _ _ _ ho]; simp

theorem lagT_obj_ne (o' : Nat) (h : o' ≠ o) : (lagT o f g t' x).obj o' = x.obj o' := by
  show (x.setObj o (rwMap f (x.obj o))).obj o' = _
  exact obj_setObj_ne _ _ _ _ (Ne.symm h)

@[simp] theorem rwMap_subs (ob : ObjSt) : (rwMap f ob).subs = ob.subs := rfl
@[simp] theorem rwMap_ready (ob : ObjSt) : (rwMap f ob).ready = ob.ready := rfl
@[simp] theorem rwMap_only (ob : ObjSt) : (rwMap f ob).only = ob.only := rfl
@[simp] theorem rwMap_rw (ob : ObjSt) : (rwMap f ob).rw = f ob.rw := rfl

theorem lagT_obj_subs (ho : o < x.objs.length) (o' : Nat) : ((lagT o f g t' x).obj o').subs = (x.obj o').subs := by
  rw [lagT_obj _ _ _ _ _ ho]; split
  · rename_i h; subst h; rfl
  · rfl

theorem lagT_obj_ready (ho : o < x.objs.length) (o' : Nat) : ((lagT o f g t' x).obj o').ready = (x.obj o').ready := by
  rw [lagT_obj _ _ _ _ _ ho]; split
  · rename_i h; subst h; rfl
  · rfl

theorem lagT_validObj (ho : o < x.objs.length) (o' : Nat) : (lagT o f g t' x).validObj o' = x.validObj o' := by
  unfold State.validObj
  rw [lagT_objs_length, lagT_obj_ready _ _ _ _ _ ho]

/-! ### `lagT` commutes with the state updates of the model -/

theorem lagT_setTask (k : Nat) (t'' : Task) (hk : k ≠ g) :
    (lagT o f g t' x).setTask k t'' = lagT o f g t' (x.setTask k t'') := by
  show { (updObj o (rwMap f) x) with tasks := (x.tasks.set g t').set k t'' } = { (updObj o (rwMap f) x) with tasks := (x.tasks.set k t'').set g t' }
  rw [List.set_comm _ _ (Ne.symm hk)]

theorem lagT_spawn (ts : List Task) (hg : g < x.tasks.length) :
    (lagT o f g t' x).spawn ts = lagT o f g t' (x.spawn ts) := by
  show { (updObj o (rwMap f) x) with tasks := x.tasks.set g t' ++ ts } = { (updObj o (rwMap f) x) with tasks := (x.tasks ++ ts).set g t' }
  rw [List.set_append_left _ _ hg]

theorem lagT_updObj (o' : Nat) (H : ObjSt → ObjSt) (ho : o < x.objs.length)
    (h : o = o' → rwMap f (H (x.obj o)) = H (rwMap f (x.obj o))) :
    updObj o' H (lagT o f g t' x) = lagT o f g t' (updObj o' H x) := by
  show (updObj o' H (updObj o (rwMap f) x)).setTask g t' = (updObj o (rwMap f) (updObj o' H x)).setTask g t'
  rw [updObj_comm x o o' (rwMap f) H ho h]

theorem lagT_panic (m : String) : (lagT o f g t' x).panic m = lagT o f g t' (x.panic m) := rfl
theorem lagT_logTimeout (it : Item) : (lagT o f g t' x).logTimeout it = lagT o f g t' (x.logTimeout it) := rfl
theorem lagT_wgDone (w : Nat) : wgDone (lagT o f g t' x) w = lagT o f g t' (wgDone x w) := by
  unfold wgDone
  by_cases h : (x.wgs.getD w 0 == 0) = true
  · rw [if_pos h, if_pos (show ((lagT o f g t' x).wgs.getD w 0 == 0) = true from h)]; rfl
  · rw [if_neg h, if_neg (show ¬ ((lagT o f g t' x).wgs.getD w 0 == 0) = true from h)]; rfl

end

end TypVerif.Lemmas.PubSubRed
