import TypVerif.Lemmas.OnceRedAccept
import TypVerif.Lemmas.ConcAcceptC17Drv
/-
Completeness of the fold the C17 driver performs (`ConcAcceptC17.jfold`), part 1: padding a state with idle goroutines
(`Drv.C17.padTo`) commutes with everything the reduced system does.

* `padTo_pc_all`, `goodX_pad`, `nf_pad`, `pick_pad_none` : program counters, the invariant, the normal form, urgency.
* `succ_pad_inv`, `stepT_pad_inv` : a step of a padded state is the padding of a step, or the `call` of a new goroutine.
* `red_succ_pad_inv`, `tauN_pad_inv` : internal steps of `red` from a padded state are paddings of internal steps.
* `tauN_indep` : internal reachability in `red n a res` does not depend on `n`, `a`, `res`.
* `cover_pad` : the covering invariant is preserved when the judge pads its state set.
-/
namespace TypVerif.Lemmas.C17Drv
open TypVerif TypVerif.Conc TypVerif.Model.Once TypVerif.Drv.C17 TypVerif.Lemmas.Once TypVerif.Lemmas.OnceRed
open TypVerif.Lemmas.ConcAcceptC17

/-! ### program counters of a padded state -/

theorem pc_ge (s : State) (u : Nat) (h : s.pcs.length ≤ u) : s.pc u = .idle := by
  unfold State.pc
  simp [List.getD_eq_getElem?_getD, List.getElem?_eq_none h]

theorem padTo_pc_all (m : Nat) (s : State) (u : Nat) : (padTo m s).pc u = s.pc u := by
  by_cases hu : u < s.pcs.length
  · exact padTo_pc m s u hu
  · rw [pc_ge s u (Nat.le_of_not_lt hu)]
    unfold padTo State.pc
    simp only [List.getD_eq_getElem?_getD, List.getElem?_append_right (Nat.le_of_not_lt hu),
      List.getElem?_replicate]
    split <;> rfl

theorem padTo_len (m : Nat) (s : State) : (padTo m s).pcs.length = s.pcs.length + (m - s.pcs.length) := by
  simp [padTo]

theorem padTo_padTo (n' N : Nat) (p : State) (h : n' ≤ N) : padTo N (padTo n' p) = padTo N p := by
  unfold padTo
  simp only [List.length_append, List.length_replicate, List.append_assoc, List.replicate_append_replicate]
  congr 3
  omega

theorem padTo_of_le (m : Nat) (s : State) (h : m ≤ s.pcs.length) : padTo m s = s := by
  unfold padTo
  have : m - s.pcs.length = 0 := by omega
  rw [this]
  simp

/-! ### the invariant, urgency, the normal form -/

theorem threadOk_pad (m : Nat) (s : State) (t : Nat) : ThreadOk (padTo m s) t ↔ ThreadOk s t := by
  unfold ThreadOk
  rw [padTo_pc_all]
  exact Iff.rfl

theorem goodX_pad (m : Nat) (s : State) (hg : GoodX s) : GoodX (padTo m s) := by
  refine ⟨⟨fun t => (threadOk_pad m s t).2 (hg.good.thread t), hg.good.doneT, ?_⟩, ?_⟩
  · intro hd
    rcases hg.good.doneF hd with h | ⟨t, ht⟩
    · exact Or.inl h
    · exact Or.inr ⟨t, by rw [padTo_pc_all]; exact ht⟩
  · intro w hw
    rw [padTo_pc_all]
    exact hg.holder w hw

theorem urgent_pad (m : Nat) (s : State) (t : Nat) : urgent (padTo m s) t = urgent s t := by
  unfold urgent
  rw [padTo_pc_all]
  rfl

theorem willDone_pad (m : Nat) (s : State) : willDone (padTo m s) = willDone s := by
  unfold willDone
  show (s.done || match s.mu with | some w => isAS ((padTo m s).pc w) | none => false) = _
  cases s.mu with
  | none => rfl
  | some w => simp only [padTo_pc_all]

theorem nf_pad (m : Nat) (s : State) : nf (padTo m s) = padTo m (nf s) := by
  have hW := willDone_pad m s
  unfold nf
  rw [hW]
  simp [padTo, List.map_append, nfPc]

theorem bud_pad (m : Nat) (s : State) : bud (padTo m s) = bud s := rfl

theorem pick_pad_none (m : Nat) (s : State) : pick (padTo m s) = none ↔ pick s = none := by
  constructor
  · intro h
    apply pick_none_of
    intro t
    rw [← urgent_pad m s t]
    exact pick_none_iff _ h t
  · intro h
    apply pick_none_of
    intro t
    rw [urgent_pad]
    exact pick_none_iff _ h t

/-! ### steps of a padded state -/

theorem stepT_idle (res : Nat → List Int) (s : State) (t : Nat) (h : s.pc t = .idle) :
    stepT res s t = [(some (.call t), s.setPc t .fast)] := by
  unfold stepT
  rw [h]

theorem stepT_pad_inv (res : Nat → List Int) (m : Nat) (y : State) (t : Nat) (l : Option Event) (x : State)
    (hty : t < y.pcs.length) (hm : (l, x) ∈ stepT res (padTo m y) t) :
    ∃ x0, (l, x0) ∈ stepT res y t ∧ x = padTo m x0 := by
  rw [stepT_pad res m y t hty] at hm
  obtain ⟨⟨l0, x0⟩, hm0, heq⟩ := List.mem_map.1 hm
  simp only [Prod.mk.injEq] at heq
  obtain ⟨rfl, rfl⟩ := heq
  exact ⟨x0, hm0, rfl⟩

theorem succ_pad_inv (res : Nat → List Int) (m : Nat) (y : State) (l : Option Event) (x : State)
    (h : (l, x) ∈ succ res (padTo m y)) :
    (∃ x0, (l, x0) ∈ succ res y ∧ x = padTo m x0) ∨ (∃ t, y.pcs.length ≤ t ∧ l = some (.call t)) := by
  obtain ⟨t, ht, hm⟩ := mem_succ.1 h
  by_cases hty : t < y.pcs.length
  · left
    obtain ⟨x0, hm0, hx⟩ := stepT_pad_inv res m y t l x hty hm
    exact ⟨x0, mem_succ.2 ⟨t, hty, hm0⟩, hx⟩
  · right
    have hpc : (padTo m y).pc t = .idle := by
      rw [padTo_pc_all]
      exact pc_ge y t (Nat.le_of_not_lt hty)
    rw [stepT_idle _ _ _ hpc] at hm
    simp only [List.mem_singleton, Prod.mk.injEq] at hm
    exact ⟨t, Nat.le_of_not_lt hty, hm.1⟩

/-- the label of a step of goroutine `t`: internal (then `t` is not idle), or an event of `t`; a `fend` shows `res t` -/
theorem stepT_label (res : Nat → List Int) (s : State) (t : Nat) (l : Option Event) (s' : State)
    (h : (l, s') ∈ stepT res s t) :
    (l = none ∧ s.pc t ≠ .idle) ∨
      (∃ e, l = some e ∧ Event.tid e = t ∧ (∀ u r, e = .fend u r → r = res t)) := by
  unfold stepT at h
  split at h <;> rename_i heq
  all_goals first
    | (simp only [List.mem_singleton, Prod.mk.injEq] at h
       obtain ⟨rfl, rfl⟩ := h
       simp [heq, Event.tid]
       done)
    | (split at h
       · simp only [List.mem_singleton, Prod.mk.injEq] at h
         obtain ⟨rfl, rfl⟩ := h
         simp [heq]
       · cases h)
    | cases h

theorem stepT_len (res : Nat → List Int) (s : State) (t : Nat) (l : Option Event) (s' : State)
    (h : (l, s') ∈ stepT res s t) : s'.pcs.length = s.pcs.length := by
  obtain ⟨p, hp, _⟩ := stepT_shape res s t l s' h
  rw [hp, List.length_set]

/-! ### internal steps of `red` -/

theorem red_succ_tau_indep (n a : Nat) (res : Nat → List Int) (n' a' : Nat) (res' : Nat → List Int)
    (s s1 : State) (h : (none, s1) ∈ (red n a res).succ s) : (none, s1) ∈ (red n' a' res').succ s := by
  cases hp : pick s with
  | none =>
    rw [red_succ_none _ _ _ _ hp] at h ⊢
    exact succ_res res res' s none s1 h (by intro t r hl; cases hl)
  | some x' =>
    rw [red_succ_some _ _ _ _ _ hp] at h ⊢
    exact h

theorem tauN_indep (n a : Nat) (res : Nat → List Int) (n' a' : Nat) (res' : Nat → List Int)
    {k : Nat} {x y : (red n a res).State} (h : TauN (red n a res) k x y) : TauN (red n' a' res') k x y := by
  induction h with
  | refl k s => exact TauN.refl _ _
  | step hm _ ih => exact TauN.step (red_succ_tau_indep n a res n' a' res' _ _ hm) ih

theorem goodX_red_tau (n a : Nat) (res : Nat → List Int) (y y1 : State) (hg : GoodX y)
    (hm : (none, y1) ∈ (red n a res).succ y) : GoodX y1 := by
  obtain ⟨ls, hex, _⟩ := red_step_sound n a res y y1 none hm
  exact goodX_exec n a res hex hg

theorem red_succ_pad_inv (n a : Nat) (res : Nat → List Int) (m : Nat) (y s1 : State) (hg : GoodX y)
    (hm : (none, s1) ∈ (red n a res).succ (padTo m y)) :
    ∃ y1, s1 = padTo m y1 ∧ (none, y1) ∈ (red n a res).succ y := by
  cases hp : pick y with
  | none =>
    have hp' : pick (padTo m y) = none := (pick_pad_none m y).2 hp
    rw [red_succ_none _ _ _ _ hp'] at hm
    rw [red_succ_none _ _ _ _ hp]
    rcases succ_pad_inv res m y none s1 hm with ⟨x0, hx0, hx⟩ | ⟨t, _, hl⟩
    · exact ⟨x0, hx, hx0⟩
    · cases hl
  | some y' =>
    cases hp' : pick (padTo m y) with
    | none =>
      rw [(pick_pad_none m y).1 hp'] at hp
      cases hp
    | some z =>
      rw [red_succ_some _ _ _ _ _ hp', normalize_red_eq_nf _ (goodX_pad m y hg)] at hm
      rw [red_succ_some _ _ _ _ _ hp, normalize_red_eq_nf _ hg]
      have hm2 := (Prod.mk.inj (List.eq_of_mem_singleton hm)).2
      exact ⟨nf y, by rw [hm2, nf_pad], List.mem_singleton.2 rfl⟩

theorem tauN_pad_inv (n a : Nat) (res : Nat → List Int) (m : Nat) {k : Nat} {z x : (red n a res).State}
    (h : TauN (red n a res) k z x) :
    ∀ y, GoodX y → z = padTo m y → ∃ x0, x = padTo m x0 ∧ TauN (red n a res) k y x0 := by
  induction h with
  | refl k s =>
    intro y _ hz
    exact ⟨y, hz, TauN.refl _ _⟩
  | step hm _ ih =>
    intro y hg hz
    subst hz
    obtain ⟨y1, hy1, hm1⟩ := red_succ_pad_inv n a res m y _ hg hm
    obtain ⟨x0, hx0, ht0⟩ := ih y1 (goodX_red_tau n a res y y1 hg hm1) hy1
    exact ⟨x0, hx0, TauN.step hm1 ht0⟩

/-! ### the covering invariant -/

/-- the result function the covering invariant is stated with (irrelevant: `tauN_indep`) -/
def cres : Nat → List Int := fun _ => []

/-- the state set `ss` of the judge covers the model state `p` (`OnceRed.Cover` without the system parameters) -/
def CoverD (ss : List State) (p : State) : Prop :=
  ∀ (x : State) (k : Nat), k ≤ bud p → TauN (red 0 0 cres) k (nf p) x → x ∈ ss

theorem cover_pad (m : Nat) (ss : List State) (p : State) (hg : GoodX p) (hc : CoverD ss p) :
    CoverD (ss.map (padTo m)) (padTo m p) := by
  intro x k hk ht
  rw [bud_pad] at hk
  obtain ⟨x0, hx0, ht0⟩ := tauN_pad_inv 0 0 cres m ht (nf p) (goodX_nf p hg) (nf_pad m p)
  exact List.mem_map.2 ⟨x0, hc x0 k hk ht0, hx0.symm⟩

end TypVerif.Lemmas.C17Drv
