import TypVerif.Lemmas.ListOps3
/-
Method-level simulation, part 4: the counted loops of PushBackList / PushFrontList (including `other == l`).
-/
namespace TypVerif.Lemmas.LinkedList
open TypVerif.Spec.ListOp
open TypVerif.Spec.Seq
open TypVerif.Model
open TypVerif.Model.LinkedList

theorem Sim.inited_of_nonempty {h : Heap} {w : World} (hs : Sim h w) {l : ListId} {x : ElemId}
    (hx : x ∈ w.lists.get l) : Inited h w l :=
  hs.linked_of_mem ((hs.mem x l).2 hx)

theorem place_lists_get (w : World) (l : ListId) (e : ElemId) (v : Int) (xs : List ElemId) (o : ListId) :
    (w.place l e v xs).lists.get o = if o = l then xs else w.lists.get o := by
  show (w.lists.set l xs).get o = _
  rw [Store.get_set]

theorem place_owner_get (w : World) (l : ListId) (e : ElemId) (v : Int) (xs : List ElemId) (x : ElemId) :
    (w.place l e v xs).owner.get x = if x = e then some l else w.owner.get x := by
  show (w.owner.set e (some l)).get x = _
  rw [Store.get_set]

theorem specNext_split {h : Heap} {w : World} (hs : Sim h w) {o : ListId} {x : ElemId} {pre rest : List ElemId}
    (hl : w.lists.get o = pre ++ x :: rest) : specNext w x = optPtr rest.head? := by
  have hx : x ∈ w.lists.get o := by rw [hl]; simp
  have ho := (hs.mem x o).2 hx
  have hnd := hs.nodup o
  rw [hl] at hnd
  have hpre : x ∉ pre := fun hh => (List.nodup_append.1 hnd).2.2 x hh x (by simp) rfl
  unfold specNext
  rw [ho]; simp only []
  rw [hl, succOf_split hpre]

theorem specPrev_split {h : Heap} {w : World} (hs : Sim h w) {o : ListId} {x : ElemId} {pre rest : List ElemId}
    (hl : w.lists.get o = pre ++ x :: rest) : specPrev w x = optPtr pre.getLast? := by
  have hx : x ∈ w.lists.get o := by rw [hl]; simp
  have ho := (hs.mem x o).2 hx
  have hnd := hs.nodup o
  rw [hl] at hnd
  have hrest : x ∉ rest := (List.nodup_cons.1 (List.nodup_append.1 hnd).2.1).1
  unfold specPrev
  rw [ho]; simp only []
  rw [hl, predOf_split hrest]

theorem nat_aux1 (a j : Nat) : a + 1 + j = a + (j + 1) := by omega
theorem nat_aux2 (a j : Nat) : a + (j + 1) ≠ a := by omega
theorem nat_aux3 (a j k : Nat) (h : j < k) : a + j ≠ a + k := by omega

/-! ### PushBackList -/

theorem pushBackLoop_sim (l o : ListId) : ∀ (rem : List ElemId) {h : Heap} {w : World} {id : ElemId} {e : Ptr}
    {pre post : List ElemId}, Sim h w → Inited h w l → w.lists.get o = pre ++ rem ++ post →
    (rem ≠ [] → e = optPtr rem.head?) →
    (∀ j, j < rem.length → w.owner.get (id + j) = none ∧ id + j < w.nextId) →
    Agree (pushBackLoop l rem.length id e h) (pushBackAll l id rem w) ()
  | [], h, w, _, _, _, _, hs, _, _, _, _ => ⟨h, rfl, hs⟩
  | x :: rem, h, w, id, e, pre, post, hs, hin, hl, he, hfree => by
    have he' : e = .elem x := he (by simp)
    subst he'
    have hid := hfree 0 (by simp)
    simp only [Nat.add_zero] at hid
    show Agree (pushBackLoop l (rem.length + 1) id (.elem x) h) _ ()
    unfold pushBackLoop pushBackAll
    rw [bind_ok (getValue_ok _ (elem_ne_null x)), bind_ok (getPrev_ok _ (root_ne_null l)),
      Linked.prev_root hin.1, hs.value]
    have hat : ptrOr l (w.lists.get l).getLast? ∈ (cyc l (w.lists.get l)).dropLast :=
      ptrOr_mem_dropLast (fun z hz => List.mem_of_getLast? hz)
    obtain ⟨h1, hr1, hs1⟩ := insertValue_sim hs (w.value.get x) hin hat hid.1 hid.2
    rw [insAfter_last _ (hs.nodup l)] at hs1
    rw [bind_ok hr1]
    -- the list `o` in the new world
    have hl1 : ∃ post', (w.place l id (w.value.get x) (w.lists.get l ++ [id])).lists.get o
        = (pre ++ [x]) ++ rem ++ post' := by
      rw [place_lists_get]
      by_cases hol : o = l
      · subst hol
        rw [if_pos rfl, hl]
        exact ⟨post ++ [id], by simp⟩
      · rw [if_neg hol, hl]
        exact ⟨post, by simp⟩
    obtain ⟨post', hl1⟩ := hl1
    have hl1' : (w.place l id (w.value.get x) (w.lists.get l ++ [id])).lists.get o
        = pre ++ x :: (rem ++ post') := by rw [hl1]; simp
    rw [bind_ok (elemNext_run hs1 x), specNext_split hs1 hl1']
    have hin1 : Inited h1 (w.place l id (w.value.get x) (w.lists.get l ++ [id])) l := by
      apply hs1.inited_of_nonempty (x := id)
      rw [place_lists_get, if_pos rfl]; simp
    apply pushBackLoop_sim l o rem hs1 hin1 hl1
    · intro hne
      cases rem with
      | nil => exact absurd rfl hne
      | cons y ys => rfl
    · intro j hj
      have hj' : j + 1 < (x :: rem).length := by simp only [List.length_cons]; omega
      have := hfree (j + 1) hj'
      have e1 : id + 1 + j = id + (j + 1) := nat_aux1 id j
      have hne : id + (j + 1) ≠ id := nat_aux2 id j
      rw [e1, place_owner_get, if_neg hne]
      exact this

theorem pushBackList_sim {h : Heap} {w : World} (hs : Sim h w) (l o : ListId) :
    Agree (pushBackList l o h) (Spec.Seq.step w (.pushBackList l o)).1 ((w.lists.get o).length : Int) := by
  unfold pushBackList
  obtain ⟨h1, hr1, hs1, hin1⟩ := lazyInit_sim hs l
  rw [bind_ok hr1, bind_ok (len_run hs1 o), bind_ok (front_run hs1 o), bind_ok (getNextElem_run h1),
    bind_ok (setNextElem_run _ _), hs1.nextId]
  simp only [Int.toNat_natCast]
  have hs2 := hs1.bumpNext (w.nextId + (w.lists.get o).length) (Nat.le_add_right _ _)
  have hloop := pushBackLoop_sim l o (w.lists.get o) (id := w.nextId)
    (e := optPtr (w.lists.get o).head?) (pre := []) (post := []) hs2 hin1 (by simp) (fun _ => rfl)
    (by
      intro j hj
      exact ⟨hs.fresh _ (Nat.le_add_right _ _), by show w.nextId + j < w.nextId + _; omega⟩)
  obtain ⟨h3, hr3, hs3⟩ := hloop
  rw [bind_ok hr3]
  exact ⟨h3, rfl, hs3⟩

/-! ### PushFrontList -/

theorem pushFrontLoop_sim (l o : ListId) (base : ElemId) : ∀ (rem : List ElemId) {h : Heap} {w : World} {e : Ptr}
    {pre post : List ElemId}, Sim h w → Inited h w l → w.lists.get o = pre ++ rem.reverse ++ post →
    (rem ≠ [] → e = optPtr rem.head?) →
    (∀ j, j < rem.length → w.owner.get (base + j) = none ∧ base + j < w.nextId) →
    Agree (pushFrontLoop l base rem.length e h) (pushFrontAll l base rem w) ()
  | [], h, w, _, _, _, hs, _, _, _, _ => ⟨h, rfl, hs⟩
  | x :: rem, h, w, e, pre, post, hs, hin, hl, he, hfree => by
    have he' : e = .elem x := he (by simp)
    subst he'
    have hid := hfree rem.length (by simp)
    show Agree (pushFrontLoop l base (rem.length + 1) (.elem x) h) _ ()
    unfold pushFrontLoop pushFrontAll
    rw [bind_ok (getValue_ok _ (elem_ne_null x)), hs.value]
    obtain ⟨h1, hr1, hs1⟩ := insertValue_sim hs (w.value.get x) hin (root_mem_dropLast l _) hid.1 hid.2
    rw [insAfter_root] at hs1
    rw [bind_ok hr1]
    have hl1 : ∃ pre', (w.place l (base + rem.length) (w.value.get x) ((base + rem.length) :: w.lists.get l)).lists.get o
        = pre' ++ rem.reverse ++ ([x] ++ post) := by
      rw [place_lists_get]
      by_cases hol : o = l
      · subst hol
        rw [if_pos rfl, hl]
        exact ⟨(base + rem.length) :: pre, by simp⟩
      · rw [if_neg hol, hl]
        exact ⟨pre, by simp⟩
    obtain ⟨pre', hl1⟩ := hl1
    have hl1' : (w.place l (base + rem.length) (w.value.get x) ((base + rem.length) :: w.lists.get l)).lists.get o
        = (pre' ++ rem.reverse) ++ x :: post := by rw [hl1]; simp
    rw [bind_ok (elemPrev_run hs1 x), specPrev_split hs1 hl1']
    have hin1 : Inited h1 (w.place l (base + rem.length) (w.value.get x) ((base + rem.length) :: w.lists.get l)) l := by
      apply hs1.inited_of_nonempty (x := base + rem.length)
      rw [place_lists_get, if_pos rfl]; simp
    apply pushFrontLoop_sim l o base rem hs1 hin1 hl1
    · intro hne
      cases rem with
      | nil => exact absurd rfl hne
      | cons y ys => simp
    · intro j hj
      have hj' : j < (x :: rem).length := by simp only [List.length_cons]; omega
      have := hfree j hj'
      have hne : base + j ≠ base + rem.length := nat_aux3 base j rem.length hj
      rw [place_owner_get, if_neg hne]
      exact this

theorem pushFrontList_sim {h : Heap} {w : World} (hs : Sim h w) (l o : ListId) :
    Agree (pushFrontList l o h) (Spec.Seq.step w (.pushFrontList l o)).1 ((w.lists.get o).length : Int) := by
  unfold pushFrontList
  obtain ⟨h1, hr1, hs1, hin1⟩ := lazyInit_sim hs l
  rw [bind_ok hr1, bind_ok (len_run hs1 o), bind_ok (back_run hs1 o), bind_ok (getNextElem_run h1),
    bind_ok (setNextElem_run _ _), hs1.nextId]
  simp only [Int.toNat_natCast]
  have hs2 := hs1.bumpNext (w.nextId + (w.lists.get o).length) (Nat.le_add_right _ _)
  have hloop := pushFrontLoop_sim l o w.nextId (w.lists.get o).reverse
    (e := optPtr (w.lists.get o).getLast?) (pre := []) (post := []) hs2 hin1 (by simp)
    (fun _ => by rw [List.head?_reverse])
    (by
      intro j hj
      rw [List.length_reverse] at hj
      exact ⟨hs.fresh _ (Nat.le_add_right _ _), by show w.nextId + j < w.nextId + _; omega⟩)
  rw [List.length_reverse] at hloop
  obtain ⟨h3, hr3, hs3⟩ := hloop
  rw [bind_ok hr3]
  exact ⟨h3, rfl, hs3⟩

end TypVerif.Lemmas.LinkedList
