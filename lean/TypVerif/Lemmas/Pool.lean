import TypVerif.Model.Pool
/-
Invariants of the Pool transition system.
-/
namespace TypVerif.Lemmas.Pool
open TypVerif TypVerif.Conc TypVerif.Model.Pool TypVerif.Model

/-- goroutine `t` owns item `id` -/
def Owns (s : State) (t : Nat) (id : Nat) : Prop := id ∈ (s.thr t).items

structure Good (s : State) : Prop where
  owner : ∀ t1 t2 id, Owns s t1 id → Owns s t2 id → t1 = t2
  notBag : ∀ t id, Owns s t id → id ∉ s.bag
  nodupT : ∀ t, (s.thr t).items.Nodup
  nodupB : s.bag.Nodup
  known : ∀ id, (id ∈ s.bag ∨ ∃ t, Owns s t id) → id ≠ 0 ∧ (id < 1000 → id ∈ s.minted) ∧ id < s.fresh
  freshLB : 1000 ≤ s.fresh

theorem thr_init (n t : Nat) : (init n).thr t = ⟨.idle, []⟩ := by
  unfold State.thr init
  simp only [List.getD_eq_getElem?_getD, List.getElem?_replicate]
  split <;> rfl

theorem good_init (n : Nat) : Good (init n) := by
  refine ⟨?_, ?_, ?_, ?_, ?_, ?_⟩
  · intro t1 t2 id h; simp [Owns, thr_init, Thr.items, localItems] at h
  · intro t id h; simp [Owns, thr_init, Thr.items, localItems] at h
  · intro t; simp [thr_init, Thr.items, localItems]
  · simp [init]
  · intro id h
    rcases h with h | ⟨t, h⟩
    · simp [init] at h
    · simp [Owns, thr_init, Thr.items, localItems] at h
  · simp [init]

/-! ### four kinds of steps, abstractly -/

section Transfer
variable {s s' : State} {t : Nat} {th' : Thr}

/-- the stepping goroutine keeps the same set of items; pool unchanged -/
theorem good_same (hg : Good s)
    (hthr : ∀ t', s'.thr t' = if t' = t then th' else s.thr t')
    (hmem : ∀ id, id ∈ th'.items ↔ id ∈ (s.thr t).items) (hnd : th'.items.Nodup)
    (hbag : s'.bag = s.bag) (hfresh : s'.fresh = s.fresh) (hmint : ∀ id, id ∈ s.minted → id ∈ s'.minted) :
    Good s' := by
  have hO : ∀ t' id, Owns s' t' id ↔ Owns s t' id := by
    intro t' id
    unfold Owns
    rw [hthr t']
    by_cases e : t' = t
    · subst e; simp [hmem]
    · simp [e]
  refine ⟨?_, ?_, ?_, ?_, ?_, ?_⟩
  · intro t1 t2 id h1 h2; exact hg.owner t1 t2 id ((hO _ _).mp h1) ((hO _ _).mp h2)
  · intro t' id h; rw [hbag]; exact hg.notBag t' id ((hO _ _).mp h)
  · intro t'
    rw [hthr t']
    by_cases e : t' = t
    · simp [e, hnd]
    · simp [e, hg.nodupT t']
  · rw [hbag]; exact hg.nodupB
  · intro id h
    have h' : id ∈ s.bag ∨ ∃ t, Owns s t id := by
      rcases h with h | ⟨t', h⟩
      · left; rw [← hbag]; exact h
      · right; exact ⟨t', (hO _ _).mp h⟩
    obtain ⟨a, b, c⟩ := hg.known id h'
    exact ⟨a, fun h => hmint _ (b h), by rw [hfresh]; exact c⟩
  · rw [hfresh]; exact hg.freshLB

/-- the stepping goroutine obtains `x`, which nobody owned and which is not in the pool afterwards -/
theorem good_gain (hg : Good s) (x : Nat)
    (hthr : ∀ t', s'.thr t' = if t' = t then th' else s.thr t')
    (hmem : ∀ id, id ∈ th'.items ↔ (id = x ∨ id ∈ (s.thr t).items)) (hnd : th'.items.Nodup)
    (hxfree : ∀ t', ¬ Owns s t' x)
    (hbagsub : ∀ id, id ∈ s'.bag → id ∈ s.bag) (hbagx : x ∉ s'.bag) (hbagnd : s'.bag.Nodup)
    (hx : x ≠ 0 ∧ (x < 1000 → x ∈ s'.minted) ∧ x < s'.fresh)
    (hfresh : s.fresh ≤ s'.fresh) (hmint : ∀ id, id ∈ s.minted → id ∈ s'.minted) :
    Good s' := by
  have hO : ∀ t' id, Owns s' t' id ↔ (Owns s t' id ∨ (t' = t ∧ id = x)) := by
    intro t' id
    unfold Owns
    rw [hthr t']
    by_cases e : t' = t
    · subst e
      simp only [if_true, hmem, true_and]
      exact Or.comm
    · simp [e]
  refine ⟨?_, ?_, ?_, ?_, ?_, ?_⟩
  · intro t1 t2 id h1 h2
    rcases (hO _ _).mp h1 with h1 | ⟨e1, e1'⟩ <;> rcases (hO _ _).mp h2 with h2 | ⟨e2, e2'⟩
    · exact hg.owner t1 t2 id h1 h2
    · exact absurd (e2' ▸ h1) (hxfree _)
    · exact absurd (e1' ▸ h2) (hxfree _)
    · rw [e1, e2]
  · intro t' id h hb
    rcases (hO _ _).mp h with h | ⟨rfl, rfl⟩
    · exact hg.notBag t' id h (hbagsub _ hb)
    · exact hbagx hb
  · intro t'
    rw [hthr t']
    by_cases e : t' = t
    · simp [e, hnd]
    · simp [e, hg.nodupT t']
  · exact hbagnd
  · intro id h
    have h' : id = x ∨ (id ∈ s.bag ∨ ∃ t, Owns s t id) := by
      rcases h with h | ⟨t', h⟩
      · right; left; exact hbagsub _ h
      · rcases (hO _ _).mp h with h | ⟨_, rfl⟩
        · right; right; exact ⟨t', h⟩
        · left; rfl
    rcases h' with rfl | h'
    · exact hx
    · obtain ⟨a, b, c⟩ := hg.known id h'
      exact ⟨a, fun h => hmint _ (b h), Nat.lt_of_lt_of_le c hfresh⟩
  · exact Nat.le_trans hg.freshLB hfresh

/-- the stepping goroutine hands `x`, which it owned, to the pool -/
theorem good_give (hg : Good s) (x : Nat)
    (hthr : ∀ t', s'.thr t' = if t' = t then th' else s.thr t')
    (hmem : ∀ id, id ∈ (s.thr t).items ↔ (id = x ∨ id ∈ th'.items)) (hnd : th'.items.Nodup)
    (hxnot : x ∉ th'.items)
    (hbag : s'.bag = x :: s.bag) (hfresh : s'.fresh = s.fresh) (hmint : s'.minted = s.minted) :
    Good s' := by
  have hOx : Owns s t x := by unfold Owns; rw [hmem]; left; rfl
  have hO : ∀ t' id, Owns s' t' id → Owns s t' id := by
    intro t' id
    unfold Owns
    rw [hthr t']
    by_cases e : t' = t
    · subst e; simp only [if_true]; intro h; rw [hmem]; right; exact h
    · simp [e]
  have hOne : ∀ t', ¬ Owns s' t' x := by
    intro t' h
    have h1 := hO _ _ h
    have : t' = t := hg.owner _ _ _ h1 hOx
    subst this
    unfold Owns at h
    rw [hthr t'] at h
    simp at h
    exact hxnot h
  refine ⟨?_, ?_, ?_, ?_, ?_, ?_⟩
  · intro t1 t2 id h1 h2; exact hg.owner t1 t2 id (hO _ _ h1) (hO _ _ h2)
  · intro t' id h hb
    rw [hbag] at hb
    rcases List.mem_cons.mp hb with rfl | hb
    · exact hOne t' h
    · exact hg.notBag t' id (hO _ _ h) hb
  · intro t'
    rw [hthr t']
    by_cases e : t' = t
    · simp [e, hnd]
    · simp [e, hg.nodupT t']
  · rw [hbag]
    exact List.nodup_cons.mpr ⟨hg.notBag t x hOx, hg.nodupB⟩
  · intro id h
    have h' : id ∈ s.bag ∨ ∃ t, Owns s t id := by
      rcases h with h | ⟨t', h⟩
      · rw [hbag] at h
        rcases List.mem_cons.mp h with rfl | h
        · right; exact ⟨t, hOx⟩
        · left; exact h
      · right; exact ⟨t', hO _ _ h⟩
    rw [hfresh, hmint]
    exact hg.known id h'
  · rw [hfresh]; exact hg.freshLB

end Transfer


theorem thr_mk (s : State) (t t' : Nat) (th : Thr) (ht : t < s.thrs.length) b f m :
    State.thr ⟨s.thrs.set t th, b, f, m⟩ t' = if t' = t then th else s.thr t' := by
  unfold State.thr
  simp only [List.getD_eq_getElem?_getD, List.getElem?_set]
  by_cases h : t' = t
  · subst h; simp [ht]
  · have h' : ¬ t = t' := fun e => h e.symm
    simp [h, h']

theorem mem_succ {hasNew : Bool} {menu : List Op} {s : State} {p : Option Event × State} :
    p ∈ succ hasNew menu s ↔ ∃ t, t < s.thrs.length ∧ p ∈ stepT hasNew menu s t := by
  unfold succ
  simp [List.mem_flatMap, List.mem_range]

/-- the shape of every step -/
inductive Shape (hasNew : Bool) (menu : List Op) (s : State) (t : Nat) : Option Event → State → Prop where
  | invGet : (s.thr t).pc = .idle → Op.get ∈ menu →
      Shape hasNew menu s t (some (.inv t .get)) ⟨s.thrs.set t ⟨.g0, (s.thr t).held⟩, s.bag, s.fresh, s.minted⟩
  | invPut (id : Nat) : (s.thr t).pc = .idle → Op.put id ∈ menu → mayPut s (s.thr t) id = true →
      Shape hasNew menu s t (some (.inv t (.put id)))
        ⟨s.thrs.set t ⟨.p0 id, (s.thr t).held.erase id⟩, s.bag, s.fresh,
          if (s.thr t).held.contains id then s.minted else id :: s.minted⟩
  | readNew : (s.thr t).pc = .g0 →
      Shape hasNew menu s t none
        ⟨s.thrs.set t ⟨if hasNew then .g1 else .gRet none, (s.thr t).held⟩, s.bag, s.fresh, s.minted⟩
  | poolHit (x : Nat) : (s.thr t).pc = .g1 → x ∈ s.bag →
      Shape hasNew menu s t none
        ⟨s.thrs.set t ⟨.gRet (some x), (s.thr t).held⟩, s.bag.erase x, s.fresh, s.minted⟩
  | poolMiss : (s.thr t).pc = .g1 →
      Shape hasNew menu s t none ⟨s.thrs.set t ⟨.g2, (s.thr t).held⟩, s.bag, s.fresh, s.minted⟩
  | callNew : (s.thr t).pc = .g2 →
      Shape hasNew menu s t none
        ⟨s.thrs.set t ⟨.gRet (some s.fresh), (s.thr t).held⟩, s.bag, s.fresh + 1, s.minted⟩
  | retGet (x : Option Nat) : (s.thr t).pc = .gRet x →
      Shape hasNew menu s t (some (.res t (.item (x.getD 0))))
        ⟨s.thrs.set t ⟨.idle, match x with | some i => i :: (s.thr t).held | none => (s.thr t).held⟩,
          s.bag, s.fresh, s.minted⟩
  | poolPut (id : Nat) : (s.thr t).pc = .p0 id →
      Shape hasNew menu s t none ⟨s.thrs.set t ⟨.pRet, (s.thr t).held⟩, id :: s.bag, s.fresh, s.minted⟩
  | retPut : (s.thr t).pc = .pRet →
      Shape hasNew menu s t (some (.res t .done)) ⟨s.thrs.set t ⟨.idle, (s.thr t).held⟩, s.bag, s.fresh, s.minted⟩

theorem step_shape {hasNew : Bool} {menu : List Op} {s s' : State} {l : Option Event}
    (h : (l, s') ∈ succ hasNew menu s) : ∃ t, t < s.thrs.length ∧ Shape hasNew menu s t l s' := by
  obtain ⟨t, ht, hstep⟩ := mem_succ.mp h
  refine ⟨t, ht, ?_⟩
  unfold stepT at hstep
  simp only at hstep
  split at hstep
  · obtain ⟨op, hop, hin⟩ := List.mem_flatMap.mp hstep
    cases op with
    | get =>
      simp only [List.mem_singleton, Prod.mk.injEq] at hin
      obtain ⟨rfl, rfl⟩ := hin
      exact Shape.invGet (by assumption) hop
    | put id =>
      simp only at hin
      split at hin
      · simp only [List.mem_singleton, Prod.mk.injEq] at hin
        obtain ⟨rfl, rfl⟩ := hin
        exact Shape.invPut id (by assumption) hop (by assumption)
      · simp at hin
  · simp only [List.mem_singleton, Prod.mk.injEq] at hstep
    obtain ⟨rfl, rfl⟩ := hstep
    exact Shape.readNew (by assumption)
  · rcases List.mem_append.mp hstep with hin | hin
    · obtain ⟨x, hx, heq⟩ := List.mem_map.mp hin
      simp only [Prod.mk.injEq] at heq
      obtain ⟨rfl, rfl⟩ := heq
      exact Shape.poolHit x (by assumption) hx
    · simp only [List.mem_singleton, Prod.mk.injEq] at hin
      obtain ⟨rfl, rfl⟩ := hin
      exact Shape.poolMiss (by assumption)
  · simp only [List.mem_singleton, Prod.mk.injEq] at hstep
    obtain ⟨rfl, rfl⟩ := hstep
    exact Shape.callNew (by assumption)
  · simp only [List.mem_singleton, Prod.mk.injEq] at hstep
    obtain ⟨rfl, rfl⟩ := hstep
    exact Shape.retGet _ (by assumption)
  · simp only [List.mem_singleton, Prod.mk.injEq] at hstep
    obtain ⟨rfl, rfl⟩ := hstep
    exact Shape.poolPut _ (by assumption)
  · simp only [List.mem_singleton, Prod.mk.injEq] at hstep
    obtain ⟨rfl, rfl⟩ := hstep
    exact Shape.retPut (by assumption)


theorem items_eq (th : Thr) : th.items = th.held ++ localItems th.pc := rfl

theorem good_step (hasNew : Bool) (menu : List Op) (s : State) (l : Option Event) (s' : State)
    (hg : Good s) (hmem : (l, s') ∈ succ hasNew menu s) : Good s' := by
  obtain ⟨t, ht, hshape⟩ := step_shape hmem
  have hnd := hg.nodupT t
  rw [items_eq] at hnd
  cases hshape with
  | invGet hpc _ =>
    rw [hpc] at hnd
    refine good_same (t := t) hg (thr_mk s t · _ ht _ _ _) ?_ ?_ rfl rfl (fun _ h => h)
    · intro id; simp [items_eq, hpc, localItems]
    · simpa [items_eq, localItems] using hnd
  | invPut id hpc _ hmay =>
    rw [hpc] at hnd
    simp only [localItems, List.append_nil] at hnd
    by_cases hh : id ∈ (s.thr t).held
    · have hc : (s.thr t).held.contains id = true := by simpa using hh
      simp only [hc, if_true]
      refine good_same (t := t) hg (thr_mk s t · _ ht _ _ _) ?_ ?_ rfl rfl (fun _ h => h)
      · intro x
        simp only [items_eq, hpc, localItems, List.mem_append, List.mem_singleton, List.not_mem_nil, or_false,
          hnd.mem_erase_iff]
        constructor
        · rintro (⟨_, h⟩ | rfl)
          · exact h
          · exact hh
        · intro h
          by_cases e : x = id
          · right; exact e
          · left; exact ⟨e, h⟩
      · simp only [items_eq, localItems]
        rw [List.nodup_append]
        refine ⟨hnd.erase id, by simp, ?_⟩
        intro a ha b hb
        simp only [List.mem_singleton] at hb
        subst hb
        exact ((hnd.mem_erase_iff).mp ha).1
    · have hc : (s.thr t).held.contains id = false := by simpa using hh
      simp only [mayPut, hc, Bool.false_or, Bool.and_eq_true, Bool.not_eq_true', isScript,
        decide_eq_true_eq] at hmay
      obtain ⟨⟨h1, h2⟩, h3⟩ := hmay
      have hnm : id ∉ s.minted := by simpa using h3
      simp only [hc, Bool.false_eq_true, if_false, List.erase_of_not_mem hh]
      have hfree : ∀ t', ¬ Owns s t' id := fun t' h => hnm ((hg.known id (Or.inr ⟨t', h⟩)).2.1 h2)
      refine good_gain (t := t) hg id (thr_mk s t · _ ht _ _ _) ?_ ?_ hfree (fun _ h => h) ?_ hg.nodupB
        ⟨by omega, fun _ => by simp, ?_⟩ (Nat.le_refl _) (fun _ h => List.mem_cons_of_mem _ h)
      · intro x
        simp only [items_eq, hpc, localItems, List.mem_append, List.mem_singleton, List.not_mem_nil, or_false]
        exact Or.comm
      · simp only [items_eq, localItems]
        rw [List.nodup_append]
        refine ⟨hnd, by simp, ?_⟩
        intro a ha b hb
        simp only [List.mem_singleton] at hb
        subst hb
        intro e; subst e
        exact hh ha
      · intro hb; exact hnm ((hg.known id (Or.inl hb)).2.1 h2)
      · have := hg.freshLB; show id < s.fresh; omega
  | readNew hpc =>
    rw [hpc] at hnd
    refine good_same (t := t) hg (thr_mk s t · _ ht _ _ _) ?_ ?_ rfl rfl (fun _ h => h)
    · intro id; cases hasNew <;> simp [items_eq, hpc, localItems]
    · cases hasNew <;> simpa [items_eq, localItems] using hnd
  | poolHit x hpc hx =>
    rw [hpc] at hnd
    simp only [localItems, List.append_nil] at hnd
    have hfree : ∀ t', ¬ Owns s t' x := fun t' h => hg.notBag t' x h hx
    refine good_gain (t := t) hg x (thr_mk s t · _ ht _ _ _) ?_ ?_ hfree
      (fun _ h => List.mem_of_mem_erase h) ?_ (hg.nodupB.erase x) (hg.known x (Or.inl hx))
      (Nat.le_refl _) (fun _ h => h)
    · intro y
      simp only [items_eq, hpc, localItems, List.mem_append, List.mem_singleton, List.not_mem_nil, or_false]
      exact Or.comm
    · simp only [items_eq, localItems]
      rw [List.nodup_append]
      refine ⟨hnd, by simp, ?_⟩
      intro a ha b hb
      simp only [List.mem_singleton] at hb
      subst hb
      intro e; subst e
      exact hfree t (by unfold Owns; rw [items_eq]; exact List.mem_append_left _ ha)
    · intro hb; exact ((hg.nodupB.mem_erase_iff).mp hb).1 rfl
  | poolMiss hpc =>
    rw [hpc] at hnd
    refine good_same (t := t) hg (thr_mk s t · _ ht _ _ _) ?_ ?_ rfl rfl (fun _ h => h)
    · intro id; simp [items_eq, hpc, localItems]
    · simpa [items_eq, localItems] using hnd
  | callNew hpc =>
    rw [hpc] at hnd
    simp only [localItems, List.append_nil] at hnd
    have hfree : ∀ t', ¬ Owns s t' s.fresh :=
      fun t' h => Nat.lt_irrefl _ (hg.known _ (Or.inr ⟨t', h⟩)).2.2
    have hfl := hg.freshLB
    refine good_gain (t := t) hg s.fresh (thr_mk s t · _ ht _ _ _) ?_ ?_ hfree
      (fun _ h => h) ?_ hg.nodupB ⟨by omega, fun h => by omega, Nat.lt_succ_self _⟩
      (Nat.le_succ _) (fun _ h => h)
    · intro y
      simp only [items_eq, hpc, localItems, List.mem_append, List.mem_singleton, List.not_mem_nil, or_false]
      exact Or.comm
    · simp only [items_eq, localItems]
      rw [List.nodup_append]
      refine ⟨hnd, by simp, ?_⟩
      intro a ha b hb
      simp only [List.mem_singleton] at hb
      subst hb
      intro e; subst e
      exact hfree t (by unfold Owns; rw [items_eq]; exact List.mem_append_left _ ha)
    · intro hb; exact Nat.lt_irrefl _ (hg.known _ (Or.inl hb)).2.2
  | retGet x hpc =>
    rw [hpc] at hnd
    refine good_same (t := t) hg (thr_mk s t · _ ht _ _ _) ?_ ?_ rfl rfl (fun _ h => h)
    · intro id
      cases x <;> simp [items_eq, hpc, localItems, Or.comm]
    · cases x with
      | none => simpa [items_eq, localItems] using hnd
      | some i =>
        simp only [items_eq, localItems, List.append_nil]
        simp only [localItems] at hnd
        rw [List.nodup_append] at hnd
        refine List.nodup_cons.mpr ⟨?_, hnd.1⟩
        intro hi
        exact hnd.2.2 i hi i (by simp) rfl
  | poolPut id hpc =>
    rw [hpc] at hnd
    simp only [localItems] at hnd
    rw [List.nodup_append] at hnd
    refine good_give (t := t) hg id (thr_mk s t · _ ht _ _ _) ?_ ?_ ?_ rfl rfl rfl
    · intro y
      simp only [items_eq, hpc, localItems, List.mem_append, List.mem_singleton, List.not_mem_nil, or_false]
      exact Or.comm
    · simpa [items_eq, localItems] using hnd.1
    · simp only [items_eq, localItems, List.append_nil]
      intro hi
      exact hnd.2.2 id hi id (by simp) rfl
  | retPut hpc =>
    rw [hpc] at hnd
    refine good_same (t := t) hg (thr_mk s t · _ ht _ _ _) ?_ ?_ rfl rfl (fun _ h => h)
    · intro id; simp [items_eq, hpc, localItems]
    · simpa [items_eq, localItems] using hnd

theorem good_reachable (hasNew : Bool) (menu : List Op) (n : Nat) :
    ∀ s, Reachable (sys hasNew menu n) s → Good s :=
  Conc.invariant (sys hasNew menu n) Good (good_init n) (fun s l s' h hm => good_step hasNew menu s l s' h hm)


end TypVerif.Lemmas.Pool
