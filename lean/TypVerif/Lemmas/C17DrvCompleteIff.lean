import TypVerif.Lemmas.C17DrvCompleteJudge
/-
The C17 judge decides membership in the trace set of the model exactly: converse bookkeeping for the `iff`
(a line that fails the arity check is rejected, and a rejection is never taken back).
-/
namespace TypVerif.Lemmas.C17Drv
open TypVerif TypVerif.Conc TypVerif.Model.Once TypVerif.Drv.C17 TypVerif.Lemmas.Once TypVerif.Lemmas.OnceRed
open TypVerif.Lemmas.ConcAcceptC17 TypVerif.Proto

theorem runLines_rejected_stays (arity : Nat) (lines : List (List Val × String)) :
    ∀ (tr : List Event) (st : St), lines.map (fun l => lineEvent arity l.1) = tr.map some →
      st.started = true → st.arity = arity → st.rejected = true → (runLines st lines).rejected = true := by
  induction lines with
  | nil => intro tr st _ _ _ h; exact h
  | cons l lines ih =>
    intro tr st hl hst har hrej
    cases tr with
    | nil => simp at hl
    | cons e tr =>
      rw [List.map_cons, List.map_cons, List.cons.injEq] at hl
      obtain ⟨h1, h2, _, _, h5⟩ := step_parsed st l.1 l.2 e (by rw [har]; exact hl.1) hst
      unfold runLines
      rw [List.foldl_cons]
      refine ih tr _ hl.2 h1 (h2.trans har) ?_
      rw [h5, hrej, Bool.true_or]

/-- a judge that has not rejected has seen only events that pass its arity check -/
theorem runLines_arityOk (arity : Nat) (lines : List (List Val × String)) :
    ∀ (tr : List Event) (st : St), lines.map (fun l => lineEvent arity l.1) = tr.map some →
      st.started = true → st.arity = arity → (runLines st lines).rejected = false →
      ∀ e ∈ tr, arityOk arity e = true := by
  induction lines with
  | nil =>
    intro tr st hl _ _ _ e he
    cases tr with
    | nil => cases he
    | cons e tr => simp at hl
  | cons l lines ih =>
    intro tr st hl hst har hok e0 he0
    cases tr with
    | nil => cases he0
    | cons e tr =>
      rw [List.map_cons, List.map_cons, List.cons.injEq] at hl
      obtain ⟨h1, h2, _, h4, h5⟩ := step_parsed st l.1 l.2 e (by rw [har]; exact hl.1) hst
      have hok' : (runLines (step st l.1 l.2).1 lines).rejected = false := hok
      rcases List.mem_cons.1 he0 with rfl | he0
      · cases hA : arityOk arity e0 with
        | true => rfl
        | false =>
          rw [har, hA] at h4
          simp only [Bool.not_false, Bool.or_true, if_true] at h4
          rw [h4] at h5
          simp only [List.isEmpty_nil, Bool.or_true] at h5
          rw [runLines_rejected_stays arity lines tr _ hl.2 h1 (h2.trans har) h5] at hok'
          cases hok'
      · exact ih tr _ hl.2 h1 (h2.trans har) hok' e0 he0

/-- the judge decides exactly: not rejected = visible trace of an execution of the model, all events of the arity -/
theorem judge_accept_iff (st0 : St) (a : Int) (impl0 : String) (lines : List (List Val × String))
    (tr : List Event) (hparse : lines.map (fun l => lineEvent a.toNat l.1) = tr.map some) :
    (runLines (step st0 [.w "once", .i a] impl0).1 lines).rejected = false ↔
      (∃ (N : Nat) (res : Nat → List Int) (ls : List (Option Event)) (s : State),
        Exec (sys N a.toNat res) (init N a.toNat) ls s ∧ visible ls = tr) ∧
      ∀ e ∈ tr, arityOk a.toNat e = true := by
  constructor
  · intro hok
    exact ⟨judge_accept_sound st0 a impl0 lines tr hparse hok,
      runLines_arityOk a.toNat lines tr _ hparse rfl rfl hok⟩
  · rintro ⟨⟨N, res, ls, s, hex, hv⟩, har⟩
    exact judge_accept_complete_of_arityOk st0 a impl0 lines tr hparse N res ls s hex hv har

end TypVerif.Lemmas.C17Drv
