import TypVerif.Lemmas.OncePanicTrace
/-
The Once system with panicking functions refines `Model.Once`: reading `fpanic t` as `fend t [0,…,0]` (the
judge's translation, `Model.OncePanic.glue`) turns every execution into an execution of `Model.Once` (for a
`res'` that differs from `res` only at the goroutine that panicked) through the same `Model.Once` states, in
which the goroutine that panicked never takes its `ret` step.
Also: schedules as data (`runSched`), to exhibit executions in non-vacuity examples.
-/
namespace TypVerif.Lemmas.OncePanic
open TypVerif TypVerif.Conc TypVerif.Model TypVerif.Model.OncePanic

theorem step_panicked_iff {res : Nat → List Int} {s s' : State} {l : Option Event}
    (hmem : (l, s') ∈ succ res s) (t : Nat) :
    t ∈ s'.panicked ↔ t ∈ s.panicked ∨ l = some (Event.fpanic t) := by
  rcases step_cases hmem with ⟨_, lb, _, _, _, hl, hp⟩ | ⟨t0, _, _, hl, rfl⟩
  · rw [hp, hl]
    have := @map_ofBase_fpanic lb t
    simp [this]
  · subst hl
    simp only [afterPanic, List.mem_cons, Option.some.injEq, Event.fpanic.injEq]
    constructor
    · rintro (e | h)
      · exact Or.inr e.symm
      · exact Or.inl h
    · rintro (h | e)
      · exact Or.inr h
      · exact Or.inl e.symm

/-- the ghost component `panicked` is exactly the set of `fpanic` events -/
theorem exec_panicked_iff {n a : Nat} {res : Nat → List Int} {s s' : (sys n a res).State}
    {ls : List (Option Event)} (h : Exec (sys n a res) s ls s') (t : Nat) :
    t ∈ s'.panicked ↔ t ∈ s.panicked ∨ some (Event.fpanic t) ∈ ls := by
  induction h with
  | nil s => simp
  | @cons s s1 s2 l ls hm _ ih =>
    rw [ih, step_panicked_iff hm t, List.mem_cons]
    constructor
    · rintro ((h | h) | h)
      · exact Or.inl h
      · exact Or.inr (Or.inl h.symm)
      · exact Or.inr (Or.inr h)
    · rintro (h | h | h)
      · exact Or.inl (Or.inl h)
      · exact Or.inl (Or.inr h.symm)
      · exact Or.inr h

theorem refine_exec {n a : Nat} {res : Nat → List Int} {s s' : (sys n a res).State}
    {ls : List (Option Event)} (he : Exec (sys n a res) s ls s') :
    Inv a s → ∀ res' : Nat → List Int,
      (∀ u, u ∈ s'.panicked → res' u = List.replicate a 0) →
      (∀ u, u ∉ s'.panicked → res' u = res u) →
      ∃ ls' : List (Option Once.Event),
        Exec (Once.sys n a res') s.base ls' s'.base ∧ visible ls' = (visible ls).map (glue a) := by
  induction he with
  | nil s => exact fun _ _ _ _ => ⟨[], Exec.nil _, rfl⟩
  | @cons s s1 s2 l ls hm htail ih =>
    intro hi res' h1 h2
    obtain ⟨ls1, he1, hv1⟩ := ih (inv_step hi hm) res' h1 h2
    rcases step_cases hm with ⟨t0, lb, ht0, hu, hb, hl, hpan⟩ | ⟨t0, ht0, hpc, hl, hs1⟩
    · have hres : s.base.pc t0 = .inF → res' t0 = res t0 := by
        intro hpc
        apply h2
        intro hin
        have hsome : s1.base.fres.isSome = true := by
          unfold Once.stepT at hb
          rw [hpc] at hb
          simp only [List.mem_singleton, Prod.mk.injEq] at hb
          rw [hb.2]
          rfl
        have hc := exec_panicked_const htail (inv_step hi hm) hsome
        rw [hc, hpan] at hin
        have := (hi.pan t0 hin).2
        rw [hpc] at this
        simp at this
      rw [← stepT_res_irrelevant res res' s.base t0 hres] at hb
      have hbm : (lb, s1.base) ∈ (Once.sys n a res').succ s.base := Once.mem_succ.mpr ⟨t0, ht0, hb⟩
      refine ⟨lb :: ls1, Exec.cons hbm he1, ?_⟩
      rw [visible_cons lb, visible_cons l, List.map_append, hv1, hl]
      congr 1
      cases lb with
      | none => rfl
      | some e => simp [glue_ofBase]
    · subst hs1
      have hf := inF_facts hi hpc
      have hin : t0 ∈ s2.panicked := exec_panicked_mono htail t0 (by simp [afterPanic])
      have hr : res' t0 = s.base.fields := (h1 t0 hin).trans hf.2.1.symm
      obtain ⟨p1, p2⟩ := panic_as_two_steps (res := res') ht0 hpc hr
      refine ⟨some (Once.Event.fend t0 s.base.fields) :: none :: ls1,
        Exec.cons (sys := Once.sys n a res') p1 (Exec.cons (sys := Once.sys n a res') p2 he1), ?_⟩
      rw [hl]
      simp [hv1, glue, hf.2.1]

/-- the refinement, from the initial state: `res'` is `res` except that the goroutine that panicked "returns zeros" -/
theorem refines {n a : Nat} {res : Nat → List Int} {s : (sys n a res).State}
    {ls : List (Option Event)} (he : Exec (sys n a res) (sys n a res).init ls s) :
    ∃ (res' : Nat → List Int) (ls' : List (Option Once.Event)),
      Exec (Once.sys n a res') (Once.sys n a res').init ls' s.base ∧
      visible ls' = (visible ls).map (glue a) ∧
      (∀ u, Event.fpanic u ∉ visible ls → res' u = res u) ∧
      (∀ t, Event.fpanic t ∈ visible ls → res' t = List.replicate a 0 ∧
        s.base.pc t ≠ .returned ∧ ∀ r, Once.Event.ret t r ∉ visible ls') := by
  have hi0 := inv_init n a
  have hiff := exec_panicked_iff he
  have hpi : ∀ t, t ∈ s.panicked ↔ Event.fpanic t ∈ visible ls := by
    intro t
    rw [hiff t, mem_visible]
    simp [init]
  let res' : Nat → List Int := fun u => if u ∈ s.panicked then List.replicate a 0 else res u
  obtain ⟨ls', he', hv⟩ := refine_exec he hi0 res' (fun u hu => by simp [res', hu]) (fun u hu => by simp [res', hu])
  refine ⟨res', ls', he', hv, ?_, ?_⟩
  · intro u hu
    have : u ∉ s.panicked := fun h => hu ((hpi u).mp h)
    simp [res', this]
  · intro t ht
    have htp := (hpi t).mpr ht
    have hpc := ((inv_exec he hi0).pan t htp).2
    refine ⟨by simp [res', htp], ?_, ?_⟩
    · intro e; rw [e] at hpc; simp at hpc
    · intro r hr
      rw [hv, List.mem_map] at hr
      obtain ⟨e, hein, hge⟩ := hr
      have : e = Event.ret t r := by
        cases e <;> simp [glue] at hge ⊢
        exact hge
      subst this
      have := (exec_ret he hi0 t r (mem_visible.mp hein)).2
      rw [this] at hpc
      simp at hpc

/-! ### schedules as data -/

/-- run a schedule: `(t, i)` = goroutine `t` takes its `i`-th alternative (`0`: the step of `Model.Once`,
`1` at `inF`: panic); stops at the first impossible pick -/
def runSched (res : Nat → List Int) : State → List (Nat × Nat) → List (Option Event) × State
  | s, [] => ([], s)
  | s, (t, i) :: rest =>
    if t < s.base.pcs.length then
      match (stepT res s t)[i]? with
      | some p => ((p.1 :: (runSched res p.2 rest).1), (runSched res p.2 rest).2)
      | none => ([], s)
    else ([], s)

theorem runSched_exec (n a : Nat) (res : Nat → List Int) (sched : List (Nat × Nat)) :
    ∀ s : (sys n a res).State, Exec (sys n a res) s (runSched res s sched).1 (runSched res s sched).2 := by
  induction sched with
  | nil => intro s; exact Exec.nil s
  | cons x rest ih =>
    intro s
    obtain ⟨t, i⟩ := x
    unfold runSched
    by_cases ht : t < s.base.pcs.length
    · simp only [ht, if_true]
      cases hp : (stepT res s t)[i]? with
      | none => exact Exec.nil s
      | some p =>
        simp only
        have hmem : p ∈ stepT res s t := List.mem_of_getElem? hp
        exact Exec.cons (sys := sys n a res) (mem_succ.mpr ⟨t, ht, hmem⟩) (ih p.2)
    · simp only [ht, if_false]
      exact Exec.nil s

end TypVerif.Lemmas.OncePanic
