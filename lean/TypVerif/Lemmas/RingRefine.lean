import TypVerif.Lemmas.RingLinkStep
import TypVerif.Lemmas.RingAlloc
/-
C06, ring half: the pointer model of `lists/ring.go` refines the abstract `container/ring` world.
-/
namespace TypVerif.Lemmas.Ring
open TypVerif.Model TypVerif.Model.Ring TypVerif.Spec.RingOp TypVerif.Spec.RingSeq

theorem Next_res {h : RHeap} {w : RWorld} (wf : RingWF h w) {r : RingId} (hr : r < h.size) :
    (Next h r).2 = nextOf w r := by
  obtain ⟨wf1, hn1, hsz1, _⟩ := Next_spec wf hr
  have hi1 : (Next h r).1.nx r ≠ none := by rw [hn1]; simp
  have := nx_eq_nextOf wf1 (hsz1 ▸ hr) hi1
  rw [hn1] at this
  exact Option.some.inj this

theorem Prev_res {h : RHeap} {w : RWorld} (wf : RingWF h w) {r : RingId} (hr : r < h.size) :
    (Prev h r).2 = some (prevOf w r) := by
  obtain ⟨wf1, ⟨p, hp1, hp2⟩, hi, hsz1, _⟩ := Prev_spec wf hr
  have := pv_eq_prevOf wf1 (hsz1 ▸ hr) hi
  rw [hp1, ← hp2, this]

/-- one step of the simulation -/
theorem step_sim {h : RHeap} {w : RWorld} (wf : RingWF h w) (op : Op) :
    RingWF (Model.Ring.step h op).1 (Spec.RingSeq.step w op).1 ∧
      (Model.Ring.step h op).2 = (Spec.RingSeq.step w op).2 := by
  have hsw := wf.size_eq
  cases op with
  | new n =>
    simp only [Model.Ring.step, Spec.RingSeq.step]
    by_cases hn : n ≤ 0
    · simp only [NewRing, hn, if_true]
      exact ⟨wf, trivial⟩
    · simp only [hn, if_false]
      obtain ⟨h1, h2⟩ := NewRing_spec wf hn
      rcases hN : NewRing h n with ⟨h', x⟩
      rw [hN] at h1 h2
      dsimp only at h1 h2 ⊢
      exact ⟨h1, by rw [h2]⟩
  | zero =>
    simp only [Model.Ring.step, Spec.RingSeq.step]
    exact ⟨zero_spec wf, by rw [alloc_snd, hsw]⟩
  | next r =>
    cases r with
    | none => exact ⟨wf, rfl⟩
    | some r =>
      simp only [Model.Ring.step, Spec.RingSeq.step]
      rw [← hsw]
      by_cases hr : r < h.size
      · simp only [hr, if_true]
        obtain ⟨wf1, _⟩ := Next_spec wf hr
        have := Next_res wf hr
        rcases hN : Next h r with ⟨h', x⟩
        rw [hN] at wf1 this
        dsimp only at wf1 this ⊢
        exact ⟨wf1, by rw [this]⟩
      · simp only [hr, if_false]
        exact ⟨wf, trivial⟩
  | prev r =>
    cases r with
    | none => exact ⟨wf, rfl⟩
    | some r =>
      simp only [Model.Ring.step, Spec.RingSeq.step]
      rw [← hsw]
      by_cases hr : r < h.size
      · simp only [hr, if_true]
        obtain ⟨wf1, _⟩ := Prev_spec wf hr
        have := Prev_res wf hr
        rcases hN : Prev h r with ⟨h', x⟩
        rw [hN] at wf1 this
        dsimp only at wf1 this ⊢
        exact ⟨wf1, by rw [this]⟩
      · simp only [hr, if_false]
        exact ⟨wf, trivial⟩
  | move r n =>
    cases r with
    | none => exact ⟨wf, rfl⟩
    | some r =>
      simp only [Model.Ring.step, Spec.RingSeq.step]
      rw [← hsw]
      by_cases hr : r < h.size
      · simp only [hr, if_true]
        obtain ⟨wf1, hm, _, _⟩ := Move_spec wf hr n
        rcases hN : Move h r n with ⟨h', x⟩
        rw [hN] at wf1 hm
        dsimp only at wf1 hm ⊢
        exact ⟨wf1, by rw [hm]; rfl⟩
      · simp only [hr, if_false]
        exact ⟨wf, trivial⟩
  | link r s =>
    cases r with
    | none => exact ⟨wf, rfl⟩
    | some r =>
      simp only [Model.Ring.step, Spec.RingSeq.step]
      rw [← hsw]
      by_cases hr : r < h.size ∧ validRef h.size s = true
      · simp only [hr, and_self, if_true]
        obtain ⟨wf1, hl, _⟩ := Link_spec wf hr.1 s hr.2
        rcases hN : Link h r s with ⟨h', x⟩
        rw [hN] at wf1 hl
        dsimp only at wf1 hl
        subst hl
        rcases hL : link w r s with ⟨w', y⟩
        rw [hL] at wf1
        exact ⟨wf1, rfl⟩
      · simp only [hr, if_false]
        exact ⟨wf, trivial⟩
  | unlink r n =>
    cases r with
    | none =>
      simp only [Model.Ring.step, Spec.RingSeq.step]
      split <;> exact ⟨wf, rfl⟩
    | some r =>
      simp only [Model.Ring.step, Spec.RingSeq.step]
      rw [← hsw]
      by_cases hr : r < h.size
      · simp only [hr, if_true]
        obtain ⟨wf1, hl⟩ := Unlink_spec wf hr n
        rcases hN : Unlink h r n with ⟨h', x⟩
        rw [hN] at wf1 hl
        dsimp only at wf1 hl
        subst hl
        rcases hL : unlink w r n with ⟨w', y⟩
        rw [hL] at wf1
        exact ⟨wf1, rfl⟩
      · simp only [hr, if_false]
        exact ⟨wf, trivial⟩
  | len r =>
    cases r with
    | none => exact ⟨wf, rfl⟩
    | some r =>
      simp only [Model.Ring.step, Spec.RingSeq.step]
      rw [← hsw]
      by_cases hr : r < h.size
      · simp only [hr, if_true]
        obtain ⟨wf1, hl⟩ := Len_spec wf hr
        rcases hN : Len h r with ⟨h', x⟩
        rw [hN] at wf1 hl
        dsimp only at wf1 hl
        subst hl
        exact ⟨wf1, rfl⟩
      · simp only [hr, if_false]
        exact ⟨wf, trivial⟩
  | doAll r =>
    cases r with
    | none => exact ⟨wf, rfl⟩
    | some r =>
      simp only [Model.Ring.step, Spec.RingSeq.step]
      rw [← hsw]
      by_cases hr : r < h.size
      · simp only [hr, if_true]
        obtain ⟨wf1, hl⟩ := Do_spec wf hr
        rcases hN : Do h r with ⟨h', x⟩
        rw [hN] at wf1 hl
        dsimp only at wf1 hl
        subst hl
        exact ⟨wf1, rfl⟩
      · simp only [hr, if_false]
        exact ⟨wf, trivial⟩
  | fwd r fuel =>
    cases r with
    | none => exact ⟨wf, rfl⟩
    | some r =>
      simp only [Model.Ring.step, Spec.RingSeq.step]
      rw [← hsw]
      by_cases hr : r < h.size
      · simp only [hr, if_true]
        obtain ⟨wf1, hl⟩ := Fwd_spec wf hr fuel
        rcases hN : Fwd h r fuel with ⟨h', x⟩
        rw [hN] at wf1 hl
        dsimp only at wf1 hl
        subst hl
        exact ⟨wf1, rfl⟩
      · simp only [hr, if_false]
        exact ⟨wf, trivial⟩
  | bwd r fuel =>
    cases r with
    | none => exact ⟨wf, rfl⟩
    | some r =>
      simp only [Model.Ring.step, Spec.RingSeq.step]
      rw [← hsw]
      by_cases hr : r < h.size
      · simp only [hr, if_true]
        obtain ⟨wf1, hl⟩ := Bwd_spec wf hr fuel
        rcases hN : Bwd h r fuel with ⟨h', x⟩
        rw [hN] at wf1 hl
        dsimp only at wf1 hl
        subst hl
        exact ⟨wf1, rfl⟩
      · simp only [hr, if_false]
        exact ⟨wf, trivial⟩

theorem wf_empty : RingWF RHeap.empty RWorld.empty where
  size_eq := rfl
  world := ⟨by simp [RWorld.empty], by intro i; simp [RWorld.empty], rfl, by intro c hc; cases hc⟩
  value_eq := by intro i hi; exact absurd hi (Nat.not_lt_zero i)
  good := by intro c hc; cases hc
  fresh := by intro i _; exact ⟨nx_empty i, pv_empty i, val_empty i⟩

/-- outputs of the model run -/
def runModel : RHeap → List Op → List Res
  | _, [] => []
  | h, op :: ops => (Model.Ring.step h op).2 :: runModel (Model.Ring.step h op).1 ops

/-- outputs of the specification run -/
def runSpec : RWorld → List Op → List Res
  | _, [] => []
  | w, op :: ops => (Spec.RingSeq.step w op).2 :: runSpec (Spec.RingSeq.step w op).1 ops

def finalHeap : RHeap → List Op → RHeap
  | h, [] => h
  | h, op :: ops => finalHeap (Model.Ring.step h op).1 ops

def finalWorld : RWorld → List Op → RWorld
  | w, [] => w
  | w, op :: ops => finalWorld (Spec.RingSeq.step w op).1 ops

theorem run_sim : ∀ (ops : List Op) (h : RHeap) (w : RWorld), RingWF h w →
    RingWF (finalHeap h ops) (finalWorld w ops) ∧ runModel h ops = runSpec w ops := by
  intro ops
  induction ops with
  | nil => intro h w wf; exact ⟨wf, rfl⟩
  | cons op ops ih =>
    intro h w wf
    obtain ⟨wf1, e⟩ := step_sim wf op
    obtain ⟨wf2, e2⟩ := ih _ _ wf1
    exact ⟨wf2, by simp only [runModel, runSpec, e, e2]⟩

/-- the abstraction invariant holds in every reachable state -/
theorem ring_wf : ∀ ops : List Op, RingWF (finalHeap RHeap.empty ops) (finalWorld RWorld.empty ops) :=
  fun ops => (run_sim ops _ _ wf_empty).1

/-- every operation sequence produces the same observations in the pointer model of `lists.Ring`
and in the abstract `container/ring` world (in particular the model never panics with `"fuel"`). -/
theorem ring_refines : ∀ ops : List Op, runModel RHeap.empty ops = runSpec RWorld.empty ops :=
  fun ops => (run_sim ops _ _ wf_empty).2


/-- the specification panics only for a nil receiver (`"nilfunc"`) or a handle never issued (`"badref"`) -/
theorem spec_panic {w : RWorld} {op : Op} {msg : String} (h : (Spec.RingSeq.step w op).2 = .panic msg) :
    msg = "nilfunc" ∨ msg = "badref" := by
  cases op with
  | new n => simp only [Spec.RingSeq.step] at h; split at h <;> cases h
  | zero => cases h
  | next r => cases r <;> simp only [Spec.RingSeq.step] at h <;> (try split at h) <;> simp_all
  | prev r => cases r <;> simp only [Spec.RingSeq.step] at h <;> (try split at h) <;> simp_all
  | move r n => cases r <;> simp only [Spec.RingSeq.step] at h <;> (try split at h) <;> simp_all
  | link r s => cases r <;> simp only [Spec.RingSeq.step] at h <;> (try split at h) <;> simp_all
  | unlink r n => cases r <;> simp only [Spec.RingSeq.step] at h <;> (try split at h) <;> simp_all
  | len r => cases r <;> simp only [Spec.RingSeq.step] at h <;> (try split at h) <;> simp_all
  | doAll r => cases r <;> simp only [Spec.RingSeq.step] at h <;> (try split at h) <;> simp_all
  | fwd r f => cases r <;> simp only [Spec.RingSeq.step] at h <;> (try split at h) <;> simp_all
  | bwd r f => cases r <;> simp only [Spec.RingSeq.step] at h <;> (try split at h) <;> simp_all

/-- `"nilfunc"` is reported exactly for the nil-receiver calls that dereference `r` -/
theorem spec_nilfunc {w : RWorld} {op : Op} (h : (Spec.RingSeq.step w op).2 = .panic "nilfunc") :
    op = .next none ∨ op = .prev none ∨ (∃ n, op = .move none n) ∨ (∃ s, op = .link none s) ∨
      (∃ n, op = .unlink none n ∧ 0 < n) := by
  cases op with
  | new n => simp only [Spec.RingSeq.step] at h; split at h <;> cases h
  | zero => cases h
  | next r => cases r <;> simp only [Spec.RingSeq.step] at h <;> (try split at h) <;> simp_all
  | prev r => cases r <;> simp only [Spec.RingSeq.step] at h <;> (try split at h) <;> simp_all
  | move r n => cases r <;> simp only [Spec.RingSeq.step] at h <;> (try split at h) <;> simp_all
  | link r s => cases r <;> simp only [Spec.RingSeq.step] at h <;> (try split at h) <;> simp_all
  | unlink r n =>
    cases r with
    | none =>
      simp only [Spec.RingSeq.step] at h
      split at h
      · cases h
      · right; right; right; right; exact ⟨n, rfl, by omega⟩
    | some r => simp only [Spec.RingSeq.step] at h; split at h <;> simp_all
  | len r => cases r <;> simp only [Spec.RingSeq.step] at h <;> (try split at h) <;> simp_all
  | doAll r => cases r <;> simp only [Spec.RingSeq.step] at h <;> (try split at h) <;> simp_all
  | fwd r f => cases r <;> simp only [Spec.RingSeq.step] at h <;> (try split at h) <;> simp_all
  | bwd r f => cases r <;> simp only [Spec.RingSeq.step] at h <;> (try split at h) <;> simp_all

theorem runSpec_panic : ∀ (ops : List Op) (w : RWorld) (msg : String), Res.panic msg ∈ runSpec w ops →
    msg = "nilfunc" ∨ msg = "badref" := by
  intro ops
  induction ops with
  | nil => intro w msg h; cases h
  | cons op ops ih =>
    intro w msg h
    simp only [runSpec, List.mem_cons] at h
    rcases h with h | h
    · exact spec_panic h.symm
    · exact ih _ _ h

/-- in particular the loops of `Len` / `Do` never run out of fuel and no internal nil dereference happens
in a reachable state: the model panics only where the specification does. -/
theorem ring_no_fuel_panic (ops : List Op) (msg : String) (h : Res.panic msg ∈ runModel RHeap.empty ops) :
    msg = "nilfunc" ∨ msg = "badref" := by
  rw [ring_refines] at h
  exact runSpec_panic ops _ msg h

end TypVerif.Lemmas.Ring
