import TypVerif.Model.PubSub
/-
Explicit executions of the PubSub model: a path is a list of indices into `succ`.
-/
namespace TypVerif.Lemmas.PubSubExec
open TypVerif TypVerif.Model.PubSub

/-- follow the path `ks` (k-th successor at each step) -/
def runPath (cfg : Cfg) : State → List Nat → Option State
  | s, [] => some s
  | s, k :: ks =>
    match (succ cfg s)[k]? with
    | none => none
    | some p => runPath cfg p.2 ks

/-- the visible labels along the path -/
def labelsPath (cfg : Cfg) : State → List Nat → List (Option Event)
  | _, [] => []
  | s, k :: ks =>
    match (succ cfg s)[k]? with
    | none => []
    | some p => p.1 :: labelsPath cfg p.2 ks

theorem runPath_reachable (cfg : Cfg) : ∀ (ks : List Nat) (s s' : State),
    Conc.Reachable (sys cfg) s → runPath cfg s ks = some s' → Conc.Reachable (sys cfg) s'
  | [], s, s', hr, h => by
    simp [runPath] at h; subst h; exact hr
  | k :: ks, s, s', hr, h => by
    simp only [runPath] at h
    cases hk : (succ cfg s)[k]? with
    | none => simp [hk] at h
    | some p =>
      simp only [hk] at h
      have hm : (p.1, p.2) ∈ (sys cfg).succ s := List.mem_of_getElem? hk
      exact runPath_reachable cfg ks p.2 s' (Conc.Reachable.step hr hm) h

theorem runPath_exec (cfg : Cfg) : ∀ (ks : List Nat) (s s' : State),
    runPath cfg s ks = some s' → Conc.Exec (sys cfg) s (labelsPath cfg s ks) s'
  | [], s, s', h => by
    simp [runPath] at h; subst h; exact Conc.Exec.nil (sys := sys cfg) s
  | k :: ks, s, s', h => by
    simp only [runPath] at h
    simp only [labelsPath]
    cases hk : (succ cfg s)[k]? with
    | none => simp [hk] at h
    | some p =>
      simp only [hk] at h
      have hm : (p.1, p.2) ∈ (sys cfg).succ s := List.mem_of_getElem? hk
      exact Conc.Exec.cons hm (runPath_exec cfg ks p.2 s' h)

end TypVerif.Lemmas.PubSubExec
