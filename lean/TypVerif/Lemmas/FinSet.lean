import TypVerif.Spec.FinSet
/-
The list functions of `Spec/FinSet.lean` (used by the C03 judge as the specification) are the set algebra
they are named after, and keep lists duplicate-free.
-/
namespace TypVerif.Lemmas.FinSet
open TypVerif.Spec.FinSet

set_option linter.unusedSimpArgs false
set_option linter.unusedSectionVars false

variable {α : Type} [DecidableEq α]

theorem has_iff (s : FinSet α) (v : α) : has s v = true ↔ v ∈ s := by simp [has]

theorem mem_union (a b : FinSet α) (x : α) : x ∈ union a b ↔ x ∈ a ∨ x ∈ b := by
  simp only [union, List.mem_append, List.mem_filter, has]
  constructor
  · rintro (h | ⟨h, _⟩)
    · exact Or.inl h
    · exact Or.inr h
  · rintro (h | h)
    · exact Or.inl h
    · by_cases ha : x ∈ a
      · exact Or.inl ha
      · exact Or.inr ⟨h, by simpa using ha⟩

theorem mem_inter (a b : FinSet α) (x : α) : x ∈ inter a b ↔ x ∈ a ∧ x ∈ b := by
  simp [inter, has]

theorem mem_diff (a b : FinSet α) (x : α) : x ∈ diff a b ↔ x ∈ a ∧ x ∉ b := by
  simp [diff, has]

theorem mem_symDiff (a b : FinSet α) (x : α) : x ∈ symDiff a b ↔ (x ∈ a ∧ x ∉ b) ∨ (x ∈ b ∧ x ∉ a) := by
  simp [symDiff, mem_diff]

theorem nodup_inter {a : FinSet α} (b : FinSet α) (h : a.Nodup) : (inter a b).Nodup :=
  List.Sublist.nodup List.filter_sublist h

theorem nodup_diff {a : FinSet α} (b : FinSet α) (h : a.Nodup) : (diff a b).Nodup :=
  List.Sublist.nodup List.filter_sublist h

theorem nodup_union {a b : FinSet α} (ha : a.Nodup) (hb : b.Nodup) : (union a b).Nodup := by
  unfold union
  rw [List.nodup_append]
  refine ⟨ha, List.Sublist.nodup List.filter_sublist hb, ?_⟩
  intro x hx y hy hxy
  subst hxy
  have := (List.mem_filter.mp hy).2
  simp [has] at this
  exact this hx

theorem nodup_symDiff {a b : FinSet α} (ha : a.Nodup) (hb : b.Nodup) : (symDiff a b).Nodup := by
  unfold symDiff
  rw [List.nodup_append]
  refine ⟨nodup_diff b ha, nodup_diff a hb, ?_⟩
  intro x hx y hy hxy
  subst hxy
  exact ((mem_diff b a x).mp hy).2 ((mem_diff a b x).mp hx).1

theorem add_spec (s : FinSet α) (v : α) (h : s.Nodup) :
    (add s v).1.Nodup ∧ (∀ x, x ∈ (add s v).1 ↔ x = v ∨ x ∈ s) ∧ ((add s v).2 = true ↔ v ∉ s) := by
  unfold add
  by_cases hv : v ∈ s
  · have : has s v = true := (has_iff s v).mpr hv
    simp only [this, if_true]
    refine ⟨h, fun x => ?_, by simp [hv]⟩
    constructor
    · exact Or.inr
    · rintro (rfl | h1); exact hv; exact h1
  · have : has s v = false := by simpa [has] using hv
    simp only [this, Bool.false_eq_true, if_false]
    exact ⟨List.nodup_cons.mpr ⟨hv, h⟩, fun x => by simp, by simp [hv]⟩

theorem remove_spec (s : FinSet α) (v : α) (h : s.Nodup) :
    (remove s v).1.Nodup ∧ (∀ x, x ∈ (remove s v).1 ↔ x ≠ v ∧ x ∈ s) ∧ ((remove s v).2 = true ↔ v ∈ s) := by
  unfold remove
  by_cases hv : v ∈ s
  · have : has s v = true := (has_iff s v).mpr hv
    simp only [this, if_true]
    refine ⟨List.Sublist.nodup List.filter_sublist h, fun x => ?_, by simp [hv]⟩
    simp [List.mem_filter, and_comm]
  · have : has s v = false := by simpa [has] using hv
    simp only [this, Bool.false_eq_true, if_false]
    refine ⟨h, fun x => ?_, by simp [hv]⟩
    constructor
    · intro hx; exact ⟨fun hxv => hv (hxv ▸ hx), hx⟩
    · exact fun hx => hx.2

theorem mem_product {β : Type} (a : FinSet α) (b : FinSet β) (x : α) (y : β) :
    (x, y) ∈ product a b ↔ x ∈ a ∧ y ∈ b := by
  simp [product, List.mem_flatMap]

theorem length_product {β : Type} (a : FinSet α) (b : FinSet β) : (product a b).length = a.length * b.length := by
  unfold product
  induction a with
  | nil => simp
  | cons x rest ih => simp [List.flatMap_cons, ih, Nat.succ_mul, Nat.add_comm]

end TypVerif.Lemmas.FinSet
