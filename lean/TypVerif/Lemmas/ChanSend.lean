import TypVerif.Model.ChanHelpers
/-
Invariants of the SendTimeout / SendContext transition system (all schedules, arbitrary environment).
-/
namespace TypVerif.Lemmas.ChanSend
open TypVerif TypVerif.Conc TypVerif.Model.ChanHelpers TypVerif.Model.Chan

/-- the steps of the send system, as a relation (one constructor per kind of step) -/
inductive SStep (p : Params) (s : SState) : SState → Prop where
  | startBlk (tmo : Int) : s.pc = .start → p.mode = .timeout tmo → tmo ≤ 0 → SStep p s { s with pc := .blk }
  | startArm (tmo : Int) : s.pc = .start → p.mode = .timeout tmo → 0 < tmo →
      SStep p s { s with pc := .sel, armed := true }
  | startCtx (pre mc : Bool) : s.pc = .start → p.mode = .context pre mc → SStep p s { s with pc := .sel }
  | send : (s.pc = .blk ∨ s.pc = .sel ∨ s.pc = .wait) → s.ch.canSend = true →
      SStep p s { s with ch := s.ch.send p.val, pc := sendNext p s.pc, sendFired := true }
  | handoff : (s.pc = .blk ∨ s.pc = .sel ∨ s.pc = .wait) → handoffOkS p s = true →
      SStep p s { s with budget := s.budget - 1, taken := s.taken ++ [p.val], pc := sendNext p s.pc, sendFired := true }
  | timer : (s.pc = .sel ∨ s.pc = .wait) → s.fired = true → SStep p s { s with pc := .done false }
  | park : s.pc = .sel → s.ch.canSend = false → s.fired = false → SStep p s { s with pc := .wait }
  | stop : s.pc = .stop → SStep p s { s with pc := .done true }
  | fire : fireOk p s.armed s.fired (decide (s.pc = .wait)) = true → SStep p s { s with fired := true }
  | peerRecv (v : Int) (rest : List Int) : s.ch.buf = v :: rest → peerRecvOkS p s = true →
      SStep p s { s with ch := { s.ch with buf := rest }, budget := s.budget - 1, taken := s.taken ++ [v] }
  | peerSend (v : Int) (vs : List Int) : s.supply = v :: vs → s.ch.canSend = true →
      SStep p s { s with ch := s.ch.send v, supply := vs }
  | peerHandoff (v : Int) (vs : List Int) : s.supply = v :: vs → handoffOkS p s = true →
      SStep p s { s with supply := vs, budget := s.budget - 1, taken := s.taken ++ [v] }

theorem mem_sendAlts {p : Params} {s : SState} {x : Option Unit × SState} (h : x ∈ sendAlts p s)
    (hpc : s.pc = .blk ∨ s.pc = .sel ∨ s.pc = .wait) : SStep p s x.2 := by
  unfold sendAlts at h
  rcases List.mem_append.mp h with h | h
  · split at h
    · simp at h; subst h; exact .send hpc ‹_›
    · simp at h
  · split at h
    · simp at h; subst h; exact .handoff hpc ‹_›
    · simp at h

theorem mem_timerAltS {p : Params} {s : SState} {x : Option Unit × SState} (h : x ∈ timerAltS s)
    (hpc : s.pc = .sel ∨ s.pc = .wait) : SStep p s x.2 := by
  unfold timerAltS at h
  split at h
  · simp at h; subst h; exact .timer hpc ‹_›
  · simp at h

theorem mem_stepSH {p : Params} {s : SState} {x : Option Unit × SState} (h : x ∈ stepSH p s) : SStep p s x.2 := by
  unfold stepSH at h
  split at h
  · split at h
    · split at h
      · simp at h; subst h; exact .startBlk _ ‹_› ‹_› ‹_›
      · simp at h; subst h; exact .startArm _ ‹_› ‹_› (by omega)
    · simp at h; subst h; exact .startCtx _ _ ‹_› ‹_›
  · exact mem_sendAlts h (.inl ‹_›)
  · rcases List.mem_append.mp h with h | h
    · rcases List.mem_append.mp h with h | h
      · exact mem_sendAlts h (.inr (.inl ‹_›))
      · exact mem_timerAltS h (.inl ‹_›)
    · split at h
      · simp at h
      · rename_i hc
        simp at h; subst h
        simp at hc
        exact .park ‹_› hc.1 hc.2
  · rcases List.mem_append.mp h with h | h
    · exact mem_sendAlts h (.inr (.inr ‹_›))
    · exact mem_timerAltS h (.inr ‹_›)
  · simp at h; subst h; exact .stop ‹_›
  · simp at h

theorem mem_envS {p : Params} {s : SState} {x : Option Unit × SState} (h : x ∈ envS p s) : SStep p s x.2 := by
  unfold envS at h
  rcases List.mem_append.mp h with h | h
  · rcases List.mem_append.mp h with h | h
    · split at h
      · simp at h; subst h; exact .fire ‹_›
      · simp at h
    · split at h
      · split at h
        · simp at h; subst h; exact .peerRecv _ _ ‹_› ‹_›
        · simp at h
      · simp at h
  · split at h
    · rcases List.mem_append.mp h with h | h
      · split at h
        · simp at h; subst h; exact .peerSend _ _ ‹_› ‹_›
        · simp at h
      · split at h
        · simp at h; subst h; exact .peerHandoff _ _ ‹_› ‹_›
        · simp at h
    · simp at h

theorem step_of_mem {p : Params} {s s' : SState} {l : Option Unit} (h : (l, s') ∈ succS p s) : SStep p s s' := by
  unfold succS at h
  rcases List.mem_append.mp h with h | h
  · exact mem_stepSH h
  · exact mem_envS h


/-! ### the invariant -/

/-- what the helper knows at its program counter -/
def SPcOk (s : SState) : Prop :=
  match s.pc with
  | .start | .blk | .sel | .wait => s.sendFired = false
  | .stop => s.sendFired = true
  | .done r => r = s.sendFired ∧ (r = false → s.fired = true)

/-- program counters and the timer, per mode -/
def SModeOk (p : Params) (s : SState) : Prop :=
  match p.mode with
  | .timeout tmo =>
    (s.armed = true → 0 < tmo) ∧ (s.fired = true → s.armed = true) ∧
    (s.pc = .blk → tmo ≤ 0) ∧ (s.pc = .sel → 0 < tmo) ∧ (s.pc = .wait → 0 < tmo) ∧ (s.pc = .stop → 0 < tmo)
  | .context _ _ => s.armed = false ∧ s.pc ≠ .blk ∧ s.pc ≠ .stop

structure SGood (p : Params) (s : SState) : Prop where
  supply : p.val ∉ s.supply
  count : (s.ch.buf ++ s.taken).count p.val = if s.sendFired then 1 else 0
  pcOk : SPcOk s
  modeOk : SModeOk p s

theorem sendNext_cases (p : Params) (pc : SPc) :
    sendNext p pc = .done true ∨ (sendNext p pc = .stop ∧ pc ≠ .blk ∧ ∃ tmo, p.mode = .timeout tmo) := by
  unfold sendNext
  split
  · left; rfl
  · right; exact ⟨rfl, by intro h; simp_all, _, ‹_›⟩
  · left; rfl

theorem good_init (p : Params) (h1 : p.val ∉ p.fill) (h2 : p.val ∉ p.peerSends) : SGood p (initS p) := by
  refine ⟨h2, ?_, ?_, ?_⟩
  · simp [initS, Chan.mk', List.count_eq_zero.mpr h1]
  · simp [SPcOk, initS]
  · unfold SModeOk
    split <;> simp_all [initS, Params.preFired]

theorem supply_step {p : Params} {s s' : SState} (hg : SGood p s) (h : SStep p s s') : p.val ∉ s'.supply := by
  have := hg.supply
  cases h <;> simp_all

theorem count_step {p : Params} {s s' : SState} (hg : SGood p s) (h : SStep p s s') :
    (s'.ch.buf ++ s'.taken).count p.val = if s'.sendFired then 1 else 0 := by
  have h1 := hg.supply
  have h2 := hg.count
  have h3 := hg.pcOk
  unfold SPcOk at h3
  cases h
  all_goals first
    | (simpa using h2; done)
    | (rename_i hpc _; rcases hpc with hpc | hpc | hpc <;> simp_all [Chan.send, List.count_append] <;> omega; done)
    | (simp_all [Chan.send, List.count_append, List.count_cons]; done)
    | (simp_all [Chan.send, List.count_append, List.count_cons]; omega; done)
    | (rename_i v vs hs _
       have hne : ¬ v = p.val := by intro e; apply h1; rw [hs, e]; simp
       simp only [Chan.send, List.count_append, List.count_cons, List.count_nil] at h2 ⊢
       simp only [beq_iff_eq, hne, if_false] at h2 ⊢
       omega)


theorem pcOk_step {p : Params} {s s' : SState} (hg : SGood p s) (h : SStep p s s') : SPcOk s' := by
  have h3 := hg.pcOk
  unfold SPcOk at h3 ⊢
  cases h
  all_goals first
    | (simp_all; done)
    | (rename_i hpc _
       rcases sendNext_cases p s.pc with hn | ⟨hn, _, _⟩ <;> simp only [hn] <;> simp_all
       done)
    | (split at h3 <;> simp_all; done)

theorem modeOk_step {p : Params} {s s' : SState} (hg : SGood p s) (h : SStep p s s') : SModeOk p s' := by
  have h4 := hg.modeOk
  unfold SModeOk at h4 ⊢
  cases h
  all_goals first
    | (split at h4 <;> simp_all <;> omega; done)
    | (rename_i hpc _
       rcases hpc with hpc | hpc | hpc <;> split at h4 <;> simp_all [sendNext]
       done)
    | (split at h4 <;> simp_all [fireOk]; done)

theorem good_step {p : Params} {s s' : SState} (hg : SGood p s) (h : SStep p s s') : SGood p s' :=
  ⟨supply_step hg h, count_step hg h, pcOk_step hg h, modeOk_step hg h⟩

theorem good_reachable (p : Params) (h1 : p.val ∉ p.fill) (h2 : p.val ∉ p.peerSends) :
    ∀ s, Reachable (sendSys p) s → SGood p s :=
  Conc.invariant (sendSys p) (SGood p) (good_init p h1 h2) (fun _ _ _ hg hm => good_step hg (step_of_mem hm))


/-! ### consequences -/

/-- the result of SendTimeout / SendContext tells exactly whether the value went into the channel -/
theorem send_iff (p : Params) (h1 : p.val ∉ p.fill) (h2 : p.val ∉ p.peerSends)
    (s : SState) (hr : Reachable (sendSys p) s) (r : Bool) (hpc : s.pc = .done r) :
    (r = true ↔ s.sendFired = true) ∧
    (s.ch.buf ++ s.taken).count p.val = (if r then 1 else 0) ∧
    (r = false → p.val ∉ s.ch.buf ∧ p.val ∉ s.taken ∧ p.val ∉ s.supply ∧ s.fired = true) := by
  have hg := good_reachable p h1 h2 s hr
  have h3 := hg.pcOk
  have h4 := hg.count
  unfold SPcOk at h3
  rw [hpc] at h3
  simp only at h3
  obtain ⟨e, hf⟩ := h3
  subst e
  refine ⟨by simp, h4, ?_⟩
  intro hfalse
  rw [hfalse] at h4
  simp only [Bool.false_eq_true, if_false, List.count_eq_zero, List.mem_append, not_or] at h4
  exact ⟨h4.1, h4.2, hg.supply, hf hfalse⟩

/-- with a non-positive timeout no timer exists: SendTimeout never returns false -/
theorem nonpositive_send (p : Params) (tmo : Int) (hm : p.mode = .timeout tmo) (ht : tmo ≤ 0)
    (h1 : p.val ∉ p.fill) (h2 : p.val ∉ p.peerSends) (s : SState) (hr : Reachable (sendSys p) s) :
    s.armed = false ∧ s.fired = false ∧ s.pc ≠ .sel ∧ s.pc ≠ .wait ∧ s.pc ≠ .stop ∧ s.pc ≠ .done false := by
  have hg := good_reachable p h1 h2 s hr
  have h3 := hg.pcOk
  have h4 := hg.modeOk
  unfold SModeOk at h4
  rw [hm] at h4
  simp only at h4
  obtain ⟨a1, a2, _, a4, a5, a6⟩ := h4
  have ha : s.armed = false := by
    cases h : s.armed
    · rfl
    · have := a1 h; omega
  have hf : s.fired = false := by
    cases h : s.fired
    · rfl
    · have := a2 h; simp_all
  refine ⟨ha, hf, ?_, ?_, ?_, ?_⟩
  · intro h; have := a4 h; omega
  · intro h; have := a5 h; omega
  · intro h; have := a6 h; omega
  · intro h
    unfold SPcOk at h3
    rw [h] at h3
    simp only at h3
    simp_all

end TypVerif.Lemmas.ChanSend
