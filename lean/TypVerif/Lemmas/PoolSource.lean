import TypVerif.Lemmas.Pool
namespace TypVerif.Lemmas.Pool
open TypVerif TypVerif.Conc TypVerif.Model.Pool TypVerif.Model

/-- which program counters are possible with / without a `New` hook -/
def NewOk (hasNew : Bool) (s : State) : Prop :=
  ∀ t, match (s.thr t).pc with
    | .g1 | .g2 => hasNew = true
    | .gRet none => hasNew = false
    | .gRet (some _) => hasNew = true
    | _ => True

theorem newOk_reachable (hasNew : Bool) (menu : List Op) (n : Nat) :
    ∀ s, Reachable (sys hasNew menu n) s → NewOk hasNew s := by
  apply Conc.invariant (sys hasNew menu n) (NewOk hasNew)
  · intro t; rw [thr_init]; trivial
  · intro s l s' ih hmem t'
    obtain ⟨t, ht, hshape⟩ := step_shape hmem
    have h' := ih t'
    have ht0 := ih t
    cases hshape <;> rw [thr_mk _ _ _ _ ht] <;> by_cases e : t' = t <;>
      simp only [e, if_true, if_false] <;> first
        | exact h'
        | (cases hasNew <;> simp_all; done)
        | (simp_all; done)
        | trivial


/-- where the result of a `Get` comes from: the step that makes goroutine `t` ready to return `x` -/
theorem get_source {hasNew : Bool} {menu : List Op} {s s' : State} {l : Option Event} {t : Nat} {x : Option Nat}
    (hmem : (l, s') ∈ succ hasNew menu s) (hpc' : (s'.thr t).pc = .gRet x) :
    (s.thr t).pc = .gRet x ∨
    ((s.thr t).pc = .g0 ∧ hasNew = false ∧ x = none ∧ s'.bag = s.bag ∧ s'.fresh = s.fresh) ∨
    ((s.thr t).pc = .g1 ∧ ∃ i, x = some i ∧ i ∈ s.bag ∧ s'.bag = s.bag.erase i ∧ s'.fresh = s.fresh) ∨
    ((s.thr t).pc = .g2 ∧ x = some s.fresh ∧ s'.fresh = s.fresh + 1 ∧ s'.bag = s.bag) := by
  obtain ⟨t0, ht, hshape⟩ := step_shape hmem
  by_cases e : t = t0
  · subst e
    cases hshape <;> rw [thr_mk _ _ _ _ ht] at hpc' <;> simp only [if_true] at hpc'
    case readNew hpc =>
      cases hasNew
      · simp only [Bool.false_eq_true, if_false, Pc.gRet.injEq] at hpc'
        right; left; exact ⟨hpc, rfl, hpc'.symm, rfl, rfl⟩
      · simp at hpc'
    case poolHit i hpc hi =>
      simp only [Pc.gRet.injEq] at hpc'
      right; right; left; exact ⟨hpc, i, hpc'.symm, hi, rfl, rfl⟩
    case callNew hpc =>
      simp only [Pc.gRet.injEq] at hpc'
      right; right; right; exact ⟨hpc, hpc'.symm, rfl, rfl⟩
    all_goals simp at hpc'
  · left
    cases hshape <;> rw [thr_mk _ _ _ _ ht] at hpc' <;> simp only [e, if_false] at hpc' <;> exact hpc'

/-- a `res t (item id)` event returns what the goroutine was about to return -/
theorem res_item_step {hasNew : Bool} {menu : List Op} {s s' : State} {t id : Nat}
    (hmem : (some (AtomicObj.Event.res t (Res.item id)), s') ∈ succ hasNew menu s) :
    ∃ x, (s.thr t).pc = .gRet x ∧ id = x.getD 0 := by
  obtain ⟨t0, _, hshape⟩ := step_shape hmem
  cases hshape
  exact ⟨_, by assumption, rfl⟩

/-- the fixed `Get`/`Put` perform no plain write at all -/
theorem accesses_read_only (s : State) (t : Nat) (a : Access) (h : a ∈ accesses false s t) : a.write = false := by
  unfold accesses at h
  split at h <;> simp at h <;> simp [h]

theorem not_racy (s : State) : ¬ racy false s := by
  rintro ⟨t1, t2, _, a1, h1, a2, h2, hc⟩
  have w1 := accesses_read_only s t1 a1 h1
  have w2 := accesses_read_only s t2 a2 h2
  simp [conflict, w1, w2] at hc

end TypVerif.Lemmas.Pool
