import TypVerif.Lemmas.PubSubLiveBlocked
/-
The naming discipline behind `C10.FreshSubNames`: channel names (of pending `Sub` calls and of existing channels) are
pairwise distinct.  `NamesOk` is preserved by EVERY step of the system (any configuration, clones or not): the only
step that could break it, an environment invocation `sub c` / `mkchan c` whose name `c` is carried by a pending `Sub`
or by an existing channel, is refused by the model (`envStep`, guard `nameTaken`).  Hence `NamesOk` holds in every
reachable state (`namesOk_reachable`).
-/
namespace TypVerif.Lemmas.PubSubLive
open TypVerif TypVerif.Model.PubSub TypVerif.Lemmas.PubSubSafe

/- `subName c t` (the task is a pending `Sub` that will create channel `c`) now lives in `Model/PubSub.lean`: the
environment step reads it. -/

def idCount (cs : List ChanSt) (c : Chan) : Nat := cs.countP (fun ch => ch.id == c)

/-- how often the name `c` is in use: pending `Sub`s plus existing channels -/
def nameCount (s : State) (c : Chan) : Nat := s.tasks.countP (subName c) + idCount s.chans c

def NamesOk (s : State) : Prop := ∀ c, nameCount s c ≤ 1

theorem namesOk_init : NamesOk ({} : State) := by
  intro c; simp [nameCount, idCount]

/-! ### channel table -/

theorem idCount_updChan (cs : List ChanSt) (c' c : Chan) (f : ChanSt → ChanSt) (hid : ∀ ch, (f ch).id = ch.id) :
    idCount (updChan cs c' f) c = idCount cs c := by
  induction cs with
  | nil => rfl
  | cons ch rest ih =>
    simp only [idCount, updChan, List.map_cons, List.countP_cons] at ih ⊢
    rw [ih]
    by_cases h : (ch.id == c') = true
    · simp [h, hid]
    · simp [h]

theorem idCount_closeAll : ∀ (l : List Chan) (cs cs' : List ChanSt) (c : Chan), closeAll cs l = some cs' →
    idCount cs' c = idCount cs c
  | [], cs, cs', c, he => by
    simp only [closeAll, Option.some.injEq] at he
    subst he; rfl
  | x :: rest, cs, cs', c, he => by
    simp only [closeAll] at he
    split at he
    · cases he
    · rw [idCount_closeAll rest _ cs' c he]
      exact idCount_updChan cs x c _ (fun _ => rfl)

theorem idCount_append (cs : List ChanSt) (ch : ChanSt) (c : Chan) :
    idCount (cs ++ [ch]) c = idCount cs c + (if ch.id == c then 1 else 0) := by
  simp [idCount, List.countP_append, List.countP_cons]

theorem idCount_zero_of_not_hasChan {cs : List ChanSt} {c : Chan} (h : hasChan cs c = false) : idCount cs c = 0 := by
  simp only [hasChan, List.any_eq_false] at h
  simp only [idCount, List.countP_eq_zero]
  exact h

theorem not_hasChan_of_idCount_zero {cs : List ChanSt} {c : Chan} (h : idCount cs c = 0) : hasChan cs c = false := by
  simp only [idCount, List.countP_eq_zero] at h
  simp only [hasChan, List.any_eq_false]
  exact h

theorem sendTo_sent_idCount {s s' : State} {it : Item} (c : Chan) (h : sendTo s it = .sent s') :
    idCount s'.chans c = idCount s.chans c := by
  unfold sendTo at h
  split at h
  · cases h
  · split at h
    · cases h
    · split at h
      · injection h with h; subst h
        exact idCount_updChan _ _ _ _ (fun _ => rfl)
      · split at h
        · injection h with h; subst h
          exact idCount_updChan _ _ _ _ (fun _ => rfl)
        · cases h

theorem nameTaken_false_hasChan {s : State} {c : Chan} (h : nameTaken s c = false) : hasChan s.chans c = false := by
  simp only [nameTaken, Bool.or_eq_false_iff] at h
  exact h.1

/-- the model's own guard on `sub c` / `mkchan c`: no pending `Sub` carries the name -/
theorem nameTaken_false_countP {s : State} {c : Chan} (h : nameTaken s c = false) :
    s.tasks.countP (subName c) = 0 := by
  simp only [nameTaken, Bool.or_eq_false_iff, List.any_eq_false] at h
  rw [List.countP_eq_zero]
  exact h.2

/-- `NamesOk` gives the hypothesis of the deadlock theorem -/
theorem fresh_of_namesOk {s : State} (h : NamesOk s) :
    ∀ o c cap, Task.subWait o c cap ∈ s.tasks → hasChan s.chans c = false := by
  intro o c cap hm
  have h1 : 0 < s.tasks.countP (subName c) :=
    List.countP_pos_iff.mpr ⟨_, hm, by simp [subName]⟩
  have h2 := h c
  unfold nameCount at h2
  exact not_hasChan_of_idCount_zero (by omega)

/-! ### generic preservation -/

theorem nameCount_set {s s' : State} {i : Nat} {t t' : Task} (c : Chan) (hi : s.tasks[i]? = some t)
    (htasks : s'.tasks = s.tasks.set i t') (hn : subName c t' = subName c t)
    (hch : idCount s'.chans c = idCount s.chans c) : nameCount s' c = nameCount s c := by
  have h1 := countP_set_eq (subName c) s.tasks i t t' hi
  rw [hn] at h1
  unfold nameCount
  rw [htasks, hch]; omega

theorem nameCount_set_spawn {s s' : State} {i : Nat} {t t' : Task} {ts : List Task} (c : Chan)
    (hi : s.tasks[i]? = some t) (htasks : s'.tasks = s.tasks.set i t' ++ ts) (hn : subName c t' = subName c t)
    (hts : ∀ x ∈ ts, subName c x = false)
    (hch : idCount s'.chans c = idCount s.chans c) : nameCount s' c = nameCount s c := by
  have h1 := countP_set_eq (subName c) s.tasks i t t' hi
  rw [hn] at h1
  have h2 : ts.countP (subName c) = 0 := by
    rw [List.countP_eq_zero]; intro x hx; simp [hts x hx]
  unfold nameCount
  rw [htasks, hch, List.countP_append, h2]; omega

theorem nameCount_of_eq {s s1 : State} {c : Chan} (ht : s1.tasks = s.tasks)
    (hc : idCount s1.chans c = idCount s.chans c) : nameCount s1 c = nameCount s c := by
  unfold nameCount; rw [ht, hc]

theorem stepSend_cases {cfg : Cfg} {s : State} {it : Item} {cb : Bool} {fin setCb : State → State}
    {l : Option Event} {s' : State} (h : (l, s') ∈ stepSend cfg s it cb fin setCb) :
    s' = fin s ∨ (∃ s1, sendTo s it = .sent s1 ∧ s' = fin s1) ∨ s' = s.panic "send-on-closed" ∨
    s' = setCb (s.logTimeout it) := by
  unfold stepSend at h
  cases cb with
  | true =>
    simp at h
    exact Or.inl h.2
  | false =>
    simp only [Bool.false_eq_true, if_false, List.mem_append] at h
    rcases h with h | h
    · cases hst : sendTo s it with
      | blocked => simp [hst] at h
      | panic =>
        simp [hst] at h
        exact Or.inr (Or.inr (Or.inl h.2))
      | sent s1 =>
        simp [hst] at h
        exact Or.inr (Or.inl ⟨s1, rfl, h.2⟩)
    · split at h
      · simp at h
        exact Or.inr (Or.inr (Or.inr h.2))
      · simp at h

theorem wgDone_chans (s : State) (w : Nat) : (wgDone s w).chans = s.chans := by
  unfold wgDone; split <;> rfl

/-- a sender step: `fin` / `setCb` replace task `i` by a task that is not a pending `Sub` and keep the channel ids -/
theorem nameCount_stepSend {cfg : Cfg} {s s' : State} {i : Nat} {t : Task} {it : Item} {cb : Bool}
    {fin setCb : State → State} {l : Option Event} (c : Chan) (_hi : s.tasks[i]? = some t)
    (hfin : ∀ s1 : State, s1.tasks = s.tasks → idCount s1.chans c = idCount s.chans c →
      nameCount (fin s1) c = nameCount s c)
    (hcb : ∀ s1 : State, s1.tasks = s.tasks → idCount s1.chans c = idCount s.chans c →
      nameCount (setCb s1) c = nameCount s c)
    (h : (l, s') ∈ stepSend cfg s it cb fin setCb) : nameCount s' c = nameCount s c := by
  rcases stepSend_cases h with rfl | ⟨s1, hst, rfl⟩ | rfl | rfl
  · exact hfin s rfl rfl
  · exact hfin s1 (sendTo_sent hst).tasks (sendTo_sent_idCount c hst)
  · rfl
  · exact hcb _ rfl rfl

/-! ### task steps -/

theorem nameCount_stepTask {cfg : Cfg} {s s' : State} {i : Nat} {t : Task} {l : Option Event}
    (hi : s.tasks[i]? = some t) (h : (l, s') ∈ stepTask cfg s i t) (c : Chan) : nameCount s' c = nameCount s c := by
  cases t with
  | pubStart p o v evs =>
    simp only [stepTask, stepPubStart] at h
    split at h
    · simp at h
    · split at h
      · split at h
        · simp only [List.mem_singleton, Prod.mk.injEq] at h
          obtain ⟨_, rfl⟩ := h
          exact nameCount_set c hi rfl rfl rfl
        · simp only [List.mem_singleton, Prod.mk.injEq] at h
          obtain ⟨_, rfl⟩ := h
          exact nameCount_set c hi rfl rfl rfl
      · split at h
        · simp only [List.mem_singleton, Prod.mk.injEq] at h
          obtain ⟨_, rfl⟩ := h
          refine nameCount_set_spawn c hi rfl rfl ?_ rfl
          intro x hx
          simp only [List.mem_map] at hx
          obtain ⟨_, _, rfl⟩ := hx; rfl
        · simp only [List.mem_singleton, Prod.mk.injEq] at h
          obtain ⟨_, rfl⟩ := h
          refine nameCount_set_spawn c hi rfl rfl ?_ rfl
          intro x hx
          simp only [List.mem_map] at hx
          obtain ⟨_, _, rfl⟩ := hx; rfl
  | syncLoop p o work cb =>
    cases work with
    | nil => simp [stepTask, stepSyncLoop] at h
    | cons it rest =>
      simp only [stepTask, stepSyncLoop] at h
      refine nameCount_stepSend c hi ?_ ?_ h
      · intro s1 ht hc
        rw [← ht] at hi
        have : nameCount (syncAdvance i p o rest s1) c = nameCount s1 c := by
          cases rest with
          | nil => exact nameCount_set c hi rfl rfl rfl
          | cons it2 rest2 => exact nameCount_set c hi rfl rfl rfl
        exact this.trans (nameCount_of_eq ht hc)
      · intro s1 ht hc
        rw [← ht] at hi
        exact Eq.trans (nameCount_set c hi rfl rfl rfl) (nameCount_of_eq ht hc)
  | waitWg p o w =>
    simp only [stepTask, stepWaitWg] at h
    split at h
    · simp only [List.mem_singleton, Prod.mk.injEq] at h
      obtain ⟨_, rfl⟩ := h
      exact nameCount_set c hi rfl rfl rfl
    · simp at h
  | pubRet p =>
    simp only [stepTask, List.mem_singleton, Prod.mk.injEq] at h
    obtain ⟨_, rfl⟩ := h
    exact nameCount_set c hi rfl rfl rfl
  | asyncStart o it =>
    simp only [stepTask, stepAsyncStart] at h
    split at h
    · simp at h
    · split at h
      · simp only [List.mem_singleton, Prod.mk.injEq] at h
        obtain ⟨_, rfl⟩ := h
        exact nameCount_set c hi rfl rfl rfl
      · simp only [List.mem_singleton, Prod.mk.injEq] at h
        obtain ⟨_, rfl⟩ := h
        exact nameCount_set c hi rfl rfl rfl
  | asyncSend o it cb =>
    simp only [stepTask, stepAsyncSend] at h
    refine nameCount_stepSend c hi ?_ ?_ h
    · intro s1 ht hc
      rw [← ht] at hi
      exact (nameCount_set (s' := (s1.runlock o).setTask i .done) c hi rfl rfl rfl).trans (nameCount_of_eq ht hc)
    · intro s1 ht hc
      rw [← ht] at hi
      exact Eq.trans (nameCount_set c hi rfl rfl rfl) (nameCount_of_eq ht hc)
  | wgSend o w it cb =>
    simp only [stepTask, stepWgSend] at h
    refine nameCount_stepSend c hi ?_ ?_ h
    · intro s1 ht hc
      rw [← ht] at hi
      exact (nameCount_set (s := s1) (s' := (wgDone s1 w).setTask i .done) (t' := .done) c hi
        (by simp [State.setTask, wgDone_tasks]) rfl (by simp [State.setTask, wgDone_chans])).trans
        (nameCount_of_eq ht hc)
    · intro s1 ht hc
      rw [← ht] at hi
      exact Eq.trans (nameCount_set c hi rfl rfl rfl) (nameCount_of_eq ht hc)
  | subStart o c' cap =>
    simp only [stepTask, List.mem_singleton, Prod.mk.injEq] at h
    obtain ⟨_, rfl⟩ := h
    exact nameCount_set c hi rfl rfl rfl
  | subWait o c' cap =>
    simp only [stepTask, stepSubWait] at h
    split at h
    · simp at h
    · simp only [List.mem_singleton, Prod.mk.injEq] at h
      obtain ⟨_, rfl⟩ := h
      have h1 := countP_set_eq (subName c) s.tasks i (.subWait o c' cap) (.subRet c') hi
      unfold nameCount
      simp only [State.setTask, State.setObj, idCount_append]
      by_cases hcc : (c' == c) = true
      · simp [subName, hcc] at h1 ⊢
        omega
      · simp [subName, hcc] at h1 ⊢
        omega
  | subRet c' =>
    simp only [stepTask, List.mem_singleton, Prod.mk.injEq] at h
    obtain ⟨_, rfl⟩ := h
    exact nameCount_set c hi rfl rfl rfl
  | unsubStart u o c' =>
    cases c' with
    | none =>
      simp only [stepTask, List.mem_singleton, Prod.mk.injEq] at h
      obtain ⟨_, rfl⟩ := h
      exact nameCount_set c hi rfl rfl rfl
    | some c' =>
      simp only [stepTask, List.mem_singleton, Prod.mk.injEq] at h
      obtain ⟨_, rfl⟩ := h
      exact nameCount_set c hi rfl rfl rfl
  | unsubWait u o c' =>
    simp only [stepTask, stepUnsubWait] at h
    split at h
    · simp at h
    · split at h
      · split at h
        · simp only [List.mem_singleton, Prod.mk.injEq] at h
          obtain ⟨_, rfl⟩ := h
          rfl
        · simp only [List.mem_singleton, Prod.mk.injEq] at h
          obtain ⟨_, rfl⟩ := h
          exact nameCount_set c hi rfl rfl (idCount_updChan _ _ _ _ (fun _ => rfl))
      · simp only [List.mem_singleton, Prod.mk.injEq] at h
        obtain ⟨_, rfl⟩ := h
        exact nameCount_set c hi rfl rfl rfl
  | unsubRet u code =>
    simp only [stepTask, List.mem_singleton, Prod.mk.injEq] at h
    obtain ⟨_, rfl⟩ := h
    exact nameCount_set c hi rfl rfl rfl
  | uaStart u o =>
    simp only [stepTask, List.mem_singleton, Prod.mk.injEq] at h
    obtain ⟨_, rfl⟩ := h
    exact nameCount_set c hi rfl rfl rfl
  | uaWait u o =>
    simp only [stepTask, stepUaWait] at h
    split at h
    · simp at h
    · split at h
      · simp only [List.mem_singleton, Prod.mk.injEq] at h
        obtain ⟨_, rfl⟩ := h
        rfl
      · rename_i cs hcs
        simp only [List.mem_singleton, Prod.mk.injEq] at h
        obtain ⟨_, rfl⟩ := h
        exact nameCount_set c hi rfl rfl (idCount_closeAll _ _ _ c hcs)
  | uaRet u =>
    simp only [stepTask, List.mem_singleton, Prod.mk.injEq] at h
    obtain ⟨_, rfl⟩ := h
    exact nameCount_set c hi rfl rfl rfl
  | woStart w o c' =>
    simp only [stepTask, stepWoStart] at h
    split at h
    · simp at h
    · simp only [List.mem_singleton, Prod.mk.injEq] at h
      obtain ⟨_, rfl⟩ := h
      exact nameCount_set c hi rfl rfl rfl
  | done => simp [stepTask] at h

theorem nameCount_recvSteps {s s' : State} {ch : ChanSt} {l : Option Event} (h : (l, s') ∈ recvSteps s ch)
    (c : Chan) : nameCount s' c = nameCount s c := by
  have key : ∀ f : ChanSt → ChanSt, (∀ x, (f x).id = x.id) →
      nameCount { s with chans := updChan s.chans ch.id f } c = nameCount s c := by
    intro f hf
    unfold nameCount
    rw [idCount_updChan _ _ _ _ hf]
  unfold recvSteps at h
  split at h
  · simp at h
  · split at h
    · simp only [List.mem_singleton, Prod.mk.injEq] at h
      obtain ⟨_, rfl⟩ := h
      exact key _ (fun _ => rfl)
    · split at h
      · simp at h
      · split at h
        · simp only [List.mem_singleton, Prod.mk.injEq] at h
          obtain ⟨_, rfl⟩ := h
          exact key _ (fun _ => rfl)
        · split at h
          · simp only [List.mem_singleton, Prod.mk.injEq] at h
            obtain ⟨_, rfl⟩ := h
            exact key _ (fun _ => rfl)
          · simp at h

theorem nameCount_spawn1 (s : State) (t : Task) (c : Chan) :
    nameCount (s.spawn [t]) c = nameCount s c + (if subName c t then 1 else 0) := by
  unfold nameCount
  simp only [State.spawn, List.countP_append, List.countP_cons, List.countP_nil]
  omega

/-- an invocation keeps the names distinct: a `sub c` / `mkchan c` whose name is carried by a pending `Sub` or by an
existing channel is refused by the model itself -/
theorem namesOk_envStep {cfg : Cfg} {s s' : State} {e : Event} (hok : NamesOk s) (h : envStep cfg s e = some s') :
    NamesOk s' := by
  intro c'
  have hc' := hok c'
  cases e with
  | sub c cap =>
    simp only [envStep] at h
    split at h
    · cases h
    · rename_i hh
      injection h with h; subst h
      rw [nameCount_spawn1]
      by_cases hcc : c = c'
      · subst hcc
        have h1 := nameTaken_false_countP (s := s) (c := c) (by simpa using hh)
        have h2 := idCount_zero_of_not_hasChan (nameTaken_false_hasChan (s := s) (c := c) (by simpa using hh))
        simp [nameCount, subName, h1, h2]
      · have : (c == c') = false := by simp [hcc]
        simp [subName, this]; exact hc'
  | mkchan c =>
    simp only [envStep] at h
    split at h
    · cases h
    · rename_i hh
      injection h with h; subst h
      unfold nameCount at hc' ⊢
      simp only [idCount_append]
      by_cases hcc : c = c'
      · subst hcc
        have h1 := nameTaken_false_countP (s := s) (c := c) (by simpa using hh)
        have h2 := idCount_zero_of_not_hasChan (nameTaken_false_hasChan (s := s) (c := c) (by simpa using hh))
        simp [h1, h2]
      · have : (c == c') = false := by simp [hcc]
        simp [this]; exact hc'
  | withonly w via c =>
    simp only [envStep] at h
    split at h
    · injection h with h; subst h
      rw [nameCount_spawn1 { s with objs := s.objs ++ [({ only := some c, ready := false } : ObjSt)] }]
      have e : nameCount { s with objs := s.objs ++ [({ only := some c, ready := false } : ObjSt)] } c'
          = nameCount s c' := rfl
      rw [e]
      simpa [subName] using hc'
    · cases h
  | pubinv p via v evs =>
    simp only [envStep] at h
    split at h
    · cases h
    · injection h with h; subst h
      rw [nameCount_spawn1 { s with pids := s.pids ++ [p] }]
      have e : nameCount { s with pids := s.pids ++ [p] } c' = nameCount s c' := rfl
      rw [e]
      simpa [subName] using hc'
  | allow c n =>
    simp only [envStep] at h
    split at h
    · injection h with h; subst h
      have e := idCount_updChan s.chans c c' (fun ch => { ch with allow := ch.allow + n }) (fun _ => rfl)
      unfold nameCount at hc' ⊢
      show List.countP (subName c') s.tasks +
        idCount (updChan s.chans c (fun ch => { ch with allow := ch.allow + n })) c' ≤ 1
      rw [e]; exact hc'
    · cases h
  | unsubinv u via c =>
    simp only [envStep] at h
    split at h
    · injection h with h; subst h
      rw [nameCount_spawn1]
      simpa [subName] using hc'
    · cases h
  | unsuballinv u via =>
    simp only [envStep] at h
    split at h
    · injection h with h; subst h
      rw [nameCount_spawn1]
      simpa [subName] using hc'
    · cases h
  | _ => simp [envStep] at h

/-- every step of the system keeps the names distinct -/
theorem namesOk_succ {cfg : Cfg} {s s' : State} {l : Option Event} (hok : NamesOk s) (h : (l, s') ∈ succ cfg s) :
    NamesOk s' := by
  unfold succ at h
  split at h
  · simp at h
  · split at h
    · simp only [List.mem_singleton, Prod.mk.injEq] at h
      obtain ⟨_, rfl⟩ := h
      exact hok
    · simp only [List.mem_append] at h
      rcases h with ((h | h) | h) | h
      · simp only [envSteps, List.mem_filterMap] at h
        obtain ⟨e, _, he⟩ := h
        cases hes : envStep cfg s e with
        | none => simp [hes] at he
        | some s1 =>
          simp [hes] at he
          obtain ⟨rfl, rfl⟩ := he
          exact namesOk_envStep hok hes
      · simp only [List.mem_flatMap, List.mem_range] at h
        obtain ⟨i, _, hi⟩ := h
        unfold taskSteps at hi
        split at hi
        · simp at hi
        · rename_i t ht
          intro c
          rw [nameCount_stepTask ht hi c]; exact hok c
      · simp only [List.mem_flatMap] at h
        obtain ⟨ch, _, hch⟩ := h
        intro c
        rw [nameCount_recvSteps hch c]; exact hok c
      · simp only [exitSteps, List.mem_map] at h
        obtain ⟨r, _, hr⟩ := h
        injection hr with _ hr; subst hr
        exact hok

/-- names are pairwise distinct in every reachable state, for every configuration (with or without clones) -/
theorem namesOk_reachable (cfg : Cfg) : ∀ s, Conc.Reachable (sys cfg) s → NamesOk s :=
  Conc.invariant (sys cfg) NamesOk namesOk_init (fun _ _ _ hok h => namesOk_succ hok h)

end TypVerif.Lemmas.PubSubLive
