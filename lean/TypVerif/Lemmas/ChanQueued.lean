import TypVerif.Model.ChanHelpers
/-
The queued receivers `RecvQueued` / `RecvQueuedFull` (C19): the loops return exactly the queued prefix.
-/
namespace TypVerif.Lemmas.ChanQueued
open TypVerif.Model.ChanHelpers TypVerif.Model.Chan

theorem trySelectRecv_cons {c : Chan} {v : Int} {rest : List Int} (h : c.buf = v :: rest) :
    c.trySelectRecv = some ((v, true), { c with buf := rest }) := by
  simp [Chan.trySelectRecv, Chan.canRecv, Chan.recv, h]

theorem trySelectRecv_nil_closed {c : Chan} (h : c.buf = []) (hc : c.closed = true) :
    c.trySelectRecv = some ((0, false), c) := by
  simp [Chan.trySelectRecv, Chan.canRecv, Chan.recv, h, hc]

theorem trySelectRecv_nil_open {c : Chan} (h : c.buf = []) (hc : c.closed = false) :
    c.trySelectRecv = none := by
  simp [Chan.trySelectRecv, Chan.canRecv, h, hc]

theorem chan_eta_nil {c : Chan} (h : c.buf = []) : ({ c with buf := [] } : Chan) = c := by
  cases c; simp_all

/-- specification of the `RecvQueued` loop from any intermediate state -/
theorem recvQueuedLoop_spec (maxV : Int) : ∀ (fuel : Nat) (c : Chan) (buffer : List Int) (steps : Nat),
    maxV.toNat - buffer.length < fuel →
    (recvQueuedLoop maxV fuel c buffer steps).buffer = buffer ++ c.buf.take (maxV.toNat - buffer.length) ∧
    (recvQueuedLoop maxV fuel c buffer steps).ch = { c with buf := c.buf.drop (maxV.toNat - buffer.length) } ∧
    (recvQueuedLoop maxV fuel c buffer steps).steps =
      steps + min (maxV.toNat - buffer.length) c.buf.length + (if c.buf.length < maxV.toNat - buffer.length then 1 else 0) ∧
    (recvQueuedLoop maxV fuel c buffer steps).stop ≠ .fuel := by
  intro fuel
  induction fuel with
  | zero => intro c buffer steps h; omega
  | succ fuel ih =>
    intro c buffer steps hf
    unfold recvQueuedLoop
    by_cases hlt : (buffer.length : Int) < maxV
    · simp only [hlt, if_true]
      have hk : maxV.toNat - buffer.length = (maxV.toNat - (buffer.length + 1)) + 1 := by omega
      cases hb : c.buf with
      | nil =>
        cases hc : c.closed with
        | true =>
          rw [trySelectRecv_nil_closed hb hc]
          simp
          exact ⟨by cases c; simp_all, by omega⟩
        | false =>
          rw [trySelectRecv_nil_open hb hc]
          simp
          exact ⟨by cases c; simp_all, by omega⟩
      | cons v rest =>
        rw [trySelectRecv_cons hb]
        simp only [Bool.not_true, Bool.false_eq_true, if_false]
        have := ih { c with buf := rest } (buffer ++ [v]) (steps + 1) (by simp; omega)
        simp only [List.length_append, List.length_singleton] at this
        obtain ⟨h1, h2, h3, h4⟩ := this
        refine ⟨?_, ?_, ?_, h4⟩
        · rw [h1, hk]; simp
        · rw [h2, hk]; simp
        · rw [h3, hk]; simp only [List.length_cons]
          split <;> split <;> omega
    · simp only [hlt, if_false]
      have hk : maxV.toNat - buffer.length = 0 := by omega
      rw [hk]
      cases c; simp


theorem recvQueued_spec (c : Chan) (limit : Int) :
    (recvQueued c limit).buffer = c.buf.take limit.toNat ∧
    (recvQueued c limit).ch = { c with buf := c.buf.drop limit.toNat } ∧
    (recvQueued c limit).steps = min limit.toNat c.buf.length + (if c.buf.length < limit.toNat then 1 else 0) ∧
    (recvQueued c limit).stop ≠ .fuel := by
  have := recvQueuedLoop_spec limit (limit.toNat + 1) c [] 0 (by simp)
  simpa [recvQueued] using this

theorem take_succ_set (cb : List Int) (i : Nat) (v : Int) (h : i < cb.length) :
    (cb.set i v).take (i + 1) = cb.take i ++ [v] := by
  induction cb generalizing i with
  | nil => simp at h
  | cons x xs ih =>
    cases i with
    | zero => simp
    | succ i => simp at h; simp [ih i h]

theorem drop_set_lt (cb : List Int) (i j : Nat) (v : Int) (h : i < j) :
    (cb.set i v).drop j = cb.drop j := by
  induction cb generalizing i j with
  | nil => simp
  | cons x xs ih =>
    cases j with
    | zero => omega
    | succ j =>
      cases i with
      | zero => simp
      | succ i => simp [ih i j (by omega)]

/-- specification of the `RecvQueuedFull` loop from any intermediate state -/
theorem recvQueuedFullLoop_spec : ∀ (fuel : Nat) (c : Chan) (cb : List Int) (index steps : Nat),
    cb.length - index < fuel →
    (recvQueuedFullLoop fuel c cb index steps).n = index + min c.buf.length (cb.length - index) ∧
    (recvQueuedFullLoop fuel c cb index steps).buf =
      cb.take index ++ c.buf.take (min c.buf.length (cb.length - index)) ++
        cb.drop (index + min c.buf.length (cb.length - index)) ∧
    (recvQueuedFullLoop fuel c cb index steps).ch = { c with buf := c.buf.drop (cb.length - index) } ∧
    (recvQueuedFullLoop fuel c cb index steps).steps =
      steps + min c.buf.length (cb.length - index) + (if c.buf.length < cb.length - index then 1 else 0) ∧
    (recvQueuedFullLoop fuel c cb index steps).stop ≠ .fuel := by
  intro fuel
  induction fuel with
  | zero => intro c cb index steps h; omega
  | succ fuel ih =>
    intro c cb index steps hf
    unfold recvQueuedFullLoop
    by_cases hlt : index < cb.length
    · simp only [hlt, if_true]
      have hk : cb.length - index = (cb.length - (index + 1)) + 1 := by omega
      cases hb : c.buf with
      | nil =>
        cases hc : c.closed with
        | true =>
          rw [trySelectRecv_nil_closed hb hc]
          simp
          exact ⟨by cases c; simp_all, by omega⟩
        | false =>
          rw [trySelectRecv_nil_open hb hc]
          simp
          exact ⟨by cases c; simp_all, by omega⟩
      | cons v rest =>
        rw [trySelectRecv_cons hb]
        simp only [Bool.not_true, Bool.false_eq_true, if_false]
        have := ih { c with buf := rest } (cb.set index v) (index + 1) (steps + 1) (by simp; omega)
        simp only [List.length_set] at this
        obtain ⟨h1, h2, h3, h4, h5⟩ := this
        refine ⟨?_, ?_, ?_, ?_, h5⟩
        · rw [h1, hk]; simp only [List.length_cons]; omega
        · rw [h2, take_succ_set cb index v hlt, drop_set_lt cb index _ v (by omega), hk]
          simp only [List.length_cons]
          have e1 : min (rest.length + 1) (cb.length - (index + 1) + 1) = min rest.length (cb.length - (index + 1)) + 1 := by omega
          rw [e1]
          have e2 : index + 1 + min rest.length (cb.length - (index + 1)) = index + (min rest.length (cb.length - (index + 1)) + 1) := by omega
          rw [e2]
          simp
        · rw [h3, hk]; simp
        · rw [h4, hk]; simp only [List.length_cons]
          split <;> split <;> omega
    · simp only [hlt, if_false]
      have hk : cb.length - index = 0 := by omega
      rw [hk]
      have : cb.drop index = [] := by simp; omega
      cases c; simp [this]
      exact (List.take_of_length_le (by omega)).symm


theorem recvQueuedFull_spec (c : Chan) (cb : List Int) :
    (recvQueuedFull c cb).n = min c.buf.length cb.length ∧
    (recvQueuedFull c cb).buf = c.buf.take (min c.buf.length cb.length) ++ cb.drop (min c.buf.length cb.length) ∧
    (recvQueuedFull c cb).ch = { c with buf := c.buf.drop (min c.buf.length cb.length) } ∧
    (recvQueuedFull c cb).steps = min c.buf.length cb.length + (if c.buf.length < cb.length then 1 else 0) ∧
    (recvQueuedFull c cb).stop ≠ .fuel := by
  have := recvQueuedFullLoop_spec (cb.length + 1) c cb 0 0 (by simp)
  simp only [Nat.sub_zero, Nat.zero_add, List.take_zero, List.nil_append] at this
  obtain ⟨h1, h2, h3, h4, h5⟩ := this
  refine ⟨h1, h2, ?_, h4, h5⟩
  rw [recvQueuedFull, h3]
  congr 1
  by_cases h : c.buf.length ≤ cb.length
  · rw [Nat.min_eq_left h, List.drop_of_length_le h, List.drop_of_length_le (Nat.le_refl _)]
  · rw [Nat.min_eq_right (by omega)]

end TypVerif.Lemmas.ChanQueued
