import TypVerif.Lemmas.Once
import TypVerif.Spec.Once
namespace TypVerif.Lemmas.Once
open TypVerif TypVerif.Conc TypVerif.Model.Once TypVerif.Spec.Once

/-- simulation relation between the model's ghost state and the monitor -/
structure Sim (s : State) (m : Mon) : Prop where
  fres : m.fres = s.fres
  started : m.started = s.invoked
  called : ∀ t, s.pc t ≠ .idle → t ∈ m.called

theorem sim_init (n a : Nat) : Sim (init n a) Mon.init := by
  refine ⟨rfl, rfl, ?_⟩
  intro t h
  exfalso; apply h
  unfold State.pc init
  simp only [List.getD_eq_getElem?_getD, List.getElem?_replicate]
  split <;> rfl

theorem called_set {s s' : State} {t : Nat} {p : Pc} {c c' : List Nat}
    (hp : s'.pcs = s.pcs.set t p) (hc : ∀ t, s.pc t ≠ .idle → t ∈ c)
    (hsub : ∀ x, x ∈ c → x ∈ c') (htc : t ∈ c') : ∀ t', s'.pc t' ≠ .idle → t' ∈ c' := by
  intro t' h
  by_cases e : t' = t
  · subst e; exact htc
  · have e' : ¬ t = t' := fun x => e x.symm
    have : s'.pc t' = s.pc t' := by
      unfold State.pc; rw [hp]
      simp [List.getD_eq_getElem?_getD, e']
    rw [this] at h
    exact hsub _ (hc _ h)

theorem sim_step {res : Nat → List Int} {s s' : State} {l : Option Event} {m : Mon}
    (hg : Good s) (hs : Sim s m) (hmem : (l, s') ∈ succ res s) :
    match l with
    | none => Sim s' m
    | some e => ∃ m', m.step e = .ok m' ∧ Sim s' m' := by
  obtain ⟨t, ht, hstep⟩ := mem_succ.mp hmem
  have hT := hg.thread t
  have hdT := hg.doneT
  have hc := hs.called
  have hct := hs.called t
  obtain ⟨hf, hst, _⟩ := hs
  unfold ThreadOk at hT
  unfold stepT at hstep
  split at hstep <;> (try split at hstep) <;> simp at hstep <;> obtain ⟨rfl, rfl⟩ := hstep <;>
    simp only [Mon.step]
  all_goals (have htc : s.pc t ≠ Pc.idle → t ∈ m.called := hct)
  all_goals (rw [‹s.pc t = _›] at htc hT)
  all_goals first
    | (refine ⟨?_, ?_, called_set rfl hc (fun _ h => h) (htc (by simp))⟩ <;> simp_all [State.setPc] <;> done)
    | (refine ⟨_, rfl, ?_, ?_, called_set rfl hc (fun _ h => List.mem_cons_of_mem _ h) (List.mem_cons_self)⟩ <;> simp_all [State.setPc] <;> done)
    | skip
  · -- fstart
    have hmc := htc (by simp)
    simp only at hT
    have h1 : m.started = [] := by rw [hst]; exact hT.2.2.1
    simp only [h1, hmc, ne_eq, not_true_eq_false, if_false]
    refine ⟨_, rfl, ?_, ?_, called_set rfl hc (fun _ h => h) hmc⟩ <;> simp_all [State.setPc]
  · -- fend
    have hmc := htc (by simp)
    simp only at hT
    have h1 : m.started = [t] := by rw [hst]; exact hT.2.2.1
    have h2 : m.fres = none := by rw [hf]; exact hT.2.2.2
    simp only [h1, h2, ne_eq, not_true_eq_false, if_false]
    refine ⟨_, rfl, ?_, ?_, called_set rfl hc (fun _ h => h) hmc⟩ <;> simp_all [State.setPc]
  · -- ret
    have hmc := htc (by simp)
    simp only at hT
    have h2 : m.fres = some s.fields := by rw [hf]; exact (hdT hT).2
    simp only [h2, hmc, not_true_eq_false, if_false, if_true]
    refine ⟨_, rfl, ?_, ?_, called_set rfl hc (fun _ h => h) hmc⟩ <;> simp_all [State.setPc]

theorem run_ok {n a : Nat} {res : Nat → List Int} {ls : List (Option Event)}
    {s s' : (sys n a res).State} (he : Exec (sys n a res) s ls s') :
    ∀ (m : Mon), Reachable (sys n a res) s → Sim s m →
      ∃ m', m.run (visible ls) = .ok m' ∧ Sim s' m' := by
  induction he with
  | nil s => intro m _ hs; exact ⟨m, rfl, hs⟩
  | @cons s s1 s2 l ls hmem _ ih =>
    intro m hr hs
    have hg := good_reachable n a res s hr
    have hr1 : Reachable (sys n a res) s1 := Reachable.step hr hmem
    have h1 := sim_step (res := res) hg hs hmem
    cases l with
    | none =>
      simp only at h1
      exact ih m hr1 h1
    | some e =>
      simp only at h1
      obtain ⟨m1, hm1, hs1⟩ := h1
      obtain ⟨m', hm', hs'⟩ := ih m1 hr1 hs1
      refine ⟨m', ?_, hs'⟩
      show Mon.run m (e :: visible ls) = _
      simp only [Mon.run, hm1]
      exact hm'

end TypVerif.Lemmas.Once
