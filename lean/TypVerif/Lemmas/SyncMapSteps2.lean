import TypVerif.Lemmas.SyncMapSteps
/-
Composite updates, part 2: unexpunge-and-store of a read entry, and storing a key that is in neither map
(with an existing dirty map, and the first new key after a promotion, which runs `dirtyLocked`).
-/
namespace TypVerif.Lemmas.SyncMap
open TypVerif.Model.SyncMap

set_option linter.unusedSectionVars false
set_option linter.unusedVariables false

variable {K V : Type} [DecidableEq K]

/-! ### unexpunge, `m.dirty[key] = e`, store -/

/-- the state after `e.unexpungeLocked(); m.dirty[k] = e; e.storeLocked(&v)` -/
def revive (s : State K V) (k : K) (e : EId) (v : V) (d : List (K × EId)) : State K V :=
  { s with entries := s.entries.set e (.val v), dirty := some (ainsert k e d) }

theorem revive_eq {s : State K V} {d : List (K × EId)} (hd : s.dirty = some d) (k : K) (e : EId) (v : V) :
    setP (setDirty (setP s e .nil) k e) e (.val v) = revive s k e v d := by
  unfold setDirty
  simp only [setP_dirty, hd]
  unfold setP revive
  simp [List.set_set]

theorem rd_revive (s : State K V) (k : K) (e : EId) (v : V) (d : List (K × EId)) (k' : K) :
    rd (revive s k e v d) k' = rd s k' := rfl

theorem dt_revive {s : State K V} {d : List (K × EId)} (hd : s.dirty = some d) (k : K) (e : EId) (v : V) (k' : K) :
    dt (revive s k e v d) k' = if k' = k then some e else dt s k' := by
  rw [dt_of_some hd]
  show alookup k' (ainsert k e d) = _
  rw [alookup_ainsert]

theorem getP_revive (s : State K V) (k : K) (e : EId) (v : V) (d : List (K × EId)) (he : e < s.entries.length) (e' : EId) :
    getP (revive s k e v d) e' = if e' = e then .val v else getP s e' :=
  getP_setP s e e' (.val v) he

theorem SeqInv.revive_ok {s : State K V} (h : SeqInv s) {k : K} {e : EId} (v : V)
    (hk : rd s k = some e) (hx : getP s e = .expunged) {d : List (K × EId)} (hd : s.dirty = some d) :
    SeqInv (revive s k e v d) := by
  have hdn : s.dirty ≠ none := by rw [hd]; intro h2; cases h2
  have he := h.readRange k e hk
  have hdk : dt s k = none := (h.s2 hdn k e hk).2 hx
  have ham := h.s7 hdn
  refine
    { nofault := h.nofault, readNodup := h.readNodup, dirtyNodup := ?_, readRange := ?_, dirtyRange := ?_,
      s1 := ?_, s2 := ?_, s3 := ?_, s4 := ?_, s5 := ?_, s6 := ?_, s7 := fun _ => ham }
  · show (akeys (ainsert k e d)).Nodup
    have := h.dirtyNodup; simp only [dirtyMap, hd, Option.getD_some] at this
    exact nodup_ainsert this
  · intro k' e' hk'
    show e' < (s.entries.set e (.val v)).length
    rw [List.length_set]; exact h.readRange k' e' hk'
  · intro k' e' hk'
    show e' < (s.entries.set e (.val v)).length
    rw [List.length_set]
    rw [dt_revive hd] at hk'
    split at hk'
    · injection hk' with hk'; subst hk'; exact he
    · exact h.dirtyRange k' e' hk'
  · intro h2; cases h2
  · intro _ k' e' hk'
    rw [rd_revive] at hk'
    rw [dt_revive hd, getP_revive s k e v d he]
    by_cases h1 : e' = e
    · subst h1
      have : k' = k := h.s6 k' k e' (Or.inl hk') (Or.inl hk)
      subst this
      simp
    · have hne : ¬ k' = k := fun h2 => by subst h2; rw [hk] at hk'; injection hk' with hk'; exact h1 hk'.symm
      simp only [h1, hne, if_false]
      exact h.s2 hdn k' e' hk'
  · intro h2; cases h2
  · intro ha; rw [show (revive s k e v d).amended = s.amended from rfl, ham] at ha; cases ha
  · intro k' e' hr hk'
    rw [rd_revive] at hr
    have hne : ¬ k' = k := fun h2 => by subst h2; rw [hk] at hr; cases hr
    rw [dt_revive hd] at hk'; simp only [hne, if_false] at hk'
    have hne2 : ¬ e' = e := fun h2 => by subst h2; exact hne (h.s6 k' k e' (Or.inr hk') (Or.inl hk))
    rw [getP_revive s k e v d he]; simp only [hne2, if_false]
    exact h.s5 k' e' hr hk'
  · intro k1 k2 e0 h1 h2
    apply h.s6 k1 k2 e0
    · rcases h1 with h1 | h1
      · left; exact h1
      · rw [dt_revive hd] at h1; split at h1
        · rename_i hkk; injection h1 with h1; subst h1; subst hkk; left; exact hk
        · right; exact h1
    · rcases h2 with h2 | h2
      · left; exact h2
      · rw [dt_revive hd] at h2; split at h2
        · rename_i hkk; injection h2 with h2; subst h2; subst hkk; left; exact hk
        · right; exact h2

theorem abs_revive {s : State K V} (h : SeqInv s) {k : K} {e : EId} (v : V)
    (hk : rd s k = some e) {d : List (K × EId)} (hd : s.dirty = some d) (k' : K) :
    abs (revive s k e v d) k' = if k' = k then some v else abs s k' := by
  have he := h.readRange k e hk
  have hc : cur (revive s k e v d) k' = cur s k' := by
    unfold cur
    rw [rd_revive, dt_revive hd]
    cases hr : rd s k' with
    | some e0 => rfl
    | none =>
      have hne : ¬ k' = k := fun h2 => by subst h2; rw [hk] at hr; cases hr
      simp only [hne, if_false]; rfl
  have hl : ∀ e', loadEntry (revive s k e v d) e' = if e' = e then some v else loadEntry s e' := by
    intro e'; rw [loadEntry_eq, getP_revive s k e v d he, loadEntry_eq]; split <;> rfl
  unfold abs; rw [hc]
  cases hcur : cur s k' with
  | none =>
    have hne : ¬ k' = k := fun h2 => by subst h2; rw [cur_of_rd hk] at hcur; cases hcur
    simp [hne]
  | some e' =>
    simp only [Option.bind_some, hl]
    by_cases h1 : k' = k
    · subst h1; rw [cur_of_rd hk] at hcur; injection hcur with hcur; simp [hcur]
    · have : ¬ e' = e := fun h2 => by subst h2; exact h1 (h.cur_inj hcur (cur_of_rd hk))
      simp [h1, this]

/-! ### a new key while the dirty map exists -/

/-- the state after `m.dirty[k] = newEntry(v)` -/
def addNew (s : State K V) (k : K) (v : V) (d : List (K × EId)) : State K V :=
  { s with entries := s.entries ++ [.val v], dirty := some (ainsert k s.entries.length d) }

theorem addNew_eq {s : State K V} {d : List (K × EId)} (hd : s.dirty = some d) (k : K) (v : V) :
    setDirty (newEntry s v).1 k (newEntry s v).2 = addNew s k v d := by
  unfold setDirty newEntry
  simp only [hd]
  rfl

theorem getP_append (s : State K V) (p : P V) (e : Nat) :
    getP { s with entries := s.entries ++ [p] } e =
      if e = s.entries.length then p else getP s e := by
  unfold getP
  simp only [List.getD_eq_getElem?_getD, List.getElem?_append]
  by_cases h1 : e < s.entries.length
  · have : ¬ e = s.entries.length := Nat.ne_of_lt h1
    simp [h1, this]
  · by_cases h2 : e = s.entries.length
    · simp [h2]
    · have : s.entries.length ≤ e := Nat.le_of_not_lt h1
      have h3 : e - s.entries.length ≠ 0 := by omega
      simp only [h1, h2, if_false]
      rw [List.getElem?_eq_none (by simp; omega), List.getElem?_eq_none this]

theorem getP_addNew (s : State K V) (k : K) (v : V) (d : List (K × EId)) (e : EId) :
    getP (addNew s k v d) e = if e = s.entries.length then .val v else getP s e :=
  getP_append s (.val v) e

theorem dt_addNew {s : State K V} {d : List (K × EId)} (hd : s.dirty = some d) (k : K) (v : V) (k' : K) :
    dt (addNew s k v d) k' = if k' = k then some s.entries.length else dt s k' := by
  rw [dt_of_some hd]
  show alookup k' (ainsert k s.entries.length d) = _
  rw [alookup_ainsert]

theorem SeqInv.addNew_ok {s : State K V} (h : SeqInv s) {k : K} (v : V)
    (hk : rd s k = none) (hk2 : dt s k = none) {d : List (K × EId)} (hd : s.dirty = some d) :
    SeqInv (addNew s k v d) := by
  have hdn : s.dirty ≠ none := by rw [hd]; intro h2; cases h2
  have ham := h.s7 hdn
  have hlen : (addNew s k v d).entries.length = s.entries.length + 1 := by simp [addNew]
  have hrd : ∀ k', rd (addNew s k v d) k' = rd s k' := fun _ => rfl
  refine
    { nofault := h.nofault, readNodup := h.readNodup, dirtyNodup := ?_, readRange := ?_, dirtyRange := ?_,
      s1 := ?_, s2 := ?_, s3 := ?_, s4 := ?_, s5 := ?_, s6 := ?_, s7 := fun _ => ham }
  · show (akeys (ainsert k s.entries.length d)).Nodup
    have := h.dirtyNodup; simp only [dirtyMap, hd, Option.getD_some] at this
    exact nodup_ainsert this
  · intro k' e' hk'; rw [hlen]; exact Nat.lt_succ_of_lt (h.readRange k' e' hk')
  · intro k' e' hk'; rw [hlen]
    rw [dt_addNew hd] at hk'; split at hk'
    · injection hk' with hk'; subst hk'; exact Nat.lt_succ_self _
    · exact Nat.lt_succ_of_lt (h.dirtyRange k' e' hk')
  · intro h2; cases h2
  · intro _ k' e' hk'
    rw [hrd] at hk'
    have hne : ¬ k' = k := fun h2 => by subst h2; rw [hk] at hk'; cases hk'
    have hne2 : ¬ e' = s.entries.length := Nat.ne_of_lt (h.readRange k' e' hk')
    rw [dt_addNew hd, getP_addNew]; simp only [hne, hne2, if_false]
    exact h.s2 hdn k' e' hk'
  · intro h2; cases h2
  · intro ha; rw [show (addNew s k v d).amended = s.amended from rfl, ham] at ha; cases ha
  · intro k' e' hr hk'
    rw [hrd] at hr
    rw [dt_addNew hd] at hk'; rw [getP_addNew]
    split at hk'
    · injection hk' with hk'; simp [hk']
    · have hne2 : ¬ e' = s.entries.length := Nat.ne_of_lt (h.dirtyRange k' e' hk')
      simp only [hne2, if_false]; exact h.s5 k' e' hr hk'
  · intro k1 k2 e0 h1 h2
    rw [hrd, dt_addNew hd] at h1
    rw [hrd, dt_addNew hd] at h2
    by_cases hk1 : k1 = k
    · by_cases hk2' : k2 = k
      · rw [hk1, hk2']
      · exfalso
        simp only [hk1, hk, if_true, reduceCtorEq, false_or] at h1
        injection h1 with h1
        simp only [hk2', if_false] at h2
        subst h1
        rcases h2 with h2 | h2
        · exact absurd (h.readRange k2 _ h2) (Nat.lt_irrefl _)
        · exact absurd (h.dirtyRange k2 _ h2) (Nat.lt_irrefl _)
    · by_cases hk2' : k2 = k
      · exfalso
        simp only [hk2', hk, if_true, reduceCtorEq, false_or] at h2
        injection h2 with h2
        simp only [hk1, if_false] at h1
        subst h2
        rcases h1 with h1 | h1
        · exact absurd (h.readRange k1 _ h1) (Nat.lt_irrefl _)
        · exact absurd (h.dirtyRange k1 _ h1) (Nat.lt_irrefl _)
      · simp only [hk1, if_false] at h1
        simp only [hk2', if_false] at h2
        exact h.s6 k1 k2 e0 h1 h2

theorem abs_addNew {s : State K V} (h : SeqInv s) {k : K} (v : V)
    (hk : rd s k = none) {d : List (K × EId)} (hd : s.dirty = some d) (k' : K) :
    abs (addNew s k v d) k' = if k' = k then some v else abs s k' := by
  have hdn : s.dirty ≠ none := by rw [hd]; intro h2; cases h2
  have ham := h.s7 hdn
  have hl : ∀ e', loadEntry (addNew s k v d) e' = if e' = s.entries.length then some v else loadEntry s e' := by
    intro e'; rw [loadEntry_eq, getP_addNew, loadEntry_eq]; split <;> rfl
  have hc : cur (addNew s k v d) k' = if k' = k then some s.entries.length else cur s k' := by
    unfold cur
    show (match rd s k' with | some e => some e | none => if s.amended then dt (addNew s k v d) k' else none) = _
    rw [dt_addNew hd, ham]
    by_cases h1 : k' = k
    · subst h1; rw [hk]; simp
    · simp only [h1, if_false]; cases rd s k' <;> simp
  unfold abs; rw [hc]
  by_cases h1 : k' = k
  · simp [h1, hl]
  · simp only [h1, if_false]
    cases hcur : cur s k' with
    | none => rfl
    | some e' =>
      have : ¬ e' = s.entries.length := Nat.ne_of_lt (h.cur_lt hcur)
      simp [hl, this]

end TypVerif.Lemmas.SyncMap
