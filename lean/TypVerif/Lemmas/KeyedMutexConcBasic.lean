import TypVerif.Model.KeyedMutexConc
import TypVerif.Lemmas.SmcBasic
/-
C09 on the step-level map, layer 0: elementary facts about the composed model `Model/KeyedMutexConc.lean`
(mutex table, phases, the map component's steps, list counting).
-/
namespace TypVerif.Lemmas.KeyedMutexConc
open TypVerif.Model TypVerif.Model.SyncMapConc TypVerif.Model.KeyedMutexConc
open TypVerif.Lemmas.Smc (pc_setPc_self pc_setPc_ne)

set_option linter.unusedSectionVars false

variable {K : Type} [DecidableEq K]

/-! ### the mutex table -/

theorem getMu_putMu (l : List (MId × Mu)) (m : MId) (x : Mu) (m' : MId) :
    getMu (putMu l m x) m' = if m' = m then x else getMu l m' := by
  induction l with
  | nil =>
    simp only [putMu, getMu]
    by_cases h : m = m'
    · simp [h]
    · have : ¬ m' = m := fun e => h e.symm
      simp [h, this]
  | cons p r ih =>
    obtain ⟨i, y⟩ := p
    simp only [putMu]
    by_cases hi : i = m
    · subst hi
      simp only [if_true, getMu]
      by_cases h : i = m'
      · simp [h]
      · have : ¬ m' = i := fun e => h e.symm
        simp [h, this]
    · simp only [hi, if_false, getMu, ih]
      by_cases h : i = m'
      · have : ¬ m' = m := fun e => hi (h.trans e)
        simp [h, this]
      · simp [h]

theorem mu_of_mus {s s' : KeyedMutexConc.State K} (h : s'.mus = s.mus) (m : MId) : s'.mu m = s.mu m := by
  unfold KeyedMutexConc.State.mu; rw [h]

theorem mu_of_putMu {s s' : KeyedMutexConc.State K} {m : MId} {x : Mu} (h : s'.mus = putMu s.mus m x) (m' : MId) :
    s'.mu m' = if m' = m then x else s.mu m' := by
  unfold KeyedMutexConc.State.mu; rw [h, getMu_putMu]

theorem mu_of_putMu_self {s s' : KeyedMutexConc.State K} {m : MId} {x : Mu} (h : s'.mus = putMu s.mus m x) :
    s'.mu m = x := by
  rw [mu_of_putMu h]; simp

theorem mu_of_putMu_ne {s s' : KeyedMutexConc.State K} {m m' : MId} {x : Mu} (h : s'.mus = putMu s.mus m x)
    (hne : m' ≠ m) : s'.mu m' = s.mu m' := by
  rw [mu_of_putMu h]; simp [hne]

/-! ### phases -/

theorem phase_of_set {s s' : KeyedMutexConc.State K} {t : Tid} {p : Phase K} (h : s'.phases = s.phases.set t p) (u : Tid) :
    s'.phase u = if u = t ∧ t < s.phases.length then p else s.phase u := by
  simp only [KeyedMutexConc.State.phase, h, List.getD_eq_getElem?_getD, List.getElem?_set]
  by_cases h1 : t = u
  · subst h1
    by_cases h2 : t < s.phases.length
    · simp [h2]
    · simp [h2]
  · have : ¬ u = t := fun e => h1 e.symm
    simp [h1, this]

theorem phase_of_set_self {s s' : KeyedMutexConc.State K} {t : Tid} {p : Phase K} (h : s'.phases = s.phases.set t p)
    (ht : t < s.phases.length) : s'.phase t = p := by
  rw [phase_of_set h]; simp [ht]

theorem phase_of_set_ne {s s' : KeyedMutexConc.State K} {t u : Tid} {p : Phase K} (h : s'.phases = s.phases.set t p)
    (hu : u ≠ t) : s'.phase u = s.phase u := by
  rw [phase_of_set h]; simp [hu]

theorem phase_of_phases {s s' : KeyedMutexConc.State K} (h : s'.phases = s.phases) (u : Tid) : s'.phase u = s.phase u := by
  unfold KeyedMutexConc.State.phase; rw [h]

theorem phase_of_le {s : KeyedMutexConc.State K} {u : Tid} (h : s.phases.length ≤ u) : s.phase u = .idle := by
  simp [KeyedMutexConc.State.phase, List.getD_eq_getElem?_getD, h]

/-! ### the map component's steps -/

theorem mapSteps_shape {ms ms' : SyncMapConc.State K MId} {t : Tid} (h : ms' ∈ mapSteps ms t) :
    ∃ sh' pc', ms' = setPc ms t sh' pc' := by
  unfold mapSteps at h
  rcases List.mem_append.mp h with h | h
  · cases he : exec ms.sh t (ms.pc t) with
    | none => rw [he] at h; cases h
    | some p =>
      rw [he] at h
      exact ⟨p.1, p.2, List.mem_singleton.mp h⟩
  · obtain ⟨c, _, hc⟩ := List.mem_map.mp h
    exact ⟨ms.sh, c.2, hc.symm⟩

/-- a step of the map component inside the composed system IS a step of the map's own transition system -/
theorem mem_stepT_of_mapSteps (menu : List (SyncMapConc.Op K MId)) {ms ms' : SyncMapConc.State K MId} {t : Tid}
    (h : ms' ∈ mapSteps ms t) : (none, ms') ∈ SyncMapConc.stepT menu ms t := by
  unfold mapSteps at h
  unfold SyncMapConc.stepT
  split
  · rename_i heq
    rw [heq] at h
    simp [exec, picks] at h
  · rename_i r heq
    rw [heq] at h
    simp [exec, picks] at h
  · rcases List.mem_append.mp h with h | h
    · apply List.mem_append_left
      cases he : exec ms.sh t (ms.pc t) with
      | none => rw [he] at h; cases h
      | some p =>
        rw [he] at h
        rw [List.mem_singleton.mp h]
        exact List.mem_singleton.mpr rfl
    · apply List.mem_append_right
      obtain ⟨c, hc, hc'⟩ := List.mem_map.mp h
      exact List.mem_map.mpr ⟨c, hc, by rw [hc']⟩

theorem mem_stepT_inv {ms : SyncMapConc.State K MId} {t : Tid} (op : SyncMapConc.Op K MId) (h : ms.pc t = .idle) :
    (some (.inv t op), setPc ms t ms.sh (.start op)) ∈ SyncMapConc.stepT [op] ms t := by
  unfold SyncMapConc.stepT
  rw [h]
  exact List.mem_singleton.mpr rfl

theorem mem_stepT_res {ms : SyncMapConc.State K MId} {t : Tid} {r : SyncMapConc.Res K MId} (h : ms.pc t = .ret r) :
    (some (.res t r), setPc ms t ms.sh .idle) ∈ SyncMapConc.stepT [] ms t := by
  unfold SyncMapConc.stepT
  rw [h]
  exact List.mem_singleton.mpr rfl

/-! ### counting -/

theorem mem_of_count_pos {α : Type} [BEq α] [LawfulBEq α] {a : α} {l : List α} (h : 0 < l.count a) : a ∈ l :=
  List.count_pos_iff.mp h

theorem count_pos_of_mem' {α : Type} [BEq α] [LawfulBEq α] {a : α} {l : List α} (h : a ∈ l) : 0 < l.count a :=
  List.count_pos_iff.mpr h

/-! ### the discipline -/

theorem holdsW_iff {s : KeyedMutexConc.State K} {t : Tid} {k : K} : s.holdsW t k = true ↔ ∃ m, (t, k, m) ∈ s.wh := by
  unfold KeyedMutexConc.State.holdsW
  rw [List.any_eq_true]
  constructor
  · rintro ⟨⟨t', k', m⟩, hp, hd⟩
    simp only [decide_eq_true_eq] at hd
    obtain ⟨h1, h2⟩ := hd
    subst h1; subst h2
    exact ⟨m, hp⟩
  · rintro ⟨m, hp⟩
    exact ⟨(t, k, m), hp, by simp⟩

theorem holdsR_iff {s : KeyedMutexConc.State K} {t : Tid} {k : K} : s.holdsR t k = true ↔ ∃ m, (t, k, m) ∈ s.rh := by
  unfold KeyedMutexConc.State.holdsR
  rw [List.any_eq_true]
  constructor
  · rintro ⟨⟨t', k', m⟩, hp, hd⟩
    simp only [decide_eq_true_eq] at hd
    obtain ⟨h1, h2⟩ := hd
    subst h1; subst h2
    exact ⟨m, hp⟩
  · rintro ⟨m, hp⟩
    exact ⟨(t, k, m), hp, by simp⟩

end TypVerif.Lemmas.KeyedMutexConc
