import TypVerif.Lemmas.ConcAccept
import TypVerif.Drv.C19
import TypVerif.Props.C19
/-
Acceptance soundness for the timed-helper lines of the judge `Drv/C19.lean` (`sendLine`, `recvLine`).

The judge enumerates the outcomes of the scenario system with `sendOutcomes` / `recvOutcomes` (the generic `Conc.tauClosure`
from the initial state, projected by `sendFinal` / `recvFinal`), renders them (`renderSend` / `renderRecv`) and accepts the
implementation's result string iff it is one of the rendered outcomes.  Here: every enumerated outcome is the outcome of an
execution from the initial state; an accepted result string is the rendering of such an outcome.

Rendering (`Proto.Val.render`, a `partial def`) is opaque; nothing about it is needed: "the rendered outcome is `impl`" is
`renderSend o = impl`.
-/
namespace TypVerif.Lemmas.C19Accept
open TypVerif TypVerif.Conc TypVerif.Model.Chan TypVerif.Model.ChanHelpers TypVerif.Drv.C19 TypVerif.Proto

/-! ### outcome enumeration -/

theorem sendOutcomes_sound (fuel : Nat) (p : Params) : ∀ o ∈ sendOutcomes fuel p,
    ∃ (ls : List (Option Unit)) (s : SState),
      Exec (sendSys p) (initS p) ls s ∧ visible ls = [] ∧ sendFinal s = some o := by
  intro o ho
  unfold sendOutcomes at ho
  obtain ⟨s, hs, hf⟩ := List.mem_filterMap.1 (mem_of_mem_dedup ho)
  obtain ⟨s0, hs0, ls, hex, hv⟩ := tauClosure_sound (sendSys p) fuel _ s hs
  rw [List.mem_singleton.1 hs0] at hex
  exact ⟨ls, s, hex, hv, hf⟩

theorem recvOutcomes_sound (fuel : Nat) (p : Params) : ∀ o ∈ recvOutcomes fuel p,
    ∃ (ls : List (Option Unit)) (s : RState),
      Exec (recvSys p) (initR p) ls s ∧ visible ls = [] ∧ recvFinal s = some o := by
  intro o ho
  unfold recvOutcomes at ho
  obtain ⟨s, hs, hf⟩ := List.mem_filterMap.1 (mem_of_mem_dedup ho)
  obtain ⟨s0, hs0, ls, hex, hv⟩ := tauClosure_sound (recvSys p) fuel _ s hs
  rw [List.mem_singleton.1 hs0] at hex
  exact ⟨ls, s, hex, hv, hf⟩

/-! ### what the projections say -/

theorem sendFinal_eq {s : SState} {o : Bool × List Int × List Int} (h : sendFinal s = some o) :
    s.pc = .done o.1 ∧ (s.budget = 0 ∨ s.ch.buf = []) ∧ o.2.1 = s.taken ∧ o.2.2 = s.ch.buf := by
  unfold sendFinal at h
  split at h
  · rename_i r hpc
    split at h
    · rename_i hb
      simp only [Option.some.injEq] at h
      subst h
      exact ⟨hpc, hb, rfl, rfl⟩
    · cases h
  · cases h

theorem recvFinal_eq {s : RState} {o : Int × Bool × List Int} (h : recvFinal s = some o) :
    s.pc = .done o.1 o.2.1 ∧ o.2.2 = s.ch.buf ++ s.supply := by
  unfold recvFinal at h
  split at h
  · rename_i v ok hpc
    simp only [Option.some.injEq] at h
    subst h
    exact ⟨hpc, rfl⟩
  · cases h

/-- a completed send scenario without peer senders, under the judge's timing assumption, has no successor: it is a
terminated execution -/
theorem sendFinal_terminal (p : Params) (hp : p.promptPoll = true) {s : SState} {o : Bool × List Int × List Int}
    (h : sendFinal s = some o) (hs : s.supply = []) : succS p s = [] := by
  obtain ⟨hpc, hb, _, _⟩ := sendFinal_eq h
  have hfire : fireOk p s.armed s.fired (decide (s.pc = SPc.wait)) = false := by
    simp [fireOk, hp, hpc]
  unfold succS envS
  rw [hfire, hs]
  unfold stepSH
  rw [hpc]
  rcases hb with hb | hb
  · have : peerRecvOkS p s = false := by simp [peerRecvOkS, hb]
    cases hbuf : s.ch.buf <;> simp [this]
  · simp [hb]

/-- the peers' supply only shrinks: without peer senders it stays empty -/
theorem supplyS_nil_step (p : Params) (s s' : SState) (l : Option Unit) (hs : s.supply = [])
    (h : (l, s') ∈ succS p s) : s'.supply = [] := by
  unfold succS at h
  rcases List.mem_append.1 h with h | h
  · unfold stepSH at h
    have hsend : ∀ x ∈ sendAlts p s, x.2.supply = [] := by
      intro x hx
      unfold sendAlts at hx
      rcases List.mem_append.1 hx with hx | hx
      · split at hx
        · rw [List.mem_singleton.1 hx]; exact hs
        · cases hx
      · split at hx
        · rw [List.mem_singleton.1 hx]; exact hs
        · cases hx
    have htim : ∀ x ∈ timerAltS s, x.2.supply = [] := by
      intro x hx
      unfold timerAltS at hx
      split at hx
      · rw [List.mem_singleton.1 hx]; exact hs
      · cases hx
    split at h
    · split at h
      · split at h <;> (rw [List.mem_singleton] at h; cases h; exact hs)
      · rw [List.mem_singleton] at h; cases h; exact hs
    · exact hsend _ h
    · rcases List.mem_append.1 h with h | h
      · rcases List.mem_append.1 h with h | h
        · exact hsend _ h
        · exact htim _ h
      · split at h
        · cases h
        · rw [List.mem_singleton] at h; cases h; exact hs
    · rcases List.mem_append.1 h with h | h
      · exact hsend _ h
      · exact htim _ h
    · rw [List.mem_singleton] at h; cases h; exact hs
    · cases h
  · unfold envS at h
    rw [hs] at h
    simp only [List.append_nil] at h
    rcases List.mem_append.1 h with h | h
    · split at h
      · rw [List.mem_singleton] at h; cases h; rfl
      · cases h
    · split at h
      · split at h
        · rw [List.mem_singleton] at h; cases h; rfl
        · cases h
      · cases h

theorem supplyS_nil_exec (p : Params) {a b : (sendSys p).State} {ls : List (Option (sendSys p).Event)}
    (h : Exec (sendSys p) a ls b) (ha : SState.supply a = []) : SState.supply b = [] := by
  induction h with
  | nil s => exact ha
  | cons hm _ ih => exact ih (supplyS_nil_step p _ _ _ ha hm)

/-! ### the verdict -/

/-- the strings the judge itself produces as diagnostics; an implementation result (`<bool> <list> <list>`, resp.
`<int> <bool> <list>`) is none of them -/
def Diagnostic (impl : String) : Prop :=
  impl = "bad-op" ∨ (∃ x, impl = "rejected:not-in-{" ++ x) ∨ (∃ x, impl = "violated:" ++ x)

theorem diag_head {s : String} (h : Diagnostic s) :
    s.toList.head? = some 'b' ∨ s.toList.head? = some 'r' ∨ s.toList.head? = some 'v' := by
  rcases h with h | ⟨x, h⟩ | ⟨x, h⟩
  · left; rw [h]; decide
  · right; left; rw [h]; simp
  · right; right; rw [h]; simp

/-- no rendered send outcome is a diagnostic (it begins with `true` or `false`): the hypothesis `¬ Diagnostic impl` of
`sendLine_accept_sound` excludes no outcome of the model -/
theorem renderSend_not_diagnostic (o : Bool × List Int × List Int) : ¬ Diagnostic (renderSend o) := by
  intro h
  have := diag_head h
  obtain ⟨b, g, r⟩ := o
  cases b <;> simp [renderSend, boolStr] at this

theorem verdict_model (impl : String) (allowed : List String) (cons : Option String) (tags : List String)
    (h : (verdict impl allowed cons tags).model = impl) : impl ∈ allowed ∨ Diagnostic impl := by
  unfold verdict at h
  cases hc : allowed.contains impl with
  | true => exact Or.inl (List.contains_iff_mem.1 hc)
  | false =>
    right
    cases cons with
    | none =>
      simp only [hc] at h
      exact Or.inr (Or.inl ⟨_, by rw [← h, String.append_assoc]⟩)
    | some what =>
      simp only [hc] at h
      exact Or.inr (Or.inr ⟨_, by rw [← h, String.append_assoc, String.append_assoc]⟩)

theorem sendLine_model (op : String) (mode : Mode) (blocking : Bool) (cap fill peer : Nat) (impl : String)
    (h : (sendLine op mode blocking cap fill peer impl).model = impl) :
    impl ∈ (sendOutcomes fuel (sendScenario mode cap fill peer)).map renderSend ∨ Diagnostic impl := by
  unfold sendLine at h
  split at h
  · exact Or.inr (Or.inl h.symm)
  · simp only at h
    split at h
    · split at h
      · exact verdict_model _ _ _ _ h
      · exact verdict_model _ _ _ _ h
    · exact verdict_model _ _ _ _ h

theorem recvLine_model (op : String) (mode : Mode) (blocking : Bool) (cap fill : Nat) (closed : Bool) (peer : Nat)
    (impl : String) (h : (recvLine op mode blocking cap fill closed peer impl).model = impl) :
    impl ∈ (recvOutcomes fuel (recvScenario mode cap fill closed peer)).map renderRecv ∨ Diagnostic impl := by
  unfold recvLine at h
  split at h
  · exact Or.inr (Or.inl h.symm)
  · simp only at h
    split at h
    · split at h
      · exact verdict_model _ _ _ _ h
      · exact verdict_model _ _ _ _ h
    · exact verdict_model _ _ _ _ h

theorem sendLine_accept_sound (op : String) (mode : Mode) (blocking : Bool) (cap fill peer : Nat) (impl : String)
    (h : (sendLine op mode blocking cap fill peer impl).model = impl) (hnd : ¬ Diagnostic impl) :
    ∃ (ls : List (Option Unit)) (s : SState) (o : Bool × List Int × List Int),
      Exec (sendSys (sendScenario mode cap fill peer)) (initS (sendScenario mode cap fill peer)) ls s ∧
      sendFinal s = some o ∧ renderSend o = impl := by
  rcases sendLine_model op mode blocking cap fill peer impl h with hm | hd
  · obtain ⟨o, ho, hr⟩ := List.mem_map.1 hm
    obtain ⟨ls, s, hex, _, hf⟩ := sendOutcomes_sound fuel _ o ho
    exact ⟨ls, s, o, hex, hf, hr⟩
  · exact absurd hd hnd

theorem recvLine_accept_sound (op : String) (mode : Mode) (blocking : Bool) (cap fill : Nat) (closed : Bool) (peer : Nat)
    (impl : String) (h : (recvLine op mode blocking cap fill closed peer impl).model = impl) (hnd : ¬ Diagnostic impl) :
    ∃ (ls : List (Option Unit)) (s : RState) (o : Int × Bool × List Int),
      Exec (recvSys (recvScenario mode cap fill closed peer)) (initR (recvScenario mode cap fill closed peer)) ls s ∧
      recvFinal s = some o ∧ renderRecv o = impl := by
  rcases recvLine_model op mode blocking cap fill closed peer impl h with hm | hd
  · obtain ⟨o, ho, hr⟩ := List.mem_map.1 hm
    obtain ⟨ls, s, hex, _, hf⟩ := recvOutcomes_sound fuel _ o ho
    exact ⟨ls, s, o, hex, hf, hr⟩
  · exact absurd hd hnd

/-! ### frame facts used by the corollaries -/

/-- the timer / cancellation flag changes only by the environment's fire step -/
theorem firedS_step (p : Params) (s s' : SState) (l : Option Unit) (h : (l, s') ∈ succS p s) :
    s'.fired = s.fired ∨ fireOk p s.armed s.fired (decide (s.pc = .wait)) = true := by
  unfold succS at h
  rcases List.mem_append.1 h with h | h
  · left
    unfold stepSH at h
    have hsend : ∀ x ∈ sendAlts p s, x.2.fired = s.fired := by
      intro x hx
      unfold sendAlts at hx
      rcases List.mem_append.1 hx with hx | hx
      · split at hx
        · rw [List.mem_singleton.1 hx]
        · cases hx
      · split at hx
        · rw [List.mem_singleton.1 hx]
        · cases hx
    have htim : ∀ x ∈ timerAltS s, x.2.fired = s.fired := by
      intro x hx
      unfold timerAltS at hx
      split at hx
      · rw [List.mem_singleton.1 hx]
      · cases hx
    split at h
    · split at h
      · split at h <;> (rw [List.mem_singleton] at h; cases h; rfl)
      · rw [List.mem_singleton] at h; cases h; rfl
    · exact hsend _ h
    · rcases List.mem_append.1 h with h | h
      · rcases List.mem_append.1 h with h | h
        · exact hsend _ h
        · exact htim _ h
      · split at h
        · cases h
        · rw [List.mem_singleton] at h; cases h; rfl
    · rcases List.mem_append.1 h with h | h
      · exact hsend _ h
      · exact htim _ h
    · rw [List.mem_singleton] at h; cases h; rfl
    · cases h
  · unfold envS at h
    rcases List.mem_append.1 h with h | h
    · rcases List.mem_append.1 h with h | h
      · split at h
        · rename_i hf; exact Or.inr hf
        · cases h
      · left
        split at h
        · split at h
          · rw [List.mem_singleton] at h; cases h; rfl
          · cases h
        · cases h
    · left
      split at h
      · rcases List.mem_append.1 h with h | h
        · split at h
          · rw [List.mem_singleton] at h; cases h; rfl
          · cases h
        · split at h
          · rw [List.mem_singleton] at h; cases h; rfl
          · cases h
      · cases h

/-- a context that is neither cancelled before the call nor may be cancelled later is never cancelled -/
theorem never_firedS (p : Params) (hm : p.mode = .context false false) :
    ∀ s, Reachable (sendSys p) s → SState.fired s = false := by
  apply Conc.invariant (sendSys p) (fun s => SState.fired s = false)
  · show (initS p).fired = false
    simp [initS, Params.preFired, hm]
  · intro s l s' hP hs
    rcases firedS_step p s s' l hs with h | h
    · rw [h]; exact hP
    · simp [fireOk, hm] at h

theorem recvAlts_frame (p : Params) (s : RState) : ∀ x ∈ recvAlts p s,
    x.2.fired = s.fired ∧ x.2.sent ++ x.2.supply = s.sent ++ s.supply := by
  intro x hx
  unfold recvAlts at hx
  rcases List.mem_append.1 hx with hx | hx
  · split at hx
    · rw [List.mem_singleton.1 hx]; exact ⟨rfl, rfl⟩
    · cases hx
  · split at hx
    · rename_i v vs hsup
      split at hx
      · rw [List.mem_singleton.1 hx]
        refine ⟨rfl, ?_⟩
        simp [hsup]
      · cases hx
    · cases hx

theorem timerAltR_frame (s : RState) : ∀ x ∈ timerAltR s,
    x.2.fired = s.fired ∧ x.2.sent ++ x.2.supply = s.sent ++ s.supply := by
  intro x hx
  unfold timerAltR at hx
  split at hx
  · rw [List.mem_singleton.1 hx]; exact ⟨rfl, rfl⟩
  · cases hx

/-- receive side: the flag changes only by the fire step; what entered the channel plus what the peers still hold is constant -/
theorem frameR_step (p : Params) (s s' : RState) (l : Option Unit) (h : (l, s') ∈ succR p s) :
    (s'.fired = s.fired ∨ fireOk p s.armed s.fired (decide (s.pc = .wait)) = true) ∧
    s'.sent ++ s'.supply = s.sent ++ s.supply := by
  unfold succR at h
  rcases List.mem_append.1 h with h | h
  · suffices hh : s'.fired = s.fired ∧ s'.sent ++ s'.supply = s.sent ++ s.supply from ⟨Or.inl hh.1, hh.2⟩
    unfold stepRH at h
    split at h
    · split at h
      · split at h <;> (rw [List.mem_singleton] at h; cases h; exact ⟨rfl, rfl⟩)
      · rw [List.mem_singleton] at h; cases h; exact ⟨rfl, rfl⟩
    · exact recvAlts_frame p s _ h
    · rcases List.mem_append.1 h with h | h
      · rcases List.mem_append.1 h with h | h
        · exact recvAlts_frame p s _ h
        · exact timerAltR_frame s _ h
      · split at h
        · cases h
        · rw [List.mem_singleton] at h; cases h; exact ⟨rfl, rfl⟩
    · rcases List.mem_append.1 h with h | h
      · exact recvAlts_frame p s _ h
      · exact timerAltR_frame s _ h
    · rw [List.mem_singleton] at h; cases h; exact ⟨rfl, rfl⟩
    · cases h
  · unfold envR at h
    rcases List.mem_append.1 h with h | h
    · rcases List.mem_append.1 h with h | h
      · rcases List.mem_append.1 h with h | h
        · split at h
          · rename_i hf
            rw [List.mem_singleton] at h; cases h
            exact ⟨Or.inr hf, rfl⟩
          · cases h
        · split at h
          · split at h
            · rw [List.mem_singleton] at h; cases h; exact ⟨Or.inl rfl, rfl⟩
            · cases h
          · cases h
      · split at h
        · rename_i v vs hsup
          rcases List.mem_append.1 h with h | h
          · split at h
            · rw [List.mem_singleton] at h; cases h
              exact ⟨Or.inl rfl, by simp [hsup]⟩
            · cases h
          · split at h
            · rw [List.mem_singleton] at h; cases h
              exact ⟨Or.inl rfl, by simp [hsup]⟩
            · cases h
        · cases h
    · split at h
      · rw [List.mem_singleton] at h; cases h; exact ⟨Or.inl rfl, rfl⟩
      · cases h

theorem never_firedR (p : Params) (hm : p.mode = .context false false) :
    ∀ s, Reachable (recvSys p) s → RState.fired s = false := by
  apply Conc.invariant (recvSys p) (fun s => RState.fired s = false)
  · show (initR p).fired = false
    simp [initR, Params.preFired, hm]
  · intro s l s' hP hs
    rcases (frameR_step p s s' l hs).1 with h | h
    · rw [h]; exact hP
    · simp [fireOk, hm] at h

/-- everything that ever entered the channel, followed by what the peer senders still hold, is the initial content followed by
the peers' values -/
theorem sent_supply (p : Params) :
    ∀ s, Reachable (recvSys p) s → RState.sent s ++ RState.supply s = p.fill ++ p.peerSends := by
  apply Conc.invariant (recvSys p) (fun s => RState.sent s ++ RState.supply s = p.fill ++ p.peerSends)
  · rfl
  · intro s l s' hP hs
    rw [← hP]
    exact (frameR_step p s s' l hs).2

end TypVerif.Lemmas.C19Accept
