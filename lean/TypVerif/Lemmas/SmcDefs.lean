import TypVerif.Model.SyncMapConc
import TypVerif.Model.RelObj
/-
C04, concurrent half: definitions for the proof that the step-level transition system of `sync2.Map`
(`Model.SyncMapConc`) refines the relaxed atomic map (`Model.RelObj` over `mapSpec`), whose histories are
linearizable (`Lemmas.RelObj.linearizable`).

* `mapSpec`   the sequential map `K → Option V` as an `AtomicObj.Spec`; `pureRes` its effect-free results.
* `absOf`     the abstraction function: the map a concrete shared state stands for.
* `G`         global structural invariant of the read-map / dirty-map / expunged machinery, relaxed where a
              goroutine inside `dirtyLocked` has built only part of the dirty map (`unprocessed`).
* `T`         per-goroutine invariant: what a goroutine parked at a given hook knows about its locals, whether it
              holds `mu`, and how its abstract counterpart (`RPc`: pending with its `seen` results / done with its
              result) relates to it.
* `R`         the simulation relation `G ∧ abs ∧ ∀ t, T ∧ Obs`.
Everything except the abstraction equation is a decidable proposition (bounded quantifiers only), so `R` can be
evaluated on concrete runs of the model (`Drv/C04inv.lean`) — which is how the invariant was validated before it
was proved.
-/
namespace TypVerif.Lemmas.Smc
open TypVerif.Model TypVerif.Model.SyncMapConc TypVerif.Model.RelObj
open TypVerif.Model.SyncMap (alookup ainsert aerase akeys)

variable {K V : Type} [DecidableEq K] [DecidableEq V]

/-! ### the specification -/

def put (m : K → Option V) (k : K) (v : V) : K → Option V := fun k' => if k' = k then some v else m k'
def del (m : K → Option V) (k : K) : K → Option V := fun k' => if k' = k then none else m k'

/-- one call on the ordinary map; `range` is not an operation of the atomic map (it is not atomic) -/
def applyOp (m : K → Option V) : Op K V → List ((K → Option V) × Res K V)
  | .load k => [(m, .val (m k))]
  | .store k v => [(put m k v, .done)]
  | .loadOrStore k v => [match m k with | some w => (m, .pair w true) | none => (put m k v, .pair v false)]
  | .loadAndDelete k => [(del m k, .val (m k))]
  | .delete k => [(del m k, .done)]
  | .range => []

def mapSpec (K V : Type) [DecidableEq K] : AtomicObj.Spec :=
  { σ := K → Option V, Op := Op K V, Res := Res K V, init := fun _ => none, apply := applyOp }

/-- the result of `op` on `m` when it leaves `m` unchanged -/
def pureRes (m : K → Option V) : Op K V → Option (Res K V)
  | .load k => some (.val (m k))
  | .store _ _ => none
  | .loadOrStore k _ => (m k).map (fun w => .pair w true)
  | .loadAndDelete k => if (m k).isNone then some (.val none) else none
  | .delete k => if (m k).isNone then some .done else none
  | .range => none

/-! ### abstraction -/

def vals (l : List (K × EId)) : List EId := l.map Prod.snd

/-- the value the concrete state holds for `k` -/
def absOf (sh : Shared K V) (k : K) : Option V :=
  match alookup k sh.readM with
  | some e => (getP sh e).value?
  | none => if sh.amended then (alookup k (dirtyMap sh)).bind (fun e => (getP sh e).value?) else none

/-! ### predicates on entries -/

def isVal (p : Ptr V) : Bool := p.value?.isSome

/-- expunged and dropped from both maps: stays so forever -/
def Dead (sh : Shared K V) (e : EId) : Prop :=
  (getP sh e).isExpunged = true ∧ e ∉ vals sh.readM ∧ e ∉ vals (dirtyMap sh)

/-- removed from the dirty map by a slow-path `LoadAndDelete` (in neither map, not expunged) -/
def Orphan (sh : Shared K V) (e : EId) : Prop :=
  (getP sh e).isExpunged = false ∧ e ∉ vals sh.readM ∧ e ∉ vals (dirtyMap sh)

/-- `e` is the entry the maps currently hold for `k` -/
def Cur (sh : Shared K V) (k : K) (e : EId) : Prop :=
  alookup k sh.readM = some e ∨ (alookup k sh.readM = none ∧ alookup k (dirtyMap sh) = some e)

instance (sh : Shared K V) (e : EId) : Decidable (Dead sh e) := by unfold Dead; infer_instance
instance (sh : Shared K V) (e : EId) : Decidable (Orphan sh e) := by unfold Orphan; infer_instance
instance (sh : Shared K V) (k : K) (e : EId) : Decidable (Cur sh k e) := by unfold Cur; infer_instance

/-! ### abstract goroutine status -/

abbrev APc (K V : Type) := RPc (Op K V) (Res K V)

def Pend (a : APc K V) (op : Op K V) : Prop :=
  match a with
  | .pending op' _ => op' = op
  | _ => False

def seenOf (a : APc K V) : List (Res K V) :=
  match a with
  | .pending _ seen => seen
  | _ => []

def IsIdle (a : APc K V) : Prop :=
  match a with
  | .idle => True
  | _ => False

/-- the abstract goroutine has taken effect with result `r`, running an operation accepted by `okOp` -/
def DoneWith (a : APc K V) (okOp : Op K V → Bool) (r : Res K V) : Prop :=
  match a with
  | .done op r' => okOp op = true ∧ r' = r
  | _ => False

/-- about to return `r`: either it took effect with result `r`, or `r` is one of the effect-free results seen -/
def RetOk (a : APc K V) (r : Res K V) : Prop :=
  match a with
  | .done _ r' => r' = r
  | .pending _ seen => r ∈ seen
  | .idle => False

instance (a : APc K V) (op : Op K V) : Decidable (Pend a op) := by unfold Pend; split <;> infer_instance
instance (a : APc K V) : Decidable (IsIdle a) := by unfold IsIdle; split <;> infer_instance
instance (a : APc K V) (f : Op K V → Bool) (r : Res K V) : Decidable (DoneWith a f r) := by
  unfold DoneWith; split <;> infer_instance
instance (a : APc K V) (r : Res K V) : Decidable (RetOk a r) := by unfold RetOk; split <;> infer_instance

def ladOp (d : Bool) (k : K) : Op K V := if d then .delete k else .loadAndDelete k
def newOp (c : NewCtx) (k : K) (v : V) : Op K V :=
  match c with
  | .store => .store k v
  | .los => .loadOrStore k v

def isLosOf (k : K) : Op K V → Bool
  | .loadOrStore k' _ => decide (k' = k)
  | _ => false

def isOp (op : Op K V) : Op K V → Bool := fun op' => decide (op' = op)

/-- the result of a Range (never the result of a map operation) -/
def isPairs : Res K V → Bool
  | .pairs _ => true
  | _ => false

/-- `some v`-result of a LoadAndDelete / Delete that removed `v` -/
def delRes (d : Bool) (v : V) : Res K V := if d then .done else .val (some v)

/-! ### per-goroutine invariant -/

/-- this goroutine holds `m.mu` -/
def Own (sh : Shared K V) (t : Tid) : Prop := sh.mu = some t
instance (sh : Shared K V) (t : Tid) : Decidable (Own sh t) := by unfold Own; infer_instance

/-- an entry fetched from a `read` snapshot for `k`: still `read.m[k]`, or dead -/
def HoldRead (sh : Shared K V) (k : K) (e : EId) : Prop :=
  e < sh.entries.length ∧ (alookup k sh.readM = some e ∨ Dead sh e)

/-- the same for a pending LoadAndDelete/Delete, which may return "absent" on a dead entry: that result was seen -/
def HoldDel (sh : Shared K V) (d : Bool) (k : K) (e : EId) (a : APc K V) : Prop :=
  e < sh.entries.length ∧ (alookup k sh.readM = some e ∨ (Dead sh e ∧ noneRes d ∈ seenOf a))

/-- the entry a pending Load is about to read -/
def HoldLoad (sh : Shared K V) (k : K) (e : EId) (a : APc K V) : Prop :=
  e < sh.entries.length ∧
  (Cur sh k e ∨ (Dead sh e ∧ Res.val none ∈ seenOf a) ∨
   (Orphan sh e ∧ Res.val none ∈ seenOf a ∧
     match (getP sh e).value? with
     | some v => Res.val (some v) ∈ seenOf a
     | none => True))

/-- the goroutine removed `e` from the dirty map (its call took effect then); nobody else writes `e` any more -/
def Unlinker (sh : Shared K V) (d : Bool) (k : K) (e : EId) (a : APc K V) : Prop :=
  e < sh.entries.length ∧ e ∉ vals sh.readM ∧ e ∉ vals (dirtyMap sh) ∧
  match (getP sh e).value? with
  | some v => DoneWith a (isOp (ladOp d k)) (delRes d v)
  | none => False

/-- the entry a locked `storeLocked` is about to write -/
def StoreTarget (sh : Shared K V) (k : K) (e : EId) : Prop :=
  (alookup k sh.readM = some e ∧ (getP sh e).isExpunged = false) ∨
  (alookup k sh.readM = none ∧ alookup k (dirtyMap sh) = some e)

/-- the part of `read.m` the `dirtyLocked` loop has not processed yet (`todo` and the current pair) -/
def Building (sh : Shared K V) (u : List (K × EId)) : Prop :=
  (akeys u).Nodup ∧
  ∀ p ∈ u, p ∈ sh.readM ∧ alookup p.1 (dirtyMap sh) = none ∧ p.2 ∉ vals (dirtyMap sh) ∧ (getP sh p.2).isExpunged = false

instance (sh : Shared K V) (k : K) (e : EId) : Decidable (HoldRead sh k e) := by unfold HoldRead; infer_instance
instance (sh : Shared K V) (d : Bool) (k : K) (e : EId) (a : APc K V) : Decidable (HoldDel sh d k e a) := by
  unfold HoldDel; infer_instance
instance (sh : Shared K V) (k : K) (e : EId) (a : APc K V) : Decidable (HoldLoad sh k e a) := by
  unfold HoldLoad; cases (getP sh e).value? <;> infer_instance
instance (sh : Shared K V) (d : Bool) (k : K) (e : EId) (a : APc K V) : Decidable (Unlinker sh d k e a) := by
  unfold Unlinker; cases (getP sh e).value? <;> infer_instance
instance (sh : Shared K V) (k : K) (e : EId) : Decidable (StoreTarget sh k e) := by unfold StoreTarget; infer_instance
instance (sh : Shared K V) (u : List (K × EId)) : Decidable (Building sh u) := by unfold Building; infer_instance

/-- the locked new-key tail: `rm` is the current `read.m`, not amended, the key is new -/
def NewTail (sh : Shared K V) (t : Tid) (c : NewCtx) (k : K) (v : V) (rm : List (K × EId)) (a : APc K V) : Prop :=
  Pend a (newOp c k v) ∧ Own sh t ∧ rm = sh.readM ∧ sh.amended = false ∧ alookup k sh.readM = none
instance (sh : Shared K V) (t : Tid) (c : NewCtx) (k : K) (v : V) (rm : List (K × EId)) (a : APc K V) :
    Decidable (NewTail sh t c k v rm a) := by unfold NewTail; infer_instance

/-- `tryLoadOrStore` in its three calling contexts -/
def LosHold (sh : Shared K V) (t : Tid) (c : LosCtx) (k : K) (e : EId) : Prop :=
  match c with
  | .fast => ¬ Own sh t ∧ HoldRead sh k e
  | .slowRead => Own sh t ∧ alookup k sh.readM = some e ∧ (getP sh e).isExpunged = false
  | .slowDirty => Own sh t ∧ alookup k sh.readM = none ∧ alookup k (dirtyMap sh) = some e
instance (sh : Shared K V) (t : Tid) (c : LosCtx) (k : K) (e : EId) : Decidable (LosHold sh t c k e) := by
  unfold LosHold; split <;> infer_instance

/-- a pending or already-effective `delete()` on `e` -/
def DelHold (sh : Shared K V) (t : Tid) (d : Bool) (k : K) (e : EId) (a : APc K V) : Prop :=
  ¬ Own sh t ∧ ((Pend a (ladOp d k) ∧ HoldDel sh d k e a) ∨ Unlinker sh d k e a)
instance (sh : Shared K V) (t : Tid) (d : Bool) (k : K) (e : EId) (a : APc K V) : Decidable (DelHold sh t d k e a) := by
  unfold DelHold; infer_instance

/-- inside the `Range` loop: the keys still to visit (`todo`) and the keys the callback has been called with (`acc`)
are pairwise distinct, and every pair still to visit was fetched from a `read` snapshot (still `read.m[k]`, or dead) -/
def RangeHold (sh : Shared K V) (todo : List (K × EId)) (acc : List (K × V)) : Prop :=
  (akeys todo ++ acc.map Prod.fst).Nodup ∧ ∀ p ∈ todo, HoldRead sh p.1 p.2
instance (sh : Shared K V) (todo : List (K × EId)) (acc : List (K × V)) : Decidable (RangeHold sh todo acc) := by
  unfold RangeHold; infer_instance

/-- about to promote the dirty map -/
def Promoting (sh : Shared K V) (t : Tid) : Prop := Own sh t ∧ sh.amended = true ∧ sh.dirty.isSome = true
instance (sh : Shared K V) (t : Tid) : Decidable (Promoting sh t) := by unfold Promoting; infer_instance

def T (sh : Shared K V) (t : Tid) : Pc K V → APc K V → Prop
  | .idle, a => IsIdle a ∧ ¬ Own sh t
  | .start .range, a => IsIdle a ∧ ¬ Own sh t
  | .start op, a => Pend a op ∧ ¬ Own sh t
  | .ret (.pairs l), a => IsIdle a ∧ ¬ Own sh t ∧ (l.map Prod.fst).Nodup
  | .ret r, a => RetOk a r ∧ ¬ Own sh t
  -- Load
  | .loadRead1 k, a => Pend a (.load k) ∧ ¬ Own sh t
  | .loadLock k, a => Pend a (.load k) ∧ ¬ Own sh t
  | .loadRead2 k, a => Pend a (.load k) ∧ Own sh t
  | .loadMiss k e, a => Pend a (.load k) ∧ Promoting sh t ∧ alookup k sh.readM = none ∧ e = alookup k (dirtyMap sh)
  | .loadPtr k e, a => Pend a (.load k) ∧ ¬ Own sh t ∧ HoldLoad sh k e a
  -- Store
  | .storeRead1 k v, a => Pend a (.store k v) ∧ ¬ Own sh t
  | .tryStoreLoad k v e, a => Pend a (.store k v) ∧ ¬ Own sh t ∧ HoldRead sh k e
  | .tryStoreCas k v e p, a => Pend a (.store k v) ∧ ¬ Own sh t ∧ HoldRead sh k e ∧ p.isExpunged = false
  | .storeLock k v, a => Pend a (.store k v) ∧ ¬ Own sh t
  | .storeRead2 k v, a => Pend a (.store k v) ∧ Own sh t
  | .storeUnexp k v e, a => Pend a (.store k v) ∧ Own sh t ∧ alookup k sh.readM = some e
  | .storeLocked k v e, a => Pend a (.store k v) ∧ Own sh t ∧ StoreTarget sh k e
  -- new-key tail
  | .dirtyRead c k v rm, a => NewTail sh t c k v rm a ∧ sh.dirty = none
  | .dirtyPick c k v rm todo, a => NewTail sh t c k v rm a ∧ sh.dirty.isSome = true ∧ Building sh todo
  | .expLoad c k v rm todo k' e', a => NewTail sh t c k v rm a ∧ sh.dirty.isSome = true ∧ Building sh ((k', e') :: todo)
  | .expCas c k v rm todo k' e', a => NewTail sh t c k v rm a ∧ sh.dirty.isSome = true ∧ Building sh ((k', e') :: todo)
  | .expLoad2 c k v rm todo k' e', a => NewTail sh t c k v rm a ∧ sh.dirty.isSome = true ∧ Building sh ((k', e') :: todo)
  | .readStore c k v rm, a => NewTail sh t c k v rm a ∧ sh.dirty.isSome = true
  -- LoadOrStore
  | .losRead1 k v, a => Pend a (.loadOrStore k v) ∧ ¬ Own sh t
  | .losLoad c k v e, a => Pend a (.loadOrStore k v) ∧ LosHold sh t c k e
  | .losCas c k v e, a => Pend a (.loadOrStore k v) ∧ LosHold sh t c k e
  | .losLoad2 c k v e, a => Pend a (.loadOrStore k v) ∧ LosHold sh t c k e
  | .losLock k v, a => Pend a (.loadOrStore k v) ∧ ¬ Own sh t
  | .losRead2 k v, a => Pend a (.loadOrStore k v) ∧ Own sh t
  | .losUnexp k v e, a => Pend a (.loadOrStore k v) ∧ Own sh t ∧ alookup k sh.readM = some e
  | .losMiss k r, a => DoneWith a (isLosOf k) r ∧ isPairs r = false ∧ Promoting sh t
  -- LoadAndDelete / Delete
  | .ladRead1 d k, a => Pend a (ladOp d k) ∧ ¬ Own sh t
  | .ladLock d k, a => Pend a (ladOp d k) ∧ ¬ Own sh t
  | .ladRead2 d k, a => Pend a (ladOp d k) ∧ Own sh t
  | .ladMiss d k e, a =>
    Promoting sh t ∧ alookup k sh.readM = none ∧ alookup k (dirtyMap sh) = none ∧
    match e with
    | some e => Unlinker sh d k e a
    | none => Pend a (ladOp d k)
  | .delLoad d k e, a => DelHold sh t d k e a
  | .delCas d k e p, a =>
    DelHold sh t d k e a ∧ isVal p = true ∧ (Unlinker sh d k e a → (getP sh e).same p = true)
  -- Range (not an operation of the atomic map)
  | .rangeRead1, a => IsIdle a ∧ ¬ Own sh t
  | .rangeLock, a => IsIdle a ∧ ¬ Own sh t
  | .rangeRead2, a => IsIdle a ∧ Own sh t
  | .rangeStore dm, a => IsIdle a ∧ Promoting sh t ∧ dm = dirtyMap sh
  | .rangePick todo acc, a => IsIdle a ∧ ¬ Own sh t ∧ RangeHold sh todo acc
  | .rangeLoad todo acc k' e', a => IsIdle a ∧ ¬ Own sh t ∧ RangeHold sh ((k', e') :: todo) acc

instance (sh : Shared K V) (t : Tid) (pc : Pc K V) (a : APc K V) : Decidable (T sh t pc a) := by
  unfold T
  split <;> first | infer_instance | (rename_i e; cases e <;> infer_instance)

/-! ### global invariant -/

/-- pairs of `read.m` a goroutine inside the `dirtyLocked` loop has not processed yet -/
def unprocPc : Pc K V → List (K × EId)
  | .dirtyPick _ _ _ _ todo => todo
  | .expLoad _ _ _ _ todo k' e' => (k', e') :: todo
  | .expCas _ _ _ _ todo k' e' => (k', e') :: todo
  | .expLoad2 _ _ _ _ todo k' e' => (k', e') :: todo
  | _ => []

def unprocessed (s : State K V) : List (K × EId) := s.pcs.flatMap unprocPc

/-- the entry a goroutine has unlinked from the dirty map and still has to swap to nil -/
def unlinkedPc : Pc K V → APc K V → List EId
  | .ladMiss _ _ (some e), _ => [e]
  | .delLoad _ _ e, .done _ _ => [e]
  | .delCas _ _ e _, .done _ _ => [e]
  | _, _ => []


structure G (s : State K V) (apcs : Nat → APc K V) : Prop where
  keysR : (akeys s.sh.readM).Nodup
  valsR : (vals s.sh.readM).Nodup
  keysD : (akeys (dirtyMap s.sh)).Nodup
  valsD : (vals (dirtyMap s.sh)).Nodup
  boundR : ∀ p ∈ s.sh.readM, p.2 < s.sh.entries.length
  boundD : ∀ p ∈ dirtyMap s.sh, p.2 < s.sh.entries.length
  s1 : s.sh.dirty = none → s.sh.amended = false
  nofault : s.sh.fault = false
  muBound : ∀ t, s.sh.mu = some t → t < s.pcs.length
  /-- every processed pair of `read.m`: expunged ⇒ a dirty map exists and does not hold it; live ⇒ the dirty map,
  if any, holds it under the same key -/
  readDirty : ∀ p ∈ s.sh.readM, p ∉ unprocessed s →
    if (getP s.sh p.2).isExpunged then
      s.sh.dirty.isSome = true ∧ alookup p.1 (dirtyMap s.sh) = none ∧ p.2 ∉ vals (dirtyMap s.sh)
    else (s.sh.dirty.isSome = true → alookup p.1 (dirtyMap s.sh) = some p.2)
  /-- not amended: the dirty map holds nothing but `read.m` entries -/
  dirtySub : s.sh.amended = false → ∀ p ∈ dirtyMap s.sh, alookup p.1 s.sh.readM = some p.2
  /-- an entry that is only in the dirty map holds a value -/
  dirtyLive : ∀ p ∈ dirtyMap s.sh, alookup p.1 s.sh.readM = none → isVal (getP s.sh p.2) = true
  /-- no two goroutines have unlinked the same entry -/
  unlinked : ∀ t u, t < s.pcs.length → u < s.pcs.length → t ≠ u →
    ∀ e ∈ unlinkedPc (s.pc t) (apcs t), e ∉ unlinkedPc (s.pc u) (apcs u)

/-- effect-free results that are possible now have been recorded by every pending abstract goroutine -/
def Obs (obj : K → Option V) (apcs : Nat → APc K V) : Prop :=
  ∀ t op seen, apcs t = .pending op seen → ∀ r, pureRes obj op = some r → r ∈ seen

/-- the simulation relation -/
structure R (s : State K V) (a : RState (K → Option V) (Op K V) (Res K V)) : Prop where
  g : G s a.pcs
  abs : ∀ k, a.obj k = absOf s.sh k
  thr : ∀ t, T s.sh t (s.pc t) (a.pcs t)
  obs : Obs a.obj a.pcs

end TypVerif.Lemmas.Smc
