import TypVerif.Lemmas.C17DrvCompleteMain
/-
Completeness of the C17 judge itself (`Drv.C17.step` folded over the lines, `ConcAcceptC17.runLines`), from the completeness of
`jfold`: an empty state set stays empty (`foldl_jstep_nil`), so a non-empty final set means that no line was rejected; the arity
check of the judge passes on every event of the model when all functions return tuples of the arity (`exec_arityOk`).
-/
namespace TypVerif.Lemmas.C17Drv
open TypVerif TypVerif.Conc TypVerif.Model.Once TypVerif.Drv.C17 TypVerif.Lemmas.Once TypVerif.Lemmas.OnceRed
open TypVerif.Lemmas.ConcAcceptC17 TypVerif.Proto

/-! ### an empty state set stays empty -/

theorem tauClosure_nil (sys : Sys) [DecidableEq sys.State] (fuel : Nat) : tauClosure sys fuel [] = [] := by
  cases fuel with
  | zero => rfl
  | succ fuel => rfl

theorem stepEvent_nil (sys : Sys) [DecidableEq sys.State] [DecidableEq sys.Event] (fuel : Nat) (e : sys.Event) :
    stepEvent sys fuel [] e = [] := by
  unfold stepEvent
  exact tauClosure_nil sys fuel

theorem jstep_nil (arity fuel : Nat) (j : JS) (e : Event) (h : j.ss = []) : (jstep arity fuel j e).ss = [] := by
  unfold jstep
  simp only [h, List.map_nil, ite_self]
  exact stepEvent_nil _ fuel e

theorem foldl_jstep_nil (arity fuel : Nat) (tr : List Event) :
    ∀ j : JS, j.ss = [] → (tr.foldl (jstep arity fuel) j).ss = [] := by
  induction tr with
  | nil => intro j h; exact h
  | cons e tr ih =>
    intro j h
    rw [List.foldl_cons]
    exact ih _ (jstep_nil arity fuel j e h)

/-! ### the arity check -/

/-- the result fields and every pending result have the arity of the scenario -/
def AOk (arity : Nat) (s : State) : Prop :=
  s.fields.length = arity ∧ ∀ u r, s.pc u = .assign r → r.length = arity

theorem aok_set (arity : Nat) (s : State) (t : Nat) (p : Pc) (ht : t < s.pcs.length) d m f i r0
    (hp : ∀ u r, s.pc u = .assign r → r.length = arity) (hnew : ∀ r, p = .assign r → r.length = arity) :
    ∀ u r, State.pc ⟨s.pcs.set t p, d, m, f, i, r0⟩ u = .assign r → r.length = arity := by
  intro u r hu
  rw [pc_mk _ _ _ _ ht] at hu
  split at hu
  · exact hnew r hu
  · exact hp u r hu

theorem aok_step (arity : Nat) (res : Nat → List Int) (hres : ∀ t, (res t).length = arity) (s : State)
    (l : Option Event) (s' : State) (h : AOk arity s) (hm : (l, s') ∈ succ res s) :
    AOk arity s' ∧ ∀ e, l = some e → arityOk arity e = true := by
  obtain ⟨t, ht, hstep⟩ := mem_succ.mp hm
  obtain ⟨hf, hp⟩ := h
  cases hpc : s.pc t <;> simp only [stepT, hpc] at hstep <;> (try split at hstep) <;>
    simp only [List.mem_singleton, Prod.mk.injEq, List.not_mem_nil] at hstep <;>
    (try exact hstep.elim) <;> obtain ⟨rfl, rfl⟩ := hstep <;>
    refine ⟨⟨?_, aok_set arity s t _ ht _ _ _ _ _ hp ?_⟩, ?_⟩
  all_goals first
    | exact hf
    | exact hp t _ hpc
    | (intro r hr; cases hr; done)
    | (intro r hr; cases hr; exact hres t)
    | (intro r hr; split at hr <;> cases hr; done)
    | (intro e he; cases he; done)
    | (intro e he; cases he; simp [arityOk, hres, hf]; done)

theorem aok_init (n arity : Nat) : AOk arity (init n arity) := by
  refine ⟨by simp [init], ?_⟩
  intro u r hu
  rw [pc_init] at hu
  cases hu

theorem exec_arityOk (n arity : Nat) (res : Nat → List Int) (hres : ∀ t, (res t).length = arity)
    {s s' : State} {ls : List (Option Event)} (h : Exec (sys n arity res) s ls s') :
    AOk arity s → ∀ e ∈ visible ls, arityOk arity e = true := by
  refine Exec.rel_induct (sys' := sys n arity res)
    (fun s ls _ => AOk arity s → ∀ e ∈ visible ls, arityOk arity e = true) ?_ ?_ h
  · intro s _ e he
    cases he
  · intro s l s1 ls s'' hm ih hok e he
    obtain ⟨hok1, hl⟩ := aok_step arity res hres s l s1 hok hm
    cases l with
    | none => exact ih hok1 e (by simpa using he)
    | some e0 =>
      rw [visible_cons_some, List.mem_cons] at he
      rcases he with rfl | he
      · exact hl e rfl
      · exact ih hok1 e he

/-! ### the fold of `Drv.C17.step` -/

/-- the judge has rejected nothing and its model part is `j` -/
def JRelC (arity : Nat) (st : St) (j : JS) : Prop :=
  st.started = true ∧ st.arity = arity ∧ st.rejected = false ∧ st.ss = j.ss ∧ st.n = j.n

theorem step_JRelC (arity : Nat) (st : St) (j : JS) (toks : List Val) (impl : String) (e : Event)
    (hp : lineEvent arity toks = some e) (har : arityOk arity e = true)
    (hne : (jstep arity closureFuel j e).ss ≠ []) (h : JRelC arity st j) :
    JRelC arity (step st toks impl).1 (jstep arity closureFuel j e) := by
  obtain ⟨hst, harr, hrej, hss, hn⟩ := h
  rw [← harr] at hp
  obtain ⟨h1, h2, h3, h4, h5⟩ := step_parsed st toks impl e hp hst
  have hj : ({ n := st.n, ss := st.ss } : JS) = j := by
    cases j
    simp only [JS.mk.injEq]
    exact ⟨hn, hss⟩
  rw [hj, harr] at h3 h4
  rw [hrej, har] at h4
  simp only [Bool.not_true, Bool.or_self, Bool.false_eq_true, if_false] at h4
  refine ⟨h1, h2.trans harr, ?_, h4, h3⟩
  rw [h5, hrej, h4, Bool.false_or, List.isEmpty_eq_false_iff]
  exact hne

theorem runLines_JRelC (arity : Nat) (lines : List (List Val × String)) :
    ∀ (tr : List Event) (st : St) (j : JS),
      lines.map (fun l => lineEvent arity l.1) = tr.map some → (∀ e ∈ tr, arityOk arity e = true) →
      (tr.foldl (jstep arity closureFuel) j).ss ≠ [] → JRelC arity st j →
      JRelC arity (runLines st lines) (tr.foldl (jstep arity closureFuel) j) := by
  induction lines with
  | nil =>
    intro tr st j hl _ _ h
    cases tr with
    | nil => exact h
    | cons e tr => simp at hl
  | cons l lines ih =>
    intro tr st j hl har hne h
    cases tr with
    | nil => simp at hl
    | cons e tr =>
      rw [List.map_cons, List.map_cons, List.cons.injEq] at hl
      unfold runLines
      rw [List.foldl_cons, List.foldl_cons]
      rw [List.foldl_cons] at hne
      refine ih _ _ _ hl.2 (fun e' he' => har e' (List.mem_cons_of_mem _ he')) hne
        (step_JRelC arity st j l.1 l.2 e hl.1 (har e List.mem_cons_self) ?_ h)
      intro h0
      exact hne (foldl_jstep_nil arity closureFuel tr _ h0)

/-- completeness of the C17 judge itself: after the header line `once a`, lines that stand for the visible trace of an
execution of the model whose events pass the arity check are never rejected -/
theorem judge_accept_complete_of_arityOk (st0 : St) (a : Int) (impl0 : String) (lines : List (List Val × String))
    (tr : List Event) (hparse : lines.map (fun l => lineEvent a.toNat l.1) = tr.map some)
    (N : Nat) (res : Nat → List Int) (ls : List (Option Event)) (s : State)
    (hex : Exec (sys N a.toNat res) (init N a.toNat) ls s) (hv : visible ls = tr)
    (har : ∀ e ∈ tr, arityOk a.toNat e = true) :
    (runLines (step st0 [.w "once", .i a] impl0).1 lines).rejected = false := by
  have h0 : JRelC a.toNat (step st0 [.w "once", .i a] impl0).1 { n := 0, ss := [init 0 a.toNat] } :=
    ⟨rfl, rfl, rfl, rfl, rfl⟩
  have hne := driver_accept_complete N a.toNat closureFuel (by decide) res ls s hex
  rw [hv] at hne
  exact (runLines_JRelC a.toNat lines tr _ _ hparse har hne h0).2.2.1

/-- … in particular when every function returns a tuple of the arity of the scenario -/
theorem judge_accept_complete (st0 : St) (a : Int) (impl0 : String) (lines : List (List Val × String))
    (tr : List Event) (hparse : lines.map (fun l => lineEvent a.toNat l.1) = tr.map some)
    (N : Nat) (res : Nat → List Int) (hres : ∀ t, (res t).length = a.toNat) (ls : List (Option Event)) (s : State)
    (hex : Exec (sys N a.toNat res) (init N a.toNat) ls s) (hv : visible ls = tr) :
    (runLines (step st0 [.w "once", .i a] impl0).1 lines).rejected = false := by
  refine judge_accept_complete_of_arityOk st0 a impl0 lines tr hparse N res ls s hex hv ?_
  rw [← hv]
  exact exec_arityOk N a.toNat res hres hex (aok_init N a.toNat)

end TypVerif.Lemmas.C17Drv
