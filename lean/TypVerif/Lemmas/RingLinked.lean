import TypVerif.Spec.RingOp
/-
Pure "view" reasoning for the ring heap: `nx pv : RingId → Option RingId`, functional update `upd`,
and the predicate `Linked nx pv l` (every adjacent pair of `l` is doubly linked).
-/
namespace TypVerif.Lemmas.Ring
open TypVerif.Spec.RingOp

abbrev PF := RingId → Option RingId

def upd (f : PF) (a : RingId) (v : Option RingId) : PF := fun x => if x = a then v else f x

@[simp] theorem upd_same (f : PF) (a v) : upd f a v a = v := by simp [upd]
theorem upd_ne (f : PF) {a x : Nat} (v) (h : x ≠ a) : upd f a v x = f x := by simp [upd, h]
theorem upd_eq_self (f : PF) (a v) (h : f a = v) : upd f a v = f := by
  funext x; unfold upd; split
  · next e => rw [e, h]
  · rfl

def Linked (nx pv : PF) : List RingId → Prop
  | a :: b :: rest => nx a = some b ∧ pv b = some a ∧ Linked nx pv (b :: rest)
  | _ => True

@[simp] theorem linked_nil (nx pv : PF) : Linked nx pv [] := trivial
@[simp] theorem linked_single (nx pv : PF) (a) : Linked nx pv [a] := trivial
theorem linked_cons_cons (nx pv : PF) (a b rest) :
    Linked nx pv (a :: b :: rest) ↔ nx a = some b ∧ pv b = some a ∧ Linked nx pv (b :: rest) := Iff.rfl

/-- the joint between the last element of `l1` and the first of `l2` -/
def Joint (nx pv : PF) (l1 l2 : List RingId) : Prop :=
  ∀ a b, l1.getLast? = some a → l2.head? = some b → nx a = some b ∧ pv b = some a

theorem linked_append (nx pv : PF) (l1 l2 : List RingId) :
    Linked nx pv (l1 ++ l2) ↔ Linked nx pv l1 ∧ Linked nx pv l2 ∧ Joint nx pv l1 l2 := by
  induction l1 with
  | nil => simp [Joint]
  | cons a t ih =>
    cases t with
    | nil =>
      cases l2 with
      | nil => simp [Joint]
      | cons b l2 =>
        simp only [List.cons_append, List.nil_append, linked_cons_cons, linked_single, Joint,
          List.getLast?_singleton, List.head?_cons, Option.some.injEq, true_and]
        constructor
        · rintro ⟨h1, h2, h3⟩; exact ⟨h3, fun x y hx hy => by subst hx; subst hy; exact ⟨h1, h2⟩⟩
        · rintro ⟨h3, h⟩; exact ⟨(h a b rfl rfl).1, (h a b rfl rfl).2, h3⟩
    | cons a' t' =>
      have ih' := ih
      simp only [List.cons_append] at ih' ⊢
      rw [linked_cons_cons, linked_cons_cons, ih']
      simp only [Joint, List.getLast?_cons_cons]
      constructor
      · rintro ⟨h1, h2, h3, h4, h5⟩; exact ⟨⟨h1, h2, h3⟩, h4, h5⟩
      · rintro ⟨⟨h1, h2, h3⟩, h4, h5⟩; exact ⟨h1, h2, h3, h4, h5⟩

theorem joint_cons (nx pv : PF) (l1 : List RingId) (b : RingId) (l2 : List RingId) :
    Joint nx pv l1 (b :: l2) ↔ ∀ a, l1.getLast? = some a → nx a = some b ∧ pv b = some a := by
  simp only [Joint, List.head?_cons, Option.some.injEq]
  constructor
  · intro h a ha; exact h a b ha rfl
  · intro h a b' ha hb; subst hb; exact h a ha

theorem linked_congr {nx pv nx' pv' : PF} {l : List RingId}
    (h1 : ∀ x ∈ l, nx' x = nx x) (h2 : ∀ x ∈ l, pv' x = pv x) (h : Linked nx pv l) : Linked nx' pv' l := by
  induction l with
  | nil => trivial
  | cons a t ih =>
    cases t with
    | nil => trivial
    | cons b t' =>
      rw [linked_cons_cons] at h ⊢
      refine ⟨?_, ?_, ih (fun x hx => h1 x (List.mem_cons_of_mem _ hx)) (fun x hx => h2 x (List.mem_cons_of_mem _ hx)) h.2.2⟩
      · rw [h1 a (by simp)]; exact h.1
      · rw [h2 b (by simp)]; exact h.2.1

theorem linked_upd_nx {nx pv : PF} {l : List RingId} (a : RingId) (v) (ha : a ∉ l.dropLast)
    (h : Linked nx pv l) : Linked (upd nx a v) pv l := by
  induction l with
  | nil => trivial
  | cons x t ih =>
    cases t with
    | nil => trivial
    | cons b t' =>
      rw [linked_cons_cons] at h ⊢
      rw [List.dropLast_cons_cons, List.mem_cons, not_or] at ha
      refine ⟨?_, h.2.1, ih ha.2 h.2.2⟩
      rw [upd_ne _ _ (fun e => ha.1 e.symm)]; exact h.1

theorem linked_upd_pv {nx pv : PF} {l : List RingId} (a : RingId) (v) (ha : a ∉ l.tail)
    (h : Linked nx pv l) : Linked nx (upd pv a v) l := by
  induction l with
  | nil => trivial
  | cons x t ih =>
    cases t with
    | nil => trivial
    | cons b t' =>
      rw [linked_cons_cons] at h ⊢
      rw [List.tail_cons, List.mem_cons, not_or] at ha
      refine ⟨h.1, ?_, ih ?_ h.2.2⟩
      · rw [upd_ne _ _ (fun e => ha.1 e.symm)]; exact h.2.1
      · rw [List.tail_cons]; exact ha.2

theorem linked_reverse (nx pv : PF) (l : List RingId) : Linked nx pv l ↔ Linked pv nx l.reverse := by
  induction l with
  | nil => simp
  | cons a t ih =>
    cases t with
    | nil => simp
    | cons b t' =>
      rw [linked_cons_cons, ih, List.reverse_cons (a := a), linked_append]
      simp only [linked_single, true_and, joint_cons, List.getLast?_reverse, List.head?_cons, Option.some.injEq]
      constructor
      · rintro ⟨h1, h2, h3⟩; exact ⟨h3, fun x hx => by subst hx; exact ⟨h2, h1⟩⟩
      · rintro ⟨h3, h⟩; exact ⟨(h b rfl).2, (h b rfl).1, h3⟩

/-- one-directional chain: `f a = some b` for every adjacent pair -/
def Chain (f : PF) : List RingId → Prop
  | a :: b :: rest => f a = some b ∧ Chain f (b :: rest)
  | _ => True

theorem chain_cons_cons (f : PF) (a b rest) : Chain f (a :: b :: rest) ↔ f a = some b ∧ Chain f (b :: rest) := Iff.rfl

theorem Linked.chain_nx {nx pv : PF} {l : List RingId} (h : Linked nx pv l) : Chain nx l := by
  induction l with
  | nil => trivial
  | cons a t ih =>
    cases t with
    | nil => trivial
    | cons b t' => exact ⟨h.1, ih h.2.2⟩

theorem Linked.chain_pv {nx pv : PF} {l : List RingId} (h : Linked nx pv l) : Chain pv l.reverse :=
  ((linked_reverse nx pv l).1 h).chain_nx

/-- closed form of a ring `c` (first element repeated at the end) -/
def CycLinked (nx pv : PF) (c : List RingId) : Prop := Linked nx pv (c ++ c.take 1)

theorem cycLinked_rot {nx pv : PF} {pre post : List RingId} {r : RingId}
    (h : CycLinked nx pv (pre ++ r :: post)) : Linked nx pv (r :: post ++ pre ++ [r]) := by
  unfold CycLinked at h
  cases pre with
  | nil => simpa using h
  | cons x pre' =>
    have e1 : (x :: pre' ++ r :: post ++ List.take 1 (x :: pre' ++ r :: post)) = (x :: pre') ++ ((r :: post) ++ [x]) := by simp
    have e2 : (r :: post ++ (x :: pre') ++ [r]) = (r :: post) ++ ((x :: pre') ++ [r]) := by simp
    rw [e1, linked_append, linked_append] at h
    rw [e2, linked_append, linked_append]
    obtain ⟨h1, ⟨h2, _, h3⟩, h4⟩ := h
    refine ⟨h2, ⟨h1, trivial, ?_⟩, ?_⟩
    · rw [joint_cons]; rw [List.cons_append, joint_cons] at h4; exact h4
    · rw [List.cons_append, joint_cons]; rw [joint_cons] at h3; exact h3

theorem linked_head {nx pv : PF} {r : RingId} {t : List RingId} (h : Linked nx pv (r :: t ++ [r])) :
    nx r = some (t.headD r) := by
  cases t with
  | nil => exact h.1
  | cons b t' => exact h.1

theorem linked_last {nx pv : PF} {r : RingId} {t : List RingId} (h : Linked nx pv (r :: t ++ [r])) :
    pv r = some (t.getLastD r) := by
  have h' := (linked_append nx pv (r :: t) [r]).1 h
  have := (joint_cons nx pv (r :: t) r []).1 h'.2.2 (t.getLastD r) (by
    rw [List.getLast?_cons, List.getLastD_eq_getLast?])
  exact this.2

end TypVerif.Lemmas.Ring
