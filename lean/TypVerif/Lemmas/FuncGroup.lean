import TypVerif.Lemmas.Func
/-
Lemmas for C14, part 2: GroupBy / CountBy (map + orderedKeys bookkeeping).
-/
namespace TypVerif.Lemmas.Func
open TypVerif TypVerif.Model

variable {α κ ν : Type}

theorem mapGet_mapSet [DecidableEq κ] (key : κ) (v : ν) :
    ∀ (m : List (κ × ν)) (key' : κ), Func.mapGet (Func.mapSet m key v) key' =
      if key' = key then some v else Func.mapGet m key'
  | [], key' => by
    simp only [Func.mapSet, Func.mapGet]
    by_cases h : key' = key
    · simp [h]
    · have : ¬ key = key' := fun e => h e.symm
      simp [h, this]
  | (k, x) :: rest, key' => by
    rw [Func.mapSet]
    by_cases hk : k = key
    · subst hk
      simp only [if_true, Func.mapGet]
      by_cases h : key' = k
      · subst h; simp
      · have : ¬ k = key' := fun e => h e.symm
        simp [h, this]
    · simp only [hk, if_false, Func.mapGet, mapGet_mapSet key v rest key']
      by_cases h : k = key'
      · subst h; simp [hk]
      · simp [h]

/-- the common shape of the first loop of GroupBy and CountBy -/
def genLoop [DecidableEq κ] (keyer : α → κ) (upd : Option ν → α → ν) :
    List α → List (κ × ν) → List κ → List (κ × ν) × List κ
  | [], m, ok => (m, ok)
  | v :: rest, m, ok =>
    match Func.mapGet m (keyer v) with
    | some x => genLoop keyer upd rest (Func.mapSet m (keyer v) (upd (some x) v)) ok
    | none => genLoop keyer upd rest (Func.mapSet m (keyer v) (upd none v)) (ok ++ [keyer v])

theorem groupByLoop_gen [DecidableEq κ] (keyer : α → κ) :
    ∀ (s : List α) (m : List (κ × List α)) (ok : List κ),
      Func.groupByLoop keyer s m ok = genLoop keyer (fun o v => o.getD [] ++ [v]) s m ok
  | [], _, _ => rfl
  | v :: rest, m, ok => by
    rw [Func.groupByLoop, genLoop]
    cases Func.mapGet m (keyer v) with
    | none => exact groupByLoop_gen keyer rest _ _
    | some x => exact groupByLoop_gen keyer rest _ _

theorem countByLoop_gen [DecidableEq κ] (keyer : α → κ) :
    ∀ (s : List α) (m : List (κ × Int)) (ok : List κ),
      Func.countByLoop keyer s m ok = genLoop keyer (fun o _ => o.getD 0 + 1) s m ok
  | [], _, _ => rfl
  | v :: rest, m, ok => by
    rw [Func.countByLoop, genLoop]
    cases Func.mapGet m (keyer v) with
    | none => exact countByLoop_gen keyer rest _ _
    | some x => exact countByLoop_gen keyer rest _ _

/-- the value stored under a key after feeding the elements `l` that have this key -/
def accum (upd : Option ν → α → ν) (o : Option ν) (l : List α) : Option ν :=
  l.foldl (fun o v => some (upd o v)) o

theorem genLoop_spec [DecidableEq κ] (keyer : α → κ) (upd : Option ν → α → ν) :
    ∀ (s : List α) (m : List (κ × ν)) (ok : List κ),
      (∀ key, key ∈ ok ↔ (Func.mapGet m key).isSome = true) →
      (genLoop keyer upd s m ok).2 = Func.distinctLoop (s.map keyer) ok ∧
      ∀ key, Func.mapGet (genLoop keyer upd s m ok).1 key =
        accum upd (Func.mapGet m key) (s.filter (fun v => decide (keyer v = key)))
  | [], m, ok, _ => ⟨rfl, fun _ => rfl⟩
  | v :: rest, m, ok, hinv => by
    -- in both branches the map is updated with `upd (m[key]) v`
    have hstep : genLoop keyer upd (v :: rest) m ok =
        genLoop keyer upd rest (Func.mapSet m (keyer v) (upd (Func.mapGet m (keyer v)) v))
          (if keyer v ∈ ok then ok else ok ++ [keyer v]) := by
      rw [genLoop]
      cases hg : Func.mapGet m (keyer v) with
      | none =>
        have : ¬ keyer v ∈ ok := by rw [hinv, hg]; simp
        simp [this]
      | some x =>
        have : keyer v ∈ ok := by rw [hinv, hg]; simp
        simp [this]
    have hinv' : ∀ key, key ∈ (if keyer v ∈ ok then ok else ok ++ [keyer v]) ↔
        (Func.mapGet (Func.mapSet m (keyer v) (upd (Func.mapGet m (keyer v)) v)) key).isSome = true := by
      intro key
      rw [mapGet_mapSet]
      by_cases hk : key = keyer v
      · subst hk
        by_cases hm : keyer v ∈ ok <;> simp [hm]
      · by_cases hm : keyer v ∈ ok
        · simp [hm, hk, hinv]
        · simp [hm, hk, hinv]
    obtain ⟨ih1, ih2⟩ := genLoop_spec keyer upd rest _ _ hinv'
    rw [hstep]
    refine ⟨?_, ?_⟩
    · rw [ih1, List.map_cons, Func.distinctLoop, contains_eq]
      by_cases hm : keyer v ∈ ok <;> simp [hm]
    · intro key
      rw [ih2, mapGet_mapSet, List.filter_cons]
      by_cases hk : keyer v = key
      · subst hk
        simp [accum]
      · have : ¬ key = keyer v := fun e => hk e.symm
        simp [hk, this]

theorem accum_group (o : Option (List α)) (l : List α) :
    accum (fun o v => o.getD [] ++ [v]) o l = if l = [] then o else some (o.getD [] ++ l) := by
  induction l generalizing o with
  | nil => rfl
  | cons v rest ih =>
    simp only [accum, List.foldl_cons] at ih ⊢
    rw [ih]
    by_cases hr : rest = []
    · subst hr; simp
    · simp [hr]

theorem accum_count (o : Option Int) (l : List α) :
    accum (fun o _ => o.getD 0 + 1) o l = if l = [] then o else some (o.getD 0 + l.length) := by
  induction l generalizing o with
  | nil => rfl
  | cons v rest ih =>
    simp only [accum, List.foldl_cons] at ih ⊢
    rw [ih]
    by_cases hr : rest = []
    · subst hr; simp
    · simp only [hr, if_false, Option.getD_some, List.length_cons, reduceCtorEq]
      congr 1; omega

theorem collect_eq [DecidableEq κ] (m : List (κ × ν)) (dflt : ν)
    (collect : List κ → Nat → List (κ × ν) → List (κ × ν))
    (hnil : ∀ i g, collect [] i g = g)
    (hcons : ∀ key rest i g, collect (key :: rest) i g = collect rest (i + 1) (g.set i (key, (Func.mapGet m key).getD dflt))) :
    ∀ (keys : List κ) (i : Nat) (pre post : List (κ × ν)), pre.length = i → post.length = keys.length →
      collect keys i (pre ++ post) = pre ++ keys.map (fun key => (key, (Func.mapGet m key).getD dflt))
  | [], i, pre, post, _, hp => by
    have : post = [] := List.length_eq_zero_iff.mp (by simpa using hp)
    subst this; simp [hnil]
  | key :: rest, i, pre, post, hi, hp => by
    cases post with
    | nil => simp at hp
    | cons y post' =>
      have hset : (pre ++ y :: post').set i (key, (Func.mapGet m key).getD dflt) =
          (pre ++ [(key, (Func.mapGet m key).getD dflt)]) ++ post' := by subst hi; simp
      rw [hcons, hset, collect_eq m dflt collect hnil hcons rest (i + 1) _ post' (by simp [hi]) (by simpa using hp)]
      simp

theorem groupBy_eq [DecidableEq κ] [Inhabited κ] (s : List α) (keyer : α → κ) :
    Func.groupBy s keyer = Spec.Func.groupBy s keyer := by
  unfold Func.groupBy Spec.Func.groupBy Spec.Func.groupKeys
  rw [groupByLoop_gen]
  obtain ⟨h1, h2⟩ := genLoop_spec keyer (fun (o : Option (List α)) v => o.getD [] ++ [v]) s [] []
    (by intro key; simp [Func.mapGet])
  have hc := collect_eq (genLoop keyer (fun (o : Option (List α)) v => o.getD [] ++ [v]) s [] []).1 []
    (Func.groupByCollect (genLoop keyer (fun (o : Option (List α)) v => o.getD [] ++ [v]) s [] []).1)
    (fun _ _ => rfl) (fun _ _ _ _ => rfl)
    (genLoop keyer (fun (o : Option (List α)) v => o.getD [] ++ [v]) s [] []).2 0 []
    (List.replicate (genLoop keyer (fun (o : Option (List α)) v => o.getD [] ++ [v]) s [] []).2.length (default, []))
    rfl (by simp)
  simp only [List.nil_append] at hc
  simp only []
  rw [hc, h1, distinctLoop_eq]
  have hft : ∀ l : List κ, l.filter (fun _ => true) = l := fun l => List.filter_eq_self.mpr (fun _ _ => rfl)
  simp only [List.nil_append, List.not_mem_nil, decide_false, Bool.not_false, hft]
  apply List.map_congr_left
  intro key _
  rw [h2, accum_group]
  simp only [Func.mapGet]
  by_cases hl : s.filter (fun v => decide (keyer v = key)) = []
  · simp [hl]
  · simp [hl]

theorem countBy_eq [DecidableEq κ] [Inhabited κ] (s : List α) (keyer : α → κ) :
    Func.countBy s keyer = Spec.Func.countBy s keyer := by
  unfold Func.countBy Spec.Func.countBy Spec.Func.groupKeys
  rw [countByLoop_gen]
  obtain ⟨h1, h2⟩ := genLoop_spec keyer (fun (o : Option Int) (_ : α) => o.getD 0 + 1) s [] []
    (by intro key; simp [Func.mapGet])
  have hc := collect_eq (genLoop keyer (fun (o : Option Int) (_ : α) => o.getD 0 + 1) s [] []).1 0
    (Func.countByCollect (genLoop keyer (fun (o : Option Int) (_ : α) => o.getD 0 + 1) s [] []).1)
    (fun _ _ => rfl) (fun _ _ _ _ => rfl)
    (genLoop keyer (fun (o : Option Int) (_ : α) => o.getD 0 + 1) s [] []).2 0 []
    (List.replicate (genLoop keyer (fun (o : Option Int) (_ : α) => o.getD 0 + 1) s [] []).2.length (default, 0))
    rfl (by simp)
  simp only [List.nil_append] at hc
  simp only []
  rw [hc, h1, distinctLoop_eq]
  have hft : ∀ l : List κ, l.filter (fun _ => true) = l := fun l => List.filter_eq_self.mpr (fun _ _ => rfl)
  simp only [List.nil_append, List.not_mem_nil, decide_false, Bool.not_false, hft]
  apply List.map_congr_left
  intro key _
  rw [h2, accum_count]
  simp only [Func.mapGet]
  by_cases hl : s.filter (fun v => decide (keyer v = key)) = []
  · simp [hl]
  · simp [hl]

end TypVerif.Lemmas.Func
