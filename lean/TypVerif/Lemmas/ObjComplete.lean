import TypVerif.Lemmas.ObjAccept
import TypVerif.Lemmas.OnceRedClosure
/-
COMPLETENESS of the atomic-object judges (`Lemmas/ObjAccept.lean` is the soundness half).

1. `exec_of_linearizable`: every linearizable history (the project's `Model.AtomicObj.Linearizable`) is the visible trace of
   an execution of `AtomicObj.sys S menu N` from its initial state — the converse of `Lemmas.AtomicObj.linearizable`.  No
   extra well-formedness condition is needed: the clause `∀ t, (runThread t log).isSome` of `Linearizable` already says that
   every goroutine follows `inv · lin · res`; the witness log is replayed entry by entry (`replay`), with
   `N` = 1 + the largest goroutine id of the log, `menu` = the operations invoked in the log.
   Hence `linearizable_iff_exec`.

2. `fold_stepObj_complete`: the judges' fold (`foldObj`: pad to `n`, `Conc.stepEvent` with closure fuel `fuel`, erase the
   log, dedup; `n` chosen per event by `nf`) over the visible trace of ANY execution of ANY `AtomicObj.sys S menu N` whose
   goroutine ids are `< fuel` is non-empty.  Reason: the only internal steps are linearization steps, each turns one
   `pending` goroutine into a `done` one (`tau_pend`), so from a state with `n` goroutines at most `n ≤ fuel` internal steps
   are possible (`tauN_bound`) and `Conc.tauClosure` with fuel `fuel` loses nothing (`OnceRed.tauClosure_complete`).
   The real execution (any `N`, any `menu`, ghost log) is followed through the relation `Rel n s x`: the judge's state `x`
   has the first `n` goroutines of `s` and the same object; goroutines `≥ n` of `s` are idle (`IdleFrom`).
   `fold_stepObj_iff` / `fold_stepObj_iff_linearizable`: with `ObjAccept.fold_stepObj_sound`.
-/
namespace TypVerif.Lemmas.ObjComplete
open TypVerif TypVerif.Conc TypVerif.Model.AtomicObj TypVerif.Lemmas.AtomicObj TypVerif.Lemmas.ObjAccept
open TypVerif.Lemmas.OnceRed (TauN tauClosure_complete stepEvent_complete mem_dedup)

variable {σ Op Res : Type}

/-! ## 1. every linearizable history is a history of the atomic-object system -/

/-- 1 + the largest goroutine id of a log -/
def logN (log : List (Entry Op Res)) : Nat := log.foldr (fun e n => max (e.tid + 1) n) 0

/-- the operations invoked in a log -/
def logMenu (log : List (Entry Op Res)) : List Op :=
  log.filterMap (fun e => match e with | .inv _ op => some op | _ => none)

theorem tid_lt_logN (log : List (Entry Op Res)) : ∀ e ∈ log, e.tid < logN log := by
  induction log with
  | nil => intro e h; cases h
  | cons a log ih =>
    intro e h
    have hl : logN (a :: log) = max (a.tid + 1) (logN log) := rfl
    rw [hl]
    rcases List.mem_cons.1 h with rfl | h
    · omega
    · have := ih e h; omega

theorem mem_logMenu (log : List (Entry Op Res)) (t : Nat) (op : Op) (h : Entry.inv t op ∈ log) : op ∈ logMenu log :=
  List.mem_filterMap.2 ⟨Entry.inv t op, h, rfl⟩

section Replay
variable (S : Spec) [DecidableEq S.Op] [DecidableEq S.Res]

/-- a well-formed log with a legal sequential history is the ghost log of an execution -/
theorem replay (menu : List S.Op) (N : Nat) :
    ∀ (log : List (Entry S.Op S.Res)) (o : S.σ),
      (∀ e ∈ log, e.tid < N) → (∀ t op, Entry.inv t op ∈ log → op ∈ menu) →
      (∀ t, (runThread t log).isSome = true) → SeqRun S (linsOf log) o →
      ∃ (ls : List (Option (Event S.Op S.Res))) (s : State S.σ S.Op S.Res),
        Exec (sys S menu N) (init S N) ls s ∧ s.obj = o ∧ s.log = log ∧ s.pcs.length = N := by
  intro log
  induction log with
  | nil =>
    intro o _ _ _ hseq
    have hseq' : SeqRun S [] o := hseq
    cases hseq'
    exact ⟨[], init S N, Exec.nil _, rfl, rfl, by simp [init]⟩
  | cons e log ih =>
    intro o htid hmenu hthr hseq
    have htid' : ∀ e' ∈ log, e'.tid < N := fun e' h => htid e' (List.mem_cons_of_mem _ h)
    have hmenu' : ∀ t op, Entry.inv t op ∈ log → op ∈ menu := fun t op h => hmenu t op (List.mem_cons_of_mem _ h)
    have hthr' : ∀ t, (runThread t log).isSome = true := fun t => runThread_append_isSome t [e] log (hthr t)
    have het : e.tid < N := htid e List.mem_cons_self
    -- what the induction hypothesis gives, with the thread invariant from `Good`
    have key : ∀ o0, SeqRun S (linsOf log) o0 →
        ∃ (ls : List (Option (Event S.Op S.Res))) (s : State S.σ S.Op S.Res),
          Exec (sys S menu N) (init S N) ls s ∧ s.obj = o0 ∧ s.log = log ∧ s.pcs.length = N ∧
            advance (s.pc e.tid) e = runThread e.tid (e :: log) := by
      intro o0 h0
      obtain ⟨ls, s, hex, ho, hlog, hlen⟩ := ih o0 htid' hmenu' hthr' h0
      refine ⟨ls, s, hex, ho, hlog, hlen, ?_⟩
      have hg : Good S s := good_reachable S menu N s (Exec.reachable hex Reachable.init)
      have := hg.thread e.tid
      rw [hlog] at this
      rw [runThread_cons_self _ _ _ _ this rfl]
    cases e with
    | inv t op =>
      obtain ⟨ls, s, hex, ho, hlog, hlen, hadv⟩ := key o hseq
      have hpc : s.pc t = .idle := by
        have h1 := hthr t
        simp only [Entry.tid] at hadv
        rw [← hadv] at h1
        cases hp : s.pc t with
        | idle => rfl
        | pending _ => rw [hp] at h1; simp [advance] at h1
        | done _ _ => rw [hp] at h1; simp [advance] at h1
      refine ⟨ls ++ [some (.inv t op)], ⟨s.pcs.set t (.pending op), s.obj, .inv t op :: s.log⟩,
        Exec.snoc hex ?_, ho, by rw [hlog], by simpa using hlen⟩
      refine mem_succ.2 ⟨t, by rw [hlen]; exact het, ?_⟩
      unfold stepT
      rw [hpc]
      exact List.mem_map.2 ⟨op, hmenu t op List.mem_cons_self, rfl⟩
    | lin t op r =>
      have hseq' : SeqRun S ((op, r) :: linsOf log) o := hseq
      cases hseq' with
      | @cons _ o0 _ _ _ h0 happ =>
        obtain ⟨ls, s, hex, ho, hlog, hlen, hadv⟩ := key o0 h0
        have hpc : s.pc t = .pending op := by
          have h1 := hthr t
          simp only [Entry.tid] at hadv
          rw [← hadv] at h1
          cases hp : s.pc t with
          | idle => rw [hp] at h1; simp [advance] at h1
          | pending op' =>
            rw [hp] at h1
            by_cases e : op' = op
            · rw [e]
            · simp [advance, e] at h1
          | done _ _ => rw [hp] at h1; simp [advance] at h1
        refine ⟨ls ++ [none], ⟨s.pcs.set t (.done op r), o, .lin t op r :: s.log⟩,
          Exec.snoc hex ?_, rfl, by rw [hlog], by simpa using hlen⟩
        refine mem_succ.2 ⟨t, by rw [hlen]; exact het, ?_⟩
        unfold stepT
        rw [hpc, ho]
        exact List.mem_map.2 ⟨(o, r), happ, rfl⟩
    | res t r =>
      obtain ⟨ls, s, hex, ho, hlog, hlen, hadv⟩ := key o hseq
      have hpc : ∃ op, s.pc t = .done op r := by
        have h1 := hthr t
        simp only [Entry.tid] at hadv
        rw [← hadv] at h1
        cases hp : s.pc t with
        | idle => rw [hp] at h1; simp [advance] at h1
        | pending _ => rw [hp] at h1; simp [advance] at h1
        | done op r' =>
          rw [hp] at h1
          by_cases e : r' = r
          · rw [e]; exact ⟨op, rfl⟩
          · simp [advance, e] at h1
      obtain ⟨op, hpc⟩ := hpc
      refine ⟨ls ++ [some (.res t r)], ⟨s.pcs.set t .idle, s.obj, .res t r :: s.log⟩,
        Exec.snoc hex ?_, ho, by rw [hlog], by simpa using hlen⟩
      refine mem_succ.2 ⟨t, by rw [hlen]; exact het, ?_⟩
      unfold stepT
      rw [hpc]
      exact List.mem_singleton.2 rfl

/-- **Every linearizable history is a history of the atomic-object system** (converse of `AtomicObj.linearizable`) -/
theorem exec_of_linearizable {tr : List (Event S.Op S.Res)} (h : Linearizable S tr) :
    ∃ (N : Nat) (menu : List S.Op) (ls : List (Option (Event S.Op S.Res))) (s : State S.σ S.Op S.Res),
      Exec (sys S menu N) (sys S menu N).init ls s ∧ visible ls = tr := by
  obtain ⟨log, hhist, ⟨o, hseq⟩, hthr⟩ := h
  obtain ⟨ls, s, hex, _, hlog, _⟩ :=
    replay S (logMenu log) (logN log) log o (tid_lt_logN log) (mem_logMenu log) hthr hseq
  refine ⟨logN log, logMenu log, ls, s, hex, ?_⟩
  have := hist_exec S (logMenu log) (logN log) hex
  rw [hlog, hhist] at this
  simpa [init, histOf] using this.symm

/-- a history is linearizable iff it is the visible trace of an execution of the atomic-object system -/
theorem linearizable_iff_exec (tr : List (Event S.Op S.Res)) :
    Linearizable S tr ↔
      ∃ (N : Nat) (menu : List S.Op) (ls : List (Option (Event S.Op S.Res))) (s : State S.σ S.Op S.Res),
        Exec (sys S menu N) (sys S menu N).init ls s ∧ visible ls = tr := by
  constructor
  · exact exec_of_linearizable S
  · rintro ⟨N, menu, ls, s, hex, rfl⟩
    exact Lemmas.AtomicObj.linearizable S menu N hex

end Replay

/-! ## 2. completeness of the fold -/

/-- the goroutine of an event -/
def evT : Event Op Res → Nat
  | .inv t _ | .res t _ => t

def isPend : TPc Op Res → Bool
  | .pending _ => true
  | _ => false

/-- number of pending goroutines = number of internal steps still possible -/
def pend (pcs : List (TPc Op Res)) : Nat := pcs.countP isPend

/-- the first `n` goroutines of `s` (missing ones are idle) -/
def view (n : Nat) (s : State σ Op Res) : List (TPc Op Res) := (List.range n).map s.pc

/-- the judge's state for `s` when it works with `n` goroutines -/
def proj (n : Nat) (s : State σ Op Res) : State σ Op Res := ⟨view n s, s.obj, []⟩

/-- `x` has the first `n` goroutines of `s` and the same object (any log) -/
def Rel (n : Nat) (s x : State σ Op Res) : Prop := x.pcs = view n s ∧ x.obj = s.obj

/-- goroutines `≥ n` of `s` are idle (or do not exist) -/
def IdleFrom (n : Nat) (s : State σ Op Res) : Prop := ∀ t, n ≤ t → s.pc t = .idle

theorem view_length (n : Nat) (s : State σ Op Res) : (view n s).length = n := by simp [view]

theorem view_getElem (n : Nat) (s : State σ Op Res) (i : Nat) (h : i < (view n s).length) :
    (view n s)[i] = s.pc i := by simp [view]

theorem pc_eq_getElem (x : State σ Op Res) (t : Nat) (h : t < x.pcs.length) : x.pc t = x.pcs[t] := by
  simp [State.pc, List.getD_eq_getElem?_getD, h]

theorem rel_pc {n : Nat} {s x : State σ Op Res} (h : Rel n s x) {t : Nat} (ht : t < n) : x.pc t = s.pc t := by
  have hl : t < x.pcs.length := by rw [h.1, view_length]; exact ht
  rw [pc_eq_getElem x t hl]
  have : x.pcs[t] = (view n s)[t]'(by rw [view_length]; exact ht) := by
    have := h.1
    simp [this]
  rw [this, view_getElem]

theorem rel_proj (n : Nat) (s : State σ Op Res) : Rel n s (proj n s) := ⟨rfl, rfl⟩

theorem eraseLog_of_rel {n : Nat} {s x : State σ Op Res} (h : Rel n s x) : eraseLog x = proj n s := by
  obtain ⟨h1, h2⟩ := h
  cases x
  simp only [eraseLog, proj] at *
  rw [h1, h2]

theorem view_set (n : Nat) (s : State σ Op Res) (t : Nat) (p : TPc Op Res) (ht : t < s.pcs.length) (o : σ)
    (l : List (Entry Op Res)) : view n ⟨s.pcs.set t p, o, l⟩ = (view n s).set t p := by
  apply List.ext_getElem
  · simp [view_length]
  · intro i h1 h2
    rw [view_getElem, pc_mk _ _ _ _ ht, List.getElem_set, view_getElem]
    by_cases h : i = t
    · subst h; simp
    · have h' : ¬ t = i := fun e => h e.symm
      simp [h, h']

theorem idleFrom_mono {n n' : Nat} {s : State σ Op Res} (h : IdleFrom n s) (hn : n ≤ n') : IdleFrom n' s :=
  fun t ht => h t (Nat.le_trans hn ht)

theorem view_pad {n0 n : Nat} {s : State σ Op Res} (hn : n0 ≤ n) (hi : IdleFrom n0 s) :
    view n s = view n0 s ++ List.replicate (n - n0) .idle := by
  apply List.ext_getElem
  · simp [view_length]; omega
  · intro i h1 h2
    rw [view_getElem, List.getElem_append]
    by_cases h : i < (view n0 s).length
    · rw [dif_pos h, view_getElem]
    · rw [dif_neg h, List.getElem_replicate]
      rw [view_length] at h
      exact hi i (by omega)

theorem padObj_proj {n0 n : Nat} {s : State σ Op Res} (hn : n0 ≤ n) (hi : IdleFrom n0 s) :
    padObj n (proj n0 s) = proj n s := by
  unfold padObj proj
  simp only [view_length]
  rw [← view_pad hn hi]

theorem init_pc (S : Spec) (N t : Nat) : (init S N).pc t = .idle := by
  unfold State.pc init
  simp only [List.getD_eq_getElem?_getD, List.getElem?_replicate]
  split <;> rfl

theorem proj_init (S : Spec) (n N : Nat) : proj n (init S N) = init S n := by
  unfold proj init
  congr 1
  apply List.ext_getElem
  · simp [view_length]
  · intro i h1 h2
    rw [view_getElem, List.getElem_replicate]
    exact init_pc S N i

theorem idleFrom_init (S : Spec) (n N : Nat) : IdleFrom n (init S N) := fun t _ => init_pc S N t

/-- goroutines `≥ n` stay idle as long as no goroutine `≥ n` is invoked -/
theorem idle_step {apply : σ → Op → List (σ × Res)} {menu : List Op} {n : Nat} {s s' : State σ Op Res}
    {l : Option (Event Op Res)} (hs : (l, s') ∈ succ apply menu s) (hi : IdleFrom n s)
    (hl : ∀ t op, l = some (.inv t op) → t < n) : IdleFrom n s' := by
  obtain ⟨t, ht, hcase⟩ := step_shape hs
  have htn : t < n := by
    rcases hcase with ⟨op, _, hl', _, _⟩ | ⟨op, o, r, hpc, _, _, _⟩ | ⟨op, r, hpc, _, _⟩
    · exact hl t op hl'
    · apply Nat.lt_of_not_le
      intro hle
      rw [hi t hle] at hpc
      cases hpc
    · apply Nat.lt_of_not_le
      intro hle
      rw [hi t hle] at hpc
      cases hpc
  intro u hu
  have hne : ¬ u = t := by omega
  rcases hcase with ⟨op, _, _, _, rfl⟩ | ⟨op, o, r, _, _, _, rfl⟩ | ⟨op, r, _, _, rfl⟩ <;>
    (rw [pc_mk _ _ _ _ ht, if_neg hne]; exact hi u hu)

/-- a step of the real state `s` is a step of the judge's state `x` (first `n` goroutines, any log), in any system whose
menu contains the invoked operation -/
theorem lift_step {apply : σ → Op → List (σ × Res)} {menu menu' : List Op} {n : Nat} {s s' x : State σ Op Res}
    {l : Option (Event Op Res)} (hs : (l, s') ∈ succ apply menu s) (hr : Rel n s x) (hi : IdleFrom n s)
    (hl : ∀ t op, l = some (.inv t op) → t < n ∧ op ∈ menu') :
    ∃ x', (l, x') ∈ succ apply menu' x ∧ Rel n s' x' := by
  obtain ⟨t, ht, hcase⟩ := step_shape hs
  have htn : t < n := by
    rcases hcase with ⟨op, _, hl', _, _⟩ | ⟨op, o, r, hpc, _, _, _⟩ | ⟨op, r, hpc, _, _⟩
    · exact (hl t op hl').1
    · apply Nat.lt_of_not_le
      intro hle
      rw [hi t hle] at hpc
      cases hpc
    · apply Nat.lt_of_not_le
      intro hle
      rw [hi t hle] at hpc
      cases hpc
  have hx : x.pc t = s.pc t := rel_pc hr htn
  have htx : t < x.pcs.length := by rw [hr.1, view_length]; exact htn
  have hset : ∀ (p : TPc Op Res) (o : σ) (l1 l2 : List (Entry Op Res)),
      Rel n ⟨s.pcs.set t p, o, l1⟩ ⟨x.pcs.set t p, o, l2⟩ := by
    intro p o l1 l2
    refine ⟨?_, rfl⟩
    show x.pcs.set t p = _
    rw [view_set n s t p ht, hr.1]
  rcases hcase with ⟨op, hpc, rfl, hop, rfl⟩ | ⟨op, o, r, hpc, rfl, happ, rfl⟩ | ⟨op, r, hpc, rfl, rfl⟩
  · refine ⟨⟨x.pcs.set t (.pending op), x.obj, .inv t op :: x.log⟩, ?_, ?_⟩
    · refine mem_succ.2 ⟨t, htx, ?_⟩
      unfold stepT
      rw [hx, hpc]
      exact List.mem_map.2 ⟨op, (hl t op rfl).2, rfl⟩
    · rw [hr.2]; exact hset _ _ _ _
  · refine ⟨⟨x.pcs.set t (.done op r), o, .lin t op r :: x.log⟩, ?_, hset _ _ _ _⟩
    refine mem_succ.2 ⟨t, htx, ?_⟩
    unfold stepT
    rw [hx, hpc, hr.2]
    exact List.mem_map.2 ⟨(o, r), happ, rfl⟩
  · refine ⟨⟨x.pcs.set t .idle, x.obj, .res t r :: x.log⟩, ?_, ?_⟩
    · refine mem_succ.2 ⟨t, htx, ?_⟩
      unfold stepT
      rw [hx, hpc]
      exact List.mem_singleton.2 rfl
    · rw [hr.2]; exact hset _ _ _ _

/-- an internal step is a linearization step: one pending goroutine fewer -/
theorem tau_pend {apply : σ → Op → List (σ × Res)} {menu : List Op} {x x' : State σ Op Res}
    (h : (none, x') ∈ succ apply menu x) : pend x'.pcs + 1 = pend x.pcs := by
  obtain ⟨t, ht, hcase⟩ := step_shape h
  rcases hcase with ⟨op, _, hl, _, _⟩ | ⟨op, o, r, hpc, _, _, rfl⟩ | ⟨op, r, _, hl, _⟩
  · cases hl
  · rw [pc_eq_getElem x t ht] at hpc
    have hpos : 0 < pend x.pcs := by
      unfold pend
      rw [List.countP_pos_iff]
      exact ⟨x.pcs[t], List.getElem_mem ht, by rw [hpc]; rfl⟩
    show pend (x.pcs.set t (.done op r)) + 1 = pend x.pcs
    unfold pend at *
    rw [List.countP_set ht, hpc]
    simp only [isPend]
    simp
    omega
  · cases hl

section Judge
variable (S : Spec)

/-- internal steps of the real system lift to the judge's system -/
theorem lift_tau (menu menu' : List S.Op) (N n : Nat) {k : Nat} {s s' : (sys S menu N).State}
    (h : TauN (sys S menu N) k s s') :
    ∀ x : State S.σ S.Op S.Res, Rel n s x → IdleFrom n s →
      ∃ x' : State S.σ S.Op S.Res, TauN (sys S menu' n) k x x' ∧ Rel n s' x' := by
  induction h with
  | refl k s => intro x hr _; exact ⟨x, TauN.refl _ _, hr⟩
  | @step k s s1 s2 hm _ ih =>
    intro x hr hi
    obtain ⟨x1, hm1, hr1⟩ := lift_step (menu' := menu') hm hr hi (fun t op hl => by cases hl)
    have hi1 := idle_step hm hi (fun t op hl => by cases hl)
    obtain ⟨x', ht, hr'⟩ := ih x1 hr1 hi1
    exact ⟨x', TauN.step hm1 ht, hr'⟩

/-- at most `pend` internal steps are possible -/
theorem tauN_bound (menu : List S.Op) (n : Nat) {k : Nat} {x x' : (sys S menu n).State}
    (h : TauN (sys S menu n) k x x') : TauN (sys S menu n) (pend x.pcs) x x' := by
  induction h with
  | refl k s => exact TauN.refl _ _
  | @step k s s1 s2 hm _ ih =>
    have := tau_pend hm
    rw [← this]
    exact TauN.step hm ih

theorem tauN_zero {sys : Sys} {k : Nat} {a b : sys.State} (h : TauN sys k a b) (hk : k = 0) : b = a := by
  cases h with
  | refl => rfl
  | step _ _ => omega

theorem pend_le_length (pcs : List (TPc Op Res)) : pend pcs ≤ pcs.length := List.countP_le_length

theorem pend_init (n : Nat) : pend (init S n).pcs = 0 := by
  unfold pend init
  rw [List.countP_eq_zero]
  intro a ha
  rw [List.eq_of_mem_replicate ha]
  simp [isPend]

variable [DecidableEq S.σ] [DecidableEq S.Op] [DecidableEq S.Res]

/-- the judge's state set `ss` (working with `n` goroutines) covers the real state `s`: it contains the judge's state of
everything `s` can reach by internal steps -/
def Cover (menu : List S.Op) (N n : Nat) (ss : List (State S.σ S.Op S.Res)) (s : State S.σ S.Op S.Res) : Prop :=
  ∀ (k : Nat) (s' : State S.σ S.Op S.Res), TauN (sys S menu N) k s s' → proj n s' ∈ ss

/-- one visible step -/
theorem cover_step (fuel : Nat) (menu : List S.Op) (N n0 n : Nat) (hn : n0 ≤ n) (hf : n ≤ fuel)
    {ss : List (State S.σ S.Op S.Res)} {s s1 : State S.σ S.Op S.Res} {e : Event S.Op S.Res}
    (hm : (some e, s1) ∈ succ S.apply menu s) (hi : IdleFrom n0 s) (he : ∀ t op, e = .inv t op → t < n)
    (hc : Cover S menu N n0 ss s) : Cover S menu N n (stepObjF S fuel n ss e) s1 := by
  intro k s' ht
  have hin : IdleFrom n s := idleFrom_mono hi hn
  -- the judge's padded state for `s`
  have h0 : padObj n (proj n0 s) ∈ ss.map (padObj n) :=
    List.mem_map.2 ⟨proj n0 s, hc 0 s (TauN.refl _ _), rfl⟩
  rw [padObj_proj hn hi] at h0
  -- the visible step
  obtain ⟨x1, hx1, hr1⟩ := lift_step (menu' := evMenu e) hm (rel_proj n s) hin (by
    intro t op hl
    injection hl with hl
    subst hl
    exact ⟨he t op rfl, List.mem_singleton.2 rfl⟩)
  have hi1 : IdleFrom n s1 := idle_step hm hin (by
    intro t op hl
    injection hl with hl
    exact he t op hl)
  -- the internal steps
  obtain ⟨x', htx, hr'⟩ := lift_tau S menu (evMenu e) N n ht x1 hr1 hi1
  have hb := tauN_bound S (evMenu e) n htx
  have hlen : x1.pcs.length = n := by rw [hr1.1, view_length]
  have hk : pend x1.pcs ≤ fuel := by
    have := pend_le_length x1.pcs
    omega
  have hmem : x' ∈ Conc.stepEvent (sys S (evMenu e) n) fuel (ss.map (padObj n)) e :=
    stepEvent_complete (sys S (evMenu e) n) fuel _ e (proj n s) x1 x' _ h0 hx1 hb hk
  rw [stepObjF_eq, ← eraseLog_of_rel hr']
  exact mem_dedup (List.mem_map.2 ⟨x', hmem, rfl⟩)

/-- the fold follows every execution -/
theorem cover_exec (fuel : Nat) (nf : Nat → Event S.Op S.Res → Nat)
    (hmono : ∀ n e, n ≤ nf n e) (hinv : ∀ n t op, t < nf n (.inv t op))
    (hbound : ∀ n e, n ≤ fuel → evT e < fuel → nf n e ≤ fuel)
    (menu : List S.Op) (N : Nat) {s s' : (sys S menu N).State} {ls : List (Option (sys S menu N).Event)}
    (h : Exec (sys S menu N) s ls s') :
    ∀ j : Nat × List (State S.σ S.Op S.Res), j.1 ≤ fuel → IdleFrom j.1 s → (∀ e ∈ visible ls, evT e < fuel) →
      Cover S menu N j.1 j.2 s →
      Cover S menu N (foldObj S fuel nf j (visible ls)).1 (foldObj S fuel nf j (visible ls)).2 s' := by
  induction h with
  | nil s => intro j _ _ _ hc; exact hc
  | @cons s s1 s2 l ls hm _ ih =>
    intro j hj hi htid hc
    cases l with
    | none =>
      refine ih j hj (idle_step hm hi (fun t op hl => by cases hl)) htid ?_
      intro k s' ht
      exact hc (k + 1) s' (TauN.step hm ht)
    | some e =>
      have hfold : foldObj S fuel nf j (visible (some e :: ls)) =
          foldObj S fuel nf (nf j.1 e, stepObjF S fuel (nf j.1 e) j.2 e) (visible ls) := rfl
      rw [hfold]
      have hte : evT e < fuel := htid e (by simp)
      have hn' : nf j.1 e ≤ fuel := hbound j.1 e hj hte
      have he : ∀ t op, e = .inv t op → t < nf j.1 e := by
        intro t op h; rw [h]; exact hinv _ _ _
      refine ih (nf j.1 e, stepObjF S fuel (nf j.1 e) j.2 e) hn' ?_ (fun e' h' => htid e' (by simp [h'])) ?_
      · exact idle_step hm (idleFrom_mono hi (hmono _ _)) (by
          intro t op hl
          injection hl with hl
          exact he t op hl)
      · exact cover_step S fuel menu N j.1 (nf j.1 e) (hmono _ _) hn' hm hi he hc

/-- **Completeness of the acceptor for bounded concurrency**: the judges' fold over the visible trace of an execution of
`AtomicObj.sys S menu N` (any `N`, any `menu`) whose goroutine ids are `< fuel` is non-empty, provided the rule `nf` for the
number of goroutines never decreases it, makes room for the invoking goroutine, and stays `≤ fuel` on goroutine ids `< fuel`
(`Drv.C18.step`: `nextN`; `Drv.ObjLin`: `max n (t + 1)` at `inv`, `n` at `res`) -/
theorem fold_stepObj_complete (fuel : Nat) (nf : Nat → Event S.Op S.Res → Nat)
    (hmono : ∀ n e, n ≤ nf n e) (hinv : ∀ n t op, t < nf n (.inv t op))
    (hbound : ∀ n e, n ≤ fuel → evT e < fuel → nf n e ≤ fuel)
    (n0 : Nat) (hn0 : n0 ≤ fuel) (N : Nat) (menu : List S.Op) (ls : List (Option (Event S.Op S.Res)))
    (s : State S.σ S.Op S.Res) (hex : Exec (sys S menu N) (sys S menu N).init ls s)
    (htid : ∀ e ∈ visible ls, evT e < fuel) :
    (foldObj S fuel nf (n0, [init S n0]) (visible ls)).2 ≠ [] := by
  have hc0 : Cover S menu N n0 [init S n0] (init S N) := by
    intro k s' ht
    have hb := tauN_bound S menu N ht
    rw [pend_init] at hb
    rw [tauN_zero hb rfl, proj_init]
    exact List.mem_singleton.2 rfl
  have hc := cover_exec S fuel nf hmono hinv hbound menu N hex (n0, [init S n0]) hn0 (idleFrom_init S n0 N) htid hc0
  have := hc 0 s (TauN.refl _ _)
  intro h0
  rw [h0] at this
  cases this

/-- the fold decides membership in the trace set of the atomic-object systems -/
theorem fold_stepObj_iff (fuel : Nat) (nf : Nat → Event S.Op S.Res → Nat)
    (hmono : ∀ n e, n ≤ nf n e) (hinv : ∀ n t op, t < nf n (.inv t op))
    (hbound : ∀ n e, n ≤ fuel → evT e < fuel → nf n e ≤ fuel)
    (n0 : Nat) (hn0 : n0 ≤ fuel) (tr : List (Event S.Op S.Res)) (htid : ∀ e ∈ tr, evT e < fuel) :
    (foldObj S fuel nf (n0, [init S n0]) tr).2 ≠ [] ↔
      ∃ (N : Nat) (menu : List S.Op) (ls : List (Option (Event S.Op S.Res))) (s : State S.σ S.Op S.Res),
        Exec (sys S menu N) (sys S menu N).init ls s ∧ visible ls = tr := by
  constructor
  · exact fold_stepObj_sound S fuel nf n0 tr
  · rintro ⟨N, menu, ls, s, hex, rfl⟩
    exact fold_stepObj_complete S fuel nf hmono hinv hbound n0 hn0 N menu ls s hex htid

/-- … i.e. it decides linearizability -/
theorem fold_stepObj_iff_linearizable (fuel : Nat) (nf : Nat → Event S.Op S.Res → Nat)
    (hmono : ∀ n e, n ≤ nf n e) (hinv : ∀ n t op, t < nf n (.inv t op))
    (hbound : ∀ n e, n ≤ fuel → evT e < fuel → nf n e ≤ fuel)
    (n0 : Nat) (hn0 : n0 ≤ fuel) (tr : List (Event S.Op S.Res)) (htid : ∀ e ∈ tr, evT e < fuel) :
    (foldObj S fuel nf (n0, [init S n0]) tr).2 ≠ [] ↔ Linearizable S tr := by
  rw [fold_stepObj_iff S fuel nf hmono hinv hbound n0 hn0 tr htid, linearizable_iff_exec]

/-- an empty state set stays empty -/
theorem tauClosure_nil (sys : Sys) [BEq sys.State] (fuel : Nat) : Conc.tauClosure sys fuel [] = [] := by
  cases fuel with
  | zero => rfl
  | succ fuel => simp [Conc.tauClosure, Conc.dedup]

theorem stepObjF_nil (fuel n : Nat) (e : Event S.Op S.Res) : stepObjF S fuel n [] e = [] := by
  rw [stepObjF_eq]
  have : Conc.stepEvent (sys S (evMenu e) n) fuel (([] : List (State S.σ S.Op S.Res)).map (padObj n)) e = [] :=
    tauClosure_nil (sys S (evMenu e) n) fuel
  rw [this]
  rfl

end Judge

end TypVerif.Lemmas.ObjComplete

#print axioms TypVerif.Lemmas.ObjComplete.exec_of_linearizable
#print axioms TypVerif.Lemmas.ObjComplete.linearizable_iff_exec
#print axioms TypVerif.Lemmas.ObjComplete.fold_stepObj_complete
#print axioms TypVerif.Lemmas.ObjComplete.fold_stepObj_iff
#print axioms TypVerif.Lemmas.ObjComplete.fold_stepObj_iff_linearizable
