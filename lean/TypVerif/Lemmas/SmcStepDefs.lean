import TypVerif.Lemmas.SmcBasic
import TypVerif.Lemmas.SmcAbs
import TypVerif.Lemmas.SmcGS
/-
C04 concurrent half: the obligation of one goroutine's steps (`StepOK`) and its decomposition into the obligations the
per-pc proof files (`SmcQuiet`, `SmcLoad`, …) discharge:

* `ExecOK s a t`  every enabled `exec` step of goroutine `t` (an internal step) leads to a state related, by `R`, to
                  the abstract state the witness prescribes;
* `PickOK s a t`  the same for the `picks` of a `range read.m` loop head.
Visible steps (`inv`, `res`) are handled once and for all in `SmcVis`.
-/
namespace TypVerif.Lemmas.Smc
open TypVerif.Model TypVerif.Model.SyncMapConc TypVerif.Model.RelObj
open TypVerif.Model.SyncMap (alookup ainsert aerase akeys)

variable {K V : Type} [DecidableEq K] [DecidableEq V] [Inhabited V]

/-- every step of goroutine `t` from `s` is matched by the abstract steps of the witness, and `R` is re-established -/
def StepOK (menu : List (Op K V)) (s : State K V) (a : AState K V) (t : Tid) : Prop :=
  ∀ l s', (l, s') ∈ stepT menu s t → Sim a (witness s t l a) l ∧ R s' (witness s t l a)

/-- the internal (`exec`) steps of goroutine `t` re-establish `R` -/
def ExecOK (s : State K V) (a : AState K V) (t : Tid) : Prop :=
  ∀ sh' pc', exec s.sh t (s.pc t) = some (sh', pc') → R (setPc s t sh' pc') (witness s t none a)

/-- the loop-head choices of goroutine `t` re-establish `R` -/
def PickOK (s : State K V) (a : AState K V) (t : Tid) : Prop :=
  ∀ c, c ∈ picks (s.pc t) → R (setPc s t s.sh c.2) (witness s t none a)

/-- internal steps: `Sim` comes for free (`sim_none`), so only `R` has to be shown -/
theorem stepOK_of_internal {menu : List (Op K V)} {s : State K V} {a : AState K V} {t : Tid}
    (hR : R s a) (ht : t < s.pcs.length) (hi : s.pc t ≠ .idle) (hr : ∀ r, s.pc t ≠ .ret r)
    (he : ExecOK s a t) (hp : PickOK s a t) : StepOK menu s a t := by
  intro l s' hmem
  rcases mem_stepT_iff.mp hmem with ⟨h, _⟩ | ⟨r, h, _⟩ | ⟨_, _, hl, hcase⟩
  · exact absurd h hi
  · exact absurd h (hr r)
  · subst hl
    refine ⟨sim_none s hR.idle_of_le ht, ?_⟩
    rcases hcase with ⟨sh', pc', hex, rfl⟩ | ⟨c, hc, rfl⟩
    · exact he sh' pc' hex
    · exact hp c hc

/-- pcs without loop-head choices -/
theorem pickOK_of_nil {s : State K V} {a : AState K V} {t : Tid} (h : picks (s.pc t) = []) : PickOK s a t := by
  intro c hc
  rw [h] at hc
  cases hc

/-- loop heads have no `exec` step -/
theorem execOK_of_none {s : State K V} {a : AState K V} {t : Tid} (h : exec s.sh t (s.pc t) = none) : ExecOK s a t := by
  intro sh' pc' hex
  rw [h] at hex
  cases hex

end TypVerif.Lemmas.Smc
