import TypVerif.Model.LinkedList
/-
Read-over-write lemmas for the heap of `Model/LinkedList.lean`, phrased on the "view" of a heap as the
pure functions `h.next h.prev : Ptr → Ptr`, `h.listOf`, `h.value`, `h.len`; and the stepping lemmas of
the monad `M`.
-/
namespace TypVerif.Lemmas.LinkedList
open TypVerif.Spec.ListOp
open TypVerif.Model
open TypVerif.Model.LinkedList

/-- functional update -/
def upd {α β : Type} [DecidableEq α] (f : α → β) (a : α) (b : β) : α → β :=
  fun x => if x = a then b else f x

theorem upd_apply {α β : Type} [DecidableEq α] (f : α → β) (a : α) (b : β) (x : α) :
    upd f a b x = if x = a then b else f x := rfl

@[simp] theorem upd_same {α β : Type} [DecidableEq α] (f : α → β) (a : α) (b : β) : upd f a b a = b := by
  simp [upd]

theorem upd_ne {α β : Type} [DecidableEq α] (f : α → β) {a x : α} (b : β) (h : x ≠ a) : upd f a b x = f x := by
  simp [upd, h]

/-! ### setNext -/

theorem next_setNext (h : Heap) {p : Ptr} (q : Ptr) (hp : p ≠ .null) :
    (h.setNext p q).next = upd h.next p q := by
  funext x
  cases p with
  | null => exact absurd rfl hp
  | root l =>
    cases x with
    | null => simp [Heap.next, upd]
    | root l' =>
      simp only [Heap.next, Heap.setNext, upd, Store.get_set, Ptr.root.injEq]
      by_cases e : l' = l <;> simp [e]
    | elem e => simp [Heap.next, Heap.setNext, upd]
  | elem e =>
    cases x with
    | null => simp [Heap.next, upd]
    | root l' => simp [Heap.next, Heap.setNext, upd]
    | elem e' =>
      simp only [Heap.next, Heap.setNext, upd, Store.get_set, Ptr.elem.injEq]
      by_cases e2 : e' = e <;> simp [e2]

@[simp] theorem prev_setNext (h : Heap) (p q : Ptr) : (h.setNext p q).prev = h.prev := by
  funext x
  cases p <;> cases x <;> simp only [Heap.prev, Heap.setNext, Store.get_set] <;> split <;> simp_all

@[simp] theorem listOf_setNext (h : Heap) (p q : Ptr) : (h.setNext p q).listOf = h.listOf := by
  funext x
  cases p <;> cases x <;> simp only [Heap.listOf, Heap.setNext, Store.get_set] <;> split <;> simp_all

@[simp] theorem value_setNext (h : Heap) (p q : Ptr) : (h.setNext p q).value = h.value := by
  funext x
  cases p <;> cases x <;> simp only [Heap.value, Heap.setNext, Store.get_set] <;> split <;> simp_all

@[simp] theorem len_setNext (h : Heap) (p q : Ptr) : (h.setNext p q).len = h.len := by
  funext x
  cases p <;> simp only [Heap.len, Heap.setNext, Store.get_set] <;> split <;> simp_all

@[simp] theorem nextElem_setNext (h : Heap) (p q : Ptr) : (h.setNext p q).nextElem = h.nextElem := by
  cases p <;> rfl

/-! ### setPrev -/

theorem prev_setPrev (h : Heap) {p : Ptr} (q : Ptr) (hp : p ≠ .null) :
    (h.setPrev p q).prev = upd h.prev p q := by
  funext x
  cases p with
  | null => exact absurd rfl hp
  | root l =>
    cases x with
    | null => simp [Heap.prev, upd]
    | root l' =>
      simp only [Heap.prev, Heap.setPrev, upd, Store.get_set, Ptr.root.injEq]
      by_cases e : l' = l <;> simp [e]
    | elem e => simp [Heap.prev, Heap.setPrev, upd]
  | elem e =>
    cases x with
    | null => simp [Heap.prev, upd]
    | root l' => simp [Heap.prev, Heap.setPrev, upd]
    | elem e' =>
      simp only [Heap.prev, Heap.setPrev, upd, Store.get_set, Ptr.elem.injEq]
      by_cases e2 : e' = e <;> simp [e2]

@[simp] theorem next_setPrev (h : Heap) (p q : Ptr) : (h.setPrev p q).next = h.next := by
  funext x
  cases p <;> cases x <;> simp only [Heap.next, Heap.setPrev, Store.get_set] <;> split <;> simp_all

@[simp] theorem listOf_setPrev (h : Heap) (p q : Ptr) : (h.setPrev p q).listOf = h.listOf := by
  funext x
  cases p <;> cases x <;> simp only [Heap.listOf, Heap.setPrev, Store.get_set] <;> split <;> simp_all

@[simp] theorem value_setPrev (h : Heap) (p q : Ptr) : (h.setPrev p q).value = h.value := by
  funext x
  cases p <;> cases x <;> simp only [Heap.value, Heap.setPrev, Store.get_set] <;> split <;> simp_all

@[simp] theorem len_setPrev (h : Heap) (p q : Ptr) : (h.setPrev p q).len = h.len := by
  funext x
  cases p <;> simp only [Heap.len, Heap.setPrev, Store.get_set] <;> split <;> simp_all

@[simp] theorem nextElem_setPrev (h : Heap) (p q : Ptr) : (h.setPrev p q).nextElem = h.nextElem := by
  cases p <;> rfl

/-! ### setList -/

@[simp] theorem next_setList (h : Heap) (e : ElemId) (o : Option ListId) : (h.setList e o).next = h.next := by
  funext x
  cases x <;> simp only [Heap.next, Heap.setList, Store.get_set] <;> split <;> simp_all

@[simp] theorem prev_setList (h : Heap) (e : ElemId) (o : Option ListId) : (h.setList e o).prev = h.prev := by
  funext x
  cases x <;> simp only [Heap.prev, Heap.setList, Store.get_set] <;> split <;> simp_all

theorem listOf_setList (h : Heap) (e : ElemId) (o : Option ListId) :
    (h.setList e o).listOf = upd h.listOf (.elem e) o := by
  funext x
  cases x with
  | null => simp [Heap.listOf, upd]
  | root l => simp [Heap.listOf, upd]
  | elem e' =>
    simp only [Heap.listOf, Heap.setList, upd, Store.get_set, Ptr.elem.injEq]
    by_cases e2 : e' = e <;> simp [e2]

@[simp] theorem value_setList (h : Heap) (e : ElemId) (o : Option ListId) : (h.setList e o).value = h.value := by
  funext x
  cases x <;> simp only [Heap.value, Heap.setList, Store.get_set] <;> split <;> simp_all

@[simp] theorem len_setList (h : Heap) (e : ElemId) (o : Option ListId) : (h.setList e o).len = h.len := rfl

@[simp] theorem nextElem_setList (h : Heap) (e : ElemId) (o : Option ListId) :
    (h.setList e o).nextElem = h.nextElem := rfl

/-! ### setLen -/

@[simp] theorem next_setLen (h : Heap) (l : ListId) (n : Int) : (h.setLen l n).next = h.next := by
  funext x
  cases x <;> simp only [Heap.next, Heap.setLen, Store.get_set] <;> split <;> simp_all

@[simp] theorem prev_setLen (h : Heap) (l : ListId) (n : Int) : (h.setLen l n).prev = h.prev := by
  funext x
  cases x <;> simp only [Heap.prev, Heap.setLen, Store.get_set] <;> split <;> simp_all

@[simp] theorem listOf_setLen (h : Heap) (l : ListId) (n : Int) : (h.setLen l n).listOf = h.listOf := rfl
@[simp] theorem value_setLen (h : Heap) (l : ListId) (n : Int) : (h.setLen l n).value = h.value := rfl

theorem len_setLen (h : Heap) (l : ListId) (n : Int) : (h.setLen l n).len = upd h.len l n := by
  funext x
  simp only [Heap.len, Heap.setLen, upd, Store.get_set]
  by_cases e : x = l <;> simp [e]

@[simp] theorem nextElem_setLen (h : Heap) (l : ListId) (n : Int) : (h.setLen l n).nextElem = h.nextElem := rfl

/-! ### newElemAt -/

theorem next_newElemAt (h : Heap) (e : ElemId) (v : Int) : (h.newElemAt e v).next = upd h.next (.elem e) .null := by
  funext x
  cases x with
  | null => simp [Heap.next, upd]
  | root l => simp [Heap.next, Heap.newElemAt, upd]
  | elem e' =>
    simp only [Heap.next, Heap.newElemAt, upd, Store.get_set, Ptr.elem.injEq]
    by_cases e2 : e' = e <;> simp [e2]

theorem prev_newElemAt (h : Heap) (e : ElemId) (v : Int) : (h.newElemAt e v).prev = upd h.prev (.elem e) .null := by
  funext x
  cases x with
  | null => simp [Heap.prev, upd]
  | root l => simp [Heap.prev, Heap.newElemAt, upd]
  | elem e' =>
    simp only [Heap.prev, Heap.newElemAt, upd, Store.get_set, Ptr.elem.injEq]
    by_cases e2 : e' = e <;> simp [e2]

theorem listOf_newElemAt (h : Heap) (e : ElemId) (v : Int) :
    (h.newElemAt e v).listOf = upd h.listOf (.elem e) none := by
  funext x
  cases x with
  | null => simp [Heap.listOf, upd]
  | root l => simp [Heap.listOf, upd]
  | elem e' =>
    simp only [Heap.listOf, Heap.newElemAt, upd, Store.get_set, Ptr.elem.injEq]
    by_cases e2 : e' = e <;> simp [e2]

theorem value_newElemAt (h : Heap) (e : ElemId) (v : Int) :
    (h.newElemAt e v).value = upd h.value (.elem e) v := by
  funext x
  cases x with
  | null => simp [Heap.value, upd]
  | root l => simp [Heap.value, upd]
  | elem e' =>
    simp only [Heap.value, Heap.newElemAt, upd, Store.get_set, Ptr.elem.injEq]
    by_cases e2 : e' = e <;> simp [e2]

@[simp] theorem len_newElemAt (h : Heap) (e : ElemId) (v : Int) : (h.newElemAt e v).len = h.len := rfl
@[simp] theorem nextElem_newElemAt (h : Heap) (e : ElemId) (v : Int) : (h.newElemAt e v).nextElem = h.nextElem := rfl

/-! ### setNextElem -/

@[simp] theorem next_setNextElem (h : Heap) (n : Nat) : (h.setNextElem n).next = h.next := rfl
@[simp] theorem prev_setNextElem (h : Heap) (n : Nat) : (h.setNextElem n).prev = h.prev := rfl
@[simp] theorem listOf_setNextElem (h : Heap) (n : Nat) : (h.setNextElem n).listOf = h.listOf := rfl
@[simp] theorem value_setNextElem (h : Heap) (n : Nat) : (h.setNextElem n).value = h.value := rfl
@[simp] theorem len_setNextElem (h : Heap) (n : Nat) : (h.setNextElem n).len = h.len := rfl
@[simp] theorem nextElem_setNextElem (h : Heap) (n : Nat) : (h.setNextElem n).nextElem = n := rfl

/-! ### null and empty heap -/

@[simp] theorem next_null (h : Heap) : h.next .null = .null := rfl
@[simp] theorem prev_null (h : Heap) : h.prev .null = .null := rfl
@[simp] theorem listOf_null (h : Heap) : h.listOf .null = none := rfl
@[simp] theorem listOf_root (h : Heap) (l : ListId) : h.listOf (.root l) = none := rfl
@[simp] theorem value_root (h : Heap) (l : ListId) : h.value (.root l) = 0 := rfl

@[simp] theorem empty_next (p : Ptr) : Heap.empty.next p = .null := by
  cases p <;> simp [Heap.next, Heap.empty] <;> rfl
@[simp] theorem empty_prev (p : Ptr) : Heap.empty.prev p = .null := by
  cases p <;> simp [Heap.prev, Heap.empty] <;> rfl
@[simp] theorem empty_listOf (p : Ptr) : Heap.empty.listOf p = none := by
  cases p <;> simp [Heap.listOf, Heap.empty] <;> rfl
@[simp] theorem empty_value (p : Ptr) : Heap.empty.value p = 0 := by
  cases p <;> simp [Heap.value, Heap.empty] <;> rfl
@[simp] theorem empty_len (l : ListId) : Heap.empty.len l = 0 := by
  simp [Heap.len, Heap.empty]; rfl
@[simp] theorem empty_nextElem : Heap.empty.nextElem = 0 := rfl

/-! ### stepping the monad -/

theorem bind_run {α β : Type} (x : M α) (f : α → M β) (h : Heap) :
    (x >>= f) h = match x h with
      | .ok a h' => f a h'
      | .panic m h' => .panic m h' := rfl

theorem bind_ok {α β : Type} {x : M α} {f : α → M β} {h h' : Heap} {a : α} (hx : x h = .ok a h') :
    (x >>= f) h = f a h' := by
  rw [bind_run, hx]

theorem bind_panic {α β : Type} {x : M α} {f : α → M β} {h h' : Heap} {m : String} (hx : x h = .panic m h') :
    (x >>= f) h = .panic m h' := by
  rw [bind_run, hx]

@[simp] theorem pure_run {α : Type} (a : α) (h : Heap) : (pure a : M α) h = .ok a h := rfl

theorem ite_run {α : Type} (c : Prop) [Decidable c] (x y : M α) (h : Heap) :
    (if c then x else y) h = if c then x h else y h := by
  split <;> rfl

theorem getNext_ok {p : Ptr} (h : Heap) (hp : p ≠ .null) : getNext p h = .ok (h.next p) h := by
  simp [getNext, hp]
theorem getPrev_ok {p : Ptr} (h : Heap) (hp : p ≠ .null) : getPrev p h = .ok (h.prev p) h := by
  simp [getPrev, hp]
theorem getList_ok {p : Ptr} (h : Heap) (hp : p ≠ .null) : getList p h = .ok (h.listOf p) h := by
  simp [getList, hp]
theorem getValue_ok {p : Ptr} (h : Heap) (hp : p ≠ .null) : getValue p h = .ok (h.value p) h := by
  simp [getValue, hp]
theorem setNext_ok {p : Ptr} (q : Ptr) (h : Heap) (hp : p ≠ .null) : setNext p q h = .ok () (h.setNext p q) := by
  simp [setNext, hp]
theorem setPrev_ok {p : Ptr} (q : Ptr) (h : Heap) (hp : p ≠ .null) : setPrev p q h = .ok () (h.setPrev p q) := by
  simp [setPrev, hp]
@[simp] theorem setList_run (e : ElemId) (o : Option ListId) (h : Heap) : setList e o h = .ok () (h.setList e o) := rfl
@[simp] theorem getLen_run (l : ListId) (h : Heap) : getLen l h = .ok (h.len l) h := rfl
@[simp] theorem setLen_run (l : ListId) (n : Int) (h : Heap) : setLen l n h = .ok () (h.setLen l n) := rfl
@[simp] theorem newElemAt_run (e : ElemId) (v : Int) (h : Heap) : newElemAt e v h = .ok () (h.newElemAt e v) := rfl
@[simp] theorem getNextElem_run (h : Heap) : getNextElem h = .ok h.nextElem h := rfl
@[simp] theorem setNextElem_run (n : Nat) (h : Heap) : setNextElem n h = .ok () (h.setNextElem n) := rfl

@[simp] theorem getNext_null (h : Heap) : getNext .null h = .panic "nilfunc" h := rfl
@[simp] theorem getPrev_null (h : Heap) : getPrev .null h = .panic "nilfunc" h := rfl
@[simp] theorem getList_null (h : Heap) : getList .null h = .panic "nilfunc" h := rfl
@[simp] theorem getValue_null (h : Heap) : getValue .null h = .panic "nilfunc" h := rfl
@[simp] theorem nilPanic_run {α : Type} (h : Heap) : (nilPanic : M α) h = .panic "nilfunc" h := rfl

@[simp] theorem elem_ne_null (e : ElemId) : Ptr.elem e ≠ Ptr.null := by intro h; cases h
@[simp] theorem root_ne_null (l : ListId) : Ptr.root l ≠ Ptr.null := by intro h; cases h
@[simp] theorem elem_ne_root (e : ElemId) (l : ListId) : Ptr.elem e ≠ Ptr.root l := by intro h; cases h
@[simp] theorem root_ne_elem (e : ElemId) (l : ListId) : Ptr.root l ≠ Ptr.elem e := by intro h; cases h

end TypVerif.Lemmas.LinkedList
