import TypVerif.Lemmas.SmcQuiet
import TypVerif.Lemmas.SmcEntry
import TypVerif.Lemmas.SmcMaps
/-
C04 concurrent half: `StepOK` for the non-quiet steps of `Store`:
`tryStoreCas` (the CAS of the fast path), `storeRead2` (the re-read under the mutex, with the new-key tail when the
map is already amended), `storeUnexp` (un-expunge under the mutex) and `storeLocked` (the store under the mutex).

General lemmas: `R_step_core` (assemble `R` after a step of `t` that changes the shared state, from `GS`, `absOf`,
`T` of the stepping goroutine and `T` of the bystanders w.r.t. their OLD abstract pcs) and `R_lin_store` (the
linearization step of a pending `Store k v` that ends in `.ret .done`).
-/
namespace TypVerif.Lemmas.Smc
open TypVerif.Model TypVerif.Model.SyncMapConc TypVerif.Model.RelObj
open TypVerif.Model.SyncMap (alookup ainsert aerase akeys)

set_option linter.unusedSimpArgs false
set_option linter.unusedVariables false
set_option linter.unusedSectionVars false

variable {K V : Type} [DecidableEq K] [DecidableEq V] [Inhabited V]
variable {menu : List (Op K V)} {s : State K V} {a : AState K V} {t : Tid}

/-! ### general lemmas -/

omit [Inhabited V] in
/-- Assembly of `R` after a step of `t` that changes the shared state.  The abstract successor `a'` only adds to the
`seen` lists of the bystanders (`SeenLe`), so their `T` may be stated for the old abstract pcs; `t` unlinks
nothing. -/
theorem R_step_core (hR : R s a) (ht : t < s.pcs.length) {a' : AState K V} {sh' : Shared K V} {pc' : Pc K V}
    (hle : ∀ u, u ≠ t → SeenLe (a.pcs u) (a'.pcs u))
    (hobs : Obs a'.obj a'.pcs)
    (hgs : GS sh' (unprocessed (setPc s t sh' pc')))
    (hmu : ∀ u, sh'.mu = some u → u < s.pcs.length)
    (habs : ∀ k, a'.obj k = absOf sh' k)
    (hself : T sh' t pc' (a'.pcs t))
    (hothers : ∀ u, u ≠ t → T sh' u (s.pc u) (a.pcs u))
    (hunl : unlinkedPc pc' (a'.pcs t) = []) :
    R (setPc s t sh' pc') a' := by
  apply R_of_parts
  · rw [G_iff]
    refine ⟨hgs, ⟨?_, ?_⟩⟩
    · intro u hu
      rw [setPc_pcs_length]
      exact hmu u hu
    · apply hR.g.unlinked_setPc sh'
      · intro u hu
        exact unlinkedPc_seenLe (hle u hu) _
      · intro e he
        rw [hunl] at he
        cases he
  · exact habs
  · intro u
    simp only [setPc_sh]
    by_cases hut : u = t
    · subst hut
      rw [pc_setPc_self ht]
      exact hself
    · rw [pc_setPc_ne hut]
      exact T_mono (hothers u hut) (hle u hut)
  · exact hobs

omit [Inhabited V] [DecidableEq K] [DecidableEq V] in
theorem Pend.exists_pending {q : APc K V} {op : Op K V} (h : Pend q op) : ∃ seen, q = .pending op seen := by
  cases q with
  | idle => exact h.elim
  | done op' r' => exact h.elim
  | pending op' seen =>
    have : op' = op := h
    subst this
    exact ⟨seen, rfl⟩

omit [Inhabited V] in
/-- the stepping goroutine owns the mutex and is not a builder before or after the step: `GS` for the empty
unprocessed set is what `G` of the successor needs -/
theorem GS_setPc_of_own (hR : R s a) (ht : t < s.pcs.length) (ho : Own s.sh t) {sh' : Shared K V} {pc' : Pc K V}
    (hp' : unprocPc pc' = []) (h : GS sh' []) : GS sh' (unprocessed (setPc s t sh' pc')) := by
  apply h.congr
  intro p
  rw [mem_unprocessed_setPc_of_own hR.thr ho ht, hp']

omit [Inhabited V] in
/-- the stepping goroutine does not own the mutex: the unprocessed set keeps its members -/
theorem GS_setPc_of_not_own (hR : R s a) (ho : ¬ Own s.sh t) {sh' : Shared K V} {pc' : Pc K V}
    (hp' : unprocPc pc' = []) (h : GS sh' (unprocessed s)) : GS sh' (unprocessed (setPc s t sh' pc')) := by
  apply h.congr
  intro p
  exact mem_unprocessed_setPc_of_not_own hR.thr ho hp'

omit [Inhabited V] in
theorem GS_nil_of_own (hR : R s a) (ho : Own s.sh t) (hp : unprocPc (s.pc t) = []) : GS s.sh [] := by
  have h := ((G_iff s a.pcs).mp hR.g).1
  rw [unprocessed_eq_nil_of_own hR.thr ho hp] at h
  exact h

omit [Inhabited V] in
theorem unlinkedPc_storeLocked (k : K) (v : V) (e : EId) (q : APc K V) :
    unlinkedPc (.storeLocked k v e : Pc K V) q = [] := by
  cases q <;> rfl

omit [Inhabited V] in
/-- The linearization step of a pending `Store k v` that returns at once: the shared state afterwards stands for
`put (absOf s.sh) k v`, `t` does not hold the mutex, the bystanders keep `T`. -/
theorem R_lin_store (hR : R s a) (ht : t < s.pcs.length) {k : K} {v : V}
    (hpend : Pend (a.pcs t) (.store k v)) (hlin : isLin s.sh (s.pc t) (a.pcs t) = true)
    {sh' : Shared K V}
    (hgs : GS sh' (unprocessed (setPc s t sh' (.ret .done))))
    (hmu : ∀ u, sh'.mu = some u → u < s.pcs.length)
    (habs : ∀ k', absOf sh' k' = if k' = k then some v else absOf s.sh k')
    (hno : ¬ Own sh' t)
    (hothers : ∀ u, u ≠ t → T sh' u (s.pc u) (a.pcs u)) :
    R (setPc s t sh' (.ret .done)) (witness s t none a) := by
  obtain ⟨seen, hq⟩ := hpend.exists_pending
  have happ : applyOp a.obj (.store k v) = [(put a.obj k v, .done)] := applyOp_store_eq.mpr ⟨rfl, rfl⟩
  apply R_step_core hR ht
  · intro u hu
    rw [witness_pcs_lin_other s t a hlin hq happ hu]
    exact SeenLe_observePc _ _
  · exact obs_witness _ _ _ _
  · exact hgs
  · exact hmu
  · intro k'
    rw [witness_obj_lin s t a hlin hq happ, put_apply, habs k', hR.abs k']
  · rw [witness_pcs_lin_self s t a hlin hq happ, T_ret_iff (by intro l h; cases h)]
    exact ⟨rfl, hno⟩
  · exact hothers
  · rw [unlinkedPc_ret]

omit [Inhabited V] in
/-- a non-linearization step of `t` that changes the shared state but not the abstraction -/
theorem R_tau_core (hR : R s a) (ht : t < s.pcs.length) (hlin : isLin s.sh (s.pc t) (a.pcs t) = false)
    {sh' : Shared K V} {pc' : Pc K V}
    (hgs : GS sh' (unprocessed (setPc s t sh' pc')))
    (hmu : ∀ u, sh'.mu = some u → u < s.pcs.length)
    (habs : ∀ k', absOf sh' k' = absOf s.sh k')
    (hself : T sh' t pc' (a.pcs t))
    (hothers : ∀ u, u ≠ t → T sh' u (s.pc u) (a.pcs u))
    (hunl : ∀ q, unlinkedPc pc' q = []) :
    R (setPc s t sh' pc') (witness s t none a) := by
  apply R_step_core hR ht
  · intro u hu
    rw [witness_pcs_tau s t a hlin]
    exact SeenLe_observePc _ _
  · exact obs_witness _ _ _ _
  · exact hgs
  · exact hmu
  · intro k'
    rw [witness_obj_tau s t a hlin, hR.abs k', habs k']
  · rw [witness_pcs_tau s t a hlin]
    exact T_observePc hself _
  · exact hothers
  · exact hunl _

/-! ### `newTail` -/

omit [DecidableEq V] [Inhabited V] in
theorem newTail_of_dirty_some {sh : Shared K V} (ha : sh.amended = false) (hds : sh.dirty.isSome = true)
    (c : NewCtx) (k : K) (v : V) : newTail sh c k v = (sh, .readStore c k v sh.readM) := by
  simp [newTail, ha, hds]

omit [DecidableEq V] [Inhabited V] in
theorem newTail_of_dirty_none {sh : Shared K V} (ha : sh.amended = false) (hds : sh.dirty.isSome = false)
    (c : NewCtx) (k : K) (v : V) : newTail sh c k v = (sh, .dirtyRead c k v sh.readM) := by
  simp [newTail, ha, hds]

omit [DecidableEq V] [Inhabited V] in
theorem newTail_of_amended {sh : Shared K V} (ha : sh.amended = true)
    (c : NewCtx) (k : K) (v : V) : newTail sh c k v = finishNew sh c k v := by
  simp [newTail, ha]

/-! ### `tryStoreCas` -/

theorem stepOK_tryStoreCas {k : K} {v : V} {e : EId} {p : Ptr V} (hR : R s a) (ht : t < s.pcs.length)
    (hpc : s.pc t = .tryStoreCas k v e p) : StepOK menu s a t := by
  have hT := hR.thr t
  rw [hpc] at hT
  simp only [T] at hT
  obtain ⟨hpend, hown, hhold, hpx⟩ := hT
  apply stepOK_of_internal hR ht (by rw [hpc]; simp) (by rw [hpc]; simp) _ (pickOK_of_nil (by rw [hpc]; rfl))
  intro sh' pc' hex
  rw [hpc] at hex
  simp only [exec] at hex
  cases hs : (getP s.sh e).same p with
  | false =>
    simp only [hs, Bool.false_eq_true, if_false, Option.some.injEq, Prod.mk.injEq] at hex
    obtain ⟨rfl, rfl⟩ := hex
    have hlin : isLin s.sh (s.pc t) (a.pcs t) = false := by rw [hpc]; exact hs
    refine R_quiet_same hR ht hlin ?_ ?_ ?_
    · simp only [T]
      exact ⟨hpend, hown, hhold⟩
    · intro q hq; rw [hpc] at hq; cases hq
    · intro e' he
      rw [unlinkedPc_of_pend hpend (by intro d k e h; cases h)] at he
      cases he
  | true =>
    simp only [hs, if_true, Option.some.injEq, Prod.mk.injEq] at hex
    obtain ⟨rfl, rfl⟩ := hex
    have hlin : isLin s.sh (s.pc t) (a.pcs t) = true := by rw [hpc]; exact hs
    have hx : (getP s.sh e).isExpunged = false := by rw [same_isExpunged hs]; exact hpx
    have hcur : Cur s.sh k e := Cur_of_read (hhold.read_of_not_expunged hx)
    have hG := (G_iff s a.pcs).mp hR.g
    obtain ⟨hTall, hGS, hA⟩ := storeVal_all hG.1 hR.thr v hx hcur
    apply R_lin_store hR ht hpend hlin
    · exact GS_setPc_of_not_own hR hown rfl hGS
    · intro u hu
      exact hR.g.muBound u hu
    · exact hA
    · exact hown
    · intro u _
      exact hTall u

/-! ### `storeLocked` -/

theorem stepOK_storeLocked {k : K} {v : V} {e : EId} (hR : R s a) (ht : t < s.pcs.length)
    (hpc : s.pc t = .storeLocked k v e) : StepOK menu s a t := by
  have hT := hR.thr t
  rw [hpc] at hT
  simp only [T] at hT
  obtain ⟨hpend, hown, htgt⟩ := hT
  apply stepOK_of_internal hR ht (by rw [hpc]; simp) (by rw [hpc]; simp) _ (pickOK_of_nil (by rw [hpc]; rfl))
  intro sh' pc' hex
  rw [hpc] at hex
  simp only [exec, Option.some.injEq, Prod.mk.injEq] at hex
  obtain ⟨rfl, rfl⟩ := hex
  have hlin : isLin s.sh (s.pc t) (a.pcs t) = true := by rw [hpc]; rfl
  have hG := (G_iff s a.pcs).mp hR.g
  have hnil : unprocessed s = [] := unprocessed_eq_nil_of_own hR.thr hown (by rw [hpc]; rfl)
  have hx : (getP s.sh e).isExpunged = false := htgt.not_expunged hG.1
  obtain ⟨hTall, hGS, hA⟩ := storeVal_all hG.1 hR.thr v hx htgt.cur
  apply R_lin_store hR ht hpend hlin
  · apply GS_setPc_of_own hR ht hown rfl
    rw [GS_unlock_iff]
    rw [hnil] at hGS
    exact hGS
  · intro u hu
    cases hu
  · intro k'
    rw [absOf_unlock]
    exact hA k'
  · exact Own_unlock _ _
  · intro u hu
    exact T_unlock_of (hTall u) (by rw [Own_storeVal]; exact not_Own_of_ne hown hu)

/-! ### `storeUnexp` -/

theorem stepOK_storeUnexp {k : K} {v : V} {e : EId} (hR : R s a) (ht : t < s.pcs.length)
    (hpc : s.pc t = .storeUnexp k v e) : StepOK menu s a t := by
  have hT := hR.thr t
  rw [hpc] at hT
  simp only [T] at hT
  obtain ⟨hpend, hown, hr⟩ := hT
  have hlin : isLin s.sh (s.pc t) (a.pcs t) = false := by rw [hpc]; rfl
  apply stepOK_of_internal hR ht (by rw [hpc]; simp) (by rw [hpc]; simp) _ (pickOK_of_nil (by rw [hpc]; rfl))
  intro sh' pc' hex
  rw [hpc] at hex
  simp only [exec] at hex
  cases hx : (getP s.sh e).isExpunged with
  | false =>
    simp only [hx, Bool.false_eq_true, if_false, Option.some.injEq, Prod.mk.injEq] at hex
    obtain ⟨rfl, rfl⟩ := hex
    refine R_quiet_same hR ht hlin ?_ ?_ ?_
    · simp only [T]
      exact ⟨hpend, hown, Or.inl ⟨hr, hx⟩⟩
    · intro q hq; rw [hpc] at hq; cases hq
    · intro e' he
      rw [unlinkedPc_storeLocked] at he
      cases he
  | true =>
    simp only [hx, if_true, Option.some.injEq, Prod.mk.injEq] at hex
    obtain ⟨rfl, rfl⟩ := hex
    have hG := (G_iff s a.pcs).mp hR.g
    have hnil : unprocessed s = [] := unprocessed_eq_nil_of_own hR.thr hown (by rw [hpc]; rfl)
    have hempty : ∀ q, q ∉ unprocessed s := by
      intro q hq; rw [hnil] at hq; cases hq
    obtain ⟨hTo, hGS, ⟨_, _, hf3, _⟩, hA⟩ := unexp_all hG.1 hR.thr hown hempty hr hx
    apply R_tau_core hR ht hlin
    · apply GS_setPc_of_own hR ht hown rfl
      rw [hnil] at hGS
      exact hGS
    · intro u hu
      rw [unexp_mu] at hu
      exact hR.g.muBound u hu
    · exact hA
    · simp only [T]
      refine ⟨hpend, ?_, Or.inl ⟨by rw [unexp_readM]; exact hr, hf3⟩⟩
      show (setDirty (setP s.sh e .nil) k e).mu = some t
      rw [unexp_mu]
      exact hown
    · exact hTo
    · exact unlinkedPc_storeLocked k v e

/-! ### `storeRead2` -/

theorem stepOK_storeRead2 {k : K} {v : V} (hR : R s a) (ht : t < s.pcs.length)
    (hpc : s.pc t = .storeRead2 k v) : StepOK menu s a t := by
  have hT := hR.thr t
  rw [hpc] at hT
  simp only [T] at hT
  obtain ⟨hpend, hown⟩ := hT
  have hunp : ∀ pc' : Pc K V, ∀ p, p ∈ unprocPc (s.pc t) → p ∈ unprocPc pc' := by
    intro pc' p hp; rw [hpc] at hp; cases hp
  have hunl : ∀ pc' : Pc K V, (∀ d k e, pc' ≠ .ladMiss d k e) →
      ∀ e ∈ unlinkedPc pc' (a.pcs t), e ∈ unlinkedPc (s.pc t) (a.pcs t) := by
    intro pc' h e he; rw [unlinkedPc_of_pend hpend h] at he; cases he
  apply stepOK_of_internal hR ht (by rw [hpc]; simp) (by rw [hpc]; simp) _ (pickOK_of_nil (by rw [hpc]; rfl))
  intro sh' pc' hex
  rw [hpc] at hex
  simp only [exec] at hex
  cases hr : alookup k s.sh.readM with
  | some e =>
    simp only [hr, Option.some.injEq, Prod.mk.injEq] at hex
    obtain ⟨rfl, rfl⟩ := hex
    have hlin : isLin s.sh (s.pc t) (a.pcs t) = false := by rw [hpc]; simp [isLin, hr]
    refine R_quiet_same hR ht hlin ?_ (hunp _) (hunl _ (by intro d k e h; cases h))
    simp only [T]
    exact ⟨hpend, hown, hr⟩
  | none =>
    cases hd : alookup k (dirtyMap s.sh) with
    | some e =>
      simp only [hr, hd, Option.some.injEq, Prod.mk.injEq] at hex
      obtain ⟨rfl, rfl⟩ := hex
      have hlin : isLin s.sh (s.pc t) (a.pcs t) = false := by rw [hpc]; simp [isLin, hr, hd]
      refine R_quiet_same hR ht hlin ?_ (hunp _) (hunl _ (by intro d k e h; cases h))
      simp only [T]
      exact ⟨hpend, hown, Or.inr ⟨hr, hd⟩⟩
    | none =>
      simp only [hr, hd, Option.some.injEq] at hex
      cases ha : s.sh.amended with
      | false =>
        have hlin : isLin s.sh (s.pc t) (a.pcs t) = false := by rw [hpc]; simp [isLin, hr, hd, ha]
        cases hds : s.sh.dirty.isSome with
        | true =>
          rw [newTail_of_dirty_some ha hds, Prod.mk.injEq] at hex
          obtain ⟨rfl, rfl⟩ := hex
          refine R_quiet_same hR ht hlin ?_ (hunp _) (hunl _ (by intro d k e h; cases h))
          simp only [T]
          exact ⟨⟨hpend, hown, rfl, ha, hr⟩, hds⟩
        | false =>
          rw [newTail_of_dirty_none ha hds, Prod.mk.injEq] at hex
          obtain ⟨rfl, rfl⟩ := hex
          refine R_quiet_same hR ht hlin ?_ (hunp _) (hunl _ (by intro d k e h; cases h))
          simp only [T]
          refine ⟨⟨hpend, hown, rfl, ha, hr⟩, ?_⟩
          cases hdd : s.sh.dirty with
          | none => rfl
          | some d => rw [hdd] at hds; cases hds
      | true =>
        have hlin : isLin s.sh (s.pc t) (a.pcs t) = true := by rw [hpc]; simp [isLin, hr, hd, ha]
        rw [newTail_of_amended ha] at hex
        have h1 : sh' = (finishNew s.sh .store k v).1 := by rw [hex]
        have h2 : pc' = .ret .done := (congrArg Prod.snd hex).symm
        subst h1 h2
        have hds : s.sh.dirty.isSome = true := hR.g.dirty_isSome_of_amended ha
        have hG0 : GS s.sh [] := GS_nil_of_own hR hown (by rw [hpc]; rfl)
        apply R_lin_store hR ht hpend hlin
        · exact GS_setPc_of_own hR ht hown rfl (GS_finishNew hG0 hds ha hr hd .store v)
        · intro u hu
          cases hu
        · exact absOf_finishNew hG0 hds ha hr .store v
        · exact Own_unlock _ _
        · exact bystanders_finishNew hR.thr hown hds hd .store v
