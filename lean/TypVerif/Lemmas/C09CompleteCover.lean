import TypVerif.Lemmas.C09CompleteFwd
import TypVerif.Lemmas.C09CompleteClose
import TypVerif.Lemmas.C09AcceptJudge
/-
Acceptance completeness for the judge `Drv/C09.lean`: the judge's state set COVERS the model state through every step.

The model runs with a fixed number `N` of goroutines, the judge pads its thread tables lazily; a model state `a` is covered by the
set `ss` when `a` is `padBy k b` (`k` more idle goroutines) for a state `b` that some member `x` of `ss` stands for (`R b x`).
  * an internal step of the model keeps the state covered when `ss` is closed under normalised internal steps (`Sat`);
  * a visible step `e` of the model leads to a state covered by `advance false rw ss e` (what `Drv.C09.modelStep` computes).
-/
namespace TypVerif.Lemmas.C09Complete
open TypVerif TypVerif.Conc TypVerif.Model.KeyedMutex TypVerif.Drv.C09
open TypVerif.Lemmas.KeyedMutex TypVerif.Lemmas.C09Accept

/-- the set `ss` of judge states covers the model state `a` -/
def Cover (ss : List State) (a : State) : Prop :=
  ∃ (b : State) (k : Nat) (x : State), a = padBy k b ∧ x ∈ ss ∧ R b x

/-! ### labels of `stepT` -/

theorem padBy_pc_ge (k : Nat) (s : State) (t : Nat) (ht : s.pcs.length ≤ t) : (padBy k s).pc t = .idle := by
  unfold State.pc padBy
  simp only [List.getD_eq_getElem?_getD]
  rw [List.getElem?_append_right ht]
  cases h : (List.replicate k Pc.idle)[t - s.pcs.length]? with
  | none => rfl
  | some p =>
    have := List.mem_of_getElem? h
    rw [(List.mem_replicate.1 this).2]
    rfl

/-- a visible step of goroutine `t` is an event of goroutine `t`, and is possible with the alphabet of that event alone -/
theorem stepT_some {rw g : Bool} {ops : List Op} {s s' : State} {t : Nat} {e : Event}
    (h : (some e, s') ∈ stepT rw g ops s t) : evT e = t ∧ (some e, s') ∈ stepT rw g (evOps e) s t := by
  cases hpc : s.pc t with
  | idle =>
    rw [sim_stepT_idle hpc] at h
    simp only [List.mem_map, List.mem_filter] at h
    obtain ⟨op, ⟨_, hok⟩, he⟩ := h
    obtain ⟨he1, he2⟩ := Prod.mk.inj he
    cases he1
    refine ⟨rfl, ?_⟩
    rw [sim_stepT_idle hpc]
    simp only [evOps, List.mem_map, List.mem_filter]
    exact ⟨op, ⟨List.mem_singleton.2 rfl, hok⟩, by rw [he2]⟩
  | los kd k =>
    rw [sim_stepT_los hpc] at h
    unfold losStep at h
    split at h
    · split at h
      · cases List.mem_singleton.1 h
      · cases h
    · split at h <;> cases List.mem_singleton.1 h
  | act kd k m =>
    rw [sim_stepT_act hpc] at h
    unfold actStep at h
    split at h
    · split at h
      · cases List.mem_singleton.1 h
      · split at h
        · cases List.mem_singleton.1 h
        · cases h
    · split at h <;> cases List.mem_singleton.1 h
    · split at h <;> cases List.mem_singleton.1 h
    · split at h
      · cases List.mem_singleton.1 h
      · cases h
    · split at h <;> cases List.mem_singleton.1 h
    · cases List.mem_singleton.1 h
    · cases h
  | ann k m => rw [sim_stepT_ann hpc] at h; cases List.mem_singleton.1 h
  | wait k m =>
    rw [sim_stepT_wait hpc] at h
    split at h
    · cases List.mem_singleton.1 h
    · cases h
  | rel k m => rw [sim_stepT_rel hpc] at h; cases List.mem_singleton.1 h
  | ret r =>
    rw [sim_stepT_ret hpc] at h
    obtain ⟨he1, he2⟩ := Prod.mk.inj (List.mem_singleton.1 h)
    cases he1
    rw [sim_stepT_ret hpc]
    exact ⟨rfl, List.mem_singleton.2 (by rw [he2])⟩

/-- an internal step does not depend on the alphabet, and is not a step of an idle goroutine -/
theorem stepT_none {rw g : Bool} {ops : List Op} {s s' : State} {t : Nat}
    (h : (none, s') ∈ stepT rw g ops s t) : s.pc t ≠ .idle ∧ (none, s') ∈ stepT rw g [] s t := by
  cases hpc : s.pc t with
  | idle =>
    rw [sim_stepT_idle hpc] at h
    simp only [List.mem_map] at h
    obtain ⟨op, _, he⟩ := h
    cases (Prod.mk.inj he).1
  | los kd k => rw [sim_stepT_los hpc] at h ⊢; exact ⟨fun h' => (by cases h'), h⟩
  | act kd k m => rw [sim_stepT_act hpc] at h ⊢; exact ⟨fun h' => (by cases h'), h⟩
  | ann k m => rw [sim_stepT_ann hpc] at h ⊢; exact ⟨fun h' => (by cases h'), h⟩
  | wait k m => rw [sim_stepT_wait hpc] at h ⊢; exact ⟨fun h' => (by cases h'), h⟩
  | rel k m => rw [sim_stepT_rel hpc] at h ⊢; exact ⟨fun h' => (by cases h'), h⟩
  | ret r => rw [sim_stepT_ret hpc] at h ⊢; exact ⟨fun h' => (by cases h'), h⟩

theorem succ_some_evOps {rw g : Bool} {ops : List Op} {s s' : State} {e : Event}
    (h : (some e, s') ∈ succ rw g ops s) : (some e, s') ∈ succ rw g (evOps e) s := by
  obtain ⟨t, ht, hs⟩ := KeyedMutex.mem_succ.mp h
  exact KeyedMutex.mem_succ.mpr ⟨t, ht, (stepT_some hs).2⟩

theorem succ_none_nil {rw g : Bool} {ops : List Op} {s s' : State}
    (h : (none, s') ∈ succ rw g ops s) : (none, s') ∈ succ rw g [] s := by
  obtain ⟨t, ht, hs⟩ := KeyedMutex.mem_succ.mp h
  exact KeyedMutex.mem_succ.mpr ⟨t, ht, (stepT_none hs).2⟩

/-! ### steps of a padded state -/

/-- a step of goroutine `t` of `padBy k b` with `t` inside `b` is the padding of a step of `b` -/
theorem stepT_padBy_inv {rw g : Bool} {ops : List Op} {k : Nat} {b a' : State} {t : Nat} {l : Option Event}
    (ht : t < b.pcs.length) (h : (l, a') ∈ stepT rw g ops (padBy k b) t) :
    ∃ b', a' = padBy k b' ∧ (l, b') ∈ stepT rw g ops b t := by
  rw [stepT_padBy rw g ops k b t ht] at h
  obtain ⟨p, hp, he⟩ := List.mem_map.1 h
  obtain ⟨l', b'⟩ := p
  obtain ⟨h1, h2⟩ := Prod.mk.inj he
  simp only at h1 h2
  subst h1
  exact ⟨b', h2.symm, hp⟩

/-! ### internal steps -/

theorem cover_internal {rw : Bool} {ops : List Op} {ss : List State} {a a' : State}
    (hsat : Sat rw ss) (hc : Cover ss a) (h : (none, a') ∈ succ rw true ops a) : Cover ss a' := by
  obtain ⟨b, k, x, rfl, hx, hr⟩ := hc
  obtain ⟨t, ht, hs⟩ := KeyedMutex.mem_succ.mp h
  by_cases htb : t < b.pcs.length
  · obtain ⟨b', rfl, hb'⟩ := stepT_padBy_inv htb hs
    obtain ⟨z, hz, hr'⟩ := R_succ_fwd hr (KeyedMutex.mem_succ.mpr ⟨t, htb, hb'⟩)
    exact ⟨b', k, norm z, rfl, hsat x hx _ (mem_intNexts (succ_none_nil hz)), R_norm hr'⟩
  · exact absurd (padBy_pc_ge k b t (Nat.le_of_not_lt htb)) (stepT_none hs).1

/-! ### visible steps -/

theorem cover_visible {rw : Bool} {ops : List Op} {ss : List State} {a a' : State} {e : Event}
    (hc : Cover ss a) (h : (some e, a') ∈ succ rw true ops a) : Cover (advance false rw ss e) a' := by
  obtain ⟨b, k, x, rfl, hx, hr⟩ := hc
  obtain ⟨t, ht, hs⟩ := KeyedMutex.mem_succ.mp h
  have het : evT e = t := (stepT_some hs).1
  have hlen : (padBy k b).pcs.length = b.pcs.length + k := by simp [padBy]
  rw [hlen] at ht
  -- split the padding: `pad t b` first, the rest afterwards
  have hsplit : padBy k b = padBy (k - (t + 1 - b.pcs.length)) (pad t b) := by
    rw [pad_eq_padBy, padBy_padBy]
    congr 1
    omega
  have htb : t < (pad t b).pcs.length := by
    rw [pad_eq_padBy]
    simp [padBy]
    omega
  rw [hsplit] at hs
  obtain ⟨b', rfl, hb'⟩ := stepT_padBy_inv htb hs
  obtain ⟨z, hz, hr'⟩ := R_succ_fwd (R_pad t hr) (KeyedMutex.mem_succ.mpr ⟨t, htb, hb'⟩)
  refine ⟨b', _, norm z, rfl, ?_, R_norm hr'⟩
  show norm z ∈ Drv.C09.stepEvent rw (evOps e) (ss.map (pad (evT e))) e
  rw [het]
  exact (stepEvent_complete rw (evOps e) (ss.map (pad t)) e).1 (pad t x) (List.mem_map.2 ⟨x, hx, rfl⟩) z
    (succ_some_evOps hz)

/-- the set the judge computes for an event is closed under normalised internal steps when it has at most `closeBudget` states -/
theorem sat_advance (rw : Bool) (ss : List State) (e : Event)
    (h : (advance false rw ss e).length ≤ closeBudget) : Sat rw (advance false rw ss e) :=
  (stepEvent_complete rw (evOps e) (ss.map (pad (evT e))) e).2 h

/-! ### the initial state -/

theorem sat_init (rw : Bool) : Sat rw [init 0] := by
  intro y hy z hz
  rw [List.mem_singleton.1 hy] at hz
  simp [intNexts, succ, init] at hz

theorem cover_init (N : Nat) : Cover [init 0] (init N) :=
  ⟨init 0, N, init 0, by rw [padBy_init, Nat.zero_add], List.mem_singleton.2 rfl, R_refl (wf_init 0)⟩

end TypVerif.Lemmas.C09Complete
