import TypVerif.Lemmas.C09CompleteCover
/-
Acceptance completeness for the judge `Drv/C09.lean`: the fold of `Drv.C09.step false` over the lines of a scenario follows every
execution of the model.
-/
namespace TypVerif.Lemmas.C09Complete
open TypVerif TypVerif.Conc TypVerif.Model.KeyedMutex TypVerif.Drv.C09 TypVerif.Proto
open TypVerif.Lemmas.KeyedMutex TypVerif.Lemmas.C09Accept

/-! ### `step` on an event line: the converse of `step_parsed` -/

theorem modelStep_complete (ref : Bool) (st : St) (t : Nat) (ops : List Op) (e : Event) (name : String)
    (hr : st.rejected = none) :
    (modelStep ref st t ops e name).1.ss =
        (if ref then Conc.stepEvent (sys st.rw 0 ops) 64 (st.ss.map (pad t)) e
         else Drv.C09.stepEvent st.rw ops (st.ss.map (pad t)) e) ∧
    ((if ref then Conc.stepEvent (sys st.rw 0 ops) 64 (st.ss.map (pad t)) e
         else Drv.C09.stepEvent st.rw ops (st.ss.map (pad t)) e) ≠ [] →
      (modelStep ref st t ops e name).1.rejected = none) := by
  unfold modelStep
  rw [hr]
  simp only
  generalize (if ref then Conc.stepEvent (sys st.rw 0 ops) 64 (st.ss.map (pad t)) e
         else Drv.C09.stepEvent st.rw ops (st.ss.map (pad t)) e) = adv
  cases adv with
  | nil => exact ⟨rfl, fun h => absurd rfl h⟩
  | cons y ys => exact ⟨rfl, fun _ => rfl⟩

/-- on a line that stands for an event, a judge that has not rejected either is (or goes) outside the property and still has not
rejected, or it computes `advance` and rejects only if that set is empty -/
theorem step_parsed_complete (ref : Bool) (st : St) (toks : List Val) (impl : String) (e : Event)
    (hp : lineEvent toks = some e) (hst : st.started = true) (hrej : st.rejected = none) :
    ((step ref st toks impl).1.outside = true ∧ (step ref st toks impl).1.rejected = none) ∨
    ((step ref st toks impl).1.outside = false ∧ st.outside = false ∧
      (step ref st toks impl).1.ss = advance ref st.rw st.ss e ∧
      (advance ref st.rw st.ss e ≠ [] → (step ref st toks impl).1.rejected = none)) := by
  unfold lineEvent at hp
  split at hp
  · -- inv
    rename_i t kd k
    split at hp
    · rename_i kind hkind
      split at hp
      · cases hp
      · rename_i hneg
        simp only [Option.some.injEq] at hp
        subst hp
        simp only [step, hst, hkind, hneg, Bool.false_eq_true, if_false]
        split
        · exact Or.inl ⟨rfl, hrej⟩
        · rename_i hout
          have hout' : st.outside = false := by
            cases ho : st.outside with
            | false => rfl
            | true => simp [ho] at hout
          obtain ⟨m1, m2, m3, _⟩ := modelStep_model ref st t.toNat [⟨kind, k.toNat⟩] (.inv t.toNat ⟨kind, k.toNat⟩)
            s!"inv_{t.toNat}_{kd}_{k.toNat}"
          obtain ⟨c1, c2⟩ := modelStep_complete ref st t.toNat [⟨kind, k.toNat⟩] (.inv t.toNat ⟨kind, k.toNat⟩)
            s!"inv_{t.toNat}_{kd}_{k.toNat}" hrej
          obtain ⟨s1, s2, s3, s4, s5⟩ := specInv_model
            (modelStep ref st t.toNat [⟨kind, k.toNat⟩] (.inv t.toNat ⟨kind, k.toNat⟩) s!"inv_{t.toNat}_{kd}_{k.toNat}").1
            t.toNat kind k.toNat
          simp only
          refine Or.inr ⟨by rw [s5, m3]; exact hout', hout', by rw [s3]; exact c1, fun h => ?_⟩
          rw [s4]
          exact c2 h
    · cases hp
  · -- res
    rename_i t r
    split at hp
    · rename_i res hres
      split at hp
      · cases hp
      · rename_i hneg
        simp only [Option.some.injEq] at hp
        subst hp
        simp only [step, hst, hres, hneg, if_false]
        split
        · rename_i hout
          exact Or.inl ⟨hout, hrej⟩
        · rename_i hout
          have hout' : st.outside = false := by
            cases ho : st.outside with
            | false => rfl
            | true => exact absurd ho hout
          obtain ⟨m1, m2, m3, _⟩ := modelStep_model ref st t.toNat [] (.res t.toNat res) s!"res_{t.toNat}_{r}"
          obtain ⟨c1, c2⟩ := modelStep_complete ref st t.toNat [] (.res t.toNat res) s!"res_{t.toNat}_{r}" hrej
          obtain ⟨s1, s2, s3, s4, s5⟩ := specRes_model
            (modelStep ref st t.toNat [] (.res t.toNat res) s!"res_{t.toNat}_{r}").1 t.toNat res
          simp only
          refine Or.inr ⟨by rw [s5, m3]; exact hout', hout', by rw [s3]; exact c1, fun h => ?_⟩
          rw [s4]
          exact c2 h
    · cases hp
  · cases hp

/-! ### the fold -/

/-- invariant of the fold along a model execution: the judge has not rejected, and — while it is inside the property — its state
set is closed under normalised internal steps and covers the current model state -/
def Follows (rw : Bool) (st : St) (a : State) : Prop :=
  st.started = true ∧ st.rw = rw ∧ st.rejected = none ∧ (st.outside = false → Sat rw st.ss ∧ Cover st.ss a)

/-- the budget condition: the state sets the judge has after every non-empty prefix of the lines have at most `closeBudget` states -/
def WithinBudget (st : St) (lines : List (List Val × String)) : Prop :=
  ∀ l1 l2, lines = l1 ++ l2 → (runLines false st l1).ss.length ≤ closeBudget

theorem withinBudget_tail {st : St} {l : List Val × String} {lines : List (List Val × String)}
    (h : WithinBudget st (l :: lines)) : WithinBudget (step false st l.1 l.2).1 lines := by
  intro l1 l2 he
  have := h (l :: l1) l2 (by rw [he]; rfl)
  simpa [runLines] using this

theorem follows_runLines {rw : Bool} {ops : List Op} {a a' : State} {ls : List (Option Event)}
    (hex : Ex rw ops a ls a') :
    ∀ (st : St) (lines : List (List Val × String)), Follows rw st a →
      lines.map (fun l => lineEvent l.1) = (visible ls).map some → WithinBudget st lines →
      Follows rw (runLines false st lines) a' := by
  induction hex with
  | nil s =>
    intro st lines hf hp _
    cases lines with
    | nil => exact hf
    | cons _ _ => simp [visible] at hp
  | @cons s s' s'' l ls hstep _ ih =>
    intro st lines hf hp hb
    obtain ⟨f1, f2, f3, f4⟩ := hf
    cases l with
    | none =>
      have hv : visible (none :: ls) = visible ls := rfl
      rw [hv] at hp
      exact ih st lines ⟨f1, f2, f3, fun ho => ⟨(f4 ho).1, cover_internal (f4 ho).1 (f4 ho).2 hstep⟩⟩ hp hb
    | some e =>
      have hv : visible (some e :: ls) = e :: visible ls := rfl
      rw [hv] at hp
      cases lines with
      | nil => simp at hp
      | cons l lines =>
        simp only [List.map_cons, List.cons.injEq] at hp
        obtain ⟨hpe, hp⟩ := hp
        obtain ⟨p1, p2, _, _, _⟩ := step_parsed false st l.1 l.2 e hpe f1
        have hrun : runLines false st (l :: lines) = runLines false (step false st l.1 l.2).1 lines := rfl
        rw [hrun]
        apply ih _ lines ?_ hp (withinBudget_tail hb)
        rcases step_parsed_complete false st l.1 l.2 e hpe f1 f3 with ⟨q1, q2⟩ | ⟨q1, q2, q3, q4⟩
        · refine ⟨p1, by rw [p2, f2], q2, fun ho => ?_⟩
          rw [q1] at ho
          cases ho
        · rw [f2] at q3 q4
          have hc : Cover (advance false rw st.ss e) s' := cover_visible (f4 q2).2 hstep
          have hne : advance false rw st.ss e ≠ [] := by
            obtain ⟨_, _, x, _, hx, _⟩ := hc
            exact List.ne_nil_of_mem hx
          have hlen := hb [l] lines rfl
          have hrun1 : runLines false st [l] = (step false st l.1 l.2).1 := rfl
          rw [hrun1, q3] at hlen
          refine ⟨p1, by rw [p2, f2], q4 hne, fun _ => ?_⟩
          rw [q3]
          exact ⟨sat_advance rw st.ss e hlen, hc⟩

/-- the judge state after the header follows the initial state of the model, whatever its number of goroutines -/
theorem follows_header (rwi : Int) (N : Nat) :
    Follows (rwi != 0) ({ started := true, rw := rwi != 0, ss := [init 0] } : St) (init N) :=
  ⟨rfl, rfl, rfl, fun _ => ⟨sat_init _, cover_init N⟩⟩

/-- **completeness of the fold**: the lines of the visible trace of an execution of the model are not rejected, provided the
judge's state sets stay within the budget of its closure -/
theorem fold_complete (st0 : St) (rwi : Int) (impl0 : String) (N : Nat) (ops : List Op)
    (ls : List (Option Event)) (s : State) (hex : Ex (rwi != 0) ops (init N) ls s)
    (lines : List (List Val × String))
    (hp : lines.map (fun l => lineEvent l.1) = (visible ls).map some)
    (hb : WithinBudget (step false st0 [.w "km", .i rwi] impl0).1 lines) :
    Follows (rwi != 0) (runLines false (step false st0 [.w "km", .i rwi] impl0).1 lines) s := by
  rw [step_header] at hb ⊢
  exact follows_runLines hex _ lines (follows_header rwi N) hp hb

/-! ### the closure reaches everything internally reachable -/

/-- a set closed under normalised internal steps covers every model state reachable by internal steps from a covered one -/
theorem cover_tau {rw : Bool} {ops : List Op} {ss : List State} {a a' : State} {ls : List (Option Event)}
    (hsat : Sat rw ss) (hex : Ex rw ops a ls a') (hv : visible ls = []) (hc : Cover ss a) : Cover ss a' := by
  induction hex with
  | nil s => exact hc
  | @cons s s' s'' l ls hstep _ ih =>
    cases l with
    | none => exact ih hv (cover_internal hsat hc hstep)
    | some e => simp [visible] at hv

/-! ### the outputs -/

theorem modelStep_ok (ref : Bool) (st : St) (t : Nat) (ops : List Op) (e : Event) (name : String) :
    (modelStep ref st t ops e name).1.rejected = none → (modelStep ref st t ops e name).2 = "ok" := by
  cases hr : st.rejected with
  | some r =>
    unfold modelStep
    rw [hr]
    simp only
    intro h
    rw [hr] at h
    cases h
  | none =>
    unfold modelStep
    rw [hr]
    simp only
    generalize (if ref then Conc.stepEvent (sys st.rw 0 ops) 64 (st.ss.map (pad t)) e
         else Drv.C09.stepEvent st.rw ops (st.ss.map (pad t)) e) = adv
    cases adv with
    | nil => intro h; simp at h
    | cons y ys => intro _; rfl

/-- the model verdict of an event line after which the judge has not rejected is `ok` -/
theorem step_model_ok (ref : Bool) (st : St) (toks : List Val) (impl : String) (e : Event)
    (hp : lineEvent toks = some e) (hst : st.started = true)
    (hrej : (step ref st toks impl).1.rejected = none) : (step ref st toks impl).2.model = "ok" := by
  unfold lineEvent at hp
  split at hp
  · rename_i t kd k
    split at hp
    · rename_i kind hkind
      split at hp
      · cases hp
      · rename_i hneg
        simp only [step, hst, hkind, hneg, Bool.false_eq_true, if_false] at hrej ⊢
        split
        · rfl
        · rename_i hout
          rw [if_neg hout] at hrej
          simp only at hrej ⊢
          rw [(specInv_model _ _ _ _).2.2.2.1] at hrej
          exact modelStep_ok _ _ _ _ _ _ hrej
    · cases hp
  · rename_i t r
    split at hp
    · rename_i res hres
      split at hp
      · cases hp
      · rename_i hneg
        simp only [step, hst, hres, hneg, if_false] at hrej ⊢
        split
        · rfl
        · rename_i hout
          rw [if_neg hout] at hrej
          simp only at hrej ⊢
          rw [(specRes_model _ _ _).2.2.2.1] at hrej
          exact modelStep_ok _ _ _ _ _ _ hrej
    · cases hp
  · cases hp

/-- if the judge has not rejected at the end, the model verdict of every event line was `ok` -/
theorem outputs_ok (ref : Bool) (st : St) (hst : st.started = true) (lines : List (List Val × String)) (tr : List Event)
    (hp : lines.map (fun l => lineEvent l.1) = tr.map some) (hrej : (runLines ref st lines).rejected = none)
    (l1 : List (List Val × String)) (l : List Val × String) (l2 : List (List Val × String))
    (he : lines = l1 ++ l :: l2) : (step ref (runLines ref st l1) l.1 l.2).2.model = "ok" := by
  subst he
  rw [List.map_append, List.map_cons] at hp
  obtain ⟨tr1, tr2, rfl, hp1, hp2⟩ := List.map_eq_append_iff.1 hp.symm
  cases tr2 with
  | nil => simp at hp2
  | cons e tr2 =>
    simp only [List.map_cons, List.cons.injEq] at hp2
    obtain ⟨hpe, hp2⟩ := hp2
    have hs1 := (mono_runLines ref l1 tr1 st hst hp1.symm).1
    rw [runLines_append] at hrej
    have hrun : runLines ref (runLines ref st l1) (l :: l2) =
        runLines ref (step ref (runLines ref st l1) l.1 l.2).1 l2 := rfl
    rw [hrun] at hrej
    have hs2 := (step_parsed ref (runLines ref st l1) l.1 l.2 e hpe.symm hs1).1
    have hr2 := (mono_runLines ref l2 tr2 _ hs2 hp2.symm).2.2 hrej
    exact step_model_ok ref _ l.1 l.2 e hpe.symm hs1 hr2

end TypVerif.Lemmas.C09Complete
