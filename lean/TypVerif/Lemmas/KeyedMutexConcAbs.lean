import TypVerif.Lemmas.SmcAbs
/-
C09 on the step-level map, layer 1: the ABSTRACT side.

The composed invariant (`Lemmas/KeyedMutexConcInv.lean`) carries the simulation relation `R mapState a` of the C04 proof.  Here:
an invariant `AbsKey k offers a` of the abstract state `a` (a state of the relaxed atomic map) that every `witness` step preserves
as long as the invoked operations are the ones `keyedmutex.go` issues (`OkOp`: `LoadOrStore(k', fresh)` with a mutex identity
offered for `k'`, and `Delete(k')` for `k' ≠ k`):

* every result — taken effect (`done`) or seen (`pending … seen`) — of a `LoadOrStore(k', _)` is a pair `(w, _)` with `w` an
  identity offered for `k'`, and for `k' = k` it is the abstract map's value `a.obj k = some w`;
* every value of the abstract map at `k'` is an identity offered for `k'`;
* `a.obj k = some m` is stable (`Stable`): nothing deletes or overwrites `k` (`LoadOrStore` leaves a present key untouched).
-/
namespace TypVerif.Lemmas.KeyedMutexConc
open TypVerif.Model TypVerif.Model.SyncMapConc TypVerif.Model.RelObj TypVerif.Lemmas.Smc

set_option linter.unusedSectionVars false

variable {K : Type} [DecidableEq K]

/-- the operation an abstract goroutine is running -/
def opOf : APc K Nat → Option (Op K Nat)
  | .idle => none
  | .pending op _ => some op
  | .done op _ => some op

/-- the map operations of `keyedmutex.go`, with `ClearKey` never applied to `k` -/
def OkOp (k : K) (offers : List (Nat × K)) : Op K Nat → Prop
  | .loadOrStore k' v => (v, k') ∈ offers
  | .delete k' => k' ≠ k
  | _ => False

/-- a legal result of `LoadOrStore(k', _)` -/
def OkRes (k : K) (offers : List (Nat × K)) (obj : K → Option Nat) (k' : K) (r : Res K Nat) : Prop :=
  ∃ w b, r = .pair w b ∧ (w, k') ∈ offers ∧ (k' = k → obj k = some w)

structure AbsKey (k : K) (offers : List (Nat × K)) (a : AState K Nat) : Prop where
  ops : ∀ t op, opOf (a.pcs t) = some op → OkOp k offers op
  seen : ∀ t k' v seen, a.pcs t = .pending (.loadOrStore k' v) seen → ∀ r ∈ seen, OkRes k offers a.obj k' r
  done : ∀ t k' v r, a.pcs t = .done (.loadOrStore k' v) r → OkRes k offers a.obj k' r
  vals : ∀ k' m, a.obj k' = some m → (m, k') ∈ offers

/-- the value of `k` never changes once set -/
def Stable (k : K) (a a' : AState K Nat) : Prop := ∀ m, a.obj k = some m → a'.obj k = some m

theorem OkOp.mono {k : K} {offers offers' : List (Nat × K)} (hsub : ∀ p ∈ offers, p ∈ offers') {op : Op K Nat}
    (h : OkOp k offers op) : OkOp k offers' op := by
  cases op with
  | loadOrStore k' v => exact hsub _ h
  | delete k' => exact h
  | load _ => exact h
  | store _ _ => exact h
  | loadAndDelete _ => exact h
  | range => exact h

theorem OkRes.mono {k : K} {offers offers' : List (Nat × K)} (hsub : ∀ p ∈ offers, p ∈ offers')
    {obj obj' : K → Option Nat} (hobj : ∀ m, obj k = some m → obj' k = some m) {k' : K} {r : Res K Nat}
    (h : OkRes k offers obj k' r) : OkRes k offers' obj' k' r := by
  obtain ⟨w, b, h1, h2, h3⟩ := h
  exact ⟨w, b, h1, hsub _ h2, fun hk => hobj _ (h3 hk)⟩

theorem AbsKey.mono {k : K} {offers offers' : List (Nat × K)} (hsub : ∀ p ∈ offers, p ∈ offers') {a : AState K Nat}
    (h : AbsKey k offers a) : AbsKey k offers' a :=
  ⟨fun t op ho => (h.ops t op ho).mono hsub,
   fun t k' v seen hp r hr => (h.seen t k' v seen hp r hr).mono hsub (fun _ x => x),
   fun t k' v r hp => (h.done t k' v r hp).mono hsub (fun _ x => x),
   fun k' m hm => hsub _ (h.vals k' m hm)⟩

/-! ### `opOf` -/

theorem opOf_observePc (obj : K → Option Nat) (p : APc K Nat) : opOf (observePc obj p) = opOf p := by
  cases p with
  | idle => rfl
  | done op r => rfl
  | pending op seen =>
    obtain ⟨seen', h, _⟩ := observePc_pending_spec obj op seen
    rw [h]; rfl

theorem opOf_eq_none {p : APc K Nat} : opOf p = none ↔ p = .idle := by
  cases p <;> simp [opOf]

theorem opOf_linPc (obj : K → Option Nat) (p : APc K Nat) : opOf (linPc obj p).2 = opOf p := by
  rcases linPc_cases obj p with h | ⟨op, seen, σ', r, hp, _, h⟩
  · rw [h]
  · rw [h, hp]; rfl

/-! ### preservation by the pieces of `witness` -/

theorem absKey_observeAll {k : K} {offers : List (Nat × K)} {a : AState K Nat} (h : AbsKey k offers a) :
    AbsKey k offers (observeAll a) := by
  refine ⟨?_, ?_, ?_, ?_⟩
  · intro t op ho
    rw [observeAll_pcs, opOf_observePc] at ho
    exact h.ops t op ho
  · intro t k' v seen' hp r hr
    rw [observeAll_pcs] at hp
    obtain ⟨seen, hp0, _, _, h5⟩ := observePc_eq_pending hp
    rcases h5 r hr with h6 | h6
    · exact h.seen t k' v seen hp0 r h6
    · rw [pureRes_loadOrStore] at h6
      cases hm : a.obj k' with
      | none => rw [hm] at h6; cases h6
      | some w =>
        rw [hm] at h6
        cases h6
        exact ⟨w, true, rfl, h.vals k' w hm, fun hk => by rw [← hk]; exact hm⟩
  · intro t k' v r hp
    rw [observeAll_pcs] at hp
    exact h.done t k' v r (observePc_eq_done.mp hp)
  · intro k' m hm
    exact h.vals k' m hm

theorem absKey_update {k : K} {offers : List (Nat × K)} {a : AState K Nat} (h : AbsKey k offers a) (t : Nat)
    (p' : APc K Nat) (hist' : List (AtomicObj.Event (Op K Nat) (Res K Nat)))
    (h1 : ∀ op, opOf p' = some op → OkOp k offers op)
    (h2 : ∀ k' v seen, p' = .pending (.loadOrStore k' v) seen → ∀ r ∈ seen, OkRes k offers a.obj k' r)
    (h3 : ∀ k' v r, p' = .done (.loadOrStore k' v) r → OkRes k offers a.obj k' r) :
    AbsKey k offers { a with pcs := update a.pcs t p', hist := hist' } := by
  refine ⟨?_, ?_, ?_, h.vals⟩
  · intro u op ho
    show OkOp k offers op
    by_cases hu : u = t
    · subst hu
      simp only [update_same] at ho
      exact h1 op ho
    · simp only [update_other _ _ _ hu] at ho
      exact h.ops u op ho
  · intro u k' v seen hp r hr
    by_cases hu : u = t
    · subst hu
      simp only [update_same] at hp
      exact h2 k' v seen hp r hr
    · simp only [update_other _ _ _ hu] at hp
      exact h.seen u k' v seen hp r hr
  · intro u k' v r hp
    by_cases hu : u = t
    · subst hu
      simp only [update_same] at hp
      exact h3 k' v r hp
    · simp only [update_other _ _ _ hu] at hp
      exact h.done u k' v r hp

/-- the effect of one legal operation on the abstract map -/
theorem applyOp_ok {k : K} {offers : List (Nat × K)} {obj σ' : K → Option Nat} {op : Op K Nat} {r : Res K Nat}
    (hvals : ∀ k' m, obj k' = some m → (m, k') ∈ offers) (hop : OkOp k offers op) (happ : (σ', r) ∈ applyOp obj op) :
    (∀ m, obj k = some m → σ' k = some m) ∧ (∀ k' m, σ' k' = some m → (m, k') ∈ offers) ∧
    (∀ k' v, op = .loadOrStore k' v → OkRes k offers σ' k' r) := by
  cases op with
  | loadOrStore k' v =>
    have hv : (v, k') ∈ offers := hop
    rw [applyOp_loadOrStore] at happ
    cases hm : obj k' with
    | some w =>
      rw [hm] at happ
      have := List.mem_singleton.mp happ
      cases this
      refine ⟨fun _ x => x, hvals, ?_⟩
      intro k'' v' heq
      cases heq
      exact ⟨w, true, rfl, hvals _ _ hm, fun hk => by rw [← hk]; exact hm⟩
    | none =>
      rw [hm] at happ
      have := List.mem_singleton.mp happ
      cases this
      refine ⟨?_, ?_, ?_⟩
      · intro m hk
        by_cases hkk : k = k'
        · rw [hkk, hm] at hk; cases hk
        · rw [put_other _ _ _ hkk]; exact hk
      · intro k'' m hk
        by_cases hkk : k'' = k'
        · rw [hkk, put_same] at hk
          cases hk
          rw [hkk]; exact hv
        · rw [put_other _ _ _ hkk] at hk
          exact hvals _ _ hk
      · intro k'' v' heq
        cases heq
        exact ⟨v, false, rfl, hv, fun hk => by rw [← hk]; exact put_same _ _ _⟩
  | delete k' =>
    have hk' : k' ≠ k := hop
    rw [applyOp_delete] at happ
    have := List.mem_singleton.mp happ
    cases this
    refine ⟨?_, ?_, ?_⟩
    · intro m hk
      rw [del_other _ _ (Ne.symm hk')]; exact hk
    · intro k'' m hk
      by_cases hkk : k'' = k'
      · rw [hkk, del_same] at hk; cases hk
      · rw [del_other _ _ hkk] at hk; exact hvals _ _ hk
    · intro k'' v' heq; cases heq
  | load _ => exact absurd hop id
  | store _ _ => exact absurd hop id
  | loadAndDelete _ => exact absurd hop id
  | range => exact absurd hop id

theorem absKey_lin {k : K} {offers : List (Nat × K)} {a : AState K Nat} (h : AbsKey k offers a) (t : Nat) :
    AbsKey k offers { a with pcs := update a.pcs t (linPc a.obj (a.pcs t)).2, obj := (linPc a.obj (a.pcs t)).1 } ∧
    ∀ m, a.obj k = some m → (linPc a.obj (a.pcs t)).1 k = some m := by
  rcases linPc_cases a.obj (a.pcs t) with hl | ⟨op, seen, σ', r, hp, happ, hl⟩
  · rw [hl]
    refine ⟨?_, fun _ x => x⟩
    show AbsKey k offers { a with pcs := update a.pcs t (a.pcs t) }
    rw [update_self]
    exact h
  · rw [hl]
    have hop : OkOp k offers op := h.ops t op (by rw [hp]; rfl)
    obtain ⟨hst, hvals, hres⟩ := applyOp_ok h.vals hop happ
    refine ⟨⟨?_, ?_, ?_, hvals⟩, hst⟩
    · intro u op' ho
      show OkOp k offers op'
      by_cases hu : u = t
      · subst hu
        simp only [update_same, opOf] at ho
        cases ho
        exact hop
      · simp only [update_other _ _ _ hu] at ho
        exact h.ops u op' ho
    · intro u k' v seen' hp' r' hr'
      by_cases hu : u = t
      · subst hu
        simp only [update_same] at hp'
        cases hp'
      · simp only [update_other _ _ _ hu] at hp'
        exact (h.seen u k' v seen' hp' r' hr').mono (fun _ x => x) hst
    · intro u k' v r' hp'
      by_cases hu : u = t
      · subst hu
        simp only [update_same] at hp'
        cases hp'
        exact hres k' v rfl
      · simp only [update_other _ _ _ hu] at hp'
        exact (h.done u k' v r' hp').mono (fun _ x => x) hst

/-! ### `witness` -/

/-- **`AbsKey` is preserved by every simulation step** whose invocation (if it is one) is legal; the value of `k` is stable -/
theorem absKey_witness {k : K} {offers : List (Nat × K)} {a : AState K Nat} (h : AbsKey k offers a)
    (s : SyncMapConc.State K Nat) (t : Tid) (l : Option (SyncMapConc.Event K Nat))
    (hl : ∀ t' op, l = some (.inv t' op) → OkOp k offers op) :
    AbsKey k offers (witness s t l a) ∧ Stable k a (witness s t l a) := by
  cases l with
  | none =>
    cases hlin : isLin s.sh (s.pc t) (a.pcs t) with
    | true =>
      rw [witness_none_lin s t a hlin]
      obtain ⟨h1, h2⟩ := absKey_lin h t
      exact ⟨absKey_observeAll h1, h2⟩
    | false =>
      rw [witness_none_tau s t a hlin]
      exact ⟨absKey_observeAll h, fun _ x => x⟩
  | some e =>
    cases e with
    | inv t' op =>
      have hop := hl t' op rfl
      have hne : op ≠ .range := by intro he; rw [he] at hop; exact hop
      rw [witness_inv s t t' a hne]
      refine ⟨absKey_observeAll (absKey_update h t _ _ ?_ ?_ ?_), fun _ x => x⟩
      · intro op' ho
        simp only [opOf] at ho
        cases ho
        exact hop
      · intro k' v seen hp r hr
        cases hp
        cases hr
      · intro k' v r hp; cases hp
    | res t' r =>
      by_cases hr : ∀ l, r ≠ .pairs l
      · rw [witness_res s t t' a hr]
        refine ⟨absKey_observeAll (absKey_update h t _ _ ?_ ?_ ?_), fun _ x => x⟩
        · intro op' ho; cases ho
        · intro k' v seen hp; cases hp
        · intro k' v r hp; cases hp
      · cases r with
        | pairs l => exact ⟨absKey_observeAll h, fun _ x => x⟩
        | done => exact absurd (fun l h => by cases h) hr
        | val o => exact absurd (fun l h => by cases h) hr
        | pair w b => exact absurd (fun l h => by cases h) hr

/-! ### `opOf` along `witness` -/

theorem opOf_witness_none (s : SyncMapConc.State K Nat) (t : Tid) (a : AState K Nat) (u : Tid) :
    opOf ((witness s t none a).pcs u) = opOf (a.pcs u) := by
  cases hlin : isLin s.sh (s.pc t) (a.pcs t) with
  | true =>
    rw [witness_none_lin s t a hlin, observeAll_pcs, opOf_observePc]
    show opOf (update a.pcs t (linPc a.obj (a.pcs t)).2 u) = _
    by_cases hu : u = t
    · subst hu; rw [update_same, opOf_linPc]
    · rw [update_other _ _ _ hu]
  | false =>
    rw [witness_pcs_tau s t a hlin, opOf_observePc]

theorem opOf_witness_other (s : SyncMapConc.State K Nat) (t : Tid) (l : Option (SyncMapConc.Event K Nat))
    (a : AState K Nat) {u : Tid} (hu : u ≠ t) :
    opOf ((witness s t l a).pcs u) = opOf (a.pcs u) := by
  cases l with
  | none => exact opOf_witness_none s t a u
  | some e =>
    cases e with
    | inv t' op => rw [witness_pcs_inv_other s t t' op a hu, opOf_observePc]
    | res t' r => rw [witness_pcs_res_other s t t' r a hu, opOf_observePc]

theorem opOf_witness_inv (s : SyncMapConc.State K Nat) (t t' : Tid) {op : Op K Nat} (a : AState K Nat)
    (hop : op ≠ .range) : opOf ((witness s t (some (.inv t' op)) a).pcs t) = some op := by
  rw [witness_pcs_inv_self s t t' a hop, opOf_observePc]; rfl

/-- what a goroutine about to return `r` from a legal `LoadOrStore(k', _)` returns -/
theorem retOk_okRes {k : K} {offers : List (Nat × K)} {a : AState K Nat} (h : AbsKey k offers a) {t : Tid}
    {k' : K} {v : Nat} {r : Res K Nat} (hop : opOf (a.pcs t) = some (.loadOrStore k' v)) (hr : RetOk (a.pcs t) r) :
    OkRes k offers a.obj k' r := by
  cases hp : a.pcs t with
  | idle => rw [hp] at hr; exact absurd hr id
  | pending op seen =>
    rw [hp] at hop hr
    simp only [opOf] at hop
    cases hop
    exact h.seen t k' v seen hp r hr
  | done op r' =>
    rw [hp] at hop hr
    simp only [opOf] at hop
    cases hop
    have : r' = r := hr
    subst this
    exact h.done t k' v r' hp

end TypVerif.Lemmas.KeyedMutexConc
