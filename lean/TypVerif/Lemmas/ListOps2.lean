import TypVerif.Lemmas.ListOps
/-
Method-level simulation, part 2: Front/Back/Len, Element.Next/Prev, Remove, Push*, Insert*.
-/
namespace TypVerif.Lemmas.LinkedList
open TypVerif.Spec.ListOp
open TypVerif.Spec.Seq
open TypVerif.Model
open TypVerif.Model.LinkedList

theorem Sim.len_eq {h : Heap} {w : World} (hs : Sim h w) (l : ListId) : h.len l = (w.lists.get l).length := by
  rcases hs.shape l with ⟨_, _, h3, h4⟩ | h2
  · rw [h3, h4]; rfl
  · exact h2.2

theorem len_run {h : Heap} {w : World} (hs : Sim h w) (l : ListId) :
    len l h = .ok ((w.lists.get l).length : Int) h := by
  unfold len; rw [getLen_run, hs.len_eq]

theorem front_run {h : Heap} {w : World} (hs : Sim h w) (l : ListId) :
    front l h = .ok (optPtr (w.lists.get l).head?) h := by
  unfold front
  rw [bind_ok (getLen_run l h), hs.len_eq]
  cases hxs : w.lists.get l with
  | nil => simp [optPtr]
  | cons x xs =>
    have : ¬ (((x :: xs).length : Nat) : Int) = 0 := by simp; omega
    rw [if_neg this, getNext_ok _ (root_ne_null l)]
    rcases hs.shape l with ⟨_, _, _, h4⟩ | h2
    · rw [hxs] at h4; cases h4
    · rw [Linked.next_root h2.1, hxs]; rfl

theorem back_run {h : Heap} {w : World} (hs : Sim h w) (l : ListId) :
    back l h = .ok (optPtr (w.lists.get l).getLast?) h := by
  unfold back
  rw [bind_ok (getLen_run l h), hs.len_eq]
  cases hxs : w.lists.get l with
  | nil => simp [optPtr]
  | cons x xs =>
    have : ¬ (((x :: xs).length : Nat) : Int) = 0 := by simp; omega
    rw [if_neg this, getPrev_ok _ (root_ne_null l)]
    rcases hs.shape l with ⟨_, _, _, h4⟩ | h2
    · rw [hxs] at h4; cases h4
    · rw [Linked.prev_root h2.1, hxs]
      cases hl : (x :: xs).getLast? with
      | none => simp at hl
      | some y => rfl

/-- what the specification says `e.Next()` is -/
def specNext (w : World) (x : ElemId) : Ptr :=
  match w.owner.get x with
  | none => .null
  | some l => optPtr (succOf x (w.lists.get l))

def specPrev (w : World) (x : ElemId) : Ptr :=
  match w.owner.get x with
  | none => .null
  | some l => optPtr (predOf x (w.lists.get l))

theorem elemNext_run {h : Heap} {w : World} (hs : Sim h w) (x : ElemId) :
    elemNext (.elem x) h = .ok (specNext w x) h := by
  unfold elemNext specNext
  rw [bind_ok (getNext_ok _ (elem_ne_null x)), bind_ok (getList_ok _ (elem_ne_null x)), hs.owner]
  cases ho : w.owner.get x with
  | none => rfl
  | some l =>
    obtain ⟨hlk, _⟩ := hs.linked_of_mem ho
    have hm := (hs.mem x l).1 ho
    simp only []
    rw [Linked.next_elem_cyc hlk hm, ite_run, pure_run, pure_run, ← optPtr_of_ptrOr l]
    split <;> rfl

theorem elemPrev_run {h : Heap} {w : World} (hs : Sim h w) (x : ElemId) :
    elemPrev (.elem x) h = .ok (specPrev w x) h := by
  unfold elemPrev specPrev
  rw [bind_ok (getPrev_ok _ (elem_ne_null x)), bind_ok (getList_ok _ (elem_ne_null x)), hs.owner]
  cases ho : w.owner.get x with
  | none => rfl
  | some l =>
    obtain ⟨hlk, _⟩ := hs.linked_of_mem ho
    have hm := (hs.mem x l).1 ho
    simp only []
    rw [Linked.prev_elem_cyc hlk hm, ite_run, pure_run, pure_run, ← optPtr_of_ptrOr l]
    split <;> rfl

/-! ### Remove -/

theorem remove_sim {h : Heap} {w : World} (hs : Sim h w) {l : ListId} {e : ElemId}
    (hown : w.owner.get e = some l) :
    Agree (remove l e h)
      { w with lists := w.lists.set l ((w.lists.get l).erase e), owner := w.owner.set e none } () := by
  have hnd := hs.nodup l
  obtain ⟨hlk, hlen⟩ := hs.linked_of_mem hown
  have hex : e ∈ w.lists.get l := (hs.mem e l).1 hown
  have hed : Ptr.elem e ∈ (cyc l (w.lists.get l)).dropLast := by
    rw [mem_cyc_dropLast]; exact Or.inr ⟨e, hex, rfl⟩
  have het : Ptr.elem e ∈ (cyc l (w.lists.get l)).tail := by
    rw [cyc_tail]; simp [hex]
  have hpd := Linked.prev_mem hlk het
  have hp0 : h.prev (.elem e) ≠ .null := mem_cyc_ne_null (List.dropLast_subset _ hpd)
  have hn0 : h.next (.elem e) ≠ .null := mem_cyc_ne_null (List.mem_of_mem_tail (Linked.next_mem hlk hed))
  -- e.prev ≠ e : otherwise e would follow itself in a duplicate-free cycle
  have hpe : h.prev (.elem e) ≠ .elem e := by
    intro hh
    have h1 := Linked.next_prev hlk het
    rw [hh] at h1
    -- next e = e, but next e is in the tail after e … use the split
    obtain ⟨A, B, hAB, hA, hB, _⟩ := nodup_split hnd hex
    have h2 := Linked.next_elem_cyc hlk hex
    rw [h1, hAB, succOf_split hA] at h2
    cases B with
    | nil => simp [ptrOr] at h2
    | cons b B =>
      simp only [List.head?_cons, ptrOr, Ptr.elem.injEq] at h2
      exact hB (by simp [← h2])
  refine ⟨removeH h l e, remove_run h l e hp0 hn0 hpe, ?_⟩
  apply hs.remove_views hown
  · intro x
    simp only [removeH, next_setLen, next_setList, next_setPrev, next_setNext _ _ (elem_ne_null e), upd_apply]
    rw [next_unlinkH _ _ hp0]
  · intro x
    simp only [removeH, prev_setLen, prev_setList, prev_setPrev _ _ (elem_ne_null e), prev_setNext, upd_apply]
    rw [prev_unlinkH _ _ hn0]
  · intro x
    simp only [removeH, listOf_setLen, listOf_setList, listOf_setPrev, listOf_setNext, listOf_unlinkH, upd_apply]
  · simp [removeH]
  · intro l'
    simp only [removeH, len_setLen, len_setList, len_setPrev, len_setNext, len_unlinkH, upd_apply]
  · simp [removeH]

theorem removeM_sim {h : Heap} {w : World} (hs : Sim h w) (l : ListId) (x : ElemId) :
    Agree (removeM l (.elem x) h) (Spec.Seq.step w (.remove l (some x))).1 (w.value.get x) := by
  unfold removeM
  simp only []
  rw [bind_ok (getList_ok _ (elem_ne_null x)), hs.owner]
  by_cases ho : w.owner.get x = some l
  · obtain ⟨h', hr, hs'⟩ := remove_sim hs ho
    rw [if_pos ho, bind_ok hr, getValue_ok _ (elem_ne_null x)]
    refine ⟨h', ?_, ?_⟩
    · rw [hs'.value]
    · simp only [Spec.Seq.step, if_pos ho]; exact hs'
  · rw [if_neg ho]
    refine ⟨h, ?_, ?_⟩
    · show (pure PUnit.unit >>= fun _ => getValue (.elem x)) h = _
      rw [bind_ok (pure_run _ h), getValue_ok _ (elem_ne_null x), hs.value]
    · simp only [Spec.Seq.step, if_neg ho]; exact hs

/-! ### PushFront / PushBack / InsertBefore / InsertAfter -/

theorem root_mem_dropLast (l : ListId) (xs : List ElemId) : Ptr.root l ∈ (cyc l xs).dropLast := by
  rw [mem_cyc_dropLast]; exact Or.inl rfl

theorem ptrOr_mem_dropLast {l : ListId} {xs : List ElemId} {o : Option ElemId}
    (ho : ∀ x, o = some x → x ∈ xs) : ptrOr l o ∈ (cyc l xs).dropLast := by
  rw [mem_cyc_dropLast]
  cases o with
  | none => exact Or.inl rfl
  | some x => exact Or.inr ⟨x, ho x rfl, rfl⟩

theorem pushFront_sim {h : Heap} {w : World} (hs : Sim h w) (l : ListId) (v : Int) :
    Agree (pushFront l v h) (Spec.Seq.step w (.pushFront l v)).1 (.elem w.nextId) := by
  unfold pushFront
  obtain ⟨h1, hr, hs1, hin⟩ := lazyInit_sim hs l
  rw [bind_ok hr]
  exact insertValueFresh_sim hs1 v hin (root_mem_dropLast l _)

theorem pushBack_sim {h : Heap} {w : World} (hs : Sim h w) (l : ListId) (v : Int) :
    Agree (pushBack l v h) (Spec.Seq.step w (.pushBack l v)).1 (.elem w.nextId) := by
  unfold pushBack
  obtain ⟨h1, hr, hs1, hin⟩ := lazyInit_sim hs l
  rw [bind_ok hr, bind_ok (getPrev_ok _ (root_ne_null l)), Linked.prev_root hin.1]
  have hat : ptrOr l (w.lists.get l).getLast? ∈ (cyc l (w.lists.get l)).dropLast :=
    ptrOr_mem_dropLast (fun x hx => List.mem_of_getLast? hx)
  have := insertValueFresh_sim hs1 v hin hat
  rw [insAfter_last _ (hs.nodup l)] at this
  exact this

theorem insertAfter_sim {h : Heap} {w : World} (hs : Sim h w) (l : ListId) (v : Int) (m : ElemId) :
    Agree (insertAfter l v (.elem m) h) (Spec.Seq.step w (.insertAfter l v (some m))).1
      (if w.owner.get m = some l then .elem w.nextId else .null) := by
  unfold insertAfter
  rw [bind_ok (getList_ok _ (elem_ne_null m)), hs.owner]
  by_cases ho : w.owner.get m = some l
  · rw [if_neg (by simpa using ho), if_pos ho]
    have hin := hs.linked_of_mem ho
    have hm := (hs.mem m l).1 ho
    have hat : Ptr.elem m ∈ (cyc l (w.lists.get l)).dropLast := by
      rw [mem_cyc_dropLast]; exact Or.inr ⟨m, hm, rfl⟩
    have := insertValueFresh_sim hs v hin hat
    simp only [Spec.Seq.step, if_pos ho]
    exact this
  · rw [if_pos ho, if_neg ho]
    simp only [Spec.Seq.step, if_neg ho]
    exact ⟨h, rfl, hs⟩

theorem insertBefore_sim {h : Heap} {w : World} (hs : Sim h w) (l : ListId) (v : Int) (m : ElemId) :
    Agree (insertBefore l v (.elem m) h) (Spec.Seq.step w (.insertBefore l v (some m))).1
      (if w.owner.get m = some l then .elem w.nextId else .null) := by
  unfold insertBefore
  rw [bind_ok (getList_ok _ (elem_ne_null m)), hs.owner]
  by_cases ho : w.owner.get m = some l
  · rw [if_neg (by simpa using ho), if_pos ho]
    have hin := hs.linked_of_mem ho
    have hm := (hs.mem m l).1 ho
    rw [bind_ok (getPrev_ok _ (elem_ne_null m)), Linked.prev_elem_cyc hin.1 hm]
    have hat : ptrOr l (predOf m (w.lists.get l)) ∈ (cyc l (w.lists.get l)).dropLast := by
      apply ptrOr_mem_dropLast
      intro x hx
      obtain ⟨P, Q, hR, _⟩ := succOf_eq_some hx
      have : x ∈ (w.lists.get l).reverse := by rw [hR]; simp
      simpa using this
    have := insertValueFresh_sim hs v hin hat
    rw [insAfter_pred _ (hs.nodup l) hm] at this
    simp only [Spec.Seq.step, if_pos ho]
    exact this
  · rw [if_pos ho, if_neg ho]
    simp only [Spec.Seq.step, if_neg ho]
    exact ⟨h, rfl, hs⟩

end TypVerif.Lemmas.LinkedList
