import TypVerif.Model.Sorted
import TypVerif.Spec.Sorted
import TypVerif.Spec.Order
/-
Lemmas for C07 (`slices.Sorted`).
-/
namespace TypVerif.Lemmas.Sorted
open TypVerif.Model TypVerif.Model.Sorted TypVerif.Spec.Order
open TypVerif.Spec.Sorted (lowerBound)

/-! ### splices -/

theorem removeAt_eq_eraseIdx (l : List α) (i : Nat) : removeAt l i = l.eraseIdx i := by
  rw [removeAt, List.eraseIdx_eq_take_drop_succ]

theorem insertAt_perm (l : List α) (i : Nat) (v : α) : (insertAt l i v).Perm (v :: l) := by
  unfold insertAt
  have := @List.perm_middle _ v (l.take i) (l.drop i)
  rwa [List.take_append_drop] at this

theorem cons_removeAt_perm (l : List α) (i : Nat) (h : i < l.length) : (l[i] :: removeAt l i).Perm l := by
  unfold removeAt
  have h1 := (@List.perm_middle _ l[i] (l.take i) (l.drop (i + 1))).symm
  have h2 : l.take i ++ l[i] :: l.drop (i + 1) = l := by
    rw [← List.drop_eq_getElem_cons h, List.take_append_drop]
  rwa [h2] at h1

theorem removeAt_perm_erase [DecidableEq α] (l : List α) (i : Nat) (h : i < l.length) :
    (removeAt l i).Perm (l.erase l[i]) := by
  have h1 := cons_removeAt_perm l i h
  have h2 := List.perm_cons_erase (List.getElem_mem h)
  exact (h1.trans h2).cons_inv

theorem sorted_removeAt {less : α → α → Bool} (l : List α) (i : Nat) (h : IsSorted less l) :
    IsSorted less (removeAt l i) := by
  rw [removeAt_eq_eraseIdx]
  exact List.Pairwise.sublist (List.eraseIdx_sublist l i) h

theorem sorted_insertAt {less : α → α → Bool} (hw : StrictWeak less) (l : List α) (r : Nat) (v : α)
    (h : IsSorted less l) (hlo : ∀ x ∈ l.take r, less x v = true) (hhi : ∀ x ∈ l.drop r, less x v = false) :
    IsSorted less (insertAt l r v) := by
  unfold insertAt IsSorted
  rw [List.pairwise_append]
  refine ⟨h.take, ?_, ?_⟩
  · rw [List.pairwise_cons]
    exact ⟨hhi, h.drop⟩
  · intro a ha b hb
    rw [List.mem_cons] at hb
    rcases hb with rfl | hb
    · exact hw.asymm _ _ (hlo a ha)
    · exact h.rel_of_mem_take_of_mem_drop ha hb

/-! ### the stable sort used by NewSorted -/

theorem stableSort_perm (less : α → α → Bool) (l : List α) : (stableSort less l).Perm l :=
  List.mergeSort_perm l _

theorem stableSort_sorted {less : α → α → Bool} (hw : StrictWeak less) (l : List α) :
    IsSorted less (stableSort less l) := by
  unfold stableSort IsSorted
  have := List.pairwise_mergeSort (le := fun a b => !less b a)
    (by intro a b c hab hbc
        simp only [Bool.not_eq_true'] at hab hbc ⊢
        exact hw.negTrans c b a hbc hab)
    (by intro a b
        cases hba : less b a with
        | false => simp
        | true => simp [hw.asymm b a hba]) l
  exact this.imp (by intro a b h; simpa using h)

/-- stability: a sublist that is already in order stays a sublist, in particular two elements that `less` cannot
distinguish keep their relative order -/
theorem stableSort_stable {less : α → α → Bool} (hw : StrictWeak less) (l ys : List α)
    (hys : IsSorted less ys) (hsub : ys.Sublist l) : ys.Sublist (stableSort less l) := by
  unfold stableSort
  refine List.sublist_mergeSort (le := fun a b => !less b a)
    (by intro a b c hab hbc
        simp only [Bool.not_eq_true'] at hab hbc ⊢
        exact hw.negTrans c b a hbc hab)
    (by intro a b
        cases hba : less b a with
        | false => simp
        | true => simp [hw.asymm b a hba]) ?_ hsub
  exact hys.imp (by intro a b h; simpa using h)

/-! ### the binary search on a sorted slice -/

theorem pred_of_lt (s : Sorted α) (v : α) (i : Nat) (h : i < s.slice.length) :
    s.pred v i = !s.less s.slice[i] v := by
  simp [Sorted.pred, List.getElem?_eq_getElem h]

theorem search_le (s : Sorted α) (v : α) : s.search v ≤ s.slice.length :=
  GoSearch.search_le _ _

theorem pred_monotone (s : Sorted α) (hw : StrictWeak s.less) (hs : IsSorted s.less s.slice) (v : α) :
    GoSearch.Monotone s.slice.length (s.pred v) := by
  intro i j hij hj hi
  have hi' : i < s.slice.length := by omega
  rw [pred_of_lt s v i hi'] at hi
  rw [pred_of_lt s v j hj]
  simp only [Bool.not_eq_true'] at hi ⊢
  by_cases heq : i = j
  · subst heq; exact hi
  · have hlt : i < j := by omega
    have := (List.pairwise_iff_getElem.mp hs) i j hi' hj hlt
    exact hw.negTrans _ _ _ this hi

/-- on a sorted slice the search splits the content: everything before the result is `less` than `v`,
nothing from the result on is -/
theorem search_split (s : Sorted α) (hw : StrictWeak s.less) (hs : IsSorted s.less s.slice) (v : α) :
    (∀ x ∈ s.slice.take (s.search v), s.less x v = true) ∧
    (∀ x ∈ s.slice.drop (s.search v), s.less x v = false) := by
  obtain ⟨h1, h2, h3⟩ := GoSearch.search_lower_bound s.slice.length (s.pred v) (pred_monotone s hw hs v)
  have hdef : GoSearch.search s.slice.length (s.pred v) = s.search v := rfl
  rw [hdef] at h1 h2 h3
  constructor
  · intro x hx
    rw [List.mem_take_iff_getElem] at hx
    obtain ⟨j, hj, rfl⟩ := hx
    have hj1 : j < s.search v := by have := Nat.min_le_left (s.search v) s.slice.length; omega
    have hj2 : j < s.slice.length := by have := Nat.min_le_right (s.search v) s.slice.length; omega
    have := h2 j hj1
    rw [pred_of_lt s v j hj2] at this
    simpa using this
  · intro x hx
    rw [List.mem_drop_iff_getElem] at hx
    obtain ⟨j, hj, rfl⟩ := hx
    have := h3 (s.search v + j) (by omega) (by omega)
    rw [pred_of_lt s v _ (by omega)] at this
    simpa using this

/-- the search returns the lower bound: the number of elements `less` than `v` -/
theorem search_eq_lowerBound (s : Sorted α) (hw : StrictWeak s.less) (hs : IsSorted s.less s.slice) (v : α) :
    s.search v = lowerBound s.less s.slice v := by
  obtain ⟨hlo, hhi⟩ := search_split s hw hs v
  unfold lowerBound
  conv => rhs; rw [← List.take_append_drop (s.search v) s.slice]
  rw [List.countP_append]
  have h1 : List.countP (fun x => s.less x v) (s.slice.take (s.search v)) = (s.slice.take (s.search v)).length :=
    List.countP_eq_length.mpr hlo
  have h2 : List.countP (fun x => s.less x v) (s.slice.drop (s.search v)) = 0 :=
    List.countP_eq_zero.mpr (by intro a ha; simp [hhi a ha])
  rw [h1, h2, List.length_take]
  have := search_le s v
  omega

/-! ### invariant: sortedness -/

theorem add_less (s : Sorted α) (v : α) : (s.add v).1.less = s.less := rfl

theorem add_sorted (s : Sorted α) (hw : StrictWeak s.less) (hs : IsSorted s.less s.slice) (v : α) :
    IsSorted s.less (s.add v).1.slice := by
  obtain ⟨hlo, hhi⟩ := search_split s hw hs v
  exact sorted_insertAt hw _ _ _ hs hlo hhi

section
variable [DecidableEq α]

theorem remove_less (s : Sorted α) (v : α) : (s.remove v).1.less = s.less := by
  unfold Sorted.remove
  by_cases h : (s.index v == -1) = true <;> simp [h]

theorem remove_sorted (s : Sorted α) (hs : IsSorted s.less s.slice) (v : α) :
    IsSorted s.less (s.remove v).1.slice := by
  unfold Sorted.remove
  by_cases h : (s.index v == -1) = true
  · simpa [h] using hs
  · simpa [h] using sorted_removeAt _ _ hs

theorem step_less (s : Sorted α) (op : Op α) : (step s op).1.less = s.less := by
  cases op with
  | add v => rfl
  | remove v => exact remove_less s v
  | removeAt i =>
    simp only [step, Sorted.removeAtIdx]
    by_cases h : i < 0 ∨ i ≥ s.len <;> simp [h]
  | get i =>
    simp only [step, Sorted.get]
    by_cases h : i < 0 ∨ i ≥ s.len <;> simp [h]
  | index v => rfl
  | contains v => rfl
  | len => rfl

theorem step_sorted (s : Sorted α) (hw : StrictWeak s.less) (hs : IsSorted s.less s.slice) (op : Op α) :
    IsSorted s.less (step s op).1.slice := by
  cases op with
  | add v => exact add_sorted s hw hs v
  | remove v => exact remove_sorted s hs v
  | removeAt i =>
    simp only [step, Sorted.removeAtIdx]
    by_cases h : i < 0 ∨ i ≥ s.len
    · simpa [h] using hs
    · simpa [h] using sorted_removeAt _ _ hs
  | get i =>
    simp only [step, Sorted.get]
    by_cases h : i < 0 ∨ i ≥ s.len <;> simpa [h] using hs
  | index v => exact hs
  | contains v => exact hs
  | len => exact hs

theorem runFrom_less (s : Sorted α) (ops : List (Op α)) : (runFrom s ops).less = s.less := by
  induction ops generalizing s with
  | nil => rfl
  | cons op ops ih => rw [runFrom, ih, step_less]

theorem runFrom_sorted (s : Sorted α) (hw : StrictWeak s.less) (hs : IsSorted s.less s.slice) (ops : List (Op α)) :
    IsSorted s.less (runFrom s ops).slice := by
  induction ops generalizing s with
  | nil => exact hs
  | cons op ops ih =>
    rw [runFrom]
    have := ih (step s op).1 (by rw [step_less]; exact hw) (by rw [step_less]; exact step_sorted s hw hs op)
    rwa [step_less] at this

theorem run_sorted {less : α → α → Bool} (hw : StrictWeak less) (init : List α) (ops : List (Op α)) :
    IsSorted less (run less init ops).s.slice := by
  exact runFrom_sorted (newSorted init less).s hw (stableSort_sorted hw init) ops

/-! ### Index / Remove facts that hold for ANY `less` -/

/-- whatever `less` is, a non-negative result of `Index` is an in-range position holding the value -/
theorem index_cases (s : Sorted α) (v : α) :
    s.index v = -1 ∨ ∃ (h : s.search v < s.slice.length), s.slice[s.search v] = v ∧ s.index v = (s.search v : Int) := by
  by_cases h : s.search v < s.slice.length
  · by_cases hv : s.slice[s.search v] = v
    · refine Or.inr ⟨h, hv, ?_⟩
      unfold Sorted.index; simp [h, hv]
    · left; unfold Sorted.index; simp [h, hv]
  · left; unfold Sorted.index; simp [h]

theorem index_absent (s : Sorted α) (v : α) (h : v ∉ s.slice) : s.index v = -1 := by
  rcases index_cases s v with h1 | ⟨hlt, hv, _⟩
  · exact h1
  · exact absurd (hv ▸ List.getElem_mem hlt) h

theorem remove_absent (s : Sorted α) (v : α) (h : v ∉ s.slice) : s.remove v = (s, -1) := by
  unfold Sorted.remove
  simp [index_absent s v h]

/-- whatever `less` is, `Remove` either reports -1 and changes nothing, or reports an in-range position that
held the value and splices exactly that position out -/
theorem remove_cases (s : Sorted α) (v : α) :
    s.remove v = (s, -1) ∨
    ∃ (i : Nat) (h : i < s.slice.length), s.slice[i] = v ∧
      s.remove v = ({ s with slice := s.slice.eraseIdx i }, (i : Int)) := by
  rcases index_cases s v with h1 | ⟨hlt, hv, hidx⟩
  · left; unfold Sorted.remove; simp [h1]
  · right
    refine ⟨s.search v, hlt, hv, ?_⟩
    unfold Sorted.remove
    have hne : ((s.search v : Int) == -1) = false := by
      apply beq_false_of_ne; omega
    simp only [hidx, hne, Bool.false_eq_true, if_false, Int.toNat_natCast, removeAt_eq_eraseIdx]

/-! ### multiset bookkeeping -/

/-- The values "put in and not taken out": `Add v` puts `v` in; `Remove v` takes one `v` out when it reports a
position (≠ -1); `RemoveAt i` takes out the element that `Get i` shows, when `i` is in range. -/
def bagStep (s : Sorted α) (bag : List α) : Op α → List α
  | .add v => v :: bag
  | .remove v => if (s.remove v).2 = -1 then bag else bag.erase v
  | .removeAt i =>
    match s.get i with
    | .ok a => bag.erase a
    | .error _ => bag
  | _ => bag

def bagFrom (s : Sorted α) (bag : List α) : List (Op α) → List α
  | [] => bag
  | op :: ops => bagFrom (step s op).1 (bagStep s bag op) ops

/-- init + added − removed, over the operation history -/
def bagOf (less : α → α → Bool) (init : List α) (ops : List (Op α)) : List α :=
  bagFrom (newSorted init less).s init ops

theorem step_perm (s : Sorted α) (bag : List α) (h : s.slice.Perm bag) (op : Op α) :
    (step s op).1.slice.Perm (bagStep s bag op) := by
  cases op with
  | add v =>
    exact (insertAt_perm _ _ _).trans (h.cons v)
  | remove v =>
    simp only [step, bagStep]
    rcases remove_cases s v with h1 | ⟨i, hi, hv, h1⟩
    · simp [h1, h]
    · rw [h1]
      have hne : ¬ ((i : Int) = -1) := by omega
      simp only [hne, if_false]
      have := removeAt_perm_erase s.slice i hi
      rw [removeAt_eq_eraseIdx, hv] at this
      exact this.trans (h.erase v)
  | removeAt i =>
    simp only [step, bagStep, Sorted.removeAtIdx, Sorted.get]
    by_cases hr : i < 0 ∨ i ≥ s.len
    · simp [hr, h]
    · simp only [hr, dite_false, if_false]
      have hlt : i.toNat < s.slice.length := by simp only [Sorted.len] at hr; omega
      exact (removeAt_perm_erase s.slice i.toNat hlt).trans (h.erase _)
  | get i =>
    simp only [step, bagStep, Sorted.get]
    by_cases hr : i < 0 ∨ i ≥ s.len <;> simpa [hr] using h
  | index v => exact h
  | contains v => exact h
  | len => exact h

theorem runFrom_perm (s : Sorted α) (bag : List α) (h : s.slice.Perm bag) (ops : List (Op α)) :
    (runFrom s ops).slice.Perm (bagFrom s bag ops) := by
  induction ops generalizing s bag with
  | nil => exact h
  | cons op ops ih => exact ih _ _ (step_perm s bag h op)

theorem run_perm (less : α → α → Bool) (init : List α) (ops : List (Op α)) :
    (run less init ops).s.slice.Perm (bagOf less init ops) :=
  runFrom_perm _ _ (stableSort_perm less init) ops

/-! ### Add / Index / Remove under a strict weak / strict total order -/

omit [DecidableEq α] in
theorem add_slice (s : Sorted α) (v : α) :
    (s.add v).1.slice = s.slice.take (s.search v) ++ v :: s.slice.drop (s.search v) := rfl

omit [DecidableEq α] in
theorem add_ret (s : Sorted α) (v : α) : (s.add v).2 = (s.search v : Int) := rfl

omit [DecidableEq α] in
/-- after `Add` the returned position holds the value -/
theorem add_getElem (s : Sorted α) (v : α) : (s.add v).1.slice[s.search v]? = some v := by
  rw [add_slice]
  have hle := search_le s v
  have hlen : (s.slice.take (s.search v)).length = s.search v := by rw [List.length_take]; omega
  rw [List.getElem?_append_right (by omega)]
  simp [hlen]

theorem idxOf_of_split (l₁ l₂ : List α) (v : α) (h : v ∉ l₁) : (l₁ ++ v :: l₂).idxOf v = l₁.length := by
  rw [List.idxOf_append]
  simp [h]

omit [DecidableEq α] in
theorem not_mem_take_search (s : Sorted α) (hw : StrictWeak s.less) (hs : IsSorted s.less s.slice) (v : α) :
    v ∉ s.slice.take (s.search v) := by
  intro hmem
  have := (search_split s hw hs v).1 v hmem
  rw [hw.irrefl] at this; cases this

/-- after `Add` the returned position is the FIRST position holding the value -/
theorem add_idxOf (s : Sorted α) (hw : StrictWeak s.less) (hs : IsSorted s.less s.slice) (v : α) :
    (s.add v).1.slice.idxOf v = s.search v := by
  rw [add_slice, idxOf_of_split _ _ _ (not_mem_take_search s hw hs v), List.length_take]
  have := search_le s v
  omega

/-- under a strict total order a present value sits at the search position, which is its first position -/
theorem search_of_mem (s : Sorted α) (ht : StrictTotal s.less) (hs : IsSorted s.less s.slice) (v : α)
    (hv : v ∈ s.slice) :
    ∃ (h : s.search v < s.slice.length), s.slice[s.search v] = v ∧ s.slice.idxOf v = s.search v := by
  have hw := ht.toStrictWeak
  have hnot := not_mem_take_search s hw hs v
  have hdrop : v ∈ s.slice.drop (s.search v) := by
    rw [← List.take_append_drop (s.search v) s.slice, List.mem_append] at hv
    exact hv.resolve_left hnot
  have hlt : s.search v < s.slice.length := by
    have := List.length_pos_of_mem hdrop
    rw [List.length_drop] at this; omega
  have hsplit : s.slice.drop (s.search v) = s.slice[s.search v] :: s.slice.drop (s.search v + 1) :=
    List.drop_eq_getElem_cons hlt
  have h1 : s.less s.slice[s.search v] v = false :=
    (search_split s hw hs v).2 _ (by rw [hsplit]; exact List.mem_cons_self)
  have h2 : s.less v s.slice[s.search v] = false := by
    rw [hsplit, List.mem_cons] at hdrop
    rcases hdrop with heq | hmem
    · rw [← heq]; exact hw.irrefl v
    · have hp : IsSorted s.less (s.slice.drop (s.search v)) := hs.drop
      rw [hsplit] at hp
      exact (List.pairwise_cons.mp hp).1 v hmem
  have heq : s.slice[s.search v] = v := ht.tri _ _ h1 h2
  refine ⟨hlt, heq, ?_⟩
  conv => lhs; rw [← List.take_append_drop (s.search v) s.slice, hsplit, heq]
  rw [idxOf_of_split _ _ _ hnot, List.length_take]
  omega

/-- `Index` under a strict total order: the first position holding the value, or -1 -/
theorem index_first (s : Sorted α) (ht : StrictTotal s.less) (hs : IsSorted s.less s.slice) (v : α) :
    s.index v = if v ∈ s.slice then (s.slice.idxOf v : Int) else -1 := by
  by_cases hv : v ∈ s.slice
  · obtain ⟨hlt, heq, hidx⟩ := search_of_mem s ht hs v hv
    simp only [hv, if_true, hidx]
    unfold Sorted.index
    simp [hlt, heq]
  · simp [hv, index_absent s v hv]

theorem contains_iff (s : Sorted α) (ht : StrictTotal s.less) (hs : IsSorted s.less s.slice) (v : α) :
    s.contains v = true ↔ v ∈ s.slice := by
  unfold Sorted.contains
  rw [index_first s ht hs v]
  by_cases hv : v ∈ s.slice
  · simp only [hv, if_true, iff_true, bne_iff_ne, ne_eq]; omega
  · simp [hv]

/-- `Remove` of a present value under a strict total order: the first occurrence goes, its position is returned -/
theorem remove_present (s : Sorted α) (ht : StrictTotal s.less) (hs : IsSorted s.less s.slice) (v : α)
    (hv : v ∈ s.slice) :
    s.remove v = ({ s with slice := s.slice.erase v }, (s.slice.idxOf v : Int)) := by
  obtain ⟨hlt, heq, hidx⟩ := search_of_mem s ht hs v hv
  have hi : s.index v = (s.search v : Int) := by
    unfold Sorted.index; simp [hlt, heq]
  unfold Sorted.remove
  have hne : ((s.search v : Int) == -1) = false := by apply beq_false_of_ne; omega
  simp only [hi, hne, Bool.false_eq_true, if_false, Int.toNat_natCast, removeAt_eq_eraseIdx, hidx]
  rw [List.erase_eq_eraseIdx_of_idxOf hidx]

/-! ### Get / RemoveAt -/

omit [DecidableEq α] in
theorem get_ok (s : Sorted α) (i : Int) (h0 : 0 ≤ i) (h1 : i < s.len) :
    s.get i = .ok (s.slice[i.toNat]'(by simp only [Sorted.len] at h1; omega)) := by
  unfold Sorted.get
  have : ¬ (i < 0 ∨ i ≥ s.len) := by omega
  simp [this]

omit [DecidableEq α] in
theorem removeAtIdx_ok (s : Sorted α) (i : Int) (h0 : 0 ≤ i) (h1 : i < s.len) :
    s.removeAtIdx i = .ok { s with slice := s.slice.eraseIdx i.toNat } := by
  unfold Sorted.removeAtIdx
  have : ¬ (i < 0 ∨ i ≥ s.len) := by omega
  simp [this, removeAt_eq_eraseIdx]

omit [DecidableEq α] in
theorem get_panic_iff (s : Sorted α) (i : Int) :
    s.get i = .error "custom" ↔ ¬ (0 ≤ i ∧ i < s.len) := by
  unfold Sorted.get
  by_cases h : i < 0 ∨ i ≥ s.len
  · simp only [h, dite_true, true_iff]; omega
  · simp only [h, dite_false, reduceCtorEq, false_iff, Classical.not_not]; omega

omit [DecidableEq α] in
theorem removeAtIdx_panic_iff (s : Sorted α) (i : Int) :
    s.removeAtIdx i = .error "custom" ↔ ¬ (0 ≤ i ∧ i < s.len) := by
  unfold Sorted.removeAtIdx
  by_cases h : i < 0 ∨ i ≥ s.len
  · simp only [h, if_true, true_iff]; omega
  · simp only [h, if_false, reduceCtorEq, false_iff, Classical.not_not]; omega

/-! ### refinement of the functional specification (strict total order) -/

/-- results of a sequence of operations -/
def resultsFrom (s : Sorted α) : List (Op α) → List (Res α)
  | [] => []
  | op :: ops => (step s op).2 :: resultsFrom (step s op).1 ops

/-- one operation of the specification `Spec.Sorted` (state: the sorted arrangement of the multiset) -/
def specStep (less : α → α → Bool) (l : List α) : Op α → List α × Res α
  | .add v => let (l', i) := Spec.Sorted.add less l v; (l', .int i)
  | .remove v => let (l', i) := Spec.Sorted.remove l v; (l', .int i)
  | .removeAt i =>
    match Spec.Sorted.removeAt l i with
    | .ok l' => (l', .ok)
    | .error c => (l, .panic c)
  | .get i =>
    match Spec.Sorted.get l i with
    | .ok a => (l, .val a)
    | .error c => (l, .panic c)
  | .index v => (l, .int (Spec.Sorted.index l v))
  | .contains v => (l, .bool (Spec.Sorted.contains l v))
  | .len => (l, .int l.length)

def specRun (less : α → α → Bool) (l : List α) : List (Op α) → List α × List (Res α)
  | [] => (l, [])
  | op :: ops =>
    let (l', r) := specStep less l op
    let (l'', rs) := specRun less l' ops
    (l'', r :: rs)

omit [DecidableEq α] in
theorem sorted_perm_unique {less : α → α → Bool} (ht : StrictTotal less) (l₁ l₂ : List α)
    (h₁ : IsSorted less l₁) (h₂ : IsSorted less l₂) (hp : l₁.Perm l₂) : l₁ = l₂ :=
  List.Perm.eq_of_pairwise (le := fun a b => less b a = false)
    (fun a b _ _ hab hba => ht.tri a b hba hab) h₁ h₂ hp

theorem step_refines (s : Sorted α) (ht : StrictTotal s.less) (hs : IsSorted s.less s.slice) (op : Op α) :
    ((step s op).1.slice, (step s op).2) = specStep s.less s.slice op := by
  have hw := ht.toStrictWeak
  cases op with
  | add v =>
    simp only [step, specStep, Spec.Sorted.add]
    have hsl : (s.add v).1.slice = Spec.Sorted.sort s.less (v :: s.slice) :=
      sorted_perm_unique ht _ _ (add_sorted s hw hs v) (stableSort_sorted hw _)
        ((insertAt_perm _ _ _).trans (stableSort_perm s.less (v :: s.slice)).symm)
    rw [← hsl, add_idxOf s hw hs v]
    rfl
  | remove v =>
    simp only [step, specStep, Spec.Sorted.remove]
    by_cases hv : v ∈ s.slice
    · simp [hv, remove_present s ht hs v hv]
    · simp [hv, remove_absent s v hv]
  | removeAt i =>
    simp only [step, specStep, Spec.Sorted.removeAt, Sorted.removeAtIdx]
    by_cases h : i < 0 ∨ i ≥ s.len
    · have h' : ¬ (0 ≤ i ∧ i < (s.slice.length : Int)) := by simp only [Sorted.len] at h; omega
      simp [h, h']
    · have h' : (0 ≤ i ∧ i < (s.slice.length : Int)) := by simp only [Sorted.len] at h; omega
      simp [h, h', removeAt_eq_eraseIdx]
  | get i =>
    simp only [step, specStep, Spec.Sorted.get, Sorted.get]
    by_cases h : i < 0 ∨ i ≥ s.len
    · have h' : ¬ (0 ≤ i ∧ i < (s.slice.length : Int)) := by simp only [Sorted.len] at h; omega
      simp [h, h']
    · have h' : (0 ≤ i ∧ i < (s.slice.length : Int)) := by simp only [Sorted.len] at h; omega
      have hlt : i.toNat < s.slice.length := by omega
      simp [h, h']
  | index v =>
    simp only [step, specStep, Spec.Sorted.index, index_first s ht hs v]
  | contains v =>
    simp only [step, specStep, Spec.Sorted.contains]
    have := contains_iff s ht hs v
    by_cases hv : v ∈ s.slice
    · simp [hv, this.mpr hv]
    · have hc : s.contains v = false := by
        cases hcc : s.contains v with
        | false => rfl
        | true => exact absurd (this.mp hcc) hv
      simp [hv, hc]
  | len => rfl

theorem runFrom_refines (s : Sorted α) (ht : StrictTotal s.less) (hs : IsSorted s.less s.slice) (ops : List (Op α)) :
    ((runFrom s ops).slice, resultsFrom s ops) = specRun s.less s.slice ops := by
  induction ops generalizing s with
  | nil => rfl
  | cons op ops ih =>
    have hst := step_refines s ht hs op
    have hless := step_less s op
    have := ih (step s op).1 (by rw [hless]; exact ht) (by rw [hless]; exact step_sorted s ht.toStrictWeak hs op)
    rw [hless] at this
    simp only [runFrom, resultsFrom, specRun, ← hst, ← this]

end

end TypVerif.Lemmas.Sorted
