import TypVerif.Lemmas.PubSubLogCount
/-
Global bookkeeping invariants of the ghost logs:
* `Fresh` (all configurations): publisher ids are not reused — the model's `envStep` refuses a `pubinv p` with
  `p ∈ s.pids`, and `Fresh` tracks the used ids: at most one call of `p` waits for its snapshot; while `p` is unused
  or its call has not taken the snapshot, nothing with publisher id `p` is pending or logged.
* `AtMostOnce` (under `CloneDiscipline`): every key is pending-or-logged at most once, globally.
-/
namespace TypVerif.Lemmas.PubSubLog
open TypVerif TypVerif.Model.PubSub TypVerif.Lemmas.PubSubSafe

/-! ### the keys of a call have no duplicates when `subs` has none -/

def rowKeys (p : Nat) (subs : List Chan) (j : Nat) : List Key := subs.map (fun c => (p, j, c))

theorem callKeys_eq (p : Nat) (evs : List Int) (subs : List Chan) :
    callKeys p evs subs = (evs.zipIdx).flatMap (fun ei => rowKeys p subs ei.2) := by
  simp [callKeys, mkItems, List.map_flatMap, rowKeys, key, Function.comp_def]

theorem count_rowKeys (p j : Nat) (subs : List Chan) (k : Key) :
    (rowKeys p subs j).count k = if k.1 = p ∧ k.2.1 = j then subs.count k.2.2 else 0 := by
  obtain ⟨a, b, c⟩ := k
  induction subs with
  | nil => simp [rowKeys]
  | cons x rest ih =>
    simp only [rowKeys, List.map_cons, List.count_cons] at ih ⊢
    rw [ih]
    by_cases h : a = p ∧ b = j
    · obtain ⟨rfl, rfl⟩ := h
      simp
    · simp only [h, if_false, Nat.zero_add]
      have : ((p, j, x) == (a, b, c)) = false := by
        rw [beq_eq_false_iff_ne]; intro he
        simp only [Prod.mk.injEq] at he
        exact h ⟨he.1.symm, he.2.1.symm⟩
      simp [this]

theorem count_rows_lt (p : Nat) (subs : List Chan) (k : Key) : ∀ (evs : List Int) (n : Nat), k.2.1 < n →
    ((evs.zipIdx n).flatMap (fun ei => rowKeys p subs ei.2)).count k = 0
  | [], _, _ => by simp
  | e :: rest, n, h => by
    simp only [List.zipIdx_cons, List.flatMap_cons, List.count_append, count_rowKeys]
    rw [count_rows_lt p subs k rest (n + 1) (by omega)]
    have : ¬ (k.1 = p ∧ k.2.1 = n) := by omega
    simp [this]

theorem count_rows_le (p : Nat) (subs : List Chan) (k : Key) (hnd : subs.Nodup) : ∀ (evs : List Int) (n : Nat),
    ((evs.zipIdx n).flatMap (fun ei => rowKeys p subs ei.2)).count k ≤ 1
  | [], _ => by simp
  | e :: rest, n => by
    simp only [List.zipIdx_cons, List.flatMap_cons, List.count_append, count_rowKeys]
    by_cases h : k.1 = p ∧ k.2.1 = n
    · rw [count_rows_lt p subs k rest (n + 1) (by omega)]
      simp only [h, and_self, if_true, Nat.add_zero]
      exact List.nodup_iff_count.mp hnd _
    · simp only [h, if_false, Nat.zero_add]
      exact count_rows_le p subs k hnd rest (n + 1)

theorem count_callKeys_le (p : Nat) (evs : List Int) (subs : List Chan) (hnd : subs.Nodup) (k : Key) :
    (callKeys p evs subs).count k ≤ 1 := by
  rw [callKeys_eq]; exact count_rows_le p subs k hnd evs 0

theorem callKeys_nodup (p : Nat) (evs : List Int) (subs : List Chan) (hnd : subs.Nodup) :
    (callKeys p evs subs).Nodup :=
  List.nodup_iff_count.mpr (count_callKeys_le p evs subs hnd)

/-! ### `Fresh` -/

theorem tstep_pub_ne {cfg : Cfg} {s : State} {t t' : Task} {new : List Task} {dl tl : List Key}
    (h : TStep cfg s t t' new dl tl) (hp : isPub t = true) : t' ≠ t := by
  cases h with
  | stuck _ hn => rw [hn] at hp; cases hp
  | ctl h1 h2 => cases t <;> simp [isCtl, isPub] at h1 hp
  | pubSync p o v evs hv =>
    cases hm : mkItems p evs (s.obj o).subs <;> simp [syncNext]
  | pubWait p o v evs hv hw => simp
  | pubAsync p o v evs hv hw => simp
  | _ => simp [isPub] at hp

theorem isPub_of_isPubStart {p : Nat} {t : Task} (h : isPubStart p t = true) : isPub t = true := by
  cases t <;> first | rfl | simp [isPubStart] at h

structure Fresh (s : State) : Prop where
  le1 : ∀ p, nPS p s ≤ 1
  unused : ∀ p, p ∉ s.pids → nPS p s = 0
  zero : ∀ p, (p ∉ s.pids ∨ nPS p s = 1) → ∀ k : Key, k.1 = p → cP k s + cL k s = 0

theorem fresh_init : Fresh ({} : State) := by
  constructor <;> simp [nPS, cP, cL, pendKeys, logs]

theorem fresh_bstep {cfg : Cfg} {s s' : State} (hf : Fresh s) (h : BStep cfg s s') : Fresh s' := by
  cases h with
  | same h1 h2 h3 h4 =>
    have e1 : ∀ p, nPS p s' = nPS p s := fun p => by simp [nPS, h1]
    have e2 : ∀ k, cP k s' + cL k s' = cP k s + cL k s := fun k => by simp [cP, cL, pendKeys, logs, h1, h2, h3]
    exact ⟨fun p => e1 p ▸ hf.le1 p, fun p hp => e1 p ▸ hf.unused p (h4 ▸ hp),
      fun p hp k hk => e2 k ▸ hf.zero p (by rw [e1, h4] at hp; exact hp) k hk⟩
  | spawnCtl t hc h1 h2 h3 h4 =>
    have hq : ∀ p, isPubStart p t = false := fun p => by cases t <;> first | rfl | simp [isCtl] at hc
    have hpk : pk t = [] := by cases t <;> first | rfl | simp [isCtl] at hc
    have e1 : ∀ p, nPS p s' = nPS p s := fun p => by simp [nPS, h1, List.countP_append, hq p]
    have e2 : ∀ k, cP k s' + cL k s' = cP k s + cL k s := fun k => by
      simp [cP, cL, pendKeys, logs, h1, h2, h3, hpk]
    exact ⟨fun p => e1 p ▸ hf.le1 p, fun p hp => e1 p ▸ hf.unused p (h4 ▸ hp),
      fun p hp k hk => e2 k ▸ hf.zero p (by rw [e1, h4] at hp; exact hp) k hk⟩
  | invoke p0 o v evs hp0 h0 h1 h2 h3 =>
    have e1 : ∀ p, nPS p s' = nPS p s + (if p0 = p then 1 else 0) := fun p => by
      simp [nPS, h1, List.countP_append, isPubStart]
    have e2 : ∀ k, cP k s' + cL k s' = cP k s + cL k s := fun k => by
      simp [cP, cL, pendKeys, logs, h1, h2, h3, pk, pend]
    refine ⟨fun p => ?_, fun p hp => ?_, fun p hp k hk => ?_⟩
    · rw [e1]
      by_cases hpp : p0 = p
      · subst hpp; rw [hf.unused p0 hp0]; simp
      · simp [hpp]; exact hf.le1 p
    · rw [h0, List.mem_append, not_or] at hp
      have hne : p0 ≠ p := fun h => hp.2 (by simp [h])
      rw [e1]; simp [hne]; exact hf.unused p hp.1
    · rw [e2]
      by_cases hpp : p0 = p
      · subst hpp; exact hf.zero p0 (Or.inl hp0) k hk
      · refine hf.zero p ?_ k hk
        rw [e1, h0] at hp
        simp only [hpp, if_false, Nat.add_zero, List.mem_append, List.mem_singleton, not_or] at hp
        rcases hp with hp | hp
        · exact Or.inl hp.1
        · exact Or.inr hp
  | task i t t' new dl tl hi hT h1 h2 h3 h4 =>
    refine ⟨fun p => ?_, fun p hp => ?_, fun p hp k hk => ?_⟩
    · have := (task_nPS hi hT h1 p).1
      have := hf.le1 p
      omega
    · have := (task_nPS hi hT h1 p).1
      have := hf.unused p (h4 ▸ hp)
      omega
    · subst hk
      obtain ⟨a, _, _, _⟩ := task_counts hi hT h1 h2 h3 k
      have hle := (task_nPS hi hT h1 k.1).1
      have hpre : k.1 ∉ s.pids ∨ nPS k.1 s = 1 := by
        rcases hp with hp | hp
        · exact Or.inl (h4 ▸ hp)
        · have := hf.le1 k.1
          exact Or.inr (by omega)
      have hz := hf.zero k.1 hpre k rfl
      -- the stepping task is not the snapshot of `k.1`: otherwise `nPS` would have dropped to 0 with `k.1` used
      have hg : gain s t k = 0 := by
        by_cases hq : isPubStart k.1 t = true
        · exfalso
          have hne : t' ≠ t := tstep_pub_ne hT (isPub_of_isPubStart hq)
          have hdrop := (task_nPS hi hT h1 k.1).2 hq hne
          have hused : k.1 ∈ s.pids := by
            apply Classical.byContradiction; intro hnu
            have := hf.unused k.1 hnu
            omega
          rcases hp with hp | hp
          · exact hp (h4 ▸ hused)
          · have := hf.le1 k.1; omega
        · exact gain_zero (by simpa using hq)
      omega

/-- publisher ids are never reused: in every reachable state of every configuration `Fresh` holds -/
theorem fresh_reachable (cfg : Cfg) : ∀ s, Conc.Reachable (sys cfg) s → Fresh s :=
  Conc.invariant (sys cfg) Fresh fresh_init (fun _ _ _ hf h => fresh_bstep hf (succ_bstep h))

/-! ### every key at most once (needs `subs` without duplicates: `Safe`) -/

theorem bstep_tot_le {cfg : Cfg} {s s' : State} (h : BStep cfg s s') (k : Key) :
    cP k s' + cL k s' ≤ cP k s + cL k s ∨
    ∃ (i p o : Nat) (v : Variant) (evs : List Int), s.tasks[i]? = some (Task.pubStart p o v evs) ∧ k.1 = p ∧
      cP k s' + cL k s' ≤ cP k s + cL k s + (callKeys p evs (s.obj o).subs).count k := by
  cases h with
  | same h1 h2 h3 h4 => left; simp [cP, cL, pendKeys, logs, h1, h2, h3]
  | spawnCtl t hc h1 h2 h3 h4 =>
    have hpk : pk t = [] := by cases t <;> first | rfl | simp [isCtl] at hc
    left; simp [cP, cL, pendKeys, logs, h1, h2, h3, hpk]
  | invoke p0 o v evs hp0 h0 h1 h2 h3 => left; simp [cP, cL, pendKeys, logs, h1, h2, h3, pk, pend]
  | task i t t' new dl tl hi hT h1 h2 h3 h4 =>
    obtain ⟨a, _, _, _⟩ := task_counts hi hT h1 h2 h3 k
    by_cases hq : isPubStart k.1 t = true
    · right
      cases t with
      | pubStart p o v evs =>
        have : p = k.1 := by simpa [isPubStart] using hq
        exact ⟨i, p, o, v, evs, hi, this.symm, a⟩
      | _ => simp [isPubStart] at hq
    · left
      rw [gain_zero (by simpa using hq)] at a
      exact a

def AtMostOnce (s : State) : Prop := ∀ k : Key, cP k s + cL k s ≤ 1

theorem atMostOnce_bstep {cfg : Cfg} {s s' : State} (hs : Safe s) (hf : Fresh s) (ha : AtMostOnce s)
    (h : BStep cfg s s') : AtMostOnce s' := by
  intro k
  rcases bstep_tot_le h k with h1 | ⟨i, p, o, v, evs, hi, hk, h1⟩
  · have := ha k; omega
  · have hmem := List.mem_of_getElem? hi
    have ho : o = 0 := hs.obj0 _ hmem
    subst ho
    have hpos : 0 < nPS p s := List.countP_pos_iff.mpr ⟨_, hmem, by simp [isPubStart]⟩
    have hle := hf.le1 p
    have hz := hf.zero p (Or.inr (by omega)) k hk
    have := count_callKeys_le p evs (s.obj 0).subs hs.nodup k
    omega

/-- without clones, in every reachable state every key is pending or logged at most once in total -/
theorem atMostOnce_reachable (cfg : Cfg) (hc : cfg.allowClone = false) :
    ∀ s, Conc.Reachable (sys cfg) s → AtMostOnce s :=
  Conc.invariant' (sys cfg) AtMostOnce (by intro k; simp [cP, cL, pendKeys, logs, sys])
    (fun s _ _ hr ha h => atMostOnce_bstep (no_panic_noClone cfg hc s hr) (fresh_reachable cfg s hr) ha (succ_bstep h))

/-- a timeout entry is written only when the timeout is positive -/
theorem timedOut_nil (cfg : Cfg) (h0 : cfg.timeout ≤ 0) : ∀ s, Conc.Reachable (sys cfg) s → s.timedOut = [] := by
  refine Conc.invariant (sys cfg) (fun s => s.timedOut = []) rfl ?_
  intro s l s' hs h
  cases succ_bstep h with
  | same h1 h2 h3 h4 => rw [h3]; exact hs
  | spawnCtl t hc h1 h2 h3 h4 => rw [h3]; exact hs
  | invoke p0 o v evs hp0 h0 h1 h2 h3 => rw [h3]; exact hs
  | task i t t' new dl tl hi hT h1 h2 h3 h4 =>
    rw [h3, hs]
    cases hT <;> first | rfl | omega

end TypVerif.Lemmas.PubSubLog
