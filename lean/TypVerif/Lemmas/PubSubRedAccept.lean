import TypVerif.Lemmas.PubSubRedSim
/-
C10, completeness of the judge's reduction: from executions of the reduced system to the judge's state sets.
`Closes` is the relational version of `Drv.C10.closure` without step budget and state cap; `advR` of `Drv.C10.advance`; `afterR` of
the fold of `advance` over a trace from `[{}]`.
-/
set_option linter.unusedSectionVars false
namespace TypVerif.Lemmas.PubSubRed
open TypVerif TypVerif.Conc TypVerif.Model.PubSub TypVerif.Drv.C10 TypVerif.Lemmas.ConcAcceptC10

/-- internal closure under `succJ`, states kept in `norm`al form: what `Drv.C10.closure` computes when neither the step budget
nor the state cap is hit -/
inductive Closes (cfg : Cfg) (seed : State → Prop) : State → Prop
  | base {t : State} : seed t → Closes cfg seed t
  | step {t u : State} : Closes cfg seed t → (none, u) ∈ succJ cfg t → Closes cfg seed (norm u)

/-- `Drv.C10.advance` with the full closure, on sets given as predicates -/
def advR (cfg : Cfg) (S : State → Prop) (e : Event) : State → Prop :=
  Closes { cfg with env := [e] }
    (fun t => ∃ s, S s ∧ ∃ u, (some e, u) ∈ succ { cfg with env := [e] } s ∧ t = norm u)

/-- the judge's state set after the events `tr` (full closures) -/
def afterR (cfg : Cfg) (tr : List Event) : State → Prop :=
  tr.foldl (advR cfg) (fun t => t = {})

theorem afterR_snoc (cfg : Cfg) (tr : List Event) (e : Event) : afterR cfg (tr ++ [e]) = advR cfg (afterR cfg tr) e := by
  unfold afterR
  rw [List.foldl_append]; rfl

/-! ### steps do not depend on the menu of the environment, except the invocations -/

theorem succ_internal_env (cfg : Cfg) (E : List Event) {j z : State} (h : (none, z) ∈ succ cfg j) :
    (none, z) ∈ succ { cfg with env := E } j := by
  obtain ⟨hex, hp, _⟩ := J_succ_internal_frame cfg j z h
  obtain ⟨src, hsrc⟩ := (mem_succ_iff cfg j hex hp _).1 h
  refine (mem_succ_iff _ j hex hp _).2 ⟨src, ?_⟩
  cases src with
  | some k =>
    simp only [stepsOf] at hsrc ⊢
    rw [taskSteps_env]; exact hsrc
  | none =>
    simp only [stepsOf] at hsrc ⊢
    rcases List.mem_append.1 hsrc with h1 | h1
    · rcases List.mem_append.1 h1 with h1 | h1
      · exact absurd h1 (J_envSteps_visible cfg j z)
      · exact List.mem_append_left _ (List.mem_append_right _ h1)
    · exact absurd h1 (J_exitSteps_visible j z)

theorem taskSteps_internal_env (cfg : Cfg) (E : List Event) {m t : State} {k : Nat} {l : Option Event} (h : (l, t) ∈ taskSteps cfg m k) :
    (l, t) ∈ taskSteps { cfg with env := E } m k := by
  rw [taskSteps_env]; exact h

theorem succ_visible_env (cfg : Cfg) {j z : State} {e : Event} (h : (some e, z) ∈ succ cfg j) :
    (some e, z) ∈ succ { cfg with env := [e] } j := by
  cases hx : j.exited with
  | true => simp [succ, hx] at h
  | false =>
    cases hm : j.panicked with
    | some m =>
      simp only [succ, hx, hm, Bool.false_eq_true, ↓reduceIte] at h ⊢
      exact h
    | none =>
      simp only [succ, hx, hm, Bool.false_eq_true, ↓reduceIte] at h ⊢
      rcases List.mem_append.1 h with h | h
      · rcases List.mem_append.1 h with h | h
        · rcases List.mem_append.1 h with h | h
          · apply List.mem_append_left; apply List.mem_append_left; apply List.mem_append_left
            unfold envSteps at h ⊢
            obtain ⟨e', _, he'⟩ := List.mem_filterMap.1 h
            cases hs : envStep cfg j e' with
            | none => rw [hs] at he'; cases he'
            | some s' =>
              rw [hs] at he'
              simp only [Option.map_some, Option.some.injEq, Prod.mk.injEq] at he'
              obtain ⟨e1, e2⟩ := he'
              subst e1; subst e2
              refine List.mem_filterMap.2 ⟨e', List.mem_singleton.2 rfl, ?_⟩
              rw [envStep_env, hs]; rfl
          · apply List.mem_append_left; apply List.mem_append_left; apply List.mem_append_right
            obtain ⟨k, hk, hk'⟩ := List.mem_flatMap.1 h
            exact List.mem_flatMap.2 ⟨k, hk, by rw [taskSteps_env]; exact hk'⟩
        · exact List.mem_append_left _ (List.mem_append_right _ h)
      · exact List.mem_append_right _ h

theorem norm_tasks {a b : State} (h : norm a = norm b) : a.tasks = b.tasks :=
  show (norm a).tasks = (norm b).tasks from congrArg State.tasks h

theorem rdShape_congr {j j0 z u : State} (h1 : j0.tasks = j.tasks) (h2 : u.tasks = z.tasks) (i : Nat) : RdShape j0 u i ↔ RdShape j z i := by
  unfold RdShape; rw [h1, h2]

/-- an internal step of the reduced system, transported to a `norm`-equal state and another menu -/
theorem JStep.internal_norm_env {cfg : Cfg} {j z : State} (h : JStep cfg j none z) (E : List Event) {j0 : State} (hn : norm j0 = norm j) :
    ∃ u, (none, u) ∈ succJ { cfg with env := E } j0 ∧ norm u = norm z := by
  have htj := norm_tasks hn
  generalize hl : (none : Option Event) = l at h
  cases h with
  | plain h1 h2 =>
    subst hl
    obtain ⟨u, hu, hnu⟩ := succ_norm_eq hn.symm (succ_internal_env cfg E h1)
    refine ⟨u, succJ_plain _ hu (fun _ i hi => ?_), hnu⟩
    rw [rdShape_congr htj (norm_tasks hnu) i]
    exact h2 rfl i (by rw [← htj]; exact hi)
  | @merged m t k h1 h2 h3 h4 =>
    obtain ⟨m0, hm0, hnm⟩ := succ_norm_eq hn.symm (succ_internal_env cfg E h1)
    obtain ⟨t0, ht0, hnt⟩ := taskSteps_norm_eq hnm.symm (taskSteps_internal_env cfg E h4)
    refine ⟨t0, succJ_merged _ hm0 ((rdShape_congr htj (norm_tasks hnm) k).2 h2) (fun i hi hr => ?_) ht0, hnt⟩
    exact h3 i (by rw [← htj]; exact hi) ((rdShape_congr htj (norm_tasks hnm) i).1 hr)

theorem JStep.visible_norm_env {cfg : Cfg} {j z : State} {e : Event} (h : JStep cfg j (some e) z) {j0 : State} (hn : norm j0 = norm j) :
    ∃ u, (some e, u) ∈ succ { cfg with env := [e] } j0 ∧ norm u = norm z := by
  generalize hl : some e = l at h
  cases h with
  | plain h1 h2 =>
    subst hl
    exact succ_norm_eq hn.symm (succ_visible_env cfg h1)
  | merged h1 h2 h3 h4 => cases hl

theorem init_no_internal (cfg : Cfg) {z : State} {l : Option Event} (h : JStep cfg {} l z) : l ≠ none := by
  intro hl
  subst hl
  have key : ∀ m, (none, m) ∉ succ cfg ({} : State) := by
    intro m hm
    obtain ⟨src, hsrc⟩ := (mem_succ_iff cfg {} rfl rfl _).1 hm
    cases src with
    | some k => simp only [stepsOf] at hsrc; rw [taskSteps_nil_of_ge cfg {} k (Nat.zero_le _)] at hsrc; cases hsrc
    | none =>
      simp only [stepsOf] at hsrc
      rcases List.mem_append.1 hsrc with h1 | h1
      · rcases List.mem_append.1 h1 with h1 | h1
        · exact absurd h1 (J_envSteps_visible cfg {} m)
        · cases h1
      · exact absurd h1 (J_exitSteps_visible {} m)
  generalize hl : (none : Option Event) = l at h
  cases h with
  | plain h1 _ => subst hl; exact key _ h1
  | merged h1 _ _ _ => exact key _ h1

/-- the invariant carried along an execution of the reduced system: the `norm` of the state is in the judge's set, and before the
first event the state is the initial one -/
def InSet (cfg : Cfg) (done : List Event) (j : State) : Prop := afterR cfg done (norm j) ∧ (done = [] → j = {})

theorem inSet_step {cfg : Cfg} {done : List Event} {j z : State} {l : Option Event} (hi : InSet cfg done j) (h : JStep cfg j l z) :
    InSet cfg (done ++ visible [l]) z := by
  cases l with
  | some e =>
    refine ⟨?_, fun h => by simp [visible] at h⟩
    show afterR cfg (done ++ [e]) (norm z)
    rw [afterR_snoc]
    obtain ⟨u, hu, hnu⟩ := h.visible_norm_env (j0 := norm j) (norm_norm j)
    exact Closes.base ⟨norm j, hi.1, u, hu, hnu.symm⟩
  | none =>
    have hd : done ++ visible [(none : Option Event)] = done := by simp [visible]
    rw [hd]
    rcases List.eq_nil_or_concat done with hnil | ⟨d0, e, hd0⟩
    · subst hnil
      have := hi.2 rfl
      subst this
      exact absurd rfl (init_no_internal cfg h)
    · subst hd0
      refine ⟨?_, fun h => by simp at h⟩
      have h1 := hi.1
      rw [List.concat_eq_append, afterR_snoc] at h1 ⊢
      obtain ⟨u, hu, hnu⟩ := h.internal_norm_env [e] (j0 := norm j) (norm_norm j)
      have := Closes.step h1 hu
      rw [hnu] at this
      exact this

theorem inSet_exec {cfg : Cfg} {j z : State} {ls : List (Option Event)} (h : JExec cfg j ls z) :
    ∀ {done : List Event}, InSet cfg done j → InSet cfg (done ++ visible ls) z := by
  induction h with
  | nil s => intro done hi; simpa [visible] using hi
  | @cons s s' s'' l ls h1 _ ih =>
    intro done hi
    have := ih (inSet_step hi h1)
    have e : done ++ visible (l :: ls) = done ++ visible [l] ++ visible ls := by
      cases l <;> simp [visible]
    rw [e]; exact this

/-- COMPLETENESS OF THE JUDGE'S STATE SETS (full closures): after the visible trace of any execution of the model the judge's set
contains the `norm` of a state from which the model's state is reached by lag steps -/
theorem afterR_complete (cfg : Cfg) (hG : ∀ x, Reachable (sys cfg) x → Good x) {s : State} {ls : List (Option Event)}
    (hex : Exec (sys cfg) (sys cfg).init ls s) :
    ∃ j gs, afterR cfg (visible ls) (norm j) ∧ Lag gs j s := by
  obtain ⟨ls', j, gs, h1, h2, h3⟩ := red_complete cfg hG hex
  have := inSet_exec h1 (done := []) ⟨rfl, fun _ => rfl⟩
  rw [List.nil_append, h2] at this
  exact ⟨j, gs, this.1, h3⟩

end TypVerif.Lemmas.PubSubRed
