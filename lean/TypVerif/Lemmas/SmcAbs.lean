import TypVerif.Lemmas.SmcWitness
import TypVerif.Lemmas.RelObj
/-
C04 concurrent half, layer A4: the ABSTRACT side of the simulation.

* `pureRes_sound`, `applyOp` equations / characterisations, `put` / `del` lemmas.
* `observePc` / `observeAll`: `RStar` from `a` to `observeAll a` (every goroutine contributes zero or one
  `RStep.observe`), `Obs` holds afterwards, only `seen` grows.
* `Sim a a' l` (abstract progress accompanying a concrete step labelled `l`) for every shape of `witness`,
  with projection lemmas for `witness`.
* `R_of_parts`, `R_init`, and the glue `sim_exec` / `linearizable_of_steps` that turns the per-step statement
  into linearizability of every execution.
-/
namespace TypVerif.Lemmas.Smc
open TypVerif.Model TypVerif.Model.SyncMapConc TypVerif.Model.RelObj
open TypVerif.Model.SyncMap (alookup ainsert aerase akeys)
open TypVerif.Conc (Exec)

variable {K V : Type} [DecidableEq K] [DecidableEq V]

instance instDecEqMapSpecOp : DecidableEq (mapSpec K V).Op := inferInstanceAs (DecidableEq (Op K V))
instance instDecEqMapSpecRes : DecidableEq (mapSpec K V).Res := inferInstanceAs (DecidableEq (Res K V))

/-- abstract progress accompanying a concrete step labelled `l` -/
def Sim (a a' : AState K V) (l : Option (SyncMapConc.Event K V)) : Prop :=
  RStar (mapSpec K V) a a' ∧ a'.hist = a.hist ++ (l.bind evOf).toList

/-! ### generic helpers -/

theorem rstate_ext {σ O Rs : Type} {a b : RState σ O Rs}
    (h1 : a.pcs = b.pcs) (h2 : a.obj = b.obj) (h3 : a.hist = b.hist) : a = b := by
  cases a; cases b; simp_all

theorem update_self {α : Type} (f : Nat → α) (t : Nat) : update f t (f t) = f := by
  funext u
  unfold update
  split
  · rename_i h; rw [h]
  · rfl

theorem singleton_pair_eq {α β : Type} {a a' : α} {b b' : β} :
    [(a, b)] = [(a', b')] ↔ a' = a ∧ b' = b := by
  constructor
  · intro h; cases h; exact ⟨rfl, rfl⟩
  · intro h; rw [h.1, h.2]

/-! ### `put` / `del` -/

omit [DecidableEq V] in
theorem put_apply (m : K → Option V) (k : K) (v : V) (k' : K) :
    put m k v k' = if k' = k then some v else m k' := rfl

omit [DecidableEq V] in
theorem del_apply (m : K → Option V) (k : K) (k' : K) :
    del m k k' = if k' = k then none else m k' := rfl

omit [DecidableEq V] in
@[simp] theorem put_same (m : K → Option V) (k : K) (v : V) : put m k v k = some v := by
  simp [put]

omit [DecidableEq V] in
theorem put_other (m : K → Option V) (k : K) (v : V) {k' : K} (h : k' ≠ k) : put m k v k' = m k' := by
  simp [put, h]

omit [DecidableEq V] in
@[simp] theorem del_same (m : K → Option V) (k : K) : del m k k = none := by
  simp [del]

omit [DecidableEq V] in
theorem del_other (m : K → Option V) (k : K) {k' : K} (h : k' ≠ k) : del m k k' = m k' := by
  simp [del, h]

omit [DecidableEq V] in
theorem del_eq_self {m : K → Option V} {k : K} (h : m k = none) : del m k = m := by
  funext k'
  unfold del
  split
  · rename_i hk; rw [hk, h]
  · rfl

omit [DecidableEq V] in
theorem put_eq_self {m : K → Option V} {k : K} {v : V} (h : m k = some v) : put m k v = m := by
  funext k'
  unfold put
  split
  · rename_i hk; rw [hk, h]
  · rfl

/-! ### `applyOp` -/

omit [DecidableEq V] in
@[simp] theorem applyOp_load (m : K → Option V) (k : K) :
    applyOp m (.load k) = [(m, .val (m k))] := rfl

omit [DecidableEq V] in
@[simp] theorem applyOp_store (m : K → Option V) (k : K) (v : V) :
    applyOp m (.store k v) = [(put m k v, .done)] := rfl

omit [DecidableEq V] in
theorem applyOp_loadOrStore (m : K → Option V) (k : K) (v : V) :
    applyOp m (.loadOrStore k v) =
      [match m k with | some w => (m, .pair w true) | none => (put m k v, .pair v false)] := rfl

omit [DecidableEq V] in
@[simp] theorem applyOp_loadOrStore_some {m : K → Option V} {k : K} {w : V} (v : V) (h : m k = some w) :
    applyOp m (.loadOrStore k v) = [(m, .pair w true)] := by
  rw [applyOp_loadOrStore, h]

omit [DecidableEq V] in
@[simp] theorem applyOp_loadOrStore_none {m : K → Option V} {k : K} (v : V) (h : m k = none) :
    applyOp m (.loadOrStore k v) = [(put m k v, .pair v false)] := by
  rw [applyOp_loadOrStore, h]

omit [DecidableEq V] in
@[simp] theorem applyOp_loadAndDelete (m : K → Option V) (k : K) :
    applyOp m (.loadAndDelete k) = [(del m k, .val (m k))] := rfl

omit [DecidableEq V] in
@[simp] theorem applyOp_delete (m : K → Option V) (k : K) :
    applyOp m (.delete k) = [(del m k, .done)] := rfl

omit [DecidableEq V] in
@[simp] theorem applyOp_range (m : K → Option V) : applyOp m (.range : Op K V) = [] := rfl

omit [DecidableEq V] in
theorem applyOp_load_eq {m σ' : K → Option V} {k : K} {r : Res K V} :
    applyOp m (.load k) = [(σ', r)] ↔ σ' = m ∧ r = .val (m k) := by
  rw [applyOp_load]; exact singleton_pair_eq

omit [DecidableEq V] in
theorem applyOp_store_eq {m σ' : K → Option V} {k : K} {v : V} {r : Res K V} :
    applyOp m (.store k v) = [(σ', r)] ↔ σ' = put m k v ∧ r = .done := by
  rw [applyOp_store]; exact singleton_pair_eq

omit [DecidableEq V] in
theorem applyOp_loadOrStore_eq {m σ' : K → Option V} {k : K} {v : V} {r : Res K V} :
    applyOp m (.loadOrStore k v) = [(σ', r)] ↔
      (∃ w, m k = some w ∧ σ' = m ∧ r = .pair w true) ∨ (m k = none ∧ σ' = put m k v ∧ r = .pair v false) := by
  cases h : m k with
  | none =>
    rw [applyOp_loadOrStore_none v h, singleton_pair_eq]
    constructor
    · intro hh; exact Or.inr ⟨rfl, hh⟩
    · intro hh
      rcases hh with ⟨w, hw, _⟩ | ⟨_, hh⟩
      · cases hw
      · exact hh
  | some w =>
    rw [applyOp_loadOrStore_some v h, singleton_pair_eq]
    constructor
    · intro hh; exact Or.inl ⟨w, rfl, hh⟩
    · intro hh
      rcases hh with ⟨w', hw, hh⟩ | ⟨hn, _⟩
      · cases hw; exact hh
      · cases hn

omit [DecidableEq V] in
theorem applyOp_loadAndDelete_eq {m σ' : K → Option V} {k : K} {r : Res K V} :
    applyOp m (.loadAndDelete k) = [(σ', r)] ↔ σ' = del m k ∧ r = .val (m k) := by
  rw [applyOp_loadAndDelete]; exact singleton_pair_eq

omit [DecidableEq V] in
theorem applyOp_delete_eq {m σ' : K → Option V} {k : K} {r : Res K V} :
    applyOp m (.delete k) = [(σ', r)] ↔ σ' = del m k ∧ r = .done := by
  rw [applyOp_delete]; exact singleton_pair_eq

omit [DecidableEq V] in
theorem applyOp_range_ne {m σ' : K → Option V} {r : Res K V} :
    applyOp m (.range : Op K V) ≠ [(σ', r)] := by
  rw [applyOp_range]; intro h; cases h

omit [DecidableEq V] in
/-- every operation of the atomic map has exactly one outcome -/
theorem applyOp_singleton (m : K → Option V) {op : Op K V} (hop : op ≠ .range) :
    ∃ σ' r, applyOp m op = [(σ', r)] := by
  cases op with
  | load k => exact ⟨_, _, rfl⟩
  | store k v => exact ⟨_, _, rfl⟩
  | loadOrStore k v => exact ⟨_, _, applyOp_loadOrStore m k v⟩
  | loadAndDelete k => exact ⟨_, _, rfl⟩
  | delete k => exact ⟨_, _, rfl⟩
  | range => exact absurd rfl hop

omit [DecidableEq V] in
theorem mem_applyOp_of_eq {m σ' : K → Option V} {op : Op K V} {r : Res K V}
    (h : applyOp m op = [(σ', r)]) : (σ', r) ∈ applyOp m op := by
  rw [h]; exact List.mem_singleton.mpr rfl

/-! ### `pureRes` -/

omit [DecidableEq K] [DecidableEq V] in
@[simp] theorem pureRes_load (m : K → Option V) (k : K) : pureRes m (.load k) = some (.val (m k)) := rfl
omit [DecidableEq K] [DecidableEq V] in
@[simp] theorem pureRes_store (m : K → Option V) (k : K) (v : V) : pureRes m (.store k v) = none := rfl
omit [DecidableEq K] [DecidableEq V] in
theorem pureRes_loadOrStore (m : K → Option V) (k : K) (v : V) :
    pureRes m (.loadOrStore k v) = (m k).map (fun w => .pair w true) := rfl
omit [DecidableEq K] [DecidableEq V] in
theorem pureRes_loadAndDelete (m : K → Option V) (k : K) :
    pureRes m (.loadAndDelete k) = if (m k).isNone then some (.val none) else none := rfl
omit [DecidableEq K] [DecidableEq V] in
theorem pureRes_delete (m : K → Option V) (k : K) :
    pureRes m (.delete k) = if (m k).isNone then some .done else none := rfl
omit [DecidableEq K] [DecidableEq V] in
@[simp] theorem pureRes_range (m : K → Option V) : pureRes m (.range : Op K V) = none := rfl

omit [DecidableEq V] in
/-- an effect-free result is a result of the sequential map that leaves the map unchanged -/
theorem pureRes_sound {m : K → Option V} {op : Op K V} {r : Res K V}
    (h : pureRes m op = some r) : (m, r) ∈ applyOp m op := by
  cases op with
  | load k =>
    rw [pureRes_load] at h
    cases h
    exact List.mem_singleton.mpr rfl
  | store k v => rw [pureRes_store] at h; cases h
  | loadOrStore k v =>
    rw [pureRes_loadOrStore] at h
    cases hm : m k with
    | none => rw [hm] at h; cases h
    | some w =>
      rw [hm] at h
      cases h
      rw [applyOp_loadOrStore_some v hm]
      exact List.mem_singleton.mpr rfl
  | loadAndDelete k =>
    rw [pureRes_loadAndDelete] at h
    cases hm : m k with
    | none =>
      rw [hm] at h
      cases h
      rw [applyOp_loadAndDelete, del_eq_self hm, hm]
      exact List.mem_singleton.mpr rfl
    | some w => rw [hm] at h; cases h
  | delete k =>
    rw [pureRes_delete] at h
    cases hm : m k with
    | none =>
      rw [hm] at h
      cases h
      rw [applyOp_delete, del_eq_self hm]
      exact List.mem_singleton.mpr rfl
    | some w => rw [hm] at h; cases h
  | range => rw [pureRes_range] at h; cases h

/-! ### `observePc` -/

@[simp] theorem observePc_idle (obj : K → Option V) : observePc obj (.idle : APc K V) = .idle := rfl

@[simp] theorem observePc_done (obj : K → Option V) (op : Op K V) (r : Res K V) :
    observePc obj (.done op r) = .done op r := rfl

theorem observePc_pending (obj : K → Option V) (op : Op K V) (seen : List (Res K V)) :
    observePc obj (.pending op seen) =
      match pureRes obj op with
      | some r => if r ∈ seen then .pending op seen else .pending op (r :: seen)
      | none => .pending op seen := rfl

/-- `observePc` leaves the pc alone or records exactly one new effect-free result -/
theorem observePc_cases (obj : K → Option V) (p : APc K V) :
    observePc obj p = p ∨
      ∃ op seen r, p = .pending op seen ∧ pureRes obj op = some r ∧ r ∉ seen ∧
        observePc obj p = .pending op (r :: seen) := by
  cases p with
  | idle => exact Or.inl rfl
  | done op r => exact Or.inl rfl
  | pending op seen =>
    rw [observePc_pending]
    cases h : pureRes obj op with
    | none => exact Or.inl rfl
    | some r =>
      by_cases hr : r ∈ seen
      · left; simp [hr]
      · right; exact ⟨op, seen, r, rfl, h, hr, by simp [hr]⟩

/-- the shape of `observePc` on a pending goroutine: same operation, `seen` grows by the current pure result -/
theorem observePc_pending_spec (obj : K → Option V) (op : Op K V) (seen : List (Res K V)) :
    ∃ seen', observePc obj (.pending op seen) = .pending op seen' ∧
      (∀ r, r ∈ seen → r ∈ seen') ∧
      (∀ r, pureRes obj op = some r → r ∈ seen') ∧
      (∀ r, r ∈ seen' → r ∈ seen ∨ pureRes obj op = some r) := by
  rw [observePc_pending]
  cases h : pureRes obj op with
  | none =>
    exact ⟨seen, rfl, fun _ hr => hr, fun _ hr => (by cases hr), fun _ hr => Or.inl hr⟩
  | some r =>
    by_cases hr : r ∈ seen
    · refine ⟨seen, by simp [hr], fun _ h' => h', ?_, fun _ h' => Or.inl h'⟩
      intro r' h'; cases h'; exact hr
    · refine ⟨r :: seen, by simp [hr], fun _ h' => List.mem_cons_of_mem _ h', ?_, ?_⟩
      · intro r' h'; cases h'; exact List.mem_cons_self
      · intro r' h'
        rcases List.mem_cons.mp h' with h' | h'
        · right; rw [h']
        · left; exact h'

theorem observePc_eq_idle {obj : K → Option V} {p : APc K V} : observePc obj p = .idle ↔ p = .idle := by
  cases p with
  | idle => simp
  | done op r => simp
  | pending op seen =>
    obtain ⟨seen', h, _⟩ := observePc_pending_spec obj op seen
    rw [h]; simp

theorem observePc_eq_done {obj : K → Option V} {p : APc K V} {op : Op K V} {r : Res K V} :
    observePc obj p = .done op r ↔ p = .done op r := by
  cases p with
  | idle => simp
  | done op' r' => simp
  | pending op' seen =>
    obtain ⟨seen', h, _⟩ := observePc_pending_spec obj op' seen
    rw [h]; simp

/-- a pending goroutine after `observePc` was pending the same operation before, with a smaller `seen` -/
theorem observePc_eq_pending {obj : K → Option V} {p : APc K V} {op : Op K V} {seen' : List (Res K V)}
    (h : observePc obj p = .pending op seen') :
    ∃ seen, p = .pending op seen ∧ (∀ r, r ∈ seen → r ∈ seen') ∧
      (∀ r, pureRes obj op = some r → r ∈ seen') ∧
      (∀ r, r ∈ seen' → r ∈ seen ∨ pureRes obj op = some r) := by
  cases p with
  | idle => rw [observePc_idle] at h; cases h
  | done op' r' => rw [observePc_done] at h; cases h
  | pending op' seen =>
    obtain ⟨s2, h2, h3, h4, h5⟩ := observePc_pending_spec obj op' seen
    rw [h2] at h
    cases h
    exact ⟨seen, rfl, h3, h4, h5⟩

omit [DecidableEq K] [DecidableEq V] in
theorem isIdle_iff {a : APc K V} : IsIdle a ↔ a = .idle := by
  cases a <;> simp [IsIdle]

@[simp] theorem isIdle_observePc {obj : K → Option V} {p : APc K V} : IsIdle (observePc obj p) ↔ IsIdle p := by
  rw [isIdle_iff, isIdle_iff, observePc_eq_idle]

@[simp] theorem pend_observePc {obj : K → Option V} {p : APc K V} {op : Op K V} :
    Pend (observePc obj p) op ↔ Pend p op := by
  cases p with
  | idle => simp
  | done op' r' => simp
  | pending op' seen =>
    obtain ⟨seen', h, _⟩ := observePc_pending_spec obj op' seen
    rw [h]
    exact Iff.rfl

@[simp] theorem doneWith_observePc {obj : K → Option V} {p : APc K V} {f : Op K V → Bool} {r : Res K V} :
    DoneWith (observePc obj p) f r ↔ DoneWith p f r := by
  cases p with
  | idle => simp
  | done op' r' => simp
  | pending op' seen =>
    obtain ⟨seen', h, _⟩ := observePc_pending_spec obj op' seen
    rw [h]
    exact Iff.rfl

@[simp] theorem isPending_observePc {obj : K → Option V} {p : APc K V} :
    isPending (observePc obj p) = isPending p := by
  cases p with
  | idle => simp
  | done op' r' => simp
  | pending op' seen =>
    obtain ⟨seen', h, _⟩ := observePc_pending_spec obj op' seen
    rw [h]
    rfl

/-- only `seen` grows -/
theorem seenOf_observePc_mono {obj : K → Option V} {p : APc K V} {r : Res K V}
    (h : r ∈ seenOf p) : r ∈ seenOf (observePc obj p) := by
  cases p with
  | idle => exact h
  | done op' r' => exact h
  | pending op' seen =>
    obtain ⟨seen', h1, h2, _⟩ := observePc_pending_spec obj op' seen
    rw [h1]
    exact h2 r h

/-- the current effect-free result of a pending goroutine is in `seen` after `observePc` -/
theorem mem_seenOf_observePc {obj : K → Option V} {p : APc K V} {op : Op K V} {r : Res K V}
    (hp : Pend p op) (hr : pureRes obj op = some r) : r ∈ seenOf (observePc obj p) := by
  cases p with
  | idle => exact hp.elim
  | done op' r' => exact hp.elim
  | pending op' seen =>
    have hp' : op' = op := hp
    subst hp'
    obtain ⟨seen', h1, _, h3, _⟩ := observePc_pending_spec obj op' seen
    rw [h1]
    exact h3 r hr

theorem retOk_observePc {obj : K → Option V} {p : APc K V} {r : Res K V}
    (h : RetOk p r) : RetOk (observePc obj p) r := by
  cases p with
  | idle => exact h
  | done op' r' => exact h
  | pending op' seen =>
    obtain ⟨seen', h1, h2, _⟩ := observePc_pending_spec obj op' seen
    rw [h1]
    exact h2 r h

/-! ### `observeAll` -/

@[simp] theorem observeAll_obj (a : AState K V) : (observeAll a).obj = a.obj := rfl
@[simp] theorem observeAll_hist (a : AState K V) : (observeAll a).hist = a.hist := rfl
@[simp] theorem observeAll_pcs (a : AState K V) (t : Nat) :
    (observeAll a).pcs t = observePc a.obj (a.pcs t) := rfl

/-- `observePc` applied to the goroutines `< m` only -/
def observeUpTo (m : Nat) (a : AState K V) : AState K V :=
  { a with pcs := fun t => if t < m then observePc a.obj (a.pcs t) else a.pcs t }

@[simp] theorem observeUpTo_obj (m : Nat) (a : AState K V) : (observeUpTo m a).obj = a.obj := rfl
@[simp] theorem observeUpTo_hist (m : Nat) (a : AState K V) : (observeUpTo m a).hist = a.hist := rfl
theorem observeUpTo_pcs (m : Nat) (a : AState K V) (t : Nat) :
    (observeUpTo m a).pcs t = if t < m then observePc a.obj (a.pcs t) else a.pcs t := rfl

theorem observeUpTo_zero (a : AState K V) : observeUpTo 0 a = a := by
  apply rstate_ext
  · funext t; rw [observeUpTo_pcs, if_neg (Nat.not_lt_zero t)]
  · rfl
  · rfl

theorem rstar_observeUpTo (a : AState K V) (m : Nat) : RStar (mapSpec K V) a (observeUpTo m a) := by
  induction m with
  | zero => rw [observeUpTo_zero]; exact RStar.refl (S := mapSpec K V) a
  | succ m ih =>
    rcases observePc_cases a.obj (a.pcs m) with h | ⟨op, seen, r, hp, hr, _, ho⟩
    · -- goroutine `m` contributes nothing
      have heq : observeUpTo (m + 1) a = observeUpTo m a := by
        apply rstate_ext
        · funext t
          rw [observeUpTo_pcs, observeUpTo_pcs]
          by_cases h1 : t < m
          · rw [if_pos h1, if_pos (Nat.lt_succ_of_lt h1)]
          · by_cases h2 : t = m
            · subst h2
              rw [if_pos (Nat.lt_succ_self t), if_neg h1, h]
            · have h3 : ¬ t < m + 1 := by omega
              rw [if_neg h1, if_neg h3]
        · rfl
        · rfl
      rw [heq]; exact ih
    · -- goroutine `m` contributes one `observe`
      have hpm : (observeUpTo m a).pcs m = .pending op seen := by
        rw [observeUpTo_pcs, if_neg (Nat.lt_irrefl m), hp]
      have hmem : ((observeUpTo m a).obj, r) ∈ (mapSpec K V).apply (observeUpTo m a).obj op :=
        pureRes_sound hr
      have hstep := RStep.observe (S := mapSpec K V) (observeUpTo m a) m op seen r hpm hmem
      have heq : observeUpTo (m + 1) a =
          { observeUpTo m a with pcs := update (observeUpTo m a).pcs m (.pending op (r :: seen)) } := by
        apply rstate_ext
        · funext t
          show (observeUpTo (m + 1) a).pcs t = update (observeUpTo m a).pcs m (.pending op (r :: seen)) t
          rw [observeUpTo_pcs]
          by_cases h2 : t = m
          · subst h2
            rw [if_pos (Nat.lt_succ_self t), update_same, ho]
          · rw [update_other _ _ _ h2, observeUpTo_pcs]
            by_cases h1 : t < m
            · rw [if_pos h1, if_pos (Nat.lt_succ_of_lt h1)]
            · have h3 : ¬ t < m + 1 := by omega
              rw [if_neg h1, if_neg h3]
        · rfl
        · rfl
      rw [heq]
      exact RStar.tail ih hstep

theorem observeUpTo_eq_observeAll {a : AState K V} (n : Nat) (hidle : ∀ t, n ≤ t → a.pcs t = .idle) :
    observeUpTo n a = observeAll a := by
  apply rstate_ext
  · funext t
    rw [observeUpTo_pcs, observeAll_pcs]
    by_cases h : t < n
    · rw [if_pos h]
    · rw [if_neg h, hidle t (Nat.le_of_not_lt h), observePc_idle]
  · rfl
  · rfl

/-- all (finitely many non-idle) goroutines record their current effect-free result: abstract `observe` steps -/
theorem rstar_observeAll {a : AState K V} (n : Nat) (hidle : ∀ t, n ≤ t → a.pcs t = .idle) :
    RStar (mapSpec K V) a (observeAll a) := by
  rw [← observeUpTo_eq_observeAll n hidle]
  exact rstar_observeUpTo a n

/-- after observing, every pending goroutine has its current effect-free result in `seen` -/
theorem obs_observeAll (a : AState K V) : Obs (observeAll a).obj (observeAll a).pcs := by
  intro t op seen' hp r hr
  rw [observeAll_pcs] at hp
  obtain ⟨seen, _, _, h3, _⟩ := observePc_eq_pending hp
  exact h3 r hr

theorem observeAll_idle {a : AState K V} {n : Nat} (hidle : ∀ t, n ≤ t → a.pcs t = .idle) :
    ∀ t, n ≤ t → (observeAll a).pcs t = .idle := by
  intro t ht
  rw [observeAll_pcs, hidle t ht, observePc_idle]

/-- one abstract step followed by `observeAll` -/
theorem rstar_step_observeAll {a b : AState K V} (n : Nat) (hstep : RStep (mapSpec K V) a b)
    (hidle : ∀ t, n ≤ t → b.pcs t = .idle) : RStar (mapSpec K V) a (observeAll b) :=
  TypVerif.Lemmas.RelObj.rstar_trans (TypVerif.Lemmas.RelObj.rstar_single hstep) (rstar_observeAll n hidle)

omit [DecidableEq K] [DecidableEq V] in
theorem idle_update {pcs : Nat → APc K V} {n t : Nat} (hidle : ∀ u, n ≤ u → pcs u = .idle) (ht : t < n)
    (p : APc K V) : ∀ u, n ≤ u → update pcs t p u = .idle := by
  intro u hu
  have hne : u ≠ t := by omega
  rw [update_other _ _ _ hne]
  exact hidle u hu

/-! ### `evOf`, `linPc` -/

omit [DecidableEq K] [DecidableEq V] in
theorem evOf_inv (t : Tid) {op : Op K V} (hop : op ≠ .range) :
    evOf (.inv t op : SyncMapConc.Event K V) = some (.inv t op) := by
  cases op <;> first | rfl | exact absurd rfl hop

omit [DecidableEq K] [DecidableEq V] in
@[simp] theorem evOf_inv_range (t : Tid) : evOf (.inv t .range : SyncMapConc.Event K V) = none := rfl

omit [DecidableEq K] [DecidableEq V] in
theorem evOf_res (t : Tid) {r : Res K V} (hr : ∀ l, r ≠ .pairs l) :
    evOf (.res t r : SyncMapConc.Event K V) = some (.res t r) := by
  cases r <;> first | rfl | exact absurd rfl (hr _)

omit [DecidableEq K] [DecidableEq V] in
@[simp] theorem evOf_res_pairs (t : Tid) (l : List (K × V)) :
    evOf (.res t (.pairs l) : SyncMapConc.Event K V) = none := rfl

omit [DecidableEq V] in
@[simp] theorem linPc_idle (obj : K → Option V) : linPc obj (.idle : APc K V) = (obj, .idle) := rfl
omit [DecidableEq V] in
@[simp] theorem linPc_done (obj : K → Option V) (op : Op K V) (r : Res K V) :
    linPc obj (.done op r) = (obj, .done op r) := rfl

omit [DecidableEq V] in
theorem linPc_pending_cons {obj σ' : K → Option V} {op : Op K V} {seen : List (Res K V)} {r : Res K V}
    {rest : List ((K → Option V) × Res K V)} (h : applyOp obj op = (σ', r) :: rest) :
    linPc obj (.pending op seen) = (σ', .done op r) := by
  simp only [linPc, h]

omit [DecidableEq V] in
theorem linPc_pending_nil {obj : K → Option V} {op : Op K V} {seen : List (Res K V)}
    (h : applyOp obj op = []) : linPc obj (.pending op seen) = (obj, .pending op seen) := by
  simp only [linPc, h]

omit [DecidableEq V] in
/-- `linPc` does nothing, or performs the unique outcome of the pending operation -/
theorem linPc_cases (obj : K → Option V) (p : APc K V) :
    linPc obj p = (obj, p) ∨
      ∃ op seen σ' r, p = .pending op seen ∧ (σ', r) ∈ applyOp obj op ∧ linPc obj p = (σ', .done op r) := by
  cases p with
  | idle => exact Or.inl rfl
  | done op r => exact Or.inl rfl
  | pending op seen =>
    cases happ : applyOp obj op with
    | nil => exact Or.inl (linPc_pending_nil happ)
    | cons q rest =>
      obtain ⟨σ', r⟩ := q
      refine Or.inr ⟨op, seen, σ', r, rfl, ?_, linPc_pending_cons happ⟩
      rw [happ]; exact List.mem_cons_self

/-! ### the shapes of `witness` -/

theorem witness_inv (s : State K V) (t t' : Tid) {op : Op K V} (a : AState K V) (hop : op ≠ .range) :
    witness s t (some (.inv t' op)) a =
      observeAll { a with pcs := update a.pcs t (.pending op []), hist := a.hist ++ [.inv t op] } := by
  cases op <;> first | rfl | exact absurd rfl hop

@[simp] theorem witness_inv_range (s : State K V) (t t' : Tid) (a : AState K V) :
    witness s t (some (.inv t' .range)) a = observeAll a := rfl

theorem witness_res (s : State K V) (t t' : Tid) {r : Res K V} (a : AState K V) (hr : ∀ l, r ≠ .pairs l) :
    witness s t (some (.res t' r)) a =
      observeAll { a with pcs := update a.pcs t .idle, hist := a.hist ++ [.res t r] } := by
  cases r <;> first | rfl | exact absurd rfl (hr _)

@[simp] theorem witness_res_pairs (s : State K V) (t t' : Tid) (l : List (K × V)) (a : AState K V) :
    witness s t (some (.res t' (.pairs l))) a = observeAll a := rfl

theorem witness_none_lin (s : State K V) (t : Tid) (a : AState K V)
    (hlin : isLin s.sh (s.pc t) (a.pcs t) = true) :
    witness s t none a =
      observeAll { a with pcs := update a.pcs t (linPc a.obj (a.pcs t)).2, obj := (linPc a.obj (a.pcs t)).1 } := by
  simp only [witness, hlin, if_true]

theorem witness_none_tau (s : State K V) (t : Tid) (a : AState K V)
    (hlin : isLin s.sh (s.pc t) (a.pcs t) = false) :
    witness s t none a = observeAll a := by
  simp [witness, hlin]

/-! projections of `witness`: invocation -/

@[simp] theorem witness_obj_inv (s : State K V) (t t' : Tid) (op : Op K V) (a : AState K V) :
    (witness s t (some (.inv t' op)) a).obj = a.obj := by
  cases op <;> rfl

theorem witness_hist_inv (s : State K V) (t t' : Tid) {op : Op K V} (a : AState K V) (hop : op ≠ .range) :
    (witness s t (some (.inv t' op)) a).hist = a.hist ++ [.inv t op] := by
  rw [witness_inv s t t' a hop]; rfl

theorem witness_pcs_inv_self (s : State K V) (t t' : Tid) {op : Op K V} (a : AState K V) (hop : op ≠ .range) :
    (witness s t (some (.inv t' op)) a).pcs t = observePc a.obj (.pending op []) := by
  rw [witness_inv s t t' a hop, observeAll_pcs]
  show observePc a.obj (update a.pcs t (.pending op []) t) = _
  rw [update_same]

theorem witness_pcs_inv_other (s : State K V) (t t' : Tid) (op : Op K V) (a : AState K V) {u : Tid}
    (hu : u ≠ t) : (witness s t (some (.inv t' op)) a).pcs u = observePc a.obj (a.pcs u) := by
  by_cases hop : op = .range
  · subst hop; rfl
  · rw [witness_inv s t t' a hop, observeAll_pcs]
    show observePc a.obj (update a.pcs t (.pending op []) u) = _
    rw [update_other _ _ _ hu]

@[simp] theorem witness_hist_inv_range (s : State K V) (t t' : Tid) (a : AState K V) :
    (witness s t (some (.inv t' .range)) a).hist = a.hist := rfl

@[simp] theorem witness_pcs_inv_range (s : State K V) (t t' : Tid) (a : AState K V) (u : Tid) :
    (witness s t (some (.inv t' .range)) a).pcs u = observePc a.obj (a.pcs u) := rfl

/-! projections of `witness`: response -/

@[simp] theorem witness_obj_res (s : State K V) (t t' : Tid) (r : Res K V) (a : AState K V) :
    (witness s t (some (.res t' r)) a).obj = a.obj := by
  cases r <;> rfl

theorem witness_hist_res (s : State K V) (t t' : Tid) {r : Res K V} (a : AState K V) (hr : ∀ l, r ≠ .pairs l) :
    (witness s t (some (.res t' r)) a).hist = a.hist ++ [.res t r] := by
  rw [witness_res s t t' a hr]; rfl

theorem witness_pcs_res_self (s : State K V) (t t' : Tid) {r : Res K V} (a : AState K V)
    (hr : ∀ l, r ≠ .pairs l) : (witness s t (some (.res t' r)) a).pcs t = .idle := by
  rw [witness_res s t t' a hr, observeAll_pcs]
  show observePc a.obj (update a.pcs t .idle t) = _
  rw [update_same, observePc_idle]

theorem witness_pcs_res_other (s : State K V) (t t' : Tid) (r : Res K V) (a : AState K V) {u : Tid}
    (hu : u ≠ t) : (witness s t (some (.res t' r)) a).pcs u = observePc a.obj (a.pcs u) := by
  by_cases hr : ∀ l, r ≠ .pairs l
  · rw [witness_res s t t' a hr, observeAll_pcs]
    show observePc a.obj (update a.pcs t .idle u) = _
    rw [update_other _ _ _ hu]
  · cases r with
    | pairs l => rfl
    | done => exact absurd (fun l h => by cases h) hr
    | val o => exact absurd (fun l h => by cases h) hr
    | pair w b => exact absurd (fun l h => by cases h) hr

@[simp] theorem witness_hist_res_pairs (s : State K V) (t t' : Tid) (l : List (K × V)) (a : AState K V) :
    (witness s t (some (.res t' (.pairs l))) a).hist = a.hist := rfl

@[simp] theorem witness_pcs_res_pairs (s : State K V) (t t' : Tid) (l : List (K × V)) (a : AState K V) (u : Tid) :
    (witness s t (some (.res t' (.pairs l))) a).pcs u = observePc a.obj (a.pcs u) := rfl

/-! projections of `witness`: internal step -/

@[simp] theorem witness_hist_none (s : State K V) (t : Tid) (a : AState K V) :
    (witness s t none a).hist = a.hist := by
  cases hlin : isLin s.sh (s.pc t) (a.pcs t) with
  | true => rw [witness_none_lin s t a hlin]; rfl
  | false => rw [witness_none_tau s t a hlin]; rfl

theorem witness_obj_tau (s : State K V) (t : Tid) (a : AState K V)
    (hlin : isLin s.sh (s.pc t) (a.pcs t) = false) : (witness s t none a).obj = a.obj := by
  rw [witness_none_tau s t a hlin]; rfl

theorem witness_pcs_tau (s : State K V) (t : Tid) (a : AState K V)
    (hlin : isLin s.sh (s.pc t) (a.pcs t) = false) (u : Tid) :
    (witness s t none a).pcs u = observePc a.obj (a.pcs u) := by
  rw [witness_none_tau s t a hlin]; rfl

theorem witness_obj_lin (s : State K V) (t : Tid) (a : AState K V) {op : Op K V} {seen : List (Res K V)}
    {σ' : K → Option V} {r : Res K V}
    (hlin : isLin s.sh (s.pc t) (a.pcs t) = true) (hp : a.pcs t = .pending op seen)
    (happ : applyOp a.obj op = [(σ', r)]) : (witness s t none a).obj = σ' := by
  rw [witness_none_lin s t a hlin]
  show (linPc a.obj (a.pcs t)).1 = σ'
  rw [hp, linPc_pending_cons happ]

theorem witness_pcs_lin_self (s : State K V) (t : Tid) (a : AState K V) {op : Op K V} {seen : List (Res K V)}
    {σ' : K → Option V} {r : Res K V}
    (hlin : isLin s.sh (s.pc t) (a.pcs t) = true) (hp : a.pcs t = .pending op seen)
    (happ : applyOp a.obj op = [(σ', r)]) : (witness s t none a).pcs t = .done op r := by
  rw [witness_none_lin s t a hlin, observeAll_pcs]
  show observePc _ (update a.pcs t (linPc a.obj (a.pcs t)).2 t) = _
  rw [update_same, hp, linPc_pending_cons happ, observePc_done]

theorem witness_pcs_lin_other (s : State K V) (t : Tid) (a : AState K V) {op : Op K V} {seen : List (Res K V)}
    {σ' : K → Option V} {r : Res K V}
    (hlin : isLin s.sh (s.pc t) (a.pcs t) = true) (hp : a.pcs t = .pending op seen)
    (happ : applyOp a.obj op = [(σ', r)]) {u : Tid} (hu : u ≠ t) :
    (witness s t none a).pcs u = observePc σ' (a.pcs u) := by
  rw [witness_none_lin s t a hlin, observeAll_pcs]
  show observePc (linPc a.obj (a.pcs t)).1 (update a.pcs t (linPc a.obj (a.pcs t)).2 u) = _
  rw [update_other _ _ _ hu, hp, linPc_pending_cons happ]

/-! ### `Sim` for every shape of `witness` -/

theorem sim_inv (s : State K V) {a : AState K V} {n : Nat} {t : Tid} {op : Op K V}
    (hidle : ∀ u, n ≤ u → a.pcs u = .idle) (ht : t < n)
    (hpc : a.pcs t = .idle) (hop : op ≠ .range) :
    Sim a (witness s t (some (.inv t op)) a) (some (.inv t op)) := by
  rw [witness_inv s t t a hop]
  refine ⟨rstar_step_observeAll n (RStep.inv (S := mapSpec K V) a t op hpc) (idle_update hidle ht _), ?_⟩
  show a.hist ++ [.inv t op] = a.hist ++ (Option.bind (some (.inv t op)) evOf).toList
  rw [Option.bind_some, evOf_inv t hop]
  rfl

theorem sim_inv_range (s : State K V) {a : AState K V} {n : Nat} (t t' : Tid)
    (hidle : ∀ u, n ≤ u → a.pcs u = .idle) :
    Sim a (witness s t (some (.inv t' .range)) a) (some (.inv t' .range)) := by
  rw [witness_inv_range]
  refine ⟨rstar_observeAll n hidle, ?_⟩
  show a.hist = a.hist ++ (Option.bind (some (.inv t' .range)) evOf).toList
  rw [Option.bind_some, evOf_inv_range]
  exact (List.append_nil _).symm

theorem sim_res (s : State K V) {a : AState K V} {n : Nat} {t : Tid} {r : Res K V}
    (hidle : ∀ u, n ≤ u → a.pcs u = .idle) (ht : t < n)
    (hret : RetOk (a.pcs t) r) (hr : ∀ l, r ≠ .pairs l) :
    Sim a (witness s t (some (.res t r)) a) (some (.res t r)) := by
  rw [witness_res s t t a hr]
  have hstep : RStep (mapSpec K V) a { a with pcs := update a.pcs t .idle, hist := a.hist ++ [.res t r] } := by
    cases hp : a.pcs t with
    | idle => rw [hp] at hret; exact False.elim hret
    | pending op seen =>
      rw [hp] at hret
      exact RStep.resSeen (S := mapSpec K V) a t op seen r hp hret
    | done op r' =>
      rw [hp] at hret
      have hrr : r' = r := hret
      subst hrr
      exact RStep.resDone (S := mapSpec K V) a t op r' hp
  refine ⟨rstar_step_observeAll n hstep (idle_update hidle ht _), ?_⟩
  show a.hist ++ [.res t r] = a.hist ++ (Option.bind (some (.res t r)) evOf).toList
  rw [Option.bind_some, evOf_res t hr]
  rfl

theorem sim_res_range (s : State K V) {a : AState K V} {n : Nat} (t t' : Tid) (l : List (K × V))
    (hidle : ∀ u, n ≤ u → a.pcs u = .idle) :
    Sim a (witness s t (some (.res t' (.pairs l))) a) (some (.res t' (.pairs l))) := by
  rw [witness_res_pairs]
  refine ⟨rstar_observeAll n hidle, ?_⟩
  show a.hist = a.hist ++ (Option.bind (some (.res t' (.pairs l))) evOf).toList
  rw [Option.bind_some, evOf_res_pairs]
  exact (List.append_nil _).symm

/-- an internal concrete step is always matched (a `lin` of the stepping goroutine, if any, then `observeAll`) -/
theorem sim_none (s : State K V) {a : AState K V} {n : Nat} {t : Tid}
    (hidle : ∀ u, n ≤ u → a.pcs u = .idle) (ht : t < n) :
    Sim a (witness s t none a) none := by
  refine ⟨?_, ?_⟩
  · cases hlin : isLin s.sh (s.pc t) (a.pcs t) with
    | false => rw [witness_none_tau s t a hlin]; exact rstar_observeAll n hidle
    | true =>
      rw [witness_none_lin s t a hlin]
      rcases linPc_cases a.obj (a.pcs t) with hl | ⟨op, seen, σ', r, hp, hmem, hl⟩
      · have heq : ({ a with pcs := update a.pcs t (linPc a.obj (a.pcs t)).2,
                             obj := (linPc a.obj (a.pcs t)).1 } : AState K V) = a := by
          apply rstate_ext
          · show update a.pcs t (linPc a.obj (a.pcs t)).2 = a.pcs
            rw [hl]; exact update_self _ _
          · show (linPc a.obj (a.pcs t)).1 = a.obj
            rw [hl]
          · rfl
        rw [heq]; exact rstar_observeAll n hidle
      · have hstep := RStep.lin (S := mapSpec K V) a t op seen σ' r hp hmem
        have heq : ({ a with pcs := update a.pcs t (linPc a.obj (a.pcs t)).2,
                             obj := (linPc a.obj (a.pcs t)).1 } : AState K V) =
            { a with pcs := update a.pcs t (.done op r), obj := σ' } := by
          apply rstate_ext
          · show update a.pcs t (linPc a.obj (a.pcs t)).2 = update a.pcs t (.done op r)
            rw [hl]
          · show (linPc a.obj (a.pcs t)).1 = σ'
            rw [hl]
          · rfl
        rw [heq]
        exact rstar_step_observeAll n hstep (idle_update hidle ht _)
  · rw [witness_hist_none]
    exact (List.append_nil _).symm

/-- linearization step of goroutine `t` -/
theorem sim_lin (s : State K V) {a : AState K V} {n : Nat} {t : Tid} {op : Op K V} {seen : List (Res K V)}
    {σ' : K → Option V} {r : Res K V}
    (hidle : ∀ u, n ≤ u → a.pcs u = .idle) (ht : t < n)
    (hlin : isLin s.sh (s.pc t) (a.pcs t) = true) (hp : a.pcs t = .pending op seen)
    (happ : applyOp a.obj op = [(σ', r)]) :
    Sim a (witness s t none a) none ∧ (witness s t none a).obj = σ' ∧
      (witness s t none a).pcs t = .done op r ∧
      ∀ u, u ≠ t → (witness s t none a).pcs u = observePc σ' (a.pcs u) :=
  ⟨sim_none s hidle ht, witness_obj_lin s t a hlin hp happ, witness_pcs_lin_self s t a hlin hp happ,
    fun _ hu => witness_pcs_lin_other s t a hlin hp happ hu⟩

/-- internal step that is not a linearization step -/
theorem sim_tau (s : State K V) {a : AState K V} {n : Nat} {t : Tid}
    (hidle : ∀ u, n ≤ u → a.pcs u = .idle) (ht : t < n)
    (hlin : isLin s.sh (s.pc t) (a.pcs t) = false) :
    Sim a (witness s t none a) none ∧ (witness s t none a).obj = a.obj ∧
      ∀ u, (witness s t none a).pcs u = observePc a.obj (a.pcs u) :=
  ⟨sim_none s hidle ht, witness_obj_tau s t a hlin, witness_pcs_tau s t a hlin⟩

/-! ### assembling `R` -/

theorem R_of_parts {s' : State K V} {a' : AState K V}
    (hg : G s' a'.pcs) (habs : ∀ k, a'.obj k = absOf s'.sh k)
    (hthr : ∀ t, T s'.sh t (s'.pc t) (a'.pcs t)) (hobs : Obs a'.obj a'.pcs) : R s' a' :=
  ⟨hg, habs, hthr, hobs⟩

theorem R_g {s : State K V} {a : AState K V} (h : R s a) : G s a.pcs := h.g
theorem R_abs {s : State K V} {a : AState K V} (h : R s a) : ∀ k, a.obj k = absOf s.sh k := h.abs
theorem R_thr {s : State K V} {a : AState K V} (h : R s a) : ∀ t, T s.sh t (s.pc t) (a.pcs t) := h.thr
theorem R_obs {s : State K V} {a : AState K V} (h : R s a) : Obs a.obj a.pcs := h.obs

theorem R_iff_parts {s : State K V} {a : AState K V} :
    R s a ↔ G s a.pcs ∧ (∀ k, a.obj k = absOf s.sh k) ∧ (∀ t, T s.sh t (s.pc t) (a.pcs t)) ∧ Obs a.obj a.pcs :=
  ⟨fun h => ⟨h.g, h.abs, h.thr, h.obs⟩, fun h => ⟨h.1, h.2.1, h.2.2.1, h.2.2.2⟩⟩

/-- `R` for a witness state: the `Obs` part is free (every `witness` ends with `observeAll`) -/
theorem obs_witness (s : State K V) (t : Tid) (l : Option (SyncMapConc.Event K V)) (a : AState K V) :
    Obs (witness s t l a).obj (witness s t l a).pcs := by
  cases l with
  | none =>
    cases hlin : isLin s.sh (s.pc t) (a.pcs t) with
    | true => rw [witness_none_lin s t a hlin]; exact obs_observeAll _
    | false => rw [witness_none_tau s t a hlin]; exact obs_observeAll _
  | some e =>
    cases e with
    | inv t' op =>
      by_cases hop : op = .range
      · subst hop; exact obs_observeAll _
      · rw [witness_inv s t t' a hop]; exact obs_observeAll _
    | res t' r =>
      by_cases hr : ∀ l, r ≠ .pairs l
      · rw [witness_res s t t' a hr]; exact obs_observeAll _
      · cases r with
        | pairs l => exact obs_observeAll _
        | done => exact absurd (fun l h => by cases h) hr
        | val o => exact absurd (fun l h => by cases h) hr
        | pair w b => exact absurd (fun l h => by cases h) hr

omit [DecidableEq K] [DecidableEq V] in
theorem State.pc_of_le {s : State K V} {u : Tid} (h : s.pcs.length ≤ u) : s.pc u = .idle := by
  unfold State.pc
  rw [List.getD_eq_getElem?_getD, List.getElem?_eq_none h]
  rfl

/-- goroutines beyond the concrete goroutine list are abstractly idle -/
theorem R.idle_of_le {s : State K V} {a : AState K V} (h : R s a) :
    ∀ u, s.pcs.length ≤ u → a.pcs u = .idle := by
  intro u hu
  have ht := h.thr u
  rw [State.pc_of_le hu] at ht
  exact isIdle_iff.mp ht.1

/-! ### top-level glue -/

omit [DecidableEq K] [DecidableEq V] in
theorem init_pc (n : Nat) (zst : Bool) (t : Tid) :
    (SyncMapConc.init n zst : State K V).pc t = .idle := by
  unfold State.pc SyncMapConc.init
  rw [List.getD_eq_getElem?_getD]
  by_cases h : t < n
  · rw [List.getElem?_replicate, if_pos h]; rfl
  · rw [List.getElem?_replicate, if_neg h]; rfl

omit [DecidableEq K] [DecidableEq V] in
theorem init_unprocessed (n : Nat) (zst : Bool) :
    unprocessed (SyncMapConc.init n zst : State K V) = [] := by
  unfold unprocessed SyncMapConc.init
  rw [List.flatMap_eq_nil_iff]
  intro x hx
  rw [List.eq_of_mem_replicate hx]
  rfl

theorem R_init (n : Nat) (zst : Bool) :
    R (SyncMapConc.init n zst : State K V) (RState.init (mapSpec K V)) := by
  refine ⟨?_, ?_, ?_, ?_⟩
  · refine
      { keysR := List.nodup_nil, valsR := List.nodup_nil, keysD := List.nodup_nil, valsD := List.nodup_nil,
        boundR := ?_, boundD := ?_, s1 := fun _ => rfl, nofault := rfl, muBound := ?_, readDirty := ?_,
        dirtySub := ?_, dirtyLive := ?_, unlinked := ?_ }
    · intro p hp; cases hp
    · intro p hp; cases hp
    · intro t ht; cases ht
    · intro p hp; cases hp
    · intro _ p hp; cases hp
    · intro p hp; cases hp
    · intro t u _ _ _ e he
      rw [init_pc] at he
      cases he
  · intro k; rfl
  · intro t
    rw [init_pc]
    exact ⟨True.intro, by intro h; cases h⟩
  · intro t op seen hp
    cases hp

theorem sim_exec [Inhabited V] {menu : List (Op K V)} {n : Nat} {zst : Bool}
    (hstep : ∀ (s : State K V) (a : AState K V) (t : Tid), R s a → t < s.pcs.length →
      ∀ l s', (l, s') ∈ stepT menu s t → Sim a (witness s t l a) l ∧ R s' (witness s t l a))
    {s s' : (sys K V menu n zst).State} {ls : List (Option (sys K V menu n zst).Event)}
    (he : Exec (sys K V menu n zst) s ls s') :
    ∀ a : AState K V, R s a →
      ∃ a' : AState K V, RStar (mapSpec K V) a a' ∧ R s' a' ∧
        a'.hist = a.hist ++ ls.filterMap (·.bind evOf) := by
  induction he with
  | nil s => intro a hR; exact ⟨a, RStar.refl (S := mapSpec K V) a, hR, by simp⟩
  | @cons s s1 s2 l ls hmem _ ih =>
    intro a hR
    have hmem' : (l, s1) ∈ (List.range s.pcs.length).flatMap (stepT menu s) := hmem
    obtain ⟨t, ht, hin⟩ := List.mem_flatMap.mp hmem'
    have htl : t < s.pcs.length := List.mem_range.mp ht
    obtain ⟨⟨hstar, hhist⟩, hR1⟩ := hstep s a t hR htl l s1 hin
    obtain ⟨a2, hstar2, hR2, hhist2⟩ := ih _ hR1
    refine ⟨a2, TypVerif.Lemmas.RelObj.rstar_trans hstar hstar2, hR2, ?_⟩
    rw [hhist2, hhist, List.append_assoc]
    congr 1
    cases h : l.bind evOf with
    | none => simp [h]
    | some e => simp [h]

/-- if every concrete step is matched (`hstep`), every execution of the step-level `sync2.Map` model has a
linearizable visible history (`Range` calls erased by `evOf`) -/
theorem linearizable_of_steps [Inhabited V] {menu : List (Op K V)} {n : Nat} {zst : Bool}
    (hstep : ∀ (s : State K V) (a : AState K V) (t : Tid), R s a → t < s.pcs.length →
      ∀ l s', (l, s') ∈ stepT menu s t → Sim a (witness s t l a) l ∧ R s' (witness s t l a))
    {s : State K V} {ls : List (Option (SyncMapConc.Event K V))}
    (he : Exec (sys K V menu n zst) (SyncMapConc.init n zst) ls s) :
    AtomicObj.Linearizable (mapSpec K V) (ls.filterMap (·.bind evOf)) := by
  obtain ⟨a', hstar, _, hhist⟩ := sim_exec hstep he (RState.init (mapSpec K V)) (R_init n zst)
  have hreach : RReach (mapSpec K V) a' := TypVerif.Lemmas.RelObj.rreach_star RReach.init hstar
  have hlin := TypVerif.Lemmas.RelObj.linearizable (mapSpec K V) hreach
  have hh : a'.hist = ls.filterMap (·.bind evOf) := by
    rw [hhist]; exact List.nil_append _
  rw [hh] at hlin
  exact hlin

end TypVerif.Lemmas.Smc


/-
#print axioms TypVerif.Lemmas.Smc.linearizable_of_steps
'TypVerif.Lemmas.Smc.linearizable_of_steps' depends on axioms: [propext, Quot.sound]
#print axioms TypVerif.Lemmas.Smc.sim_exec
'TypVerif.Lemmas.Smc.sim_exec' depends on axioms: [propext, Quot.sound]
#print axioms TypVerif.Lemmas.Smc.R_init
'TypVerif.Lemmas.Smc.R_init' depends on axioms: [propext]
-/
