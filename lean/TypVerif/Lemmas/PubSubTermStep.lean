import TypVerif.Lemmas.PubSubTermDefs
/-
Every step of a PubSub goroutine and every receiver step strictly decreases `measure` (system without
clones: `Safe`; channel ids distinct: `ChanIdsOk`).  `Dec` also records what else such a step does that the
run-level theorems need.
-/
namespace TypVerif.Lemmas.PubSubTerm
open TypVerif TypVerif.Model.PubSub TypVerif.Lemmas.PubSubSafe TypVerif.Lemmas.PubSubLive
  TypVerif.Lemmas.PubSubLog TypVerif.Lemmas.PubSubLocal

/-- what an internal step (task or receiver) does -/
structure Dec (cfg : Cfg) (s s' : State) : Prop where
  lt : measure cfg s' < measure cfg s
  crel : CRel s.chans s'.chans ∨ ∃ t ∈ s.tasks, pendingSub t = true
  pend : s'.tasks.countP pendingSub ≤ s.tasks.countP pendingSub
  exited : s'.exited = s.exited

/-- the workhorse: task `i` becomes `t'` and spawns `new` -/
theorem dec_of {cfg : Cfg} {s s' : State} {i : Nat} {t t' : Task} {new : List Task} (hi : s.tasks[i]? = some t)
    (htasks : s'.tasks = s.tasks.set i t' ++ new)
    (hpend : (if pendingSub t' then 1 else 0) + new.countP pendingSub ≤ (if pendingSub t then 1 else 0))
    (hsubs : (s'.obj 0).subs.length + (if pendingSub t' then 1 else 0) + new.countP pendingSub
              ≤ (s.obj 0).subs.length + (if pendingSub t then 1 else 0))
    (hw : taskW (bound s) t' + tasksW (bound s) new + chansW s'.chans + flagW s'
            < taskW (bound s) t + chansW s.chans + flagW s)
    (hc : CRel s.chans s'.chans ∨ ∃ t ∈ s.tasks, pendingSub t = true)
    (hx : s'.exited = s.exited) : Dec cfg s s' := by
  have h1 := countP_set_eq pendingSub s.tasks i t t' hi
  have hcp : s'.tasks.countP pendingSub = (s.tasks.set i t').countP pendingSub + new.countP pendingSub := by
    rw [htasks, List.countP_append]
  have hb : bound s' ≤ bound s := by
    unfold bound; omega
  have h2 := tasksW_mono hb s'.tasks
  have h3 := tasksW_set (bound s) s.tasks i t t' hi
  have h4 : tasksW (bound s) s'.tasks = tasksW (bound s) (s.tasks.set i t') + tasksW (bound s) new := by
    rw [htasks, tasksW_append]
  refine ⟨?_, hc, by omega, hx⟩
  unfold measure
  omega

/-- task `i` is replaced; channels, `subs` untouched -/
structure Frame (x y : State) (i : Nat) (t' : Task) : Prop where
  tasks : y.tasks = x.tasks.set i t'
  chans : y.chans = x.chans
  subs : (y.obj 0).subs = (x.obj 0).subs
  flag : flagW y ≤ flagW x
  exited : y.exited = x.exited

theorem dec_frame {cfg : Cfg} {s s' : State} {i : Nat} {t t' : Task} (hi : s.tasks[i]? = some t)
    (f : Frame s s' i t')
    (hp : (if pendingSub t' then 1 else 0) ≤ (if pendingSub t then 1 else 0))
    (hw : ∀ n, taskW n t' < taskW n t) : Dec cfg s s' := by
  have := hw (bound s)
  have := f.flag
  refine dec_of (t' := t') (new := []) hi (by simp [f.tasks]) (by simpa using hp) (by rw [f.subs]; simpa using hp) ?_
    (Or.inl (f.chans ▸ crel_refl _)) f.exited
  rw [f.chans]; simp only [tasksW]; omega

theorem dec_sent {cfg : Cfg} {s s1 s' : State} {i : Nat} {t t' : Task} {it : Item} (hu : ChanIdsOk s)
    (hi : s.tasks[i]? = some t) (hst : sendTo s it = .sent s1) (f : Frame s1 s' i t')
    (hp : pendingSub t' = false)
    (hw : ∀ n, taskW n t' + 2 < taskW n t) : Dec cfg s s' := by
  have g := sendTo_sent_frame hu hst
  have := hw (bound s)
  have := f.flag
  have hfl : flagW s1 = flagW s := by unfold flagW; rw [g.panicked]
  have := g.weight
  refine dec_of (t' := t') (new := []) hi (by simp [f.tasks, g.tasks]) (by simp [hp])
    (by rw [f.subs, obj_congr g.objs 0]; simp [hp]) ?_ (Or.inl (f.chans ▸ g.crel)) (f.exited.trans g.exited)
  rw [f.chans]; simp only [tasksW]; omega

theorem dec_panic {cfg : Cfg} {s : State} (m : String) (h : s.panicked = none) : Dec cfg s (s.panic m) := by
  refine ⟨?_, Or.inl (crel_refl _), Nat.le_refl _, rfl⟩
  show tasksW (bound s) s.tasks + chansW s.chans + (if (some m : Option String) = none then 1 else 0)
    < tasksW (bound s) s.tasks + chansW s.chans + (if s.panicked = none then 1 else 0)
  rw [h]; simp

/-! ### frames of the model's state updates -/

theorem frame_setTask (x : State) (i : Nat) (t' : Task) : Frame x (x.setTask i t') i t' :=
  ⟨rfl, rfl, rfl, Nat.le_refl _, rfl⟩

theorem frame_rlock (x : State) (i : Nat) (t' : Task) : Frame x ((x.rlock 0).setTask i t') i t' :=
  ⟨rfl, rfl, subs_rlock x 0 0, Nat.le_refl _, rfl⟩

theorem frame_runlock (x : State) (i : Nat) (t' : Task) : Frame x ((x.runlock 0).setTask i t') i t' :=
  ⟨rfl, rfl, subs_runlock x 0 0, Nat.le_refl _, rfl⟩

theorem frame_announce (x : State) (i : Nat) (t' : Task) : Frame x ((x.announce 0).setTask i t') i t' :=
  ⟨rfl, rfl, subs_announce x 0 0, Nat.le_refl _, rfl⟩

theorem frame_syncAdvance (x : State) (i p : Nat) (rest : List Item) :
    Frame x (syncAdvance i p 0 rest x) i (syncNext p 0 rest) := by
  cases rest with
  | nil => exact frame_runlock x i _
  | cons a r => exact frame_setTask x i _

theorem wgDone_exited (s : State) (w : Nat) : (wgDone s w).exited = s.exited := by
  unfold wgDone; split <;> rfl

theorem wgDone_flag (s : State) (w : Nat) : flagW (wgDone s w) ≤ flagW s := by
  unfold wgDone
  split
  · unfold flagW; simp [State.panic]
  · exact Nat.le_refl _

theorem frame_wgDone (x : State) (i w : Nat) (t' : Task) : Frame x ((wgDone x w).setTask i t') i t' :=
  ⟨by simp [State.setTask, wgDone_tasks], wgDone_chans x w,
   by rw [show ((wgDone x w).setTask i t').obj 0 = (wgDone x w).obj 0 from rfl, obj_congr (wgDone_objs x w) 0],
   wgDone_flag x w, wgDone_exited x w⟩

theorem taskW_syncNext (n p o : Nat) (rest : List Item) : taskW n (syncNext p o rest) ≤ 3 * rest.length + 2 := by
  cases rest with
  | nil => simp [syncNext, taskW]
  | cons a r => simp [syncNext, taskW]

theorem pendingSub_syncNext (p o : Nat) (rest : List Item) : pendingSub (syncNext p o rest) = false := by
  cases rest <;> rfl

/-! ### a sender -/

theorem dec_stepSend {cfg : Cfg} {s s' : State} {i : Nat} {t tfin tcb : Task} {it : Item} {cb : Bool}
    {fin setCb : State → State} {l : Option Event} (hs : Safe s) (hu : ChanIdsOk s) (hi : s.tasks[i]? = some t)
    (h : (l, s') ∈ stepSend cfg s it cb fin setCb)
    (hfin : ∀ x : State, Frame x (fin x) i tfin)
    (hcb : ∀ x : State, setCb x = x.setTask i tcb)
    (hpt : pendingSub tfin = false) (hpc : pendingSub tcb = false)
    (hw1 : cb = true → ∀ n, taskW n tfin < taskW n t)
    (hw2 : cb = false → ∀ n, taskW n tfin + 2 < taskW n t)
    (hw3 : cb = false → ∀ n, taskW n tcb < taskW n t) : Dec cfg s s' := by
  rcases mem_stepSend' h with ⟨hc, rfl⟩ | ⟨hc, s1, hst, rfl⟩ | ⟨_, rfl⟩ | ⟨hc, _, rfl⟩
  · exact dec_frame hi (hfin s) (by simp [hpt]) (hw1 hc)
  · exact dec_sent hu hi hst (hfin s1) hpt (hw2 hc)
  · exact dec_panic _ hs.nopanic
  · rw [hcb]
    exact dec_frame hi ⟨rfl, rfl, rfl, Nat.le_refl _, rfl⟩ (by simp [hpc]) (hw3 hc)

/-! ### publishers -/

theorem stepPubStart_cases {s s' : State} {i p o : Nat} {v : Variant} {evs : List Int} {l : Option Event}
    (h : (l, s') ∈ stepPubStart s i p o v evs) :
    (s' = s.setTask i (.pubRet p)) ∨
    (s' = (s.rlock o).setTask i (.syncLoop p o (mkItems p evs (s.obj o).subs) false)) ∨
    (s' = ({ (s.rlock o) with wgs := s.wgs ++ [(mkItems p evs (s.obj o).subs).length] }.setTask i
              (.waitWg p o s.wgs.length)).spawn
        ((mkItems p evs (s.obj o).subs).map (fun it => .wgSend o s.wgs.length it false))) ∨
    (s' = (s.setTask i (.pubRet p)).spawn ((mkItems p evs (s.obj o).subs).map (fun it => .asyncStart o it))) := by
  unfold stepPubStart at h
  split at h
  · simp at h
  · simp only at h
    split at h
    · split at h
      · simp only [List.mem_singleton, Prod.mk.injEq] at h
        exact Or.inl h.2
      · simp only [List.mem_singleton, Prod.mk.injEq] at h
        exact Or.inr (Or.inl h.2)
    · split at h
      · simp only [List.mem_singleton, Prod.mk.injEq] at h
        exact Or.inr (Or.inr (Or.inl h.2))
      · simp only [List.mem_singleton, Prod.mk.injEq] at h
        exact Or.inr (Or.inr (Or.inr h.2))

theorem items_le_bound (s : State) (p : Nat) (evs : List Int) :
    (mkItems p evs (s.obj 0).subs).length ≤ evs.length * bound s := by
  rw [mkItems_length]
  exact Nat.mul_le_mul_left _ (Nat.le_add_right _ _)

theorem dec_stepPubStart {cfg : Cfg} {s s' : State} {i p : Nat} {v : Variant} {evs : List Int} {l : Option Event}
    (hi : s.tasks[i]? = some (.pubStart p 0 v evs)) (h : (l, s') ∈ stepPubStart s i p 0 v evs) : Dec cfg s s' := by
  have hlen := items_le_bound s p evs
  rcases stepPubStart_cases h with rfl | rfl | rfl | rfl
  · exact dec_frame hi (frame_setTask s i _) (by simp [pendingSub]) (fun n => by simp only [taskW]; omega)
  · refine dec_of (t' := .syncLoop p 0 (mkItems p evs (s.obj 0).subs) false) (new := []) hi
      (by simp [State.setTask]; rfl) (by simp [pendingSub]) ?_ ?_ (Or.inl (crel_refl _)) rfl
    · rw [(frame_rlock s i _).subs]; simp [pendingSub]
    · show _ < _ + chansW s.chans + flagW s
      have e1 : chansW ((s.rlock 0).setTask i (.syncLoop p 0 (mkItems p evs (s.obj 0).subs) false)).chans
          = chansW s.chans := rfl
      have e2 : flagW ((s.rlock 0).setTask i (.syncLoop p 0 (mkItems p evs (s.obj 0).subs) false)) = flagW s := rfl
      rw [e1, e2]
      simp only [taskW, tasksW]
      simp
      omega
  · refine dec_of (t' := .waitWg p 0 s.wgs.length)
      (new := (mkItems p evs (s.obj 0).subs).map (fun it => .wgSend 0 s.wgs.length it false)) hi rfl ?_ ?_ ?_
      (Or.inl (crel_refl _)) rfl
    · rw [countP_map_false pendingSub _ (fun _ => rfl)]; simp [pendingSub]
    · rw [countP_map_false pendingSub _ (fun _ => rfl)]
      have : ((({ (s.rlock 0) with wgs := s.wgs ++ [(mkItems p evs (s.obj 0).subs).length] } : State).setTask i
          (.waitWg p 0 s.wgs.length)).spawn
          ((mkItems p evs (s.obj 0).subs).map (fun it => .wgSend 0 s.wgs.length it false))).obj 0
          = (s.rlock 0).obj 0 := rfl
      rw [this, subs_rlock]; simp [pendingSub]
    · rw [tasksW_map_const (bound s) 3 _ (fun _ => rfl)]
      show _ + chansW s.chans + flagW s < _
      simp only [taskW]
      omega
  · refine dec_of (t' := .pubRet p)
      (new := (mkItems p evs (s.obj 0).subs).map (fun it => .asyncStart 0 it)) hi rfl ?_ ?_ ?_
      (Or.inl (crel_refl _)) rfl
    · rw [countP_map_false pendingSub _ (fun _ => rfl)]; simp [pendingSub]
    · rw [countP_map_false pendingSub _ (fun _ => rfl)]
      show (s.obj 0).subs.length + _ + 0 ≤ _
      simp [pendingSub]
    · rw [tasksW_map_const (bound s) 4 _ (fun _ => rfl)]
      show _ + chansW s.chans + flagW s < _
      simp only [taskW]
      omega

/-! ### writers -/

theorem obj0_setObj0 {y : State} {r : ObjSt} (hr : y.objs = [r]) (x : ObjSt) : (y.setObj 0 x).obj 0 = x := by
  simp [State.obj, State.setObj, hr]

theorem dec_stepSubWait {cfg : Cfg} {s s' : State} {i c cap : Nat} {l : Option Event} (hs : Safe s)
    (hi : s.tasks[i]? = some (.subWait 0 c cap)) (h : (l, s') ∈ stepSubWait s i 0 c cap) : Dec cfg s s' := by
  obtain ⟨r, hr⟩ := objs_eq hs
  unfold stepSubWait at h
  split at h
  · simp at h
  · simp only [List.mem_singleton, Prod.mk.injEq] at h
    obtain ⟨_, rfl⟩ := h
    have hobj : ∀ x : ObjSt, ((({ s with chans := s.chans ++ [({ id := c, cap := cap } : ChanSt)] } : State).setObj 0 x).setTask i
        (.subRet c)).obj 0 = x := fun x => obj0_setObj0 (y := { s with chans := s.chans ++ [({ id := c, cap := cap } : ChanSt)] }) hr x
    refine dec_of (t' := .subRet c) (new := []) hi (by simp [State.setTask, State.setObj]) (by simp [pendingSub]) ?_ ?_
      (Or.inr ⟨_, List.mem_of_getElem? hi, rfl⟩) rfl
    · rw [hobj]; simp [pendingSub]
    · show _ + chansW (s.chans ++ [({ id := c, cap := cap } : ChanSt)]) + flagW s < _
      rw [chansW_append]
      simp [taskW, tasksW, chansW, chanW]
      omega

theorem dec_stepUnsubWait {cfg : Cfg} {s s' : State} {i u c : Nat} {l : Option Event} (hs : Safe s)
    (hi : s.tasks[i]? = some (.unsubWait u 0 c)) (h : (l, s') ∈ stepUnsubWait s i u 0 c) : Dec cfg s s' := by
  obtain ⟨r, hr⟩ := objs_eq hs
  unfold stepUnsubWait at h
  split at h
  · simp at h
  · split at h
    · rename_i hmem
      split at h
      · simp only [List.mem_singleton, Prod.mk.injEq] at h
        obtain ⟨_, rfl⟩ := h
        exact dec_panic _ hs.nopanic
      · simp only [List.mem_singleton, Prod.mk.injEq] at h
        obtain ⟨_, rfl⟩ := h
        have hobj : ∀ x : ObjSt, ((({ s with chans := closeChan s.chans c } : State).setObj 0 x).setTask i
            (.unsubRet u .nil)).obj 0 = x := fun x => obj0_setObj0 (y := { s with chans := closeChan s.chans c }) hr x
        refine dec_of (t' := .unsubRet u .nil) (new := []) hi (by simp [State.setTask, State.setObj])
          (by simp [pendingSub]) ?_ ?_
          (Or.inl (crel_updChan _ _ _ (fun x => ⟨rfl, id, Nat.le_succ _⟩))) rfl
        · rw [hobj]
          simp only [pendingSub, List.countP_nil]
          have := List.length_erase_of_mem hmem
          simp; omega
        · show _ + chansW (closeChan s.chans c) + flagW s < _
          rw [show chansW (closeChan s.chans c) = chansW s.chans from
            chansW_updChan_eq c (fun ch => { ch with closed := true }) (fun _ => rfl) s.chans]
          simp [taskW, tasksW]
    · simp only [List.mem_singleton, Prod.mk.injEq] at h
      obtain ⟨_, rfl⟩ := h
      exact dec_frame hi ⟨rfl, rfl, subs_setObj_rw s 0 0 _, Nat.le_refl _, rfl⟩ (by simp [pendingSub])
        (fun n => by simp [taskW])

theorem dec_stepUaWait {cfg : Cfg} {s s' : State} {i u : Nat} {l : Option Event} (hs : Safe s)
    (hi : s.tasks[i]? = some (.uaWait u 0)) (h : (l, s') ∈ stepUaWait s i u 0) : Dec cfg s s' := by
  obtain ⟨r, hr⟩ := objs_eq hs
  unfold stepUaWait at h
  split at h
  · simp at h
  · split at h
    · simp only [List.mem_singleton, Prod.mk.injEq] at h
      obtain ⟨_, rfl⟩ := h
      exact dec_panic _ hs.nopanic
    · rename_i cs hcs
      simp only [List.mem_singleton, Prod.mk.injEq] at h
      obtain ⟨_, rfl⟩ := h
      have hobj : ∀ x : ObjSt, ((({ s with chans := cs } : State).setObj 0 x).setTask i (.uaRet u)).obj 0 = x :=
        fun x => obj0_setObj0 (y := { s with chans := cs }) hr x
      refine dec_of (t' := .uaRet u) (new := []) hi (by simp [State.setTask, State.setObj])
        (by simp [pendingSub]) ?_ ?_ (Or.inl (crel_closeAll hcs)) rfl
      · rw [hobj]; simp [pendingSub]
      · show _ + chansW cs + flagW s < _
        rw [chansW_closeAll _ _ _ hcs]
        simp [taskW, tasksW]

/-! ### every task step -/

theorem dec_stepTask {cfg : Cfg} {s s' : State} {i : Nat} {t : Task} {l : Option Event} (hs : Safe s)
    (hu : ChanIdsOk s) (hi : s.tasks[i]? = some t) (h : (l, s') ∈ stepTask cfg s i t) : Dec cfg s s' := by
  have hobj : objOk t := hs.obj0 t (List.mem_of_getElem? hi)
  cases t with
  | pubStart p o v evs => cases hobj; exact dec_stepPubStart hi h
  | syncLoop p o work cb =>
    cases hobj
    cases work with
    | nil => simp [stepTask, stepSyncLoop] at h
    | cons it rest =>
      simp only [stepTask, stepSyncLoop] at h
      refine dec_stepSend (tfin := syncNext p 0 rest) (tcb := .syncLoop p 0 (it :: rest) true) hs hu hi h
        (fun x => frame_syncAdvance x i p rest) (fun _ => rfl) (pendingSub_syncNext p 0 rest) rfl ?_ ?_ ?_
      · intro hc n; subst hc
        have := taskW_syncNext n p 0 rest
        have e : taskW n (.syncLoop p 0 (it :: rest) true) = 3 * (rest.length + 1) + 1 := by simp [taskW]
        rw [e]; omega
      · intro hc n; subst hc
        have := taskW_syncNext n p 0 rest
        have e : taskW n (.syncLoop p 0 (it :: rest) false) = 3 * (rest.length + 1) + 2 := by simp [taskW]
        rw [e]; omega
      · intro hc n; subst hc
        simp [taskW]
  | waitWg p o w =>
    cases hobj
    simp only [stepTask, stepWaitWg] at h
    split at h
    · simp only [List.mem_singleton, Prod.mk.injEq] at h
      obtain ⟨_, rfl⟩ := h
      exact dec_frame hi (frame_runlock s i _) (by simp [pendingSub]) (fun n => by simp [taskW])
    · simp at h
  | pubRet p =>
    simp only [stepTask, List.mem_singleton, Prod.mk.injEq] at h
    obtain ⟨_, rfl⟩ := h
    exact dec_frame hi (frame_setTask s i _) (by simp [pendingSub]) (fun n => by simp [taskW])
  | asyncStart o it =>
    cases hobj
    simp only [stepTask, stepAsyncStart] at h
    split at h
    · simp at h
    · split at h
      · simp only [List.mem_singleton, Prod.mk.injEq] at h
        obtain ⟨_, rfl⟩ := h
        exact dec_frame hi (frame_rlock s i _) (by simp [pendingSub]) (fun n => by simp [taskW])
      · simp only [List.mem_singleton, Prod.mk.injEq] at h
        obtain ⟨_, rfl⟩ := h
        exact dec_frame hi (frame_setTask s i _) (by simp [pendingSub]) (fun n => by simp [taskW])
  | asyncSend o it cb =>
    cases hobj
    simp only [stepTask, stepAsyncSend] at h
    refine dec_stepSend (tfin := .done) (tcb := .asyncSend 0 it true) hs hu hi h
      (fun x => frame_runlock x i _) (fun _ => rfl) rfl rfl ?_ ?_ ?_
    · intro hc n; subst hc; simp [taskW]
    · intro hc n; subst hc; simp [taskW]
    · intro hc n; subst hc; simp [taskW]
  | wgSend o w it cb =>
    cases hobj
    simp only [stepTask, stepWgSend] at h
    refine dec_stepSend (tfin := .done) (tcb := .wgSend 0 w it true) hs hu hi h
      (fun x => frame_wgDone x i w _) (fun _ => rfl) rfl rfl ?_ ?_ ?_
    · intro hc n; subst hc; simp [taskW]
    · intro hc n; subst hc; simp [taskW]
    · intro hc n; subst hc; simp [taskW]
  | subStart o c cap =>
    cases hobj
    simp only [stepTask, List.mem_singleton, Prod.mk.injEq] at h
    obtain ⟨_, rfl⟩ := h
    exact dec_frame hi (frame_announce s i _) (by simp [pendingSub]) (fun n => by simp [taskW])
  | subWait o c cap => cases hobj; exact dec_stepSubWait hs hi h
  | subRet c =>
    simp only [stepTask, List.mem_singleton, Prod.mk.injEq] at h
    obtain ⟨_, rfl⟩ := h
    exact dec_frame hi (frame_setTask s i _) (by simp [pendingSub]) (fun n => by simp [taskW])
  | unsubStart u o c =>
    cases hobj
    cases c with
    | none =>
      simp only [stepTask, List.mem_singleton, Prod.mk.injEq] at h
      obtain ⟨_, rfl⟩ := h
      exact dec_frame hi (frame_setTask s i _) (by simp [pendingSub]) (fun n => by simp [taskW])
    | some c =>
      simp only [stepTask, List.mem_singleton, Prod.mk.injEq] at h
      obtain ⟨_, rfl⟩ := h
      exact dec_frame hi (frame_announce s i _) (by simp [pendingSub]) (fun n => by simp [taskW])
  | unsubWait u o c => cases hobj; exact dec_stepUnsubWait hs hi h
  | unsubRet u code =>
    simp only [stepTask, List.mem_singleton, Prod.mk.injEq] at h
    obtain ⟨_, rfl⟩ := h
    exact dec_frame hi (frame_setTask s i _) (by simp [pendingSub]) (fun n => by simp [taskW])
  | uaStart u o =>
    cases hobj
    simp only [stepTask, List.mem_singleton, Prod.mk.injEq] at h
    obtain ⟨_, rfl⟩ := h
    exact dec_frame hi (frame_announce s i _) (by simp [pendingSub]) (fun n => by simp [taskW])
  | uaWait u o => cases hobj; exact dec_stepUaWait hs hi h
  | uaRet u =>
    simp only [stepTask, List.mem_singleton, Prod.mk.injEq] at h
    obtain ⟨_, rfl⟩ := h
    exact dec_frame hi (frame_setTask s i _) (by simp [pendingSub]) (fun n => by simp [taskW])
  | woStart w o c => exact absurd hobj (by simp [objOk])
  | done => simp [stepTask] at h

/-! ### receiver steps -/

theorem dec_recv_upd {cfg : Cfg} {s : State} {ch : ChanSt} (hu : ChanIdsOk s) (hm : ch ∈ s.chans)
    (f : ChanSt → ChanSt) (hw : chanW (f ch) + 1 ≤ chanW ch)
    (hf : ∀ x, (f x).id = x.id ∧ ((f x).rdone = false → x.rdone = false) ∧ x.allow ≤ (f x).allow + 1) :
    Dec cfg s { s with chans := updChan s.chans ch.id f } := by
  refine ⟨?_, Or.inl (crel_updChan _ _ _ hf), Nat.le_refl _, rfl⟩
  have := chansW_updChan_dec f ch hw s.chans (hu ch.id) hm
  show tasksW (bound s) s.tasks + chansW (updChan s.chans ch.id f) + flagW s
    < tasksW (bound s) s.tasks + chansW s.chans + flagW s
  omega

theorem dec_recvSteps {cfg : Cfg} {s s' : State} {ch : ChanSt} {l : Option Event} (hu : ChanIdsOk s)
    (hm : ch ∈ s.chans) (h : (l, s') ∈ recvSteps s ch) : Dec cfg s s' := by
  unfold recvSteps at h
  split at h
  · simp at h
  · rename_i hrd
    split at h
    · rename_i v hv
      simp only [List.mem_singleton, Prod.mk.injEq] at h
      obtain ⟨_, rfl⟩ := h
      exact dec_recv_upd hu hm _ (by simp [chanW, hv] <;> omega) (fun x => ⟨rfl, id, Nat.le_succ _⟩)
    · rename_i hv
      split at h
      · simp at h
      · split at h
        · rename_i v rest hb
          simp only [List.mem_singleton, Prod.mk.injEq] at h
          obtain ⟨_, rfl⟩ := h
          exact dec_recv_upd hu hm _ (by simp [chanW, hv, hb]; omega) (fun x => ⟨rfl, id, by simp; omega⟩)
        · split at h
          · simp only [List.mem_singleton, Prod.mk.injEq] at h
            obtain ⟨_, rfl⟩ := h
            have hrd' : ch.rdone = false := by simpa using hrd
            exact dec_recv_upd hu hm _ (by simp [chanW, hrd']) (fun x => ⟨rfl, by simp, Nat.le_succ _⟩)
          · simp at h

end TypVerif.Lemmas.PubSubTerm
