import TypVerif.Lemmas.ConcAccept
import TypVerif.Lemmas.KeyedMutexBasic
import TypVerif.Drv.C09
/-
Acceptance soundness for the judge `Drv/C09.lean`: DEFINITIONS.

The judge keeps *normalised* states (`Drv.C09.norm`: unreferenced heap cells dropped, mutex ids renumbered, map and sets
sorted).  A judge state `x` stands for a model state `a` when `x` is `a` up to
  * an injective renaming `f` of the *live* mutex ids (those referenced by the map or by a goroutine's local),
  * garbage (heap cells that are not live are unconstrained),
  * the order of the map (whose keys are distinct), of the ghost sets `wh` / `rh` and of the sets `readers`, `pending`, `wq`
    of every live mutex (the model only tests them for membership / emptiness, conses, filters and erases).
This is `Rel f a x`; `R a x` adds well-formedness of `a` (`WF`: distinct keys, live ids inside the heap — both hold in every
state reached from an initial state).
-/
namespace TypVerif.Lemmas.C09Accept
open TypVerif TypVerif.Conc TypVerif.Model.KeyedMutex TypVerif.Drv.C09

/-- mutex id `m` is referenced by the map or by a goroutine -/
def Live (s : State) (m : Nat) : Prop := (∃ k, (k, m) ∈ s.map) ∨ (∃ p ∈ s.pcs, pcLocal p = some m)

/-- equality of mutex automata up to the order of their sets -/
def MuEq (a b : Mu) : Prop :=
  a.writer = b.writer ∧ a.readers.Perm b.readers ∧ a.pending.Perm b.pending ∧ a.wq.Perm b.wq

structure WF (s : State) : Prop where
  keysNd : (s.map.map (·.1)).Nodup
  liveLt : ∀ m, Live s m → m < s.heap.length

/-- `x` is `a` with the live mutex ids renamed by `f`, up to garbage and order -/
structure Rel (f : Nat → Nat) (a x : State) : Prop where
  pcs : x.pcs = a.pcs.map (renPc f)
  map : x.map.Perm (a.map.map (fun p => (p.1, f p.2)))
  inj : ∀ m m', Live a m → Live a m' → f m = f m' → m = m'
  ltX : ∀ m, Live a m → f m < x.heap.length
  mu : ∀ m, Live a m → MuEq (x.mu (f m)) (a.mu m)
  wh : x.wh.Perm a.wh
  rh : x.rh.Perm a.rh

/-- the judge state `x` stands for the (well-formed) model state `a` -/
def R (a x : State) : Prop := WF a ∧ ∃ f, Rel f a x

/-! ### `norm`, with its local definitions named -/

def normMap (s : State) : List (Nat × Nat) := sortPairs s.map

/-- the live ids in the order `norm` numbers them -/
def normLive (s : State) : List Nat :=
  s.pcs.foldl (fun acc p => match pcLocal p with
    | some m => if acc.contains m then acc else acc ++ [m]
    | none => acc) ((normMap s).map (·.2))

/-- the renaming `norm` applies -/
def normF (s : State) (m : Nat) : Nat := ((normLive s).findIdx? (· == m)).getD m

def normCell (s : State) (m : Nat) : Mu :=
  { writer := (s.mu m).writer, readers := sortNat (s.mu m).readers, pending := sortNat (s.mu m).pending,
    wq := sortNat (s.mu m).wq }

theorem norm_eq (s : State) :
    norm s = { pcs := s.pcs.map (renPc (normF s)), map := (normMap s).map (fun p => (p.1, normF s p.2)),
               heap := (normLive s).map (normCell s), wh := sortPairs s.wh, rh := sortPairs s.rh } := rfl

/-! ### padding -/

/-- `k` more idle goroutines -/
def padBy (k : Nat) (s : State) : State := { s with pcs := s.pcs ++ List.replicate k .idle }

theorem pad_eq_padBy (t : Nat) (s : State) : pad t s = padBy (t + 1 - s.pcs.length) s := by
  unfold pad padBy
  split
  · rfl
  · rename_i h
    have : t + 1 - s.pcs.length = 0 := by omega
    rw [this]
    simp

end TypVerif.Lemmas.C09Accept
