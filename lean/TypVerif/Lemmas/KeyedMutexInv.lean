import TypVerif.Lemmas.KeyedMutexBasic
/-
The inductive invariant `Good` of the KeyedMutex system (with the ClearKey proviso), all schedules,
any number of goroutines, any alphabet of operations.
-/
namespace TypVerif.Lemmas.KeyedMutex
open TypVerif TypVerif.Conc TypVerif.Model.KeyedMutex

/-- what the discipline E1/E2 guarantees about a pending call of kind `kd` on `k` by `t` -/
def Disc (s : State) (t : Nat) (kd : Kind) (k : Nat) : Prop :=
  (kd = .unlock → (t, k) ∈ s.wh) ∧ (kd = .runlock → (t, k) ∈ s.rh) ∧
  ((kd = .rlock ∨ kd = .tryrlock) → (t, k) ∉ s.rh)

/-- what goroutine `t` knows at its program counter: its local `m` is the mutex of its key -/
def ThreadOk (s : State) (t : Nat) : Prop :=
  match s.pc t with
  | .idle => True
  | .ret _ => True
  | .los kd k => Disc s t kd k
  | .act kd k m => get s.map k = some m ∧ Disc s t kd k
  | .ann k m => get s.map k = some m
  | .wait k m => get s.map k = some m
  | .rel k m => get s.map k = some m

structure Good (s : State) : Prop where
  thread : ∀ t, ThreadOk s t
  mapLt : ∀ k m, get s.map k = some m → m < s.heap.length
  mapInj : ∀ k₁ k₂ m, get s.map k₁ = some m → get s.map k₂ = some m → k₁ = k₂
  whOk : ∀ t k, (t, k) ∈ s.wh → ∃ m, get s.map k = some m ∧ (s.mu m).writer = some t
  rhOk : ∀ t k, (t, k) ∈ s.rh → ∃ m, get s.map k = some m ∧ t ∈ (s.mu m).readers
  excl : ∀ m, (s.mu m).writer ≠ none → (s.mu m).readers = []
  whNd : s.wh.Nodup
  rhNd : s.rh.Nodup

/-! ### ThreadOk intro / elim -/

theorem threadOk_idle {s : State} {t : Nat} (h : s.pc t = .idle) : ThreadOk s t := by
  unfold ThreadOk; rw [h]; trivial
theorem threadOk_ret {s : State} {t : Nat} {r : Res} (h : s.pc t = .ret r) : ThreadOk s t := by
  unfold ThreadOk; rw [h]; trivial
theorem threadOk_los {s : State} {t : Nat} {kd k} (h : s.pc t = .los kd k) (hd : Disc s t kd k) : ThreadOk s t := by
  unfold ThreadOk; rw [h]; exact hd
theorem threadOk_act {s : State} {t : Nat} {kd k m} (h : s.pc t = .act kd k m) (hm : get s.map k = some m)
    (hd : Disc s t kd k) : ThreadOk s t := by
  unfold ThreadOk; rw [h]; exact ⟨hm, hd⟩
theorem threadOk_wait {s : State} {t : Nat} {k m} (h : s.pc t = .wait k m) (hm : get s.map k = some m) :
    ThreadOk s t := by
  unfold ThreadOk; rw [h]; exact hm

theorem threadOk_ann {s : State} {t : Nat} {k m} (h : s.pc t = .ann k m) (hm : get s.map k = some m) :
    ThreadOk s t := by
  unfold ThreadOk; rw [h]; exact hm
theorem threadOk_rel {s : State} {t : Nat} {k m} (h : s.pc t = .rel k m) (hm : get s.map k = some m) :
    ThreadOk s t := by
  unfold ThreadOk; rw [h]; exact hm

theorem los_disc {s : State} {t : Nat} {kd k} (hT : ThreadOk s t) (h : s.pc t = .los kd k) : Disc s t kd k := by
  unfold ThreadOk at hT; rw [h] at hT; exact hT
theorem act_ok {s : State} {t : Nat} {kd k m} (hT : ThreadOk s t) (h : s.pc t = .act kd k m) :
    get s.map k = some m ∧ Disc s t kd k := by
  unfold ThreadOk at hT; rw [h] at hT; exact hT
theorem wait_ok {s : State} {t : Nat} {k m} (hT : ThreadOk s t) (h : s.pc t = .wait k m) :
    get s.map k = some m := by
  unfold ThreadOk at hT; rw [h] at hT; exact hT

theorem ann_ok {s : State} {t : Nat} {k m} (hT : ThreadOk s t) (h : s.pc t = .ann k m) :
    get s.map k = some m := by
  unfold ThreadOk at hT; rw [h] at hT; exact hT
theorem rel_ok {s : State} {t : Nat} {k m} (hT : ThreadOk s t) (h : s.pc t = .rel k m) :
    get s.map k = some m := by
  unfold ThreadOk at hT; rw [h] at hT; exact hT

/-- a thread with `onKey k` has the key's mutex as its local -/
theorem onKey_get {s : State} {t k : Nat} (hT : ThreadOk s t) (h : onKey k (s.pc t) = true) :
    ∃ m, get s.map k = some m := by
  unfold ThreadOk at hT
  split at hT <;> simp_all [onKey]

theorem disc_of_invOk {rw : Bool} {s : State} {t : Nat} {op : Op} (h : invOk rw s t op = true) :
    Disc s t op.kind op.key := by
  unfold invOk at h
  unfold Disc
  split at h <;> simp_all

/-- frame rule for the threads that do not move -/
theorem threadOk_frame {s s' : State} {t' : Nat} (hpc : s'.pc t' = s.pc t')
    (hmap : ∀ k m, onKey k (s.pc t') = true → get s.map k = some m → get s'.map k = some m)
    (hwh : ∀ k, (t', k) ∈ s'.wh ↔ (t', k) ∈ s.wh) (hrh : ∀ k, (t', k) ∈ s'.rh ↔ (t', k) ∈ s.rh)
    (h : ThreadOk s t') : ThreadOk s' t' := by
  unfold ThreadOk at *
  rw [hpc]
  split at h
  · trivial
  · trivial
  · simpa [Disc, hwh, hrh] using h
  · next kd k m hp =>
    refine ⟨hmap k m (by simp [hp, onKey]) h.1, ?_⟩
    simpa [Disc, hwh, hrh] using h.2
  · next k m hp => exact hmap k m (by simp [hp, onKey]) h
  · next k m hp => exact hmap k m (by simp [hp, onKey]) h
  · next k m hp => exact hmap k m (by simp [hp, onKey]) h

theorem pair_ne {t t' k k' : Nat} (h : t' ≠ t) : (t', k') ≠ (t, k) := by
  intro e; exact h (by injection e)

theorem mem_cons_ne {t t' k k' : Nat} {l : List (Nat × Nat)} (h : t' ≠ t) :
    (t', k') ∈ (t, k) :: l ↔ (t', k') ∈ l := by
  simp [List.mem_cons, pair_ne h]

theorem mem_erase_ne {t t' k k' : Nat} {l : List (Nat × Nat)} (h : t' ≠ t) :
    (t', k') ∈ l.erase (t, k) ↔ (t', k') ∈ l :=
  List.mem_erase_of_ne (pair_ne h)

theorem good_init (n : Nat) : Good (init n) := by
  refine ⟨?_, ?_, ?_, ?_, ?_, ?_, ?_, ?_⟩
  · intro t
    apply threadOk_idle
    unfold State.pc init
    simp only [List.getD_eq_getElem?_getD, List.getElem?_replicate]
    split <;> rfl
  · intro k m h; simp [init, Model.KeyedMutex.get] at h
  · intro k₁ k₂ m h; simp [init, Model.KeyedMutex.get] at h
  · intro t k h; simp [init] at h
  · intro t k h; simp [init] at h
  · intro m h; simp [init, State.mu, Mu.free] at h
  · simp [init]
  · simp [init]

/-! ### preservation, field by field -/

section step
variable {rw : Bool} {ops : List Op} {s s' : State} {t : Nat} {l : Option Event}

theorem queue_get (hT : ThreadOk s t) {k m : Nat}
    (hpc : s.pc t = .act .lock k m ∨ s.pc t = .ann k m ∨ s.pc t = .rel k m) :
    Model.KeyedMutex.get s.map k = some m := by
  rcases hpc with h | h | h
  · exact (act_ok hT h).1
  · exact ann_ok hT h
  · exact rel_ok hT h

theorem thread_step (hg : Good s) (ht : t < s.pcs.length) (hs : Step rw true ops s t l s') :
    ∀ t', ThreadOk s' t' := by
  intro t'
  have hT := hg.thread t
  by_cases e : t' = t
  · subst e
    cases hs with
    | inv op hpc hop hok =>
      exact threadOk_los (by rw [pc_setPc _ _ _ _ ht, if_pos rfl]) (disc_of_invOk hok)
    | ret r hpc => exact threadOk_idle (by rw [pc_setPc _ _ _ _ ht, if_pos rfl])
    | tryFail kd k m hpc hkd => exact threadOk_ret (r := .ff) (by rw [pc_setPc _ _ _ _ ht, if_pos rfl])
    | hit kd k m hpc hkd hm =>
      exact threadOk_act (by rw [pc_mk _ _ _ _ ht, if_pos rfl]) hm (show Disc s _ _ _ from los_disc hT hpc)
    | miss kd k hpc hkd hm =>
      exact threadOk_act (by rw [pc_mk _ _ _ _ ht, if_pos rfl]) (by simp [get_cons]) (show Disc s _ _ _ from los_disc hT hpc)
    | clear k hpc hok => exact threadOk_ret (r := .done) (by rw [pc_mk _ _ _ _ ht, if_pos rfl])
    | queue k m p' P Q hpc hp' hq =>
      have hk := queue_get hT hpc
      have hpc' : (queueStep s t' m p' P Q).pc t' = p' := by unfold queueStep; rw [pc_mk _ _ _ _ ht, if_pos rfl]
      rcases hp' with rfl | rfl | rfl
      · exact threadOk_ann hpc' hk
      · exact threadOk_wait hpc' hk
      · exact threadOk_ret hpc'
    | acqW k m r hpc hw hr => exact threadOk_ret (r := r) (by unfold acqW; rw [pc_mk _ _ _ _ ht, if_pos rfl])
    | unlock k m p' Q hpc hp' hq =>
      have hk := (act_ok hT hpc).1
      have hpc' : (relW s t' k m p' Q).pc t' = p' := by unfold relW; rw [pc_mk _ _ _ _ ht, if_pos rfl]
      rcases hp' with rfl | rfl
      · exact threadOk_rel hpc' hk
      · exact threadOk_ret hpc'
    | acqR kd k m r hpc hkd hw => exact threadOk_ret (r := r) (by unfold acqR; rw [pc_mk _ _ _ _ ht, if_pos rfl])
    | runlock k m hpc => exact threadOk_ret (r := .done) (by rw [pc_mk _ _ _ _ ht, if_pos rfl])
  · have hT' := hg.thread t'
    cases hs with
    | inv op hpc hop hok =>
      exact threadOk_frame (s := s) (by rw [pc_setPc _ _ _ _ ht, if_neg e]) (fun _ _ _ h => h) (fun _ => Iff.rfl) (fun _ => Iff.rfl) hT'
    | ret r hpc =>
      exact threadOk_frame (s := s) (by rw [pc_setPc _ _ _ _ ht, if_neg e]) (fun _ _ _ h => h) (fun _ => Iff.rfl) (fun _ => Iff.rfl) hT'
    | tryFail kd k m hpc hkd =>
      exact threadOk_frame (s := s) (by rw [pc_setPc _ _ _ _ ht, if_neg e]) (fun _ _ _ h => h) (fun _ => Iff.rfl) (fun _ => Iff.rfl) hT'
    | hit kd k m hpc hkd hm =>
      exact threadOk_frame (s := s) (by rw [pc_mk _ _ _ _ ht, if_neg e]) (fun _ _ _ h => h) (fun _ => Iff.rfl) (fun _ => Iff.rfl) hT'
    | miss kd k hpc hkd hm =>
      refine threadOk_frame (s := s) (by rw [pc_mk _ _ _ _ ht, if_neg e]) ?_ (fun _ => Iff.rfl) (fun _ => Iff.rfl) hT'
      intro k' m' _ h
      have hne : ¬ k = k' := by intro e'; subst e'; rw [hm] at h; cases h
      show Model.KeyedMutex.get ((k, s.heap.length) :: s.map) k' = some m'
      rw [get_cons, if_neg hne]; exact h
    | clear k hpc hok =>
      refine threadOk_frame (s := s) (by rw [pc_mk _ _ _ _ ht, if_neg e]) ?_ (fun _ => Iff.rfl) (fun _ => Iff.rfl) hT'
      intro k' m' hon h
      have hc := ((clearOk_iff s k).mp (hok rfl)).2.2 t'
      have hne : k' ≠ k := by intro e'; subst e'; rw [hon] at hc; cases hc
      show Model.KeyedMutex.get (del s.map k) k' = some m'
      rw [get_del_ne _ hne]; exact h
    | queue k m p' P Q hpc hp' hq =>
      exact threadOk_frame (s := s) (by unfold queueStep; rw [pc_mk _ _ _ _ ht, if_neg e]) (fun _ _ _ h => h) (fun _ => Iff.rfl) (fun _ => Iff.rfl) hT'
    | acqW k m r hpc hw hr =>
      exact threadOk_frame (s := s) (by unfold acqW; rw [pc_mk _ _ _ _ ht, if_neg e]) (fun _ _ _ h => h)
        (fun _ => mem_cons_ne e) (fun _ => Iff.rfl) hT'
    | unlock k m p' Q hpc hp' hq =>
      exact threadOk_frame (s := s) (by unfold relW; rw [pc_mk _ _ _ _ ht, if_neg e]) (fun _ _ _ h => h)
        (fun _ => mem_erase_ne e) (fun _ => Iff.rfl) hT'
    | acqR kd k m r hpc hkd hw =>
      exact threadOk_frame (s := s) (by unfold acqR; rw [pc_mk _ _ _ _ ht, if_neg e]) (fun _ _ _ h => h)
        (fun _ => Iff.rfl) (fun _ => mem_cons_ne e) hT'
    | runlock k m hpc =>
      exact threadOk_frame (s := s) (by rw [pc_mk _ _ _ _ ht, if_neg e]) (fun _ _ _ h => h)
        (fun _ => Iff.rfl) (fun _ => mem_erase_ne e) hT'

theorem acq_get (hT : ThreadOk s t) {k m : Nat}
    (hpc : s.pc t = .act .lock k m ∨ s.pc t = .act .trylock k m ∨ s.pc t = .wait k m) :
    Model.KeyedMutex.get s.map k = some m := by
  rcases hpc with h | h | h
  · exact (act_ok hT h).1
  · exact (act_ok hT h).1
  · exact wait_ok hT h

theorem mapLt_step (hg : Good s) (hs : Step rw true ops s t l s') :
    ∀ k m, Model.KeyedMutex.get s'.map k = some m → m < s'.heap.length := by
  intro k' m' h
  have hL := hg.mapLt
  cases hs with
  | inv op hpc hop hok => exact hL _ _ h
  | ret r hpc => exact hL _ _ h
  | tryFail kd k m hpc hkd => exact hL _ _ h
  | hit kd k m hpc hkd hm =>
    have := hL _ _ h
    show m' < (s.heap ++ [Mu.free]).length
    simp only [List.length_append, List.length_singleton]; omega
  | miss kd k hpc hkd hm =>
    show m' < (s.heap ++ [Mu.free]).length
    simp only [List.length_append, List.length_singleton]
    change Model.KeyedMutex.get ((k, s.heap.length) :: s.map) k' = some m' at h
    rw [get_cons] at h
    split at h
    · cases h; omega
    · have := hL _ _ h; omega
  | clear k hpc hok =>
    exact hL _ _ (get_del_some h).2
  | queue k m p' P Q hpc hp' hq =>
    show m' < (s.heap.set _ _).length
    rw [List.length_set]; exact hL _ _ h
  | acqW k m r hpc hw hr =>
    show m' < (s.heap.set _ _).length
    rw [List.length_set]; exact hL _ _ h
  | unlock k m p' Q hpc hp' hq =>
    show m' < (s.heap.set _ _).length
    rw [List.length_set]; exact hL _ _ h
  | acqR kd k m r hpc hkd hw =>
    show m' < (s.heap.set _ _).length
    rw [List.length_set]; exact hL _ _ h
  | runlock k m hpc =>
    show m' < (s.heap.set _ _).length
    rw [List.length_set]; exact hL _ _ h

theorem mapInj_step (hg : Good s) (hs : Step rw true ops s t l s') :
    ∀ k₁ k₂ m, Model.KeyedMutex.get s'.map k₁ = some m → Model.KeyedMutex.get s'.map k₂ = some m → k₁ = k₂ := by
  intro k₁ k₂ m' h₁ h₂
  have hI := hg.mapInj
  cases hs with
  | inv op hpc hop hok => exact hI _ _ _ h₁ h₂
  | ret r hpc => exact hI _ _ _ h₁ h₂
  | tryFail kd k m hpc hkd => exact hI _ _ _ h₁ h₂
  | hit kd k m hpc hkd hm => exact hI _ _ _ h₁ h₂
  | miss kd k hpc hkd hm =>
    change Model.KeyedMutex.get ((k, s.heap.length) :: s.map) k₁ = some m' at h₁
    change Model.KeyedMutex.get ((k, s.heap.length) :: s.map) k₂ = some m' at h₂
    rw [get_cons] at h₁ h₂
    split at h₁ <;> split at h₂
    · subst_vars; rfl
    · cases h₁; have := hg.mapLt _ _ h₂; omega
    · cases h₂; have := hg.mapLt _ _ h₁; omega
    · exact hI _ _ _ h₁ h₂
  | clear k hpc hok => exact hI _ _ _ (get_del_some h₁).2 (get_del_some h₂).2
  | queue k m p' P Q hpc hp' hq => exact hI _ _ _ h₁ h₂
  | acqW k m r hpc hw hr => exact hI _ _ _ h₁ h₂
  | unlock k m p' Q hpc hp' hq => exact hI _ _ _ h₁ h₂
  | acqR kd k m r hpc hkd hw => exact hI _ _ _ h₁ h₂
  | runlock k m hpc => exact hI _ _ _ h₁ h₂

theorem whNd_step (hg : Good s) (hs : Step rw true ops s t l s') : s'.wh.Nodup := by
  have hN := hg.whNd
  have hT := hg.thread t
  cases hs with
  | inv op hpc hop hok => exact hN
  | ret r hpc => exact hN
  | tryFail kd k m hpc hkd => exact hN
  | hit kd k m hpc hkd hm => exact hN
  | miss kd k hpc hkd hm => exact hN
  | clear k hpc hok => exact hN
  | queue k m p' P Q hpc hp' hq => exact hN
  | acqW k m r hpc hw hr =>
    show ((t, k) :: s.wh).Nodup
    refine List.nodup_cons.mpr ⟨fun hmem => ?_, hN⟩
    obtain ⟨m0, h0, h1⟩ := hg.whOk _ _ hmem
    rw [acq_get hT hpc] at h0; cases h0
    rw [hw] at h1; cases h1
  | unlock k m p' Q hpc hp' hq => exact hN.erase _
  | acqR kd k m r hpc hkd hw => exact hN
  | runlock k m hpc => exact hN

theorem rhNd_step (hg : Good s) (hs : Step rw true ops s t l s') : s'.rh.Nodup := by
  have hN := hg.rhNd
  have hT := hg.thread t
  cases hs with
  | inv op hpc hop hok => exact hN
  | ret r hpc => exact hN
  | tryFail kd k m hpc hkd => exact hN
  | hit kd k m hpc hkd hm => exact hN
  | miss kd k hpc hkd hm => exact hN
  | clear k hpc hok => exact hN
  | queue k m p' P Q hpc hp' hq => exact hN
  | acqW k m r hpc hw hr => exact hN
  | unlock k m p' Q hpc hp' hq => exact hN
  | acqR kd k m r hpc hkd hw =>
    show ((t, k) :: s.rh).Nodup
    exact List.nodup_cons.mpr ⟨(act_ok hT hpc).2.2.2 hkd, hN⟩
  | runlock k m hpc => exact hN.erase _

theorem whOk_step (hg : Good s) (hs : Step rw true ops s t l s') :
    ∀ t' k', (t', k') ∈ s'.wh → ∃ m', Model.KeyedMutex.get s'.map k' = some m' ∧ (s'.mu m').writer = some t' := by
  intro t' k' hmem
  have hW := hg.whOk
  have hT := hg.thread t
  cases hs with
  | inv op hpc hop hok => exact hW _ _ hmem
  | ret r hpc => exact hW _ _ hmem
  | tryFail kd k m hpc hkd => exact hW _ _ hmem
  | hit kd k m hpc hkd hm =>
    obtain ⟨m', h1, h2⟩ := hW _ _ hmem
    exact ⟨m', h1, by rw [mu_mk_append]; exact h2⟩
  | miss kd k hpc hkd hm =>
    obtain ⟨m', h1, h2⟩ := hW _ _ hmem
    refine ⟨m', ?_, by rw [mu_mk_append]; exact h2⟩
    have hne : ¬ k = k' := by intro e; subst e; rw [hm] at h1; cases h1
    show Model.KeyedMutex.get ((k, s.heap.length) :: s.map) k' = some m'
    rw [get_cons, if_neg hne]; exact h1
  | clear k hpc hok =>
    obtain ⟨m', h1, h2⟩ := hW _ _ hmem
    have hc := ((clearOk_iff s k).mp (hok rfl)).1 t'
    have hne : k' ≠ k := by intro e; subst e; exact hc hmem
    exact ⟨m', by show Model.KeyedMutex.get (del s.map k) k' = some m'; rw [get_del_ne _ hne]; exact h1, h2⟩
  | queue k m p' P Q hpc hp' hq =>
    obtain ⟨m', h1, h2⟩ := hW _ _ hmem
    have hm := hg.mapLt _ _ (queue_get hT hpc)
    refine ⟨m', h1, ?_⟩
    unfold queueStep
    rw [mu_mk_set _ _ _ _ hm]
    split
    · subst_vars; exact h2
    · exact h2
  | acqW k m r hpc hw hr =>
    have hk := acq_get hT hpc
    have hm := hg.mapLt _ _ hk
    change (t', k') ∈ (t, k) :: s.wh at hmem
    unfold acqW
    rcases List.mem_cons.mp hmem with e | hmem
    · cases e
      exact ⟨m, hk, by rw [mu_mk_set _ _ _ _ hm, if_pos rfl]⟩
    · obtain ⟨m', h1, h2⟩ := hW _ _ hmem
      refine ⟨m', h1, ?_⟩
      rw [mu_mk_set _ _ _ _ hm]
      split
      · subst_vars; rw [hw] at h2; cases h2
      · exact h2
  | unlock k m p' Q hpc hp' hq =>
    have hk := (act_ok hT hpc).1
    have hd := (act_ok hT hpc).2.1 rfl
    have hm := hg.mapLt _ _ hk
    change (t', k') ∈ s.wh.erase (t, k) at hmem
    obtain ⟨hne, hmem⟩ := (hg.whNd.mem_erase_iff).mp hmem
    obtain ⟨m', h1, h2⟩ := hW _ _ hmem
    refine ⟨m', h1, ?_⟩
    unfold relW
    rw [mu_mk_set _ _ _ _ hm]
    split
    · subst_vars
      exfalso
      obtain ⟨m0, h3, h4⟩ := hW _ _ hd
      rw [hk] at h3; cases h3
      rw [h2] at h4; cases h4
      have := hg.mapInj _ _ _ h1 hk
      subst this
      exact hne rfl
    · exact h2
  | acqR kd k m r hpc hkd hw =>
    obtain ⟨m', h1, h2⟩ := hW _ _ hmem
    have hm := hg.mapLt _ _ (act_ok hT hpc).1
    refine ⟨m', h1, ?_⟩
    unfold acqR
    rw [mu_mk_set _ _ _ _ hm]
    split
    · subst_vars; exact h2
    · exact h2
  | runlock k m hpc =>
    obtain ⟨m', h1, h2⟩ := hW _ _ hmem
    have hm := hg.mapLt _ _ (act_ok hT hpc).1
    refine ⟨m', h1, ?_⟩
    rw [mu_mk_set _ _ _ _ hm]
    split
    · subst_vars; exact h2
    · exact h2

theorem rhOk_step (hg : Good s) (hs : Step rw true ops s t l s') :
    ∀ t' k', (t', k') ∈ s'.rh → ∃ m', Model.KeyedMutex.get s'.map k' = some m' ∧ t' ∈ (s'.mu m').readers := by
  intro t' k' hmem
  have hR := hg.rhOk
  have hT := hg.thread t
  cases hs with
  | inv op hpc hop hok => exact hR _ _ hmem
  | ret r hpc => exact hR _ _ hmem
  | tryFail kd k m hpc hkd => exact hR _ _ hmem
  | hit kd k m hpc hkd hm =>
    obtain ⟨m', h1, h2⟩ := hR _ _ hmem
    exact ⟨m', h1, by rw [mu_mk_append]; exact h2⟩
  | miss kd k hpc hkd hm =>
    obtain ⟨m', h1, h2⟩ := hR _ _ hmem
    refine ⟨m', ?_, by rw [mu_mk_append]; exact h2⟩
    have hne : ¬ k = k' := by intro e; subst e; rw [hm] at h1; cases h1
    show Model.KeyedMutex.get ((k, s.heap.length) :: s.map) k' = some m'
    rw [get_cons, if_neg hne]; exact h1
  | clear k hpc hok =>
    obtain ⟨m', h1, h2⟩ := hR _ _ hmem
    have hc := ((clearOk_iff s k).mp (hok rfl)).2.1 t'
    have hne : k' ≠ k := by intro e; subst e; exact hc hmem
    exact ⟨m', by show Model.KeyedMutex.get (del s.map k) k' = some m'; rw [get_del_ne _ hne]; exact h1, h2⟩
  | queue k m p' P Q hpc hp' hq =>
    obtain ⟨m', h1, h2⟩ := hR _ _ hmem
    have hm := hg.mapLt _ _ (queue_get hT hpc)
    refine ⟨m', h1, ?_⟩
    unfold queueStep
    rw [mu_mk_set _ _ _ _ hm]
    split
    · subst_vars; exact h2
    · exact h2
  | acqW k m r hpc hw hr =>
    obtain ⟨m', h1, h2⟩ := hR _ _ hmem
    have hm := hg.mapLt _ _ (acq_get hT hpc)
    refine ⟨m', h1, ?_⟩
    unfold acqW
    rw [mu_mk_set _ _ _ _ hm]
    split
    · subst_vars; exact h2
    · exact h2
  | unlock k m p' Q hpc hp' hq =>
    obtain ⟨m', h1, h2⟩ := hR _ _ hmem
    have hm := hg.mapLt _ _ (act_ok hT hpc).1
    refine ⟨m', h1, ?_⟩
    unfold relW
    rw [mu_mk_set _ _ _ _ hm]
    split
    · subst_vars; exact h2
    · exact h2
  | acqR kd k m r hpc hkd hw =>
    have hk := (act_ok hT hpc).1
    have hm := hg.mapLt _ _ hk
    change (t', k') ∈ (t, k) :: s.rh at hmem
    unfold acqR
    rcases List.mem_cons.mp hmem with e | hmem
    · cases e
      exact ⟨m, hk, by rw [mu_mk_set _ _ _ _ hm, if_pos rfl]; exact List.mem_cons_self⟩
    · obtain ⟨m', h1, h2⟩ := hR _ _ hmem
      refine ⟨m', h1, ?_⟩
      rw [mu_mk_set _ _ _ _ hm]
      split
      · subst_vars; exact List.mem_cons_of_mem _ h2
      · exact h2
  | runlock k m hpc =>
    have hk := (act_ok hT hpc).1
    have hm := hg.mapLt _ _ hk
    change (t', k') ∈ s.rh.erase (t, k) at hmem
    obtain ⟨hne, hmem⟩ := (hg.rhNd.mem_erase_iff).mp hmem
    obtain ⟨m', h1, h2⟩ := hR _ _ hmem
    refine ⟨m', h1, ?_⟩
    rw [mu_mk_set _ _ _ _ hm]
    split
    · subst_vars
      have := hg.mapInj _ _ _ h1 hk
      subst this
      have hne' : t' ≠ t := fun e => hne (by rw [e])
      exact (List.mem_erase_of_ne hne').mpr h2
    · exact h2

theorem excl_step (hg : Good s) (hs : Step rw true ops s t l s') :
    ∀ m', (s'.mu m').writer ≠ none → (s'.mu m').readers = [] := by
  intro m'
  have hE := hg.excl m'
  have hT := hg.thread t
  cases hs with
  | inv op hpc hop hok => exact hE
  | ret r hpc => exact hE
  | tryFail kd k m hpc hkd => exact hE
  | hit kd k m hpc hkd hm => rw [mu_mk_append]; exact hE
  | miss kd k hpc hkd hm => rw [mu_mk_append]; exact hE
  | clear k hpc hok => exact hE
  | queue k m p' P Q hpc hp' hq =>
    have hm := hg.mapLt _ _ (queue_get hT hpc)
    unfold queueStep
    rw [mu_mk_set _ _ _ _ hm]
    split
    · subst_vars; exact hE
    · exact hE
  | acqW k m r hpc hw hr =>
    have hm := hg.mapLt _ _ (acq_get hT hpc)
    unfold acqW
    rw [mu_mk_set _ _ _ _ hm]
    split
    · subst_vars; intro _; exact hr
    · exact hE
  | unlock k m p' Q hpc hp' hq =>
    have hm := hg.mapLt _ _ (act_ok hT hpc).1
    unfold relW
    rw [mu_mk_set _ _ _ _ hm]
    split
    · intro h; exact absurd rfl h
    · exact hE
  | acqR kd k m r hpc hkd hw =>
    have hm := hg.mapLt _ _ (act_ok hT hpc).1
    unfold acqR
    rw [mu_mk_set _ _ _ _ hm]
    split
    · subst_vars; intro h; exact absurd hw h
    · exact hE
  | runlock k m hpc =>
    have hm := hg.mapLt _ _ (act_ok hT hpc).1
    rw [mu_mk_set _ _ _ _ hm]
    split
    · subst_vars; intro h
      show ((s.mu _).readers.erase t) = []
      rw [hE h]; rfl
    · exact hE

theorem good_step (hg : Good s) (ht : t < s.pcs.length) (hs : Step rw true ops s t l s') : Good s' :=
  ⟨thread_step hg ht hs, mapLt_step hg hs, mapInj_step hg hs, whOk_step hg hs, rhOk_step hg hs,
   excl_step hg hs, whNd_step hg hs, rhNd_step hg hs⟩

end step

theorem good_succ {rw : Bool} {ops : List Op} {s s' : State} {l : Option Event}
    (hg : Good s) (h : (l, s') ∈ succ rw true ops s) : Good s' := by
  obtain ⟨t, ht, hs⟩ := step_of_succ h
  exact good_step hg ht hs

theorem good_reachable (rw : Bool) (n : Nat) (ops : List Op) :
    ∀ s, Reachable (sys rw n ops) s → Good s :=
  Conc.invariant (sys rw n ops) Good (good_init n) (fun _ _ _ hg hm => good_succ hg hm)

end TypVerif.Lemmas.KeyedMutex
