import TypVerif.Lemmas.PubSubRedJ
/-
C10, completeness of the judge's reduction: the step-level simulation.  The judge's reduced system `sysJ` (successor function `succJ`)
follows the model through the relation "the model state is the judge's state plus some lag steps" (`Lag`): read locks of `sendAsync`
goroutines that the judge will take later, together with the send, and announcements of writers that the judge will make later.
-/
set_option linter.unusedSectionVars false
namespace TypVerif.Lemmas.PubSubRed
open TypVerif TypVerif.Conc TypVerif.Model.PubSub TypVerif.Drv.C10

/-- the reduced system the judge explores -/
@[reducible] def sysJ (cfg : Cfg) : Conc.Sys where
  State := State
  Event := Event
  init := {}
  succ := succJ cfg

theorem lagStep_exit {x y : State} {g : Nat} {κ : LK} (h : LagStep x g κ y) :
    LagStep { x with exited := true } g κ { y with exited := true } := by
  refine ⟨h.wf, h.inr, h.task, h.q, ?_⟩
  rw [h.eq]; rfl

theorem lag_exit {gs : List (Nat × LK)} {j s : State} (h : Lag gs j s) : Lag gs { j with exited := true } { s with exited := true } := by
  induction h with
  | nil x => exact Lag.nil _
  | cons h1 _ ih => exact Lag.cons (lagStep_exit h1) ih

theorem lag_wf {gs : List (Nat × LK)} {j s : State} (h : Lag gs j s) {g : Nat} {κ : LK} (hm : (g, κ) ∈ gs) : κ.wf := by
  induction h with
  | nil x => cases hm
  | cons h1 _ ih =>
    rcases List.mem_cons.1 hm with e | hm'
    · injection e with e1 e2
      subst e2
      exact h1.wf
    · exact ih hm'

theorem lagObj_of_annOf {t : Task} {o : Nat} {t1 : Task} (h : annOf t = some (o, t1)) : lagObj t = some o := by
  rcases annOf_cases h with ⟨c', cap, rfl, rfl⟩ | ⟨u, c', rfl, rfl⟩ | ⟨u, rfl, rfl⟩ <;> rfl

theorem not_rdShape_of_tasks_eq {j z : State} {i : Nat} (h : z.tasks[i]? = j.tasks[i]?) : ¬ RdShape j z i := by
  rintro ⟨o, it, o', it', h1, h2⟩
  rw [h, h1] at h2
  cases h2

/-- a step of the judge's reduced system, with its justification: a step of the model in which no `sendAsync` goroutine takes its
read lock, or such a step of goroutine `k` (and of nobody else) followed by an internal step of `k` -/
inductive JStep (cfg : Cfg) (j : State) : Option Event → State → Prop
  | plain {l : Option Event} {z : State} : (l, z) ∈ succ cfg j → (l = none → ∀ i, i < j.tasks.length → ¬ RdShape j z i) → JStep cfg j l z
  | merged {m t : State} {k : Nat} : (none, m) ∈ succ cfg j → RdShape j m k → (∀ i, i < j.tasks.length → RdShape j m i → i = k) →
      (none, t) ∈ taskSteps cfg m k → JStep cfg j none t

theorem JStep.mem {cfg : Cfg} {j z : State} {l : Option Event} (h : JStep cfg j l z) : (l, z) ∈ succJ cfg j := by
  cases h with
  | plain h1 h2 => exact succJ_plain cfg h1 h2
  | merged h1 h2 h3 h4 => exact succJ_merged cfg h1 h2 h3 h4

inductive JExec (cfg : Cfg) : State → List (Option Event) → State → Prop
  | nil (s : State) : JExec cfg s [] s
  | cons {s s' s'' : State} {l : Option Event} {ls : List (Option Event)} : JStep cfg s l s' → JExec cfg s' ls s'' → JExec cfg s (l :: ls) s''

theorem JExec.exec {cfg : Cfg} {j j' : State} {ls : List (Option Event)} (h : JExec cfg j ls j') : Exec (sysJ cfg) j ls j' := by
  induction h with
  | nil s => exact Exec.nil _
  | cons h1 _ ih => exact Exec.cons (sys := sysJ cfg) h1.mem ih

theorem JExec.append {cfg : Cfg} {a b c : State} {l1 l2 : List (Option Event)} (h1 : JExec cfg a l1 b) (h2 : JExec cfg b l2 c) :
    JExec cfg a (l1 ++ l2) c := by
  induction h1 with
  | nil s => exact h2
  | cons h _ ih => exact JExec.cons h (ih h2)

theorem exec_one (cfg : Cfg) {j z : State} {l : Option Event} (h : JStep cfg j l z) : JExec cfg j [l] z :=
  JExec.cons h (JExec.nil _)

/-- STEP-LEVEL SIMULATION: if the model state `s` is the judge's state `j` plus the lag steps `gs`, every step of the model from `s`
is matched by at most two steps of `succJ` from `j` with the same visible label, ending in a state that is again related -/
theorem sim_step (cfg : Cfg) (hG : ∀ x, Reachable (sys cfg) x → Good x) {gs : List (Nat × LK)} {j s s' : State} {l : Option Event}
    (hlag : Lag gs j s) (hrj : Reachable (sys cfg) j) (hrs : Reachable (sys cfg) s) (hstep : (l, s') ∈ succ cfg s) :
    ∃ ls j' gs', JExec cfg j ls j' ∧ visible ls = visible [l] ∧ ls.length ≤ 2 ∧ Lag gs' j' s' := by
  have hfl := lag_flags hlag
  have hex : s.exited = false := by
    cases h : s.exited with
    | false => rfl
    | true => unfold succ at hstep; rw [if_pos h] at hstep; cases hstep
  have hexj : j.exited = false := by rw [← hfl.1]; exact hex
  cases hp : s.panicked with
  | some m =>
    have hpj : j.panicked = some m := by rw [← hfl.2]; exact hp
    have e : ∀ x : State, x.exited = false → x.panicked = some m →
        succ cfg x = [(some (.exit ("panic:" ++ m)), { x with exited := true })] := by
      intro x h1 h2
      unfold succ
      rw [if_neg (by simp [h1])]
      simp only [h2]
    rw [e s hex hp] at hstep
    have := List.mem_singleton.1 hstep
    injection this with e1 e2
    subst e1; subst e2
    refine ⟨[_], { j with exited := true }, gs, exec_one cfg (JStep.plain ?_ (fun h => by cases h)), rfl, Nat.le_succ 1, lag_exit hlag⟩
    rw [e j hexj hpj]
    exact List.mem_singleton.2 rfl
  | none =>
    have hpj : j.panicked = none := by rw [← hfl.2]; exact hp
    obtain ⟨src, hsrc⟩ := (mem_succ_iff cfg s hex hp _).1 hstep
    cases src with
    | none =>
      obtain ⟨j', hj', hlag'⟩ := lag_move cfg hG hlag hrj hexj hpj none (fun k hk => by cases hk) hsrc
      have hjs : (l, j') ∈ succ cfg j := (mem_succ_iff cfg j hexj hpj _).2 ⟨none, hj'⟩
      refine ⟨[l], j', gs, exec_one cfg (JStep.plain hjs ?_), rfl, Nat.le_succ 1, hlag'⟩
      intro hl i _
      subst hl
      exact not_rdShape_of_tasks_eq (by rw [stepsOf_none_tasks cfg hj'])
    | some k =>
      simp only [stepsOf] at hsrc
      have hklt : k < s.tasks.length := by
        rcases Nat.lt_or_ge k s.tasks.length with hlt | hge
        · exact hlt
        · rw [taskSteps_nil_of_ge cfg s k hge] at hsrc; cases hsrc
      by_cases hmem : k ∈ gs.map Prod.fst
      · obtain ⟨⟨k', κ⟩, hm, hk'⟩ := List.mem_map.1 hmem
        simp only at hk'
        subst hk'
        have htk := lag_task_mem hlag hm
        -- the side condition of `lag_front`, and the label
        have hside : ¬ κ.annOK ∨ (s.obj κ.obj).rw.readers = 0 := by
          cases κ with
          | rd o it => exact Or.inl (fun h => h)
          | ann o t t1 =>
            have hwf : annOf t = some (o, t1) := lag_wf hlag hm
            exact Or.inr (waiter_step_canLock cfg htk (LK.waitsOn_tgt hwf) hsrc)
        obtain ⟨x, gs', hl, hlag', hn⟩ := lag_front hlag hm hside
        have hrx : Reachable (sys cfg) x := Reachable.step hrj (lagStep_succ cfg hl hexj hpj)
        have hflx := lagStep_flags hl
        have hxk := lagStep_task_self hl
        obtain ⟨x', hx', hlag''⟩ := lag_move cfg hG hlag' hrx (hflx.1.trans hexj) (hflx.2.trans hpj) (some k')
          (fun k1 hk1 => by
            injection hk1 with hk1; subst hk1
            refine ⟨hn, fun tk htk' => ?_⟩
            rw [hxk] at htk'; injection htk' with htk'; rw [← htk']; exact κ.annOf_tgt hl.wf) hsrc
        simp only [stepsOf] at hx'
        have hjx : (none, x) ∈ succ cfg j := lagStep_succ cfg hl hexj hpj
        have hklj : k' < j.tasks.length := lagStep_glt hl
        cases κ with
        | rd o it =>
          have hl0 : l = none := asyncSend_step_internal cfg htk hsrc
          subst hl0
          refine ⟨[none], x', gs', exec_one cfg (JStep.merged hjx ⟨o, it, o, it, hl.task, hxk⟩ ?_ hx'), rfl, Nat.le_succ 1, hlag''⟩
          intro i _ hi
          by_cases e : i = k'
          · exact e
          · exact absurd hi (not_rdShape_of_tasks_eq (lagStep_task_ne hl e))
        | ann o t t1 =>
          have h1 : JStep cfg j none x := by
            refine JStep.plain hjx (fun _ i _ => ?_)
            by_cases e : i = k'
            · subst e
              rintro ⟨o1, it1, _, _, h1, _⟩
              have h2 := hl.task
              rw [h1] at h2
              injection h2 with h2
              have h3 := hl.wf
              simp only [LK.src] at h2
              simp only [LK.wf] at h3
              rw [← h2] at h3
              cases h3
            · exact not_rdShape_of_tasks_eq (lagStep_task_ne hl e)
          have hxs : (l, x') ∈ succ cfg x :=
            (mem_succ_iff cfg x (hflx.1.trans hexj) (hflx.2.trans hpj) _).2 ⟨some k', hx'⟩
          have h2 : JStep cfg x l x' := by
            refine JStep.plain hxs (fun _ i hi => ?_)
            by_cases e : i = k'
            · subst e
              rintro ⟨o1, it1, _, _, h1, _⟩
              rw [hxk] at h1
              injection h1 with h1
              have h3 : waitsOn t1 = some o := LK.waitsOn_tgt hl.wf
              simp only [LK.tgt] at h1
              rw [h1] at h3
              cases h3
            · exact not_rdShape_of_tasks_eq (taskSteps_task_ne cfg hx' hi e)
          refine ⟨[none, l], x', gs', JExec.cons h1 (exec_one cfg h2), ?_, Nat.le_refl 2, hlag''⟩
          cases l <;> rfl
      · have hjk : s.tasks[k]? = j.tasks[k]? := lag_task_ne hlag hmem
        obtain ⟨tk, htk⟩ : ∃ tk, s.tasks[k]? = some tk := ⟨s.tasks[k], List.getElem?_eq_getElem hklt⟩
        cases ha : annOf tk with
        | some p =>
          obtain ⟨o, t1⟩ := p
          have ho : o < s.objs.length := (hG s hrs).inr k tk o htk (lagObj_of_annOf ha)
          obtain ⟨hl0, hl⟩ := ann_step cfg htk ha ho hsrc
          subst hl0
          exact ⟨[], j, _, JExec.nil _, rfl, Nat.zero_le 2, lag_snoc hlag hl⟩
        | none =>
          have hcase : (l = none ∧ ∃ κ, LagStep s k κ s') ∨ ¬ RdShape s s' k := by
            by_cases hq : ∃ o it, tk = .asyncStart o it
            · obtain ⟨o, it, rfl⟩ := hq
              have ho : o < s.objs.length := (hG s hrs).inr k _ o htk rfl
              obtain ⟨hl0, h | h⟩ := asyncStart_step cfg htk ho hsrc
              · exact Or.inl ⟨hl0, _, h⟩
              · refine Or.inr ?_
                rintro ⟨_, _, _, _, _, h2⟩
                rw [h] at h2; cases h2
            · refine Or.inr ?_
              rintro ⟨o, it, _, _, h1, _⟩
              rw [htk] at h1
              injection h1 with h1
              exact hq ⟨o, it, h1⟩
          rcases hcase with ⟨hl0, κ, hl⟩ | hnr
          · subst hl0
            exact ⟨[], j, _, JExec.nil _, rfl, Nat.zero_le 2, lag_snoc hlag hl⟩
          · obtain ⟨j', hj', hlag'⟩ := lag_move cfg hG hlag hrj hexj hpj (some k)
              (fun k1 hk1 => by
                injection hk1 with hk1; subst hk1
                refine ⟨hmem, fun tk' htk' => ?_⟩
                rw [← hjk, htk] at htk'; injection htk' with htk'; rw [← htk']; exact ha) hsrc
            simp only [stepsOf] at hj'
            have hjs : (l, j') ∈ succ cfg j := (mem_succ_iff cfg j hexj hpj _).2 ⟨some k, hj'⟩
            refine ⟨[l], j', gs, exec_one cfg (JStep.plain hjs ?_), rfl, Nat.le_succ 1, hlag'⟩
            intro _ i hi
            by_cases e : i = k
            · subst e
              rintro ⟨o, it, o', it', h1, h2⟩
              exact hnr ⟨o, it, o', it', by rw [hjk]; exact h1, by rw [lag_task_ne hlag' hmem]; exact h2⟩
            · exact not_rdShape_of_tasks_eq (taskSteps_task_ne cfg hj' hi e)


theorem JStep.reachable {cfg : Cfg} {j z : State} {l : Option Event} (h : JStep cfg j l z) (hr : Reachable (sys cfg) j) :
    Reachable (sys cfg) z := by
  obtain ⟨ls, hex, _⟩ := Lemmas.ConcAcceptC10.succJ_exec cfg j z l h.mem
  exact Exec.reachable hex hr

theorem JExec.reachable {cfg : Cfg} {j z : State} {ls : List (Option Event)} (h : JExec cfg j ls z) (hr : Reachable (sys cfg) j) :
    Reachable (sys cfg) z := by
  induction h with
  | nil s => exact hr
  | cons h1 _ ih => exact ih (h1.reachable hr)

/-- the simulation along an execution -/
theorem sim_exec (cfg : Cfg) (hG : ∀ x, Reachable (sys cfg) x → Good x) {s s2 : State} {ls : List (Option Event)}
    (hex : Exec (sys cfg) s ls s2) : ∀ {gs : List (Nat × LK)} {j : State}, Lag gs j s → Reachable (sys cfg) j → Reachable (sys cfg) s →
    ∃ ls' j2 gs2, JExec cfg j ls' j2 ∧ visible ls' = visible ls ∧ Lag gs2 j2 s2 ∧ Reachable (sys cfg) j2 := by
  refine Exec.rel_induct (sys' := sys cfg) (fun (s : State) (ls : List (Option Event)) (s2 : State) =>
    ∀ {gs : List (Nat × LK)} {j : State}, Lag gs j s → Reachable (sys cfg) j → Reachable (sys cfg) s →
      ∃ ls' j2 gs2, JExec cfg j ls' j2 ∧ visible ls' = visible ls ∧ Lag gs2 j2 s2 ∧ Reachable (sys cfg) j2) ?_ ?_ hex
  · intro s gs j hl hrj _; exact ⟨[], j, gs, JExec.nil _, rfl, hl, hrj⟩
  · intro s l s1 ls s2 hm ih gs j hl hrj hrs
    obtain ⟨ls1, j1, gs1, he1, hv1, _, hl1⟩ := sim_step cfg hG hl hrj hrs hm
    have hrj1 := he1.reachable hrj
    obtain ⟨ls2, j2, gs2, he2, hv2, hl2, hrj2⟩ := ih hl1 hrj1 (Reachable.step hrs hm)
    refine ⟨ls1 ++ ls2, j2, gs2, he1.append he2, ?_, hl2, hrj2⟩
    rw [visible_append, hv1, hv2]
    cases l <;> rfl

/-- THE REDUCTION LOSES NO TRACE: every execution of the model from the initial state is matched by an execution of the judge's
reduced system with the same visible trace, ending in a state from which the model's state is reached by lag steps only -/
theorem red_complete (cfg : Cfg) (hG : ∀ x, Reachable (sys cfg) x → Good x) {s : State} {ls : List (Option Event)}
    (hex : Exec (sys cfg) (sys cfg).init ls s) :
    ∃ ls' j gs, JExec cfg {} ls' j ∧ visible ls' = visible ls ∧ Lag gs j s :=
  let ⟨ls', j, gs, h1, h2, h3, _⟩ := sim_exec cfg hG hex (Lag.nil _) Reachable.init Reachable.init
  ⟨ls', j, gs, h1, h2, h3⟩

end TypVerif.Lemmas.PubSubRed
