import TypVerif.Model.Func
import TypVerif.Spec.Func
/-
Lemmas for C14, part 1: Fold, FoldReverse, Map, MapErr, Filter, Any, All, Index*, Contains*, Distinct*, Except*.
-/
namespace TypVerif.Lemmas.Func
open TypVerif TypVerif.Model

variable {α β σ ε κ ν : Type}

/-! ### Fold / FoldReverse -/

theorem foldLoop_eq (acc : σ → α → σ) : ∀ (s : List α) (state : σ), Func.foldLoop acc s state = s.foldl acc state
  | [], _ => rfl
  | v :: rest, state => by rw [Func.foldLoop, List.foldl_cons, foldLoop_eq acc rest]

theorem foldReverseLoop_eq (s : List α) (acc : σ → α → σ) :
    ∀ (k : Nat) (state : σ), k ≤ s.length →
      Func.foldReverseLoop s acc k state = .ok ((s.take k).reverse.foldl acc state)
  | 0, state, _ => by simp [Func.foldReverseLoop]
  | k + 1, state, hk => by
    have hlt : k < s.length := by omega
    rw [Func.foldReverseLoop, List.getElem?_eq_getElem hlt]
    simp only []
    have ht : s.take (k + 1) = s.take k ++ [s[k]] := by
      rw [List.take_add_one, List.getElem?_eq_getElem hlt]; rfl
    rw [foldReverseLoop_eq s acc k _ (by omega), ht, List.reverse_append, List.reverse_singleton,
      List.singleton_append, List.foldl_cons]

/-! ### Map / MapErr / Filter -/

theorem mapLoop_eq (conv : α → β) :
    ∀ (s : List α) (i : Nat) (pre post : List β), pre.length = i → post.length = s.length →
      Func.mapLoop conv s i (pre ++ post) = pre ++ s.map conv
  | [], _, pre, post, _, hp => by
    have : post = [] := List.length_eq_zero_iff.mp (by simpa using hp)
    subst this; simp [Func.mapLoop]
  | v :: rest, i, pre, post, hi, hp => by
    cases post with
    | nil => simp at hp
    | cons y post' =>
      have hset : (pre ++ y :: post').set i (conv v) = (pre ++ [conv v]) ++ post' := by subst hi; simp
      rw [Func.mapLoop, hset, mapLoop_eq conv rest (i + 1) _ post' (by simp [hi]) (by simpa using hp)]
      simp

theorem mapErrLoop_eq (conv : α → Except ε β) :
    ∀ (s : List α) (i : Nat) (pre post : List β), pre.length = i → post.length = s.length →
      Func.mapErrLoop conv s i (pre ++ post) =
        match Spec.Func.mapErr s conv with
        | .error e => .error e
        | .ok rs => .ok (pre ++ rs)
  | [], _, pre, post, _, hp => by
    have : post = [] := List.length_eq_zero_iff.mp (by simpa using hp)
    subst this; simp [Func.mapErrLoop, Spec.Func.mapErr]
  | v :: rest, i, pre, post, hi, hp => by
    cases post with
    | nil => simp at hp
    | cons y post' =>
      rw [Func.mapErrLoop, Spec.Func.mapErr]
      cases hc : conv v with
      | error e => rfl
      | ok r =>
        have hset : (pre ++ y :: post').set i r = (pre ++ [r]) ++ post' := by subst hi; simp
        simp only []
        rw [hset, mapErrLoop_eq conv rest (i + 1) _ post' (by simp [hi]) (by simpa using hp)]
        cases Spec.Func.mapErr rest conv with
        | error e => rfl
        | ok rs => simp

theorem mapErr_eq (s : List α) (conv : α → Except ε β) (zero : β) :
    Func.mapErr s conv zero = Spec.Func.mapErr s conv := by
  unfold Func.mapErr
  have := mapErrLoop_eq conv s 0 [] (List.replicate s.length zero) rfl (by simp)
  simp only [List.nil_append] at this
  rw [this]
  cases Spec.Func.mapErr s conv <;> rfl

/-- all conversions succeed: the result is the list of their results -/
theorem spec_mapErr_ok (conv : α → Except ε β) :
    ∀ (s : List α) (rs : List β), s.map conv = rs.map Except.ok → Spec.Func.mapErr s conv = .ok rs
  | [], rs, h => by
    cases rs with
    | nil => rfl
    | cons r rs => simp at h
  | v :: rest, rs, h => by
    cases rs with
    | nil => simp at h
    | cons r rs =>
      simp only [List.map_cons, List.cons.injEq] at h
      rw [Spec.Func.mapErr, h.1]
      simp only []
      rw [spec_mapErr_ok conv rest rs h.2]

/-- the first failing conversion decides: its error is returned -/
theorem spec_mapErr_first_error (conv : α → Except ε β) (x : α) (post : List α) (e : ε) (hx : conv x = .error e) :
    ∀ (pre : List α) (rs : List β), pre.map conv = rs.map Except.ok →
      Spec.Func.mapErr (pre ++ x :: post) conv = .error e
  | [], _, _ => by
    rw [List.nil_append, Spec.Func.mapErr, hx]
  | v :: pre, rs, h => by
    cases rs with
    | nil => simp at h
    | cons r rs =>
      simp only [List.map_cons, List.cons.injEq] at h
      rw [List.cons_append, Spec.Func.mapErr, h.1]
      simp only []
      rw [spec_mapErr_first_error conv x post e hx pre rs h.2]

theorem filterLoop_eq (p : α → Bool) :
    ∀ (s result : List α), Func.filterLoop p s result = result ++ s.filter p
  | [], result => by simp [Func.filterLoop]
  | v :: rest, result => by
    rw [Func.filterLoop]
    cases hp : p v
    · simp [filterLoop_eq p rest, hp]
    · simp [filterLoop_eq p rest, hp]

/-! ### Any / All / Index / Contains -/

theorem any_eq (p : α → Bool) : ∀ s : List α, Func.any s p = s.any p
  | [] => rfl
  | v :: rest => by
    rw [Func.any, List.any_cons, any_eq p rest]
    cases p v <;> simp

theorem all_eq (p : α → Bool) : ∀ s : List α, Func.all s p = s.all p
  | [] => rfl
  | v :: rest => by
    rw [Func.all, List.all_cons, all_eq p rest]
    cases p v <;> simp

theorem indexFuncLoop_eq (f : α → Bool) :
    ∀ (s : List α) (i : Nat), Func.indexFuncLoop f s i =
      match s.findIdx? f with
      | some k => ((i + k : Nat) : Int)
      | none => -1
  | [], _ => rfl
  | v :: rest, i => by
    rw [Func.indexFuncLoop, List.findIdx?_cons]
    cases hf : f v
    · simp only [Bool.false_eq_true, if_false]
      rw [indexFuncLoop_eq f rest (i + 1)]
      cases List.findIdx? f rest with
      | none => rfl
      | some k => simp only [Option.map_some]; congr 1; omega
    · simp

theorem contains_eq [DecidableEq α] (v : α) : ∀ s : List α, Func.contains s v = decide (v ∈ s)
  | [] => by simp [Func.contains]
  | x :: rest => by
    rw [Func.contains, contains_eq v rest]
    by_cases h : x = v
    · simp [h]
    · have : ¬ v = x := fun e => h e.symm
      simp [h, this]

theorem containsFunc_eq (v : α) (eq : α → α → Bool) : ∀ s : List α, Func.containsFunc s v eq = s.any (fun x => eq x v)
  | [] => rfl
  | x :: rest => by
    rw [Func.containsFunc, List.any_cons, containsFunc_eq v eq rest]
    cases eq x v <;> simp

/-! ### Distinct / DistinctFunc -/

theorem mem_dedup [DecidableEq α] (x : α) : ∀ s : List α, x ∈ Spec.Func.dedup s ↔ x ∈ s
  | [] => by simp [Spec.Func.dedup]
  | v :: rest => by
    rw [Spec.Func.dedup, List.mem_cons, List.mem_cons, List.mem_filter, mem_dedup x rest]
    by_cases h : x = v
    · simp [h]
    · simp [h]

/-- the loop started with `result` appends the first occurrences of the values not yet in `result` -/
theorem distinctLoop_eq [DecidableEq α] :
    ∀ (s result : List α), Func.distinctLoop s result =
      result ++ (Spec.Func.dedup s).filter (fun x => !decide (x ∈ result))
  | [], result => by simp [Func.distinctLoop, Spec.Func.dedup]
  | v :: rest, result => by
    rw [Func.distinctLoop, contains_eq, Spec.Func.dedup]
    by_cases hv : v ∈ result
    · simp only [hv, decide_true, Bool.not_true, Bool.false_eq_true, if_false, List.filter_cons, if_false]
      rw [distinctLoop_eq rest result, List.filter_filter]
      congr 1
      apply List.filter_congr
      intro x _
      by_cases hx : x ∈ result
      · simp [hx]
      · have : x ≠ v := fun e => hx (e ▸ hv)
        simp [hx, this]
    · simp only [hv, decide_false, Bool.not_false, if_true, List.filter_cons]
      rw [distinctLoop_eq rest (result ++ [v]), List.filter_filter, List.append_assoc]
      congr 1
      simp only [List.singleton_append]
      congr 1
      apply List.filter_congr
      intro x _
      simp only [List.mem_append, List.mem_singleton]
      by_cases hx : x ∈ result <;> by_cases hxv : x = v <;> simp [hx, hxv]

theorem distinctFuncLoop_eq (eq : α → α → Bool) :
    ∀ (s result : List α), Func.distinctFuncLoop eq s result = Spec.Func.distinctFunc eq s result
  | [], _ => rfl
  | v :: rest, result => by
    rw [Func.distinctFuncLoop, Spec.Func.distinctFunc, containsFunc_eq]
    cases h : result.any (fun x => eq x v)
    · simp [distinctFuncLoop_eq eq rest]
    · simp [distinctFuncLoop_eq eq rest]

/-! ### Except / ExceptSet -/

theorem exceptSetLoop_eq [DecidableEq α] (exclude : List α) :
    ∀ (s result : List α), Func.exceptSetLoop exclude s result =
      result ++ s.filter (fun v => !decide (v ∈ exclude))
  | [], result => by simp [Func.exceptSetLoop]
  | v :: rest, result => by
    rw [Func.exceptSetLoop, Func.setHas, contains_eq]
    by_cases hv : v ∈ exclude
    · simp [hv, exceptSetLoop_eq exclude rest]
    · simp [hv, exceptSetLoop_eq exclude rest]

theorem mem_newSetFromSlice [DecidableEq α] (x : α) :
    ∀ (s set : List α), x ∈ Func.newSetFromSlice s set ↔ x ∈ set ∨ x ∈ s
  | [], set => by simp [Func.newSetFromSlice]
  | v :: rest, set => by
    rw [Func.newSetFromSlice, mem_newSetFromSlice x rest, Func.setAdd, Func.setHas, contains_eq]
    by_cases hv : v ∈ set
    · simp only [hv, decide_true, if_true, List.mem_cons]
      constructor
      · rintro (h | h)
        · exact Or.inl h
        · exact Or.inr (Or.inr h)
      · rintro (h | h | h)
        · exact Or.inl h
        · exact Or.inl (h ▸ hv)
        · exact Or.inr h
    · simp only [hv, decide_false, Bool.false_eq_true, if_false, List.mem_append, List.mem_cons, List.not_mem_nil, or_false]
      constructor
      · rintro ((h | h) | h)
        · exact Or.inl h
        · exact Or.inr (Or.inl h)
        · exact Or.inr (Or.inr h)
      · rintro (h | h | h)
        · exact Or.inl (Or.inl h)
        · exact Or.inl (Or.inr h)
        · exact Or.inr h

end TypVerif.Lemmas.Func
