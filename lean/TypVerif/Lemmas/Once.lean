import TypVerif.Model.Once
/-
Invariants of the Once transition system (all schedules, any number of goroutines, any functions).
-/
namespace TypVerif.Lemmas.Once
open TypVerif TypVerif.Conc TypVerif.Model.Once

theorem pc_setPc (s : State) (t t' : Nat) (p : Pc) (ht : t < s.pcs.length) :
    (s.setPc t p).pc t' = if t' = t then p else s.pc t' := by
  unfold State.pc State.setPc
  simp only [List.getD_eq_getElem?_getD, List.getElem?_set]
  by_cases h : t' = t
  · subst h; simp [ht]
  · have h' : ¬ t = t' := fun e => h e.symm
    simp [h, h']

/-- what goroutine `t` knows at its program counter -/
def ThreadOk (s : State) (t : Nat) : Prop :=
  match s.pc t with
  | .idle | .fast | .lock => True
  | .check => s.mu = some t
  | .callF => s.mu = some t ∧ s.done = false ∧ s.invoked = [] ∧ s.fres = none
  | .inF => s.mu = some t ∧ s.done = false ∧ s.invoked = [t] ∧ s.fres = none
  | .assign r => s.mu = some t ∧ s.done = false ∧ s.invoked = [t] ∧ s.fres = some r
  | .store => s.mu = some t ∧ s.done = false ∧ s.invoked = [t] ∧ s.fres = some s.fields
  | .unlock => s.mu = some t ∧ s.done = true
  | .read | .returned => s.done = true

def isRun : Pc → Bool
  | .inF | .assign _ | .store => true
  | _ => false

structure Good (s : State) : Prop where
  thread : ∀ t, ThreadOk s t
  doneT : s.done = true → s.invoked.length = 1 ∧ s.fres = some s.fields
  doneF : s.done = false → (s.invoked = [] ∧ s.fres = none) ∨ ∃ t, isRun (s.pc t) = true

theorem good_init (n a : Nat) : Good (init n a) := by
  refine ⟨?_, ?_, ?_⟩
  · intro t
    have : (init n a).pc t = .idle := by
      unfold State.pc init
      simp only [List.getD_eq_getElem?_getD, List.getElem?_replicate]
      split <;> rfl
    unfold ThreadOk; rw [this]; trivial
  · intro h; simp [init] at h
  · intro _; left; simp [init]

theorem mem_succ {res : Nat → List Int} {s : State} {p : Option Event × State} :
    p ∈ succ res s ↔ ∃ t, t < s.pcs.length ∧ p ∈ stepT res s t := by
  unfold succ
  simp [List.mem_flatMap, List.mem_range]


theorem pc_mk (s : State) (t t' : Nat) (p : Pc) (ht : t < s.pcs.length) d m f i r :
    State.pc ⟨s.pcs.set t p, d, m, f, i, r⟩ t' = if t' = t then p else s.pc t' := by
  have := pc_setPc s t t' p ht
  unfold State.setPc State.pc at *
  exact this

/-- a running goroutine holds the mutex -/
theorem run_holds {s : State} (hg : Good s) {t : Nat} (h : isRun (s.pc t) = true) : s.mu = some t := by
  have h' := hg.thread t
  unfold ThreadOk at h'
  split at h' <;> simp_all [isRun]

/-- under the mutex with `done = 0` nothing has been invoked -/
theorem check_fresh {s : State} (hg : Good s) {t : Nat} (hpc : s.pc t = .check) (hd : s.done = false) :
    s.invoked = [] ∧ s.fres = none := by
  rcases hg.doneF hd with h | ⟨t0, h0⟩
  · exact h
  · have h1 := run_holds hg h0
    have h2 := hg.thread t
    unfold ThreadOk at h2
    rw [hpc] at h2
    simp only at h2
    rw [h2] at h1
    have : t = t0 := by simpa using h1
    subst this
    rw [hpc] at h0
    simp [isRun] at h0

theorem thread_step (res : Nat → List Int) (s : State) (l : Option Event) (s' : State)
    (hg : Good s) (hmem : (l, s') ∈ succ res s) : ∀ t', ThreadOk s' t' := by
  obtain ⟨t, ht, hstep⟩ := mem_succ.mp hmem
  have hT := hg.thread t
  have hdT := hg.doneT
  have hfresh := @check_fresh s hg t
  unfold stepT at hstep
  unfold ThreadOk at hT
  intro t'
  have h' := hg.thread t'
  unfold ThreadOk at h' ⊢
  split at hstep <;> (try split at hstep) <;> simp at hstep <;> obtain ⟨rfl, rfl⟩ := hstep <;>
    simp only [State.setPc, pc_mk _ _ _ _ ht] <;>
    by_cases e : t' = t
  all_goals first
    | (subst e; simp_all; done)
    | (simp only [e, if_false]; split <;> simp_all; done)

theorem doneT_step (res : Nat → List Int) (s : State) (l : Option Event) (s' : State)
    (hg : Good s) (hmem : (l, s') ∈ succ res s) :
    s'.done = true → s'.invoked.length = 1 ∧ s'.fres = some s'.fields := by
  obtain ⟨t, ht, hstep⟩ := mem_succ.mp hmem
  have hT := hg.thread t
  have hdT := hg.doneT
  unfold stepT at hstep
  unfold ThreadOk at hT
  split at hstep <;> (try split at hstep) <;> simp at hstep <;> obtain ⟨rfl, rfl⟩ := hstep <;>
    simp only [State.setPc] <;> simp_all

theorem doneF_step (res : Nat → List Int) (s : State) (l : Option Event) (s' : State)
    (hg : Good s) (hmem : (l, s') ∈ succ res s) :
    s'.done = false → (s'.invoked = [] ∧ s'.fres = none) ∨ ∃ t, isRun (s'.pc t) = true := by
  obtain ⟨t, ht, hstep⟩ := mem_succ.mp hmem
  have hT := hg.thread t
  have hdF := hg.doneF
  unfold stepT at hstep
  unfold ThreadOk at hT
  split at hstep <;> (try split at hstep) <;> simp at hstep <;> obtain ⟨rfl, rfl⟩ := hstep <;>
    simp only [State.setPc, pc_mk _ _ _ _ ht] <;> intro hd
  all_goals first
    | (right; refine ⟨t, ?_⟩; simp [isRun]; done)
    | (simp_all; done)
    | (rcases hdF hd with h | ⟨t0, h0⟩
       · left; simp_all
       · right
         refine ⟨t0, ?_⟩
         have hne : t0 ≠ t := by
           intro e; subst e; rw [‹s.pc t0 = _›] at h0; simp [isRun] at h0
         simp [hne, h0])

theorem good_step (res : Nat → List Int) (s : State) (l : Option Event) (s' : State)
    (hg : Good s) (hmem : (l, s') ∈ succ res s) : Good s' :=
  ⟨thread_step res s l s' hg hmem, doneT_step res s l s' hg hmem, doneF_step res s l s' hg hmem⟩

theorem good_reachable (n a : Nat) (res : Nat → List Int) :
    ∀ s, Reachable (sys n a res) s → Good s :=
  Conc.invariant (sys n a res) Good (good_init n a) (fun s l s' h hm => good_step res s l s' h hm)


/-! ### consequences -/

theorem invocations_le_one {s : State} (hg : Good s) : s.invocations ≤ 1 := by
  unfold State.invocations
  cases hd : s.done
  · rcases hg.doneF hd with h | ⟨t, ht⟩
    · simp [h.1]
    · have h' := hg.thread t
      unfold ThreadOk at h'
      split at h' <;> simp_all [isRun]
  · simp [(hg.doneT hd).1]

/-- a `ret` step is taken from `read`, carries the fields -/
theorem ret_step {res : Nat → List Int} {s s' : State} {t : Nat} {r : List Int}
    (h : (some (Event.ret t r), s') ∈ succ res s) : s.pc t = .read ∧ r = s.fields := by
  obtain ⟨t0, _, hstep⟩ := mem_succ.mp h
  unfold stepT at hstep
  split at hstep <;> (try split at hstep) <;> simp at hstep
  obtain ⟨⟨rfl, rfl⟩, _⟩ := hstep
  exact ⟨by assumption, rfl⟩

theorem fend_step {res : Nat → List Int} {s s' : State} {t : Nat} {r : List Int}
    (h : (some (Event.fend t r), s') ∈ succ res s) : s.pc t = .inF ∧ r = res t ∧ s'.fres = some r := by
  obtain ⟨t0, _, hstep⟩ := mem_succ.mp h
  unfold stepT at hstep
  split at hstep <;> (try split at hstep) <;> simp at hstep
  obtain ⟨⟨rfl, rfl⟩, rfl⟩ := hstep
  exact ⟨by assumption, rfl, rfl⟩

theorem fstart_step {res : Nat → List Int} {s s' : State} {t : Nat}
    (h : (some (Event.fstart t), s') ∈ succ res s) : s.pc t = .callF ∧ s'.invoked = t :: s.invoked := by
  obtain ⟨t0, _, hstep⟩ := mem_succ.mp h
  unfold stepT at hstep
  split at hstep <;> (try split at hstep) <;> simp at hstep
  obtain ⟨rfl, rfl⟩ := hstep
  exact ⟨by assumption, rfl⟩

/-- steps other than `fstart` do not touch the invocation record -/
theorem invoked_frame {res : Nat → List Int} {s s' : State} {l : Option Event}
    (h : (l, s') ∈ succ res s) (hl : ∀ t, l ≠ some (Event.fstart t)) : s'.invoked = s.invoked := by
  obtain ⟨t0, _, hstep⟩ := mem_succ.mp h
  unfold stepT at hstep
  split at hstep <;> (try split at hstep) <;> simp at hstep <;> obtain ⟨rfl, rfl⟩ := hstep <;>
    first | rfl | (exact absurd rfl (hl _))

/-- once recorded, the result never changes -/
theorem fres_stable {res : Nat → List Int} {s s' : State} {l : Option Event} {r : List Int}
    (hg : Good s) (hr : s.fres = some r) (h : (l, s') ∈ succ res s) : s'.fres = some r := by
  obtain ⟨t, _, hstep⟩ := mem_succ.mp h
  have hT := hg.thread t
  unfold ThreadOk at hT
  unfold stepT at hstep
  split at hstep <;> (try split at hstep) <;> simp at hstep <;> obtain ⟨rfl, rfl⟩ := hstep <;>
    simp_all [State.setPc]

end TypVerif.Lemmas.Once

