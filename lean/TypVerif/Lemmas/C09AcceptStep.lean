import TypVerif.Lemmas.C09AcceptPad
import TypVerif.Lemmas.C09AcceptNorm
import TypVerif.Lemmas.C09AcceptSim
/-
Acceptance soundness for the judge `Drv/C09.lean`: one event.

`Drv.C09.stepEvent` computes the internal closure with `Drv.C09.close`, a `partial def` — an opaque constant for the kernel, about
which nothing can be proved.  So the closure is a parameter here (`stepEventWith cl`; `Drv.C09.stepEvent rw = stepEventWith (close rw) rw`
by `rfl`), the soundness theorem assumes of it exactly the closure property `CloseSound rw cl`, and that property is proved for the
fuel-bounded replica `closeF rw fuel` of `close` (same code, structural recursion on a fuel argument).
The reference path of the judge (`Conc.stepEvent`, exact states) is covered unconditionally.
-/
namespace TypVerif.Lemmas.C09Accept
open TypVerif TypVerif.Conc TypVerif.Model.KeyedMutex TypVerif.Drv.C09

/-- `ss'` is a sound successor set of `ss` for the visible event `e`, states being related to model states by `Q`: every state of
`ss'` comes from a state `x` of `ss` such that whatever model state `a` the state `x` stands for, `a` has an execution with visible
trace `[e]` to a model state that the new state stands for -/
def StepSound (Q : State → State → Prop) (rw : Bool) (ops : List Op) (e : Event) (ss ss' : List State) : Prop :=
  ∀ y ∈ ss', ∃ x ∈ ss, ∀ a, Q a x → ∃ (ls : List (Option Event)) (a' : State),
    Ex rw ops a ls a' ∧ visible ls = [e] ∧ Q a' y

/-! ### the reference path: `Conc.stepEvent`, exact states -/

theorem stepEvent_ref_sound (rw : Bool) (n : Nat) (ops : List Op) (fuel : Nat) (ss : List State) (e : Event) :
    StepSound Eq rw ops e ss (Conc.stepEvent (sys rw n ops) fuel ss e) := by
  intro y hy
  obtain ⟨x, hx, ls, hex, hv⟩ := Conc.stepEvent_sound (sys rw n ops) fuel ss e y hy
  refine ⟨x, hx, ?_⟩
  rintro a rfl
  exact ⟨ls, y, ex_of_exec hex, hv, rfl⟩

/-! ### the fast path -/

/-- `Drv.C09.stepEvent` with the closure function as a parameter -/
def stepEventWith (cl : Std.HashSet State → List State → Array State → Array State)
    (rw : Bool) (ops : List Op) (ss : List State) (e : Event) : List State :=
  let next := ss.flatMap (fun s => (succ rw true ops s).filterMap (fun p => match p.1 with
    | some e' => if e' = e then some (norm p.2) else none
    | none => none))
  let (seen, start) := next.foldl (fun (x : Std.HashSet State × Array State) s' =>
      if x.1.contains s' then x else (x.1.insert s', x.2.push s')) (({} : Std.HashSet State), #[])
  (cl seen start.toList start).toList

theorem stepEvent_eq (rw : Bool) (ops : List Op) (ss : List State) (e : Event) :
    Drv.C09.stepEvent rw ops ss e = stepEventWith (close rw) rw ops ss e := rfl

/-- what is needed of a closure function: it only adds normal forms of internal successors -/
def CloseSound (rw : Bool) (cl : Std.HashSet State → List State → Array State → Array State) : Prop :=
  ∀ (P : State → Prop), (∀ x z, P x → (none, z) ∈ succ rw true [] x → P (norm z)) →
    ∀ (seen : Std.HashSet State) (todo : List State) (acc : Array State),
      (∀ y ∈ todo, P y) → (∀ y ∈ acc.toList, P y) → ∀ y ∈ (cl seen todo acc).toList, P y

theorem close_fold_sound (P : State → Prop) (nexts : List State) (hn : ∀ y ∈ nexts, P y) :
    ∀ (x : Std.HashSet State × List State × Array State), (∀ y ∈ x.2.1, P y) → (∀ y ∈ x.2.2.toList, P y) →
      (∀ y ∈ (nexts.foldl (fun (x : Std.HashSet State × List State × Array State) s' =>
        if x.1.contains s' then x else (x.1.insert s', s' :: x.2.1, x.2.2.push s')) x).2.1, P y) ∧
      (∀ y ∈ (nexts.foldl (fun (x : Std.HashSet State × List State × Array State) s' =>
        if x.1.contains s' then x else (x.1.insert s', s' :: x.2.1, x.2.2.push s')) x).2.2.toList, P y) := by
  induction nexts with
  | nil => intro x h1 h2; exact ⟨h1, h2⟩
  | cons s' rest ih =>
    intro x h1 h2
    rw [List.foldl_cons]
    apply ih (fun y hy => hn y (List.mem_cons_of_mem _ hy))
    · split
      · exact h1
      · intro y hy
        rcases List.mem_cons.1 hy with rfl | hy
        · exact hn _ List.mem_cons_self
        · exact h1 y hy
    · split
      · exact h2
      · intro y hy
        simp only [Array.toList_push, List.mem_append, List.mem_singleton] at hy
        rcases hy with hy | rfl
        · exact h2 y hy
        · exact hn _ List.mem_cons_self

theorem closeF_sound (rw : Bool) (fuel : Nat) : CloseSound rw (closeF rw fuel) := by
  intro P hP
  induction fuel with
  | zero => intro seen todo acc _ h2; exact h2
  | succ fuel ih =>
    intro seen todo acc h1 h2
    unfold closeF
    cases todo with
    | nil => exact h2
    | cons s rest =>
      simp only
      have hn : ∀ y ∈ (succ rw true [] s).filterMap
          (fun p => match p.1 with | none => some (norm p.2) | some _ => none), P y := by
        intro y hy
        obtain ⟨p, hp, hpe⟩ := List.mem_filterMap.1 hy
        obtain ⟨l, z⟩ := p
        cases l with
        | some _ => simp at hpe
        | none =>
          simp only [Option.some.injEq] at hpe
          subst hpe
          exact hP s z (h1 s List.mem_cons_self) hp
      obtain ⟨h1', h2'⟩ := close_fold_sound P _ hn (seen, rest, acc)
        (fun y hy => h1 y (List.mem_cons_of_mem _ hy)) h2
      exact ih _ _ _ h1' h2'

theorem start_fold_sound (P : State → Prop) (next : List State) (hn : ∀ y ∈ next, P y) :
    ∀ (x : Std.HashSet State × Array State), (∀ y ∈ x.2.toList, P y) →
      ∀ y ∈ (next.foldl (fun (x : Std.HashSet State × Array State) s' =>
        if x.1.contains s' then x else (x.1.insert s', x.2.push s')) x).2.toList, P y := by
  induction next with
  | nil => intro x h; exact h
  | cons s' rest ih =>
    intro x h
    rw [List.foldl_cons]
    apply ih (fun y hy => hn y (List.mem_cons_of_mem _ hy))
    split
    · exact h
    · intro y hy
      simp only [Array.toList_push, List.mem_append, List.mem_singleton] at hy
      rcases hy with hy | rfl
      · exact h y hy
      · exact hn _ List.mem_cons_self

/-- internal steps do not depend on the alphabet -/
theorem succ_nil_ops {rw g : Bool} (ops : List Op) {s : State} {p : Option Event × State}
    (h : p ∈ succ rw g [] s) : p ∈ succ rw g ops s :=
  succ_ops_mono (fun _ h => by cases h) h

theorem stepEventWith_sound (cl : Std.HashSet State → List State → Array State → Array State) (rw : Bool)
    (hcl : CloseSound rw cl) (ops : List Op) (ss : List State) (e : Event) :
    StepSound R rw ops e ss (stepEventWith cl rw ops ss e) := by
  let P : State → Prop := fun y => ∃ x ∈ ss, ∀ a, R a x → ∃ (ls : List (Option Event)) (a' : State),
    Ex rw ops a ls a' ∧ visible ls = [e] ∧ R a' y
  have hP : ∀ x z, P x → (none, z) ∈ succ rw true [] x → P (norm z) := by
    intro x' z ⟨x, hx, hall⟩ hz
    refine ⟨x, hx, fun a ha => ?_⟩
    obtain ⟨ls, a', hex, hv, hr⟩ := hall a ha
    obtain ⟨a'', hs, hr'⟩ := R_succ hr hz
    refine ⟨ls ++ [none], a'', hex.append (.cons (succ_nil_ops ops hs) (.nil _)), ?_, R_norm hr'⟩
    simp [hv]
  have hnext : ∀ y ∈ ss.flatMap (fun s => (succ rw true ops s).filterMap (fun p => match p.1 with
      | some e' => if e' = e then some (norm p.2) else none
      | none => none)), P y := by
    intro y hy
    obtain ⟨x, hx, hm⟩ := List.mem_flatMap.1 hy
    obtain ⟨p, hp, hpe⟩ := List.mem_filterMap.1 hm
    obtain ⟨l, z⟩ := p
    cases l with
    | none => simp at hpe
    | some e' =>
      simp only at hpe
      split at hpe
      · rename_i heq
        subst heq
        simp only [Option.some.injEq] at hpe
        subst hpe
        refine ⟨x, hx, fun a ha => ?_⟩
        obtain ⟨a', hs, hr'⟩ := R_succ ha hp
        exact ⟨[some e'], a', .cons hs (.nil _), rfl, R_norm hr'⟩
      · cases hpe
  intro y hy
  unfold stepEventWith at hy
  simp only at hy
  have hstart := start_fold_sound P _ hnext (({} : Std.HashSet State), #[]) (by intro y hy; simp at hy)
  exact hcl P hP _ _ _ hstart hstart y hy

end TypVerif.Lemmas.C09Accept
