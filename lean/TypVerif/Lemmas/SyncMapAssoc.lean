import TypVerif.Model.SyncMap
/-
Association-list lemmas (lookup / insert / erase, duplicate-free keys) used by the C03/C04 proofs.
-/
namespace TypVerif.Lemmas.SyncMap

set_option linter.unusedSimpArgs false
open TypVerif.Model.SyncMap

section Assoc
variable {K β : Type} [DecidableEq K]

@[simp] theorem alookup_nil (k : K) : alookup k ([] : List (K × β)) = none := rfl

theorem alookup_cons (k k' : K) (b : β) (l : List (K × β)) :
    alookup k ((k', b) :: l) = if k = k' then some b else alookup k l := rfl

theorem alookup_ainsert (k k' : K) (b : β) (l : List (K × β)) :
    alookup k' (ainsert k b l) = if k' = k then some b else alookup k' l := by
  induction l with
  | nil => simp [ainsert, alookup_cons]
  | cons p rest ih =>
    obtain ⟨k0, b0⟩ := p
    unfold ainsert
    by_cases h : k = k0
    · subst h; simp only [if_true, alookup_cons]; split <;> rfl
    · simp only [h, if_false, alookup_cons, ih]
      by_cases h1 : k' = k0
      · subst h1
        have : ¬ k' = k := fun h2 => h h2.symm
        simp [this]
      · simp [h1]

theorem alookup_aerase (k k' : K) (l : List (K × β)) :
    alookup k' (aerase k l) = if k' = k then none else alookup k' l := by
  induction l with
  | nil => simp [aerase]
  | cons p rest ih =>
    obtain ⟨k0, b0⟩ := p
    unfold aerase at ih ⊢
    by_cases h : k0 = k
    · subst h
      simp only [List.filter_cons, decide_true, Bool.not_true, Bool.false_eq_true, if_false, ih, alookup_cons]
      split <;> rfl
    · simp only [List.filter_cons, h, decide_false, Bool.not_false, if_true, alookup_cons, ih]
      by_cases h1 : k' = k0
      · subst h1
        simp [h]
      · simp [h1]

theorem alookup_eq_none_iff (k : K) (l : List (K × β)) : alookup k l = none ↔ k ∉ akeys l := by
  induction l with
  | nil => simp [akeys]
  | cons p rest ih =>
    obtain ⟨k0, b0⟩ := p
    simp only [alookup_cons, akeys, List.map_cons, List.mem_cons, not_or] at ih ⊢
    by_cases h : k = k0
    · simp [h]
    · simp [h, ih]

theorem alookup_isSome_iff (k : K) (l : List (K × β)) : (alookup k l).isSome ↔ k ∈ akeys l := by
  have := alookup_eq_none_iff k l
  cases h : alookup k l with
  | none => simp [h] at this; simp [this]
  | some b => simp [h] at this; simp [this]

theorem mem_of_alookup {k : K} {b : β} {l : List (K × β)} (h : alookup k l = some b) : (k, b) ∈ l := by
  induction l with
  | nil => simp at h
  | cons p rest ih =>
    obtain ⟨k0, b0⟩ := p
    rw [alookup_cons] at h
    by_cases h1 : k = k0
    · simp [h1] at h; simp [h1, h]
    · simp [h1] at h; exact List.mem_cons_of_mem _ (ih h)

theorem alookup_of_mem {k : K} {b : β} {l : List (K × β)} (hn : (akeys l).Nodup) (h : (k, b) ∈ l) :
    alookup k l = some b := by
  induction l with
  | nil => simp at h
  | cons p rest ih =>
    obtain ⟨k0, b0⟩ := p
    simp only [akeys, List.map_cons, List.nodup_cons] at hn
    rw [alookup_cons]
    rcases List.mem_cons.mp h with h1 | h1
    · injection h1 with h2 h3; simp [h2, h3]
    · have hk : k ∈ rest.map Prod.fst := List.mem_map.mpr ⟨(k, b), h1, rfl⟩
      have : ¬ k = k0 := fun h2 => hn.1 (h2 ▸ hk)
      simp only [this, if_false]
      exact ih hn.2 h1

theorem akeys_ainsert_of_none {k : K} {b : β} {l : List (K × β)} (h : alookup k l = none) :
    ainsert k b l = l ++ [(k, b)] := by
  induction l with
  | nil => rfl
  | cons p rest ih =>
    obtain ⟨k0, b0⟩ := p
    rw [alookup_cons] at h
    by_cases h1 : k = k0
    · simp [h1] at h
    · simp only [h1, if_false] at h
      simp [ainsert, h1, ih h]

theorem akeys_ainsert_of_some {k : K} {b b' : β} {l : List (K × β)} (h : alookup k l = some b') :
    akeys (ainsert k b l) = akeys l := by
  induction l with
  | nil => simp at h
  | cons p rest ih =>
    obtain ⟨k0, b0⟩ := p
    rw [alookup_cons] at h
    by_cases h1 : k = k0
    · simp [ainsert, h1, akeys]
    · simp only [h1, if_false] at h
      have := ih h
      simp only [akeys] at this
      simp [ainsert, h1, akeys, this]

theorem nodup_ainsert {k : K} {b : β} {l : List (K × β)} (hn : (akeys l).Nodup) :
    (akeys (ainsert k b l)).Nodup := by
  cases h : alookup k l with
  | none =>
    rw [akeys_ainsert_of_none h]
    have hk := (alookup_eq_none_iff k l).mp h
    simp only [akeys, List.map_append, List.map_cons, List.map_nil] at hk ⊢
    rw [List.nodup_append]
    refine ⟨hn, by simp, ?_⟩
    intro a ha c hc
    simp at hc
    intro hac
    exact hk (hc ▸ hac ▸ ha)
  | some b' => rw [akeys_ainsert_of_some h]; exact hn

theorem length_ainsert_of_none {k : K} {b : β} {l : List (K × β)} (h : alookup k l = none) :
    (ainsert k b l).length = l.length + 1 := by
  rw [akeys_ainsert_of_none h]; simp

theorem length_ainsert_of_some {k : K} {b b' : β} {l : List (K × β)} (h : alookup k l = some b') :
    (ainsert k b l).length = l.length := by
  have := congrArg List.length (akeys_ainsert_of_some (b := b) h)
  simpa [akeys] using this

theorem nodup_aerase {k : K} {l : List (K × β)} (hn : (akeys l).Nodup) : (akeys (aerase k l)).Nodup := by
  unfold aerase akeys at *
  induction l with
  | nil => simp
  | cons p rest ih =>
    simp only [List.map_cons, List.nodup_cons] at hn
    simp only [List.filter_cons]
    split
    · simp only [List.map_cons, List.nodup_cons]
      refine ⟨?_, ih hn.2⟩
      intro hmem
      apply hn.1
      obtain ⟨q, hq, hq2⟩ := List.mem_map.mp hmem
      exact List.mem_map.mpr ⟨q, (List.mem_filter.mp hq).1, hq2⟩
    · exact ih hn.2

end Assoc

end TypVerif.Lemmas.SyncMap
