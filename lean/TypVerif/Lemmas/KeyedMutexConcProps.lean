import TypVerif.Lemmas.KeyedMutexConcStep
/-
C09 on the step-level map, layer 4: what the composed invariant gives (the statements of `Props/C09conc.lean`).
-/
namespace TypVerif.Lemmas.KeyedMutexConc
open TypVerif TypVerif.Conc TypVerif.Model TypVerif.Model.SyncMapConc TypVerif.Model.RelObj TypVerif.Lemmas.Smc
open TypVerif.Model.KeyedMutexConc (Phase Kind Mu MId mapOp invOk invStep afterMap retOf valOf finish mapSteps contMap
  acqW acqR hookStep getMu putMu isLockPc enabled)

set_option linter.unusedSectionVars false
set_option linter.unusedVariables false

variable {K : Type} [DecidableEq K]

/-! ### agreement -/

theorem Inv.abs_eq {k : K} {s : KState K} {a : AState K Nat} (h : Inv k s a) (k' : K) : a.obj k' = absOf s.map.sh k' :=
  h.r.abs k'

theorem Inv.agree {k : K} {s : KState K} {a : AState K Nat} (h : Inv k s a) {t : Tid} {m : MId}
    (ho : s.obtained t k m) : absOf s.map.sh k = some m := by
  rw [← h.abs_eq]
  rcases ho with ⟨kind, hp⟩ | hw | hr
  · exact ((link_atHook hp).mp (h.link t)).2.2 rfl
  · exact h.mu.wkey t m hw
  · exact h.mu.rkey t m hr

/-- every value of the map is an identity that was offered for that key; identities are offered for one key -/
theorem Inv.distinct {k : K} {s : KState K} {a : AState K Nat} (h : Inv k s a) {k1 k2 : K} {m : MId}
    (h1 : absOf s.map.sh k1 = some m) (h2 : absOf s.map.sh k2 = some m) : k1 = k2 := by
  rw [← h.abs_eq] at h1 h2
  exact h.off.func m k1 k2 (h.ak.vals k1 m h1) (h.ak.vals k2 m h2)

/-- the mutex a goroutine is parked at was offered for its key: it is not the mutex of another key -/
theorem Inv.hook_ne {k : K} {s : KState K} {a : AState K Nat} (h : Inv k s a) {t : Tid} {kind : Kind} {k2 : K} {m : MId}
    (hp : s.phase t = .atHook kind k2 m) {k1 : K} (hne : k2 ≠ k1) : absOf s.map.sh k1 ≠ some m := by
  intro h1
  rw [← h.abs_eq] at h1
  exact hne (h.off.func m k2 k1 ((link_atHook hp).mp (h.link t)).2.1 (h.ak.vals k1 m h1))

/-! ### mutual exclusion -/

theorem Inv.holdsW_iff {k : K} {s : KState K} {a : AState K Nat} (h : Inv k s a) {t : Tid} {m : MId}
    (hm : absOf s.map.sh k = some m) : s.holdsW t k = true ↔ (s.mu m).writer = some t := by
  rw [← h.abs_eq] at hm
  rw [Lemmas.KeyedMutexConc.holdsW_iff]
  constructor
  · rintro ⟨m', hm'⟩
    obtain ⟨h1, h2⟩ := h.mu.writer_of_mem hm'
    rw [hm] at h1
    rw [Option.some.inj h1]; exact h2
  · intro hw
    refine ⟨m, mem_of_count_pos ?_⟩
    rw [h.mu.wcount t m hm, if_pos hw]
    exact Nat.zero_lt_one

theorem Inv.holdsR_iff {k : K} {s : KState K} {a : AState K Nat} (h : Inv k s a) {t : Tid} {m : MId}
    (hm : absOf s.map.sh k = some m) : s.holdsR t k = true ↔ t ∈ (s.mu m).readers := by
  rw [← h.abs_eq] at hm
  rw [Lemmas.KeyedMutexConc.holdsR_iff]
  constructor
  · rintro ⟨m', hm'⟩
    obtain ⟨h1, h2⟩ := h.mu.reader_of_mem hm'
    rw [hm] at h1
    rw [Option.some.inj h1]; exact h2
  · intro hr
    refine ⟨m, mem_of_count_pos ?_⟩
    rw [h.mu.rcount t m hm]
    exact count_pos_of_mem' hr

theorem Inv.mutex {k : K} {s : KState K} {a : AState K Nat} (h : Inv k s a) {t1 t2 : Tid} {m1 m2 : MId}
    (h1 : (t1, k, m1) ∈ s.wh) (h2 : (t2, k, m2) ∈ s.wh) : t1 = t2 ∧ m1 = m2 := by
  obtain ⟨a1, w1⟩ := h.mu.writer_of_mem h1
  obtain ⟨a2, w2⟩ := h.mu.writer_of_mem h2
  rw [a1] at a2
  have := Option.some.inj a2
  subst this
  rw [w1] at w2
  exact ⟨Option.some.inj w2, rfl⟩

theorem Inv.rw_excl {k : K} {s : KState K} {a : AState K Nat} (h : Inv k s a) {t1 t2 : Tid} {m1 m2 : MId}
    (h1 : (t1, k, m1) ∈ s.wh) (h2 : (t2, k, m2) ∈ s.rh) : False := by
  obtain ⟨a1, w1⟩ := h.mu.writer_of_mem h1
  obtain ⟨a2, r2⟩ := h.mu.reader_of_mem h2
  rw [a1] at a2
  have := Option.some.inj a2
  subst this
  have := h.mu.wr m1 (by rw [w1]; intro hc; cases hc)
  rw [this] at r2
  cases r2

theorem Inv.wcount_le {k : K} {s : KState K} {a : AState K Nat} (h : Inv k s a) (t : Tid) (m : MId) :
    s.wh.count (t, k, m) ≤ 1 := by
  by_cases hm : (t, k, m) ∈ s.wh
  · rw [h.mu.wcount t m (h.mu.wkey t m hm)]
    split <;> simp
  · rw [List.count_eq_zero.mpr hm]; exact Nat.zero_le _

/-! ### the release step -/

/-- the step in which the map call of an `UnlockKey(k)` / `RUnlockKey(k)` / … returns: what it returns -/
theorem ret_step {k : K} {s : KState K} {a : AState K Nat} {t : Tid} {kind : Kind} {k' : K}
    {ms' : SyncMapConc.State K MId} {r : SyncMapConc.Res K MId} (h : Inv k s a)
    (ht : t < s.phases.length) (hph : s.phase t = .inMap kind k') (hmem : ms' ∈ mapSteps s.map t)
    (hr : retOf (ms'.pc t) = some r) (hk : kind ≠ .clear) :
    ∃ w b, r = .pair w b ∧ (w, k') ∈ s.offers ∧ (k' = k → absOf ms'.sh k = some w) := by
  have h1 := inv_mapStep h ht hph hmem
  obtain ⟨_, hf⟩ := ret_facts (s := { s with map := ms' }) h1 hph (retOf_eq_some hr)
  obtain ⟨w, b, h2, h3, h4⟩ := hf hk
  refine ⟨w, b, h2, h3, fun hkk => ?_⟩
  rw [← h4 hkk]
  exact (h1.abs_eq k).symm

theorem unlock_step {k : K} {s s' : KState K} {a : AState K Nat} {t : Tid} {l : Option (KeyedMutexConc.Event K)}
    {menu : List (KeyedMutexConc.Op K)} (h : Inv k s a)
    (ht : t < s.phases.length) (hph : s.phase t = .inMap .unlock k) (hstep : (l, s') ∈ KeyedMutexConc.stepT menu s t)
    (hdone : s'.phase t = .ret .done) :
    ∃ m, (t, k, m) ∈ s.wh ∧ (s.mu m).writer = some t ∧ absOf s'.map.sh k = some m ∧
      s'.wh = s.wh.erase (t, k, m) ∧ s'.mus = putMu s.mus m { s.mu m with writer := none } ∧
      s'.rh = s.rh ∧ s'.faults = s.faults := by
  unfold KeyedMutexConc.stepT at hstep
  simp only [hph] at hstep
  obtain ⟨ms', hms, heq⟩ := List.mem_map.mp hstep
  cases heq
  unfold contMap at hdone ⊢
  cases hr : retOf (ms'.pc t) with
  | none =>
    rw [hr] at hdone
    have : ({ s with map := ms' } : KState K).phase t = .inMap .unlock k := hph
    rw [this] at hdone; cases hdone
  | some r =>
    obtain ⟨w, b, hrw, _, hwk⟩ := ret_step h ht hph hms hr (by intro hc; cases hc)
    subst hrw
    obtain ⟨_, hlw, _⟩ := (link_inMap hph).mp (h.link t)
    obtain ⟨m, hm⟩ := hlw rfl rfl
    have h1 := inv_mapStep h ht hph hms
    have hm1 : (t, k, m) ∈ ({ s with map := ms' } : KState K).wh := hm
    obtain ⟨ho, hw⟩ := h1.mu.writer_of_mem hm1
    rw [h1.abs_eq] at ho
    have hwk' := hwk rfl
    have : absOf ({ s with map := ms' } : KState K).map.sh k = absOf ms'.sh k := rfl
    rw [this, hwk'] at ho
    have := Option.some.inj ho; subst this
    refine ⟨w, hm, hw, hwk', rfl, rfl, rfl, ?_⟩
    show (if (s.mu w).writer = some t then s.faults else k :: s.faults) = s.faults
    have hw' : (s.mu w).writer = some t := hw
    rw [if_pos hw']

theorem runlock_step {k : K} {s s' : KState K} {a : AState K Nat} {t : Tid} {l : Option (KeyedMutexConc.Event K)}
    {menu : List (KeyedMutexConc.Op K)} (h : Inv k s a)
    (ht : t < s.phases.length) (hph : s.phase t = .inMap .runlock k) (hstep : (l, s') ∈ KeyedMutexConc.stepT menu s t)
    (hdone : s'.phase t = .ret .done) :
    ∃ m, (t, k, m) ∈ s.rh ∧ t ∈ (s.mu m).readers ∧ absOf s'.map.sh k = some m ∧
      s'.rh = s.rh.erase (t, k, m) ∧ s'.mus = putMu s.mus m { s.mu m with readers := (s.mu m).readers.erase t } ∧
      s'.wh = s.wh ∧ s'.faults = s.faults := by
  unfold KeyedMutexConc.stepT at hstep
  simp only [hph] at hstep
  obtain ⟨ms', hms, heq⟩ := List.mem_map.mp hstep
  cases heq
  unfold contMap at hdone ⊢
  cases hr : retOf (ms'.pc t) with
  | none =>
    rw [hr] at hdone
    have : ({ s with map := ms' } : KState K).phase t = .inMap .runlock k := hph
    rw [this] at hdone; cases hdone
  | some r =>
    obtain ⟨w, b, hrw, _, hwk⟩ := ret_step h ht hph hms hr (by intro hc; cases hc)
    subst hrw
    obtain ⟨_, _, hlr⟩ := (link_inMap hph).mp (h.link t)
    obtain ⟨m, hm⟩ := hlr rfl rfl
    have h1 := inv_mapStep h ht hph hms
    have hm1 : (t, k, m) ∈ ({ s with map := ms' } : KState K).rh := hm
    obtain ⟨ho, hw⟩ := h1.mu.reader_of_mem hm1
    rw [h1.abs_eq] at ho
    have hwk' := hwk rfl
    have : absOf ({ s with map := ms' } : KState K).map.sh k = absOf ms'.sh k := rfl
    rw [this, hwk'] at ho
    have := Option.some.inj ho; subst this
    refine ⟨w, hm, hw, hwk', rfl, rfl, rfl, ?_⟩
    show (if t ∈ (s.mu w).readers then s.faults else k :: s.faults) = s.faults
    have hw' : t ∈ (s.mu w).readers := hw
    rw [if_pos hw']

/-! ### Try -/

theorem Inv.held_iff_not_free {k : K} {s : KState K} {a : AState K Nat} (h : Inv k s a) {m : MId}
    (hm : absOf s.map.sh k = some m) :
    ((∃ u, s.holdsW u k = true) ∨ (∃ u, s.holdsR u k = true)) ↔ ¬ (s.mu m).free := by
  constructor
  · rintro (⟨u, hu⟩ | ⟨u, hu⟩) hf
    · rw [h.holdsW_iff hm, hf.1] at hu; cases hu
    · rw [h.holdsR_iff hm, hf.2] at hu; cases hu
  · intro hf
    cases hw : (s.mu m).writer with
    | some u => exact Or.inl ⟨u, (h.holdsW_iff hm).mpr hw⟩
    | none =>
      cases hr : (s.mu m).readers with
      | nil => exact absurd ⟨hw, hr⟩ hf
      | cons u rest => exact Or.inr ⟨u, (h.holdsR_iff hm).mpr (by rw [hr]; exact List.mem_cons_self)⟩

theorem Inv.wheld_iff_not_readable {k : K} {s : KState K} {a : AState K Nat} (h : Inv k s a) {m : MId}
    (hm : absOf s.map.sh k = some m) : (∃ u, s.holdsW u k = true) ↔ ¬ (s.mu m).readable := by
  constructor
  · rintro ⟨u, hu⟩ hf
    rw [h.holdsW_iff hm] at hu
    have hf' : (s.mu m).writer = none := hf
    rw [hf'] at hu; cases hu
  · intro hf
    cases hw : (s.mu m).writer with
    | some u => exact ⟨u, (h.holdsW_iff hm).mpr hw⟩
    | none => exact absurd hw hf

theorem phase_acqW (s : KState K) (t : Tid) (k : K) (m : MId) (r : KeyedMutexConc.Res) (ht : t < s.phases.length) :
    (acqW s t k m r).phase t = .ret r := phase_of_set_self rfl ht

theorem phase_acqR (s : KState K) (t : Tid) (k : K) (m : MId) (r : KeyedMutexConc.Res) (ht : t < s.phases.length) :
    (acqR s t k m r).phase t = .ret r := phase_of_set_self rfl ht

theorem holdsW_acqW (s : KState K) (t : Tid) (k : K) (m : MId) (r : KeyedMutexConc.Res) :
    (acqW s t k m r).holdsW t k = true :=
  Lemmas.KeyedMutexConc.holdsW_iff.mpr ⟨m, List.mem_cons_self⟩

theorem holdsR_acqR (s : KState K) (t : Tid) (k : K) (m : MId) (r : KeyedMutexConc.Res) :
    (acqR s t k m r).holdsR t k = true :=
  Lemmas.KeyedMutexConc.holdsR_iff.mpr ⟨m, List.mem_cons_self⟩

theorem mu_acqW (s : KState K) (t : Tid) (k : K) (m : MId) (r : KeyedMutexConc.Res) :
    ((acqW s t k m r).mu m).writer = some t := by
  have : (acqW s t k m r).mus = putMu s.mus m { s.mu m with writer := some t } := rfl
  rw [mu_of_putMu_self this]

theorem mu_acqR (s : KState K) (t : Tid) (k : K) (m : MId) (r : KeyedMutexConc.Res) :
    t ∈ ((acqR s t k m r).mu m).readers := by
  have : (acqR s t k m r).mus = putMu s.mus m { s.mu m with readers := t :: (s.mu m).readers } := rfl
  rw [mu_of_putMu_self this]
  exact List.mem_cons_self

/-! ### independence -/

/-- the program points at which the map component has no atomic action to perform -/
def noExec {V : Type} : Pc K V → Bool
  | .idle => true
  | .ret _ => true
  | .dirtyPick _ _ _ _ _ => true
  | .rangePick _ _ => true
  | _ => false

/-- the atomic action of a map goroutine is enabled unless it is parked at `m.mu.Lock()` and `mu` is taken -/
theorem exec_isSome {V : Type} [Inhabited V] (sh : Shared K V) (t : Tid) (pc : Pc K V) :
    (exec sh t pc).isSome = (!noExec pc && (!isLockPc pc || sh.mu.isNone)) := by
  cases pc <;> simp only [exec, noExec, isLockPc, lockStep] <;> (repeat' split) <;> simp_all

theorem mapSteps_eq_nil_iff (ms : SyncMapConc.State K MId) (t : Tid) :
    mapSteps ms t = [] ↔ (exec ms.sh t (ms.pc t)).isSome = false ∧ picks (ms.pc t) = [] := by
  unfold mapSteps
  cases he : exec ms.sh t (ms.pc t) with
  | none => simp
  | some p => simp

/-- enabledness of a goroutine inside its map call depends on its map program point and on the map's internal `mu` only -/
theorem enabled_inMap {menu : List (KeyedMutexConc.Op K)} {s : KState K} {t : Tid} {kind : Kind} {k : K}
    (hph : s.phase t = .inMap kind k) :
    enabled menu s t ↔
      ((!noExec (s.map.pc t) && (!isLockPc (s.map.pc t) || s.map.sh.mu.isNone)) = true ∨ picks (s.map.pc t) ≠ []) := by
  unfold enabled KeyedMutexConc.stepT
  simp only [hph]
  rw [Ne, List.map_eq_nil_iff, mapSteps_eq_nil_iff, exec_isSome]
  cases (!noExec (s.map.pc t) && (!isLockPc (s.map.pc t) || s.map.sh.mu.isNone)) <;> simp

/-- enabledness of a goroutine at its hook depends on the automaton of its mutex only -/
theorem enabled_atHook {menu : List (KeyedMutexConc.Op K)} {s : KState K} {t : Tid} {kind : Kind} {k : K} {m : MId}
    (hph : s.phase t = .atHook kind k m) :
    enabled menu s t ↔ KeyedMutexConc.hookEnabled kind (s.mu m) := by
  unfold enabled KeyedMutexConc.stepT
  simp only [hph]
  cases kind with
  | lock => by_cases hf : (s.mu m).free <;> simp [hookStep, hf, KeyedMutexConc.hookEnabled]
  | rlock => by_cases hf : (s.mu m).readable <;> simp [hookStep, hf, KeyedMutexConc.hookEnabled]
  | trylock => by_cases hf : (s.mu m).free <;> simp [hookStep, hf, KeyedMutexConc.hookEnabled]
  | tryrlock => by_cases hf : (s.mu m).readable <;> simp [hookStep, hf, KeyedMutexConc.hookEnabled]
  | unlock => simp [hookStep, KeyedMutexConc.hookEnabled]
  | runlock => simp [hookStep, KeyedMutexConc.hookEnabled]
  | clear => simp [hookStep, KeyedMutexConc.hookEnabled]

theorem enabled_ret {menu : List (KeyedMutexConc.Op K)} {s : KState K} {t : Tid} {r : KeyedMutexConc.Res}
    (hph : s.phase t = .ret r) : enabled menu s t := by
  unfold enabled KeyedMutexConc.stepT
  simp only [hph]
  intro hc; cases hc

theorem enabled_idle {menu : List (KeyedMutexConc.Op K)} {s : KState K} {t : Tid} (hph : s.phase t = .idle) :
    enabled menu s t ↔ ∃ op ∈ menu, invOk s t op = true := by
  unfold enabled KeyedMutexConc.stepT
  simp only [hph]
  rw [Ne, List.map_eq_nil_iff, List.filter_eq_nil_iff]
  constructor
  · intro h
    apply Classical.byContradiction
    intro hc
    apply h
    intro op hop ho
    exact hc ⟨op, hop, ho⟩
  · rintro ⟨op, hop, ho⟩ h
    exact h op hop ho

/-! ### running schedules (for the non-vacuity examples) -/

theorem reachable_run (menu : List (KeyedMutexConc.Op K)) (n : Nat) (sched : List (Tid × Nat)) :
    ∀ s : KState K, Reachable (KeyedMutexConc.sys K menu n) s →
      Reachable (KeyedMutexConc.sys K menu n) (KeyedMutexConc.run menu sched s) := by
  induction sched with
  | nil => intro s h; exact h
  | cons p rest ih =>
    intro s h
    obtain ⟨t, i⟩ := p
    unfold KeyedMutexConc.run
    by_cases ht : t < s.phases.length
    · rw [if_pos ht]
      cases hs : (KeyedMutexConc.stepT menu s t)[i]? with
      | none => exact ih s h
      | some q =>
        refine ih q.2 (Reachable.step (l := q.1) h ?_)
        show (q.1, q.2) ∈ KeyedMutexConc.succ menu s
        exact List.mem_flatMap.mpr ⟨t, List.mem_range.mpr ht, List.mem_of_getElem? hs⟩
    · rw [if_neg ht]; exact ih s h

end TypVerif.Lemmas.KeyedMutexConc
