import TypVerif.Lemmas.PubSubLogStep
/-
Counting: for a key `k`, `tot k s` = (number of pending items with key `k`) + (number of log entries `k`).
A step changes `tot k` only at the snapshot step of the call with publisher id `k.1` (where it grows by the number of
items with that key) and at the drop of a `sendAsync` goroutine whose channel was unsubscribed (where it shrinks).
-/
namespace TypVerif.Lemmas.PubSubLog
open TypVerif TypVerif.Model.PubSub TypVerif.Lemmas.PubSubSafe

/-! ### list helpers -/

theorem count_flatMap_set {α β} [BEq β] (f : α → List β) (k : β) (l : List α) (i : Nat) (t t' : α)
    (hi : l[i]? = some t) :
    ((l.set i t').flatMap f).count k + (f t).count k = (l.flatMap f).count k + (f t').count k := by
  induction l generalizing i with
  | nil => simp at hi
  | cons a rest ih =>
    cases i with
    | zero =>
      simp only [List.getElem?_cons_zero, Option.some.injEq] at hi
      subst hi
      simp only [List.set_cons_zero, List.flatMap_cons, List.count_append]
      omega
    | succ j =>
      simp only [List.getElem?_cons_succ] at hi
      have := ih j hi
      simp only [List.set_cons_succ, List.flatMap_cons, List.count_append]
      omega

theorem mkItems_pid {p : Nat} {evs : List Int} {subs : List Chan} {it : Item}
    (h : it ∈ mkItems p evs subs) : it.pid = p := by
  simp only [mkItems, List.mem_flatMap, List.mem_map] at h
  obtain ⟨_, _, c, _, rfl⟩ := h
  rfl

/-- the keys of a call -/
def callKeys (p : Nat) (evs : List Int) (subs : List Chan) : List Key := (mkItems p evs subs).map key

theorem callKeys_pid {p : Nat} {evs : List Int} {subs : List Chan} {k : Key}
    (h : k ∈ callKeys p evs subs) : k.1 = p := by
  simp only [callKeys, List.mem_map] at h
  obtain ⟨it, hit, rfl⟩ := h
  exact mkItems_pid hit

theorem count_callKeys_ne {p : Nat} {evs : List Int} {subs : List Chan} {k : Key} (h : k.1 ≠ p) :
    (callKeys p evs subs).count k = 0 := by
  rw [List.count_eq_zero]
  intro hk
  exact h (callKeys_pid hk)

theorem flatMap_pk_wgSend (o w : Nat) (items : List Item) :
    (items.map (fun it => Task.wgSend o w it false)).flatMap pk = items.map key := by
  induction items with
  | nil => rfl
  | cons it rest ih => simp only [List.map_cons, List.flatMap_cons, ih]; rfl

theorem flatMap_pk_asyncStart (o : Nat) (items : List Item) :
    (items.map (fun it => Task.asyncStart o it)).flatMap pk = items.map key := by
  induction items with
  | nil => rfl
  | cons it rest ih => simp only [List.map_cons, List.flatMap_cons, ih]; rfl

theorem pk_syncNext (p o : Nat) (w : List Item) : pk (syncNext p o w) = w.map key := by
  cases w <;> rfl

/-! ### task-level predicates -/

def isPubStart (p : Nat) : Task → Bool
  | .pubStart p' _ _ _ => p' == p
  | _ => false

/-- a `sendAsync` goroutine of publisher `p` that has not yet checked its subscription -/
def isAsyncStart (p : Nat) : Task → Bool
  | .asyncStart _ it => it.pid == p
  | _ => false

/-- number of items with key `k` that the snapshot step of `t` creates -/
def gain (s : State) (t : Task) (k : Key) : Nat :=
  match t with
  | .pubStart p o _ evs => (callKeys p evs (s.obj o).subs).count k
  | _ => 0

theorem gain_zero {s : State} {t : Task} {k : Key} (h : isPubStart k.1 t = false) : gain s t k = 0 := by
  cases t with
  | pubStart p o v evs =>
    simp only [isPubStart, beq_eq_false_iff_ne] at h
    exact count_callKeys_ne (fun h' => h h'.symm)
  | _ => rfl

/-! ### what one task transition does to the counts -/

theorem gain_notPub {s : State} {t : Task} {k : Key} (h : isPub t = false) : gain s t k = 0 := by
  cases t <;> first | rfl | simp [isPub] at h

theorem tstep_eq {cfg : Cfg} {s : State} {t t' : Task} {new : List Task} {dl tl : List Key}
    (h : TStep cfg s t t' new dl tl) (k : Key) (hd : isAsyncStart k.1 t = false) :
    (pk t').count k + (new.flatMap pk).count k + dl.count k + tl.count k = (pk t).count k + gain s t k := by
  cases h with
  | stuck _ hn => simp [gain_notPub hn]
  | ctl h1 h2 =>
    have e1 : pk t = [] := by cases t <;> first | rfl | simp [isCtl] at h1
    have e2 : pk t' = [] := by cases t' <;> first | rfl | simp [isCtl] at h2
    have e3 : gain s t k = 0 := by cases t <;> first | rfl | simp [isCtl] at h1
    simp [e1, e2, e3]
  | ret p => simp [pk, pend, gain]
  | waitRet p o w hz => simp [pk, pend, gain]
  | pubSync p o v evs hv => rw [pk_syncNext]; simp [gain, callKeys, pk, pend]
  | pubWait p o v evs hv hw => simp [flatMap_pk_wgSend, gain, callKeys, pk, pend]
  | pubAsync p o v evs hv hw => simp [flatMap_pk_asyncStart, gain, callKeys, pk, pend]
  | syncCb p o it rest => rw [pk_syncNext]; simp [gain, pk, pend]
  | syncSent p o it rest => rw [pk_syncNext]; simp [gain, pk, pend, List.count_cons]
  | syncTmo p o it rest htm => simp [gain, pk, pend, List.count_cons]
  | asyncGo o it hm => simp [gain, pk, pend]
  | asyncDrop o it hm =>
    have : key it ≠ k := by
      intro h'; subst h'
      simp [isAsyncStart, key] at hd
    simp [gain, pk, pend, this]
  | asyncCb o it => simp [gain, pk, pend]
  | asyncSent o it => simp [gain, pk, pend]
  | asyncTmo o it htm => simp [gain, pk, pend]
  | wgCb o w it => simp [gain, pk, pend]
  | wgSent o w it => simp [gain, pk, pend]
  | wgTmo o w it htm => simp [gain, pk, pend]

theorem tstep_le {cfg : Cfg} {s : State} {t t' : Task} {new : List Task} {dl tl : List Key}
    (h : TStep cfg s t t' new dl tl) (k : Key) :
    (pk t').count k + (new.flatMap pk).count k + dl.count k + tl.count k ≤ (pk t).count k + gain s t k := by
  by_cases hd : isAsyncStart k.1 t = false
  · exact Nat.le_of_eq (tstep_eq h k hd)
  · cases h with
    | asyncGo o it hm => simp [gain, pk, pend]
    | asyncDrop o it hm => simp [gain, pk, pend]
    | stuck _ hn => simp [gain_notPub hn]
    | ctl h1 h2 => cases t <;> simp [isCtl, isAsyncStart] at h1 hd
    | _ => simp [isAsyncStart] at hd

/-- pending items never increase, log entries never decrease, except that the snapshot step creates pending items -/
theorem tstep_pend_le {cfg : Cfg} {s : State} {t t' : Task} {new : List Task} {dl tl : List Key}
    (h : TStep cfg s t t' new dl tl) (k : Key) :
    (pk t').count k + (new.flatMap pk).count k ≤ (pk t).count k + gain s t k := by
  have := tstep_le h k; omega

theorem tstep_isPubStart {cfg : Cfg} {s : State} {t t' : Task} {new : List Task} {dl tl : List Key}
    (h : TStep cfg s t t' new dl tl) (p : Nat) :
    new.countP (isPubStart p) = 0 ∧ (isPubStart p t' = true → isPubStart p t = true ∧ t' = t) := by
  cases h with
  | stuck _ hn => exact ⟨rfl, fun h => ⟨h, rfl⟩⟩
  | ctl h1 h2 =>
    refine ⟨rfl, fun h => ?_⟩
    cases t' <;> simp [isCtl, isPubStart] at h2 h
  | pubSync p' o v evs hv =>
    refine ⟨rfl, fun h => ?_⟩
    cases hm : mkItems p' evs (s.obj o).subs <;> simp [hm, syncNext, isPubStart] at h
  | pubWait p' o v evs hv hw =>
    refine ⟨?_, fun h => by simp [isPubStart] at h⟩
    rw [List.countP_eq_zero]; intro x hx
    simp only [List.mem_map] at hx; obtain ⟨_, _, rfl⟩ := hx; simp [isPubStart]
  | pubAsync p' o v evs hv hw =>
    refine ⟨?_, fun h => by simp [isPubStart] at h⟩
    rw [List.countP_eq_zero]; intro x hx
    simp only [List.mem_map] at hx; obtain ⟨_, _, rfl⟩ := hx; simp [isPubStart]
  | syncCb p' o it rest =>
    refine ⟨rfl, fun h => ?_⟩
    cases rest <;> simp [syncNext, isPubStart] at h
  | syncSent p' o it rest =>
    refine ⟨rfl, fun h => ?_⟩
    cases rest <;> simp [syncNext, isPubStart] at h
  | _ => exact ⟨rfl, fun h => by simp [isPubStart] at h⟩

/-! ### state-level counts -/

def pendKeys (s : State) : List Key := s.tasks.flatMap pk
def logs (s : State) : List Key := s.delivered ++ s.timedOut
/-- pending items with key `k` -/
def cP (k : Key) (s : State) : Nat := (pendKeys s).count k
/-- log entries `k` -/
def cL (k : Key) (s : State) : Nat := (logs s).count k
/-- publish calls of publisher `p` that have not taken their snapshot yet -/
def nPS (p : Nat) (s : State) : Nat := s.tasks.countP (isPubStart p)
/-- `sendAsync` goroutines of publisher `p` before their subscription check -/
def nAS (p : Nat) (s : State) : Nat := s.tasks.countP (isAsyncStart p)

theorem countP_zero_getElem? {α} {q : α → Bool} {l : List α} {i : Nat} {t : α} (h : l.countP q = 0)
    (hi : l[i]? = some t) : q t = false := by
  have := (List.countP_eq_zero.mp h) t (List.mem_of_getElem? hi)
  simpa using this

/-- what a task step does to the counts of `k` -/
theorem task_counts {cfg : Cfg} {s s' : State} {i : Nat} {t t' : Task} {new : List Task} {dl tl : List Key}
    (hi : s.tasks[i]? = some t) (hT : TStep cfg s t t' new dl tl) (ht : s'.tasks = s.tasks.set i t' ++ new)
    (hd : s'.delivered = s.delivered ++ dl) (hto : s'.timedOut = s.timedOut ++ tl) (k : Key) :
    cP k s' + cL k s' ≤ cP k s + cL k s + gain s t k ∧
    (isAsyncStart k.1 t = false → cP k s' + cL k s' = cP k s + cL k s + gain s t k) ∧
    cP k s' ≤ cP k s + gain s t k ∧ cL k s ≤ cL k s' := by
  have h1 := count_flatMap_set pk k s.tasks i t t' hi
  have h2 := tstep_le hT k
  have h3 : cP k s' = ((s.tasks.set i t').flatMap pk).count k + (new.flatMap pk).count k := by
    simp [cP, pendKeys, ht, List.count_append]
  have h4 : cL k s' = cL k s + dl.count k + tl.count k := by
    simp only [cL, logs, hd, hto, List.count_append]; omega
  have h5 : cP k s = (s.tasks.flatMap pk).count k := rfl
  refine ⟨by omega, fun ha => ?_, by omega, by omega⟩
  have h6 := tstep_eq hT k ha
  omega

/-- a step in a state where publisher `k.1` has no call waiting for its snapshot -/
theorem bstep_counts {cfg : Cfg} {s s' : State} (h : BStep cfg s s') (k : Key) (hno : nPS k.1 s = 0) :
    cP k s' + cL k s' ≤ cP k s + cL k s ∧ (nAS k.1 s = 0 → cP k s' + cL k s' = cP k s + cL k s) ∧
    cP k s' ≤ cP k s ∧ cL k s ≤ cL k s' := by
  cases h with
  | same h1 h2 h3 h4 =>
    simp [cP, cL, pendKeys, logs, h1, h2, h3]
  | spawnCtl t hc h1 h2 h3 h4 =>
    have : pk t = [] := by cases t <;> first | rfl | simp [isCtl] at hc
    simp [cP, cL, pendKeys, logs, h1, h2, h3, this]
  | invoke p o v evs hp h0 h1 h2 h3 =>
    simp [cP, cL, pendKeys, logs, h1, h2, h3, pk, pend]
  | task i t t' new dl tl hi hT h1 h2 h3 h4 =>
    obtain ⟨a, b, c, d⟩ := task_counts hi hT h1 h2 h3 k
    have hg : gain s t k = 0 := gain_zero (countP_zero_getElem? hno hi)
    rw [hg] at a b c
    exact ⟨a, fun hna => b (countP_zero_getElem? hna hi), c, d⟩

theorem bstep_pids {cfg : Cfg} {s s' : State} (h : BStep cfg s s') {p : Nat} (hp : p ∈ s.pids) : p ∈ s'.pids := by
  cases h with
  | same h1 h2 h3 h4 => rw [h4]; exact hp
  | spawnCtl t hc h1 h2 h3 h4 => rw [h4]; exact hp
  | invoke p o v evs hp' h0 h1 h2 h3 => rw [h0]; exact List.mem_append_left _ hp
  | task i t t' new dl tl hi hT h1 h2 h3 h4 => rw [h4]; exact hp

/-- the number of not-yet-started calls of `p` changes only by an invocation (+1, only for a fresh id) and by the
snapshot step (−1) -/
theorem task_nPS {cfg : Cfg} {s s' : State} {i : Nat} {t t' : Task} {new : List Task} {dl tl : List Key}
    (hi : s.tasks[i]? = some t) (hT : TStep cfg s t t' new dl tl) (ht : s'.tasks = s.tasks.set i t' ++ new)
    (p : Nat) : nPS p s' ≤ nPS p s ∧ (isPubStart p t = true → t' ≠ t → nPS p s' + 1 = nPS p s) := by
  obtain ⟨h1, h2⟩ := tstep_isPubStart hT p
  have h3 := countP_set_eq (isPubStart p) s.tasks i t t' hi
  have h4 : nPS p s' = (s.tasks.set i t').countP (isPubStart p) := by
    simp [nPS, ht, List.countP_append, h1]
  have h5 : nPS p s = s.tasks.countP (isPubStart p) := rfl
  by_cases hq : isPubStart p t' = true
  · obtain ⟨hq', he⟩ := h2 hq
    simp only [hq, hq', if_true] at h3
    exact ⟨by omega, fun _ hne => absurd he hne⟩
  · have hq0 : isPubStart p t' = false := by simpa using hq
    rw [hq0] at h3
    simp only [Bool.false_eq_true, if_false, Nat.add_zero] at h3
    refine ⟨by omega, fun hq' _ => ?_⟩
    simp only [hq', if_true] at h3
    omega

theorem bstep_nPS_zero {cfg : Cfg} {s s' : State} (h : BStep cfg s s') {p : Nat} (hp : p ∈ s.pids)
    (hno : nPS p s = 0) : nPS p s' = 0 := by
  cases h with
  | same h1 h2 h3 h4 => simpa [nPS, h1] using hno
  | spawnCtl t hc h1 h2 h3 h4 =>
    have : isPubStart p t = false := by cases t <;> first | rfl | simp [isCtl] at hc
    simp only [nPS] at hno
    simp [nPS, h1, List.countP_append, this, hno]
  | invoke p' o v evs hp' h0 h1 h2 h3 =>
    have hne : p' ≠ p := fun h => hp' (h ▸ hp)
    simp only [nPS] at hno
    simp [nPS, h1, List.countP_append, isPubStart, hne, hno]
  | task i t t' new dl tl hi hT h1 h2 h3 h4 =>
    have := (task_nPS hi hT h1 p).1
    omega

end TypVerif.Lemmas.PubSubLog
