import TypVerif.Lemmas.PubSubLive
/-
Why a task of the PubSub model cannot step (`blocked_reason`), and the well-founded chain
writer ← reader-holder ← (sender | waitWg ← wgSend sender) ← receiver that shows that something can always step
while the subscribers keep receiving (`all_done_of_stuck`).
-/
namespace TypVerif.Lemmas.PubSubLive
open TypVerif TypVerif.Model.PubSub TypVerif.Lemmas.PubSubSafe

/-- the item the task is handing off right now (timer not fired) -/
def sending : Task → Option Item
  | .syncLoop _ _ (it :: _) false => some it
  | .asyncSend _ it false => some it
  | .wgSend _ _ it false => some it
  | _ => none

/-- the task is about to take the read lock -/
def isReaderStart : Task → Bool
  | .pubStart .. => true
  | .asyncStart .. => true
  | _ => false

theorem sending_target {t : Task} {it : Item} (h : sending t = some it) : it.c ∈ targets t := by
  cases t with
  | syncLoop p o work cb =>
    cases work with
    | nil => simp [sending] at h
    | cons a rest =>
      cases cb <;> simp [sending] at h
      subst h; simp [targets]
  | asyncSend o a cb =>
    cases cb <;> simp [sending] at h
    subst h; simp [targets]
  | wgSend o w a cb =>
    cases cb <;> simp [sending] at h
    subst h; simp [targets]
  | _ => simp [sending] at h

/-! ### a blocked send -/

theorem getChan_of_hasChan {cs : List ChanSt} {c : Chan} (h : hasChan cs c = true) :
    ∃ ch, getChan cs c = some ch ∧ ch ∈ cs ∧ ch.id = c := by
  simp only [hasChan, List.any_eq_true] at h
  obtain ⟨x, hx, hxc⟩ := h
  cases hg : getChan cs c with
  | none =>
    simp only [getChan, List.find?_eq_none] at hg
    exact absurd hxc (hg x hx)
  | some ch =>
    simp only [getChan] at hg
    exact ⟨ch, rfl, List.mem_of_find?_eq_some hg, by simpa using List.find?_some hg⟩

/-- a send on an open, existing channel whose receiver is still willing to take a value blocks only when the
receiver itself can step: the buffer is full and nonempty, or (unbuffered) the receiver holds an undelivered value -/
theorem blocked_send {s : State} {it : Item} (hl : Live s)
    (hopen : isClosed s.chans it.c = false) (hex : hasChan s.chans it.c = true)
    (hrecv : ∀ ch ∈ s.chans, ch.id = it.c → ch.rdone = false → 0 < ch.allow)
    (hb : sendTo s it = .blocked) :
    ∃ ch ∈ s.chans, ch.id = it.c ∧ ch.closed = false ∧ ch.rdone = false ∧ 0 < ch.allow ∧
      ch.cap ≤ ch.buf.length ∧ recvSteps s ch ≠ [] := by
  obtain ⟨ch, hg, hm, hid⟩ := getChan_of_hasChan hex
  have hclosed : ch.closed = false := by
    cases hc : ch.closed with
    | false => rfl
    | true => rw [getChan_some_closed hg hc] at hopen; cases hopen
  have hrdone : ch.rdone = false := by
    cases hc : ch.rdone with
    | false => rfl
    | true =>
      have := hl.rd ch hm hc
      rw [hid, hopen] at this; cases this
  have hallow := hrecv ch hm hid hrdone
  unfold sendTo at hb
  rw [hg] at hb
  simp only [hclosed, Bool.false_eq_true, if_false] at hb
  split at hb
  · cases hb
  · rename_i hfull
    split at hb
    · cases hb
    · rename_i hno
      refine ⟨ch, hm, hid, hclosed, hrdone, hallow, by omega, ?_⟩
      unfold recvSteps
      simp only [hrdone, Bool.false_eq_true, if_false]
      cases hh : ch.holding with
      | some v => simp
      | none =>
        have ha : (ch.allow == 0) = false := by
          rw [beq_eq_false_iff_ne]; omega
        simp only [ha, Bool.false_eq_true, if_false]
        cases hbuf : ch.buf with
        | cons v rest => simp
        | nil =>
          exfalso
          apply hno
          have hcap : ch.cap = 0 := by
            rw [hbuf] at hfull; simp at hfull; exact hfull
          simp [hcap, hallow, hh, hrdone]

/-! ### which steps are always enabled -/

theorem stepSend_nil {cfg : Cfg} {s : State} {it : Item} {cb : Bool} {fin setCb : State → State}
    (h : stepSend cfg s it cb fin setCb = []) : cb = false ∧ sendTo s it = .blocked ∧ cfg.timeout ≤ 0 := by
  unfold stepSend at h
  cases cb with
  | true => simp at h
  | false =>
    simp only [Bool.false_eq_true, if_false, List.append_eq_nil_iff] at h
    obtain ⟨h1, h2⟩ := h
    refine ⟨rfl, ?_, ?_⟩
    · cases hst : sendTo s it with
      | blocked => rfl
      | panic => simp [hst] at h1
      | sent s1 => simp [hst] at h1
    · split at h2
      · simp at h2
      · omega

theorem stepPubStart_nil {s : State} {i p o : Nat} {v : Variant} {evs : List Int}
    (h : stepPubStart s i p o v evs = []) : (s.obj o).rw.canRLock = false := by
  cases hc : (s.obj o).rw.canRLock with
  | false => rfl
  | true =>
    exfalso
    unfold stepPubStart at h
    simp only [hc, Bool.not_true, Bool.false_eq_true, if_false] at h
    split at h
    · split at h <;> simp at h
    · split at h <;> simp at h

theorem stepAsyncStart_nil {s : State} {i o : Nat} {it : Item}
    (h : stepAsyncStart s i o it = []) : (s.obj o).rw.canRLock = false := by
  cases hc : (s.obj o).rw.canRLock with
  | false => rfl
  | true =>
    exfalso
    unfold stepAsyncStart at h
    simp only [hc, Bool.not_true, Bool.false_eq_true, if_false] at h
    split at h <;> simp at h

theorem stepUnsubWait_nil {s : State} {i u o : Nat} {c : Chan}
    (h : stepUnsubWait s i u o c = []) : (s.obj o).rw.canLock = false := by
  cases hc : (s.obj o).rw.canLock with
  | false => rfl
  | true =>
    exfalso
    unfold stepUnsubWait at h
    simp only [hc, Bool.not_true, Bool.false_eq_true, if_false] at h
    split at h
    · split at h <;> simp at h
    · simp at h

theorem stepUaWait_nil {s : State} {i u o : Nat}
    (h : stepUaWait s i u o = []) : (s.obj o).rw.canLock = false := by
  cases hc : (s.obj o).rw.canLock with
  | false => rfl
  | true =>
    exfalso
    unfold stepUaWait at h
    simp only [hc, Bool.not_true, Bool.false_eq_true, if_false] at h
    split at h <;> simp at h

theorem stepSubWait_nil {s : State} {i o : Nat} {c : Chan} {cap : Nat}
    (h : stepSubWait s i o c cap = []) : (s.obj o).rw.canLock = false ∨ hasChan s.chans c = true := by
  cases hc : (s.obj o).rw.canLock with
  | false => exact Or.inl rfl
  | true =>
    cases hh : hasChan s.chans c with
    | true => exact Or.inr rfl
    | false =>
      exfalso
      unfold stepSubWait at h
      simp [hc, hh] at h

theorem exists_task_of_countP_pos {s : State} {q : Task → Bool} (h : 0 < s.tasks.countP q) :
    ∃ (j : Nat) (t' : Task), s.tasks[j]? = some t' ∧ q t' = true := by
  obtain ⟨t', hm, hq⟩ := List.countP_pos_iff.mp h
  obtain ⟨j, hj, hjt⟩ := List.getElem_of_mem hm
  exact ⟨j, t', by rw [List.getElem?_eq_getElem hj, hjt], hq⟩

/-- a reader is kept out only by a waiting writer -/
theorem waiter_of_not_canRLock {s : State} (hl : Live s) (h : (s.obj 0).rw.canRLock = false) :
    ∃ (j : Nat) (t' : Task), s.tasks[j]? = some t' ∧ isWaiter t' = true := by
  apply exists_task_of_countP_pos
  rw [← hl.waiting]
  simp only [RW.canRLock, hl.writer, Bool.not_false, Bool.true_and, beq_eq_false_iff_ne] at h
  omega

/-- a writer is kept out only by a task inside a read-locked region -/
theorem holder_of_not_canLock {s : State} (hs : Safe s) (hl : Live s) (h : (s.obj 0).rw.canLock = false) :
    ∃ (j : Nat) (t' : Task), s.tasks[j]? = some t' ∧ holdsRead t' = true := by
  apply exists_task_of_countP_pos
  rw [← hs.readers]
  simp only [RW.canLock, hl.writer, Bool.not_false, Bool.and_true, beq_eq_false_iff_ne] at h
  omega

/-! ### what a task that cannot step is waiting for -/

theorem blocked_reason {cfg : Cfg} {s : State} (hs : Safe s) (hl : Live s)
    (hrecv : ∀ ch ∈ s.chans, ch.id ∈ (s.obj 0).subs → ch.rdone = false → 0 < ch.allow)
    {i : Nat} {t : Task} (ht : s.tasks[i]? = some t) (hne : t ≠ .done) (hblk : taskSteps cfg s i = []) :
    (∃ it, sending t = some it ∧ cfg.timeout ≤ 0 ∧ sendTo s it = .blocked ∧
        ∃ ch ∈ s.chans, ch.id = it.c ∧ ch.closed = false ∧ ch.rdone = false ∧ 0 < ch.allow ∧
          ch.cap ≤ ch.buf.length ∧ recvSteps s ch ≠ []) ∨
    (∃ w, isWaitWg w t = true ∧ 0 < s.wgs.getD w 0 ∧ ∃ (j : Nat) (t' : Task), s.tasks[j]? = some t' ∧ isWgSend w t' = true) ∨
    (isReaderStart t = true ∧ (s.obj 0).rw.writer = false ∧
        ∃ (j : Nat) (t' : Task), s.tasks[j]? = some t' ∧ isWaiter t' = true) ∨
    (isWaiter t = true ∧ ∃ (j : Nat) (t' : Task), s.tasks[j]? = some t' ∧ holdsRead t' = true) ∨
    (∃ o c cap, t = .subWait o c cap ∧ hasChan s.chans c = true) := by
  have hmem : t ∈ s.tasks := List.mem_of_getElem? ht
  have hobj : objOk t := hs.obj0 t hmem
  have hsync := hl.sync t hmem
  unfold taskSteps at hblk
  rw [ht] at hblk
  simp only at hblk
  -- the common treatment of a task inside a send
  have send_case : ∀ it, sending t = some it → sendTo s it = .blocked → cfg.timeout ≤ 0 →
      ∃ it, sending t = some it ∧ cfg.timeout ≤ 0 ∧ sendTo s it = .blocked ∧
        ∃ ch ∈ s.chans, ch.id = it.c ∧ ch.closed = false ∧ ch.rdone = false ∧ 0 < ch.allow ∧
          ch.cap ≤ ch.buf.length ∧ recvSteps s ch ≠ [] := by
    intro it hsd hb hto
    have hsub : it.c ∈ (s.obj 0).subs := hs.targ t hmem it.c (sending_target hsd)
    exact ⟨it, hsd, hto, hb, blocked_send hl (hs.opn _ hsub) (hs.exist _ hsub)
      (fun ch hm hid => hrecv ch hm (hid ▸ hsub)) hb⟩
  cases t with
  | pubStart p o v evs =>
    cases hobj
    exact Or.inr (Or.inr (Or.inl ⟨rfl, hl.writer, waiter_of_not_canRLock hl (stepPubStart_nil hblk)⟩))
  | syncLoop p o work cb =>
    cases work with
    | nil => simp [emptySync] at hsync
    | cons it rest =>
      simp only [stepTask, stepSyncLoop] at hblk
      obtain ⟨rfl, hb, hto⟩ := stepSend_nil hblk
      exact Or.inl (send_case it rfl hb hto)
  | waitWg p o w =>
    simp only [stepTask, stepWaitWg] at hblk
    split at hblk
    · simp at hblk
    · rename_i hz
      have hpos : 0 < s.wgs.getD w 0 := by
        have : s.wgs.getD w 0 ≠ 0 := by simpa using hz
        omega
      refine Or.inr (Or.inl ⟨w, by simp [isWaitWg], hpos, ?_⟩)
      apply exists_task_of_countP_pos
      rw [← hs.wgc]; exact hpos
  | pubRet p => simp [stepTask] at hblk
  | asyncStart o it =>
    cases hobj
    exact Or.inr (Or.inr (Or.inl ⟨rfl, hl.writer, waiter_of_not_canRLock hl (stepAsyncStart_nil hblk)⟩))
  | asyncSend o it cb =>
    simp only [stepTask, stepAsyncSend] at hblk
    obtain ⟨rfl, hb, hto⟩ := stepSend_nil hblk
    exact Or.inl (send_case it rfl hb hto)
  | wgSend o w it cb =>
    simp only [stepTask, stepWgSend] at hblk
    obtain ⟨rfl, hb, hto⟩ := stepSend_nil hblk
    exact Or.inl (send_case it rfl hb hto)
  | subStart o c cap => simp [stepTask] at hblk
  | subWait o c cap =>
    cases hobj
    rcases stepSubWait_nil hblk with h | h
    · exact Or.inr (Or.inr (Or.inr (Or.inl ⟨rfl, holder_of_not_canLock hs hl h⟩)))
    · exact Or.inr (Or.inr (Or.inr (Or.inr ⟨0, c, cap, rfl, h⟩)))
  | subRet c => simp [stepTask] at hblk
  | unsubStart u o c => cases c <;> simp [stepTask] at hblk
  | unsubWait u o c =>
    cases hobj
    exact Or.inr (Or.inr (Or.inr (Or.inl ⟨rfl, holder_of_not_canLock hs hl (stepUnsubWait_nil hblk)⟩)))
  | unsubRet u code => simp [stepTask] at hblk
  | uaStart u o => simp [stepTask] at hblk
  | uaWait u o =>
    cases hobj
    exact Or.inr (Or.inr (Or.inr (Or.inl ⟨rfl, holder_of_not_canLock hs hl (stepUaWait_nil hblk)⟩)))
  | uaRet u => simp [stepTask] at hblk
  | woStart w o c => exact absurd hobj (by simp [objOk])
  | done => exact absurd rfl hne

/-! ### the chain -/

/-- If no task and no receiver can step (while the receivers of the subscribed channels are willing to receive and
no pending `Sub` is stuck on a channel name that is already taken), every task has finished. -/
theorem all_done_of_stuck {cfg : Cfg} {s : State} (hs : Safe s) (hl : Live s)
    (hrecv : ∀ ch ∈ s.chans, ch.id ∈ (s.obj 0).subs → ch.rdone = false → 0 < ch.allow)
    (hfresh : ∀ o c cap, Task.subWait o c cap ∈ s.tasks → hasChan s.chans c = false)
    (hT : ∀ i, taskSteps cfg s i = []) (hR : ∀ ch ∈ s.chans, recvSteps s ch = []) :
    ∀ t ∈ s.tasks, t = .done := by
  -- the reasons that remain once no receiver can step and no Sub is stuck on its name
  have A : ∀ (i : Nat) (t : Task), s.tasks[i]? = some t → t ≠ .done →
      (∃ w, isWaitWg w t = true ∧ ∃ (j : Nat) (t' : Task), s.tasks[j]? = some t' ∧ isWgSend w t' = true) ∨
      (isReaderStart t = true ∧ ∃ (j : Nat) (t' : Task), s.tasks[j]? = some t' ∧ isWaiter t' = true) ∨
      (isWaiter t = true ∧ ∃ (j : Nat) (t' : Task), s.tasks[j]? = some t' ∧ holdsRead t' = true) := by
    intro i t ht hne
    rcases blocked_reason hs hl hrecv ht hne (hT i) with h | h | h | h | h
    · obtain ⟨_, _, _, _, ch, hm, _, _, _, _, _, hstep⟩ := h
      exact absurd (hR ch hm) hstep
    · obtain ⟨w, h1, _, h2⟩ := h
      exact Or.inl ⟨w, h1, h2⟩
    · exact Or.inr (Or.inl ⟨h.1, h.2.2⟩)
    · exact Or.inr (Or.inr h)
    · obtain ⟨o, c, cap, rfl, hc⟩ := h
      rw [hfresh o c cap (List.mem_of_getElem? ht)] at hc
      cases hc
  -- 1. no live `wgSend`: it can only be a blocked sender
  have L1 : ∀ (j : Nat) (t : Task) (w : Nat), s.tasks[j]? = some t → isWgSend w t = true → False := by
    intro j t w ht hw
    have hne : t ≠ .done := by intro h; subst h; simp [isWgSend] at hw
    rcases A j t ht hne with ⟨w', h, _⟩ | ⟨h, _⟩ | ⟨h, _⟩ <;>
      cases t <;> simp [isWgSend, isWaitWg, isReaderStart, isWaiter] at hw h
  -- 2. nobody is inside a read-locked region
  have L2 : ∀ (j : Nat) (t : Task), s.tasks[j]? = some t → holdsRead t = true → False := by
    intro j t ht hh
    have hne : t ≠ .done := by intro h; subst h; simp [holdsRead] at hh
    rcases A j t ht hne with ⟨w, _, j', t', ht', hw⟩ | ⟨h, _⟩ | ⟨h, _⟩
    · exact L1 j' t' w ht' hw
    · cases t <;> simp [holdsRead, isReaderStart] at hh h
    · cases t <;> simp [holdsRead, isWaiter] at hh h
  -- 3. no writer is waiting
  have L3 : ∀ (j : Nat) (t : Task), s.tasks[j]? = some t → isWaiter t = true → False := by
    intro j t ht hw
    have hne : t ≠ .done := by intro h; subst h; simp [isWaiter] at hw
    rcases A j t ht hne with ⟨w, h, _⟩ | ⟨h, _⟩ | ⟨_, j', t', ht', hh⟩
    · cases t <;> simp [isWaitWg, isWaiter] at hw h
    · cases t <;> simp [isReaderStart, isWaiter] at hw h
    · exact L2 j' t' ht' hh
  -- 4. hence nothing is left
  intro t hm
  obtain ⟨i, hi, hit⟩ := List.getElem_of_mem hm
  have ht : s.tasks[i]? = some t := by rw [List.getElem?_eq_getElem hi, hit]
  apply Classical.byContradiction
  intro hne
  rcases A i t ht hne with ⟨w, _, j', t', ht', hw⟩ | ⟨_, j', t', ht', hw⟩ | ⟨hw, _⟩
  · exact L1 j' t' w ht' hw
  · exact L3 j' t' ht' hw
  · exact L3 i t ht hw

/-! ### `taskSteps` / `recvSteps` versus the successor list of the system -/

theorem taskSteps_nil_of_ge {cfg : Cfg} {s : State} {i : Nat} (h : s.tasks.length ≤ i) : taskSteps cfg s i = [] := by
  unfold taskSteps
  rw [List.getElem?_eq_none h]

theorem taskSteps_all_nil_iff {cfg : Cfg} {s : State} :
    (List.range s.tasks.length).flatMap (taskSteps cfg s) = [] ↔ ∀ i, taskSteps cfg s i = [] := by
  constructor
  · intro h i
    rcases Nat.lt_or_ge i s.tasks.length with hi | hi
    · exact List.flatMap_eq_nil_iff.mp h i (List.mem_range.mpr hi)
    · exact taskSteps_nil_of_ge hi
  · intro h
    exact List.flatMap_eq_nil_iff.mpr (fun i _ => h i)

theorem recvSteps_all_nil_iff {s : State} :
    s.chans.flatMap (recvSteps s) = [] ↔ ∀ ch ∈ s.chans, recvSteps s ch = [] :=
  List.flatMap_eq_nil_iff

/-- an enabled task / receiver step is a successor of the system (not exited, not panicked) -/
theorem mem_succ_of_task_or_recv {cfg : Cfg} {s : State} (hx : s.exited = false) (hp : s.panicked = none)
    {p : Option Event × State}
    (h : (∃ i, p ∈ taskSteps cfg s i) ∨ (∃ ch ∈ s.chans, p ∈ recvSteps s ch)) : p ∈ (sys cfg).succ s := by
  show p ∈ succ cfg s
  unfold succ
  simp only [hx, Bool.false_eq_true, if_false, hp, List.mem_append]
  rcases h with ⟨i, hi⟩ | ⟨ch, hm, hc⟩
  · refine Or.inl (Or.inl (Or.inr ?_))
    have hlt : i < s.tasks.length := by
      rcases Nat.lt_or_ge i s.tasks.length with h1 | h1
      · exact h1
      · rw [taskSteps_nil_of_ge h1] at hi; cases hi
    exact List.mem_flatMap.mpr ⟨i, List.mem_range.mpr hlt, hi⟩
  · exact Or.inl (Or.inr (List.mem_flatMap.mpr ⟨ch, hm, hc⟩))

end TypVerif.Lemmas.PubSubLive
