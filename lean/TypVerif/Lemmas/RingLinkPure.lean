import TypVerif.Lemmas.RingLinked
/-
The four pointer writes of `Link` (`r.next = s; s.prev = r; n.prev = p; p.next = n`) on the view level:
merging two rings and splitting one ring.
-/
namespace TypVerif.Lemmas.Ring
open TypVerif.Spec.RingOp

theorem not_mem_dropLast_of_nodup {l : List RingId} {p : RingId} (nd : l.Nodup) (h : l.getLast? = some p) :
    p ∉ l.dropLast := by
  obtain ⟨ys, rfl⟩ := List.getLast?_eq_some_iff.1 h
  rw [List.dropLast_concat]
  rw [List.nodup_append] at nd
  intro hp
  exact nd.2.2 p hp p (by simp) rfl

theorem not_mem_tail_of_nodup {l : List RingId} {n : RingId} (nd : l.Nodup) (h : l.head? = some n) :
    n ∉ l.tail := by
  cases l with
  | nil => simp
  | cons a t =>
    simp only [List.head?_cons, Option.some.injEq] at h
    subst h
    exact (List.nodup_cons.1 nd).1

theorem not_mem_dropLast {l : List RingId} {x : RingId} (h : x ∉ l) : x ∉ l.dropLast :=
  fun hx => h (List.dropLast_subset l hx)

theorem not_mem_tail {l : List RingId} {x : RingId} (h : x ∉ l) : x ∉ l.tail :=
  fun hx => h (List.mem_of_mem_tail hx)

theorem linked_upd4 {nx pv : PF} {l : List RingId} {a1 a2 b1 b2 : RingId} (v1 v2 u1 u2)
    (h1 : a1 ∉ l.dropLast) (h2 : a2 ∉ l.dropLast) (h3 : b1 ∉ l.tail) (h4 : b2 ∉ l.tail)
    (h : Linked nx pv l) : Linked (upd (upd nx a1 v1) a2 v2) (upd (upd pv b1 u1) b2 u2) l :=
  linked_upd_pv b2 u2 h4 (linked_upd_pv b1 u1 h3 (linked_upd_nx a2 v2 h2 (linked_upd_nx a1 v1 h1 h)))

theorem nodup_concat_of_cons {r : RingId} {R : List RingId} (nd : (r :: R).Nodup) : (R ++ [r]).Nodup := by
  rw [List.nodup_cons] at nd
  rw [List.nodup_append]
  refine ⟨nd.2, by simp, ?_⟩
  intro a ha b hb e
  simp only [List.mem_singleton] at hb
  subst hb; subst e; exact nd.1 ha

/-- rings `r :: R` and `s :: S` merged into `r :: s :: S ++ R` -/
theorem link_diff {nx pv : PF} {r s n p : RingId} {R S : List RingId}
    (hR : Linked nx pv (r :: R ++ [r])) (hS : Linked nx pv (s :: S ++ [s]))
    (nd : ((r :: R) ++ (s :: S)).Nodup)
    (hn : nx r = some n) (hp : pv s = some p) :
    Linked (upd (upd nx r (some s)) p (some n)) (upd (upd pv s (some r)) n (some p))
      (r :: (s :: S ++ R) ++ [r]) := by
  rw [List.nodup_append] at nd
  obtain ⟨ndR, ndS, disj⟩ := nd
  have hn' : n = R.headD r := by
    have := linked_head hR; rw [hn] at this; exact Option.some.inj this
  have hp' : p = S.getLastD s := by
    have := linked_last hS; rw [hp] at this; exact Option.some.inj this
  have plast : (s :: S).getLast? = some p := by
    rw [List.getLast?_cons, hp', List.getLastD_eq_getLast?]
  have pmem : p ∈ s :: S := List.mem_of_getLast? plast
  have nhead : (R ++ [r]).head? = some n := by
    rw [hn']; cases R <;> simp
  have nmem : n ∈ r :: R := by
    rw [hn']; cases R <;> simp
  have ndR' := nodup_concat_of_cons ndR
  have rS : r ∉ s :: S := fun h => disj r (by simp) r h rfl
  have sR : s ∉ r :: R := fun h => disj s h s (by simp) rfl
  have pR : p ∉ r :: R := fun h => disj p h p pmem rfl
  have nS : n ∉ s :: S := fun h => disj n nmem n h rfl
  have sR' : s ∉ R ++ [r] := by
    intro h; apply sR; simp only [List.mem_append, List.mem_singleton] at h; simp only [List.mem_cons]
    cases h with
    | inl h => exact Or.inr h
    | inr h => exact Or.inl h
  -- the pieces
  have LS : Linked nx pv (s :: S) := ((linked_append nx pv (s :: S) [s]).1 hS).1
  have LR : Linked nx pv (R ++ [r]) := by
    have := (linked_append nx pv [r] (R ++ [r])).1 (by simpa using hR)
    exact this.2.1
  have LS' := linked_upd4 (some s) (some n) (some r) (some p)
    (not_mem_dropLast rS) (not_mem_dropLast_of_nodup ndS plast)
    (by rw [List.tail_cons]; exact (List.nodup_cons.1 ndS).1)
    (not_mem_tail nS) LS
  have LR' := linked_upd4 (some s) (some n) (some r) (some p)
    (by rw [List.dropLast_concat]; exact (List.nodup_cons.1 ndR).1)
    (by rw [List.dropLast_concat]; exact fun h => pR (List.mem_cons_of_mem _ h))
    (not_mem_tail sR') (not_mem_tail_of_nodup ndR' nhead) LR
  have e : (r :: (s :: S ++ R) ++ [r]) = [r] ++ ((s :: S) ++ (R ++ [r])) := by simp
  rw [e, linked_append, linked_append]
  refine ⟨trivial, ⟨LS', LR', ?_⟩, ?_⟩
  · intro a b ha hb
    rw [plast] at ha; rw [nhead] at hb
    cases ha; cases hb
    refine ⟨upd_same _ _ _, upd_same _ _ _⟩
  · rw [List.cons_append, joint_cons]
    intro a ha
    simp only [List.getLast?_singleton, Option.some.injEq] at ha
    subst ha
    have rp : r ≠ p := fun e => rS (e ▸ pmem)
    have sn : s ≠ n := fun e => sR (e ▸ nmem)
    rw [upd_ne _ _ rp, upd_same, upd_ne _ _ sn, upd_same]
    exact ⟨rfl, rfl⟩

/-- ring `r :: A ++ …s…` (closed form `r :: A ++ s :: T`) split into `r :: s…` (closed form `r :: s :: T`)
and the ring `A`; `A ≠ []`. -/
theorem link_same {nx pv : PF} {r s n p : RingId} {A T : List RingId}
    (h : Linked nx pv (r :: A ++ s :: T)) (hA : A ≠ [])
    (ndA : (r :: A).Nodup) (hsA : s ∉ A)
    (hT1 : ∀ x ∈ (s :: T).dropLast, x ≠ r ∧ x ∉ A)
    (hT2 : ∀ x ∈ T, x ≠ s ∧ x ∉ A)
    (hn : nx r = some n) (hp : pv s = some p) :
    Linked (upd (upd nx r (some s)) p (some n)) (upd (upd pv s (some r)) n (some p)) (r :: s :: T) ∧
    Linked (upd (upd nx r (some s)) p (some n)) (upd (upd pv s (some r)) n (some p)) (A ++ A.take 1) ∧
    n ∈ A ∧ p ∈ A := by
  have h' := (linked_append nx pv (r :: A) (s :: T)).1 h
  obtain ⟨LrA, LsT, J⟩ := h'
  rw [joint_cons] at J
  obtain ⟨rA, ndA'⟩ := List.nodup_cons.1 ndA
  cases A with
  | nil => exact absurd rfl hA
  | cons a A' =>
    have na : n = a := by
      have := LrA.1; rw [hn] at this; exact Option.some.inj this
    subst na
    have plast : (n :: A').getLast? = some p := by
      have := (J (A'.getLastD n) (by rw [List.getLast?_cons_cons, List.getLast?_cons, List.getLastD_eq_getLast?])).2
      rw [hp] at this
      rw [List.getLast?_cons, Option.some.inj this, List.getLastD_eq_getLast?]
    have pmem : p ∈ n :: A' := List.mem_of_getLast? plast
    have nmem : n ∈ n :: A' := by simp
    have rp : r ≠ p := fun e => rA (e ▸ pmem)
    have sn : s ≠ n := fun e => hsA (e ▸ nmem)
    have LA : Linked nx pv (n :: A') := LrA.2.2
    refine ⟨?_, ?_, nmem, pmem⟩
    · rw [linked_cons_cons]
      refine ⟨by rw [upd_ne _ _ rp, upd_same], by rw [upd_ne _ _ sn, upd_same], ?_⟩
      apply linked_upd4 _ _ _ _ _ _ _ _ LsT
      · exact fun hx => (hT1 r hx).1 rfl
      · exact fun hx => (hT1 p hx).2 pmem
      · rw [List.tail_cons]; exact fun hx => (hT2 s hx).1 rfl
      · rw [List.tail_cons]; exact fun hx => (hT2 n hx).2 nmem
    · have e : (n :: A' ++ List.take 1 (n :: A')) = (n :: A') ++ [n] := by simp
      rw [e, linked_append]
      refine ⟨?_, trivial, ?_⟩
      · apply linked_upd4 _ _ _ _ _ _ _ _ LA
        · exact not_mem_dropLast rA
        · exact not_mem_dropLast_of_nodup ndA' plast
        · exact not_mem_tail hsA
        · exact not_mem_tail_of_nodup ndA' (by simp)
      · rw [joint_cons]
        intro x hx
        rw [plast] at hx; cases hx
        exact ⟨upd_same _ _ _, upd_same _ _ _⟩

/-- `s = r.Next()`: the four writes change nothing -/
theorem link_same_nil {nx pv : PF} {r s n p : RingId} {T : List RingId}
    (h : Linked nx pv (r :: s :: T)) (hn : nx r = some n) (hp : pv s = some p) :
    upd (upd nx r (some s)) p (some n) = nx ∧ upd (upd pv s (some r)) n (some p) = pv := by
  have h1 := h.1; have h2 := h.2.1
  rw [hn] at h1; rw [hp] at h2
  cases h1; cases h2
  rw [upd_eq_self nx r _ hn, upd_eq_self nx r _ hn, upd_eq_self pv s _ hp, upd_eq_self pv s _ hp]
  exact ⟨rfl, rfl⟩

end TypVerif.Lemmas.Ring
