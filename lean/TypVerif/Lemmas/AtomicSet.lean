import TypVerif.Spec.AtomicSet
import TypVerif.Lemmas.Sets
/-
C05, specification level: alternation and counting of successful Add/Remove per value in every sequential
history; and the tie of the `sync2.Set` model to that specification (each method is one map call).
-/
namespace TypVerif.Lemmas.AtomicSet
open TypVerif.Spec.AtomicSet
open TypVerif.Model.Sets
open TypVerif.Lemmas.Sets (mem SetOK)
open TypVerif

set_option linter.unusedSectionVars false
set_option linter.unusedVariables false
set_option linter.unusedSimpArgs false

variable {α : Type} [DecidableEq α]

/-- the general statement, from any starting membership -/
theorem run_facts (v : α) : ∀ (ops : List (SOp α)) (m : SState α),
    Alternates (!m v) (events v (srunFrom m ops).2) ∧
    replay (m v) (events v (srunFrom m ops).2) = (srunFrom m ops).1 v ∧
    countTrue (events v (srunFrom m ops).2) + (if m v then 1 else 0) =
      countFalse (events v (srunFrom m ops).2) + (if (srunFrom m ops).1 v then 1 else 0) := by
  intro ops
  induction ops with
  | nil => intro m; exact ⟨trivial, rfl, rfl⟩
  | cons op rest ih =>
    intro m
    obtain ⟨i1, i2, i3⟩ := ih (sstep m op).1
    have hrun : srunFrom m (op :: rest) = ((srunFrom (sstep m op).1 rest).1, (op, (sstep m op).2) :: (srunFrom (sstep m op).1 rest).2) := rfl
    rw [hrun]
    cases op with
    | has w =>
      have : events v ((SOp.has w, (sstep m (.has w)).2) :: (srunFrom (sstep m (.has w)).1 rest).2) =
          events v (srunFrom (sstep m (.has w)).1 rest).2 := by
        cases (sstep m (SOp.has w)).2 <;> rfl
      rw [this]
      exact ⟨i1, i2, i3⟩
    | add w =>
      cases hm : m w with
      | true =>
        -- unsuccessful Add: nothing changes
        have hs : (sstep m (.add w)).2 = false := by simp [sstep, hm]
        have hst : (sstep m (.add w)).1 v = m v := by
          simp only [sstep]; split
          · rename_i h; rw [h, hm]
          · rfl
        rw [hs] at *
        have : events v ((SOp.add w, false) :: (srunFrom (sstep m (.add w)).1 rest).2) =
            events v (srunFrom (sstep m (.add w)).1 rest).2 := rfl
        rw [this, ← hst]
        exact ⟨i1, i2, i3⟩
      | false =>
        have hs : (sstep m (.add w)).2 = true := by simp [sstep, hm]
        rw [hs] at *
        by_cases hw : w = v
        · subst hw
          have hst : (sstep m (.add w)).1 w = true := by simp [sstep]
          have : events w ((SOp.add w, true) :: (srunFrom (sstep m (.add w)).1 rest).2) =
              true :: events w (srunFrom (sstep m (.add w)).1 rest).2 := by simp [events]
          rw [this]
          rw [hst] at i1 i2 i3
          refine ⟨⟨by simp [hm], by simpa [hm] using i1⟩, by simpa [replay] using i2, ?_⟩
          simp only [countTrue, countFalse, List.filter_cons, hm] at i3 ⊢
          simp at i3 ⊢; omega
        · have hst : (sstep m (.add w)).1 v = m v := by
            have : ¬ v = w := fun h => hw h.symm
            simp [sstep, this]
          have : events v ((SOp.add w, true) :: (srunFrom (sstep m (.add w)).1 rest).2) =
              events v (srunFrom (sstep m (.add w)).1 rest).2 := by simp [events, hw]
          rw [this, ← hst]
          exact ⟨i1, i2, i3⟩
    | remove w =>
      cases hm : m w with
      | false =>
        have hs : (sstep m (.remove w)).2 = false := by simp [sstep, hm]
        have hst : (sstep m (.remove w)).1 v = m v := by
          simp only [sstep]; split
          · rename_i h; rw [h, hm]
          · rfl
        rw [hs] at *
        have : events v ((SOp.remove w, false) :: (srunFrom (sstep m (.remove w)).1 rest).2) =
            events v (srunFrom (sstep m (.remove w)).1 rest).2 := rfl
        rw [this, ← hst]
        exact ⟨i1, i2, i3⟩
      | true =>
        have hs : (sstep m (.remove w)).2 = true := by simp [sstep, hm]
        rw [hs] at *
        by_cases hw : w = v
        · subst hw
          have hst : (sstep m (.remove w)).1 w = false := by simp [sstep]
          have : events w ((SOp.remove w, true) :: (srunFrom (sstep m (.remove w)).1 rest).2) =
              false :: events w (srunFrom (sstep m (.remove w)).1 rest).2 := by simp [events]
          rw [this]
          rw [hst] at i1 i2 i3
          refine ⟨⟨by simp [hm], by simpa [hm] using i1⟩, by simpa [replay] using i2, ?_⟩
          simp only [countTrue, countFalse, List.filter_cons, hm] at i3 ⊢
          simp at i3 ⊢; omega
        · have hst : (sstep m (.remove w)).1 v = m v := by
            have : ¬ v = w := fun h => hw h.symm
            simp [sstep, this]
          have : events v ((SOp.remove w, true) :: (srunFrom (sstep m (.remove w)).1 rest).2) =
              events v (srunFrom (sstep m (.remove w)).1 rest).2 := by simp [events, hw]
          rw [this, ← hst]
          exact ⟨i1, i2, i3⟩

/-- histories compose -/
theorem srunFrom_append (m : SState α) (a b : List (SOp α)) :
    (srunFrom m (a ++ b)).2 = (srunFrom m a).2 ++ (srunFrom (srunFrom m a).1 b).2 ∧
    (srunFrom m (a ++ b)).1 = (srunFrom (srunFrom m a).1 b).1 := by
  induction a generalizing m with
  | nil => exact ⟨rfl, rfl⟩
  | cons op rest ih =>
    obtain ⟨i1, i2⟩ := ih (sstep m op).1
    constructor
    · show (op, (sstep m op).2) :: (srunFrom (sstep m op).1 (rest ++ b)).2 = _
      rw [i1]; rfl
    · exact i2

/-! ### the `sync2.Set` model against the specification -/

/-- the model's method for a specification call -/
def mstep (s : AnySet α) : SOp α → AnySet α × Bool
  | .add v => add s v
  | .remove v => remove s v
  | .has v => has s v

def mrunFrom (s : AnySet α) : List (SOp α) → AnySet α × List (SOp α × Bool)
  | [] => (s, [])
  | op :: ops =>
    let r := mstep s op
    let rest := mrunFrom r.1 ops
    (rest.1, (op, r.2) :: rest.2)

theorem mstep_sim (s : AnySet α) (hs : SetOK s) (op : SOp α) :
    SetOK (mstep s op).1 ∧ mem (mstep s op).1 = (sstep (mem s) op).1 ∧ (mstep s op).2 = (sstep (mem s) op).2 := by
  cases op with
  | add v =>
    obtain ⟨h1, h2, h3⟩ := Lemmas.Sets.add_ok s hs v
    refine ⟨h1, funext (fun x => ?_), h3⟩
    show mem (add s v).1 x = if x = v then true else mem s x
    rw [h2]; by_cases hx : x = v <;> simp [hx]
  | remove v =>
    obtain ⟨h1, h2, h3⟩ := Lemmas.Sets.remove_ok s hs v
    refine ⟨h1, funext (fun x => ?_), h3⟩
    show mem (remove s v).1 x = if x = v then false else mem s x
    rw [h2]; by_cases hx : x = v <;> simp [hx]
  | has v =>
    obtain ⟨h1, h2, h3⟩ := Lemmas.Sets.has_ok s hs v
    exact ⟨h1, funext h2, h3⟩

theorem mrunFrom_sim : ∀ (ops : List (SOp α)) (s : AnySet α), SetOK s →
    SetOK (mrunFrom s ops).1 ∧ mem (mrunFrom s ops).1 = (srunFrom (mem s) ops).1 ∧
    (mrunFrom s ops).2 = (srunFrom (mem s) ops).2 := by
  intro ops
  induction ops with
  | nil => intro s hs; exact ⟨hs, rfl, rfl⟩
  | cons op rest ih =>
    intro s hs
    obtain ⟨h1, h2, h3⟩ := mstep_sim s hs op
    obtain ⟨i1, i2, i3⟩ := ih (mstep s op).1 h1
    refine ⟨i1, ?_, ?_⟩
    · show mem (mrunFrom (mstep s op).1 rest).1 = (srunFrom (sstep (mem s) op).1 rest).1
      rw [i2, h2]
    · show (op, (mstep s op).2) :: (mrunFrom (mstep s op).1 rest).2 =
        (op, (sstep (mem s) op).2) :: (srunFrom (sstep (mem s) op).1 rest).2
      rw [i3, h2, h3]

end TypVerif.Lemmas.AtomicSet
