import TypVerif.Lemmas.ListLinked
/-
Facts about the sequence functions of `Spec/Seq.lean` (`insertAfterL`, `insertBeforeL`, `succOf`, `predOf`,
`List.erase`) on duplicate-free lists, and how the pointers of a linked cycle name neighbours.
-/
namespace TypVerif.Lemmas.LinkedList
open TypVerif.Spec.ListOp
open TypVerif.Spec.Seq

/-- `root l` for "no element", else the element -/
def ptrOr (l : ListId) : Option ElemId → Ptr
  | none => .root l
  | some e => .elem e

theorem nodup_split {xs : List ElemId} {a : ElemId} (hnd : xs.Nodup) (ha : a ∈ xs) :
    ∃ A B, xs = A ++ a :: B ∧ a ∉ A ∧ a ∉ B ∧ (A ++ B).Nodup := by
  obtain ⟨A, B, rfl⟩ := List.append_of_mem ha
  refine ⟨A, B, rfl, ?_, ?_, ?_⟩
  · intro h
    have := (List.nodup_append.1 hnd).2.2 a h a (by simp)
    exact this rfl
  · have := (List.nodup_append.1 hnd).2.1
    exact (List.nodup_cons.1 this).1
  · have h1 := List.nodup_append.1 hnd
    rw [List.nodup_append]
    refine ⟨h1.1, (List.nodup_cons.1 h1.2.1).2, ?_⟩
    intro x hx y hy
    exact h1.2.2 x hx y (List.mem_cons_of_mem _ hy)

theorem insertAfterL_append {a e : ElemId} {P Q : List ElemId} (h : a ∉ P) :
    insertAfterL a e (P ++ a :: Q) = P ++ a :: e :: Q := by
  induction P with
  | nil => simp [insertAfterL]
  | cons x P ih =>
    have hx : x ≠ a := fun hh => h (by simp [hh])
    have hP : a ∉ P := fun hh => h (List.mem_cons_of_mem _ hh)
    simp [insertAfterL, hx, ih hP]

theorem insertBeforeL_append {a e : ElemId} {P Q : List ElemId} (h : a ∉ P) :
    insertBeforeL a e (P ++ a :: Q) = P ++ e :: a :: Q := by
  induction P with
  | nil => simp [insertBeforeL]
  | cons x P ih =>
    have hx : x ≠ a := fun hh => h (by simp [hh])
    have hP : a ∉ P := fun hh => h (List.mem_cons_of_mem _ hh)
    simp [insertBeforeL, hx, ih hP]

theorem succOf_append {a : ElemId} {P Q : List ElemId} (h : a ∉ P) :
    succOf a (P ++ a :: Q) = Q.head? := by
  induction P with
  | nil => simp [succOf]
  | cons x P ih =>
    have hx : x ≠ a := fun hh => h (by simp [hh])
    have hP : a ∉ P := fun hh => h (List.mem_cons_of_mem _ hh)
    simp [succOf, hx, ih hP]

theorem succOf_eq_some {a e : ElemId} : ∀ {R : List ElemId}, succOf a R = some e →
    ∃ P Q, R = P ++ a :: e :: Q ∧ a ∉ P
  | [], h => by simp [succOf] at h
  | x :: R, h => by
    unfold succOf at h
    by_cases hx : x = a
    · rw [if_pos hx] at h
      cases R with
      | nil => simp at h
      | cons y R =>
        simp only [List.head?_cons, Option.some.injEq] at h
        subst h; subst hx
        exact ⟨[], R, rfl, by simp⟩
    · rw [if_neg hx] at h
      obtain ⟨P, Q, rfl, hP⟩ := succOf_eq_some h
      refine ⟨x :: P, Q, rfl, ?_⟩
      intro hh
      rcases List.mem_cons.1 hh with h1 | h1
      · exact hx h1.symm
      · exact hP h1

theorem predOf_split {m : ElemId} {A B : List ElemId} (hB : m ∉ B) :
    predOf m (A ++ m :: B) = A.getLast? := by
  unfold predOf
  have : (A ++ m :: B).reverse = B.reverse ++ m :: A.reverse := by simp
  rw [this, succOf_append (by simpa using hB)]
  simp

theorem succOf_split {m : ElemId} {A B : List ElemId} (hA : m ∉ A) :
    succOf m (A ++ m :: B) = B.head? := succOf_append hA

/-! ### insAfter -/

theorem insAfter_root (l : ListId) (e : ElemId) (xs : List ElemId) : insAfter (.root l) e xs = e :: xs := rfl

theorem insAfter_elem (a e : ElemId) (xs : List ElemId) : insAfter (.elem a) e xs = insertAfterL a e xs := rfl

theorem insAfter_cases {l : ListId} {xs : List ElemId} {at' : Ptr} (e : ElemId) (hnd : xs.Nodup)
    (hat : at' ∈ (cyc l xs).dropLast) :
    ∃ A B, xs = A ++ B ∧ insAfter at' e xs = A ++ e :: B := by
  rcases mem_cyc_dropLast.1 hat with rfl | ⟨a, ha, rfl⟩
  · exact ⟨[], xs, rfl, rfl⟩
  · obtain ⟨A, B, rfl, hA, _, _⟩ := nodup_split hnd ha
    refine ⟨A ++ [a], B, by simp, ?_⟩
    rw [insAfter_elem, insertAfterL_append hA]; simp

theorem mem_insAfter {l : ListId} {xs : List ElemId} {at' : Ptr} {e x : ElemId} (hnd : xs.Nodup)
    (hat : at' ∈ (cyc l xs).dropLast) : x ∈ insAfter at' e xs ↔ x = e ∨ x ∈ xs := by
  obtain ⟨A, B, rfl, h2⟩ := insAfter_cases e hnd hat
  rw [h2]
  simp only [List.mem_append, List.mem_cons]
  constructor
  · rintro (h | h | h)
    · exact Or.inr (Or.inl h)
    · exact Or.inl h
    · exact Or.inr (Or.inr h)
  · rintro (h | h | h)
    · exact Or.inr (Or.inl h)
    · exact Or.inl h
    · exact Or.inr (Or.inr h)

theorem length_insAfter {l : ListId} {xs : List ElemId} {at' : Ptr} {e : ElemId} (hnd : xs.Nodup)
    (hat : at' ∈ (cyc l xs).dropLast) : (insAfter at' e xs).length = xs.length + 1 := by
  obtain ⟨A, B, rfl, h2⟩ := insAfter_cases e hnd hat
  rw [h2]; simp; omega

theorem nodup_insAfter {l : ListId} {xs : List ElemId} {at' : Ptr} {e : ElemId} (hnd : xs.Nodup)
    (he : e ∉ xs) (hat : at' ∈ (cyc l xs).dropLast) : (insAfter at' e xs).Nodup := by
  obtain ⟨A, B, rfl, h2⟩ := insAfter_cases e hnd hat
  rw [h2]
  have h1 := List.nodup_append.1 hnd
  rw [List.nodup_append]
  refine ⟨h1.1, ?_, ?_⟩
  · rw [List.nodup_cons]
    exact ⟨fun h => he (by simp [h]), h1.2.1⟩
  · intro x hx y hy
    rcases List.mem_cons.1 hy with rfl | hy
    · intro hxy; exact he (by simp [← hxy, hx])
    · exact h1.2.2 x hx y hy

theorem insAfter_last {l : ListId} {xs : List ElemId} (e : ElemId) (hnd : xs.Nodup) :
    insAfter (ptrOr l xs.getLast?) e xs = xs ++ [e] := by
  cases hl : xs.getLast? with
  | none =>
    have : xs = [] := by simpa using hl
    subst this; rfl
  | some p =>
    obtain ⟨A, rfl⟩ := List.getLast?_eq_some_iff.1 hl
    have hp : p ∉ A := by
      intro h
      exact (List.nodup_append.1 hnd).2.2 p h p (by simp) rfl
    show insertAfterL p e (A ++ [p]) = _
    rw [insertAfterL_append hp]; simp

theorem insAfter_pred {l : ListId} {xs : List ElemId} {m : ElemId} (e : ElemId) (hnd : xs.Nodup) (hm : m ∈ xs) :
    insAfter (ptrOr l (predOf m xs)) e xs = insertBeforeL m e xs := by
  obtain ⟨A, B, rfl, hA, hB, hAB⟩ := nodup_split hnd hm
  rw [predOf_split hB, insertBeforeL_append hA]
  cases hl : A.getLast? with
  | none =>
    have : A = [] := by simpa using hl
    subst this; rfl
  | some p =>
    obtain ⟨A', rfl⟩ := List.getLast?_eq_some_iff.1 hl
    have hp : p ∉ A' := by
      intro h
      have := List.nodup_append.1 hAB
      exact (List.nodup_append.1 this.1).2.2 p h p (by simp) rfl
    show insertAfterL p e (A' ++ [p] ++ m :: B) = _
    have : A' ++ [p] ++ m :: B = A' ++ p :: (m :: B) := by simp
    rw [this, insertAfterL_append hp]; simp

/-! ### no-op moves -/

theorem move_front_noop {xs : List ElemId} {e : ElemId} (h : xs.head? = some e) : e :: xs.erase e = xs := by
  cases xs with
  | nil => simp at h
  | cons x xs => simp at h; subst h; simp

theorem move_back_noop {xs : List ElemId} {e : ElemId} (hnd : xs.Nodup) (h : xs.getLast? = some e) :
    xs.erase e ++ [e] = xs := by
  obtain ⟨A, rfl⟩ := List.getLast?_eq_some_iff.1 h
  have hp : e ∉ A := by
    intro h
    exact (List.nodup_append.1 hnd).2.2 e h e (by simp) rfl
  rw [List.erase_append_right _ hp]; simp

theorem move_before_noop {xs : List ElemId} {e m : ElemId} (hnd : xs.Nodup)
    (h : predOf m xs = some e) : insertBeforeL m e (xs.erase e) = xs := by
  obtain ⟨P, Q, hR, hP⟩ := succOf_eq_some h
  have hx : xs = Q.reverse ++ e :: m :: P.reverse := by
    have := congrArg List.reverse hR
    simpa using this
  subst hx
  have h1 := List.nodup_append.1 hnd
  have heQ : e ∉ Q.reverse := fun hh => h1.2.2 e hh e (by simp) rfl
  have hmQ : m ∉ Q.reverse := fun hh => h1.2.2 m hh m (by simp) rfl
  rw [List.erase_append_right _ heQ]
  simp only [List.erase_cons_head]
  rw [insertBeforeL_append hmQ]

/-! ### neighbours in a linked cycle -/

theorem Linked.next_elem {nx pv : Ptr → Ptr} {l : ListId} {m : ElemId} :
    ∀ {xs : List ElemId} {p : Ptr}, Linked nx pv (p :: (xs.map Ptr.elem ++ [Ptr.root l])) → m ∈ xs →
      nx (.elem m) = ptrOr l (succOf m xs)
  | [], _, _, hm => by simp at hm
  | x :: xs, p, h, hm => by
    have h' : Linked nx pv (p :: .elem x :: (xs.map Ptr.elem ++ [Ptr.root l])) := h
    unfold succOf
    by_cases hx : x = m
    · subst hx
      rw [if_pos rfl]
      cases xs with
      | nil => exact h'.2.2.1
      | cons y ys => exact h'.2.2.1
    · rw [if_neg hx]
      have hm' : m ∈ xs := by
        rcases List.mem_cons.1 hm with h1 | h1
        · exact absurd h1.symm hx
        · exact h1
      exact Linked.next_elem h'.2.2 hm'

theorem cyc_reverse (l : ListId) (xs : List ElemId) : (cyc l xs).reverse = cyc l xs.reverse := by
  simp [cyc]

theorem Linked.next_root {nx pv : Ptr → Ptr} {l : ListId} {xs : List ElemId} (h : Linked nx pv (cyc l xs)) :
    nx (.root l) = ptrOr l xs.head? := by
  cases xs with
  | nil => exact h.1
  | cons x xs => exact h.1

theorem Linked.prev_root {nx pv : Ptr → Ptr} {l : ListId} {xs : List ElemId} (h : Linked nx pv (cyc l xs)) :
    pv (.root l) = ptrOr l xs.getLast? := by
  have h2 := Linked.reverse h
  rw [cyc_reverse] at h2
  have := Linked.next_root h2
  simpa using this

theorem Linked.next_elem_cyc {nx pv : Ptr → Ptr} {l : ListId} {xs : List ElemId} {m : ElemId}
    (h : Linked nx pv (cyc l xs)) (hm : m ∈ xs) : nx (.elem m) = ptrOr l (succOf m xs) :=
  Linked.next_elem (p := .root l) h hm

theorem Linked.prev_elem_cyc {nx pv : Ptr → Ptr} {l : ListId} {xs : List ElemId} {m : ElemId}
    (h : Linked nx pv (cyc l xs)) (hm : m ∈ xs) : pv (.elem m) = ptrOr l (predOf m xs) := by
  have h2 := Linked.reverse h
  rw [cyc_reverse] at h2
  exact Linked.next_elem_cyc h2 (by simpa using hm)

/-- consecutive pointers: `pv (nx p) = p` inside a linked list -/
theorem Linked.prev_next {nx pv : Ptr → Ptr} : ∀ {c : List Ptr} {p : Ptr}, Linked nx pv c →
    p ∈ c.dropLast → pv (nx p) = p
  | [], _, _, hp => by simp at hp
  | [_], _, _, hp => by simp at hp
  | a :: b :: rest, p, h, hp => by
    rw [List.dropLast_cons_cons] at hp
    rcases List.mem_cons.1 hp with rfl | hp
    · rw [h.1]; exact h.2.1
    · exact Linked.prev_next h.2.2 hp

theorem Linked.next_prev {nx pv : Ptr → Ptr} : ∀ {c : List Ptr} {p : Ptr}, Linked nx pv c →
    p ∈ c.tail → nx (pv p) = p
  | [], _, _, hp => by simp at hp
  | [_], _, _, hp => by simp at hp
  | a :: b :: rest, p, h, hp => by
    simp only [List.tail_cons] at hp
    rcases List.mem_cons.1 hp with rfl | hp
    · rw [h.2.1]; exact h.1
    · exact Linked.next_prev h.2.2 (by simpa using hp)

theorem ptrOr_ne_null (l : ListId) (o : Option ElemId) : ptrOr l o ≠ .null := by
  cases o <;> simp [ptrOr]

theorem optPtr_of_ptrOr (l : ListId) (o : Option ElemId) :
    (if ptrOr l o ≠ .root l then ptrOr l o else .null) = optPtr o := by
  cases o <;> simp [ptrOr, optPtr]

end TypVerif.Lemmas.LinkedList
