import TypVerif.Lemmas.SmcDefs
/-
`GS`: the part of the global invariant `G` that talks about the shared state only, with the list of
not-yet-processed `read.m` pairs (`unprocessed s`) as a parameter — so that the effect of a step on the shared
state can be analysed independently of the program counters.
-/
namespace TypVerif.Lemmas.Smc
open TypVerif.Model TypVerif.Model.SyncMapConc TypVerif.Model.RelObj
open TypVerif.Model.SyncMap (alookup ainsert aerase akeys)

variable {K V : Type} [DecidableEq K] [DecidableEq V]

structure GS (sh : Shared K V) (U : List (K × EId)) : Prop where
  keysR : (akeys sh.readM).Nodup
  valsR : (vals sh.readM).Nodup
  keysD : (akeys (dirtyMap sh)).Nodup
  valsD : (vals (dirtyMap sh)).Nodup
  boundR : ∀ p ∈ sh.readM, p.2 < sh.entries.length
  boundD : ∀ p ∈ dirtyMap sh, p.2 < sh.entries.length
  s1 : sh.dirty = none → sh.amended = false
  nofault : sh.fault = false
  readDirty : ∀ p ∈ sh.readM, p ∉ U →
    if (getP sh p.2).isExpunged then
      sh.dirty.isSome = true ∧ alookup p.1 (dirtyMap sh) = none ∧ p.2 ∉ vals (dirtyMap sh)
    else (sh.dirty.isSome = true → alookup p.1 (dirtyMap sh) = some p.2)
  dirtySub : sh.amended = false → ∀ p ∈ dirtyMap sh, alookup p.1 sh.readM = some p.2
  dirtyLive : ∀ p ∈ dirtyMap sh, alookup p.1 sh.readM = none → isVal (getP sh p.2) = true

/-- the thread-indexed clauses of `G` -/
structure GT (s : State K V) (apcs : Nat → APc K V) : Prop where
  muBound : ∀ t, s.sh.mu = some t → t < s.pcs.length
  unlinked : ∀ t u, t < s.pcs.length → u < s.pcs.length → t ≠ u →
    ∀ e ∈ unlinkedPc (s.pc t) (apcs t), e ∉ unlinkedPc (s.pc u) (apcs u)

theorem G_iff (s : State K V) (apcs : Nat → APc K V) :
    G s apcs ↔ GS s.sh (unprocessed s) ∧ GT s apcs := by
  constructor
  · intro h
    exact ⟨⟨h.keysR, h.valsR, h.keysD, h.valsD, h.boundR, h.boundD, h.s1, h.nofault, h.readDirty, h.dirtySub, h.dirtyLive⟩,
           ⟨h.muBound, h.unlinked⟩⟩
  · rintro ⟨h, g⟩
    exact ⟨h.keysR, h.valsR, h.keysD, h.valsD, h.boundR, h.boundD, h.s1, h.nofault, g.muBound, h.readDirty, h.dirtySub,
           h.dirtyLive, g.unlinked⟩

/-- `GS` only depends on the MEMBERS of `U` -/
theorem GS.congr {sh : Shared K V} {U U' : List (K × EId)} (h : GS sh U) (hU : ∀ p, p ∈ U' ↔ p ∈ U) : GS sh U' :=
  { h with readDirty := fun p hp hn => h.readDirty p hp (fun hm => hn ((hU p).mpr hm)) }

/-- a smaller unprocessed set is a stronger statement; a larger one is weaker -/
theorem GS.weaken {sh : Shared K V} {U U' : List (K × EId)} (h : GS sh U) (hU : ∀ p, p ∈ U → p ∈ U') : GS sh U' :=
  { h with readDirty := fun p hp hn => h.readDirty p hp (fun hm => hn (hU p hm)) }

end TypVerif.Lemmas.Smc
