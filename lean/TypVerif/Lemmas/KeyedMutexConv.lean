import TypVerif.Lemmas.KeyedMutexInv
/-
Converse invariants of the KeyedMutex system: whatever is recorded in the automaton of a mapped mutex
belongs to a goroutine that holds the key or is inside a call on the key.  They turn the
automaton-level conditions of `C09.try` ("free and uncontended") into statements about goroutines.
-/
namespace TypVerif.Lemmas.KeyedMutex
open TypVerif TypVerif.Conc TypVerif.Model.KeyedMutex

structure Conv (s : State) : Prop where
  wr : ∀ k m t', Model.KeyedMutex.get s.map k = some m → (s.mu m).writer = some t' → (t', k) ∈ s.wh
  rd : ∀ k m t', Model.KeyedMutex.get s.map k = some m → t' ∈ (s.mu m).readers → (t', k) ∈ s.rh
  rdNd : ∀ k m, Model.KeyedMutex.get s.map k = some m → (s.mu m).readers.Nodup
  pd : ∀ k m t', Model.KeyedMutex.get s.map k = some m → t' ∈ (s.mu m).pending → s.pc t' = .wait k m
  wq : ∀ k m t', Model.KeyedMutex.get s.map k = some m → t' ∈ (s.mu m).wq → s.pc t' = .ann k m ∨ s.pc t' = .rel k m

theorem conv_init (n : Nat) : Conv (init n) := by
  refine ⟨?_, ?_, ?_, ?_, ?_⟩ <;> intro k m <;> simp [init, Model.KeyedMutex.get]

section step
variable {rw : Bool} {ops : List Op} {s s' : State} {t : Nat} {l : Option Event}

/-- a key of the new map is a key of the old map with the same mutex, or it is new and its cell is untouched -/
theorem map_back (hs : Step rw true ops s t l s') {k' m' : Nat} (h : Model.KeyedMutex.get s'.map k' = some m') :
    Model.KeyedMutex.get s.map k' = some m' ∨ (s'.mu m' = Mu.free) := by
  cases hs with
  | inv op hpc hop hok => exact .inl h
  | ret r hpc => exact .inl h
  | tryFail kd k m hpc hkd => exact .inl h
  | hit kd k m hpc hkd hm => exact .inl h
  | miss kd k hpc hkd hm =>
    change Model.KeyedMutex.get ((k, s.heap.length) :: s.map) k' = some m' at h
    rw [get_cons] at h
    split at h
    · cases h
      right
      rw [mu_mk_append]
      exact mu_free_of_ge s (Nat.le_refl _)
    · exact .inl h
  | clear k hpc hok => exact .inl (get_del_some h).2
  | queue k m p' P Q hpc hp' hq => exact .inl h
  | acqW k m r hpc hw hr => exact .inl h
  | unlock k m p' Q hpc hp' hq => exact .inl h
  | acqR kd k m r hpc hkd hw => exact .inl h
  | runlock k m hpc => exact .inl h

end step

section step2
variable {rw : Bool} {ops : List Op} {s s' : State} {t : Nat} {l : Option Event}

theorem pc_other (ht : t < s.pcs.length) (hs : Step rw true ops s t l s') :
    ∀ t', t' ≠ t → s'.pc t' = s.pc t' := by
  intro t' e
  cases hs with
  | inv op hpc hop hok => rw [pc_setPc _ _ _ _ ht, if_neg e]
  | ret r hpc => rw [pc_setPc _ _ _ _ ht, if_neg e]
  | tryFail kd k m hpc hkd => rw [pc_setPc _ _ _ _ ht, if_neg e]
  | hit kd k m hpc hkd hm => rw [pc_mk _ _ _ _ ht, if_neg e]
  | miss kd k hpc hkd hm => rw [pc_mk _ _ _ _ ht, if_neg e]
  | clear k hpc hok => rw [pc_mk _ _ _ _ ht, if_neg e]
  | queue k m p' P Q hpc hp' hq => unfold queueStep; rw [pc_mk _ _ _ _ ht, if_neg e]
  | acqW k m r hpc hw hr => unfold acqW; rw [pc_mk _ _ _ _ ht, if_neg e]
  | unlock k m p' Q hpc hp' hq => unfold relW; rw [pc_mk _ _ _ _ ht, if_neg e]
  | acqR kd k m r hpc hkd hw => unfold acqR; rw [pc_mk _ _ _ _ ht, if_neg e]
  | runlock k m hpc => rw [pc_mk _ _ _ _ ht, if_neg e]

theorem wr_step (hg : Good s) (hc : Conv s) (hs : Step rw true ops s t l s') :
    ∀ k' m' t', Model.KeyedMutex.get s'.map k' = some m' → (s'.mu m').writer = some t' → (t', k') ∈ s'.wh := by
  intro k' m' t' h1 h2
  rcases map_back hs h1 with h0 | hfree
  rotate_left
  · rw [hfree] at h2; cases h2
  have hT := hg.thread t
  have old := hc.wr k' m' t' h0
  cases hs with
  | inv op hpc hop hok => exact old h2
  | ret r hpc => exact old h2
  | tryFail kd k m hpc hkd => exact old h2
  | hit kd k m hpc hkd hm => rw [mu_mk_append] at h2; exact old h2
  | miss kd k hpc hkd hm => rw [mu_mk_append] at h2; exact old h2
  | clear k hpc hok => exact old h2
  | queue k m p' P Q hpc hp' hq =>
    have hm := hg.mapLt _ _ (queue_get hT hpc)
    unfold queueStep at h2
    rw [mu_mk_set _ _ _ _ hm] at h2
    split at h2
    · subst_vars; exact old h2
    · exact old h2
  | acqW k m r hpc hw hr =>
    have hk := acq_get hT hpc
    have hm := hg.mapLt _ _ hk
    unfold acqW at h2 ⊢
    rw [mu_mk_set _ _ _ _ hm] at h2
    show (t', k') ∈ (t, k) :: s.wh
    split at h2
    · subst_vars
      cases h2
      have := hg.mapInj _ _ _ h0 hk
      subst this
      exact List.mem_cons_self
    · exact List.mem_cons_of_mem _ (old h2)
  | unlock k m p' Q hpc hp' hq =>
    have hk := (act_ok hT hpc).1
    have hm := hg.mapLt _ _ hk
    unfold relW at h2 ⊢
    rw [mu_mk_set _ _ _ _ hm] at h2
    show (t', k') ∈ s.wh.erase (t, k)
    split at h2
    · cases h2
    · next hne =>
      refine (List.mem_erase_of_ne ?_).mpr (old h2)
      intro e; cases e
      rw [hk] at h0; cases h0; exact hne rfl
  | acqR kd k m r hpc hkd hw =>
    have hm := hg.mapLt _ _ (act_ok hT hpc).1
    unfold acqR at h2
    rw [mu_mk_set _ _ _ _ hm] at h2
    split at h2
    · subst_vars; exact old h2
    · exact old h2
  | runlock k m hpc =>
    have hm := hg.mapLt _ _ (act_ok hT hpc).1
    rw [mu_mk_set _ _ _ _ hm] at h2
    split at h2
    · subst_vars; exact old h2
    · exact old h2

theorem rd_step (hg : Good s) (hc : Conv s) (hs : Step rw true ops s t l s') :
    ∀ k' m' t', Model.KeyedMutex.get s'.map k' = some m' → t' ∈ (s'.mu m').readers → (t', k') ∈ s'.rh := by
  intro k' m' t' h1 h2
  rcases map_back hs h1 with h0 | hfree
  rotate_left
  · rw [hfree] at h2; simp [Mu.free] at h2
  have hT := hg.thread t
  have old := hc.rd k' m' t' h0
  cases hs with
  | inv op hpc hop hok => exact old h2
  | ret r hpc => exact old h2
  | tryFail kd k m hpc hkd => exact old h2
  | hit kd k m hpc hkd hm => rw [mu_mk_append] at h2; exact old h2
  | miss kd k hpc hkd hm => rw [mu_mk_append] at h2; exact old h2
  | clear k hpc hok => exact old h2
  | queue k m p' P Q hpc hp' hq =>
    have hm := hg.mapLt _ _ (queue_get hT hpc)
    unfold queueStep at h2
    rw [mu_mk_set _ _ _ _ hm] at h2
    split at h2
    · subst_vars; exact old h2
    · exact old h2
  | acqW k m r hpc hw hr =>
    have hm := hg.mapLt _ _ (acq_get hT hpc)
    unfold acqW at h2
    rw [mu_mk_set _ _ _ _ hm] at h2
    split at h2
    · subst_vars; exact old h2
    · exact old h2
  | unlock k m p' Q hpc hp' hq =>
    have hm := hg.mapLt _ _ (act_ok hT hpc).1
    unfold relW at h2
    rw [mu_mk_set _ _ _ _ hm] at h2
    split at h2
    · subst_vars; exact old h2
    · exact old h2
  | acqR kd k m r hpc hkd hw =>
    have hk := (act_ok hT hpc).1
    have hm := hg.mapLt _ _ hk
    unfold acqR at h2 ⊢
    rw [mu_mk_set _ _ _ _ hm] at h2
    show (t', k') ∈ (t, k) :: s.rh
    split at h2
    · subst_vars
      have := hg.mapInj _ _ _ h0 hk
      subst this
      rcases List.mem_cons.mp h2 with e | h2
      · subst e; exact List.mem_cons_self
      · exact List.mem_cons_of_mem _ (old h2)
    · exact List.mem_cons_of_mem _ (old h2)
  | runlock k m hpc =>
    have hk := (act_ok hT hpc).1
    have hm := hg.mapLt _ _ hk
    rw [mu_mk_set _ _ _ _ hm] at h2
    show (t', k') ∈ s.rh.erase (t, k)
    split at h2
    · subst_vars
      have := hg.mapInj _ _ _ h0 hk
      subst this
      obtain ⟨hne, h2⟩ := ((hc.rdNd _ _ hk).mem_erase_iff).mp h2
      exact (List.mem_erase_of_ne (pair_ne hne)).mpr (old h2)
    · next hne =>
      refine (List.mem_erase_of_ne ?_).mpr (old h2)
      intro e; cases e
      rw [hk] at h0; cases h0; exact hne rfl

theorem rdNd_step (hg : Good s) (hc : Conv s) (hs : Step rw true ops s t l s') :
    ∀ k' m', Model.KeyedMutex.get s'.map k' = some m' → (s'.mu m').readers.Nodup := by
  intro k' m' h1
  rcases map_back hs h1 with h0 | hfree
  rotate_left
  · rw [hfree]; simp [Mu.free]
  have hT := hg.thread t
  have old := hc.rdNd k' m' h0
  cases hs with
  | inv op hpc hop hok => exact old
  | ret r hpc => exact old
  | tryFail kd k m hpc hkd => exact old
  | hit kd k m hpc hkd hm => rw [mu_mk_append]; exact old
  | miss kd k hpc hkd hm => rw [mu_mk_append]; exact old
  | clear k hpc hok => exact old
  | queue k m p' P Q hpc hp' hq =>
    have hm := hg.mapLt _ _ (queue_get hT hpc)
    unfold queueStep
    rw [mu_mk_set _ _ _ _ hm]
    split
    · subst_vars; exact old
    · exact old
  | acqW k m r hpc hw hr =>
    have hm := hg.mapLt _ _ (acq_get hT hpc)
    unfold acqW
    rw [mu_mk_set _ _ _ _ hm]
    split
    · subst_vars; exact old
    · exact old
  | unlock k m p' Q hpc hp' hq =>
    have hm := hg.mapLt _ _ (act_ok hT hpc).1
    unfold relW
    rw [mu_mk_set _ _ _ _ hm]
    split
    · subst_vars; exact old
    · exact old
  | acqR kd k m r hpc hkd hw =>
    have hk := (act_ok hT hpc).1
    have hm := hg.mapLt _ _ hk
    unfold acqR
    rw [mu_mk_set _ _ _ _ hm]
    split
    · subst_vars
      have := hg.mapInj _ _ _ h0 hk
      subst this
      refine List.nodup_cons.mpr ⟨fun hmem => ?_, old⟩
      exact (act_ok hT hpc).2.2.2 hkd (hc.rd _ _ _ hk hmem)
    · exact old
  | runlock k m hpc =>
    have hm := hg.mapLt _ _ (act_ok hT hpc).1
    rw [mu_mk_set _ _ _ _ hm]
    split
    · subst_vars; exact old.erase _
    · exact old

theorem pd_step (hg : Good s) (hc : Conv s) (ht : t < s.pcs.length) (hs : Step rw true ops s t l s') :
    ∀ k' m' t', Model.KeyedMutex.get s'.map k' = some m' → t' ∈ (s'.mu m').pending → s'.pc t' = .wait k' m' := by
  intro k' m' t' h1 h2
  rcases map_back hs h1 with h0 | hfree
  rotate_left
  · rw [hfree] at h2; simp [Mu.free] at h2
  have hT := hg.thread t
  have old := hc.pd k' m' t' h0
  have hpo := pc_other ht hs t'
  -- in most cases `t` is not at `wait`, hence is not `t'`
  have fin : ∀ {p : Pc}, s.pc t = p → (∀ a b, p ≠ .wait a b) → t' ∈ (s.mu m').pending → s'.pc t' = .wait k' m' := by
    intro p hp hnw hmem
    have ho := old hmem
    have hne : t' ≠ t := by intro e; subst e; rw [hp] at ho; exact hnw _ _ ho
    rw [hpo hne]; exact ho
  cases hs with
  | inv op hpc hop hok => exact fin hpc (by intro a b e; cases e) h2
  | ret r hpc => exact fin hpc (by intro a b e; cases e) h2
  | tryFail kd k m hpc hkd => exact fin hpc (by intro a b e; cases e) h2
  | hit kd k m hpc hkd hm => rw [mu_mk_append] at h2; exact fin hpc (by intro a b e; cases e) h2
  | miss kd k hpc hkd hm => rw [mu_mk_append] at h2; exact fin hpc (by intro a b e; cases e) h2
  | clear k hpc hok => exact fin hpc (by intro a b e; cases e) h2
  | queue k m p' P Q hpc hp' hq =>
    have hk := queue_get hT hpc
    have hm := hg.mapLt _ _ hk
    unfold queueStep at h2 ⊢
    rw [mu_mk_set _ _ _ _ hm] at h2
    rcases hq with ⟨hp, rfl, rfl, rfl⟩ | ⟨hp, rfl, rfl, rfl⟩ | ⟨hp, rfl, rfl, rfl⟩
    · have h2' : t' ∈ (s.mu m').pending := by
        split at h2
        · subst_vars; exact h2
        · exact h2
      have := fin hp (by intro a b e; cases e) h2'
      unfold queueStep at this; exact this
    · split at h2
      · subst_vars
        have := hg.mapInj _ _ _ h0 hk
        subst this
        rcases List.mem_cons.mp h2 with e | h2
        · subst e; rw [pc_mk _ _ _ _ ht, if_pos rfl]
        · have := fin hp (by intro a b e; cases e) h2
          unfold queueStep at this; exact this
      · have := fin hp (by intro a b e; cases e) h2
        unfold queueStep at this; exact this
    · have h2' : t' ∈ (s.mu m').pending := by
        split at h2
        · subst_vars; exact h2
        · exact h2
      have := fin hp (by intro a b e; cases e) h2'
      unfold queueStep at this; exact this
  | acqW k m r hpc hw hr =>
    have hk := acq_get hT hpc
    have hm := hg.mapLt _ _ hk
    unfold acqW at h2 ⊢
    rw [mu_mk_set _ _ _ _ hm] at h2
    have hpo' : t' ≠ t → State.pc (acqW s t k m r) t' = s.pc t' := hpo
    unfold acqW at hpo'
    split at h2
    · subst_vars
      simp only [List.mem_filter, decide_eq_true_eq] at h2
      rw [hpo' h2.2]; exact old h2.1
    · next hne =>
      have ho := old h2
      have hne' : t' ≠ t := by
        intro e; subst e
        rcases hpc with h | h | h <;> rw [h] at ho <;> cases ho
        exact hne rfl
      rw [hpo' hne']; exact ho
  | unlock k m p' Q hpc hp' hq =>
    have hm := hg.mapLt _ _ (act_ok hT hpc).1
    unfold relW at h2
    rw [mu_mk_set _ _ _ _ hm] at h2
    have h2' : t' ∈ (s.mu m').pending := by
      split at h2
      · subst_vars; exact h2
      · exact h2
    exact fin hpc (by intro a b e; cases e) h2'
  | acqR kd k m r hpc hkd hw =>
    have hm := hg.mapLt _ _ (act_ok hT hpc).1
    unfold acqR at h2
    rw [mu_mk_set _ _ _ _ hm] at h2
    have h2' : t' ∈ (s.mu m').pending := by
      split at h2
      · subst_vars; exact h2
      · exact h2
    exact fin hpc (by intro a b e; cases e) h2'
  | runlock k m hpc =>
    have hm := hg.mapLt _ _ (act_ok hT hpc).1
    rw [mu_mk_set _ _ _ _ hm] at h2
    have h2' : t' ∈ (s.mu m').pending := by
      split at h2
      · subst_vars; exact h2
      · exact h2
    exact fin hpc (by intro a b e; cases e) h2'

theorem wq_step (hg : Good s) (hc : Conv s) (ht : t < s.pcs.length) (hs : Step rw true ops s t l s') :
    ∀ k' m' t', Model.KeyedMutex.get s'.map k' = some m' → t' ∈ (s'.mu m').wq →
      s'.pc t' = .ann k' m' ∨ s'.pc t' = .rel k' m' := by
  intro k' m' t' h1 h2
  rcases map_back hs h1 with h0 | hfree
  rotate_left
  · rw [hfree] at h2; simp [Mu.free] at h2
  have hT := hg.thread t
  have old := hc.wq k' m' t' h0
  have hpo := pc_other ht hs t'
  -- in most cases `t` is neither at `ann` nor at `rel`, hence is not `t'`
  have fin : ∀ {p : Pc}, s.pc t = p → (∀ a b, p ≠ .ann a b ∧ p ≠ .rel a b) → t' ∈ (s.mu m').wq →
      s'.pc t' = .ann k' m' ∨ s'.pc t' = .rel k' m' := by
    intro p hp hnw hmem
    have ho := old hmem
    have hne : t' ≠ t := by
      intro e; subst e; rw [hp] at ho
      rcases ho with ho | ho
      · exact (hnw _ _).1 ho
      · exact (hnw _ _).2 ho
    rw [hpo hne]; exact ho
  cases hs with
  | inv op hpc hop hok => exact fin hpc (by intro a b; constructor <;> (intro e; cases e)) h2
  | ret r hpc => exact fin hpc (by intro a b; constructor <;> (intro e; cases e)) h2
  | tryFail kd k m hpc hkd => exact fin hpc (by intro a b; constructor <;> (intro e; cases e)) h2
  | hit kd k m hpc hkd hm =>
    rw [mu_mk_append] at h2; exact fin hpc (by intro a b; constructor <;> (intro e; cases e)) h2
  | miss kd k hpc hkd hm =>
    rw [mu_mk_append] at h2; exact fin hpc (by intro a b; constructor <;> (intro e; cases e)) h2
  | clear k hpc hok => exact fin hpc (by intro a b; constructor <;> (intro e; cases e)) h2
  | queue k m p' P Q hpc hp' hq =>
    have hk := queue_get hT hpc
    have hm := hg.mapLt _ _ hk
    have hpo' : t' ≠ t → State.pc (queueStep s t m p' P Q) t' = s.pc t' := hpo
    unfold queueStep at h2 hpo' ⊢
    rw [mu_mk_set _ _ _ _ hm] at h2
    rcases hq with ⟨hp, rfl, rfl, rfl⟩ | ⟨hp, rfl, rfl, rfl⟩ | ⟨hp, rfl, rfl, rfl⟩
    · -- enter: t joins wq of m
      split at h2
      · subst_vars
        have := hg.mapInj _ _ _ h0 hk
        subst this
        rcases List.mem_cons.mp h2 with e | h2
        · subst e; left; rw [pc_mk _ _ _ _ ht, if_pos rfl]
        · have := fin hp (by intro a b; constructor <;> (intro e; cases e)) h2
          unfold queueStep at this; exact this
      · have := fin hp (by intro a b; constructor <;> (intro e; cases e)) h2
        unfold queueStep at this; exact this
    · -- announce: t leaves wq of m
      split at h2
      · subst_vars
        simp only [List.mem_filter, decide_eq_true_eq] at h2
        rw [hpo' h2.2]; exact old h2.1
      · next hne =>
        have ho := old h2
        have hne' : t' ≠ t := by
          intro e; subst e; rw [hp] at ho
          rcases ho with ho | ho <;> cases ho
          exact hne rfl
        rw [hpo' hne']; exact ho
    · -- leave: t leaves wq of m
      split at h2
      · subst_vars
        simp only [List.mem_filter, decide_eq_true_eq] at h2
        rw [hpo' h2.2]; exact old h2.1
      · next hne =>
        have ho := old h2
        have hne' : t' ≠ t := by
          intro e; subst e; rw [hp] at ho
          rcases ho with ho | ho <;> cases ho
          exact hne rfl
        rw [hpo' hne']; exact ho
  | acqW k m r hpc hw hr =>
    have hk := acq_get hT hpc
    have hm := hg.mapLt _ _ hk
    have hpo' : t' ≠ t → State.pc (acqW s t k m r) t' = s.pc t' := hpo
    unfold acqW at h2 hpo' ⊢
    rw [mu_mk_set _ _ _ _ hm] at h2
    have h2' : t' ∈ (s.mu m').wq := by
      split at h2
      · subst_vars; exact h2
      · exact h2
    have ho := old h2'
    have hne' : t' ≠ t := by
      intro e; subst e
      rcases hpc with h | h | h <;> rw [h] at ho <;> rcases ho with ho | ho <;> cases ho
    rw [hpo' hne']; exact ho
  | unlock k m p' Q hpc hp' hq =>
    have hk := (act_ok hT hpc).1
    have hm := hg.mapLt _ _ hk
    have hpo' : t' ≠ t → State.pc (relW s t k m p' Q) t' = s.pc t' := hpo
    unfold relW at h2 hpo' ⊢
    rw [mu_mk_set _ _ _ _ hm] at h2
    rcases hq with ⟨rfl, rfl⟩ | ⟨rfl, rfl⟩
    · split at h2
      · subst_vars
        have := hg.mapInj _ _ _ h0 hk
        subst this
        rcases List.mem_cons.mp h2 with e | h2
        · subst e; right; rw [pc_mk _ _ _ _ ht, if_pos rfl]
        · have := fin hpc (by intro a b; constructor <;> (intro e; cases e)) h2
          unfold relW at this; exact this
      · have := fin hpc (by intro a b; constructor <;> (intro e; cases e)) h2
        unfold relW at this; exact this
    · have h2' : t' ∈ (s.mu m').wq := by
        split at h2
        · subst_vars; exact h2
        · exact h2
      have := fin hpc (by intro a b; constructor <;> (intro e; cases e)) h2'
      unfold relW at this; exact this
  | acqR kd k m r hpc hkd hw =>
    have hm := hg.mapLt _ _ (act_ok hT hpc).1
    unfold acqR at h2
    rw [mu_mk_set _ _ _ _ hm] at h2
    have h2' : t' ∈ (s.mu m').wq := by
      split at h2
      · subst_vars; exact h2
      · exact h2
    exact fin hpc (by intro a b; constructor <;> (intro e; cases e)) h2'
  | runlock k m hpc =>
    have hm := hg.mapLt _ _ (act_ok hT hpc).1
    rw [mu_mk_set _ _ _ _ hm] at h2
    have h2' : t' ∈ (s.mu m').wq := by
      split at h2
      · subst_vars; exact h2
      · exact h2
    exact fin hpc (by intro a b; constructor <;> (intro e; cases e)) h2'

theorem conv_step (hg : Good s) (hc : Conv s) (ht : t < s.pcs.length) (hs : Step rw true ops s t l s') : Conv s' :=
  ⟨wr_step hg hc hs, rd_step hg hc hs, rdNd_step hg hc hs, pd_step hg hc ht hs, wq_step hg hc ht hs⟩

end step2

theorem good_conv_reachable (rw : Bool) (n : Nat) (ops : List Op) :
    ∀ s, Reachable (sys rw n ops) s → Good s ∧ Conv s :=
  Conc.invariant (sys rw n ops) (fun s => Good s ∧ Conv s) ⟨good_init n, conv_init n⟩
    (fun s l s' h hm => by
      obtain ⟨t, ht, hs⟩ := step_of_succ (rw := rw) (g := true) (ops := ops) hm
      exact ⟨good_step h.1 ht hs, conv_step h.1 h.2 ht hs⟩)

/-- a key that nobody holds and on which no other goroutine is inside a call has a free, uncontended mutex -/
theorem free_of_alone {s : State} (hg : Good s) (hc : Conv s) {t k m : Nat} {kd : Kind}
    (hpc : s.pc t = .act kd k m)
    (hold : ∀ t', ¬ s.holdsW t' k ∧ ¬ s.holdsR t' k)
    (alone : ∀ t', t' ≠ t → onKey k (s.pc t') = false) : Mu.isFree (s.mu m) := by
  have hk := (act_ok (hg.thread t) hpc).1
  refine ⟨?_, ?_, ?_, ?_⟩
  · cases hw : (s.mu m).writer with
    | none => rfl
    | some t' => exact absurd (hc.wr _ _ _ hk hw) (hold t').1
  · cases hr : (s.mu m).readers with
    | nil => rfl
    | cons t' r => exact absurd (hc.rd _ _ t' hk (by rw [hr]; exact List.mem_cons_self)) (hold t').2
  · cases hp : (s.mu m).pending with
    | nil => rfl
    | cons t' r =>
      have h := hc.pd _ _ t' hk (by rw [hp]; exact List.mem_cons_self)
      have hne : t' ≠ t := by intro e; subst e; rw [hpc] at h; cases h
      have := alone t' hne
      rw [h] at this
      simp [onKey] at this
  · cases hq : (s.mu m).wq with
    | nil => rfl
    | cons t' r =>
      have h := hc.wq _ _ t' hk (by rw [hq]; exact List.mem_cons_self)
      have hne : t' ≠ t := by intro e; subst e; rw [hpc] at h; rcases h with h | h <;> cases h
      have := alone t' hne
      rcases h with h | h <;> rw [h] at this <;> simp [onKey] at this

/-- a key that nobody write-holds and on which no other goroutine is inside a call lets a reader in -/
theorem readable_of_alone {s : State} (hg : Good s) (hc : Conv s) {t k m : Nat} {kd : Kind}
    (hpc : s.pc t = .act kd k m)
    (hold : ∀ t', ¬ s.holdsW t' k)
    (alone : ∀ t', t' ≠ t → onKey k (s.pc t') = false) : Mu.readable (s.mu m) := by
  have hk := (act_ok (hg.thread t) hpc).1
  refine ⟨?_, ?_⟩
  · cases hw : (s.mu m).writer with
    | none => rfl
    | some t' => exact absurd (hc.wr _ _ _ hk hw) (hold t')
  · cases hp : (s.mu m).pending with
    | nil => rfl
    | cons t' r =>
      have h := hc.pd _ _ t' hk (by rw [hp]; exact List.mem_cons_self)
      have hne : t' ≠ t := by intro e; subst e; rw [hpc] at h; cases h
      have := alone t' hne
      rw [h] at this
      simp [onKey] at this

end TypVerif.Lemmas.KeyedMutex
