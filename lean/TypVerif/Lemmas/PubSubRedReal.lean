import TypVerif.Lemmas.PubSubRedAccept
/-
C10: the judge's real state sets (`Drv.C10.advance`: hash-set closure with step budget `fuel` and state cap `stateCap`) are contained in the
relational ones (`advR`/`afterR`: full closure), i.e. `Closes` really is "the closure without budget and cap" seen from above.
-/
namespace TypVerif.Lemmas.PubSubRed
open TypVerif TypVerif.Conc TypVerif.Model.PubSub TypVerif.Drv.C10 TypVerif.Lemmas.ConcAcceptC10

theorem closes_mono {cfg : Cfg} {seed seed' : State → Prop} (h : ∀ t, seed t → seed' t) {t : State} (ht : Closes cfg seed t) :
    Closes cfg seed' t := by
  induction ht with
  | base hs => exact Closes.base (h _ hs)
  | step _ hu ih => exact Closes.step ih hu

theorem advR_mono {cfg : Cfg} {S S' : State → Prop} (h : ∀ t, S t → S' t) (e : Event) {t : State} (ht : advR cfg S e t) : advR cfg S' e t :=
  closes_mono (fun _ ⟨s, hs, u, hu, e⟩ => ⟨s, h s hs, u, hu, e⟩) ht

theorem closure_sub_closes (cfg : Cfg) (seed : State → Prop) (n : Nat) (seen : Std.HashSet State) (fr : List State)
    (hseen : ∀ t, t ∈ seen → Closes cfg seed t) (hfr : ∀ t ∈ fr, Closes cfg seed t) :
    ∀ t, t ∈ closure cfg n seen fr → Closes cfg seed t :=
  closure_inv cfg (Closes cfg seed) (Closes cfg seed) (fun _ _ hq hu => ⟨Closes.step hq hu, Closes.step hq hu⟩) n seen fr hseen hfr

/-- one real judge step stays inside the relational one -/
theorem advance_sub_advR (cfg : Cfg) (ss : List State) (e : Event) : ∀ t ∈ advance cfg ss e, advR cfg (fun s => s ∈ ss) e t := by
  intro t ht
  unfold advance at ht
  simp only at ht
  rw [Std.HashSet.mem_toList] at ht
  have hseen : ∀ x, x ∈ (List.foldl (fun (acc : Std.HashSet State) s => acc.insert s) {}
      (ss.flatMap (fun s => (succ { cfg with env := [e] } s).filterMap
        (fun p => if p.1 == some e then some (norm p.2) else none)))) →
      Closes { cfg with env := [e] } (fun t => ∃ s, s ∈ ss ∧ ∃ u, (some e, u) ∈ succ { cfg with env := [e] } s ∧ t = norm u) x := by
    intro x hx
    have hx := mem_foldl_insert _ x hx
    obtain ⟨s, hs, hx⟩ := List.mem_flatMap.1 hx
    obtain ⟨p, hp, hpe⟩ := List.mem_filterMap.1 hx
    obtain ⟨l, x'⟩ := p
    split at hpe
    · rename_i heq
      have hl : l = some e := eq_of_beq heq
      subst hl
      simp only [Option.some.injEq] at hpe
      exact Closes.base ⟨s, hs, x', hp, hpe.symm⟩
    · cases hpe
  exact closure_sub_closes _ _ _ _ _ hseen (fun x hx => hseen x (Std.HashSet.mem_toList.1 hx)) t ht

/-- the real judge sets are contained in the relational ones -/
theorem judge_sub_afterR (cfg : Cfg) (tr : List Event) : ∀ t ∈ tr.foldl (advance cfg) [{}], afterR cfg tr t := by
  have key : ∀ (tr : List Event) (ss : List State) (S : State → Prop), (∀ t ∈ ss, S t) →
      ∀ t ∈ tr.foldl (advance cfg) ss, tr.foldl (advR cfg) S t := by
    intro tr
    induction tr with
    | nil => intro ss S h t ht; exact h t ht
    | cons e tr ih =>
      intro ss S h t ht
      rw [List.foldl_cons] at ht ⊢
      exact ih (advance cfg ss e) (advR cfg S e) (fun t ht => advR_mono h e (advance_sub_advR cfg ss e t ht)) t ht
  intro t ht
  exact key tr [{}] (fun t => t = {}) (fun t ht => List.mem_singleton.1 ht) t ht

end TypVerif.Lemmas.PubSubRed
