import TypVerif.Lemmas.SyncMapSteps2
/-
`dirtyLocked`: the loop that re-creates the dirty map after a promotion (expunging the deleted entries
of `read.m`), and the first new key stored afterwards.
-/
namespace TypVerif.Lemmas.SyncMap
open TypVerif.Model.SyncMap

set_option linter.unusedSectionVars false
set_option linter.unusedVariables false
set_option linter.unusedSimpArgs false

variable {K V : Type} [DecidableEq K]

def isVal : P V → Bool
  | .val _ => true
  | _ => false

theorem isVal_iff (p : P V) : isVal p = true ↔ ∃ v, p = .val v := by
  cases p <;> simp [isVal]

/-- what `dirtyLoop` computes -/
structure DirtyLoopSpec (s : State K V) (acc l : List (K × EId)) (s' : State K V) (d' : List (K × EId)) : Prop where
  dirty : s'.dirty = some d'
  read : s'.read = s.read
  amended : s'.amended = s.amended
  misses : s'.misses = s.misses
  fault : s'.fault = s.fault
  len : s'.entries.length = s.entries.length
  getP : ∀ e, getP s' e = if isNil (Model.SyncMap.getP s e) = true ∧ e ∈ l.map Prod.snd then .expunged else Model.SyncMap.getP s e
  nodup : (akeys acc).Nodup → (akeys d').Nodup
  look : ∀ k, alookup k d' = match alookup k l with
                             | some e => if isVal (Model.SyncMap.getP s e) then some e else alookup k acc
                             | none => alookup k acc

theorem setDirty_eq {s : State K V} {d : List (K × EId)} (hd : s.dirty = some d) (k : K) (e : EId) :
    setDirty s k e = { s with dirty := some (ainsert k e d) } := by
  unfold setDirty; simp only [hd]

theorem dirtyLoop_spec : ∀ (l : List (K × EId)) (s : State K V) (acc : List (K × EId)),
    s.dirty = some acc → (akeys l).Nodup → (∀ p ∈ l, p.2 < s.entries.length) →
    ∃ d', DirtyLoopSpec s acc l (dirtyLoop s l) d' := by
  intro l
  induction l with
  | nil =>
    intro s acc hd _ _
    refine ⟨acc, ?_⟩
    exact { dirty := hd, read := rfl, amended := rfl, misses := rfl, fault := rfl, len := rfl,
            getP := fun e => by simp [dirtyLoop], nodup := fun h => h, look := fun k => rfl }
  | cons p rest ih =>
    obtain ⟨k0, e0⟩ := p
    intro s acc hd hn hr
    have he0 : e0 < s.entries.length := hr (k0, e0) (List.mem_cons_self ..)
    simp only [akeys, List.map_cons, List.nodup_cons] at hn
    have hk0 : alookup k0 rest = none := (alookup_eq_none_iff k0 rest).mpr hn.1
    have hr' : ∀ p ∈ rest, p.2 < s.entries.length := fun p hp => hr p (List.mem_cons_of_mem _ hp)
    cases hp : Model.SyncMap.getP s e0 with
    | nil =>
      have hstep : dirtyLoop s ((k0, e0) :: rest) = dirtyLoop (setP s e0 .expunged) rest := by
        simp [dirtyLoop, tryExpungeLocked, hp]
      rw [hstep]
      obtain ⟨d', sp⟩ := ih (setP s e0 .expunged) acc hd hn.2 (by simpa using hr')
      refine ⟨d', ?_⟩
      have hg : ∀ e, Model.SyncMap.getP (setP s e0 .expunged) e = if e = e0 then .expunged else Model.SyncMap.getP s e :=
        fun e => getP_setP s e0 e .expunged he0
      exact
        { dirty := sp.dirty, read := sp.read, amended := sp.amended, misses := sp.misses, fault := sp.fault,
          len := by rw [sp.len, setP_length],
          getP := fun e => by
            rw [sp.getP, hg]
            by_cases h1 : e = e0
            · subst h1; simp [hp, isNil]
            · simp only [h1, if_false, List.map_cons, List.mem_cons, false_or]
          nodup := sp.nodup,
          look := fun k => by
            rw [sp.look, alookup_cons]
            by_cases h1 : k = k0
            · subst h1; simp [hk0, hp, isVal]
            · simp only [h1, if_false]
              cases alookup k rest with
              | none => rfl
              | some e =>
                simp only [hg]
                by_cases h2 : e = e0
                · subst h2; simp [hp, isVal]
                · simp [h2] }
    | expunged =>
      have hstep : dirtyLoop s ((k0, e0) :: rest) = dirtyLoop s rest := by
        simp [dirtyLoop, tryExpungeLocked, hp]
      rw [hstep]
      obtain ⟨d', sp⟩ := ih s acc hd hn.2 hr'
      refine ⟨d', ?_⟩
      exact
        { dirty := sp.dirty, read := sp.read, amended := sp.amended, misses := sp.misses, fault := sp.fault,
          len := sp.len,
          getP := fun e => by
            rw [sp.getP]
            by_cases h1 : e = e0
            · subst h1; simp [hp, isNil]
            · simp only [h1, if_false, List.map_cons, List.mem_cons, false_or]
          nodup := sp.nodup,
          look := fun k => by
            rw [sp.look, alookup_cons]
            by_cases h1 : k = k0
            · subst h1; simp [hk0, hp, isVal]
            · simp only [h1, if_false] }
    | val w =>
      have hstep : dirtyLoop s ((k0, e0) :: rest) = dirtyLoop { s with dirty := some (ainsert k0 e0 acc) } rest := by
        simp [dirtyLoop, tryExpungeLocked, hp, setDirty_eq hd]
      rw [hstep]
      obtain ⟨d', sp⟩ := ih { s with dirty := some (ainsert k0 e0 acc) } (ainsert k0 e0 acc) rfl hn.2 hr'
      refine ⟨d', ?_⟩
      have hg : ∀ e, Model.SyncMap.getP { s with dirty := some (ainsert k0 e0 acc) } e = Model.SyncMap.getP s e := fun _ => rfl
      exact
        { dirty := sp.dirty, read := sp.read, amended := sp.amended, misses := sp.misses, fault := sp.fault,
          len := sp.len,
          getP := fun e => by
            rw [sp.getP, hg]
            by_cases h1 : e = e0
            · subst h1; simp [hp, isNil]
            · simp only [h1, if_false, List.map_cons, List.mem_cons, false_or]
          nodup := fun h => sp.nodup (nodup_ainsert h),
          look := fun k => by
            rw [sp.look, alookup_cons, alookup_ainsert]
            by_cases h1 : k = k0
            · subst h1; simp [hk0, hp, isVal]
            · simp only [h1, if_false]; rfl }

/-- the state after `m.dirtyLocked(); m.read.Store(readOnly{m: read.m, amended: true})` on a clean map -/
def recreate (s : State K V) : State K V := { dirtyLocked s with amended := true }

structure RecreateSpec (s s1 : State K V) (d' : List (K × EId)) : Prop where
  dirty : s1.dirty = some d'
  amended : s1.amended = true
  fault : s1.fault = s.fault
  len : s1.entries.length = s.entries.length
  rd : ∀ k, rd s1 k = rd s k
  read : s1.read = s.read
  nodup : (akeys d').Nodup
  getP : ∀ e, getP s1 e = if isNil (Model.SyncMap.getP s e) = true ∧ e ∈ s.read.map Prod.snd then .expunged else Model.SyncMap.getP s e
  dt : ∀ k, dt s1 k = match Lemmas.SyncMap.rd s k with
                       | some e => if isVal (Model.SyncMap.getP s e) then some e else none
                       | none => none

theorem recreate_spec {s : State K V} (h : SeqInv s) (hd : s.dirty = none) :
    ∃ d', RecreateSpec s (recreate s) d' := by
  have hr : ∀ p ∈ s.read, p.2 < ({ s with dirty := some [] } : State K V).entries.length := by
    intro p hp
    exact h.readRange p.1 p.2 (alookup_of_mem h.readNodup hp)
  obtain ⟨d', sp⟩ := dirtyLoop_spec s.read { s with dirty := some [] } [] rfl h.readNodup hr
  have he : recreate s = { dirtyLoop { s with dirty := some [] } s.read with amended := true } := by
    unfold recreate dirtyLocked; simp only [hd]
  refine ⟨d', ?_⟩
  rw [he]
  exact
    { dirty := sp.dirty, amended := rfl, fault := sp.fault, len := sp.len,
      rd := fun k => by unfold Lemmas.SyncMap.rd; show alookup k (dirtyLoop _ _).read = _; rw [sp.read],
      read := sp.read,
      nodup := sp.nodup (by simp [akeys]),
      getP := fun e => sp.getP e,
      dt := fun k => by
        unfold Lemmas.SyncMap.dt dirtyMap
        show alookup k ((dirtyLoop _ _).dirty.getD []) = _
        rw [sp.dirty, Option.getD_some, sp.look]
        unfold Lemmas.SyncMap.rd
        cases alookup k s.read with
        | none => rfl
        | some e => simp only [alookup_nil]; rfl }

theorem SeqInv.recreate_ok {s : State K V} (h : SeqInv s) (hd : s.dirty = none) : SeqInv (recreate s) := by
  obtain ⟨d', sp⟩ := recreate_spec h hd
  have hdn : (recreate s).dirty ≠ none := by rw [sp.dirty]; intro h2; cases h2
  have hdt : ∀ k e, dt (recreate s) k = some e → rd s k = some e := by
    intro k e hk
    rw [sp.dt] at hk
    cases hr : rd s k with
    | none => rw [hr] at hk; cases hk
    | some e0 => rw [hr] at hk; simp only at hk; split at hk; exact hk; cases hk
  refine
    { nofault := by rw [sp.fault]; exact h.nofault,
      readNodup := by rw [sp.read]; exact h.readNodup,
      dirtyNodup := by unfold dirtyMap; rw [sp.dirty]; exact sp.nodup,
      readRange := fun k e hk => by rw [sp.len]; rw [sp.rd] at hk; exact h.readRange k e hk,
      dirtyRange := fun k e hk => by rw [sp.len]; exact h.readRange k e (hdt k e hk),
      s1 := fun h2 => absurd h2 hdn,
      s2 := ?_,
      s3 := fun h2 => absurd h2 hdn,
      s4 := fun ha => (by rw [sp.amended] at ha; cases ha),
      s5 := fun k e hr hk => (by rw [sp.rd] at hr; rw [hdt k e hk] at hr; cases hr),
      s6 := fun k1 k2 e h1 h2 => (by
        apply h.s6 k1 k2 e
        · left; rcases h1 with h1 | h1
          · rw [sp.rd] at h1; exact h1
          · exact hdt _ _ h1
        · left; rcases h2 with h2 | h2
          · rw [sp.rd] at h2; exact h2
          · exact hdt _ _ h2),
      s7 := fun _ => sp.amended }
  intro _ k e hk
  rw [sp.rd] at hk
  have hmem : e ∈ s.read.map Prod.snd := List.mem_map.mpr ⟨(k, e), mem_of_alookup hk, rfl⟩
  rw [sp.getP, sp.dt, hk]
  cases hp : Model.SyncMap.getP s e with
  | nil => simp [isNil, isVal, hmem, hp]
  | expunged => simp [isNil, isVal, hp]
  | val w => simp [isNil, isVal, hp]

theorem abs_recreate {s : State K V} (h : SeqInv s) (hd : s.dirty = none) (k : K) : abs (recreate s) k = abs s k := by
  obtain ⟨d', sp⟩ := recreate_spec h hd
  have ha := h.s1 hd
  have hc : cur (recreate s) k = cur s k := by
    unfold cur
    rw [sp.rd, sp.dt, sp.amended, ha]
    cases rd s k <;> simp
  have hl : ∀ e, loadEntry (recreate s) e = loadEntry s e := by
    intro e
    rw [loadEntry_eq, loadEntry_eq, sp.getP]
    cases hp : Model.SyncMap.getP s e with
    | nil => simp only [isNil, true_and]; split <;> rfl
    | expunged => simp [isNil]
    | val w => simp [isNil]
  unfold abs; rw [hc]
  cases cur s k with
  | none => rfl
  | some e => simp [hl]

theorem rd_recreate {s : State K V} (h : SeqInv s) (hd : s.dirty = none) (k : K) : rd (recreate s) k = rd s k := by
  obtain ⟨d', sp⟩ := recreate_spec h hd; exact sp.rd k

theorem dt_recreate_of_miss {s : State K V} (h : SeqInv s) (hd : s.dirty = none) {k : K} (hk : rd s k = none) :
    dt (recreate s) k = none := by
  obtain ⟨d', sp⟩ := recreate_spec h hd; rw [sp.dt, hk]

theorem recreate_dirty {s : State K V} (h : SeqInv s) (hd : s.dirty = none) : ∃ d', (recreate s).dirty = some d' := by
  obtain ⟨d', sp⟩ := recreate_spec h hd; exact ⟨d', sp.dirty⟩

/-! ### `storeNew` as a whole -/

theorem storeNew_amended {s : State K V} (ha : s.amended = true) (k : K) (v : V) :
    storeNew s k v = setDirty (newEntry s v).1 k (newEntry s v).2 := by
  unfold storeNew; simp [ha]

theorem storeNew_clean {s : State K V} (ha : s.amended = false) (k : K) (v : V) :
    storeNew s k v = setDirty (newEntry (recreate s) v).1 k (newEntry (recreate s) v).2 := by
  unfold storeNew recreate; simp [ha]

theorem SeqInv.storeNew_ok {s : State K V} (h : SeqInv s) {k : K} (v : V)
    (hk : rd s k = none) (hk2 : dt s k = none) : SeqInv (storeNew s k v) := by
  cases ha : s.amended with
  | true =>
    obtain ⟨d, hd⟩ := dirty_some_of_ne (h.dirty_of_amended ha)
    rw [storeNew_amended ha, addNew_eq hd]
    exact h.addNew_ok v hk hk2 hd
  | false =>
    have hd : s.dirty = none := by
      cases hd : s.dirty with
      | none => rfl
      | some d => have := h.s7 (by rw [hd]; intro h2; cases h2); rw [ha] at this; cases this
    obtain ⟨d', hd'⟩ := recreate_dirty h hd
    rw [storeNew_clean ha, addNew_eq hd']
    exact (h.recreate_ok hd).addNew_ok v (by rw [rd_recreate h hd]; exact hk) (dt_recreate_of_miss h hd hk) hd'

theorem abs_storeNew {s : State K V} (h : SeqInv s) {k : K} (v : V)
    (hk : rd s k = none) (k' : K) : abs (storeNew s k v) k' = if k' = k then some v else abs s k' := by
  cases ha : s.amended with
  | true =>
    obtain ⟨d, hd⟩ := dirty_some_of_ne (h.dirty_of_amended ha)
    rw [storeNew_amended ha, addNew_eq hd]
    exact abs_addNew h v hk hd k'
  | false =>
    have hd : s.dirty = none := by
      cases hd : s.dirty with
      | none => rfl
      | some d => have := h.s7 (by rw [hd]; intro h2; cases h2); rw [ha] at this; cases this
    obtain ⟨d', hd'⟩ := recreate_dirty h hd
    rw [storeNew_clean ha, addNew_eq hd']
    rw [abs_addNew (h.recreate_ok hd) v (by rw [rd_recreate h hd]; exact hk) hd' k', abs_recreate h hd]

end TypVerif.Lemmas.SyncMap
