import TypVerif.Lemmas.ObjComplete
/-
A trace-indexed form of the completeness of the atomic-object state-set step, for judges whose number of goroutines `n`
is not a function of the events alone (`Drv.ObjLin`: `inv t range` / `inv t len` lines raise `n` without stepping the set):

  `Full S n0 tr ss`: for EVERY execution of EVERY `AtomicObj.sys S menu N` from its initial state whose visible trace is
  `tr`, the goroutines `≥ n0` of the final state `s` are idle and the judge's state `proj n0 s` (first `n0` goroutines, same
  object, empty ghost log) is in `ss`.

`full_init`: `Full S n0 [] [init S n0]`;  `full_step`: one `stepObjF S fuel n` with `n0 ≤ n ≤ fuel` (and `t < n` if the event
is an invocation by goroutine `t`) takes `Full S n0 tr ss` to `Full S n (tr ++ [e]) (stepObjF S fuel n ss e)`.
-/
namespace TypVerif.Lemmas.ObjComplete
open TypVerif TypVerif.Conc TypVerif.Model.AtomicObj TypVerif.Lemmas.AtomicObj TypVerif.Lemmas.ObjAccept
open TypVerif.Lemmas.OnceRed (TauN tauClosure_complete stepEvent_complete mem_dedup)

/-- an execution whose visible trace ends with `e` splits at its last visible step -/
theorem exec_split_last {sys : Sys} {a b : sys.State} {ls : List (Option sys.Event)} (h : Exec sys a ls b) :
    ∀ (tr0 : List sys.Event) (e : sys.Event), visible ls = tr0 ++ [e] →
      ∃ (ls0 : List (Option sys.Event)) (s0 s1 : sys.State) (taus : List (Option sys.Event)),
        Exec sys a ls0 s0 ∧ visible ls0 = tr0 ∧ (some e, s1) ∈ sys.succ s0 ∧ Exec sys s1 taus b ∧ visible taus = [] := by
  induction h with
  | nil s => intro tr0 e hv; simp at hv
  | @cons s s' s'' l ls hm hrest ih =>
    intro tr0 e hv
    cases l with
    | none =>
      obtain ⟨ls0, s0, s1, taus, h0, hv0, hm1, h1, hv1⟩ := ih tr0 e (by simpa using hv)
      exact ⟨none :: ls0, s0, s1, taus, Exec.cons hm h0, by simpa using hv0, hm1, h1, hv1⟩
    | some e0 =>
      rw [visible_cons_some] at hv
      cases tr0 with
      | nil =>
        simp only [List.nil_append, List.cons.injEq] at hv
        obtain ⟨rfl, hv⟩ := hv
        exact ⟨[], s, s', ls, Exec.nil _, rfl, hm, hrest, hv⟩
      | cons x tr0 =>
        simp only [List.cons_append, List.cons.injEq] at hv
        obtain ⟨rfl, hv⟩ := hv
        obtain ⟨ls0, s0, s1, taus, h0, hv0, hm1, h1, hv1⟩ := ih tr0 e hv
        exact ⟨some e0 :: ls0, s0, s1, taus, Exec.cons hm h0, by simp [hv0], hm1, h1, hv1⟩

section Judge
variable (S : Spec)

/-- internal steps keep the goroutines `≥ n` idle -/
theorem idle_tauN (menu : List S.Op) (N n : Nat) {k : Nat} {s s' : (sys S menu N).State}
    (h : TauN (sys S menu N) k s s') : IdleFrom n s → IdleFrom n s' := by
  induction h with
  | refl k s => exact id
  | @step k s s1 s2 hm _ ih => exact fun hi => ih (idle_step hm hi (fun t op hl => by cases hl))

variable [DecidableEq S.σ] [DecidableEq S.Op] [DecidableEq S.Res]

/-- **one step of the judge loses nothing**: if the judge's state for `s` (with `n0` goroutines) is in `ss`, then after a
visible step `e` of `s` and any number of internal steps, the judge's state for the result (with `n` goroutines,
`n0 ≤ n ≤ fuel`) is in `stepObjF S fuel n ss e` -/
theorem stepObjF_complete (fuel : Nat) (menu : List S.Op) (N n0 n : Nat) (hn : n0 ≤ n) (hf : n ≤ fuel)
    {ss : List (State S.σ S.Op S.Res)} {s s1 s' : State S.σ S.Op S.Res} {e : Event S.Op S.Res} {k : Nat}
    (hm : (some e, s1) ∈ succ S.apply menu s) (hi : IdleFrom n0 s) (he : ∀ t op, e = .inv t op → t < n)
    (h0 : proj n0 s ∈ ss) (ht : TauN (sys S menu N) k s1 s') : proj n s' ∈ stepObjF S fuel n ss e := by
  have hin : IdleFrom n s := idleFrom_mono hi hn
  have h0' : padObj n (proj n0 s) ∈ ss.map (padObj n) := List.mem_map.2 ⟨proj n0 s, h0, rfl⟩
  rw [padObj_proj hn hi] at h0'
  obtain ⟨x1, hx1, hr1⟩ := lift_step (menu' := evMenu e) hm (rel_proj n s) hin (by
    intro t op hl
    injection hl with hl
    subst hl
    exact ⟨he t op rfl, List.mem_singleton.2 rfl⟩)
  have hi1 : IdleFrom n s1 := idle_step hm hin (by
    intro t op hl
    injection hl with hl
    exact he t op hl)
  obtain ⟨x', htx, hr'⟩ := lift_tau S menu (evMenu e) N n ht x1 hr1 hi1
  have hb := tauN_bound S (evMenu e) n htx
  have hlen : x1.pcs.length = n := by rw [hr1.1, view_length]
  have hk : pend x1.pcs ≤ fuel := by
    have := pend_le_length x1.pcs
    omega
  have hmem : x' ∈ Conc.stepEvent (sys S (evMenu e) n) fuel (ss.map (padObj n)) e :=
    stepEvent_complete (sys S (evMenu e) n) fuel _ e (proj n s) x1 x' _ h0' hx1 hb hk
  rw [stepObjF_eq, ← eraseLog_of_rel hr']
  exact mem_dedup (List.mem_map.2 ⟨x', hmem, rfl⟩)

/-- the state set `ss` (judge working with `n0` goroutines) contains the judge's state of every state that any
atomic-object system can be in after exhibiting `tr` -/
def Full (n0 : Nat) (tr : List (Event S.Op S.Res)) (ss : List (State S.σ S.Op S.Res)) : Prop :=
  ∀ (N : Nat) (menu : List S.Op) (ls : List (Option (Event S.Op S.Res))) (s : State S.σ S.Op S.Res),
    Exec (sys S menu N) (init S N) ls s → visible ls = tr → IdleFrom n0 s ∧ proj n0 s ∈ ss

omit [DecidableEq S.σ] [DecidableEq S.Op] [DecidableEq S.Res] in
theorem full_init (n0 : Nat) : Full S n0 [] [init S n0] := by
  intro N menu ls s hex hv
  have ht := TauN.of_exec hex hv
  have hb := tauN_bound S menu N ht
  rw [pend_init] at hb
  rw [tauN_zero hb rfl, proj_init]
  exact ⟨idleFrom_init S n0 N, List.mem_singleton.2 rfl⟩

theorem full_step (fuel n0 n : Nat) (hn : n0 ≤ n) (hf : n ≤ fuel) {tr : List (Event S.Op S.Res)}
    {ss : List (State S.σ S.Op S.Res)} (e : Event S.Op S.Res) (he : ∀ t op, e = .inv t op → t < n)
    (h : Full S n0 tr ss) : Full S n (tr ++ [e]) (stepObjF S fuel n ss e) := by
  intro N menu ls s hex hv
  obtain ⟨ls0, s0, s1, taus, h0, hv0, hm, h1, hv1⟩ := exec_split_last hex tr e hv
  obtain ⟨hi0, hmem0⟩ := h N menu ls0 s0 h0 hv0
  have ht := TauN.of_exec h1 hv1
  have hi1 : IdleFrom n s1 := idle_step hm (idleFrom_mono hi0 hn) (by
    intro t op hl
    injection hl with hl
    exact he t op hl)
  exact ⟨idle_tauN S menu N n ht hi1, stepObjF_complete S fuel menu N n0 n hn hf hm hi0 he hmem0 ht⟩

omit [DecidableEq S.σ] in
/-- a full state set is non-empty on every linearizable history -/
theorem full_nonempty {n0 : Nat} {tr : List (Event S.Op S.Res)} {ss : List (State S.σ S.Op S.Res)}
    (h : Full S n0 tr ss) (hl : Linearizable S tr) : ss ≠ [] := by
  obtain ⟨N, menu, ls, s, hex, hv⟩ := exec_of_linearizable S hl
  have := (h N menu ls s hex hv).2
  intro h0
  rw [h0] at this
  cases this

end Judge

end TypVerif.Lemmas.ObjComplete

#print axioms TypVerif.Lemmas.ObjComplete.full_init
#print axioms TypVerif.Lemmas.ObjComplete.full_step
#print axioms TypVerif.Lemmas.ObjComplete.full_nonempty
