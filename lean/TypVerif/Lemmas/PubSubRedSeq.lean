import TypVerif.Lemmas.PubSubRedLag
/-
C10, completeness of the judge's reduction: sequences of lag steps.
-/
set_option linter.unusedSectionVars false
namespace TypVerif.Lemmas.PubSubRed
open TypVerif TypVerif.Conc TypVerif.Model.PubSub TypVerif.Drv.C10

/-- `s` is reached from `x` by the lag steps listed (task, kind), in this order -/
inductive Lag : List (Nat × LK) → State → State → Prop
  | nil (x : State) : Lag [] x x
  | cons {x y s : State} {g : Nat} {κ : LK} {gs : List (Nat × LK)} : LagStep x g κ y → Lag gs y s → Lag ((g, κ) :: gs) x s

theorem lag_snoc {gs : List (Nat × LK)} {j s s' : State} {g : Nat} {κ : LK} (h : Lag gs j s) (hl : LagStep s g κ s') :
    Lag (gs ++ [(g, κ)]) j s' := by
  induction h with
  | nil x => exact Lag.cons hl (Lag.nil _)
  | cons h1 _ ih => exact Lag.cons h1 (ih hl)

theorem lagStep_flags {x y : State} {g : Nat} {κ : LK} (h : LagStep x g κ y) : y.exited = x.exited ∧ y.panicked = x.panicked := by
  rw [h.eq]; exact ⟨rfl, rfl⟩

theorem lag_flags {gs : List (Nat × LK)} {j s : State} (h : Lag gs j s) : s.exited = j.exited ∧ s.panicked = j.panicked := by
  induction h with
  | nil x => exact ⟨rfl, rfl⟩
  | cons h1 _ ih => exact ⟨ih.1.trans (lagStep_flags h1).1, ih.2.trans (lagStep_flags h1).2⟩

theorem lagStep_glt {x y : State} {g : Nat} {κ : LK} (h : LagStep x g κ y) : g < x.tasks.length := by
  rcases Nat.lt_or_ge g x.tasks.length with hlt | hge
  · exact hlt
  · have := h.task; rw [List.getElem?_eq_none hge] at this; cases this

theorem lagStep_task_ne {x y : State} {g : Nat} {κ : LK} (h : LagStep x g κ y) {k : Nat} (hk : k ≠ g) : y.tasks[k]? = x.tasks[k]? := by
  rw [h.eq]; exact lagT_task_ne _ _ _ _ _ _ hk

theorem lagStep_task_self {x y : State} {g : Nat} {κ : LK} (h : LagStep x g κ y) : y.tasks[g]? = some κ.tgt := by
  rw [h.eq]; exact lagT_task_self _ _ _ _ _ (lagStep_glt h)

theorem lag_task_ne {gs : List (Nat × LK)} {j s : State} (h : Lag gs j s) {k : Nat} (hk : k ∉ gs.map Prod.fst) : s.tasks[k]? = j.tasks[k]? := by
  induction h with
  | nil x => rfl
  | cons h1 _ ih =>
    simp only [List.map_cons, List.mem_cons, not_or] at hk
    rw [ih hk.2, lagStep_task_ne h1 hk.1]

theorem LK.lagObj_tgt (κ : LK) (h : κ.wf) : lagObj κ.tgt = none := by
  cases κ with
  | rd o it => rfl
  | ann o t t1 =>
    rcases annOf_cases h with ⟨c', cap, rfl, rfl⟩ | ⟨u, c', rfl, rfl⟩ | ⟨u, rfl, rfl⟩ <;> rfl

theorem LK.annOf_tgt (κ : LK) (h : κ.wf) : annOf κ.tgt = none := by
  cases κ with
  | rd o it => rfl
  | ann o t t1 =>
    rcases annOf_cases h with ⟨c', cap, rfl, rfl⟩ | ⟨u, c', rfl, rfl⟩ | ⟨u, rfl, rfl⟩ <;> rfl

/-- a task that cannot lag does not occur in a lag sequence -/
theorem lag_not_mem {gs : List (Nat × LK)} {y s : State} (h : Lag gs y s) {g : Nat} {t : Task} (ht : y.tasks[g]? = some t)
    (hn : lagObj t = none) : g ∉ gs.map Prod.fst := by
  induction h with
  | nil x => simp
  | @cons x y s g1 κ1 gs h1 _ ih =>
    simp only [List.map_cons, List.mem_cons, not_or]
    have hne : g ≠ g1 := by
      intro e
      subst e
      rw [h1.task] at ht
      injection ht with ht
      rw [← ht, κ1.lagObj_src h1.wf] at hn
      cases hn
    exact ⟨hne, ih (by rw [lagStep_task_ne h1 hne]; exact ht)⟩

theorem lag_task_mem {gs : List (Nat × LK)} {j s : State} (h : Lag gs j s) {k : Nat} {κ : LK} (hk : (k, κ) ∈ gs) :
    s.tasks[k]? = some κ.tgt := by
  induction h with
  | nil x => cases hk
  | cons h1 h2 ih =>
    rcases List.mem_cons.1 hk with e | hk'
    · injection e with e1 e2
      subst e1; subst e2
      have := lag_not_mem h2 (lagStep_task_self h1) (κ.lagObj_tgt h1.wf)
      rw [lag_task_ne h2 this]
      exact lagStep_task_self h1
    · exact ih hk'

theorem lagStep_readers_le {x y : State} {g : Nat} {κ : LK} (h : LagStep x g κ y) (o : Nat) :
    (x.obj o).rw.readers ≤ (y.obj o).rw.readers := by
  rw [h.eq, lagT_obj _ _ _ _ _ h.inr]
  split
  · rename_i e; subst e
    cases κ <;> simp [LK.f, rwMap, RW.rlock, RW.announce]
  · exact Nat.le_refl _

theorem lagStep_readers_rd {x y : State} {g : Nat} {κ : LK} (h : LagStep x g κ y) (hk : ¬ κ.annOK) :
    0 < (y.obj κ.obj).rw.readers := by
  rw [h.eq, lagT_obj_self _ _ _ _ _ h.inr]
  cases κ with
  | rd o it => simp [LK.f, rwMap, RW.rlock]
  | ann o t t1 => exact absurd trivial hk

theorem lag_readers_le {gs : List (Nat × LK)} {j s : State} (h : Lag gs j s) (o : Nat) :
    (j.obj o).rw.readers ≤ (s.obj o).rw.readers := by
  induction h with
  | nil x => exact Nat.le_refl _
  | cons h1 _ ih => exact Nat.le_trans (lagStep_readers_le h1 o) ih

theorem lagStep_succ (cfg : Cfg) {x y : State} {g : Nat} {κ : LK} (h : LagStep x g κ y) (hex : x.exited = false) (hp : x.panicked = none) :
    (none, y) ∈ succ cfg x :=
  (mem_succ_iff cfg x hex hp _).2 ⟨some g, lagStep_taskSteps cfg h⟩

/-- moving a step of a source that is not among the lagging tasks (and is not a writer about to announce) to the left of a whole
lag sequence -/
theorem lag_move (cfg : Cfg) (hG : ∀ x, Reachable (sys cfg) x → Good x) {gs : List (Nat × LK)} {j s z : State} {l : Option Event}
    (h : Lag gs j s) (hr : Reachable (sys cfg) j) (hex : j.exited = false) (hp : j.panicked = none)
    (src : Option Nat) (hsrc : ∀ k, src = some k → k ∉ gs.map Prod.fst ∧ ∀ tk, j.tasks[k]? = some tk → annOf tk = none)
    (hz : (l, z) ∈ stepsOf cfg s src) : ∃ j', (l, j') ∈ stepsOf cfg j src ∧ Lag gs j' z := by
  induction h with
  | nil x => exact ⟨z, hz, Lag.nil _⟩
  | @cons x y s g κ gs h1 h2 ih =>
    have hry : Reachable (sys cfg) y := Reachable.step hr (lagStep_succ cfg h1 hex hp)
    have hfl := lagStep_flags h1
    have hsrc' : ∀ k, src = some k → k ∉ gs.map Prod.fst ∧ ∀ tk, y.tasks[k]? = some tk → annOf tk = none := by
      intro k hk
      have := hsrc k hk
      simp only [List.map_cons, List.mem_cons, not_or] at this
      refine ⟨this.1.2, ?_⟩
      rw [lagStep_task_ne h1 this.1.1]; exact this.2
    obtain ⟨y', hy', hlag⟩ := ih hry (hfl.1.trans hex) (hfl.2.trans hp) hsrc' hz
    have hne : src ≠ some g := by
      intro e
      have := (hsrc g e).1
      simp at this
    obtain ⟨x', hx', hl'⟩ := stepsOf_lag cfg (hG x hr) h1 src hne (fun k tk hk htk _ => (hsrc k hk).2 tk htk) hy'
    exact ⟨x', hx', Lag.cons hl' hlag⟩

/-- two lag steps of different tasks commute, except that a read lock cannot be taken after an announcement on the same object -/
theorem lag_swap {x y z : State} {g g' : Nat} {κ κ' : LK} (h1 : LagStep x g κ y) (h2 : LagStep y g' κ' z) (hne : g ≠ g')
    (hside : κ.annOK ∨ ¬ κ'.annOK ∨ κ.obj ≠ κ'.obj) :
    ∃ y', LagStep x g' κ' y' ∧ LagStep y' g κ z := by
  have hy := h1.eq
  subst hy
  have hinr' : κ'.obj < x.objs.length := by simpa using h2.inr
  have hstep' : LagStep x g' κ' (lagT κ'.obj κ'.f g' κ'.tgt x) := by
    refine ⟨h2.wf, hinr', ?_, ?_, rfl⟩
    · rw [← lagT_task_ne _ _ _ _ _ _ (Ne.symm hne)]; exact h2.task
    · have hq := h2.q
      rw [lagT_obj _ _ _ _ _ h1.inr] at hq
      split at hq
      · rename_i e
        rw [e]
        cases κ' with
        | rd o' it' => exact ⟨κ.fok.crl _ hq.1, hq.2⟩
        | ann o' t t1 => trivial
      · exact hq
  refine ⟨_, hstep', ?_⟩
  refine ⟨h1.wf, by simpa using h1.inr, ?_, ?_, ?_⟩
  · rw [lagT_task_ne _ _ _ _ _ _ hne]; exact h1.task
  · have hq := h1.q
    rw [lagT_obj _ _ _ _ _ hinr']
    split
    · rename_i e
      cases κ with
      | ann o t t1 => trivial
      | rd o it =>
        cases κ' with
        | rd o' it' =>
          simp only [LK.obj] at e
          subst e
          exact hq
        | ann o' t t1 =>
          rcases hside with h | h | h
          · exact h.elim
          · exact absurd trivial h
          · exact absurd e h
    · exact hq
  · rw [h2.eq]
    show (updObj κ'.obj (rwMap κ'.f) (lagT κ.obj κ.f g κ.tgt x)).setTask g' κ'.tgt = _
    rw [lagT_updObj _ _ _ _ _ _ _ h1.inr, lagT_setTask _ _ _ _ _ _ _ (Ne.symm hne)]
    · rfl
    · intro _
      cases κ <;> cases κ' <;> rfl

/-- the lag step of one of the lagging tasks can be moved to the front (for an announcement: if no read lock is held at the end) -/
theorem lag_front {gs : List (Nat × LK)} {j s : State} (h : Lag gs j s) {g : Nat} {κ : LK} (hm : (g, κ) ∈ gs)
    (hside : ¬ κ.annOK ∨ (s.obj κ.obj).rw.readers = 0) :
    ∃ x gs', LagStep j g κ x ∧ Lag gs' x s ∧ g ∉ gs'.map Prod.fst := by
  induction h with
  | nil x => cases hm
  | @cons x y s g1 κ1 gs h1 h2 ih =>
    have hg1 : g1 ∉ gs.map Prod.fst := lag_not_mem h2 (lagStep_task_self h1) (κ1.lagObj_tgt h1.wf)
    rcases List.mem_cons.1 hm with e | hm'
    · injection e with e1 e2
      subst e1; subst e2
      exact ⟨y, gs, h1, h2, hg1⟩
    · obtain ⟨x1, gs1, hl1, hlag1, hn1⟩ := ih hm' hside
      have hne : g1 ≠ g := by
        intro e
        subst e
        exact hg1 (List.mem_map.2 ⟨(g1, κ), hm', rfl⟩)
      have hs : κ1.annOK ∨ ¬ κ.annOK ∨ κ1.obj ≠ κ.obj := by
        by_cases ha1 : κ1.annOK
        · exact Or.inl ha1
        · by_cases ha : κ.annOK
          · refine Or.inr (Or.inr ?_)
            intro e
            rcases hside with h | h
            · exact h ha
            · have h3 := lagStep_readers_rd h1 ha1
              have h4 := lag_readers_le h2 κ1.obj
              rw [e] at h3 h4
              omega
          · exact Or.inr (Or.inl ha)
      obtain ⟨y', ha, hb⟩ := lag_swap h1 hl1 hne hs
      refine ⟨y', (g1, κ1) :: gs1, ha, Lag.cons hb hlag1, ?_⟩
      simp only [List.map_cons, List.mem_cons, not_or]
      exact ⟨Ne.symm hne, hn1⟩

end TypVerif.Lemmas.PubSubRed
