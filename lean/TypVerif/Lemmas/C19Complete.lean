import TypVerif.Lemmas.ConcAccept
import TypVerif.Lemmas.OnceRedClosure
import TypVerif.Lemmas.C19Accept
/-
Completeness of the outcome enumeration of the timed-helper lines of the judge `Drv/C19.lean`.

Every step of `sendSys p` / `recvSys p` is internal and strictly decreases a natural-number measure
(`mS` / `mR`: rank of the helper's program counter + "timer / context not fired yet" + peers' receive budget + number of values
the peers still send (+ "channel still open" on the receive side, where the environment may close it once)).  Hence every
execution from the initial state has at most `boundS p = 5 + p.peerRecvs + p.peerSends.length` (send) resp.
`boundR p = 6 + p.peerRecvs + p.peerSends.length` (receive) steps, the fuel-bounded closure `Conc.tauClosure` with at least that
much fuel contains every reachable state, and the enumeration `sendOutcomes` / `recvOutcomes` loses no outcome.
For the judge's scenarios the bounds are `≤ 6` resp. `≤ 7`; the driver's fuel is 64.
-/
namespace TypVerif.Lemmas.C19Complete
open TypVerif TypVerif.Conc TypVerif.Model.Chan TypVerif.Model.ChanHelpers TypVerif.Drv.C19 TypVerif.Proto
open TypVerif.Lemmas.OnceRed (TauN tauClosure_complete)

/-! ### `dedup` keeps every element (lawful `BEq`) -/

theorem dfold_acc {α : Type} [BEq α] (xs : List α) : ∀ (acc : List α) (y : α), y ∈ acc →
    y ∈ xs.foldl (fun acc x => if acc.contains x then acc else acc ++ [x]) acc := by
  induction xs with
  | nil => intro acc y h; exact h
  | cons x xs ih =>
    intro acc y h
    rw [List.foldl_cons]
    apply ih
    split
    · exact h
    · exact List.mem_append_left _ h

theorem dfold_mem {α : Type} [BEq α] [LawfulBEq α] (xs : List α) : ∀ (acc : List α) (y : α), y ∈ xs →
    y ∈ xs.foldl (fun acc x => if acc.contains x then acc else acc ++ [x]) acc := by
  induction xs with
  | nil => intro acc y h; cases h
  | cons x xs ih =>
    intro acc y h
    rw [List.foldl_cons]
    rcases List.mem_cons.1 h with rfl | h
    · apply dfold_acc
      split
      · rename_i hc; exact List.contains_iff_mem.1 hc
      · simp
    · exact ih _ y h

theorem mem_dedup {α : Type} [BEq α] [LawfulBEq α] {xs : List α} {x : α} (h : x ∈ xs) : x ∈ dedup xs :=
  dfold_mem xs [] x h

theorem nodup_single {α : Type} (a : α) : [a].Nodup :=
  List.Pairwise.cons (by intro _ h; cases h) List.Pairwise.nil

/-! ### the measures -/

def rankS : SPc → Nat
  | .start => 4
  | .blk => 3
  | .sel => 3
  | .wait => 2
  | .stop => 1
  | .done _ => 0

def mS (s : SState) : Nat := rankS s.pc + (if s.fired then 0 else 1) + s.budget + s.supply.length

def rankR : RPc → Nat
  | .start => 4
  | .blk => 3
  | .sel => 3
  | .wait => 2
  | .stop _ _ => 1
  | .done _ _ => 0

def mR (s : RState) : Nat :=
  rankR s.pc + (if s.fired then 0 else 1) + s.budget + s.supply.length + (if s.ch.closed then 0 else 1)

def boundS (p : Params) : Nat := 5 + p.peerRecvs + p.peerSends.length
def boundR (p : Params) : Nat := 6 + p.peerRecvs + p.peerSends.length

theorem mS_init (p : Params) : mS (initS p) ≤ boundS p := by
  unfold mS boundS initS rankS
  simp only
  split <;> omega

theorem mR_init (p : Params) : mR (initR p) ≤ boundR p := by
  unfold mR boundR initR rankR
  simp only
  split <;> split <;> omega

theorem rank_sendNext (p : Params) (pc : SPc) (h : pc = .blk ∨ pc = .sel ∨ pc = .wait) :
    rankS (sendNext p pc) < rankS pc := by
  rcases h with h | h | h <;> subst h <;> unfold sendNext <;> cases p.mode <;> simp [rankS]

theorem rank_recvNext (p : Params) (pc : RPc) (v : Int) (ok : Bool) (h : pc = .blk ∨ pc = .sel ∨ pc = .wait) :
    rankR (recvNext p pc v ok) < rankR pc := by
  rcases h with h | h | h <;> subst h <;> unfold recvNext <;> cases p.mode <;> simp [rankR]

theorem peerRecvOkS_budget {p : Params} {s : SState} (h : peerRecvOkS p s = true) : 0 < s.budget := by
  unfold peerRecvOkS at h
  simp only [Bool.and_eq_true, decide_eq_true_eq] at h
  exact h.1

theorem handoffOkS_budget {p : Params} {s : SState} (h : handoffOkS p s = true) : 0 < s.budget := by
  unfold handoffOkS at h
  simp only [Bool.and_eq_true] at h
  exact peerRecvOkS_budget h.2

theorem peerRecvOkR_budget {p : Params} {s : RState} (h : peerRecvOkR p s = true) : 0 < s.budget := by
  unfold peerRecvOkR at h
  simp only [Bool.and_eq_true, decide_eq_true_eq] at h
  exact h.1

theorem handoffOkR_budget {p : Params} {s : RState} (h : handoffOkR p s = true) : 0 < s.budget := by
  unfold handoffOkR at h
  simp only [Bool.and_eq_true] at h
  exact peerRecvOkR_budget h.2

theorem fireOk_fired {p : Params} {a f w : Bool} (h : fireOk p a f w = true) : f = false := by
  unfold fireOk at h
  cases f
  · rfl
  · simp at h

/-! ### send side: every step is internal and decreases `mS` -/

theorem sendAlts_dec (p : Params) (s : SState) (hpc : s.pc = .blk ∨ s.pc = .sel ∨ s.pc = .wait) :
    ∀ x ∈ sendAlts p s, x.1 = none ∧ mS x.2 < mS s := by
  intro x hx
  have hr := rank_sendNext p s.pc hpc
  unfold sendAlts at hx
  rcases List.mem_append.1 hx with hx | hx
  · split at hx
    · rw [List.mem_singleton.1 hx]
      refine ⟨rfl, ?_⟩
      simp only [mS]
      omega
    · cases hx
  · split at hx
    · rename_i hh
      have := handoffOkS_budget hh
      rw [List.mem_singleton.1 hx]
      refine ⟨rfl, ?_⟩
      simp only [mS]
      omega
    · cases hx

theorem timerAltS_dec (s : SState) (hpc : s.pc = .sel ∨ s.pc = .wait) :
    ∀ x ∈ timerAltS s, x.1 = none ∧ mS x.2 < mS s := by
  intro x hx
  unfold timerAltS at hx
  split at hx
  · rw [List.mem_singleton.1 hx]
    refine ⟨rfl, ?_⟩
    simp only [mS]
    rcases hpc with h | h <;> rw [h] <;> simp [rankS]
  · cases hx

theorem succS_dec (p : Params) (s s' : SState) (l : Option Unit) (h : (l, s') ∈ succS p s) :
    l = none ∧ mS s' < mS s := by
  unfold succS at h
  rcases List.mem_append.1 h with h | h
  · unfold stepSH at h
    split at h
    · rename_i hpc
      split at h
      · split at h <;> (rw [List.mem_singleton] at h; cases h; refine ⟨rfl, ?_⟩; simp only [mS, hpc, rankS]; omega)
      · rw [List.mem_singleton] at h; cases h; refine ⟨rfl, ?_⟩; simp only [mS, hpc, rankS]; omega
    · rename_i hpc
      exact sendAlts_dec p s (Or.inl hpc) _ h
    · rename_i hpc
      rcases List.mem_append.1 h with h | h
      · rcases List.mem_append.1 h with h | h
        · exact sendAlts_dec p s (Or.inr (Or.inl hpc)) _ h
        · exact timerAltS_dec s (Or.inl hpc) _ h
      · split at h
        · cases h
        · rw [List.mem_singleton] at h; cases h; refine ⟨rfl, ?_⟩; simp only [mS, hpc, rankS]; omega
    · rename_i hpc
      rcases List.mem_append.1 h with h | h
      · exact sendAlts_dec p s (Or.inr (Or.inr hpc)) _ h
      · exact timerAltS_dec s (Or.inr hpc) _ h
    · rename_i hpc
      rw [List.mem_singleton] at h; cases h; refine ⟨rfl, ?_⟩; simp only [mS, hpc, rankS]; omega
    · cases h
  · unfold envS at h
    rcases List.mem_append.1 h with h | h
    · rcases List.mem_append.1 h with h | h
      · split at h
        · rename_i hf
          have hff := fireOk_fired hf
          rw [List.mem_singleton] at h; cases h
          refine ⟨rfl, ?_⟩
          simp only [mS, hff]
          simp
        · cases h
      · split at h
        · split at h
          · rename_i hok
            have := peerRecvOkS_budget hok
            rw [List.mem_singleton] at h; cases h
            refine ⟨rfl, ?_⟩
            simp only [mS]
            omega
          · cases h
        · cases h
    · split at h
      · rename_i v vs hsup
        rcases List.mem_append.1 h with h | h
        · split at h
          · rw [List.mem_singleton] at h; cases h
            refine ⟨rfl, ?_⟩
            simp only [mS, hsup, List.length_cons]
            omega
          · cases h
        · split at h
          · rw [List.mem_singleton] at h; cases h
            refine ⟨rfl, ?_⟩
            simp only [mS, hsup, List.length_cons]
            omega
          · cases h
      · cases h

/-! ### receive side -/

theorem recv_closed (c : Chan) : c.recv.2.closed = c.closed := by
  unfold Chan.recv
  split <;> rfl

theorem recvAlts_dec (p : Params) (s : RState) (hpc : s.pc = .blk ∨ s.pc = .sel ∨ s.pc = .wait) :
    ∀ x ∈ recvAlts p s, x.1 = none ∧ mR x.2 < mR s := by
  intro x hx
  unfold recvAlts at hx
  rcases List.mem_append.1 hx with hx | hx
  · split at hx
    · have hr := rank_recvNext p s.pc s.ch.recv.1.1 s.ch.recv.1.2 hpc
      rw [List.mem_singleton.1 hx]
      refine ⟨rfl, ?_⟩
      simp only [mR, recv_closed]
      omega
    · cases hx
  · split at hx
    · rename_i v vs hsup
      split at hx
      · have hr := rank_recvNext p s.pc v true hpc
        rw [List.mem_singleton.1 hx]
        refine ⟨rfl, ?_⟩
        simp only [mR, hsup, List.length_cons]
        omega
      · cases hx
    · cases hx

theorem timerAltR_dec (s : RState) (hpc : s.pc = .sel ∨ s.pc = .wait) :
    ∀ x ∈ timerAltR s, x.1 = none ∧ mR x.2 < mR s := by
  intro x hx
  unfold timerAltR at hx
  split at hx
  · rw [List.mem_singleton.1 hx]
    refine ⟨rfl, ?_⟩
    simp only [mR]
    rcases hpc with h | h <;> rw [h] <;> simp [rankR]
  · cases hx

theorem succR_dec (p : Params) (s s' : RState) (l : Option Unit) (h : (l, s') ∈ succR p s) :
    l = none ∧ mR s' < mR s := by
  unfold succR at h
  rcases List.mem_append.1 h with h | h
  · unfold stepRH at h
    split at h
    · rename_i hpc
      split at h
      · split at h <;> (rw [List.mem_singleton] at h; cases h; refine ⟨rfl, ?_⟩; simp only [mR, hpc, rankR]; omega)
      · rw [List.mem_singleton] at h; cases h; refine ⟨rfl, ?_⟩; simp only [mR, hpc, rankR]; omega
    · rename_i hpc
      exact recvAlts_dec p s (Or.inl hpc) _ h
    · rename_i hpc
      rcases List.mem_append.1 h with h | h
      · rcases List.mem_append.1 h with h | h
        · exact recvAlts_dec p s (Or.inr (Or.inl hpc)) _ h
        · exact timerAltR_dec s (Or.inl hpc) _ h
      · split at h
        · cases h
        · rw [List.mem_singleton] at h; cases h; refine ⟨rfl, ?_⟩; simp only [mR, hpc, rankR]; omega
    · rename_i hpc
      rcases List.mem_append.1 h with h | h
      · exact recvAlts_dec p s (Or.inr (Or.inr hpc)) _ h
      · exact timerAltR_dec s (Or.inr hpc) _ h
    · rename_i v ok hpc
      rw [List.mem_singleton] at h; cases h; refine ⟨rfl, ?_⟩; simp only [mR, hpc, rankR]; omega
    · cases h
  · unfold envR at h
    rcases List.mem_append.1 h with h | h
    · rcases List.mem_append.1 h with h | h
      · rcases List.mem_append.1 h with h | h
        · split at h
          · rename_i hf
            have hff := fireOk_fired hf
            rw [List.mem_singleton] at h; cases h
            refine ⟨rfl, ?_⟩
            simp only [mR, hff]
            simp
          · cases h
        · split at h
          · split at h
            · rename_i hok
              have := peerRecvOkR_budget hok
              rw [List.mem_singleton] at h; cases h
              refine ⟨rfl, ?_⟩
              simp only [mR]
              omega
            · cases h
          · cases h
      · split at h
        · rename_i v vs hsup
          rcases List.mem_append.1 h with h | h
          · split at h
            · rw [List.mem_singleton] at h; cases h
              refine ⟨rfl, ?_⟩
              have hcs : (s.ch.send v).closed = s.ch.closed := rfl
              simp only [mR, hsup, List.length_cons, hcs]
              omega
            · cases h
          · split at h
            · rw [List.mem_singleton] at h; cases h
              refine ⟨rfl, ?_⟩
              simp only [mR, hsup, List.length_cons]
              omega
            · cases h
        · cases h
    · split at h
      · rename_i hc
        have hcl : s.ch.closed = false := by
          simp only [Bool.and_eq_true, Bool.not_eq_true'] at hc
          exact hc.2
        rw [List.mem_singleton] at h; cases h
        refine ⟨rfl, ?_⟩
        simp only [mR, Chan.close, hcl]
        simp
      · cases h

/-! ### executions are internal and no longer than the measure of their first state -/

theorem execS_bound (p : Params) {a b : (sendSys p).State} {ls : List (Option (sendSys p).Event)}
    (h : Exec (sendSys p) a ls b) : visible ls = [] ∧ ls.length + mS b ≤ mS a := by
  induction h with
  | nil s => exact ⟨rfl, by simp⟩
  | @cons s s' s'' l ls hm _ ih =>
    obtain ⟨hl, hd⟩ := succS_dec p s s' l hm
    subst hl
    refine ⟨(visible_cons_none ls).trans ih.1, ?_⟩
    have := ih.2
    show ls.length + 1 + mS s'' ≤ mS s
    omega

theorem execR_bound (p : Params) {a b : (recvSys p).State} {ls : List (Option (recvSys p).Event)}
    (h : Exec (recvSys p) a ls b) : visible ls = [] ∧ ls.length + mR b ≤ mR a := by
  induction h with
  | nil s => exact ⟨rfl, by simp⟩
  | @cons s s' s'' l ls hm _ ih =>
    obtain ⟨hl, hd⟩ := succR_dec p s s' l hm
    subst hl
    refine ⟨(visible_cons_none ls).trans ih.1, ?_⟩
    have := ih.2
    show ls.length + 1 + mR s'' ≤ mR s
    omega

/-- every execution of the send scenario system from its initial state has at most `boundS p` steps, all internal -/
theorem execS_length (p : Params) {s : SState} {ls : List (Option Unit)} (h : Exec (sendSys p) (initS p) ls s) :
    visible ls = [] ∧ ls.length ≤ boundS p := by
  obtain ⟨hv, hl⟩ := execS_bound p h
  have hl2 : ls.length + mS s ≤ mS (initS p) := hl
  have := mS_init p
  exact ⟨hv, by omega⟩

theorem execR_length (p : Params) {s : RState} {ls : List (Option Unit)} (h : Exec (recvSys p) (initR p) ls s) :
    visible ls = [] ∧ ls.length ≤ boundR p := by
  obtain ⟨hv, hl⟩ := execR_bound p h
  have hl2 : ls.length + mR s ≤ mR (initR p) := hl
  have := mR_init p
  exact ⟨hv, by omega⟩

/-! ### the closure contains every reachable state -/

theorem closureS_complete (fuel : Nat) (p : Params) (hb : boundS p ≤ fuel) {s : SState} {ls : List (Option Unit)}
    (h : Exec (sendSys p) (initS p) ls s) : s ∈ tauClosure (sendSys p) fuel [initS p] := by
  obtain ⟨hv, hl⟩ := execS_length p h
  exact tauClosure_complete (sendSys p) fuel [initS p] (nodup_single _) ls.length (initS p) s (by omega)
    (List.mem_singleton.2 rfl) (TauN.of_exec h hv)

theorem closureR_complete (fuel : Nat) (p : Params) (hb : boundR p ≤ fuel) {s : RState} {ls : List (Option Unit)}
    (h : Exec (recvSys p) (initR p) ls s) : s ∈ tauClosure (recvSys p) fuel [initR p] := by
  obtain ⟨hv, hl⟩ := execR_length p h
  exact tauClosure_complete (recvSys p) fuel [initR p] (nodup_single _) ls.length (initR p) s (by omega)
    (List.mem_singleton.2 rfl) (TauN.of_exec h hv)

theorem sendOutcomes_complete (fuel : Nat) (p : Params) (hb : boundS p ≤ fuel) {s : SState} {ls : List (Option Unit)}
    {o : Bool × List Int × List Int} (h : Exec (sendSys p) (initS p) ls s) (hf : sendFinal s = some o) :
    o ∈ sendOutcomes fuel p := by
  unfold sendOutcomes
  exact mem_dedup (List.mem_filterMap.2 ⟨s, closureS_complete fuel p hb h, hf⟩)

theorem recvOutcomes_complete (fuel : Nat) (p : Params) (hb : boundR p ≤ fuel) {s : RState} {ls : List (Option Unit)}
    {o : Int × Bool × List Int} (h : Exec (recvSys p) (initR p) ls s) (hf : recvFinal s = some o) :
    o ∈ recvOutcomes fuel p := by
  unfold recvOutcomes
  exact mem_dedup (List.mem_filterMap.2 ⟨s, closureR_complete fuel p hb h, hf⟩)

/-! ### the scenarios of the judge -/

theorem boundS_scenario (mode : Mode) (cap fill peer : Nat) : boundS (sendScenario mode cap fill peer) ≤ 6 := by
  unfold boundS sendScenario
  simp only [List.length_nil]
  split <;> omega

theorem boundR_scenario (mode : Mode) (cap fill : Nat) (closed : Bool) (peer : Nat) :
    boundR (recvScenario mode cap fill closed peer) ≤ 7 := by
  unfold boundR recvScenario
  simp only
  split <;> simp

/-! ### the verdict -/

theorem verdict_accepts (impl : String) (allowed : List String) (cons : Option String) (tags : List String)
    (h : impl ∈ allowed) : (verdict impl allowed cons tags).model = impl := by
  unfold verdict
  have hc : allowed.contains impl = true := List.contains_iff_mem.2 h
  cases cons <;> simp only [hc]

theorem sendLine_accepts (op : String) (mode : Mode) (blocking : Bool) (cap fill peer : Nat) (impl : String)
    (hfc : fill ≤ cap) (hpeer : peer ≤ 2)
    (h : impl ∈ (sendOutcomes fuel (sendScenario mode cap fill peer)).map renderSend) :
    (sendLine op mode blocking cap fill peer impl).model = impl := by
  unfold sendLine
  rw [if_neg (by omega)]
  simp only
  split
  · split
    · exact verdict_accepts _ _ _ _ h
    · exact verdict_accepts _ _ _ _ h
  · exact verdict_accepts _ _ _ _ h

theorem recvLine_accepts (op : String) (mode : Mode) (blocking : Bool) (cap fill : Nat) (closed : Bool) (peer : Nat)
    (impl : String) (hfc : fill ≤ cap) (hpeer : peer ≤ 1)
    (h : impl ∈ (recvOutcomes fuel (recvScenario mode cap fill closed peer)).map renderRecv) :
    (recvLine op mode blocking cap fill closed peer impl).model = impl := by
  unfold recvLine
  rw [if_neg (by omega)]
  simp only
  split
  · split
    · exact verdict_accepts _ _ _ _ h
    · exact verdict_accepts _ _ _ _ h
  · exact verdict_accepts _ _ _ _ h

end TypVerif.Lemmas.C19Complete
