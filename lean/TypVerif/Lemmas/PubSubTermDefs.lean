import TypVerif.Lemmas.PubSubLiveNames
import TypVerif.Lemmas.PubSubLogSubs
/-
Termination of the internal work of the PubSub model (C10, "eventually"): the variant `measure` and the
list / channel-table lemmas behind it.

Weights.  A task weighs more than everything it can still do or spawn; a channel weighs what its receiver
can still do with what the channel holds.  `bound s` = |subs of the root| + number of pending `Sub` calls
bounds the subscriber list a pending publish call can still meet (a completed `Sub` moves one unit from
"pending" to `subs`; Unsub / UnsubAll only shrink `subs`; new `Sub`s are invocations of the environment).
-/
namespace TypVerif.Lemmas.PubSubTerm
open TypVerif TypVerif.Model.PubSub TypVerif.Lemmas.PubSubSafe TypVerif.Lemmas.PubSubLive
  TypVerif.Lemmas.PubSubLog

/-- a `Sub` call that has not yet appended its channel to `subs` -/
def pendingSub : Task → Bool
  | .subStart .. => true
  | .subWait .. => true
  | _ => false

/-- weight of a task when the subscriber list it may meet has at most `n` entries -/
def taskW (n : Nat) : Task → Nat
  | .pubStart _ _ _ evs => 4 * (evs.length * n) + 3
  | .syncLoop _ _ work cb => 3 * work.length + (if cb then 1 else 2)
  | .waitWg .. => 2
  | .pubRet _ => 1
  | .asyncStart .. => 4
  | .asyncSend _ _ cb => if cb then 1 else 3
  | .wgSend _ _ _ cb => if cb then 1 else 3
  | .subStart .. => 4
  | .subWait .. => 3
  | .subRet _ => 1
  | .unsubStart .. => 3
  | .unsubWait .. => 2
  | .unsubRet .. => 1
  | .uaStart .. => 3
  | .uaWait .. => 2
  | .uaRet _ => 1
  | .woStart .. => 1
  | .done => 0

def tasksW (n : Nat) : List Task → Nat
  | [] => 0
  | t :: ts => taskW n t + tasksW n ts

/-- weight of a channel together with its receiver: two steps (take, stamp `recv`) per buffered value, one for a
value that is held, one for the observation of the close (or for ever, if the channel is never closed: the unit is
simply never spent) -/
def chanW (ch : ChanSt) : Nat :=
  2 * ch.buf.length + (if ch.holding.isSome then 1 else 0) + (if ch.rdone then 0 else 1)

def chansW : List ChanSt → Nat
  | [] => 0
  | ch :: cs => chanW ch + chansW cs

/-- one unit for the panic that has not happened (a panicking step spends it) -/
def flagW (s : State) : Nat := if s.panicked = none then 1 else 0

/-- bound for the length of the subscriber list of the root from now on, as long as the environment invokes nothing -/
def bound (s : State) : Nat := (s.obj 0).subs.length + s.tasks.countP pendingSub

/-- THE VARIANT -/
def measure (_cfg : Cfg) (s : State) : Nat := tasksW (bound s) s.tasks + chansW s.chans + flagW s

/-- channel ids are pairwise distinct -/
def ChanIdsOk (s : State) : Prop := ∀ c, idCount s.chans c ≤ 1

/-- how the channel table may change in one internal step: ids stay, a receiver that stopped stays stopped, an
allowance drops by at most one -/
def CRel (cs cs' : List ChanSt) : Prop :=
  ∀ ch' ∈ cs', ∃ ch ∈ cs, ch'.id = ch.id ∧ (ch'.rdone = false → ch.rdone = false) ∧ ch.allow ≤ ch'.allow + 1

/-! ### task weights -/

theorem taskW_mono {n m : Nat} (h : n ≤ m) (t : Task) : taskW n t ≤ taskW m t := by
  cases t <;> simp only [taskW, Nat.le_refl]
  rename_i p o v evs
  have := Nat.mul_le_mul_left evs.length h
  omega

theorem tasksW_mono {n m : Nat} (h : n ≤ m) : ∀ ts : List Task, tasksW n ts ≤ tasksW m ts
  | [] => Nat.le_refl _
  | t :: ts => by
    have := taskW_mono h t
    have := tasksW_mono h ts
    simp only [tasksW]; omega

theorem tasksW_append (n : Nat) : ∀ (l₁ l₂ : List Task), tasksW n (l₁ ++ l₂) = tasksW n l₁ + tasksW n l₂
  | [], l₂ => by simp [tasksW]
  | t :: l₁, l₂ => by
    simp only [List.cons_append, tasksW, tasksW_append n l₁ l₂]; omega

theorem tasksW_set (n : Nat) : ∀ (l : List Task) (i : Nat) (t t' : Task), l[i]? = some t →
    tasksW n (l.set i t') + taskW n t = tasksW n l + taskW n t'
  | [], i, t, t', h => by simp at h
  | a :: l, 0, t, t', h => by
    simp only [List.getElem?_cons_zero, Option.some.injEq] at h
    subst h
    simp only [List.set_cons_zero, tasksW]; omega
  | a :: l, i + 1, t, t', h => by
    simp only [List.getElem?_cons_succ] at h
    have := tasksW_set n l i t t' h
    simp only [List.set_cons_succ, tasksW]; omega

theorem tasksW_map_const {α} (n k : Nat) (f : α → Task) (hf : ∀ x, taskW n (f x) = k) :
    ∀ xs : List α, tasksW n (xs.map f) = k * xs.length
  | [] => by simp [tasksW]
  | x :: xs => by
    simp only [List.map_cons, tasksW, hf, tasksW_map_const n k f hf xs, List.length_cons, Nat.mul_succ]; omega

theorem countP_map_false {α β} (p : β → Bool) (f : α → β) (hf : ∀ x, p (f x) = false) (xs : List α) :
    (xs.map f).countP p = 0 := by
  rw [List.countP_eq_zero]
  intro y hy
  obtain ⟨x, _, rfl⟩ := List.mem_map.mp hy
  simp [hf x]

theorem mkItems_length_aux (p : Nat) (subs : List Chan) : ∀ (evs : List Int) (k : Nat),
    ((evs.zipIdx k).flatMap (fun ei => subs.map (fun c => ({ pid := p, idx := ei.2, ev := ei.1, c := c } : Item)))).length
      = evs.length * subs.length
  | [], k => by simp
  | e :: evs, k => by
    simp only [List.zipIdx_cons, List.flatMap_cons, List.length_append, List.length_map, List.length_cons,
      mkItems_length_aux p subs evs (k + 1), Nat.succ_mul]
    omega

theorem mkItems_length (p : Nat) (evs : List Int) (subs : List Chan) :
    (mkItems p evs subs).length = evs.length * subs.length :=
  mkItems_length_aux p subs evs 0

/-! ### channel weights -/

theorem chansW_append : ∀ (l₁ l₂ : List ChanSt), chansW (l₁ ++ l₂) = chansW l₁ + chansW l₂
  | [], l₂ => by simp [chansW]
  | t :: l₁, l₂ => by
    simp only [List.cons_append, chansW, chansW_append l₁ l₂]; omega

theorem updChan_cons (ch : ChanSt) (cs : List ChanSt) (c : Chan) (f : ChanSt → ChanSt) :
    updChan (ch :: cs) c f = (if ch.id == c then f ch else ch) :: updChan cs c f := rfl

theorem idCount_cons (ch : ChanSt) (cs : List ChanSt) (c : Chan) :
    idCount (ch :: cs) c = idCount cs c + (if ch.id == c then 1 else 0) := by
  simp [idCount, List.countP_cons]

/-- an update that adds at most `k` to each channel with the id -/
theorem chansW_updChan_le (c : Chan) (f : ChanSt → ChanSt) (k : Nat) (hf : ∀ x, chanW (f x) ≤ chanW x + k) :
    ∀ cs : List ChanSt, chansW (updChan cs c f) ≤ chansW cs + k * idCount cs c
  | [] => by simp [updChan, chansW]
  | ch :: cs => by
    have ih := chansW_updChan_le c f k hf cs
    rw [updChan_cons, idCount_cons]
    by_cases h : (ch.id == c) = true
    · have := hf ch
      simp only [h, if_true, chansW, Nat.mul_add, Nat.mul_one]; omega
    · simp only [h, chansW, Nat.mul_add]
      simp; omega

theorem chansW_updChan_eq (c : Chan) (f : ChanSt → ChanSt) (hf : ∀ x, chanW (f x) = chanW x) :
    ∀ cs : List ChanSt, chansW (updChan cs c f) = chansW cs
  | [] => rfl
  | ch :: cs => by
    rw [updChan_cons]
    by_cases h : (ch.id == c) = true
    · simp only [h, if_true, chansW, hf, chansW_updChan_eq c f hf cs]
    · simp only [h, chansW, chansW_updChan_eq c f hf cs]
      simp

theorem updChan_of_idCount_zero (c : Chan) (f : ChanSt → ChanSt) :
    ∀ cs : List ChanSt, idCount cs c = 0 → updChan cs c f = cs
  | [], _ => rfl
  | ch :: cs, h => by
    rw [idCount_cons] at h
    by_cases h1 : (ch.id == c) = true
    · simp [h1] at h
    · rw [updChan_cons, updChan_of_idCount_zero c f cs (by omega)]
      simp [h1]

theorem idCount_pos_of_mem {cs : List ChanSt} {ch : ChanSt} (h : ch ∈ cs) : 0 < idCount cs ch.id :=
  List.countP_pos_iff.mpr ⟨ch, h, by simp⟩

/-- the update of the one channel with that id lowers the total weight by what it lowers that channel's -/
theorem chansW_updChan_dec (f : ChanSt → ChanSt) (ch : ChanSt) (hf : chanW (f ch) + 1 ≤ chanW ch) :
    ∀ cs : List ChanSt, idCount cs ch.id ≤ 1 → ch ∈ cs → chansW (updChan cs ch.id f) + 1 ≤ chansW cs
  | [], _, hm => by cases hm
  | a :: cs, hu, hm => by
    rw [idCount_cons] at hu
    rw [updChan_cons]
    by_cases h1 : (a.id == ch.id) = true
    · simp only [h1, if_true] at hu ⊢
      have hz : idCount cs ch.id = 0 := by omega
      rw [updChan_of_idCount_zero _ f cs hz]
      have : ch = a := by
        rcases List.mem_cons.mp hm with h | h
        · exact h
        · have := idCount_pos_of_mem h; omega
      subst this
      simp only [chansW]; omega
    · have hm' : ch ∈ cs := by
        rcases List.mem_cons.mp hm with h | h
        · subst h; simp at h1
        · exact h
      have ih := chansW_updChan_dec f ch hf cs (by simp [h1] at hu; exact hu) hm'
      simp only [h1, chansW]
      simp; omega

theorem chansW_closeAll : ∀ (l : List Chan) (cs cs' : List ChanSt), closeAll cs l = some cs' → chansW cs' = chansW cs
  | [], cs, cs', he => by
    simp only [closeAll, Option.some.injEq] at he
    subst he; rfl
  | x :: rest, cs, cs', he => by
    simp only [closeAll] at he
    split at he
    · cases he
    · rw [chansW_closeAll rest _ cs' he]
      exact chansW_updChan_eq x (fun ch => { ch with closed := true }) (fun _ => rfl) cs

/-! ### the step relation on channel tables -/

theorem crel_refl (cs : List ChanSt) : CRel cs cs :=
  fun ch hm => ⟨ch, hm, rfl, id, Nat.le_succ _⟩

theorem crel_trans {a b c : List ChanSt} (h1 : CRel a b) (h2 : ∀ ch' ∈ c, ∃ ch ∈ b, ch'.id = ch.id ∧
    (ch'.rdone = false → ch.rdone = false) ∧ ch.allow ≤ ch'.allow) : CRel a c := by
  intro ch' hm
  obtain ⟨x, hx, e1, r1, a1⟩ := h2 ch' hm
  obtain ⟨y, hy, e2, r2, a2⟩ := h1 x hx
  exact ⟨y, hy, e1.trans e2, fun h => r2 (r1 h), by omega⟩

theorem crel_updChan (cs : List ChanSt) (c : Chan) (f : ChanSt → ChanSt)
    (hf : ∀ x, (f x).id = x.id ∧ ((f x).rdone = false → x.rdone = false) ∧ x.allow ≤ (f x).allow + 1) :
    CRel cs (updChan cs c f) := by
  intro ch' hm
  obtain ⟨x, hx, rfl⟩ := List.mem_map.mp hm
  refine ⟨x, hx, ?_⟩
  by_cases h : (x.id == c) = true
  · simp only [h, if_true]; exact hf x
  · simp only [h]; exact ⟨rfl, id, Nat.le_succ _⟩

/-- closing keeps everything `CRel` looks at -/
theorem closeAll_same : ∀ (l : List Chan) (cs cs' : List ChanSt), closeAll cs l = some cs' →
    ∀ ch' ∈ cs', ∃ ch ∈ cs, ch'.id = ch.id ∧ (ch'.rdone = false → ch.rdone = false) ∧ ch.allow ≤ ch'.allow
  | [], cs, cs', he => by
    simp only [closeAll, Option.some.injEq] at he
    subst he
    exact fun ch hm => ⟨ch, hm, rfl, id, Nat.le_refl _⟩
  | x :: rest, cs, cs', he => by
    simp only [closeAll] at he
    split at he
    · cases he
    · intro ch' hm
      obtain ⟨y, hy, e1, r1, a1⟩ := closeAll_same rest _ cs' he ch' hm
      obtain ⟨z, hz, rfl⟩ := List.mem_map.mp hy
      refine ⟨z, hz, ?_⟩
      by_cases h : (z.id == x) = true
      · simp only [h, if_true] at e1 r1 a1; exact ⟨e1, r1, a1⟩
      · simp only [h] at e1 r1 a1; exact ⟨e1, r1, a1⟩

theorem crel_closeAll {l : List Chan} {cs cs' : List ChanSt} (h : closeAll cs l = some cs') : CRel cs cs' :=
  crel_trans (crel_refl cs) (closeAll_same l cs cs' h)

/-! ### `sendTo` -/

structure SentFrame (s s1 : State) : Prop where
  tasks : s1.tasks = s.tasks
  objs : s1.objs = s.objs
  panicked : s1.panicked = s.panicked
  exited : s1.exited = s.exited
  weight : chansW s1.chans ≤ chansW s.chans + 2
  crel : CRel s.chans s1.chans

theorem sendTo_sent_frame {s s1 : State} {it : Item} (hu : ChanIdsOk s) (h : sendTo s it = .sent s1) :
    SentFrame s s1 := by
  have hc := hu it.c
  unfold sendTo at h
  split at h
  · cases h
  · split at h
    · cases h
    · split at h
      · injection h with h; subst h
        refine ⟨rfl, rfl, rfl, rfl, ?_, crel_updChan _ _ _ (fun x => ⟨rfl, id, Nat.le_succ _⟩)⟩
        have := chansW_updChan_le it.c (fun ch => { ch with buf := ch.buf ++ [it.ev] }) 2
          (fun x => by simp [chanW]; omega) s.chans
        have h2 : 2 * idCount s.chans it.c ≤ 2 := by omega
        exact Nat.le_trans this (by omega)
      · split at h
        · injection h with h; subst h
          refine ⟨rfl, rfl, rfl, rfl, ?_, crel_updChan _ _ _ (fun x => ⟨rfl, id, by simp; omega⟩)⟩
          have := chansW_updChan_le it.c (fun ch => { ch with holding := some it.ev, allow := ch.allow - 1 }) 1
            (fun x => by simp [chanW]; split <;> omega) s.chans
          have h2 : 1 * idCount s.chans it.c ≤ 1 := by omega
          exact Nat.le_trans this (by omega)
        · cases h

/-! ### channel ids stay distinct -/

theorem chanIds_init : ChanIdsOk ({} : State) := by
  intro c; simp [idCount]

theorem chanIds_of_eq {s s' : State} (hu : ChanIdsOk s) (h : ∀ c, idCount s'.chans c = idCount s.chans c) :
    ChanIdsOk s' := fun c => by rw [h c]; exact hu c

theorem chanIds_append {s : State} (hu : ChanIdsOk s) (ch : ChanSt) (h : hasChan s.chans ch.id = false) :
    ∀ c, idCount (s.chans ++ [ch]) c ≤ 1 := by
  intro c
  rw [idCount_append]
  by_cases hc : (ch.id == c) = true
  · have : ch.id = c := by simpa using hc
    subst this
    rw [idCount_zero_of_not_hasChan h]; simp
  · have := hu c
    simp [hc]; exact this

theorem chanIds_stepTask {cfg : Cfg} {s s' : State} {i : Nat} {t : Task} {l : Option Event} (hu : ChanIdsOk s)
    (hi : s.tasks[i]? = some t) (h : (l, s') ∈ stepTask cfg s i t) : ChanIdsOk s' := by
  intro c
  by_cases hn : subName c t = true
  · cases t with
    | subStart o c' cap =>
      simp only [stepTask, List.mem_singleton, Prod.mk.injEq] at h
      obtain ⟨_, rfl⟩ := h
      exact hu c
    | subWait o c' cap =>
      simp only [stepTask, stepSubWait] at h
      split at h
      · simp at h
      · rename_i hg
        simp only [List.mem_singleton, Prod.mk.injEq] at h
        obtain ⟨_, rfl⟩ := h
        simp only [Bool.or_eq_true, not_or] at hg
        exact chanIds_append hu ({ id := c', cap := cap } : ChanSt) (by simpa using hg.2) c
    | _ => simp [subName] at hn
  · have hn' : subName c t = false := by simpa using hn
    obtain ⟨t', new, _, _, _, htasks, _⟩ := stepTask_tsum hi h
    have hc := nameCount_stepTask hi h c
    unfold nameCount at hc
    rw [htasks, List.countP_append] at hc
    have h1 := countP_set_eq (subName c) s.tasks i t t' hi
    rw [hn'] at h1
    simp only [Bool.false_eq_true, if_false, Nat.add_zero] at h1
    have := hu c
    omega

theorem chanIds_recvSteps {s s' : State} {ch : ChanSt} {l : Option Event} (hu : ChanIdsOk s)
    (h : (l, s') ∈ recvSteps s ch) : ChanIdsOk s' := by
  intro c
  have hc := nameCount_recvSteps h c
  have ht : s'.tasks = s.tasks := by
    unfold recvSteps at h
    split at h
    · simp at h
    · split at h
      · simp only [List.mem_singleton, Prod.mk.injEq] at h
        obtain ⟨_, rfl⟩ := h; rfl
      · split at h
        · simp at h
        · split at h
          · simp only [List.mem_singleton, Prod.mk.injEq] at h
            obtain ⟨_, rfl⟩ := h; rfl
          · split at h
            · simp only [List.mem_singleton, Prod.mk.injEq] at h
              obtain ⟨_, rfl⟩ := h; rfl
            · simp at h
  unfold nameCount at hc
  rw [ht] at hc
  have := hu c
  omega

theorem chanIds_envStep {cfg : Cfg} {s s' : State} {e : Event} (hu : ChanIdsOk s) (h : envStep cfg s e = some s') :
    ChanIdsOk s' := by
  cases e with
  | sub c cap =>
    simp only [envStep] at h
    split at h
    · cases h
    · injection h with h; subst h; exact hu
  | mkchan c =>
    simp only [envStep] at h
    split at h
    · cases h
    · rename_i hh
      injection h with h; subst h
      exact chanIds_append hu ({ id := c, cap := 0 } : ChanSt) (by simp [nameTaken] at hh; simpa using hh.1)
  | withonly w via c =>
    simp only [envStep] at h
    split at h
    · injection h with h; subst h; exact hu
    · cases h
  | pubinv p via v evs =>
    simp only [envStep] at h
    split at h
    · cases h
    · injection h with h; subst h; exact hu
  | allow c n =>
    simp only [envStep] at h
    split at h
    · injection h with h; subst h
      exact chanIds_of_eq hu (fun c' => idCount_updChan _ _ _ _ (fun _ => rfl))
    · cases h
  | unsubinv u via c =>
    simp only [envStep] at h
    split at h
    · injection h with h; subst h; exact hu
    · cases h
  | unsuballinv u via =>
    simp only [envStep] at h
    split at h
    · injection h with h; subst h; exact hu
    · cases h
  | _ => simp [envStep] at h

theorem chanIds_succ {cfg : Cfg} {s s' : State} {l : Option Event} (hu : ChanIdsOk s) (h : (l, s') ∈ succ cfg s) :
    ChanIdsOk s' := by
  unfold succ at h
  split at h
  · simp at h
  · split at h
    · simp only [List.mem_singleton, Prod.mk.injEq] at h
      obtain ⟨_, rfl⟩ := h
      exact hu
    · simp only [List.mem_append] at h
      rcases h with ((h | h) | h) | h
      · simp only [envSteps, List.mem_filterMap] at h
        obtain ⟨e, _, he⟩ := h
        cases hes : envStep cfg s e with
        | none => simp [hes] at he
        | some s1 =>
          simp [hes] at he
          obtain ⟨_, rfl⟩ := he
          exact chanIds_envStep hu hes
      · simp only [List.mem_flatMap, List.mem_range] at h
        obtain ⟨i, _, hi⟩ := h
        unfold taskSteps at hi
        split at hi
        · simp at hi
        · rename_i t ht
          exact chanIds_stepTask hu ht hi
      · simp only [List.mem_flatMap] at h
        obtain ⟨ch, _, hch⟩ := h
        exact chanIds_recvSteps hu hch
      · simp only [exitSteps, List.mem_map] at h
        obtain ⟨r, _, hr⟩ := h
        injection hr with _ hr; subst hr
        exact hu

/-- channel ids are pairwise distinct in every reachable state (any configuration) -/
theorem chanIds_reachable (cfg : Cfg) : ∀ s, Conc.Reachable (sys cfg) s → ChanIdsOk s :=
  Conc.invariant (sys cfg) ChanIdsOk chanIds_init (fun _ _ _ hu h => chanIds_succ hu h)

end TypVerif.Lemmas.PubSubTerm
