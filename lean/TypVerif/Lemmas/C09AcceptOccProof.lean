import TypVerif.Lemmas.C09AcceptOcc
namespace TypVerif.Lemmas.C09Accept
open TypVerif TypVerif.Conc TypVerif.Model.KeyedMutex TypVerif.Lemmas.KeyedMutex

/-! ### the pending call of a goroutine after the bookkeeping updates -/

/-- `Occ.pendOf` on the bare list -/
def occ_find (l : List (Nat × Op)) (t : Nat) : Option Op := (l.find? (fun p => p.1 == t)).map (·.2)

theorem occ_pendOf_eq (o : Occ) (t : Nat) : o.pendOf t = occ_find o.pend t := rfl

theorem occ_find_cons (p : Nat × Op) (l : List (Nat × Op)) (t : Nat) :
    occ_find (p :: l) t = if p.1 = t then some p.2 else occ_find l t := by
  unfold occ_find
  by_cases h : p.1 = t
  · simp [h]
  · simp [h]

theorem occ_find_filter_self (l : List (Nat × Op)) (t : Nat) :
    occ_find (l.filter (fun p => p.1 != t)) t = none := by
  induction l with
  | nil => rfl
  | cons p r ih =>
    by_cases h : p.1 = t
    · have : (p.1 != t) = false := by simp [h]
      rw [List.filter_cons, this]
      exact ih
    · have : (p.1 != t) = true := by simp [h]
      rw [List.filter_cons, this, if_pos rfl, occ_find_cons, if_neg h]
      exact ih

theorem occ_find_filter_ne (l : List (Nat × Op)) {t t' : Nat} (hne : t' ≠ t) :
    occ_find (l.filter (fun p => p.1 != t)) t' = occ_find l t' := by
  induction l with
  | nil => rfl
  | cons p r ih =>
    by_cases h : p.1 = t
    · have : (p.1 != t) = false := by simp [h]
      have h' : ¬ p.1 = t' := by rw [h]; exact fun e => hne e.symm
      rw [List.filter_cons, this, occ_find_cons, if_neg h']
      simpa using ih
    · have : (p.1 != t) = true := by simp [h]
      rw [List.filter_cons, this, if_pos rfl, occ_find_cons, occ_find_cons, ih]

theorem occ_mem_filter_ne {l : List (Nat × Nat)} {p q : Nat × Nat} (h : p ∈ l.filter (fun x => x != q)) : p ∈ l ∧ p ≠ q := by
  have := List.mem_filter.mp h
  exact ⟨this.1, by simpa using this.2⟩

/-! ### the joint invariant -/

def occ_ThreadJ (o : Occ) (s : State) (t : Nat) : Prop :=
  match s.pc t with
  | .idle => o.pendOf t = none
  | .los kd k => o.pendOf t = some ⟨kd, k⟩
  | .act kd k _ => o.pendOf t = some ⟨kd, k⟩
  | .ann k _ => o.pendOf t = some ⟨.lock, k⟩
  | .wait k _ => o.pendOf t = some ⟨.lock, k⟩
  | .rel k _ => o.pendOf t = some ⟨.unlock, k⟩
  | .ret r => ∃ op, o.pendOf t = some op ∧
      (writeAcq op.kind r = true → (t, op.key) ∈ s.wh ∧ (t, op.key) ∉ o.w) ∧
      (readAcq op.kind r = true → (t, op.key) ∈ s.rh)

structure occ_J (o : Occ) (s : State) : Prop where
  thread : ∀ t, occ_ThreadJ o s t
  w : ∀ p ∈ o.w, p ∈ s.wh
  r : ∀ p ∈ o.r, p ∈ s.rh
  unl : ∀ t k, o.pendOf t = some ⟨.unlock, k⟩ → (t, k) ∉ o.w
  runl : ∀ t k, o.pendOf t = some ⟨.runlock, k⟩ → (t, k) ∉ o.r

/-! intro / elim -/

theorem occ_tj_idle {o : Occ} {s : State} {t : Nat} (h : s.pc t = .idle) (hp : o.pendOf t = none) :
    occ_ThreadJ o s t := by
  unfold occ_ThreadJ; rw [h]; exact hp
theorem occ_tj_los {o : Occ} {s : State} {t : Nat} {kd k} (h : s.pc t = .los kd k)
    (hp : o.pendOf t = some ⟨kd, k⟩) : occ_ThreadJ o s t := by
  unfold occ_ThreadJ; rw [h]; exact hp
theorem occ_tj_act {o : Occ} {s : State} {t : Nat} {kd k m} (h : s.pc t = .act kd k m)
    (hp : o.pendOf t = some ⟨kd, k⟩) : occ_ThreadJ o s t := by
  unfold occ_ThreadJ; rw [h]; exact hp
theorem occ_tj_ann {o : Occ} {s : State} {t : Nat} {k m} (h : s.pc t = .ann k m)
    (hp : o.pendOf t = some ⟨.lock, k⟩) : occ_ThreadJ o s t := by
  unfold occ_ThreadJ; rw [h]; exact hp
theorem occ_tj_wait {o : Occ} {s : State} {t : Nat} {k m} (h : s.pc t = .wait k m)
    (hp : o.pendOf t = some ⟨.lock, k⟩) : occ_ThreadJ o s t := by
  unfold occ_ThreadJ; rw [h]; exact hp
theorem occ_tj_rel {o : Occ} {s : State} {t : Nat} {k m} (h : s.pc t = .rel k m)
    (hp : o.pendOf t = some ⟨.unlock, k⟩) : occ_ThreadJ o s t := by
  unfold occ_ThreadJ; rw [h]; exact hp
theorem occ_tj_ret {o : Occ} {s : State} {t : Nat} {r} (h : s.pc t = .ret r) (op : Op)
    (hp : o.pendOf t = some op)
    (hw : writeAcq op.kind r = true → (t, op.key) ∈ s.wh ∧ (t, op.key) ∉ o.w)
    (hr : readAcq op.kind r = true → (t, op.key) ∈ s.rh) : occ_ThreadJ o s t := by
  unfold occ_ThreadJ; rw [h]; exact ⟨op, hp, hw, hr⟩

theorem occ_el_idle {o : Occ} {s : State} {t : Nat} (hT : occ_ThreadJ o s t) (h : s.pc t = .idle) :
    o.pendOf t = none := by
  unfold occ_ThreadJ at hT; rw [h] at hT; exact hT
theorem occ_el_los {o : Occ} {s : State} {t : Nat} {kd k} (hT : occ_ThreadJ o s t) (h : s.pc t = .los kd k) :
    o.pendOf t = some ⟨kd, k⟩ := by
  unfold occ_ThreadJ at hT; rw [h] at hT; exact hT
theorem occ_el_act {o : Occ} {s : State} {t : Nat} {kd k m} (hT : occ_ThreadJ o s t) (h : s.pc t = .act kd k m) :
    o.pendOf t = some ⟨kd, k⟩ := by
  unfold occ_ThreadJ at hT; rw [h] at hT; exact hT
theorem occ_el_ann {o : Occ} {s : State} {t : Nat} {k m} (hT : occ_ThreadJ o s t) (h : s.pc t = .ann k m) :
    o.pendOf t = some ⟨.lock, k⟩ := by
  unfold occ_ThreadJ at hT; rw [h] at hT; exact hT
theorem occ_el_wait {o : Occ} {s : State} {t : Nat} {k m} (hT : occ_ThreadJ o s t) (h : s.pc t = .wait k m) :
    o.pendOf t = some ⟨.lock, k⟩ := by
  unfold occ_ThreadJ at hT; rw [h] at hT; exact hT
theorem occ_el_rel {o : Occ} {s : State} {t : Nat} {k m} (hT : occ_ThreadJ o s t) (h : s.pc t = .rel k m) :
    o.pendOf t = some ⟨.unlock, k⟩ := by
  unfold occ_ThreadJ at hT; rw [h] at hT; exact hT
theorem occ_el_ret {o : Occ} {s : State} {t : Nat} {r} (hT : occ_ThreadJ o s t) (h : s.pc t = .ret r) :
    ∃ op, o.pendOf t = some op ∧
      (writeAcq op.kind r = true → (t, op.key) ∈ s.wh ∧ (t, op.key) ∉ o.w) ∧
      (readAcq op.kind r = true → (t, op.key) ∈ s.rh) := by
  unfold occ_ThreadJ at hT; rw [h] at hT; exact hT

/-- frame rule for the goroutines that do not move -/
theorem occ_tj_frame {o o' : Occ} {s s' : State} {t' : Nat} (hpc : s'.pc t' = s.pc t')
    (hp : o'.pendOf t' = o.pendOf t')
    (hwh : ∀ k, (t', k) ∈ s.wh → (t', k) ∈ s'.wh) (hrh : ∀ k, (t', k) ∈ s.rh → (t', k) ∈ s'.rh)
    (hw : ∀ k, (t', k) ∈ o'.w → (t', k) ∈ o.w)
    (h : occ_ThreadJ o s t') : occ_ThreadJ o' s' t' := by
  unfold occ_ThreadJ at *
  rw [hpc, hp]
  split at h
  · exact h
  · exact h
  · exact h
  · exact h
  · exact h
  · exact h
  · obtain ⟨op, h1, h2, h3⟩ := h
    exact ⟨op, h1, fun e => ⟨hwh _ (h2 e).1, fun hm => (h2 e).2 (hw _ hm)⟩, fun e => hrh _ (h3 e)⟩

theorem occ_pendOf_init (t : Nat) : Occ.pendOf ⟨[], [], [], true⟩ t = none := rfl

theorem occ_J_init (N : Nat) : occ_J ⟨[], [], [], true⟩ (init N) := by
  refine ⟨?_, ?_, ?_, ?_, ?_⟩
  · intro t
    apply occ_tj_idle _ rfl
    unfold State.pc init
    simp only [List.getD_eq_getElem?_getD, List.getElem?_replicate]
    split <;> rfl
  · intro p hp; cases hp
  · intro p hp; cases hp
  · intro t k h; cases h
  · intro t k h; cases h

/-- an internal step of goroutine `t`: the bookkeeping is unchanged -/
theorem occ_J_internal {o : Occ} {s s' : State} {t : Nat} (hJ : occ_J o s)
    (hother : ∀ t', t' ≠ t → s'.pc t' = s.pc t')
    (hwh : ∀ p ∈ s.wh, (p.1 ≠ t ∨ p ∈ o.w) → p ∈ s'.wh)
    (hrh : ∀ p ∈ s.rh, (p.1 ≠ t ∨ p ∈ o.r) → p ∈ s'.rh)
    (ht : occ_ThreadJ o s' t) : occ_J o s' := by
  refine ⟨?_, ?_, ?_, hJ.unl, hJ.runl⟩
  · intro t'
    by_cases e : t' = t
    · subst e; exact ht
    · exact occ_tj_frame (hother t' e) rfl (fun k h => hwh _ h (.inl e)) (fun k h => hrh _ h (.inl e))
        (fun _ h => h) (hJ.thread t')
  · intro p hp; exact hwh p (hJ.w p hp) (.inr hp)
  · intro p hp; exact hrh p (hJ.r p hp) (.inr hp)

/-! ### acquisitions -/

theorem occ_writeAcq_ff (kd : Kind) : writeAcq kd .ff = false := by cases kd <;> rfl
theorem occ_readAcq_ff (kd : Kind) : readAcq kd .ff = false := by cases kd <;> rfl
theorem occ_readAcq_lock (r : Res) : readAcq .lock r = false := by cases r <;> rfl
theorem occ_readAcq_trylock (r : Res) : readAcq .trylock r = false := by cases r <;> rfl
theorem occ_writeAcq_rlock (r : Res) : writeAcq .rlock r = false := by cases r <;> rfl
theorem occ_writeAcq_tryrlock (r : Res) : writeAcq .tryrlock r = false := by cases r <;> rfl

theorem occ_tj_ret_noacq {o : Occ} {s : State} {t : Nat} {r} (h : s.pc t = .ret r) (op : Op)
    (hp : o.pendOf t = some op) (hw : writeAcq op.kind r = false) (hr : readAcq op.kind r = false) :
    occ_ThreadJ o s t :=
  occ_tj_ret h op hp (fun e => by rw [hw] at e; cases e) (fun e => by rw [hr] at e; cases e)

/-! ### internal steps -/

theorem occ_step_internal {rw : Bool} {ops : List Op} {o : Occ} {s s' : State} {t : Nat}
    (hJ : occ_J o s) (hg : Good s) (ht : t < s.pcs.length) (hs : Step rw true ops s t none s') : occ_J o s' := by
  have hTJ := hJ.thread t
  have hT := hg.thread t
  cases hs with
  | tryFail kd k m hpc hkd =>
    refine occ_J_internal hJ (fun t' e => by rw [pc_setPc _ _ _ _ ht, if_neg e]) (fun _ h _ => h) (fun _ h _ => h) ?_
    exact occ_tj_ret_noacq (by rw [pc_setPc _ _ _ _ ht, if_pos rfl]) ⟨kd, k⟩ (occ_el_act hTJ hpc)
      (occ_writeAcq_ff _) (occ_readAcq_ff _)
  | hit kd k m hpc hkd hm =>
    refine occ_J_internal hJ (fun t' e => by rw [pc_mk _ _ _ _ ht, if_neg e]) (fun _ h _ => h) (fun _ h _ => h) ?_
    exact occ_tj_act (by rw [pc_mk _ _ _ _ ht, if_pos rfl]) (occ_el_los hTJ hpc)
  | miss kd k hpc hkd hm =>
    refine occ_J_internal hJ (fun t' e => by rw [pc_mk _ _ _ _ ht, if_neg e]) (fun _ h _ => h) (fun _ h _ => h) ?_
    exact occ_tj_act (by rw [pc_mk _ _ _ _ ht, if_pos rfl]) (occ_el_los hTJ hpc)
  | clear k hpc hok =>
    refine occ_J_internal hJ (fun t' e => by rw [pc_mk _ _ _ _ ht, if_neg e]) (fun _ h _ => h) (fun _ h _ => h) ?_
    exact occ_tj_ret_noacq (by rw [pc_mk _ _ _ _ ht, if_pos rfl]) ⟨.clear, k⟩ (occ_el_los hTJ hpc) rfl rfl
  | queue k m p' P Q hpc hp' hq =>
    have hpc' : (queueStep s t m p' P Q).pc t = p' := by unfold queueStep; rw [pc_mk _ _ _ _ ht, if_pos rfl]
    refine occ_J_internal hJ (fun t' e => by unfold queueStep; rw [pc_mk _ _ _ _ ht, if_neg e])
      (fun _ h _ => h) (fun _ h _ => h) ?_
    rcases hq with ⟨h1, rfl, _, _⟩ | ⟨h1, rfl, _, _⟩ | ⟨h1, rfl, _, _⟩
    · exact occ_tj_ann hpc' (occ_el_act hTJ h1)
    · exact occ_tj_wait hpc' (occ_el_ann hTJ h1)
    · exact occ_tj_ret_noacq hpc' ⟨.unlock, k⟩ (occ_el_rel hTJ h1) rfl rfl
  | acqW k m r hpc hw hr =>
    have hpc' : (acqW s t k m r).pc t = .ret r := by unfold acqW; rw [pc_mk _ _ _ _ ht, if_pos rfl]
    refine occ_J_internal hJ (fun t' e => by unfold acqW; rw [pc_mk _ _ _ _ ht, if_neg e])
      (fun _ h _ => List.mem_cons_of_mem _ h) (fun _ h _ => h) ?_
    have hnot : (t, k) ∉ o.w := by
      intro hmem
      obtain ⟨m0, h0, h1⟩ := hg.whOk _ _ (hJ.w _ hmem)
      rw [acq_get hT hpc] at h0; cases h0
      rw [hw] at h1; cases h1
    have hin : (t, k) ∈ (acqW s t k m r).wh := List.mem_cons_self
    rcases hpc with h | h | h
    · exact occ_tj_ret hpc' ⟨.lock, k⟩ (occ_el_act hTJ h) (fun _ => ⟨hin, hnot⟩)
        (fun e => by rw [occ_readAcq_lock] at e; cases e)
    · exact occ_tj_ret hpc' ⟨.trylock, k⟩ (occ_el_act hTJ h) (fun _ => ⟨hin, hnot⟩)
        (fun e => by rw [occ_readAcq_trylock] at e; cases e)
    · exact occ_tj_ret hpc' ⟨.lock, k⟩ (occ_el_wait hTJ h) (fun _ => ⟨hin, hnot⟩)
        (fun e => by rw [occ_readAcq_lock] at e; cases e)
  | unlock k m p' Q hpc hp' hq =>
    have hpc' : (relW s t k m p' Q).pc t = p' := by unfold relW; rw [pc_mk _ _ _ _ ht, if_pos rfl]
    have hpend := occ_el_act hTJ hpc
    refine occ_J_internal hJ (fun t' e => by unfold relW; rw [pc_mk _ _ _ _ ht, if_neg e]) ?_ (fun _ h _ => h) ?_
    · intro p hp hor
      have hne : p ≠ (t, k) := by
        rcases hor with h | h
        · intro e; subst e; exact h rfl
        · intro e; subst e; exact hJ.unl t k hpend h
      exact (List.mem_erase_of_ne hne).mpr hp
    · rcases hp' with rfl | rfl
      · exact occ_tj_rel hpc' hpend
      · exact occ_tj_ret_noacq hpc' ⟨.unlock, k⟩ hpend rfl rfl
  | acqR kd k m r hpc hkd hw =>
    have hpc' : (acqR s t k m r).pc t = .ret r := by unfold acqR; rw [pc_mk _ _ _ _ ht, if_pos rfl]
    refine occ_J_internal hJ (fun t' e => by unfold acqR; rw [pc_mk _ _ _ _ ht, if_neg e])
      (fun _ h _ => h) (fun _ h _ => List.mem_cons_of_mem _ h) ?_
    have hin : (t, k) ∈ (acqR s t k m r).rh := List.mem_cons_self
    refine occ_tj_ret hpc' ⟨kd, k⟩ (occ_el_act hTJ hpc) (fun e => ?_) (fun _ => hin)
    rcases hkd with rfl | rfl
    · rw [occ_writeAcq_rlock] at e; cases e
    · rw [occ_writeAcq_tryrlock] at e; cases e
  | runlock k m hpc =>
    have hpend := occ_el_act hTJ hpc
    refine occ_J_internal hJ (fun t' e => by rw [pc_mk _ _ _ _ ht, if_neg e]) (fun _ h _ => h) ?_ ?_
    · intro p hp hor
      have hne : p ≠ (t, k) := by
        rcases hor with h | h
        · intro e; subst e; exact h rfl
        · intro e; subst e; exact hJ.runl t k hpend h
      exact (List.mem_erase_of_ne hne).mpr hp
    · exact occ_tj_ret_noacq (by rw [pc_mk _ _ _ _ ht, if_pos rfl]) ⟨.runlock, k⟩ hpend rfl rfl

/-! ### invocation -/

theorem occ_inv_pend_self (o : Occ) (t : Nat) (op : Op) : (occStep o (.inv t op)).pendOf t = some op := by
  show occ_find ((t, op) :: o.pend.filter (fun p => p.1 != t)) t = some op
  rw [occ_find_cons, if_pos rfl]

theorem occ_inv_pend_ne (o : Occ) {t t' : Nat} (op : Op) (hne : t' ≠ t) :
    (occStep o (.inv t op)).pendOf t' = o.pendOf t' := by
  show occ_find ((t, op) :: o.pend.filter (fun p => p.1 != t)) t' = occ_find o.pend t'
  rw [occ_find_cons, if_neg (fun e : t = t' => hne e.symm), occ_find_filter_ne _ hne]

theorem occ_inv_w_sub {o : Occ} {t : Nat} {op : Op} {p : Nat × Nat} (h : p ∈ (occStep o (.inv t op)).w) :
    p ∈ o.w ∧ (op.kind = .unlock → p ≠ (t, op.key)) := by
  change p ∈ (if op.kind = .unlock then o.w.filter (fun p => p != (t, op.key)) else o.w) at h
  split at h
  · exact ⟨(occ_mem_filter_ne h).1, fun _ => (occ_mem_filter_ne h).2⟩
  · next hk => exact ⟨h, fun e => absurd e hk⟩

theorem occ_inv_r_sub {o : Occ} {t : Nat} {op : Op} {p : Nat × Nat} (h : p ∈ (occStep o (.inv t op)).r) :
    p ∈ o.r ∧ (op.kind = .runlock → p ≠ (t, op.key)) := by
  change p ∈ (if op.kind = .runlock then o.r.filter (fun p => p != (t, op.key)) else o.r) at h
  split at h
  · exact ⟨(occ_mem_filter_ne h).1, fun _ => (occ_mem_filter_ne h).2⟩
  · next hk => exact ⟨h, fun e => absurd e hk⟩

theorem occ_step_inv {o : Occ} {s : State} {t : Nat} (op : Op) (hJ : occ_J o s) (ht : t < s.pcs.length) :
    occ_J (occStep o (.inv t op)) (s.setPc t (.los op.kind op.key)) := by
  refine ⟨?_, ?_, ?_, ?_, ?_⟩
  · intro t'
    by_cases e : t' = t
    · subst e
      exact occ_tj_los (by rw [pc_setPc _ _ _ _ ht, if_pos rfl]) (occ_inv_pend_self o t' op)
    · exact occ_tj_frame (s := s) (by rw [pc_setPc _ _ _ _ ht, if_neg e]) (occ_inv_pend_ne o op e) (fun _ h => h)
        (fun _ h => h) (fun _ h => (occ_inv_w_sub h).1) (hJ.thread t')
  · intro p hp; exact hJ.w p (occ_inv_w_sub hp).1
  · intro p hp; exact hJ.r p (occ_inv_r_sub hp).1
  · intro t' k hp hm
    by_cases e : t' = t
    · subst e
      rw [occ_inv_pend_self] at hp
      cases hp
      exact (occ_inv_w_sub hm).2 rfl rfl
    · rw [occ_inv_pend_ne o op e] at hp
      exact hJ.unl t' k hp (occ_inv_w_sub hm).1
  · intro t' k hp hm
    by_cases e : t' = t
    · subst e
      rw [occ_inv_pend_self] at hp
      cases hp
      exact (occ_inv_r_sub hm).2 rfl rfl
    · rw [occ_inv_pend_ne o op e] at hp
      exact hJ.runl t' k hp (occ_inv_r_sub hm).1

/-! ### response -/

theorem occ_J_res {o : Occ} {s : State} {t : Nat} {w' r' : List (Nat × Nat)} {ok' : Bool} (hJ : occ_J o s)
    (ht : t < s.pcs.length)
    (hw' : ∀ p ∈ w', p ∈ o.w ∨ (p.1 = t ∧ p ∈ s.wh))
    (hr' : ∀ p ∈ r', p ∈ o.r ∨ (p.1 = t ∧ p ∈ s.rh)) :
    occ_J ⟨o.pend.filter (fun p => p.1 != t), w', r', ok'⟩ (s.setPc t .idle) := by
  have hself : Occ.pendOf ⟨o.pend.filter (fun p => p.1 != t), w', r', ok'⟩ t = none := occ_find_filter_self _ _
  have hne : ∀ t', t' ≠ t → Occ.pendOf ⟨o.pend.filter (fun p => p.1 != t), w', r', ok'⟩ t' = o.pendOf t' :=
    fun t' e => occ_find_filter_ne _ e
  refine ⟨?_, ?_, ?_, ?_, ?_⟩
  · intro t'
    by_cases e : t' = t
    · subst e
      exact occ_tj_idle (by rw [pc_setPc _ _ _ _ ht, if_pos rfl]) hself
    · refine occ_tj_frame (s := s) (by rw [pc_setPc _ _ _ _ ht, if_neg e]) (hne t' e) (fun _ h => h)
        (fun _ h => h) (fun k h => ?_) (hJ.thread t')
      rcases hw' _ h with h1 | ⟨h1, _⟩
      · exact h1
      · exact absurd h1 e
  · intro p hp
    rcases hw' p hp with h | ⟨_, h⟩
    · exact hJ.w p h
    · exact h
  · intro p hp
    rcases hr' p hp with h | ⟨_, h⟩
    · exact hJ.r p h
    · exact h
  · intro t' k hp hm
    have e : t' ≠ t := by intro e; subst e; rw [hself] at hp; cases hp
    rw [hne t' e] at hp
    rcases hw' _ hm with h1 | ⟨h1, _⟩
    · exact hJ.unl t' k hp h1
    · exact e h1
  · intro t' k hp hm
    have e : t' ≠ t := by intro e; subst e; rw [hself] at hp; cases hp
    rw [hne t' e] at hp
    rcases hr' _ hm with h1 | ⟨h1, _⟩
    · exact hJ.runl t' k hp h1
    · exact e h1

theorem occ_any_false {l : List (Nat × Nat)} {k : Nat} (h : ∀ t', (t', k) ∉ l) : l.any (fun p => p.2 == k) = false := by
  rw [List.any_eq_false]
  rintro ⟨t', k'⟩ hm hk
  have : k' = k := by simpa using hk
  subst this
  exact h t' hm

theorem occ_step_res {o : Occ} {s : State} {t : Nat} {r : Res} (hJ : occ_J o s) (hg : Good s)
    (ht : t < s.pcs.length) (hpc : s.pc t = .ret r) :
    occ_J (occStep o (.res t r)) (s.setPc t .idle) ∧ (o.ok = true → (occStep o (.res t r)).ok = true) := by
  obtain ⟨op, hp, hw, hr⟩ := occ_el_ret (hJ.thread t) hpc
  by_cases hW : writeAcq op.kind r = true
  · have heq : occStep o (.res t r) = ⟨o.pend.filter (fun p => p.1 != t), (t, op.key) :: o.w, o.r,
        o.ok && !(o.w.any (fun p => p.2 == op.key)) && !(o.r.any (fun p => p.2 == op.key))⟩ := by
      simp only [occStep, hp, hW, if_true]
    rw [heq]
    obtain ⟨hin, hnot⟩ := hw hW
    refine ⟨occ_J_res hJ ht ?_ (fun p hp => .inl hp), ?_⟩
    · intro p hp
      rcases List.mem_cons.mp hp with rfl | h
      · exact .inr ⟨rfl, hin⟩
      · exact .inl h
    · intro hok
      have h1 : o.w.any (fun p => p.2 == op.key) = false := by
        apply occ_any_false
        intro t' hm
        have hh : s.holdsW t' op.key := hJ.w _ hm
        have : t = t' := mutex_of_good hg (show s.holdsW t op.key from hin) hh
        subst this
        exact hnot hm
      have h2 : o.r.any (fun p => p.2 == op.key) = false := by
        apply occ_any_false
        intro t' hm
        exact rw_of_good hg (show s.holdsW t op.key from hin) (show s.holdsR t' op.key from hJ.r _ hm)
      show (o.ok && !(o.w.any (fun p => p.2 == op.key)) && !(o.r.any (fun p => p.2 == op.key))) = true
      rw [hok, h1, h2]; rfl
  · have hW : writeAcq op.kind r = false := by simpa using hW
    by_cases hR : readAcq op.kind r = true
    · have heq : occStep o (.res t r) = ⟨o.pend.filter (fun p => p.1 != t), o.w, (t, op.key) :: o.r,
          o.ok && !(o.w.any (fun p => p.2 == op.key))⟩ := by
        simp only [occStep, hp, hW, hR, Bool.false_eq_true, if_true, if_false]
      rw [heq]
      have hin := hr hR
      refine ⟨occ_J_res hJ ht (fun p hp => .inl hp) ?_, ?_⟩
      · intro p hp
        rcases List.mem_cons.mp hp with rfl | h
        · exact .inr ⟨rfl, hin⟩
        · exact .inl h
      · intro hok
        have h1 : o.w.any (fun p => p.2 == op.key) = false := by
          apply occ_any_false
          intro t' hm
          exact rw_of_good hg (show s.holdsW t' op.key from hJ.w _ hm) (show s.holdsR t op.key from hin)
        show (o.ok && !(o.w.any (fun p => p.2 == op.key))) = true
        rw [hok, h1]; rfl
    · have hR : readAcq op.kind r = false := by simpa using hR
      have heq : occStep o (.res t r) = ⟨o.pend.filter (fun p => p.1 != t), o.w, o.r, o.ok⟩ := by
        simp only [occStep, hp, hW, hR, Bool.false_eq_true, if_false]
      rw [heq]
      exact ⟨occ_J_res hJ ht (fun p hp => .inl hp) (fun p hp => .inl hp), id⟩

/-! ### the step lemma and the theorem -/

def occ_next (o : Occ) : Option Event → Occ
  | none => o
  | some e => occStep o e

theorem occ_step {rw : Bool} {ops : List Op} {o : Occ} {s s' : State} {l : Option Event}
    (hJ : occ_J o s) (hg : Good s) (h : (l, s') ∈ succ rw true ops s) :
    occ_J (occ_next o l) s' ∧ (o.ok = true → (occ_next o l).ok = true) := by
  obtain ⟨t, ht, hs⟩ := step_of_succ h
  cases l with
  | none => exact ⟨occ_step_internal hJ hg ht hs, id⟩
  | some e =>
    cases hs with
    | inv op hpc hop hok => exact ⟨occ_step_inv op hJ ht, id⟩
    | ret r hpc => exact occ_step_res hJ hg ht hpc

theorem occ_ex_fold {rw : Bool} {ops : List Op} {s s' : State} {ls : List (Option Event)}
    (h : Ex rw ops s ls s') :
    ∀ o, occ_J o s → Good s → o.ok = true → ((visible ls).foldl occStep o).ok = true := by
  induction h with
  | nil s => intro o _ _ h; exact h
  | @cons s s' s'' l ls hm _ ih =>
    intro o hJ hg hok
    have hst := occ_step hJ hg hm
    have hg' := good_succ hg hm
    cases l with
    | none => exact ih o hst.1 hg' hok
    | some e => exact ih (occStep o e) hst.1 hg' (hst.2 hok)

/-- every execution of the model from an initial state has a visible trace that satisfies the occupancy predicate -/
theorem occupancy_of_ex {rw : Bool} {N : Nat} {ops : List Op} {ls : List (Option Event)} {s : State}
    (h : Ex rw ops (init N) ls s) : OccupancyOk (visible ls) :=
  occ_ex_fold h ⟨[], [], [], true⟩ (occ_J_init N) (good_init N) rfl

end TypVerif.Lemmas.C09Accept
