import TypVerif.Lemmas.C09AcceptPad
import TypVerif.Lemmas.KeyedMutexProps
/-
The occupancy predicate of the keyed-lock object, evaluated on the API-level events alone (DEFINITIONS; the exclusion part of the
specification side of the judge `Drv/C09.lean`, `specInv` / `specRes`):
  * a goroutine occupies `k` for writing from `res done` of its lock / `res true` of its trylock until its `inv unlock`,
    for reading from `res done` of its rlock / `res true` of its tryrlock until its `inv runlock`;
  * at a write acquisition nobody occupies `k`; at a read acquisition nobody occupies `k` for writing.
-/
namespace TypVerif.Lemmas.C09Accept
open TypVerif TypVerif.Conc TypVerif.Model.KeyedMutex

/-- the response `r` of a call of kind `kd` is a write acquisition -/
def writeAcq (kd : Kind) (r : Res) : Bool :=
  match kd, r with
  | .lock, .done => true
  | .trylock, .tt => true
  | _, _ => false

/-- … a read acquisition -/
def readAcq (kd : Kind) (r : Res) : Bool :=
  match kd, r with
  | .rlock, .done => true
  | .tryrlock, .tt => true
  | _, _ => false

structure Occ where
  /-- calls in progress: (goroutine, operation) -/
  pend : List (Nat × Op)
  /-- (goroutine, key) occupied for writing -/
  w : List (Nat × Nat)
  /-- (goroutine, key) occupied for reading -/
  r : List (Nat × Nat)
  /-- no acquisition so far happened on an incompatibly occupied key -/
  ok : Bool

def Occ.pendOf (o : Occ) (t : Nat) : Option Op := (o.pend.find? (fun p => p.1 == t)).map (·.2)

def occStep (o : Occ) : Event → Occ
  | .inv t op =>
    { o with pend := (t, op) :: o.pend.filter (fun p => p.1 != t),
             w := if op.kind = .unlock then o.w.filter (fun p => p != (t, op.key)) else o.w,
             r := if op.kind = .runlock then o.r.filter (fun p => p != (t, op.key)) else o.r }
  | .res t r =>
    match o.pendOf t with
    | none => o
    | some op =>
      let pend' := o.pend.filter (fun p => p.1 != t)
      if writeAcq op.kind r then
        { pend := pend', w := (t, op.key) :: o.w, r := o.r,
          ok := o.ok && !(o.w.any (fun p => p.2 == op.key)) && !(o.r.any (fun p => p.2 == op.key)) }
      else if readAcq op.kind r then
        { pend := pend', w := o.w, r := (t, op.key) :: o.r,
          ok := o.ok && !(o.w.any (fun p => p.2 == op.key)) }
      else { o with pend := pend' }

def occupancy (tr : List Event) : Occ := tr.foldl occStep ⟨[], [], [], true⟩

/-- the trace respects per-key exclusion at the API level: every write acquisition happens while nobody occupies the key, every
read acquisition while nobody occupies it for writing -/
def OccupancyOk (tr : List Event) : Prop := (occupancy tr).ok = true

instance (tr : List Event) : Decidable (OccupancyOk tr) := inferInstanceAs (Decidable ((occupancy tr).ok = true))

example : OccupancyOk [.inv 0 ⟨.lock, 5⟩, .inv 1 ⟨.lock, 5⟩, .res 0 .done, .inv 0 ⟨.unlock, 5⟩, .res 0 .done, .res 1 .done] := by
  decide
example : ¬ OccupancyOk [.inv 0 ⟨.lock, 5⟩, .inv 1 ⟨.lock, 5⟩, .res 0 .done, .res 1 .done] := by decide
example : ¬ OccupancyOk [.inv 0 ⟨.rlock, 5⟩, .res 0 .done, .inv 1 ⟨.trylock, 5⟩, .res 1 .tt] := by decide
example : OccupancyOk [.inv 0 ⟨.rlock, 5⟩, .res 0 .done, .inv 1 ⟨.tryrlock, 5⟩, .res 1 .tt] := by decide

end TypVerif.Lemmas.C09Accept
