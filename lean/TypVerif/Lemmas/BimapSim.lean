import TypVerif.Lemmas.Bimap
/-
C11: the model refines the specification (`Spec/Bimap.lean`): simulation relation `Rep b s` between a model
Bimap and a specification relation, preserved by every operation, lifted to worlds.
-/
set_option linter.unusedSectionVars false

namespace TypVerif.Lemmas.Bimap
open TypVerif.Model.Bimap
open TypVerif.Spec.Bimap (Rel Injective)

section SP
variable {K V : Type} [DecidableEq K] [DecidableEq V]

/-! ### facts about the specification alone -/

theorem spec_fwd_eq_lookup (s : Rel K V) (k : K) : Spec.Bimap.fwd s k = lookup s k := by
  induction s with
  | nil => rfl
  | cons p xs ih => obtain ⟨a, b⟩ := p; simp only [Spec.Bimap.fwd, lookup, ih]

theorem spec_rev_eq_lookup (s : Rel K V) (v : V) :
    Spec.Bimap.rev s v = lookup (s.map (fun p => (p.2, p.1))) v := by
  induction s with
  | nil => rfl
  | cons p xs ih => obtain ⟨a, b⟩ := p; simp only [Spec.Bimap.rev, List.map_cons, lookup, ih]

theorem spec_fwd_iff {s : Rel K V} (inj : Injective s) (k : K) (v : V) :
    Spec.Bimap.fwd s k = some v ↔ (k, v) ∈ s := by
  rw [spec_fwd_eq_lookup, lookup_eq_some_iff inj.1]

theorem spec_rev_iff {s : Rel K V} (inj : Injective s) (k : K) (v : V) :
    Spec.Bimap.rev s v = some k ↔ (k, v) ∈ s := by
  have nd : NodupKeys (s.map (fun p : K × V => (p.2, p.1))) := by
    have := inj.2
    simpa [NodupKeys, List.map_map, Function.comp_def] using this
  rw [spec_rev_eq_lookup, lookup_eq_some_iff nd, List.mem_map]
  constructor
  · rintro ⟨⟨a, c⟩, hm, e⟩
    injection e with e1 e2
    subst e1; subst e2; exact hm
  · intro hm; exact ⟨(k, v), hm, rfl⟩

/-- the specification lookups of an injective relation are inverse to each other -/
theorem spec_inverse {s : Rel K V} (inj : Injective s) (k : K) (v : V) :
    Spec.Bimap.fwd s k = some v ↔ Spec.Bimap.rev s v = some k := by
  rw [spec_fwd_iff inj, spec_rev_iff inj]

theorem injective_empty : Injective (Spec.Bimap.empty : Rel K V) :=
  ⟨List.nodup_nil, List.nodup_nil⟩

theorem injective_filter {s : Rel K V} (inj : Injective s) (p : K × V → Bool) : Injective (s.filter p) :=
  ⟨inj.1.sublist (List.filter_sublist.map _), inj.2.sublist (List.filter_sublist.map _)⟩

theorem mem_add {s : Rel K V} {k : K} {v : V} {p : K × V} :
    p ∈ Spec.Bimap.add s k v ↔ p = (k, v) ∨ (p ∈ s ∧ p.1 ≠ k ∧ p.2 ≠ v) := by
  simp [Spec.Bimap.add, List.mem_filter]

theorem injective_add {s : Rel K V} (inj : Injective s) (k : K) (v : V) :
    Injective (Spec.Bimap.add s k v) := by
  have hf := injective_filter inj (fun p => decide (p.1 ≠ k) && decide (p.2 ≠ v))
  refine ⟨?_, ?_⟩
  · simp only [Spec.Bimap.add, List.map_cons, List.nodup_cons]
    refine ⟨?_, hf.1⟩
    intro hm
    obtain ⟨p, hp, e⟩ := List.mem_map.mp hm
    simp [List.mem_filter] at hp
    exact hp.2.1 e
  · simp only [Spec.Bimap.add, List.map_cons, List.nodup_cons]
    refine ⟨?_, hf.2⟩
    intro hm
    obtain ⟨p, hp, e⟩ := List.mem_map.mp hm
    simp [List.mem_filter] at hp
    exact hp.2.2 e

/-! ### the simulation relation -/

/-- `s` is the set of pairs stored in `b` -/
structure Rep (b : Bimap K V) (s : Rel K V) : Prop where
  wf : WF b
  inj : Injective s
  mem : ∀ k v, b.getForward? k = some v ↔ (k, v) ∈ s

theorem Rep.fwd_eq {b : Bimap K V} {s : Rel K V} (r : Rep b s) (k : K) :
    b.getForward? k = Spec.Bimap.fwd s k :=
  option_ext fun v => by rw [r.mem, spec_fwd_iff r.inj]

theorem Rep.rev_eq {b : Bimap K V} {s : Rel K V} (r : Rep b s) (v : V) :
    b.getReverse? v = Spec.Bimap.rev s v :=
  option_ext fun k => by rw [← r.wf.inv, r.mem, spec_rev_iff r.inj]

theorem Rep.len_eq {b : Bimap K V} {s : Rel K V} (r : Rep b s) : b.len = Spec.Bimap.len s :=
  (len_eq_of_enum r.wf s (nodup_of_map _ r.inj.1) (fun k v => (r.mem k v).symm)).symm

theorem rep_zero : Rep (zero : Bimap K V) Spec.Bimap.empty :=
  ⟨wf_zero, injective_empty, fun k v => by simp [zero, Bimap.getForward?, Spec.Bimap.empty]⟩

theorem rep_add [Inhabited K] [Inhabited V] {b b' : Bimap K V} {s : Rel K V} (r : Rep b s) (k : K) (v : V)
    (h : b.add k v = .ok b') : Rep b' (Spec.Bimap.add s k v) := by
  obtain ⟨b'', h'', wf', _, hF, _⟩ := add_spec r.wf k v
  rw [h] at h''
  injection h'' with e
  subst e
  refine ⟨wf', injective_add r.inj k v, ?_⟩
  intro k' v'
  rw [hF, mem_add]
  by_cases hk : k = k'
  · subst hk
    simp only [if_true, Option.some.injEq, Prod.mk.injEq, true_and, ne_eq, not_true_eq_false, false_and,
      and_false, or_false]
    exact eq_comm
  · have hk' : ¬ k' = k := fun e => hk e.symm
    simp only [hk, if_false, Prod.mk.injEq, hk', false_and, false_or, ne_eq, not_false_eq_true, true_and]
    by_cases hr : b.getReverse? v = some k'
    · simp only [hr, if_true]
      have hm : (k', v) ∈ s := (r.mem k' v).mp ((r.wf.inv k' v).mpr hr)
      constructor
      · intro e; simp at e
      · rintro ⟨hm', hv⟩
        have e1 := (r.mem k' v).mpr hm
        have e2 := (r.mem k' v').mpr hm'
        rw [e1] at e2
        exact absurd (Option.some.inj e2).symm hv
    · simp only [hr, if_false, r.mem]
      constructor
      · intro hm'
        refine ⟨hm', ?_⟩
        intro e; subst e
        exact hr ((r.wf.inv k' v').mp ((r.mem k' v').mpr hm'))
      · exact fun h => h.1

theorem rep_removeForward [Inhabited V] {b : Bimap K V} {s : Rel K V} (r : Rep b s) (k : K) :
    Rep (b.removeForward k) (Spec.Bimap.removeKey s k) := by
  obtain ⟨wf', _, hF, _⟩ := removeForward_spec r.wf k
  refine ⟨wf', injective_filter r.inj _, ?_⟩
  intro k' v'
  rw [hF]
  simp only [Spec.Bimap.removeKey, List.mem_filter, decide_eq_true_eq, ne_eq]
  by_cases hk : k = k'
  · subst hk; simp
  · have hk' : ¬ k' = k := fun e => hk e.symm
    simp only [hk, if_false, r.mem, hk', not_false_eq_true, and_true]

theorem rep_removeReverse [Inhabited K] {b : Bimap K V} {s : Rel K V} (r : Rep b s) (v : V) :
    Rep (b.removeReverse v) (Spec.Bimap.removeVal s v) := by
  obtain ⟨wf', _, hF, _⟩ := removeReverse_spec r.wf v
  refine ⟨wf', injective_filter r.inj _, ?_⟩
  intro k' v'
  rw [hF]
  simp only [Spec.Bimap.removeVal, List.mem_filter, decide_eq_true_eq, ne_eq]
  by_cases hr : b.getReverse? v = some k'
  · simp only [hr, if_true]
    constructor
    · intro e; simp at e
    · rintro ⟨hm', hv⟩
      have e1 := (r.wf.inv k' v).mpr hr
      have e2 := (r.mem k' v').mpr hm'
      rw [e1] at e2
      exact absurd (Option.some.inj e2).symm hv
  · simp only [hr, if_false, r.mem]
    constructor
    · intro hm'
      refine ⟨hm', ?_⟩
      intro e; subst e
      exact hr ((r.wf.inv k' v').mp ((r.mem k' v').mpr hm'))
    · exact fun h => h.1

theorem rep_clear {b : Bimap K V} {s : Rel K V} (r : Rep b s) : Rep b.clear (Spec.Bimap.clear s) := by
  obtain ⟨wf', _, hF, _⟩ := clear_spec r.wf
  exact ⟨wf', injective_empty, fun k v => by simp [hF, Spec.Bimap.clear]⟩

theorem rep_clone {b : Bimap K V} {s : Rel K V} (r : Rep b s) : Rep b.clone (Spec.Bimap.clone s) := by
  obtain ⟨wf', _, _, hF, _⟩ := clone_spec r.wf
  exact ⟨wf', r.inj, fun k v => by rw [hF]; exact r.mem k v⟩

/-! ### worlds -/

theorem wget_eq_lookup (w : Spec.Bimap.World K V) (h : Int) : Spec.Bimap.wget w h = lookup w h := by
  induction w with
  | nil => rfl
  | cons p xs ih => obtain ⟨a, b⟩ := p; simp only [Spec.Bimap.wget, lookup, ih]

theorem wset_eq_put (w : Spec.Bimap.World K V) (h : Int) (s : Rel K V) : Spec.Bimap.wset w h s = put w h s := by
  induction w with
  | nil => rfl
  | cons p xs ih => obtain ⟨a, b⟩ := p; simp only [Spec.Bimap.wset, put, ih]

/-- pointwise relation on optional values -/
def ORel {α β : Type} (R : α → β → Prop) : Option α → Option β → Prop
  | some a, some b => R a b
  | none, none => True
  | _, _ => False

/-- same handles bound on both sides, and bound objects related -/
def Sim (w : World K V) (sw : Spec.Bimap.World K V) : Prop :=
  ∀ h, ORel Rep (lookup w h) (Spec.Bimap.wget sw h)

theorem sim_nil : Sim ([] : World K V) ([] : Spec.Bimap.World K V) := fun _ => trivial

theorem sim_put {w : World K V} {sw : Spec.Bimap.World K V} (hs : Sim w sw) (h : Int)
    {b : Bimap K V} {s : Rel K V} (r : Rep b s) : Sim (put w h b) (Spec.Bimap.wset sw h s) := by
  intro h'
  rw [wset_eq_put, wget_eq_lookup, lookup_put, lookup_put]
  by_cases hh : h = h'
  · simp only [hh, if_true]; exact r
  · simp only [hh, if_false]
    have := hs h'
    rwa [wget_eq_lookup] at this

variable [Inhabited K] [Inhabited V]

theorem sim_step {w w' : World K V} {sw : Spec.Bimap.World K V} (hs : Sim w sw) (op : Op K V)
    (hstep : step w op = .ok w') : Sim w' (Spec.Bimap.step sw op) := by
  -- shape of the two sides at the source handle
  have src : ∀ h, (lookup w h = none ∧ Spec.Bimap.wget sw h = none) ∨
      ∃ b s, lookup w h = some b ∧ Spec.Bimap.wget sw h = some s ∧ Rep b s := by
    intro h
    have := hs h
    cases e1 : lookup w h with
    | none =>
      cases e2 : Spec.Bimap.wget sw h with
      | none => exact Or.inl ⟨rfl, rfl⟩
      | some s => rw [e1, e2] at this; exact this.elim
    | some b =>
      cases e2 : Spec.Bimap.wget sw h with
      | none => rw [e1, e2] at this; exact this.elim
      | some s => rw [e1, e2] at this; exact Or.inr ⟨b, s, rfl, rfl, this⟩
  cases op with
  | new h =>
    simp only [step, Except.ok.injEq] at hstep
    subst hstep
    exact sim_put hs h rep_zero
  | add h k v =>
    rcases src h with ⟨e1, e2⟩ | ⟨b, s, e1, e2, r⟩
    · simp only [step, e1, Except.ok.injEq] at hstep
      subst hstep
      simpa only [Spec.Bimap.step, Spec.Bimap.wupd, e2] using hs
    · obtain ⟨b', hb', _⟩ := add_spec r.wf k v
      simp only [step, e1, hb', Except.ok.injEq] at hstep
      subst hstep
      simp only [Spec.Bimap.step, Spec.Bimap.wupd, e2]
      exact sim_put hs h (rep_add r k v hb')
  | rmf h k =>
    rcases src h with ⟨e1, e2⟩ | ⟨b, s, e1, e2, r⟩
    · simp only [step, e1, Except.ok.injEq] at hstep
      subst hstep
      simpa only [Spec.Bimap.step, Spec.Bimap.wupd, e2] using hs
    · simp only [step, e1, Except.ok.injEq] at hstep
      subst hstep
      simp only [Spec.Bimap.step, Spec.Bimap.wupd, e2]
      exact sim_put hs h (rep_removeForward r k)
  | rmr h v =>
    rcases src h with ⟨e1, e2⟩ | ⟨b, s, e1, e2, r⟩
    · simp only [step, e1, Except.ok.injEq] at hstep
      subst hstep
      simpa only [Spec.Bimap.step, Spec.Bimap.wupd, e2] using hs
    · simp only [step, e1, Except.ok.injEq] at hstep
      subst hstep
      simp only [Spec.Bimap.step, Spec.Bimap.wupd, e2]
      exact sim_put hs h (rep_removeReverse r v)
  | clear h =>
    rcases src h with ⟨e1, e2⟩ | ⟨b, s, e1, e2, r⟩
    · simp only [step, e1, Except.ok.injEq] at hstep
      subst hstep
      simpa only [Spec.Bimap.step, Spec.Bimap.wupd, e2] using hs
    · simp only [step, e1, Except.ok.injEq] at hstep
      subst hstep
      simp only [Spec.Bimap.step, Spec.Bimap.wupd, e2]
      exact sim_put hs h (rep_clear r)
  | clone h t =>
    rcases src h with ⟨e1, e2⟩ | ⟨b, s, e1, e2, r⟩
    · simp only [step, e1, Except.ok.injEq] at hstep
      subst hstep
      simpa only [Spec.Bimap.step, e2] using hs
    · simp only [step, e1, Except.ok.injEq] at hstep
      subst hstep
      simp only [Spec.Bimap.step, e2]
      exact sim_put hs t (rep_clone r)

theorem sim_runFrom {w w' : World K V} {sw : Spec.Bimap.World K V} (hs : Sim w sw) (ops : List (Op K V))
    (hrun : runFrom w ops = .ok w') : Sim w' (Spec.Bimap.runFrom sw ops) := by
  induction ops generalizing w sw with
  | nil =>
    simp only [runFrom, Except.ok.injEq] at hrun
    subst hrun; exact hs
  | cons op ops ih =>
    simp only [runFrom] at hrun
    cases e : step w op with
    | error msg => rw [e] at hrun; simp at hrun
    | ok w1 =>
      rw [e] at hrun
      exact ih (sim_step hs op e) hrun

theorem sim_run (ops : List (Op K V)) {w' : World K V} (hrun : run ops = .ok w') :
    Sim w' (Spec.Bimap.run ops) :=
  sim_runFrom sim_nil ops hrun

end SP

end TypVerif.Lemmas.Bimap
