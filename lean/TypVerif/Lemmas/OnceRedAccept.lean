import TypVerif.Lemmas.OnceRedSim
import TypVerif.Lemmas.OnceRedClosure
/-
The acceptor `Conc.accepts (red n arity res) fuel` accepts every visible trace of the model when `fuel ≥ 3`: between two
visible events the reduced system needs at most three internal steps (normalise, the winner's `Lock`, normalise).
-/
namespace TypVerif.Lemmas.OnceRed
open TypVerif TypVerif.Conc TypVerif.Model.Once TypVerif.Drv.C17 TypVerif.Lemmas.Once

/-- internal steps of `red` still to come before the next visible event: 2 while the winner has not taken the mutex -/
def bud (s : State) : Nat := if s.done = false ∧ s.mu = none then 2 else 0

theorem bud_mono (res : Nat → List Int) (s : State) (l : Option Event) (s1 : State) (hg : GoodX s)
    (hm : (l, s1) ∈ succ res s) : bud s1 ≤ bud s := by
  obtain ⟨t, ht, hstep⟩ := mem_succ.mp hm
  have hT := hg.good.thread t
  unfold ThreadOk at hT
  unfold stepT at hstep
  split at hstep <;> (try split at hstep) <;> simp at hstep <;> obtain ⟨rfl, rfl⟩ := hstep <;>
    simp only [bud, State.setPc] <;> first | exact Nat.le_refl _ | simp_all

theorem nonurgent_tau (res : Nat → List Int) (s : State) (t : Nat) (s1 : State) (hu : urgent s t = false)
    (hstep : (none, s1) ∈ stepT res s t) : bud s = 2 ∧ bud s1 = 0 := by
  unfold urgent at hu
  unfold stepT at hstep
  split at hstep <;> (try split at hstep) <;> simp at hstep <;> try (obtain ⟨rfl, rfl⟩ := hstep) <;>
    simp_all [bud, State.setPc]

theorem sim_tau (n a : Nat) (res : Nat → List Int) (s s1 : State) (hg : GoodX s) (hm : (none, s1) ∈ succ res s) :
    ∃ k, TauN (red n a res) k (nf s) (nf s1) ∧ k + bud s1 ≤ bud s := by
  obtain ⟨t, ht, hstep⟩ := mem_succ.mp hm
  cases hu : urgent s t with
  | true =>
    obtain ⟨_, h2, _⟩ := urgent_step_nf res s t none s1 hg ht hu hstep
    rw [h2]
    exact ⟨0, TauN.refl _ _, by have := bud_mono res s none s1 hg hm; omega⟩
  | false =>
    obtain ⟨ls, hex, hv, hlen⟩ := sim_step n a res s s1 none hg hm
    obtain ⟨hb, hb1⟩ := nonurgent_tau res s t s1 hu hstep
    exact ⟨2, (TauN.of_exec hex hv).mono hlen, by omega⟩

theorem sim_vis (n a : Nat) (res : Nat → List Int) (s s1 : State) (e : Event) (hg : GoodX s)
    (hm : (some e, s1) ∈ succ res s) :
    ∃ r1, (some e, r1) ∈ (red n a res).succ (nf s) ∧ TauN (red n a res) 1 r1 (nf s1) := by
  obtain ⟨t, ht, hstep⟩ := mem_succ.mp hm
  cases hu : urgent s t with
  | true =>
    have := (urgent_step_nf res s t _ s1 hg ht hu hstep).1
    cases this
  | false =>
    obtain ⟨r1, hr1, hnf⟩ := nonurgent_step res s t _ s1 hg ht hu hstep
    have hpn : pick (nf s) = none := pick_none_of _ (urgent_nf s)
    have hmem0 : (some e, r1) ∈ succ res (nf s) := mem_succ.2 ⟨t, by simpa [nf_len] using ht, hr1⟩
    have hmem : (some e, r1) ∈ (red n a res).succ (nf s) := by
      rw [red_succ_none n a res _ hpn]; exact hmem0
    have hgr1 : GoodX r1 := goodX_step res _ _ r1 (goodX_nf s hg) hmem0
    obtain ⟨ls, hex, hv, hlen⟩ := red_to_nf n a res r1 hgr1
    rw [hnf] at hex
    exact ⟨r1, hmem, (TauN.of_exec hex hv).mono hlen⟩

/-- the state set `ss` of the acceptor covers the model state `s` -/
def Cover (n a : Nat) (res : Nat → List Int) (ss : List (red n a res).State) (s : State) : Prop :=
  ∀ (x : (red n a res).State) (k : Nat), k ≤ bud s → TauN (red n a res) k (nf s) x → x ∈ ss

theorem cover_exec (n a : Nat) (res : Nat → List Int) (fuel : Nat) (hf : 3 ≤ fuel) {s s' : State}
    {ls : List (Option Event)} (h : Exec (sys n a res) s ls s') (hg : GoodX s) :
    ∀ ss, Cover n a res ss s → Cover n a res ((visible ls).foldl (stepEvent (red n a res) fuel) ss) s' := by
  refine Exec.rel_induct (sys' := sys n a res)
    (fun s ls s' => GoodX s → ∀ ss, Cover n a res ss s →
      Cover n a res ((visible ls).foldl (stepEvent (red n a res) fuel) ss) s') ?_ ?_ h hg
  · intro s _ ss hc
    exact hc
  · intro s l s1 ls s'' hm ih hg ss hc
    have hg1 := goodX_step res s l s1 hg hm
    cases l with
    | none =>
      refine ih hg1 ss ?_
      obtain ⟨k0, ht0, hk0⟩ := sim_tau n a res s s1 hg hm
      intro x k hk ht
      exact hc x (k0 + k) (by omega) (ht0.trans ht)
    | some e =>
      refine ih hg1 (stepEvent (red n a res) fuel ss e) ?_
      obtain ⟨r1, hr1, ht1⟩ := sim_vis n a res s s1 e hg hm
      intro x k hk ht
      have hb : bud s1 ≤ 2 := by unfold bud; split <;> omega
      exact stepEvent_complete (red n a res) fuel ss e (nf s) r1 x (1 + k)
        (hc (nf s) 0 (Nat.zero_le _) (TauN.refl _ _)) hr1 (ht1.trans ht) (by omega)

theorem after_complete (n a : Nat) (res : Nat → List Int) (fuel : Nat) (hf : 3 ≤ fuel) (ls : List (Option Event))
    (s : State) (h : Exec (sys n a res) (sys n a res).init ls s) :
    nf s ∈ after (red n a res) fuel (visible ls) := by
  have hc0 : Cover n a res (tauClosure (red n a res) fuel [(red n a res).init]) (init n a) := by
    intro x k hk ht
    have hb : bud (init n a) ≤ 2 := by unfold bud; split <;> omega
    rw [nf_init] at ht
    exact tauClosure_complete (red n a res) fuel _ (by simp) k _ x (by omega) (List.mem_singleton.2 rfl) ht
  have := cover_exec n a res fuel hf h (goodX_init n a) _ hc0
  exact this (nf s) 0 (Nat.zero_le _) (TauN.refl _ _)

theorem accepts_complete (n a : Nat) (res : Nat → List Int) (fuel : Nat) (hf : 3 ≤ fuel) (ls : List (Option Event))
    (s : State) (h : Exec (sys n a res) (sys n a res).init ls s) :
    accepts (red n a res) fuel (visible ls) = true := by
  have := after_complete n a res fuel hf ls s h
  unfold accepts
  cases hA : after (red n a res) fuel (visible ls) with
  | nil => rw [hA] at this; cases this
  | cons _ _ => rfl

end TypVerif.Lemmas.OnceRed
