import TypVerif.Lemmas.C09AcceptStep
import TypVerif.Lemmas.C09AcceptCanon
/-
Acceptance soundness for the judge `Drv/C09.lean`, one event, in the literal form: every state the fast judge produces IS the
normal form of a model state reached by an execution with visible trace `[e]` (using canonicity of `norm`, `norm_eq_of_R`).
-/
namespace TypVerif.Lemmas.C09Accept
open TypVerif TypVerif.Conc TypVerif.Model.KeyedMutex TypVerif.Drv.C09

theorem stepEventWith_norm (cl : Std.HashSet State → List State → Array State → Array State) (rw : Bool)
    (hcl : CloseSound rw cl) (ops : List Op) (ss : List State) (e : Event) :
    ∀ y ∈ stepEventWith cl rw ops ss e, ∃ x ∈ ss, ∀ a, R a x → ∃ (ls : List (Option Event)) (a' : State),
      Ex rw ops a ls a' ∧ visible ls = [e] ∧ R a' y ∧ y = norm a' := by
  let P : State → Prop := fun y => ∃ x ∈ ss, ∀ a, R a x → ∃ (ls : List (Option Event)) (a' : State),
    Ex rw ops a ls a' ∧ visible ls = [e] ∧ R a' y ∧ y = norm a'
  have hP : ∀ x z, P x → (none, z) ∈ succ rw true [] x → P (norm z) := by
    intro x' z ⟨x, hx, hall⟩ hz
    refine ⟨x, hx, fun a ha => ?_⟩
    obtain ⟨ls, a', hex, hv, hr, _⟩ := hall a ha
    obtain ⟨a'', hs, hr'⟩ := R_succ hr hz
    refine ⟨ls ++ [none], a'', hex.append (.cons (succ_nil_ops ops hs) (.nil _)), ?_, R_norm hr', norm_eq_of_R hr'⟩
    simp [hv]
  have hnext : ∀ y ∈ ss.flatMap (fun s => (succ rw true ops s).filterMap (fun p => match p.1 with
      | some e' => if e' = e then some (norm p.2) else none
      | none => none)), P y := by
    intro y hy
    obtain ⟨x, hx, hm⟩ := List.mem_flatMap.1 hy
    obtain ⟨p, hp, hpe⟩ := List.mem_filterMap.1 hm
    obtain ⟨l, z⟩ := p
    cases l with
    | none => simp at hpe
    | some e' =>
      simp only at hpe
      split at hpe
      · rename_i heq
        subst heq
        simp only [Option.some.injEq] at hpe
        subst hpe
        refine ⟨x, hx, fun a ha => ?_⟩
        obtain ⟨a', hs, hr'⟩ := R_succ ha hp
        exact ⟨[some e'], a', .cons hs (.nil _), rfl, R_norm hr', norm_eq_of_R hr'⟩
      · cases hpe
  intro y hy
  unfold stepEventWith at hy
  simp only at hy
  have hstart := start_fold_sound P _ hnext (({} : Std.HashSet State), #[]) (by intro y hy; simp at hy)
  exact hcl P hP _ _ _ hstart hstart y hy

end TypVerif.Lemmas.C09Accept
