import TypVerif.Conc.Sys
/-
Concrete executions of a transition system by successor indices, to exhibit reachable states
(non-vacuity witnesses): `pick sys s [i₀, i₁, …]` follows the `i₀`-th successor of `s`, then the `i₁`-th, ….
-/
namespace TypVerif.Lemmas.ChanExec
open TypVerif.Conc

def pick (sys : Sys) : sys.State → List Nat → Option sys.State
  | s, [] => some s
  | s, i :: is =>
    match (sys.succ s)[i]? with
    | some (_, s') => pick sys s' is
    | none => none

theorem reachable_pick (sys : Sys) : ∀ (path : List Nat) (s s' : sys.State),
    Reachable sys s → pick sys s path = some s' → Reachable sys s' := by
  intro path
  induction path with
  | nil => intro s s' hr h; simp [pick] at h; subst h; exact hr
  | cons i is ih =>
    intro s s' hr h
    unfold pick at h
    split at h
    · rename_i l s1 heq
      exact ih s1 s' (.step hr (List.mem_of_getElem? heq)) h
    · simp at h

theorem reachable_of_pick (sys : Sys) (path : List Nat) (s' : sys.State)
    (h : pick sys sys.init path = some s') : Reachable sys s' :=
  reachable_pick sys path sys.init s' .init h

end TypVerif.Lemmas.ChanExec
