import TypVerif.Spec.Seq
/-
Closed forms of the loop-shaped specification of PushBackList / PushFrontList in `Spec/Seq.lean`
(sanity facts about the specification itself): the receiving list gets the consecutive new ids
`base, base+1, …` appended / prepended in front-to-back order, the i-th new element carries the value of the
i-th old element of the source, every other list is unchanged.
-/
namespace TypVerif.Lemmas.ListSpecFacts
open TypVerif.Spec.ListOp
open TypVerif.Spec.Seq
open TypVerif.Model (Store)

theorem pushBackAll_lists (l : ListId) : ∀ (ys : List ElemId) (id : ElemId) (w : World) (l' : ListId),
    (pushBackAll l id ys w).lists.get l' =
      if l' = l then w.lists.get l ++ List.range' id ys.length else w.lists.get l'
  | [], id, w, l' => by unfold pushBackAll; split <;> simp_all
  | y :: ys, id, w, l' => by
    unfold pushBackAll
    rw [pushBackAll_lists l ys (id + 1)]
    show (if l' = l then (w.lists.set l _).get l ++ _ else (w.lists.set l _).get l') = _
    by_cases h : l' = l
    · simp [h, List.range'_succ]
    · simp [h, Store.get_set]

theorem pushFrontAll_lists (l : ListId) (base : ElemId) : ∀ (rev : List ElemId) (w : World) (l' : ListId),
    (pushFrontAll l base rev w).lists.get l' =
      if l' = l then List.range' base rev.length ++ w.lists.get l else w.lists.get l'
  | [], w, l' => by unfold pushFrontAll; split <;> simp_all
  | y :: rev, w, l' => by
    unfold pushFrontAll
    rw [pushFrontAll_lists l base rev]
    show (if l' = l then _ ++ (w.lists.set l _).get l else (w.lists.set l _).get l') = _
    by_cases h : l' = l
    · simp [h, List.range'_concat]
    · simp [h, Store.get_set]

/-- later iterations of PushBackList only write ids `≥ id'` -/
theorem pushBackAll_value_lt (l : ListId) : ∀ (zs : List ElemId) (id' : Nat) (w' : World) (x : Nat), x < id' →
    (pushBackAll l id' zs w').value.get x = w'.value.get x
  | [], _, _, _, _ => rfl
  | z :: zs, id', w', x, hlt => by
    unfold pushBackAll
    rw [pushBackAll_value_lt l zs (id' + 1) _ x (Nat.lt_succ_of_lt hlt)]
    show (w'.value.set id' _).get x = _
    rw [Store.get_set_ne _ _ (Nat.ne_of_lt hlt)]

/-- values of the copies made by PushBackList: the i-th new element has the value of the i-th source
(the sources are existing elements: their ids are below the new ids) -/
theorem pushBackAll_value (l : ListId) : ∀ (ys : List ElemId) (id : Nat) (w : World) (i : Nat) (y0 : Nat),
    ys[i]? = some y0 → (∀ y ∈ ys, y < id) → (pushBackAll l id ys w).value.get (id + i) = w.value.get y0
  | [], _, _, _, _, h, _ => by simp at h
  | y :: ys, id, w, 0, y0, h, _ => by
    simp only [List.getElem?_cons_zero, Option.some.injEq] at h
    subst h
    unfold pushBackAll
    show (pushBackAll l (id + 1) ys _).value.get id = _
    rw [pushBackAll_value_lt l ys (id + 1) _ id (Nat.lt_succ_self _)]
    show (w.value.set id _).get id = _
    rw [Store.get_set_self]
  | y :: ys, id, w, i + 1, y0, h, hlt => by
    simp only [List.getElem?_cons_succ] at h
    unfold pushBackAll
    have e : id + (i + 1) = id + 1 + i := by omega
    rw [e, pushBackAll_value l ys (id + 1) _ i y0 h
      (fun z hz => Nat.lt_succ_of_lt (hlt z (List.mem_cons_of_mem _ hz)))]
    show (w.value.set id _).get y0 = w.value.get y0
    have hy0 : y0 ∈ ys := List.mem_of_getElem? h
    have : y0 ≠ id := Nat.ne_of_lt (hlt _ (List.mem_cons_of_mem _ hy0))
    rw [Store.get_set_ne _ _ this]

end TypVerif.Lemmas.ListSpecFacts
