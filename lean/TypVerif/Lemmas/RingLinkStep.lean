import TypVerif.Lemmas.RingLoops
import TypVerif.Lemmas.RingLinkPure
/-
`Move`, `Link`, `Unlink` against the abstract world.
-/
namespace TypVerif.Lemmas.Ring
open TypVerif.Model TypVerif.Model.Ring TypVerif.Spec.RingOp TypVerif.Spec.RingSeq

/-! ### Move -/

theorem iter_fixed {f : RingId → RingId} {x : RingId} (hx : f x = x) : ∀ k, iter f k x = x := by
  intro k; induction k with
  | zero => rfl
  | succ k ih => simp only [iter, hx, ih]

theorem iter_next_inited {h : RHeap} {w : RWorld} (wf : RingWF h w) :
    ∀ (k : Nat) (x : RingId), x < h.size → h.nx x ≠ none →
      iter (nextOf w) k x < h.size ∧ h.nx (iter (nextOf w) k x) ≠ none := by
  intro k; induction k with
  | zero => intro x hx hi; exact ⟨hx, hi⟩
  | succ k ih => intro x hx hi; have := nextOf_inited wf hx hi; exact ih _ this.1 this.2

theorem iter_prev_inited {h : RHeap} {w : RWorld} (wf : RingWF h w) :
    ∀ (k : Nat) (x : RingId), x < h.size → h.nx x ≠ none →
      iter (prevOf w) k x < h.size ∧ h.nx (iter (prevOf w) k x) ≠ none := by
  intro k; induction k with
  | zero => intro x hx hi; exact ⟨hx, hi⟩
  | succ k ih => intro x hx hi; have := prevOf_inited wf hx hi; exact ih _ this.1 this.2

theorem Move_spec {h : RHeap} {w : RWorld} (wf : RingWF h w) {r : RingId} (hr : r < h.size) (n : Int) :
    RingWF (Move h r n).1 w ∧ (Move h r n).2 = .ok (some (moveOf w r n)) ∧
      (Move h r n).1.size = h.size ∧ moveOf w r n < h.size := by
  unfold Move
  cases hz : h.nx r with
  | none =>
    have wf1 := wf_init wf hr hz
    have hsz : (init h r).1.size = h.size := by simp [init]
    have hnx : (init h r).1.nx r = some r := by simp [init]
    have hpv : (init h r).1.pv r = some r := by simp [init]
    have hi : (init h r).1.nx r ≠ none := by rw [hnx]; simp
    have e1 := nx_eq_nextOf wf1 (hsz ▸ hr) hi
    have e2 := pv_eq_prevOf wf1 (hsz ▸ hr) hi
    rw [hnx] at e1; rw [hpv] at e2
    have hm : moveOf w r n = r := by
      unfold moveOf
      split
      · exact iter_fixed (Option.some.inj e2).symm _
      · exact iter_fixed (Option.some.inj e1).symm _
    rw [hm]
    exact ⟨wf1, rfl, hsz, hr⟩
  | some q =>
    have hi : h.nx r ≠ none := by rw [hz]; simp
    dsimp only
    unfold moveOf
    by_cases h1 : n < 0
    · simp only [h1, if_true]
      exact ⟨wf, moveLoop_prev wf _ r hr hi, trivial, (iter_prev_inited wf _ r hr hi).1⟩
    · simp only [h1, if_false]
      by_cases h2 : n > 0
      · simp only [h2, if_true]
        exact ⟨wf, moveLoop_next wf _ r hr hi, trivial, (iter_next_inited wf _ r hr hi).1⟩
      · simp only [h2, if_false]
        have : n = 0 := by omega
        subst this
        exact ⟨wf, rfl, trivial, hr⟩

/-! ### Link -/

theorem Link_some_eq (h : RHeap) (r s : RingId) :
    Link h r (some s) =
      (match (Prev (Next h r).1 s).2 with
       | none => (((((Prev (Next h r).1 s).1.setNext r (some s)).setPrev s (some r)).setPrev (Next h r).2 none),
                   .error "nilfunc")
       | some p => ((((((Prev (Next h r).1 s).1.setNext r (some s)).setPrev s (some r)).setPrev (Next h r).2
                    (some p))).setNext p (some (Next h r).2), .ok (Next h r).2)) := by
  unfold Link
  rcases Next h r with ⟨h1, n⟩
  dsimp only
  rcases Prev h1 s with ⟨h2, p⟩
  cases p <;> rfl

theorem headD_mem (r : RingId) (t : List RingId) : t.headD r ∈ r :: t := by
  cases t <;> simp

theorem getLastD_mem (r : RingId) (t : List RingId) : t.getLastD r ∈ r :: t := by
  rw [List.getLastD_eq_getLast?]
  cases hl : t.getLast? with
  | none => simp
  | some x => simp [List.mem_of_getLast? hl]

theorem cycle_unique {cs : List (List RingId)} (nd : cs.flatten.Nodup) {c d : List RingId}
    (hc : c ∈ cs) (hd : d ∈ cs) {x : RingId} (hxc : x ∈ c) (hxd : x ∈ d) : c = d := by
  have e1 := find_cycle nd hc hxc
  have e2 := find_cycle nd hd hxd
  rw [e1] at e2
  exact Option.some.inj e2

theorem mem_ne {d : List RingId} {x p : RingId} (hx : x ∈ d) (hp : p ∉ d) : x ≠ p :=
  fun e => hp (e ▸ hx)

theorem good_upd {nx pv : PF} {d : List RingId} {r s n p : RingId} (v1 v2 u1 u2)
    (hr : r ∉ d) (hs : s ∉ d) (hn : n ∉ d) (hp : p ∉ d) (h : Good nx pv d) :
    Good (upd (upd nx r v1) p v2) (upd (upd pv s u1) n u2) d := by
  apply good_congr _ _ h
  · intro x hx
    rw [upd_ne _ _ (mem_ne hx hp), upd_ne _ _ (mem_ne hx hr)]
  · intro x hx
    rw [upd_ne _ _ (mem_ne hx hn), upd_ne _ _ (mem_ne hx hs)]

/-- assembling the invariant after the four writes -/
theorem wf_link_build {h2 hf : RHeap} {w : RWorld} (wf2 : RingWF h2 w) {r s n p : RingId}
    (hnx : hf.nx = upd (upd h2.nx r (some s)) p (some n))
    (hpv : hf.pv = upd (upd h2.pv s (some r)) n (some p))
    (hval : hf.val = h2.val) (hsz : hf.size = h2.size)
    (hr : r < h2.size) (hs : s < h2.size) (hn : n < h2.size) (hp : p < h2.size)
    {cs' : List (List RingId)}
    (hperm : cs'.flatten.Perm w.cycles.flatten) (hne : ∀ c ∈ cs', c ≠ [])
    (hgood : ∀ c ∈ cs', Good hf.nx hf.pv c) : RingWF hf { w with cycles := cs' } where
  size_eq := by rw [hsz]; exact wf2.size_eq
  world := wf2.world.of_perm rfl hperm hne
  value_eq := by rw [hsz, hval]; exact wf2.value_eq
  good := hgood
  fresh := by
    intro i hi
    rw [hsz] at hi
    rw [hnx, hpv, hval]
    have e1 : i ≠ r := Nat.ne_of_gt (Nat.lt_of_lt_of_le hr hi)
    have e2 : i ≠ s := Nat.ne_of_gt (Nat.lt_of_lt_of_le hs hi)
    have e3 : i ≠ n := Nat.ne_of_gt (Nat.lt_of_lt_of_le hn hi)
    have e4 : i ≠ p := Nat.ne_of_gt (Nat.lt_of_lt_of_le hp hi)
    rw [upd_ne _ _ e4, upd_ne _ _ e1, upd_ne _ _ e3, upd_ne _ _ e2]
    exact wf2.fresh i hi


theorem link_snd (w : RWorld) (r : RingId) (s : Option RingId) : (link w r s).2 = nextOf w r := by
  unfold link
  cases s with
  | none => rfl
  | some s => dsimp only; split <;> rfl

/-- different rings: merge -/
theorem link_core_diff {h2 hf : RHeap} {w : RWorld} (wf2 : RingWF h2 w) {r s n p : RingId}
    (hr : r < h2.size) (hs : s < h2.size)
    (hn : h2.nx r = some n) (hp : h2.pv s = some p) (his : h2.nx s ≠ none)
    (hnx : hf.nx = upd (upd h2.nx r (some s)) p (some n))
    (hpv : hf.pv = upd (upd h2.pv s (some r)) n (some p))
    (hval : hf.val = h2.val) (hsz : hf.size = h2.size)
    (hdiff : s ∉ cycOf w r) :
    RingWF hf (link w r (some s)).1 := by
  have nd := wf2.world.nodup
  have hir : h2.nx r ≠ none := by rw [hn]; simp
  obtain ⟨cr, R, hcr, hrcr, hcyR, hpermR, hclR, hlR⟩ := bridge wf2 hr hir
  obtain ⟨cs, S, hcs, hscs, hcyS, hpermS, hclS, hlS⟩ := bridge wf2 hs his
  have ndR : (r :: R).Nodup := hpermR.nodup_iff.2 (cycle_nodup nd hcr)
  have ndS : (s :: S).Nodup := hpermS.nodup_iff.2 (cycle_nodup nd hcs)
  have hn' : n = R.headD r := by
    have := linked_head hlR; rw [hn] at this; exact Option.some.inj this
  have hp' : p = S.getLastD s := by
    have := linked_last hlS; rw [hp] at this; exact Option.some.inj this
  have nmem : n ∈ cr := hpermR.mem_iff.1 (hn' ▸ headD_mem r R)
  have pmem : p ∈ cs := hpermS.mem_iff.1 (hp' ▸ getLastD_mem s S)
  have hrcs : r ∉ cs := by
    intro hrcs
    have := cycle_unique nd hcr hcs hrcr hrcs
    subst this
    exact hdiff (hcyR ▸ hpermR.mem_iff.2 hscs)
  have hcsO : cs ∈ others w.cycles r := mem_others.2 ⟨hcs, hrcs⟩
  have ndO := others_nodup nd hcr hrcr
  have P1 := others_perm nd hcr hrcr
  have P2 := others_perm ndO hcsO hscs
  have e : (link w r (some s)).1 =
      { w with cycles := (r :: (s :: S) ++ R) :: others (others w.cycles r) s } := by
    have hdiff' : ¬ s ∈ r :: R := hcyR ▸ hdiff
    simp only [link, hcyS, hcyR, List.tail_cons, hdiff', if_false]
  rw [e]
  apply wf_link_build wf2 hnx hpv hval hsz hr hs (members wf2 hcr hclR nmem).1 (members wf2 hcs hclS pmem).1
  · rw [List.flatten_cons]
    have q1 : (r :: ((s :: S) ++ R)).Perm (cr ++ cs) :=
      ((List.perm_append_comm (l₁ := s :: S) (l₂ := R)).cons r).trans (hpermR.append hpermS)
    refine (q1.append_right _).trans ?_
    rw [List.append_assoc]
    exact (P2.symm.append_left cr).trans P1.symm
  · intro c hc
    rcases List.mem_cons.1 hc with rfl | hc
    · simp
    · exact wf2.world.nonempty c (mem_others.1 (mem_others.1 hc).1).1
  · intro c hc
    rcases List.mem_cons.1 hc with rfl | hc
    · right
      have nd' : ((r :: R) ++ (s :: S)).Nodup := by
        rw [List.nodup_append]
        refine ⟨ndR, ndS, ?_⟩
        intro a ha b hb e
        subst e
        exact others_disjoint nd hcr hrcr hcsO (hpermR.mem_iff.1 ha) (hpermS.mem_iff.1 hb)
      have := link_diff hlR hlS nd' hn hp
      unfold CycLinked
      rw [hnx, hpv]
      simpa using this
    · have hc1 := mem_others.1 hc
      have hc2 := mem_others.1 hc1.1
      rw [hnx, hpv]
      exact good_upd _ _ _ _ hc2.2 hc1.2 (others_disjoint nd hcr hrcr hc1.1 nmem)
        (others_disjoint ndO hcsO hscs hc pmem) (wf2.good c hc2.1)


/-- same ring: split -/
theorem link_core_same {h2 hf : RHeap} {w : RWorld} (wf2 : RingWF h2 w) {r s n p : RingId}
    (hr : r < h2.size) (hs : s < h2.size)
    (hn : h2.nx r = some n) (hp : h2.pv s = some p) (his : h2.nx s ≠ none)
    (hnx : hf.nx = upd (upd h2.nx r (some s)) p (some n))
    (hpv : hf.pv = upd (upd h2.pv s (some r)) n (some p))
    (hval : hf.val = h2.val) (hsz : hf.size = h2.size)
    (hsame : s ∈ cycOf w r) :
    RingWF hf (link w r (some s)).1 := by
  have nd := wf2.world.nodup
  have hir : h2.nx r ≠ none := by rw [hn]; simp
  obtain ⟨cr, R, hcr, hrcr, hcyR, hpermR, hclR, hlR⟩ := bridge wf2 hr hir
  obtain ⟨cs, S, hcs, hscs, hcyS, hpermS, hclS, hlS⟩ := bridge wf2 hs his
  have ndR : (r :: R).Nodup := hpermR.nodup_iff.2 (cycle_nodup nd hcr)
  have smem : s ∈ r :: R := hcyR ▸ hsame
  have smem' : s ∈ cr := hpermR.mem_iff.1 smem
  have hcseq : cs = cr := cycle_unique nd hcs hcr hscs smem'
  have hn' : n = R.headD r := by
    have := linked_head hlR; rw [hn] at this; exact Option.some.inj this
  have hp' : p = S.getLastD s := by
    have := linked_last hlS; rw [hp] at this; exact Option.some.inj this
  have nmem : n ∈ cr := hpermR.mem_iff.1 (hn' ▸ headD_mem r R)
  have pmem : p ∈ cr := hcseq ▸ hpermS.mem_iff.1 (hp' ▸ getLastD_mem s S)
  have P1 := others_perm nd hcr hrcr
  have e : (link w r (some s)).1 = { w with cycles := splitRing r s R ++ others w.cycles r } := by
    simp only [link, hcyR, List.tail_cons, smem, if_true]
  rw [e]
  have hOthers : ∀ d ∈ others w.cycles r, Good hf.nx hf.pv d := by
    intro d hd
    have hd' := mem_others.1 hd
    rw [hnx, hpv]
    exact good_upd _ _ _ _ hd'.2 (others_disjoint nd hcr hrcr hd smem') (others_disjoint nd hcr hrcr hd nmem)
      (others_disjoint nd hcr hrcr hd pmem) (wf2.good d hd'.1)
  have build : ∀ X : List (List RingId), X.flatten.Perm (r :: R) → (∀ c ∈ X, c ≠ []) →
      (∀ c ∈ X, Good hf.nx hf.pv c) → RingWF hf { w with cycles := X ++ others w.cycles r } := by
    intro X hX hne hg
    apply wf_link_build wf2 hnx hpv hval hsz hr hs (members wf2 hcr hclR nmem).1 (members wf2 hcr hclR pmem).1
    · rw [List.flatten_append]; exact ((hX.trans hpermR).append_right _).trans P1.symm
    · intro c hc
      rcases List.mem_append.1 hc with hc | hc
      · exact hne c hc
      · exact wf2.world.nonempty c (mem_others.1 hc).1
    · intro c hc
      rcases List.mem_append.1 hc with hc | hc
      · exact hg c hc
      · exact hOthers c hc
  have rR : r ∉ R := (List.nodup_cons.1 ndR).1
  unfold splitRing
  by_cases hsr : s = r
  · -- s = r
    rw [if_pos hsr, hsr, before_of_not_mem rR]
    rw [hsr] at hp hnx hpv
    by_cases hR0 : R = []
    · rw [if_pos hR0]
      subst hR0
      have hl : Linked h2.nx h2.pv (r :: r :: []) := hlR
      obtain ⟨e1, e2⟩ := link_same_nil hl hn hp
      apply build
      · simp
      · simp
      · intro c hc
        simp only [List.mem_singleton] at hc
        subst hc
        right
        rw [hnx, hpv, e1, e2]
        exact hl
    · rw [if_neg hR0]
      have := link_same (A := R) (T := []) hlR hR0 ndR rR (by simp) (by simp) hn hp
      apply build
      · simp
      · intro c hc
        simp only [List.mem_cons, List.not_mem_nil, or_false] at hc
        rcases hc with rfl | rfl
        · simp
        · exact hR0
      · intro c hc
        simp only [List.mem_cons, List.not_mem_nil, or_false] at hc
        rw [hnx, hpv]
        rcases hc with rfl | rfl
        · right; exact this.1
        · right; exact this.2.1
  · -- s ≠ r
    rw [if_neg hsr]
    have hsR : s ∈ R := by
      rcases List.mem_cons.1 smem with h | h
      · exact absurd h hsr
      · exact h
    have hsplit := split_of_mem hsR
    have hsA := not_mem_before s R
    generalize before s R = A at hsplit hsA ⊢
    generalize after s R = B at hsplit ⊢
    have hl' : Linked h2.nx h2.pv (r :: A ++ s :: (B ++ [r])) := by
      rw [hsplit] at hlR; simpa using hlR
    have ndAB : (A ++ s :: B).Nodup := hsplit ▸ (List.nodup_cons.1 ndR).2
    have rAB : r ∉ A ++ s :: B := hsplit ▸ rR
    rw [List.nodup_append] at ndAB
    have rA : r ∉ A := fun h => rAB (List.mem_append_left _ h)
    have hperm : ((r :: s :: B) ++ A).Perm (r :: R) := by
      rw [hsplit]
      exact (List.perm_append_comm (l₁ := s :: B) (l₂ := A)).cons r
    by_cases hA0 : A = []
    · rw [if_pos hA0]
      subst hA0
      have hl : Linked h2.nx h2.pv (r :: s :: (B ++ [r])) := hl'
      obtain ⟨e1, e2⟩ := link_same_nil hl hn hp
      apply build
      · simpa using hperm
      · simp
      · intro c hc
        simp only [List.mem_singleton] at hc
        subst hc
        right
        rw [hnx, hpv, e1, e2]
        exact hl
    · rw [if_neg hA0]
      have ndA : (r :: A).Nodup := List.nodup_cons.2 ⟨rA, ndAB.1⟩
      have hT1 : ∀ x ∈ (s :: (B ++ [r])).dropLast, x ≠ r ∧ x ∉ A := by
        have e : (s :: (B ++ [r])) = (s :: B) ++ [r] := rfl
        rw [e, List.dropLast_concat]
        intro x hx
        exact ⟨fun e => rAB (e ▸ List.mem_append_right _ hx), fun hxA => ndAB.2.2 x hxA x hx rfl⟩
      have hT2 : ∀ x ∈ B ++ [r], x ≠ s ∧ x ∉ A := by
        intro x hx
        rcases List.mem_append.1 hx with hx | hx
        · exact ⟨fun e => (List.nodup_cons.1 ndAB.2.1).1 (e ▸ hx),
            fun hxA => ndAB.2.2 x hxA x (List.mem_cons_of_mem _ hx) rfl⟩
        · simp only [List.mem_singleton] at hx
          subst hx
          exact ⟨fun e => hsr e.symm, rA⟩
      have := link_same hl' hA0 ndA hsA hT1 hT2 hn hp
      apply build
      · simpa using hperm
      · intro c hc
        simp only [List.mem_cons, List.not_mem_nil, or_false] at hc
        rcases hc with rfl | rfl
        · simp
        · exact hA0
      · intro c hc
        simp only [List.mem_cons, List.not_mem_nil, or_false] at hc
        rw [hnx, hpv]
        rcases hc with rfl | rfl
        · right; exact this.1
        · right; exact this.2.1


theorem Link_spec {h : RHeap} {w : RWorld} (wf : RingWF h w) {r : RingId} (hr : r < h.size)
    (s : Option RingId) (hs : validRef h.size s = true) :
    RingWF (Link h r s).1 (link w r s).1 ∧ (Link h r s).2 = .ok (link w r s).2 ∧
      (Link h r s).1.size = h.size := by
  obtain ⟨wf1, hn1, hsz1, _⟩ := Next_spec wf hr
  have hi1 : (Next h r).1.nx r ≠ none := by rw [hn1]; simp
  have hres : (Next h r).2 = nextOf w r := by
    have := nx_eq_nextOf wf1 (hsz1 ▸ hr) hi1
    rw [hn1] at this
    exact Option.some.inj this
  cases s with
  | none =>
    refine ⟨wf1, ?_, hsz1⟩
    show Except.ok (Next h r).2 = _
    rw [link_snd, hres]
  | some s =>
    have hs' : s < (Next h r).1.size := by
      rw [hsz1]; simpa [validRef] using hs
    obtain ⟨wf2, ⟨p, hp1, hp2⟩, his, hsz2, hkeep⟩ := Prev_spec wf1 hs'
    have hn2 : (Prev (Next h r).1 s).1.nx r = some (Next h r).2 := by rw [hkeep r hi1, hn1]
    rw [Link_some_eq, hp1, link_snd]
    dsimp only
    refine ⟨?_, by rw [hres], by simp [hsz2, hsz1]⟩
    by_cases hsame : s ∈ cycOf w r
    · exact link_core_same wf2 (hsz2 ▸ hsz1 ▸ hr) (hsz2 ▸ hs') hn2 hp2 his (by simp) (by simp) (by simp) (by simp) hsame
    · exact link_core_diff wf2 (hsz2 ▸ hsz1 ▸ hr) (hsz2 ▸ hs') hn2 hp2 his (by simp) (by simp) (by simp) (by simp) hsame

theorem Unlink_spec {h : RHeap} {w : RWorld} (wf : RingWF h w) {r : RingId} (hr : r < h.size) (n : Int) :
    RingWF (Unlink h r n).1 (unlink w r n).1 ∧ (Unlink h r n).2 = .ok (unlink w r n).2 := by
  unfold Unlink unlink
  by_cases hn : n ≤ 0
  · simp only [hn, if_true]
    exact ⟨wf, trivial⟩
  · simp only [hn, if_false]
    obtain ⟨wf1, hm, hsz, hlt⟩ := Move_spec wf hr (n + 1)
    rcases hM : Move h r (n + 1) with ⟨h1, res⟩
    rw [hM] at wf1 hm hsz
    dsimp only at wf1 hm hsz
    subst hm
    dsimp only
    have hv : validRef h1.size (some (moveOf w r (n + 1))) = true := by
      simp [validRef, hsz, hlt]
    obtain ⟨wf2, hl, _⟩ := Link_spec wf1 (hsz ▸ hr) (some (moveOf w r (n + 1))) hv
    rcases hL : Link h1 r (some (moveOf w r (n + 1))) with ⟨h2, res2⟩
    rw [hL] at wf2 hl
    dsimp only at wf2 hl
    subst hl
    exact ⟨wf2, rfl⟩

end TypVerif.Lemmas.Ring
