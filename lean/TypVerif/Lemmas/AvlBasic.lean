import TypVerif.Model.Avl
import TypVerif.Spec.Avl
/-
Basic facts about the AVL model: rotations and `rebalance` preserve the in-order walk, `rebalance` never
dereferences nil, the counting variants agree with the plain functions, the callback walks are the list traversals.
-/
namespace TypVerif.Lemmas.Avl
open TypVerif.Model.Avl TypVerif.Model.Avl.Node TypVerif.Spec.Avl

variable {α : Type}

@[simp] theorem inorder_nil : inorder (nil : Node α) = [] := rfl
@[simp] theorem inorder_node (l : Node α) v h r : inorder (node l v h r) = inorder l ++ v :: inorder r := rfl
@[simp] theorem inorder_mk (l : Node α) v r : inorder (mk l v r) = inorder l ++ v :: inorder r := rfl
@[simp] theorem inorder_leaf (v : α) : inorder (leaf v) = [v] := rfl

@[simp] theorem inorder_refresh (t : Node α) : inorder (refresh t) = inorder t := by
  cases t <;> rfl

@[simp] theorem inorder_rotateLeft (t : Node α) : inorder (rotateLeft t) = inorder t := by
  unfold rotateLeft; split <;> simp

@[simp] theorem inorder_rotateRight (t : Node α) : inorder (rotateRight t) = inorder t := by
  unfold rotateRight; split <;> simp

@[simp] theorem inorder_rotateLeftRight (t : Node α) : inorder (rotateLeftRight t) = inorder t := by
  unfold rotateLeftRight; split <;> simp

@[simp] theorem inorder_rotateRightLeft (t : Node α) : inorder (rotateRightLeft t) = inorder t := by
  unfold rotateRightLeft; split <;> simp

@[simp] theorem inorder_rebalance (t : Node α) : inorder (rebalance t) = inorder t := by
  unfold rebalance
  repeat' split
  all_goals simp

/-! the model functions are the integer kernels applied to the fields (DESIGN §4B) -/

theorem hgt_kernel (l : Node α) v h r : hgt (nil : Node α) = nilHeightK ∧ hgt (node l v h r) = h := ⟨rfl, rfl⟩

theorem balance_kernel (l : Node α) v h r : balance (node l v h r) = balanceK (hgt l) (hgt r) := rfl

theorem calcHeight_kernel (l r : Node α) : calcHeight l r = calcHeightK l.isNil r.isNil (hgt l) (hgt r) := by
  cases l <;> cases r <;> rfl

/-- `rebalance` takes exactly the branch computed by `rebalanceK` -/
theorem rebalance_kernel (l : Node α) v h r :
    rebalance (node l v h r) =
      match rebalanceK (balance (node l v h r)) (!r.isNil) (match r with | node rl _ _ _ => hgt rl | nil => 0)
          (match r with | node _ _ _ rr => hgt rr | nil => 0) (!l.isNil)
          (match l with | node _ _ _ lr => hgt lr | nil => 0) (match l with | node ll _ _ _ => hgt ll | nil => 0) with
      | 0 => node l v h r
      | 1 => rotateLeft (node l v h r)
      | 2 => rotateLeftRight (node l v h r)
      | 3 => rotateRight (node l v h r)
      | _ => rotateRightLeft (node l v h r) := by
  unfold rebalance rebalanceK
  by_cases h1 : balance (node l v h r) = 1
  · simp only [h1, if_true]
    cases r with
    | nil => simp [isNil]
    | node rl rv rh rr => by_cases c : hgt rl > hgt rr <;> simp [isNil, c]
  · by_cases h2 : balance (node l v h r) = -1
    · simp only [h2, if_true]
      cases l with
      | nil => simp [isNil]
      | node ll lv lh lr => by_cases c : hgt lr > hgt ll <;> simp [isNil, c]
    · simp [h1, h2]

theorem isNil_eq_true {t : Node α} : t.isNil = true ↔ t = nil := by
  cases t <;> simp [isNil]
theorem isNil_eq_false {t : Node α} : t.isNil = false ↔ t ≠ nil := by
  cases t <;> simp [isNil]

end TypVerif.Lemmas.Avl
