/-
Lemmas for C20: decimal digit count, the threshold ladder of Digits10, and the widen-then-negate step.
-/
import TypVerif.Spec.Math
import TypVerif.Model.Math
namespace TypVerif.Lemmas.Math
open TypVerif.Spec.Math TypVerif.Model.Math

theorem numDigits_lt10 {n : Nat} (h : n < 10) : numDigits n = 1 := by
  rw [numDigits, if_pos h]

theorem numDigits_ge10 {n : Nat} (h : 10 ≤ n) : numDigits n = 1 + numDigits (n / 10) := by
  rw [numDigits, if_neg (by omega)]

theorem numDigits_of_range : ∀ (j n : Nat), 10 ^ j ≤ n → n < 10 ^ (j + 1) → numDigits n = j + 1
  | 0, n, _, h2 => by rw [numDigits_lt10 (by simpa using h2)]
  | j + 1, n, h1, h2 => by
    have p1 : 10 ^ (j + 1) = 10 ^ j * 10 := Nat.pow_succ _ _
    have p2 : 10 ^ (j + 1 + 1) = 10 ^ (j + 1) * 10 := Nat.pow_succ _ _
    have hpos : 0 < 10 ^ j := Nat.pow_pos (by omega)
    have h10 : 10 ≤ n := by omega
    rw [numDigits_ge10 h10, numDigits_of_range j (n / 10) (by omega) (by omega)]
    omega

theorem ladder_spec (n : BitVec 64) : ladder n = numDigits n.toNat := by
  have hlt : n.toNat < 2 ^ 64 := n.isLt
  unfold ladder
  simp only [BitVec.ult, BitVec.toNat_ofNat, decide_eq_true_eq, Nat.reducePow, Nat.reduceMod]
  by_cases h1 : n.toNat < 10
  · rw [if_pos h1, numDigits_lt10 h1]; rfl
  rw [if_neg h1]
  by_cases h2 : n.toNat < 100
  · rw [if_pos h2, numDigits_of_range 1 n.toNat (by simp only [Nat.reducePow]; omega) (by simp only [Nat.reduceAdd, Nat.reducePow]; omega)]; rfl
  rw [if_neg h2]
  by_cases h3 : n.toNat < 1000
  · rw [if_pos h3, numDigits_of_range 2 n.toNat (by simp only [Nat.reducePow]; omega) (by simp only [Nat.reduceAdd, Nat.reducePow]; omega)]; rfl
  rw [if_neg h3]
  by_cases h4 : n.toNat < 10000
  · rw [if_pos h4, numDigits_of_range 3 n.toNat (by simp only [Nat.reducePow]; omega) (by simp only [Nat.reduceAdd, Nat.reducePow]; omega)]; rfl
  rw [if_neg h4]
  by_cases h5 : n.toNat < 100000
  · rw [if_pos h5, numDigits_of_range 4 n.toNat (by simp only [Nat.reducePow]; omega) (by simp only [Nat.reduceAdd, Nat.reducePow]; omega)]; rfl
  rw [if_neg h5]
  by_cases h6 : n.toNat < 1000000
  · rw [if_pos h6, numDigits_of_range 5 n.toNat (by simp only [Nat.reducePow]; omega) (by simp only [Nat.reduceAdd, Nat.reducePow]; omega)]; rfl
  rw [if_neg h6]
  by_cases h7 : n.toNat < 10000000
  · rw [if_pos h7, numDigits_of_range 6 n.toNat (by simp only [Nat.reducePow]; omega) (by simp only [Nat.reduceAdd, Nat.reducePow]; omega)]; rfl
  rw [if_neg h7]
  by_cases h8 : n.toNat < 100000000
  · rw [if_pos h8, numDigits_of_range 7 n.toNat (by simp only [Nat.reducePow]; omega) (by simp only [Nat.reduceAdd, Nat.reducePow]; omega)]; rfl
  rw [if_neg h8]
  by_cases h9 : n.toNat < 1000000000
  · rw [if_pos h9, numDigits_of_range 8 n.toNat (by simp only [Nat.reducePow]; omega) (by simp only [Nat.reduceAdd, Nat.reducePow]; omega)]; rfl
  rw [if_neg h9]
  by_cases h10 : n.toNat < 10000000000
  · rw [if_pos h10, numDigits_of_range 9 n.toNat (by simp only [Nat.reducePow]; omega) (by simp only [Nat.reduceAdd, Nat.reducePow]; omega)]; rfl
  rw [if_neg h10]
  by_cases h11 : n.toNat < 100000000000
  · rw [if_pos h11, numDigits_of_range 10 n.toNat (by simp only [Nat.reducePow]; omega) (by simp only [Nat.reduceAdd, Nat.reducePow]; omega)]; rfl
  rw [if_neg h11]
  by_cases h12 : n.toNat < 1000000000000
  · rw [if_pos h12, numDigits_of_range 11 n.toNat (by simp only [Nat.reducePow]; omega) (by simp only [Nat.reduceAdd, Nat.reducePow]; omega)]; rfl
  rw [if_neg h12]
  by_cases h13 : n.toNat < 10000000000000
  · rw [if_pos h13, numDigits_of_range 12 n.toNat (by simp only [Nat.reducePow]; omega) (by simp only [Nat.reduceAdd, Nat.reducePow]; omega)]; rfl
  rw [if_neg h13]
  by_cases h14 : n.toNat < 100000000000000
  · rw [if_pos h14, numDigits_of_range 13 n.toNat (by simp only [Nat.reducePow]; omega) (by simp only [Nat.reduceAdd, Nat.reducePow]; omega)]; rfl
  rw [if_neg h14]
  by_cases h15 : n.toNat < 1000000000000000
  · rw [if_pos h15, numDigits_of_range 14 n.toNat (by simp only [Nat.reducePow]; omega) (by simp only [Nat.reduceAdd, Nat.reducePow]; omega)]; rfl
  rw [if_neg h15]
  by_cases h16 : n.toNat < 10000000000000000
  · rw [if_pos h16, numDigits_of_range 15 n.toNat (by simp only [Nat.reducePow]; omega) (by simp only [Nat.reduceAdd, Nat.reducePow]; omega)]; rfl
  rw [if_neg h16]
  by_cases h17 : n.toNat < 100000000000000000
  · rw [if_pos h17, numDigits_of_range 16 n.toNat (by simp only [Nat.reducePow]; omega) (by simp only [Nat.reduceAdd, Nat.reducePow]; omega)]; rfl
  rw [if_neg h17]
  by_cases h18 : n.toNat < 1000000000000000000
  · rw [if_pos h18, numDigits_of_range 17 n.toNat (by simp only [Nat.reducePow]; omega) (by simp only [Nat.reduceAdd, Nat.reducePow]; omega)]; rfl
  rw [if_neg h18]
  by_cases h19 : n.toNat < 10000000000000000000
  · rw [if_pos h19, numDigits_of_range 18 n.toNat (by simp only [Nat.reducePow]; omega) (by simp only [Nat.reduceAdd, Nat.reducePow]; omega)]; rfl
  rw [if_neg h19]
  rw [numDigits_of_range 19 n.toNat (by simp only [Nat.reducePow]; omega) (by simp only [Nat.reduceAdd, Nat.reducePow]; omega)]; rfl
open TypVerif.Spec.Math TypVerif.Model.Math

theorem two_pow_pred {w : Nat} (hw : 0 < w) : 2 ^ w = 2 * 2 ^ (w - 1) := by
  have : w = (w - 1) + 1 := by omega
  rw [this, Nat.pow_succ]; simp; omega

/-- signed: after `n := uint64(v); if v < 0 { n = -n }`, `n` is |v| — the minimum of the type included -/
theorem widen_signed_toNat {w : Nat} (hw : 0 < w) (hw64 : w ≤ 64) (v : BitVec w) :
    (if lt true v 0#w then -(widen true v) else widen true v).toNat = v.toInt.natAbs := by
  have h1 : v.toNat < 2 ^ w := v.isLt
  have h2 : 2 ^ w ≤ 2 ^ 64 := Nat.pow_le_pow_right (by omega) hw64
  have h3 := two_pow_pred hw
  have hpos : 0 < 2 ^ (w - 1) := Nat.pow_pos (by omega)
  simp only [lt, widen, if_true, BitVec.slt, BitVec.toInt_zero]
  rw [BitVec.toInt_eq_toNat_cond]
  cases hm : v.msb
  · have hm' := hm
    rw [BitVec.msb_eq_decide] at hm'
    have h4 : v.toNat < 2 ^ (w - 1) := by simpa using hm'
    have h5 : 2 * v.toNat < 2 ^ w := by omega
    simp only [h5, if_true]
    rw [if_neg (by rw [decide_eq_true_eq]; omega)]
    rw [BitVec.toNat_signExtend, BitVec.toNat_setWidth, hm]
    simp only [Bool.false_eq_true, if_false, Nat.add_zero]
    rw [Nat.mod_eq_of_lt (by omega)]
    omega
  · have hm' := hm
    rw [BitVec.msb_eq_decide] at hm'
    have h4 : 2 ^ (w - 1) ≤ v.toNat := by simpa using hm'
    have h5 : ¬ 2 * v.toNat < 2 ^ w := by omega
    simp only [h5, if_false]
    rw [if_pos (by rw [decide_eq_true_eq]; omega)]
    rw [BitVec.toNat_neg, BitVec.toNat_signExtend, BitVec.toNat_setWidth, hm]
    simp only [if_true]
    rw [Nat.mod_eq_of_lt (show v.toNat < 2 ^ 64 by omega)]
    have h6 : 2 ^ 64 - (v.toNat + (2 ^ 64 - 2 ^ w)) = 2 ^ w - v.toNat := by omega
    rw [h6, Nat.mod_eq_of_lt (by omega)]
    omega

theorem widen_unsigned_toNat {w : Nat} (hw64 : w ≤ 64) (v : BitVec w) :
    (if lt false v 0#w then -(widen false v) else widen false v).toNat = v.toNat := by
  have h1 : v.toNat < 2 ^ w := v.isLt
  have h2 : 2 ^ w ≤ 2 ^ 64 := Nat.pow_le_pow_right (by omega) hw64
  simp only [lt, widen, Bool.false_eq_true, if_false, BitVec.ult, BitVec.toNat_ofNat, Nat.zero_mod, Nat.not_lt_zero, decide_false]
  rw [BitVec.toNat_setWidth, Nat.mod_eq_of_lt (by omega)]

theorem digits10_signed {w : Nat} (hw : 0 < w) (hw64 : w ≤ 64) (v : BitVec w) :
    Model.Math.digits10 true v = numDigits v.toInt.natAbs := by
  unfold Model.Math.digits10
  simp only []
  rw [ladder_spec, widen_signed_toNat hw hw64]

theorem digits10_unsigned {w : Nat} (hw64 : w ≤ 64) (v : BitVec w) :
    Model.Math.digits10 false v = numDigits v.toNat := by
  unfold Model.Math.digits10
  simp only []
  rw [ladder_spec, widen_unsigned_toNat hw64]

open TypVerif.Spec.Math TypVerif.Model.Math

theorem neg_toInt_natAbs {w : Nat} (hw : 0 < w) (v : BitVec w) : (-v).toInt.natAbs = v.toInt.natAbs := by
  have h1 : v.toNat < 2 ^ w := v.isLt
  have h3 := two_pow_pred hw
  rw [BitVec.toInt_eq_toNat_cond, BitVec.toInt_eq_toNat_cond, BitVec.toNat_neg]
  by_cases h0 : v.toNat = 0
  · rw [h0]; simp
  · rw [Nat.mod_eq_of_lt (by omega)]
    split <;> split <;> omega

theorem lt_signed_zero {w : Nat} (v : BitVec w) : lt true v 0#w = decide (v.toInt < 0) := by
  simp only [lt, if_true, BitVec.slt, BitVec.toInt_zero]

theorem lt_unsigned_zero {w : Nat} (v : BitVec w) : lt false v 0#w = false := by
  simp [lt, BitVec.ult]

theorem digitsSign10_signed {w : Nat} (hw : 0 < w) (hw64 : w ≤ 64) (v : BitVec w) :
    Model.Math.digitsSign10 true v = numDigits v.toInt.natAbs + (if v.toInt < 0 then 1 else 0) := by
  unfold Model.Math.digitsSign10
  rw [lt_signed_zero]
  by_cases h : v.toInt < 0
  · simp only [h, decide_true, if_true]
    rw [digits10_signed hw hw64, neg_toInt_natAbs hw]
  · simp only [h, decide_false, if_false, Bool.false_eq_true]
    rw [digits10_signed hw hw64]; simp

theorem digitsSign10_unsigned {w : Nat} (hw64 : w ≤ 64) (v : BitVec w) :
    Model.Math.digitsSign10 false v = numDigits v.toNat := by
  unfold Model.Math.digitsSign10
  rw [lt_unsigned_zero]
  simp only [Bool.false_eq_true, if_false]
  exact digits10_unsigned hw64 v

open TypVerif.Spec.Math TypVerif.Model.Math

/-- Go's `<` at an integer type is `<` on the mathematical values -/
theorem lt_iff (sg : Bool) {w : Nat} (a b : BitVec w) : lt sg a b = decide (toInt sg a < toInt sg b) := by
  cases sg
  · simp only [lt, toInt, Bool.false_eq_true, if_false, BitVec.ult]
    rw [Bool.eq_iff_iff]; simp
  · simp only [lt, toInt, if_true, BitVec.slt]

theorem toInt_inj (sg : Bool) {w : Nat} {a b : BitVec w} (h : toInt sg a = toInt sg b) : a = b := by
  cases sg
  · simp only [toInt, Bool.false_eq_true, if_false] at h
    exact BitVec.eq_of_toNat_eq (by omega)
  · simp only [toInt, if_true] at h
    exact BitVec.eq_of_toInt_eq h

theorem toInt_zero (sg : Bool) {w : Nat} : toInt sg (0#w) = 0 := by
  cases sg <;> simp [toInt]

theorem toInt_one (sg : Bool) {w : Nat} (hw : 1 < w) : toInt sg (1#w) = 1 := by
  have h2 : 2 ^ 1 < 2 ^ w := Nat.pow_lt_pow_right (by omega) hw
  have h3 := two_pow_pred (show 0 < w by omega)
  cases sg
  · simp only [toInt, Bool.false_eq_true, if_false, BitVec.toNat_ofNat]
    rw [Nat.mod_eq_of_lt (by omega)]; rfl
  · simp only [toInt, if_true]
    rw [BitVec.toInt_eq_toNat_cond, BitVec.toNat_ofNat, Nat.mod_eq_of_lt (by omega)]
    rw [if_pos (by omega)]; rfl

theorem clamp_toInt (sg : Bool) {w : Nat} (v lo hi : BitVec w) :
    toInt sg (Model.Math.clamp sg v lo hi) = Spec.Math.clamp (toInt sg v) (toInt sg lo) (toInt sg hi) := by
  unfold Model.Math.clamp Spec.Math.clamp
  rw [lt_iff, lt_iff]
  by_cases h1 : toInt sg v < toInt sg lo
  · simp [h1]
  · by_cases h2 : toInt sg hi < toInt sg v
    · simp [h1, h2]
    · simp [h1, h2]

/-- the clause of the property: inside the interval → v, otherwise the nearer bound -/
theorem spec_clamp_cases {v lo hi : Int} (h : lo ≤ hi) :
    (lo ≤ v → v ≤ hi → Spec.Math.clamp v lo hi = v) ∧ (v < lo → Spec.Math.clamp v lo hi = lo) ∧
    (hi < v → Spec.Math.clamp v lo hi = hi) ∧ lo ≤ Spec.Math.clamp v lo hi ∧ Spec.Math.clamp v lo hi ≤ hi := by
  unfold Spec.Math.clamp
  refine ⟨?_, ?_, ?_, ?_, ?_⟩ <;> intros <;> split <;> (try split) <;> omega

theorem clamp01_toInt (sg : Bool) {w : Nat} (hw : 1 < w) (v : BitVec w) :
    toInt sg (Model.Math.clamp01 sg v) = Spec.Math.clamp01 (toInt sg v) := by
  have : Model.Math.clamp01 sg v = Model.Math.clamp sg v 0#w 1#w := rfl
  rw [this, clamp_toInt, toInt_zero, toInt_one sg hw]; rfl

theorem compare_toInt (sg : Bool) {w : Nat} (a b : BitVec w) :
    Model.Math.compare sg a b = Spec.Math.compare (toInt sg a) (toInt sg b) := by
  unfold Model.Math.compare Spec.Math.compare
  rw [lt_iff, lt_iff]
  by_cases h1 : toInt sg b < toInt sg a
  · simp [h1]; omega
  · by_cases h2 : toInt sg a < toInt sg b
    · simp [h1, h2]
    · simp [h1, h2]; omega

theorem less_toInt (sg : Bool) {w : Nat} (a b : BitVec w) :
    Model.Math.less sg a b = Spec.Math.less (toInt sg a) (toInt sg b) := by
  unfold Model.Math.less Spec.Math.less
  exact lt_iff sg a b

/-- Abs of a signed value other than the minimum is its magnitude -/
theorem abs_signed {w : Nat} (hw : 0 < w) (v : BitVec w) (hmin : v.toInt ≠ -(2 ^ (w - 1) : Nat)) :
    toInt true (Model.Math.abs true v) = Spec.Math.abs (toInt true v) := by
  have h1 : v.toNat < 2 ^ w := v.isLt
  have h3 := two_pow_pred hw
  unfold Model.Math.abs Spec.Math.abs
  rw [lt_signed_zero]
  simp only [toInt, if_true]
  by_cases h : v.toInt < 0
  · simp only [h, decide_true, if_true]
    have key : (-v).toInt.natAbs = v.toInt.natAbs := neg_toInt_natAbs hw v
    -- (-v).toInt is non-negative because v is not the minimum
    have hnn : 0 ≤ (-v).toInt := by
      rw [BitVec.toInt_eq_toNat_cond, BitVec.toNat_neg]
      rw [BitVec.toInt_eq_toNat_cond] at h hmin
      by_cases h0 : v.toNat = 0
      · exfalso; rw [h0] at h; split at h <;> omega
      · rw [Nat.mod_eq_of_lt (by omega)]
        split at h <;> split <;> omega
    omega
  · simp only [h, decide_false, Bool.false_eq_true, if_false]
    omega

/-- Abs of the signed minimum is the minimum itself (not representable) -/
theorem abs_signed_min {w : Nat} (hw : 0 < w) (v : BitVec w) (hmin : v.toInt = -(2 ^ (w - 1) : Nat)) :
    Model.Math.abs true v = v := by
  have h1 : v.toNat < 2 ^ w := v.isLt
  have h3 := two_pow_pred hw
  have hpos : 0 < 2 ^ (w - 1) := Nat.pow_pos (by omega)
  unfold Model.Math.abs
  rw [lt_signed_zero, if_pos (by rw [decide_eq_true_eq]; omega)]
  apply BitVec.eq_of_toNat_eq
  rw [BitVec.toNat_neg]
  rw [BitVec.toInt_eq_toNat_cond] at hmin
  have : v.toNat = 2 ^ (w - 1) := by split at hmin <;> omega
  rw [this, Nat.mod_eq_of_lt (by omega)]; omega

theorem abs_unsigned {w : Nat} (v : BitVec w) : Model.Math.abs false v = v := by
  unfold Model.Math.abs
  rw [lt_unsigned_zero]; rfl

open TypVerif.Spec.Math TypVerif.Model.Math

theorem wrap_signed {w : Nat} (hw : 0 < w) (v : Int) : wrap true w v = v.bmod (2 ^ w) := by
  have h3 := two_pow_pred hw
  have hpos : 0 < 2 ^ (w - 1) := Nat.pow_pos (by omega)
  unfold wrap
  rw [Int.bmod_def]
  simp only [Bool.true_and]
  have e : ((2 : Int) ^ w) = ((2 ^ w : Nat) : Int) := by rw [Int.natCast_pow]; rfl
  rw [e, h3]
  generalize 2 ^ (w - 1) = k at *
  have hk : (0 : Int) < k := by omega
  have h1 : 0 ≤ v % ((2 * k : Nat) : Int) := Int.emod_nonneg _ (by omega)
  generalize v % ((2 * k : Nat) : Int) = r at *
  by_cases h : 2 * r ≥ ((2 * k : Nat) : Int)
  · rw [if_pos (by simpa using h), if_neg (by omega)]
  · rw [if_neg (by simpa using h), if_pos (by omega)]

theorem wrap_unsigned {w : Nat} (v : Int) : wrap false w v = v % ((2 ^ w : Nat) : Int) := by
  unfold wrap
  simp only [Bool.false_and, Bool.false_eq_true, if_false]
  rw [Int.natCast_pow]; rfl

theorem toInt_add (sg : Bool) {w : Nat} (hw : 0 < w) (a b : BitVec w) :
    toInt sg (a + b) = wrap sg w (toInt sg a + toInt sg b) := by
  cases sg
  · rw [wrap_unsigned]
    simp only [toInt, Bool.false_eq_true, if_false, BitVec.toNat_add]
    rw [Int.natCast_emod, Int.natCast_add]
  · rw [wrap_signed hw]
    simp only [toInt, if_true, BitVec.toInt_add]

theorem toInt_mul (sg : Bool) {w : Nat} (hw : 0 < w) (a b : BitVec w) :
    toInt sg (a * b) = wrap sg w (toInt sg a * toInt sg b) := by
  cases sg
  · rw [wrap_unsigned]
    simp only [toInt, Bool.false_eq_true, if_false, BitVec.toNat_mul]
    rw [Int.natCast_emod, Int.natCast_mul]
  · rw [wrap_signed hw]
    simp only [toInt, if_true, BitVec.toInt_mul]

theorem sum_foldl (sg : Bool) {w : Nat} (hw : 0 < w) (vs : List (BitVec w)) (s : BitVec w) :
    toInt sg (vs.foldl (fun s num => s + num) s) =
      (vs.map (toInt sg)).foldl (fun s x => wrap sg w (s + x)) (toInt sg s) := by
  induction vs generalizing s with
  | nil => rfl
  | cons x xs ih => simp only [List.foldl_cons, List.map_cons]; rw [ih, toInt_add sg hw]

theorem product_foldl (sg : Bool) {w : Nat} (hw : 0 < w) (vs : List (BitVec w)) (s : BitVec w) :
    toInt sg (vs.foldl (fun s num => s * num) s) =
      (vs.map (toInt sg)).foldl (fun s x => wrap sg w (s * x)) (toInt sg s) := by
  induction vs generalizing s with
  | nil => rfl
  | cons x xs ih => simp only [List.foldl_cons, List.map_cons]; rw [ih, toInt_mul sg hw]

theorem sum_toInt (sg : Bool) {w : Nat} (hw : 0 < w) (vs : List (BitVec w)) :
    toInt sg (Model.Math.sum vs) = Spec.Math.sum sg w (vs.map (toInt sg)) := by
  unfold Model.Math.sum Spec.Math.sum
  rw [sum_foldl sg hw, toInt_zero]

theorem product_toInt (sg : Bool) {w : Nat} (hw : 1 < w) (vs : List (BitVec w)) :
    toInt sg (Model.Math.product vs) = Spec.Math.product sg w (vs.map (toInt sg)) := by
  unfold Model.Math.product Spec.Math.product
  rw [product_foldl sg (by omega), toInt_one sg hw]

/-! ### Min / Max over any order given by a transitive, irreflexive `lt` -/

theorem foldl_min_spec {α : Type} (lt : α → α → Bool)
    (irrefl : ∀ a, lt a a = false) (trans : ∀ a b c, lt a b = true → lt b c = true → lt a c = true) :
    ∀ (rest : List α) (x : α),
      (rest.foldl (fun m v => if lt v m then v else m) x = x ∨
        lt (rest.foldl (fun m v => if lt v m then v else m) x) x = true) ∧
      (rest.foldl (fun m v => if lt v m then v else m) x = x ∨
        rest.foldl (fun m v => if lt v m then v else m) x ∈ rest) ∧
      ∀ y ∈ rest, lt y (rest.foldl (fun m v => if lt v m then v else m) x) = false := by
  intro rest
  induction rest with
  | nil => intro x; exact ⟨Or.inl rfl, Or.inl rfl, fun y hy => by cases hy⟩
  | cons v vs ih =>
    intro x
    simp only [List.foldl_cons]
    by_cases h : lt v x = true
    · rw [if_pos h]
      obtain ⟨h1, h2, h3⟩ := ih v
      generalize vs.foldl (fun m v => if lt v m = true then v else m) v = r at *
      refine ⟨Or.inr ?_, Or.inr ?_, ?_⟩
      · rcases h1 with h1 | h1
        · rw [h1]; exact h
        · exact trans _ _ _ h1 h
      · rcases h2 with h2 | h2
        · rw [h2]; exact List.mem_cons_self
        · exact List.mem_cons_of_mem _ h2
      · intro y hy
        rcases List.mem_cons.mp hy with rfl | hy
        · rcases h1 with h1 | h1
          · rw [h1]; exact irrefl _
          · cases hc : lt y r with
            | false => rfl
            | true => have := trans _ _ _ hc h1; rw [irrefl] at this; cases this
        · exact h3 y hy
    · rw [if_neg h]
      obtain ⟨h1, h2, h3⟩ := ih x
      generalize vs.foldl (fun m v => if lt v m = true then v else m) x = r at *
      refine ⟨h1, ?_, ?_⟩
      · rcases h2 with h2 | h2
        · exact Or.inl h2
        · exact Or.inr (List.mem_cons_of_mem _ h2)
      · intro y hy
        rcases List.mem_cons.mp hy with rfl | hy
        · cases hc : lt y r with
          | false => rfl
          | true =>
            exfalso; apply h
            rcases h1 with h1 | h1
            · rw [← h1]; exact hc
            · exact trans _ _ _ hc h1
        · exact h3 y hy

/-- Min: panics exactly on no arguments; otherwise returns an argument that no argument is smaller than -/
theorem min_spec {α : Type} (lt : α → α → Bool)
    (irrefl : ∀ a, lt a a = false) (trans : ∀ a b c, lt a b = true → lt b c = true → lt a c = true)
    (l : List α) :
    (l = [] → Model.Math.min lt l = .error pCustom) ∧
    (l ≠ [] → ∃ r, Model.Math.min lt l = .ok r ∧ r ∈ l ∧ ∀ y ∈ l, lt y r = false) := by
  constructor
  · intro h; rw [h]; rfl
  · intro h
    match l, h with
    | [x], _ =>
      refine ⟨x, rfl, List.mem_cons_self, ?_⟩
      intro y hy
      rcases List.mem_cons.mp hy with rfl | hy
      · exact irrefl _
      · cases hy
    | x :: v :: vs, _ =>
      obtain ⟨h1, h2, h3⟩ := foldl_min_spec lt irrefl trans (v :: vs) x
      refine ⟨_, rfl, ?_, ?_⟩
      · rcases h2 with h2 | h2
        · rw [h2]; exact List.mem_cons_self
        · exact List.mem_cons_of_mem _ h2
      · intro y hy
        rcases List.mem_cons.mp hy with rfl | hy
        · rcases h1 with h1 | h1
          · rw [h1]; exact irrefl _
          · cases hc : lt y ((v :: vs).foldl (fun m v => if lt v m = true then v else m) y) with
            | false => rfl
            | true => have := trans _ _ _ hc h1; rw [irrefl] at this; cases this
        · exact h3 y hy

theorem max_eq_min_flip {α : Type} (lt : α → α → Bool) (l : List α) :
    Model.Math.max lt l = Model.Math.min (fun a b => lt b a) l := by
  match l with
  | [] => rfl
  | [x] => rfl
  | x :: v :: vs => rfl

/-- Max: returns an argument that is smaller than no argument -/
theorem max_spec {α : Type} (lt : α → α → Bool)
    (irrefl : ∀ a, lt a a = false) (trans : ∀ a b c, lt a b = true → lt b c = true → lt a c = true)
    (l : List α) :
    (l = [] → Model.Math.max lt l = .error pCustom) ∧
    (l ≠ [] → ∃ r, Model.Math.max lt l = .ok r ∧ r ∈ l ∧ ∀ y ∈ l, lt r y = false) := by
  rw [max_eq_min_flip]
  exact min_spec (fun a b => lt b a) irrefl (fun a b c h1 h2 => trans c b a h2 h1) l

/-- Coal: the first element different from zero, or zero -/
theorem coal_spec {α : Type} [DecidableEq α] (z : α) (l : List α) :
    Model.Math.coal z l = (l.find? (fun v => decide (v ≠ z))).getD z := by
  induction l with
  | nil => rfl
  | cons v vs ih =>
    simp only [Model.Math.coal, List.find?_cons]
    by_cases h : v ≠ z
    · simp [h]
    · simp [h, ih]

open TypVerif.Spec.Math TypVerif.Model.Math

@[simp] theorem toInt_true {w : Nat} (v : BitVec w) : toInt true v = v.toInt := rfl
@[simp] theorem toInt_false {w : Nat} (v : BitVec w) : toInt false v = (v.toNat : Int) := rfl

/-- Clamp with lo ≤ hi: v when inside, otherwise the nearer bound (results as machine integers) -/
theorem clamp_cases (sg : Bool) {w : Nat} (v lo hi : BitVec w) (h : toInt sg lo ≤ toInt sg hi) :
    (toInt sg lo ≤ toInt sg v → toInt sg v ≤ toInt sg hi → Model.Math.clamp sg v lo hi = v) ∧
    (toInt sg v < toInt sg lo → Model.Math.clamp sg v lo hi = lo) ∧
    (toInt sg hi < toInt sg v → Model.Math.clamp sg v lo hi = hi) := by
  obtain ⟨c1, c2, c3, _, _⟩ := spec_clamp_cases (v := toInt sg v) h
  refine ⟨fun a b => ?_, fun a => ?_, fun a => ?_⟩ <;> apply toInt_inj sg <;> rw [clamp_toInt]
  · exact c1 a b
  · exact c2 a
  · exact c3 a

theorem compare_zero_iff (sg : Bool) {w : Nat} (a b : BitVec w) :
    (Model.Math.compare sg a b = 0 ↔ a = b) ∧
    (Model.Math.compare sg a b = -1 ↔ toInt sg a < toInt sg b) ∧
    (Model.Math.compare sg a b = 1 ↔ toInt sg b < toInt sg a) := by
  rw [compare_toInt]
  unfold Spec.Math.compare
  refine ⟨⟨fun h => ?_, fun h => ?_⟩, ?_, ?_⟩
  · apply toInt_inj sg; split at h <;> (try split at h) <;> omega
  · rw [h]; simp
  · split <;> (try split) <;> omega
  · split <;> (try split) <;> omega

end TypVerif.Lemmas.Math
