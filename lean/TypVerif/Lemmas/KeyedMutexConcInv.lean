import TypVerif.Lemmas.KeyedMutexConcBasic
import TypVerif.Lemmas.KeyedMutexConcAbs
import TypVerif.Lemmas.SmcStep
/-
C09 on the step-level map, layer 2: the composed invariant `Inv k s a` (for a key `k` that `ClearKey` is never applied to) and its
building blocks.

`Inv k s a` relates a state `s` of the composed system (`Model/KeyedMutexConc.lean`) to a state `a` of the relaxed atomic map:
* `r`    : `R s.map a` — the simulation relation of the C04 proof (`Lemmas/SmcDefs.lean`), re-established by `sim_step`;
* `ak`   : `AbsKey k s.offers a` (`Lemmas/KeyedMutexConcAbs.lean`);
* `off`  : identities are offered for one key only, and are `< s.next`;
* `link` : per goroutine, how its phase relates to the map component and to `a`: idle / at a hook / returning ⇒ the map
           goroutine is idle; inside the map call ⇒ the abstract goroutine runs the method's map operation; at the hook with
           mutex `m` for key `k` ⇒ `a.obj k = some m`; inside `UnlockKey(k)` ⇒ it holds `k`;
* `mu`   : the mutex bookkeeping of key `k`: whoever holds `k` holds it in the mutex `a.obj k`; the ghost holder lists and the
           mutex automaton of `a.obj k` agree (with multiplicity); a mutex never has a writer and readers; an identity offered
           for `k` only that is not (yet) the map's value is free; no unlock fault on `k`.
-/
namespace TypVerif.Lemmas.KeyedMutexConc
open TypVerif TypVerif.Model TypVerif.Model.SyncMapConc TypVerif.Model.RelObj TypVerif.Lemmas.Smc
open TypVerif.Model.KeyedMutexConc (Phase Kind Mu MId mapOp invOk invStep afterMap retOf valOf finish mapSteps contMap
  acqW acqR hookStep getMu putMu)

set_option linter.unusedSectionVars false
set_option linter.unusedVariables false

variable {K : Type} [DecidableEq K]

abbrev KState (K : Type) := KeyedMutexConc.State K

structure OffersOk (s : KState K) : Prop where
  lt : ∀ p ∈ s.offers, p.1 < s.next
  func : ∀ m k1 k2, (m, k1) ∈ s.offers → (m, k2) ∈ s.offers → k1 = k2

/-- how the phase of goroutine `t` relates to the map component and the abstract state -/
def Link (k : K) (s : KState K) (a : AState K Nat) (t : Tid) : Prop :=
  match s.phase t with
  | .idle => s.map.pc t = .idle
  | .inMap kind k' =>
    (∃ v, opOf (a.pcs t) = some (mapOp kind k' v)) ∧
    (kind = .unlock → k' = k → ∃ m, (t, k, m) ∈ s.wh) ∧ (kind = .runlock → k' = k → ∃ m, (t, k, m) ∈ s.rh)
  | .atHook _ k' m => s.map.pc t = .idle ∧ (m, k') ∈ s.offers ∧ (k' = k → a.obj k = some m)
  | .ret _ => s.map.pc t = .idle

/-- the mutex bookkeeping of key `k` -/
structure MuInv (k : K) (s : KState K) (a : AState K Nat) : Prop where
  wkey : ∀ t m, (t, k, m) ∈ s.wh → a.obj k = some m
  rkey : ∀ t m, (t, k, m) ∈ s.rh → a.obj k = some m
  wcount : ∀ t m, a.obj k = some m → s.wh.count (t, k, m) = if (s.mu m).writer = some t then 1 else 0
  rcount : ∀ t m, a.obj k = some m → s.rh.count (t, k, m) = (s.mu m).readers.count t
  wr : ∀ m, (s.mu m).writer ≠ none → (s.mu m).readers = []
  free : ∀ m, a.obj k ≠ some m → (∀ k', (m, k') ∈ s.offers → k' = k) → (s.mu m).free
  nofault : k ∉ s.faults

structure Inv (k : K) (s : KState K) (a : AState K Nat) : Prop where
  len : s.map.pcs.length = s.phases.length
  r : R s.map a
  ak : AbsKey k s.offers a
  off : OffersOk s
  link : ∀ t, Link k s a t
  mu : MuInv k s a

/-! ### `Link` -/

theorem link_idle {k : K} {s : KState K} {a : AState K Nat} {t : Tid} (h : s.phase t = .idle) :
    Link k s a t ↔ s.map.pc t = .idle := by
  simp only [Link, h]

theorem link_ret {k : K} {s : KState K} {a : AState K Nat} {t : Tid} {r : KeyedMutexConc.Res} (h : s.phase t = .ret r) :
    Link k s a t ↔ s.map.pc t = .idle := by
  simp only [Link, h]

theorem link_atHook {k : K} {s : KState K} {a : AState K Nat} {t : Tid} {kind : Kind} {k' : K} {m : MId}
    (h : s.phase t = .atHook kind k' m) :
    Link k s a t ↔ s.map.pc t = .idle ∧ (m, k') ∈ s.offers ∧ (k' = k → a.obj k = some m) := by
  simp only [Link, h]

theorem link_inMap {k : K} {s : KState K} {a : AState K Nat} {t : Tid} {kind : Kind} {k' : K}
    (h : s.phase t = .inMap kind k') :
    Link k s a t ↔ (∃ v, opOf (a.pcs t) = some (mapOp kind k' v)) ∧
      (kind = .unlock → k' = k → ∃ m, (t, k, m) ∈ s.wh) ∧ (kind = .runlock → k' = k → ∃ m, (t, k, m) ∈ s.rh) := by
  simp only [Link, h]

/-- the link of a goroutine that does not move -/
theorem Link.other {k : K} {s s' : KState K} {a a' : AState K Nat} {u : Tid} (h : Link k s a u)
    (hph : s'.phase u = s.phase u) (hpc : s'.map.pc u = s.map.pc u) (hop : opOf (a'.pcs u) = opOf (a.pcs u))
    (hst : Stable k a a') (hoff : ∀ p ∈ s.offers, p ∈ s'.offers)
    (hwh : ∀ m, (u, k, m) ∈ s.wh → (u, k, m) ∈ s'.wh) (hrh : ∀ m, (u, k, m) ∈ s.rh → (u, k, m) ∈ s'.rh) :
    Link k s' a' u := by
  cases hp : s.phase u with
  | idle =>
    rw [link_idle hp] at h
    rw [link_idle (hph.trans hp), hpc]; exact h
  | ret r =>
    rw [link_ret hp] at h
    rw [link_ret (hph.trans hp), hpc]; exact h
  | atHook kind k' m =>
    rw [link_atHook hp] at h
    rw [link_atHook (hph.trans hp), hpc]
    exact ⟨h.1, hoff _ h.2.1, fun hk => hst _ (h.2.2 hk)⟩
  | inMap kind k' =>
    rw [link_inMap hp] at h
    rw [link_inMap (hph.trans hp), hop]
    refine ⟨h.1, ?_, ?_⟩
    · intro h1 h2
      obtain ⟨m, hm⟩ := h.2.1 h1 h2
      exact ⟨m, hwh m hm⟩
    · intro h1 h2
      obtain ⟨m, hm⟩ := h.2.2 h1 h2
      exact ⟨m, hrh m hm⟩

/-! ### `mapOp` -/

theorem mapOp_of_ne_clear {kind : Kind} (h : kind ≠ .clear) (k' : K) (v : MId) : mapOp kind k' v = .loadOrStore k' v := by
  cases kind <;> first | rfl | exact absurd rfl h

theorem mapOp_clear (k' : K) (v : MId) : mapOp .clear k' v = .delete k' := rfl

theorem finish_clear (s : KState K) (t : Tid) (k' : K) (o : Option MId) :
    finish s t .clear k' o = s.setPhase t (.ret .done) := by
  cases o <;> rfl

theorem retOf_eq_some {V : Type} {pc : Pc K V} {r : SyncMapConc.Res K V} (h : retOf pc = some r) : pc = .ret r := by
  cases pc <;> simp [retOf] at h
  rw [h]

/-! ### `MuInv`: the abstract state moves, the mutexes do not -/

theorem MuInv.abs_step {k : K} {s s' : KState K} {a a' : AState K Nat} (h : MuInv k s a)
    (hmus : s'.mus = s.mus) (hwh : s'.wh = s.wh) (hrh : s'.rh = s.rh) (hf : s'.faults = s.faults)
    (hoff : ∀ p ∈ s.offers, p ∈ s'.offers) (hfunc : OffersOk s') (hak : AbsKey k s'.offers a') (hst : Stable k a a') :
    MuInv k s' a' := by
  have key : ∀ m, a'.obj k = some m → a.obj k = some m ∨
      (a.obj k = none ∧ (s.mu m).free) := by
    intro m hm
    cases ha : a.obj k with
    | none =>
      right
      refine ⟨rfl, h.free m (by rw [ha]; intro hc; cases hc) ?_⟩
      intro k' hk'
      exact hfunc.func m k' k (hoff _ hk') (hak.vals k m hm)
    | some m1 =>
      left
      have := hst m1 ha
      rw [hm] at this
      rw [Option.some.inj this]
  have nomem : a.obj k = none → (∀ y : Tid × K × MId, y.2.1 = k → y ∉ s.wh) ∧ (∀ y : Tid × K × MId, y.2.1 = k → y ∉ s.rh) := by
    intro ha
    refine ⟨?_, ?_⟩
    · rintro ⟨t, k1, m⟩ hk hy
      simp only at hk; subst hk
      have := h.wkey t m hy
      rw [ha] at this; cases this
    · rintro ⟨t, k1, m⟩ hk hy
      simp only at hk; subst hk
      have := h.rkey t m hy
      rw [ha] at this; cases this
  refine ⟨?_, ?_, ?_, ?_, ?_, ?_, ?_⟩
  · intro t m hm
    rw [hwh] at hm
    exact hst m (h.wkey t m hm)
  · intro t m hm
    rw [hrh] at hm
    exact hst m (h.rkey t m hm)
  · intro t m hm
    rw [hwh, mu_of_mus hmus]
    rcases key m hm with h1 | ⟨h1, h2⟩
    · exact h.wcount t m h1
    · rw [List.count_eq_zero.mpr ((nomem h1).1 (t, k, m) rfl), h2.1]
      simp
  · intro t m hm
    rw [hrh, mu_of_mus hmus]
    rcases key m hm with h1 | ⟨h1, h2⟩
    · exact h.rcount t m h1
    · rw [List.count_eq_zero.mpr ((nomem h1).2 (t, k, m) rfl), h2.2]
      simp
  · intro m
    rw [mu_of_mus hmus]
    exact h.wr m
  · intro m hm hk
    rw [mu_of_mus hmus]
    refine h.free m ?_ (fun k' hk' => hk k' (hoff _ hk'))
    intro hc
    exact hm (hst m hc)
  · rw [hf]; exact h.nofault

/-! ### `MuInv`: a mutex of another key moves -/

theorem MuInv.foreign {k : K} {s s' : KState K} {a : AState K Nat} (h : MuInv k s a) {m : MId} {x : Mu} {k' : K}
    (hk' : k' ≠ k) (hm : (m, k') ∈ s.offers) (hoffok : OffersOk s) (hak : AbsKey k s.offers a)
    (hmus : s'.mus = putMu s.mus m x) (hx : x.writer ≠ none → x.readers = [])
    (hwh : ∀ y : Tid × K × MId, y.2.1 = k → s'.wh.count y = s.wh.count y)
    (hrh : ∀ y : Tid × K × MId, y.2.1 = k → s'.rh.count y = s.rh.count y)
    (hf : k ∉ s'.faults) (hoff : s'.offers = s.offers) : MuInv k s' a := by
  have hne : ∀ m0, a.obj k = some m0 → m0 ≠ m := by
    intro m0 h0 he
    subst he
    exact hk' (hoffok.func m0 k' k hm (hak.vals k m0 h0))
  refine ⟨?_, ?_, ?_, ?_, ?_, ?_, hf⟩
  · intro t m1 h1
    have := count_pos_of_mem' h1
    rw [hwh _ rfl] at this
    exact h.wkey t m1 (mem_of_count_pos this)
  · intro t m1 h1
    have := count_pos_of_mem' h1
    rw [hrh _ rfl] at this
    exact h.rkey t m1 (mem_of_count_pos this)
  · intro t m0 h0
    rw [hwh _ rfl, mu_of_putMu_ne hmus (hne m0 h0)]
    exact h.wcount t m0 h0
  · intro t m0 h0
    rw [hrh _ rfl, mu_of_putMu_ne hmus (hne m0 h0)]
    exact h.rcount t m0 h0
  · intro m1
    by_cases h1 : m1 = m
    · subst h1; rw [mu_of_putMu_self hmus]; exact hx
    · rw [mu_of_putMu_ne hmus h1]; exact h.wr m1
  · intro m1 h1 h2
    by_cases h3 : m1 = m
    · subst h3
      rw [hoff] at h2
      exact absurd (h2 k' hm) hk'
    · rw [mu_of_putMu_ne hmus h3]
      rw [hoff] at h2
      exact h.free m1 h1 h2

/-! ### `MuInv`: the mutex of `k` moves -/

theorem MuInv.acqW_key {k : K} {s s' : KState K} {a : AState K Nat} (h : MuInv k s a) {m : MId} {t : Tid}
    (hobj : a.obj k = some m) (hfree : (s.mu m).free)
    (hmus : s'.mus = putMu s.mus m { s.mu m with writer := some t }) (hwh : s'.wh = (t, k, m) :: s.wh)
    (hrh : s'.rh = s.rh) (hf : s'.faults = s.faults) (hoff : s'.offers = s.offers) : MuInv k s' a := by
  have huniq : ∀ m0, a.obj k = some m0 → m0 = m := by
    intro m0 h0; rw [hobj] at h0; exact (Option.some.inj h0).symm
  refine ⟨?_, ?_, ?_, ?_, ?_, ?_, ?_⟩
  · intro t' m1 h1
    rw [hwh] at h1
    rcases List.mem_cons.mp h1 with h1 | h1
    · cases h1; exact hobj
    · exact h.wkey t' m1 h1
  · intro t' m1 h1
    rw [hrh] at h1
    exact h.rkey t' m1 h1
  · intro t' m0 h0
    have := huniq m0 h0; subst this
    rw [hwh, List.count_cons, h.wcount t' m0 h0, mu_of_putMu_self hmus, hfree.1]
    by_cases htt : t = t'
    · subst htt; simp
    · have : ¬ (some t = some t') := fun e => htt (Option.some.inj e)
      simp [htt, this]
  · intro t' m0 h0
    have := huniq m0 h0; subst this
    rw [hrh, mu_of_putMu_self hmus]
    exact h.rcount t' m0 h0
  · intro m1
    by_cases h1 : m1 = m
    · subst h1
      rw [mu_of_putMu_self hmus]
      intro _; exact hfree.2
    · rw [mu_of_putMu_ne hmus h1]; exact h.wr m1
  · intro m1 h1 h2
    have h3 : m1 ≠ m := by intro e; subst e; exact h1 hobj
    rw [mu_of_putMu_ne hmus h3]
    rw [hoff] at h2
    exact h.free m1 h1 h2
  · rw [hf]; exact h.nofault

theorem MuInv.acqR_key {k : K} {s s' : KState K} {a : AState K Nat} (h : MuInv k s a) {m : MId} {t : Tid}
    (hobj : a.obj k = some m) (hfree : (s.mu m).readable)
    (hmus : s'.mus = putMu s.mus m { s.mu m with readers := t :: (s.mu m).readers }) (hrh : s'.rh = (t, k, m) :: s.rh)
    (hwh : s'.wh = s.wh) (hf : s'.faults = s.faults) (hoff : s'.offers = s.offers) : MuInv k s' a := by
  have huniq : ∀ m0, a.obj k = some m0 → m0 = m := by
    intro m0 h0; rw [hobj] at h0; exact (Option.some.inj h0).symm
  refine ⟨?_, ?_, ?_, ?_, ?_, ?_, ?_⟩
  · intro t' m1 h1
    rw [hwh] at h1
    exact h.wkey t' m1 h1
  · intro t' m1 h1
    rw [hrh] at h1
    rcases List.mem_cons.mp h1 with h1 | h1
    · cases h1; exact hobj
    · exact h.rkey t' m1 h1
  · intro t' m0 h0
    have := huniq m0 h0; subst this
    rw [hwh, mu_of_putMu_self hmus]
    exact h.wcount t' m0 h0
  · intro t' m0 h0
    have := huniq m0 h0; subst this
    rw [hrh, List.count_cons, h.rcount t' m0 h0, mu_of_putMu_self hmus]
    show _ = List.count t' (t :: (s.mu m0).readers)
    rw [List.count_cons]
    by_cases htt : t = t'
    · subst htt; simp
    · simp [htt]
  · intro m1
    by_cases h1 : m1 = m
    · subst h1
      rw [mu_of_putMu_self hmus]
      intro hc; exact absurd hfree hc
    · rw [mu_of_putMu_ne hmus h1]; exact h.wr m1
  · intro m1 h1 h2
    have h3 : m1 ≠ m := by intro e; subst e; exact h1 hobj
    rw [mu_of_putMu_ne hmus h3]
    rw [hoff] at h2
    exact h.free m1 h1 h2
  · rw [hf]; exact h.nofault

/-- whoever holds `k` for writing is the writer of the map's mutex for `k` -/
theorem MuInv.writer_of_mem {k : K} {s : KState K} {a : AState K Nat} (h : MuInv k s a) {m : MId} {t : Tid}
    (hmem : (t, k, m) ∈ s.wh) : a.obj k = some m ∧ (s.mu m).writer = some t := by
  have hobj := h.wkey t m hmem
  refine ⟨hobj, ?_⟩
  have h1 := h.wcount t m hobj
  have h2 := count_pos_of_mem' hmem
  by_cases hw : (s.mu m).writer = some t
  · exact hw
  · rw [h1, if_neg hw] at h2; exact absurd h2 (Nat.lt_irrefl 0)

/-- whoever holds `k` for reading is a reader of the map's mutex for `k` -/
theorem MuInv.reader_of_mem {k : K} {s : KState K} {a : AState K Nat} (h : MuInv k s a) {m : MId} {t : Tid}
    (hmem : (t, k, m) ∈ s.rh) : a.obj k = some m ∧ t ∈ (s.mu m).readers := by
  have hobj := h.rkey t m hmem
  refine ⟨hobj, ?_⟩
  have h1 := h.rcount t m hobj
  have h2 := count_pos_of_mem' hmem
  rw [h1] at h2
  exact mem_of_count_pos h2

theorem MuInv.relW_key {k : K} {s s' : KState K} {a : AState K Nat} (h : MuInv k s a) {m : MId} {t : Tid}
    (hmem : (t, k, m) ∈ s.wh)
    (hmus : s'.mus = putMu s.mus m { s.mu m with writer := none }) (hwh : s'.wh = s.wh.erase (t, k, m))
    (hrh : s'.rh = s.rh) (hf : s'.faults = if (s.mu m).writer = some t then s.faults else k :: s.faults)
    (hoff : s'.offers = s.offers) : MuInv k s' a := by
  obtain ⟨hobj, hw⟩ := h.writer_of_mem hmem
  have huniq : ∀ m0, a.obj k = some m0 → m0 = m := by
    intro m0 h0; rw [hobj] at h0; exact (Option.some.inj h0).symm
  refine ⟨?_, ?_, ?_, ?_, ?_, ?_, ?_⟩
  · intro t' m1 h1
    rw [hwh] at h1
    exact h.wkey t' m1 (List.mem_of_mem_erase h1)
  · intro t' m1 h1
    rw [hrh] at h1
    exact h.rkey t' m1 h1
  · intro t' m0 h0
    have := huniq m0 h0; subst this
    rw [hwh, List.count_erase, h.wcount t' m0 h0, mu_of_putMu_self hmus, hw]
    by_cases htt : t = t'
    · subst htt; simp
    · have : ¬ (some t = some t') := fun e => htt (Option.some.inj e)
      simp [htt, this]
  · intro t' m0 h0
    have := huniq m0 h0; subst this
    rw [hrh, mu_of_putMu_self hmus]
    exact h.rcount t' m0 h0
  · intro m1
    by_cases h1 : m1 = m
    · subst h1
      rw [mu_of_putMu_self hmus]
      intro hc; exact absurd rfl hc
    · rw [mu_of_putMu_ne hmus h1]; exact h.wr m1
  · intro m1 h1 h2
    have h3 : m1 ≠ m := by intro e; subst e; exact h1 hobj
    rw [mu_of_putMu_ne hmus h3]
    rw [hoff] at h2
    exact h.free m1 h1 h2
  · rw [hf, if_pos hw]; exact h.nofault

theorem MuInv.relR_key {k : K} {s s' : KState K} {a : AState K Nat} (h : MuInv k s a) {m : MId} {t : Tid}
    (hmem : (t, k, m) ∈ s.rh)
    (hmus : s'.mus = putMu s.mus m { s.mu m with readers := (s.mu m).readers.erase t }) (hrh : s'.rh = s.rh.erase (t, k, m))
    (hwh : s'.wh = s.wh) (hf : s'.faults = if t ∈ (s.mu m).readers then s.faults else k :: s.faults)
    (hoff : s'.offers = s.offers) : MuInv k s' a := by
  obtain ⟨hobj, hr⟩ := h.reader_of_mem hmem
  have huniq : ∀ m0, a.obj k = some m0 → m0 = m := by
    intro m0 h0; rw [hobj] at h0; exact (Option.some.inj h0).symm
  refine ⟨?_, ?_, ?_, ?_, ?_, ?_, ?_⟩
  · intro t' m1 h1
    rw [hwh] at h1
    exact h.wkey t' m1 h1
  · intro t' m1 h1
    rw [hrh] at h1
    exact h.rkey t' m1 (List.mem_of_mem_erase h1)
  · intro t' m0 h0
    have := huniq m0 h0; subst this
    rw [hwh, mu_of_putMu_self hmus]
    exact h.wcount t' m0 h0
  · intro t' m0 h0
    have := huniq m0 h0; subst this
    rw [hrh, List.count_erase, h.rcount t' m0 h0, mu_of_putMu_self hmus]
    show _ = List.count t' ((s.mu m0).readers.erase t)
    rw [List.count_erase]
    by_cases htt : t = t'
    · subst htt; simp
    · simp [htt]
  · intro m1
    by_cases h1 : m1 = m
    · subst h1
      rw [mu_of_putMu_self hmus]
      intro hc
      show (s.mu m1).readers.erase t = []
      rw [h.wr m1 hc]; rfl
    · rw [mu_of_putMu_ne hmus h1]; exact h.wr m1
  · intro m1 h1 h2
    have h3 : m1 ≠ m := by intro e; subst e; exact h1 hobj
    rw [mu_of_putMu_ne hmus h3]
    rw [hoff] at h2
    exact h.free m1 h1 h2
  · rw [hf, if_pos hr]; exact h.nofault

/-! ### assembling `Inv` after a step of goroutine `t` that leaves its map goroutine idle -/

/-- the phases a goroutine can be in when its map goroutine is idle, with what `Link` asks of them -/
def RestOk (k : K) (s : KState K) (a' : AState K Nat) : Phase K → Prop
  | .atHook _ k'' w => (w, k'') ∈ s.offers ∧ (k'' = k → a'.obj k = some w)
  | .inMap _ _ => False
  | _ => True

theorem Inv.frame {k : K} {s s3 : KState K} {a a' : AState K Nat} {t : Tid} {p : Phase K} (h : Inv k s a)
    (ht : t < s.phases.length)
    (hlen : s3.map.pcs.length = s.map.pcs.length)
    (hR : R s3.map a') (hak : AbsKey k s.offers a') (hst : Stable k a a')
    (hop : ∀ u, u ≠ t → opOf (a'.pcs u) = opOf (a.pcs u))
    (hpcs : ∀ u, u ≠ t → s3.map.pc u = s.map.pc u) (hpct : s3.map.pc t = .idle)
    (hphases : s3.phases = s.phases.set t p) (hnext : s3.next = s.next) (hoffers : s3.offers = s.offers)
    (hp : RestOk k s a' p)
    (hwh : ∀ u, u ≠ t → ∀ m, (u, k, m) ∈ s.wh → (u, k, m) ∈ s3.wh)
    (hrh : ∀ u, u ≠ t → ∀ m, (u, k, m) ∈ s.rh → (u, k, m) ∈ s3.rh)
    (hmu : MuInv k s3 a') : Inv k s3 a' := by
  refine ⟨?_, hR, by rw [hoffers]; exact hak, ⟨by rw [hoffers, hnext]; exact h.off.lt, by rw [hoffers]; exact h.off.func⟩,
    ?_, hmu⟩
  · rw [hlen, hphases, List.length_set]; exact h.len
  · intro u
    by_cases hu : u = t
    · subst hu
      have hph := phase_of_set_self hphases ht
      cases p with
      | idle => rw [link_idle hph]; exact hpct
      | ret r => rw [link_ret hph]; exact hpct
      | inMap _ _ => exact absurd hp id
      | atHook kind k'' w =>
        rw [link_atHook hph, hoffers]
        exact ⟨hpct, hp.1, hp.2⟩
    · exact (h.link u).other (phase_of_set_ne hphases hu) (hpcs u hu) (hop u hu) hst
        (by rw [hoffers]; exact fun _ x => x) (hwh u hu) (hrh u hu)

end TypVerif.Lemmas.KeyedMutexConc
