import TypVerif.Lemmas.SmcDefs
/-
C04 concurrent half: the simulation witness — which abstract steps (of the relaxed atomic map) accompany a concrete
step of goroutine `t`.  Executable, so that the relation `R` can be evaluated along runs of the model.

A concrete step is accompanied by
  * `inv` / `res` for the visible steps (nothing for `Range`, which is not an operation of the atomic map),
  * one `lin` of the stepping goroutine when the step is its linearization step (`isLin`),
  * then `observeAll`: every pending goroutine records the effect-free result it would get now.
-/
namespace TypVerif.Lemmas.Smc
open TypVerif.Model TypVerif.Model.SyncMapConc TypVerif.Model.RelObj
open TypVerif.Model.SyncMap (alookup ainsert aerase akeys)

variable {K V : Type} [DecidableEq K] [DecidableEq V]

abbrev AState (K V : Type) := RState (K → Option V) (Op K V) (Res K V)

def isPending (a : APc K V) : Bool :=
  match a with
  | .pending _ _ => true
  | _ => false

/-- is the step of a goroutine parked at `pc` (abstractly `a`) in shared state `sh` its linearization step? -/
def isLin (sh : Shared K V) (pc : Pc K V) (a : APc K V) : Bool :=
  match pc with
  | .tryStoreCas _ _ e p => (getP sh e).same p
  | .storeLocked _ _ _ => true
  | .readStore _ _ _ _ => true
  | .storeRead2 k _ => (alookup k sh.readM).isNone && (alookup k (dirtyMap sh)).isNone && sh.amended
  | .losRead2 k _ => (alookup k sh.readM).isNone && (alookup k (dirtyMap sh)).isNone && sh.amended
  | .losLoad _ _ _ e => isVal (getP sh e)
  | .losLoad2 _ _ _ e => isVal (getP sh e)
  | .losCas _ _ _ e => (getP sh e).isNil
  | .delCas _ _ e p => (getP sh e).same p && isPending a
  | .ladRead2 _ k => (alookup k sh.readM).isNone && sh.amended && (alookup k (dirtyMap sh)).isSome
  | _ => false

/-- take effect: the (unique) outcome of the sequential map -/
def linPc (obj : K → Option V) (a : APc K V) : (K → Option V) × APc K V :=
  match a with
  | .pending op _ =>
    match applyOp obj op with
    | (σ', r) :: _ => (σ', .done op r)
    | [] => (obj, a)
  | _ => (obj, a)

/-- record the effect-free result that is possible now -/
def observePc (obj : K → Option V) (a : APc K V) : APc K V :=
  match a with
  | .pending op seen =>
    match pureRes obj op with
    | some r => if r ∈ seen then a else .pending op (r :: seen)
    | none => a
  | _ => a

def observeAll (a : AState K V) : AState K V := { a with pcs := fun t => observePc a.obj (a.pcs t) }

def evOf : SyncMapConc.Event K V → Option (AtomicObj.Event (Op K V) (Res K V))
  | .inv _ .range => none
  | .inv t op => some (.inv t op)
  | .res _ (.pairs _) => none
  | .res t r => some (.res t r)

/-- the abstract state after the concrete step `(l, _)` of goroutine `t` taken from concrete state `s` -/
def witness (s : State K V) (t : Tid) (l : Option (SyncMapConc.Event K V)) (a : AState K V) : AState K V :=
  match l with
  | some (.inv _ .range) => observeAll a
  | some (.inv _ op) => observeAll { a with pcs := update a.pcs t (.pending op []), hist := a.hist ++ [.inv t op] }
  | some (.res _ (.pairs _)) => observeAll a
  | some (.res _ r) => observeAll { a with pcs := update a.pcs t .idle, hist := a.hist ++ [.res t r] }
  | none =>
    if isLin s.sh (s.pc t) (a.pcs t) then
      let p := linPc a.obj (a.pcs t)
      observeAll { a with pcs := update a.pcs t p.2, obj := p.1 }
    else observeAll a

end TypVerif.Lemmas.Smc
