import TypVerif.Lemmas.RingHeap
import TypVerif.Lemmas.RingLinkPure
/-
Allocation: `NewRing(n)` and the zero value `new(Ring)`.
-/
namespace TypVerif.Lemmas.Ring
open TypVerif.Model TypVerif.Model.Ring TypVerif.Spec.RingOp TypVerif.Spec.RingSeq

theorem worldWF_extend {w : RWorld} (wf : WorldWF w) (m : Nat) (hm : 0 < m) :
    WorldWF ⟨List.range' w.size m :: w.cycles, w.size + m⟩ where
  nodup := by
    show (List.range' w.size m :: w.cycles).flatten.Nodup
    rw [List.flatten_cons, List.nodup_append]
    refine ⟨List.nodup_range' 1, wf.nodup, ?_⟩
    intro a ha b hb e
    have h1 := List.mem_range'_1.1 ha
    have h2 := (wf.mem_iff b).1 hb
    omega
  mem_iff := by
    intro i
    show i ∈ (List.range' w.size m :: w.cycles).flatten ↔ i < w.size + m
    rw [List.flatten_cons, List.mem_append, List.mem_range'_1, wf.mem_iff]
    omega
  length_eq := by
    show (List.range' w.size m :: w.cycles).flatten.length = w.size + m
    rw [List.flatten_cons, List.length_append, List.length_range', wf.length_eq]
    omega
  nonempty := by
    intro c hc
    rcases List.mem_cons.1 hc with rfl | hc
    · intro e; rw [List.range'_eq_nil_iff] at e; omega
    · exact wf.nonempty c hc

theorem newLoop_spec : ∀ (k : Nat) (h : RHeap) (p : Nat), p < h.size →
    (newLoop k h p).1.size = h.size + k ∧
    (∀ x : Nat, x < h.size → x ≠ p → (newLoop k h p).1.nx x = h.nx x) ∧
    (∀ x : Nat, x < h.size → (newLoop k h p).1.pv x = h.pv x) ∧
    (∀ x : Nat, x < h.size → (newLoop k h p).1.val x = h.val x) ∧
    (∀ x : Nat, h.size ≤ x → x < h.size + k → (newLoop k h p).1.val x = (x : Int)) ∧
    (∀ x : Nat, h.size + k ≤ x → (newLoop k h p).1.nx x = h.nx x ∧ (newLoop k h p).1.pv x = h.pv x ∧
        (newLoop k h p).1.val x = h.val x) ∧
    Linked (newLoop k h p).1.nx (newLoop k h p).1.pv (p :: List.range' h.size k) ∧
    (p :: List.range' h.size k).getLast? = some (newLoop k h p).2 := by
  intro k
  induction k with
  | zero =>
    intro h p _
    refine ⟨rfl, fun _ _ _ => rfl, fun _ _ => rfl, fun _ _ => rfl, ?_, fun _ _ => ⟨rfl, rfl, rfl⟩, trivial, rfl⟩
    intro x h1 h2; omega
  | succ k ih =>
    intro h p hp
    have e : newLoop (k + 1) h p = newLoop k ((h.alloc (some p)).1.setNext p (some h.size)) h.size := rfl
    rw [e]
    have hsz : ((h.alloc (some p)).1.setNext p (some h.size)).size = h.size + 1 := rfl
    have hnx : ((h.alloc (some p)).1.setNext p (some h.size)).nx = upd (upd h.nx h.size none) p (some h.size) := by simp
    have hpv : ((h.alloc (some p)).1.setNext p (some h.size)).pv = upd h.pv h.size (some p) := by simp
    have hval : ∀ x, ((h.alloc (some p)).1.setNext p (some h.size)).val x = if x = h.size then (h.size : Int) else h.val x := by
      intro x; rw [val_setNext, val_alloc]
    obtain ⟨i1, i2, i3, i4, i5, i6, i7, i8⟩ := ih ((h.alloc (some p)).1.setNext p (some h.size)) h.size (by rw [hsz]; omega)
    rw [hsz] at i1 i2 i3 i4 i5 i6 i7
    have pne : p ≠ h.size := by omega
    refine ⟨by rw [i1]; omega, ?_, ?_, ?_, ?_, ?_, ?_, ?_⟩
    · intro x hx hxp
      have hxs : x ≠ h.size := by omega
      rw [i2 x (by omega) hxs, hnx, upd_ne _ _ hxp, upd_ne _ _ hxs]
    · intro x hx
      have hxs : x ≠ h.size := by omega
      rw [i3 x (by omega), hpv, upd_ne _ _ hxs]
    · intro x hx
      have hxs : x ≠ h.size := by omega
      rw [i4 x (by omega), hval, if_neg hxs]
    · intro x h1 h2
      by_cases hxs : x = h.size
      · rw [i4 x (by omega), hval, if_pos hxs, hxs]
      · exact i5 x (by omega) (by omega)
    · intro x hx
      have hxs : x ≠ h.size := by omega
      have hxp : x ≠ p := by omega
      obtain ⟨j1, j2, j3⟩ := i6 x (by omega)
      refine ⟨?_, ?_, ?_⟩
      · rw [j1, hnx, upd_ne _ _ hxp, upd_ne _ _ hxs]
      · rw [j2, hpv, upd_ne _ _ hxs]
      · rw [j3, hval, if_neg hxs]
    · rw [List.range'_succ, linked_cons_cons]
      refine ⟨?_, ?_, i7⟩
      · rw [i2 p (by omega) pne, hnx, upd_same]
      · rw [i3 h.size (by omega), hpv, upd_same]
    · rw [List.range'_succ, List.getLast?_cons_cons]
      exact i8

theorem NewRing_spec {h : RHeap} {w : RWorld} (wf : RingWF h w) {n : Int} (hn : ¬ n ≤ 0) :
    RingWF (NewRing h n).1 ⟨List.range' w.size n.toNat :: w.cycles, w.size + n.toNat⟩ ∧
      (NewRing h n).2 = some w.size := by
  obtain ⟨k, hk⟩ : ∃ k, n.toNat = k + 1 := ⟨n.toNat - 1, by omega⟩
  have e : NewRing h n =
      ((((newLoop k (h.alloc none).1 h.size).1.setNext (newLoop k (h.alloc none).1 h.size).2 (some h.size)).setPrev
          h.size (some (newLoop k (h.alloc none).1 h.size).2)), some h.size) := by
    unfold NewRing
    rw [if_neg hn, hk]
    rfl
  rw [e]
  refine ⟨?_, by rw [wf.size_eq]⟩
  have hsz1 : (h.alloc none).1.size = h.size + 1 := rfl
  obtain ⟨i1, i2, i3, i4, i5, i6, i7, i8⟩ := newLoop_spec k (h.alloc none).1 h.size (by rw [hsz1]; omega)
  rw [hsz1] at i1 i2 i3 i4 i5 i6 i7 i8
  generalize newLoop k (h.alloc none).1 h.size = res at *
  rcases res with ⟨h2, p⟩
  dsimp only at *
  have hc : h.size :: List.range' (h.size + 1) k = List.range' w.size n.toNat := by
    rw [hk, List.range'_succ, wf.size_eq]
  rw [hc] at i7 i8
  have pmem : p ∈ List.range' w.size n.toNat := List.mem_of_getLast? i8
  have pb := List.mem_range'_1.1 pmem
  have ndc : (List.range' w.size n.toNat).Nodup := List.nodup_range' 1
  have hsw := wf.size_eq
  refine ⟨?_, worldWF_extend wf.world n.toNat (by omega), ?_, ?_, ?_⟩
  · show h2.size = w.size + n.toNat
    rw [i1]; omega
  · intro i hi
    simp only [val_setPrev, val_setNext, size_setPrev, size_setNext] at hi ⊢
    by_cases h1 : i < h.size
    · rw [i4 i (by omega), val_alloc, if_neg (by omega)]
      exact wf.value_eq i h1
    · by_cases h2' : i = h.size
      · rw [i4 i (by omega), val_alloc, if_pos h2', h2']
      · exact i5 i (by omega) (by omega)
  · intro c hc'
    simp only [nx_setPrev, nx_setNext, pv_setPrev, pv_setNext]
    rcases List.mem_cons.1 hc' with rfl | hc'
    · right
      unfold CycLinked
      have ht : List.take 1 (List.range' w.size n.toNat) = [w.size] := by rw [hk, List.range'_succ]; rfl
      rw [ht, linked_append]
      refine ⟨?_, trivial, ?_⟩
      · apply linked_upd_pv _ _ _ (linked_upd_nx _ _ (not_mem_dropLast_of_nodup ndc i8) i7)
        rw [hsw]
        exact not_mem_tail_of_nodup ndc (by rw [hk, List.range'_succ]; rfl)
      · rw [joint_cons]
        intro a ha
        rw [i8] at ha; cases ha
        rw [hsw]
        exact ⟨upd_same _ _ _, upd_same _ _ _⟩
    · apply good_congr _ _ (wf.good c hc')
      · intro (x : Nat) hx
        have hx' : x < h.size := wf.size_eq ▸ mem_lt wf.world hc' hx
        rw [upd_ne _ _ (by omega), i2 x (by omega) (by omega), nx_alloc, upd_ne _ _ (by omega)]
      · intro (x : Nat) hx
        have hx' : x < h.size := wf.size_eq ▸ mem_lt wf.world hc' hx
        rw [upd_ne _ _ (by omega), i3 x (by omega), pv_alloc, upd_ne _ _ (by omega)]
  · intro i hi
    simp only [size_setPrev, size_setNext] at hi
    simp only [nx_setPrev, nx_setNext, pv_setPrev, pv_setNext, val_setPrev, val_setNext]
    obtain ⟨j1, j2, j3⟩ := i6 i (by omega)
    have := wf.fresh i (by omega)
    rw [upd_ne _ _ (by omega), upd_ne _ _ (by omega), j1, j2, j3, nx_alloc, pv_alloc, val_alloc,
      upd_ne _ _ (by omega), upd_ne _ _ (by omega), if_neg (by omega)]
    exact this

theorem zero_spec {h : RHeap} {w : RWorld} (wf : RingWF h w) :
    RingWF (h.alloc none).1 ⟨[w.size] :: w.cycles, w.size + 1⟩ := by
  have hsw := wf.size_eq
  refine ⟨?_, worldWF_extend wf.world 1 (by omega), ?_, ?_, ?_⟩
  · show h.size + 1 = w.size + 1
    rw [hsw]
  · intro i hi
    rw [size_alloc] at hi
    rw [val_alloc]
    by_cases h1 : i = h.size
    · rw [if_pos h1, h1]
    · rw [if_neg h1]; exact wf.value_eq i (by omega)
  · intro c hc
    rw [nx_alloc, pv_alloc]
    rcases List.mem_cons.1 hc with rfl | hc
    · left
      exact ⟨w.size, rfl, by rw [hsw]; exact upd_same _ _ _, by rw [hsw]; exact upd_same _ _ _⟩
    · apply good_congr _ _ (wf.good c hc)
      · intro (x : Nat) hx
        have hx' : x < h.size := wf.size_eq ▸ mem_lt wf.world hc hx
        exact upd_ne _ _ (by omega)
      · intro (x : Nat) hx
        have hx' : x < h.size := wf.size_eq ▸ mem_lt wf.world hc hx
        exact upd_ne _ _ (by omega)
  · intro i hi
    rw [size_alloc] at hi
    have := wf.fresh i (by omega)
    rw [nx_alloc, pv_alloc, val_alloc, upd_ne _ _ (by omega), upd_ne _ _ (by omega), if_neg (by omega)]
    exact this

end TypVerif.Lemmas.Ring
