import TypVerif.Model.Sets
import TypVerif.Lemmas.SyncMapRange
/-
Membership abstraction of the two `sets.Set` implementations and the effect of every primitive method
and callback loop on it (C03).
-/
namespace TypVerif.Lemmas.Sets
open TypVerif.Model.Sets
open TypVerif.Model.SyncMap (State load loadOrStore loadAndDelete akeys rangePromote rangeOrd)
open TypVerif.Lemmas.SyncMap (SeqInv abs)
open TypVerif.Spec.PMap (cut)
open TypVerif

set_option linter.unusedSectionVars false
set_option linter.unusedVariables false
set_option linter.unusedSimpArgs false

variable {α : Type} [DecidableEq α]

/-- membership model -/
def mem : AnySet α → α → Bool
  | .mapSet l, x => l.contains x
  | .syncSet m, x => (abs m x).isSome

/-- well-formed layouts: the Go map has no duplicate keys / the concurrent map satisfies `SeqInv` -/
def SetOK : AnySet α → Prop
  | .mapSet l => l.Nodup
  | .syncSet m => SeqInv m

/-! ### fresh sets -/

theorem emptyLike_ok (s : AnySet α) : SetOK (emptyLike s) ∧ ∀ x, mem (emptyLike s) x = false := by
  cases s with
  | mapSet l => exact ⟨List.nodup_nil, fun x => rfl⟩
  | syncSet m =>
    refine ⟨Lemmas.SyncMap.SeqInv.init_ok, fun x => ?_⟩
    show (abs (State.init : State α Unit) x).isSome = false
    rw [Lemmas.SyncMap.abs_init]; rfl

theorem emptyOfKind_ok (kind : Nat) : SetOK (AnySet.emptyOfKind kind : AnySet α) ∧ ∀ x, mem (AnySet.emptyOfKind kind : AnySet α) x = false := by
  cases kind with
  | zero => exact ⟨List.nodup_nil, fun x => rfl⟩
  | succ n =>
    refine ⟨Lemmas.SyncMap.SeqInv.init_ok, fun x => ?_⟩
    show (abs (State.init : State α Unit) x).isSome = false
    rw [Lemmas.SyncMap.abs_init]; rfl

/-! ### Has / Add / Remove -/

theorem has_ok (s : AnySet α) (hs : SetOK s) (v : α) :
    SetOK (has s v).1 ∧ (∀ x, mem (has s v).1 x = mem s x) ∧ (has s v).2 = mem s v := by
  cases s with
  | mapSet l => exact ⟨hs, fun _ => rfl, rfl⟩
  | syncSet m =>
    obtain ⟨h1, h2, h3⟩ := Lemmas.SyncMap.load_ok hs v
    refine ⟨h1, fun x => ?_, ?_⟩
    · show (abs (load m v).1 x).isSome = (abs m x).isSome
      rw [h2]
    · show (load m v).2.isSome = (abs m v).isSome
      rw [h3]

theorem add_ok (s : AnySet α) (hs : SetOK s) (v : α) :
    SetOK (add s v).1 ∧ (∀ x, mem (add s v).1 x = (decide (x = v) || mem s x)) ∧ (add s v).2 = !mem s v := by
  cases s with
  | mapSet l =>
    cases hc : l.contains v with
    | true =>
      have hm : v ∈ l := by simpa using hc
      have he : add (.mapSet l) v = (.mapSet l, false) := by simp [add, hm]
      rw [he]
      refine ⟨hs, fun x => ?_, by simp [mem, hm]⟩
      show l.contains x = (decide (x = v) || l.contains x)
      by_cases hx : x = v
      · subst hx; simp [hm]
      · simp [hx]
    | false =>
      have hv : v ∉ l := by simpa using hc
      have he : add (.mapSet l) v = (.mapSet (l ++ [v]), true) := by simp [add, hv]
      rw [he]
      refine ⟨?_, fun x => ?_, by simp [mem, hv]⟩
      · show (l ++ [v]).Nodup
        rw [List.nodup_append]
        refine ⟨hs, by simp, ?_⟩
        intro a ha b hb hab
        simp at hb; subst hb; subst hab; exact hv ha
      · show (l ++ [v]).contains x = (decide (x = v) || l.contains x)
        simp [Bool.or_comm]
  | syncSet m =>
    have h := Lemmas.SyncMap.loadOrStore_ok hs v ()
    obtain ⟨h1, h2⟩ := h
    refine ⟨h1, ?_⟩
    show (∀ x, (abs (loadOrStore m v ()).1 x).isSome = (decide (x = v) || (abs m x).isSome)) ∧
      (!(loadOrStore m v ()).2.2) = !(abs m v).isSome
    cases ha : abs m v with
    | some w =>
      rw [ha] at h2; simp only at h2
      refine ⟨fun x => ?_, by rw [h2.2]; rfl⟩
      rw [h2.1]
      by_cases hx : x = v
      · subst hx; simp [ha]
      · simp [hx]
    | none =>
      rw [ha] at h2; simp only at h2
      refine ⟨fun x => ?_, by rw [h2.2]; rfl⟩
      rw [h2.1]
      by_cases hx : x = v
      · simp [hx]
      · simp [hx]

theorem remove_ok (s : AnySet α) (hs : SetOK s) (v : α) :
    SetOK (remove s v).1 ∧ (∀ x, mem (remove s v).1 x = (!decide (x = v) && mem s x)) ∧ (remove s v).2 = mem s v := by
  cases s with
  | mapSet l =>
    cases hc : l.contains v with
    | false =>
      have hv : v ∉ l := by simpa using hc
      have he : remove (.mapSet l) v = (.mapSet l, false) := by simp [remove, hv]
      rw [he]
      refine ⟨hs, fun x => ?_, by simp [mem, hv]⟩
      show l.contains x = (!decide (x = v) && l.contains x)
      by_cases hx : x = v
      · subst hx; simp [hv]
      · simp [hx]
    | true =>
      have hm : v ∈ l := by simpa using hc
      have he : remove (.mapSet l) v = (.mapSet (l.filter (fun y => !decide (y = v))), true) := by simp [remove, hm]
      rw [he]
      refine ⟨?_, fun x => ?_, by simp [mem, hm]⟩
      · exact List.Sublist.nodup (List.filter_sublist (l := l)) hs
      · show (l.filter (fun y => !decide (y = v))).contains x = (!decide (x = v) && l.contains x)
        by_cases hx : x = v
        · subst hx; simp
        · simp [hx]
  | syncSet m =>
    obtain ⟨h1, h2, h3⟩ := Lemmas.SyncMap.loadAndDelete_ok hs v
    refine ⟨h1, fun x => ?_, ?_⟩
    · show (abs (loadAndDelete m v).1 x).isSome = (!decide (x = v) && (abs m x).isSome)
      rw [h2]
      by_cases hx : x = v
      · simp [hx]
      · simp [hx]
    · show (loadAndDelete m v).2.isSome = (abs m v).isSome
      rw [h3]

/-! ### Range -/

theorem cut_map {β γ : Type} (f : β → γ) (n : Int) (l : List β) : (cut n l).map f = cut n (l.map f) := by
  unfold cut; split
  · rfl
  · rw [List.map_take]

theorem cut_zero {β : Type} (l : List β) : cut 0 l = l := by simp [cut]

theorem rangeN_ok (s : AnySet α) (hs : SetOK s) (n : Int) :
    SetOK (rangeN s n).1 ∧ (∀ x, mem (rangeN s n).1 x = mem s x) ∧ (rangeN s n).1 = (rangeAll s).1 ∧
    (rangeN s n).2 = cut n (rangeAll s).2 ∧ (rangeAll s).2.Nodup ∧ (∀ x, x ∈ (rangeAll s).2 ↔ mem s x = true) := by
  cases s with
  | mapSet l =>
    refine ⟨hs, fun _ => rfl, rfl, ?_, ?_, ?_⟩
    · show cut n l = cut n (cut 0 l); rw [cut_zero]
    · show (cut 0 l).Nodup; rw [cut_zero]; exact hs
    · intro x; show x ∈ cut 0 l ↔ l.contains x = true; rw [cut_zero]; simp
  | syncSet m =>
    have hperm : (akeys (rangePromote m).read).Perm (akeys (rangePromote m).read) := List.Perm.refl _
    obtain ⟨h1, h2, h3⟩ := Lemmas.SyncMap.rangeOrd_ok hs (akeys (rangePromote m).read) n
    obtain ⟨g1, g2, g3⟩ := Lemmas.SyncMap.rangeOrd_ok hs (akeys (rangePromote m).read) 0
    obtain ⟨_, _, r3, r4, r5, _⟩ := Lemmas.SyncMap.range_seq hs (akeys (rangePromote m).read) 0 hperm
    have hall : (rangeAll (AnySet.syncSet m)).2 = (rangeOrd m (akeys (rangePromote m).read) 0).2.map Prod.fst := rfl
    refine ⟨h1, fun x => ?_, rfl, ?_, ?_, ?_⟩
    · show (abs (rangeOrd m (akeys (rangePromote m).read) n).1 x).isSome = (abs m x).isSome
      rw [h2]
    · rw [hall]
      show (rangeOrd m (akeys (rangePromote m).read) n).2.map Prod.fst = _
      rw [h3, g3, cut_zero, cut_map]
    · rw [hall]; exact r3
    · intro x
      rw [hall, List.mem_map]
      show _ ↔ (abs m x).isSome = true
      constructor
      · rintro ⟨⟨k, u⟩, hk, rfl⟩
        rw [r4 k u hk]; rfl
      · intro hx
        cases ha : abs m x with
        | none => rw [ha] at hx; cases hx
        | some u => exact ⟨(x, u), r5 (Int.le_refl 0) x u ha, rfl⟩

theorem rangeAll_ok (s : AnySet α) (hs : SetOK s) :
    SetOK (rangeAll s).1 ∧ (∀ x, mem (rangeAll s).1 x = mem s x) ∧
    (rangeAll s).2.Nodup ∧ (∀ x, x ∈ (rangeAll s).2 ↔ mem s x = true) := by
  obtain ⟨h1, h2, _, _, h5, h6⟩ := rangeN_ok s hs 0
  exact ⟨h1, h2, h5, h6⟩

/-- two duplicate-free enumerations of the same set have the same number of elements satisfying `p` -/
theorem filter_length_enum {l₁ l₂ : List α} (h1 : l₁.Nodup) (h2 : l₂.Nodup) (h : ∀ x, x ∈ l₁ ↔ x ∈ l₂) (p : α → Bool) :
    (l₁.filter p).length = (l₂.filter p).length :=
  ((List.perm_ext_iff_of_nodup h1 h2).mpr h |>.filter p).length_eq

/-! ### the callback loops -/

theorem addLoop_ok : ∀ (vs : List α) (s : AnySet α) (c : Nat), SetOK s →
    SetOK (addLoop s vs c).1 ∧ (∀ x, mem (addLoop s vs c).1 x = (vs.contains x || mem s x)) ∧
    (vs.Nodup → (addLoop s vs c).2 = c + (vs.filter (fun v => !mem s v)).length) := by
  intro vs
  induction vs with
  | nil => intro s c hs; exact ⟨hs, fun x => by simp [addLoop], fun _ => by simp [addLoop]⟩
  | cons v rest ih =>
    intro s c hs
    obtain ⟨a1, a2, a3⟩ := add_ok s hs v
    obtain ⟨i1, i2, i3⟩ := ih (add s v).1 (if (add s v).2 then c + 1 else c) a1
    refine ⟨i1, fun x => ?_, fun hn => ?_⟩
    · show mem (addLoop (add s v).1 rest _).1 x = _
      rw [i2, a2]
      by_cases hx : x = v
      · subst hx; simp
      · have : ¬ v = x := fun h => hx h.symm
        simp [hx, this, List.contains_cons]
    · rw [List.nodup_cons] at hn
      show (addLoop (add s v).1 rest _).2 = _
      rw [i3 hn.2, a3]
      have hf : rest.filter (fun w => !mem (add s v).1 w) = rest.filter (fun w => !mem s w) := by
        apply List.filter_congr
        intro w hw
        rw [a2]
        have : ¬ w = v := fun h => hn.1 (h ▸ hw)
        simp [this]
      rw [hf, List.filter_cons]
      cases hm : mem s v <;> simp <;> omega

theorem removeLoop_ok : ∀ (vs : List α) (s : AnySet α) (c : Nat), SetOK s →
    SetOK (removeLoop s vs c).1 ∧ (∀ x, mem (removeLoop s vs c).1 x = (!vs.contains x && mem s x)) ∧
    (vs.Nodup → (removeLoop s vs c).2 = c + (vs.filter (fun v => mem s v)).length) := by
  intro vs
  induction vs with
  | nil => intro s c hs; exact ⟨hs, fun x => by simp [removeLoop], fun _ => by simp [removeLoop]⟩
  | cons v rest ih =>
    intro s c hs
    obtain ⟨a1, a2, a3⟩ := remove_ok s hs v
    obtain ⟨i1, i2, i3⟩ := ih (remove s v).1 (if (remove s v).2 then c + 1 else c) a1
    refine ⟨i1, fun x => ?_, fun hn => ?_⟩
    · show mem (removeLoop (remove s v).1 rest _).1 x = _
      rw [i2, a2]
      by_cases hx : x = v
      · subst hx; simp
      · have : ¬ v = x := fun h => hx h.symm
        simp [hx, this, List.contains_cons]
    · rw [List.nodup_cons] at hn
      show (removeLoop (remove s v).1 rest _).2 = _
      rw [i3 hn.2, a3]
      have hf : rest.filter (fun w => mem (remove s v).1 w) = rest.filter (fun w => mem s w) := by
        apply List.filter_congr
        intro w hw
        rw [a2]
        have : ¬ w = v := fun h => hn.1 (h ▸ hw)
        simp [this]
      rw [hf, List.filter_cons]
      cases hm : mem s v <;> simp <;> omega

theorem filterLoop_ok (keep : Bool) : ∀ (vs : List α) (q res : AnySet α), SetOK q → SetOK res →
    SetOK (filterLoop keep q res vs).1 ∧ SetOK (filterLoop keep q res vs).2 ∧
    (∀ x, mem (filterLoop keep q res vs).1 x = mem q x) ∧
    (∀ x, mem (filterLoop keep q res vs).2 x = (mem res x || (vs.contains x && (mem q x == keep)))) := by
  intro vs
  induction vs with
  | nil => intro q res hq hr; exact ⟨hq, hr, fun _ => rfl, fun x => by simp [filterLoop]⟩
  | cons v rest ih =>
    intro q res hq hr
    obtain ⟨h1, h2, h3⟩ := has_ok q hq v
    obtain ⟨a1, a2, _⟩ := add_ok res hr v
    have hres : SetOK (if (has q v).2 == keep then (add res v).1 else res) := by split <;> assumption
    obtain ⟨i1, i2, i3, i4⟩ := ih (has q v).1 (if (has q v).2 == keep then (add res v).1 else res) h1 hres
    refine ⟨i1, i2, fun x => ?_, fun x => ?_⟩
    · show mem (filterLoop keep (has q v).1 _ rest).1 x = _
      rw [i3, h2]
    · show mem (filterLoop keep (has q v).1 _ rest).2 x = _
      rw [i4, h2, h3]
      by_cases hx : x = v
      · subst hx
        cases hk : (mem q x == keep)
        · simp [hk]
        · simp [hk, a2]
      · have : ¬ v = x := fun h => hx h.symm
        cases hk : (mem q v == keep)
        · simp [List.contains_cons, this, hx]
        · simp [a2, hx, List.contains_cons, this]

end TypVerif.Lemmas.Sets
