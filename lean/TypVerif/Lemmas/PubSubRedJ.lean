import TypVerif.Lemmas.PubSubRedSeq
import TypVerif.Lemmas.PubSubLogStep
/-
C10, completeness of the judge's reduction: which steps of the model are steps of `succJ`; recognising the lag steps among the
steps of a task.
-/
set_option linter.unusedSectionVars false
namespace TypVerif.Lemmas.PubSubRed
open TypVerif TypVerif.Conc TypVerif.Model.PubSub TypVerif.Drv.C10

/-- task `i` goes from `asyncStart` to `asyncSend _ _ false` between `j` and `z` -/
def RdShape (j z : State) (i : Nat) : Prop :=
  ∃ o it o' it', j.tasks[i]? = some (Task.asyncStart o it) ∧ z.tasks[i]? = some (Task.asyncSend o' it' false)

/-- the test `succJ` performs -/
def rdTest (j z : State) (i : Nat) : Bool :=
  match j.tasks[i]?, z.tasks[i]? with
  | some (.asyncStart _ _), some (.asyncSend _ _ false) => true
  | _, _ => false

theorem rdTest_iff (j z : State) (i : Nat) : rdTest j z i = true ↔ RdShape j z i := by
  unfold rdTest RdShape
  constructor
  · intro h
    split at h
    · rename_i o it o' it' h1 h2
      exact ⟨o, it, o', it', h1, h2⟩
    · cases h
  · rintro ⟨o, it, o', it', h1, h2⟩
    rw [h1, h2]

theorem succJ_eq (cfg : Cfg) (s : State) : succJ cfg s = (succ cfg s).flatMap (fun p =>
    match p.1 with
    | some _ => [p]
    | none =>
      match (List.range s.tasks.length).find? (rdTest s p.2) with
      | none => [p]
      | some i => (taskSteps cfg p.2 i).filter (fun q => q.1.isNone)) := rfl

theorem succJ_visible (cfg : Cfg) {j z : State} {e : Event} (h : (some e, z) ∈ succ cfg j) : (some e, z) ∈ succJ cfg j := by
  rw [succJ_eq]
  exact List.mem_flatMap.2 ⟨_, h, List.mem_singleton.2 rfl⟩

theorem succJ_plain (cfg : Cfg) {j z : State} {l : Option Event} (h : (l, z) ∈ succ cfg j)
    (hn : l = none → ∀ i, i < j.tasks.length → ¬ RdShape j z i) : (l, z) ∈ succJ cfg j := by
  cases l with
  | some e => exact succJ_visible cfg h
  | none =>
    rw [succJ_eq]
    refine List.mem_flatMap.2 ⟨_, h, ?_⟩
    have : (List.range j.tasks.length).find? (rdTest j z) = none := by
      rw [List.find?_eq_none]
      intro i hi
      have := hn rfl i (List.mem_range.1 hi)
      rw [← rdTest_iff] at this
      simpa using this
    simp only [this]
    exact List.mem_singleton.2 rfl

theorem succJ_merged (cfg : Cfg) {j m t : State} {k : Nat} (h : (none, m) ∈ succ cfg j) (hk : RdShape j m k)
    (huniq : ∀ i, i < j.tasks.length → RdShape j m i → i = k) (ht : (none, t) ∈ taskSteps cfg m k) : (none, t) ∈ succJ cfg j := by
  rw [succJ_eq]
  refine List.mem_flatMap.2 ⟨_, h, ?_⟩
  have hklt : k < j.tasks.length := by
    obtain ⟨o, it, _, _, h1, _⟩ := hk
    rcases Nat.lt_or_ge k j.tasks.length with hlt | hge
    · exact hlt
    · rw [List.getElem?_eq_none hge] at h1; cases h1
  cases hf : (List.range j.tasks.length).find? (rdTest j m) with
  | none =>
    rw [List.find?_eq_none] at hf
    have := hf k (List.mem_range.2 hklt)
    rw [(rdTest_iff j m k).2 hk] at this
    exact absurd rfl this
  | some i =>
    have h1 := List.find?_some hf
    have h2 := List.mem_range.1 (List.mem_of_find?_eq_some hf)
    have : i = k := huniq i h2 ((rdTest_iff j m i).1 h1)
    subst this
    exact List.mem_filter.2 ⟨ht, rfl⟩

/-! ### frames -/

theorem taskSteps_tasks (cfg : Cfg) {x z : State} {k : Nat} {l : Option Event} (h : (l, z) ∈ taskSteps cfg x k) :
    ∃ t' new, z.tasks = x.tasks.set k t' ++ new := by
  unfold taskSteps at h
  split at h
  · cases h
  · rename_i t ht
    obtain ⟨t', new, _, _, _, h2, _⟩ := PubSubLog.stepTask_tsum ht h
    exact ⟨t', new, h2⟩

theorem taskSteps_task_ne (cfg : Cfg) {x z : State} {k : Nat} {l : Option Event} (h : (l, z) ∈ taskSteps cfg x k)
    {i : Nat} (hi : i < x.tasks.length) (hne : i ≠ k) : z.tasks[i]? = x.tasks[i]? := by
  obtain ⟨t', new, e⟩ := taskSteps_tasks cfg h
  rw [e, List.getElem?_append_left (by simpa using hi), List.getElem?_set_ne (Ne.symm hne)]

theorem recvSteps_tasks {x z : State} {ch : ChanSt} {l : Option Event} (h : (l, z) ∈ recvSteps x ch) : z.tasks = x.tasks := by
  unfold recvSteps at h
  split at h
  · cases h
  · split at h
    · rw [Lemmas.ConcAcceptC10.J_mem_single h]
    · split at h
      · cases h
      · split at h
        · rw [Lemmas.ConcAcceptC10.J_mem_single h]
        · split at h
          · rw [Lemmas.ConcAcceptC10.J_mem_single h]
          · cases h

theorem stepsOf_none_tasks (cfg : Cfg) {x z : State} (h : (none, z) ∈ stepsOf cfg x none) : z.tasks = x.tasks := by
  simp only [stepsOf] at h
  rcases List.mem_append.1 h with h | h
  · rcases List.mem_append.1 h with h | h
    · exact absurd h (Lemmas.ConcAcceptC10.J_envSteps_visible cfg x z)
    · obtain ⟨ch, _, hc⟩ := List.mem_flatMap.1 h
      exact recvSteps_tasks hc
  · exact absurd h (Lemmas.ConcAcceptC10.J_exitSteps_visible x z)

/-! ### recognising lag steps -/

theorem ann_step (cfg : Cfg) {s s' : State} {k : Nat} {tk t1 : Task} {o : Nat} {l : Option Event} (hk : s.tasks[k]? = some tk)
    (ha : annOf tk = some (o, t1)) (ho : o < s.objs.length) (h : (l, s') ∈ taskSteps cfg s k) :
    l = none ∧ LagStep s k (.ann o tk t1) s' := by
  unfold taskSteps at h
  rw [hk] at h
  have : (l, s') = (none, lagT o RW.announce k t1 s) := by
    rcases annOf_cases ha with ⟨c', cap, rfl, rfl⟩ | ⟨u, c', rfl, rfl⟩ | ⟨u, rfl, rfl⟩ <;>
      exact List.mem_singleton.1 h
  injection this with e1 e2
  exact ⟨e1, ⟨ha, ho, hk, trivial, e2⟩⟩

theorem asyncStart_step (cfg : Cfg) {s s' : State} {k : Nat} {o : Nat} {it : Item} {l : Option Event}
    (hk : s.tasks[k]? = some (.asyncStart o it)) (ho : o < s.objs.length) (h : (l, s') ∈ taskSteps cfg s k) :
    l = none ∧ (LagStep s k (.rd o it) s' ∨ s'.tasks[k]? = some .done) := by
  have hklt : k < s.tasks.length := by
    rcases Nat.lt_or_ge k s.tasks.length with hlt | hge
    · exact hlt
    · rw [List.getElem?_eq_none hge] at hk; cases hk
  unfold taskSteps at h
  rw [hk] at h
  simp only [stepTask, stepAsyncStart] at h
  split at h
  · cases h
  · rename_i hc
    split at h
    · rename_i hm
      have := List.mem_singleton.1 h
      injection this with e1 e2
      refine ⟨e1, Or.inl ⟨trivial, ho, hk, ⟨(by simpa using hc : (s.obj o).rw.canRLock = true), hm⟩, e2⟩⟩
    · have := List.mem_singleton.1 h
      injection this with e1 e2
      refine ⟨e1, Or.inr ?_⟩
      rw [e2]
      show (s.tasks.set k .done)[k]? = _
      rw [List.getElem?_set_self hklt]

theorem asyncSend_step_internal (cfg : Cfg) {s s' : State} {k : Nat} {o : Nat} {it : Item} {l : Option Event}
    (hk : s.tasks[k]? = some (.asyncSend o it false)) (h : (l, s') ∈ taskSteps cfg s k) : l = none := by
  unfold taskSteps at h
  rw [hk] at h
  simp only [stepTask, stepAsyncSend, stepSend, Bool.false_eq_true, ↓reduceIte] at h
  rcases List.mem_append.1 h with h | h
  · split at h
    · cases h
    · have := List.mem_singleton.1 h; injection this
    · have := List.mem_singleton.1 h; injection this
  · split at h
    · have := List.mem_singleton.1 h; injection this
    · cases h

theorem waiter_step_canLock (cfg : Cfg) {s s' : State} {k : Nat} {t1 : Task} {o : Nat} {l : Option Event}
    (hk : s.tasks[k]? = some t1) (hw : waitsOn t1 = some o) (h : (l, s') ∈ taskSteps cfg s k) :
    (s.obj o).rw.readers = 0 := by
  unfold taskSteps at h
  rw [hk] at h
  have key : ∀ {A : Steps}, (l, s') ∈ (if (!(s.obj o).rw.canLock) = true then [] else A) → (s.obj o).rw.readers = 0 := by
    intro A h
    split at h
    · cases h
    · rename_i hc
      simp [RW.canLock] at hc
      exact hc.1
  cases t1 with
  | subWait o' c cap =>
    simp only [waitsOn, Option.some.injEq] at hw; subst hw
    simp only [stepTask, stepSubWait] at h
    split at h
    · cases h
    · rename_i hc
      simp [RW.canLock] at hc
      exact hc.1.1
  | unsubWait u o' c =>
    simp only [waitsOn, Option.some.injEq] at hw; subst hw
    exact key h
  | uaWait u o' =>
    simp only [waitsOn, Option.some.injEq] at hw; subst hw
    exact key h
  | _ => cases hw

theorem LK.waitsOn_tgt {o : Nat} {t t1 : Task} (h : annOf t = some (o, t1)) : waitsOn t1 = some o := by
  rcases annOf_cases h with ⟨c', cap, rfl, rfl⟩ | ⟨u, c', rfl, rfl⟩ | ⟨u, rfl, rfl⟩ <;> rfl

end TypVerif.Lemmas.PubSubRed
