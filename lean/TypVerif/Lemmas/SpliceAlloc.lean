import TypVerif.Lemmas.SpliceLoops
/-
Lemmas for C12: Repeat, Concat, Clone, Grow (functions that allocate).
-/
namespace TypVerif.Lemmas.Splice
open TypVerif TypVerif.Model TypVerif.Model.GoSlice TypVerif.Lemmas.GoSlice

variable {α : Type}

theorem make_cells (h : Heap α) (zero : α) (len cap b : Nat) :
    (make h zero len cap).1.cells b = if b = h.next then List.replicate cap zero else h.cells b := rfl

theorem make_snd (h : Heap α) (zero : α) (len cap : Nat) :
    (make h zero len cap).2 = { bid := h.next, off := 0, len := len, cap := cap } := rfl

theorem make_next (h : Heap α) (zero : α) (len cap : Nat) : (make h zero len cap).1.next = h.next + 1 := rfl

theorem make_wf (h : Heap α) (zero : α) (len cap : Nat) (hle : len ≤ cap) :
    WF (make h zero len cap).1 (make h zero len cap).2 := by
  refine ⟨hle, ?_, ?_⟩
  · rw [make_snd]; simp only []; rw [make_cells, if_pos rfl, List.length_replicate]; omega
  · rw [make_snd, make_next]; simp only []; omega

/-! ### append, in general -/

theorem append_contents (h : Heap α) (s : Slice) (vs spare : List α) (hwf : WF h s) :
    WF (append h s vs spare).1 (append h s vs spare).2 ∧
    contents (append h s vs spare).1 (append h s vs spare).2 = contents h s ++ vs := by
  obtain ⟨hlc, hlen, hb⟩ := hwf
  have hcl : (contents h s).length = s.len := length_contents (by omega)
  by_cases hfit : s.len + vs.length ≤ s.cap
  · have hs1 : (append h s vs spare).2 = { s with len := s.len + vs.length } := by
      rw [append_inplace h s vs spare hfit]
    have hn : (append h s vs spare).1.next = h.next := by rw [append_inplace h s vs spare hfit]; rfl
    refine ⟨⟨by rw [hs1]; exact hfit, by rw [hs1]; simp only []; rw [length_append_inplace h s vs spare hfit hlen]; exact hlen,
      by rw [hs1, hn]; exact hb⟩, ?_⟩
    apply List.ext_getElem?
    intro k
    rw [getElem?_contents, hs1]
    simp only [getElem?_append_inplace h s vs spare hfit hlen, List.getElem?_append, hcl, getElem?_contents,
      true_and]
    repeat' split
    all_goals idx
  · have hs1 := append_realloc_snd h s vs spare hfit
    have hc1 := append_realloc_cells h s vs spare hfit
    have hn := append_realloc_next h s vs spare hfit
    have hlen2 : (contents h s ++ vs).length = s.len + vs.length := by rw [List.length_append, hcl]
    refine ⟨⟨by rw [hs1]; simp only []; omega,
      by rw [hs1]; simp only []; rw [hc1, if_pos rfl, List.length_append, hlen2]; omega,
      by rw [hs1, hn]; simp only []; omega⟩, ?_⟩
    rw [hs1]
    rw [show contents (append h s vs spare).1 ⟨h.next, 0, s.len + vs.length, s.len + vs.length + spare.length⟩
      = (((append h s vs spare).1.cells h.next).drop 0).take (s.len + vs.length) from rfl, hc1, if_pos rfl,
      List.drop_zero, List.take_left' hlen2]

/-- whether `append` stays in the backing array is decided by the spare capacity alone -/
theorem append_same_iff (h : Heap α) (s : Slice) (vs spare : List α) (hwf : WF h s) :
    ((append h s vs spare).2.bid = s.bid ↔ s.len + vs.length ≤ s.cap) ∧
    ((append h s vs spare).2.bid ≠ s.bid → ∀ b, b ≠ h.next → (append h s vs spare).1.cells b = h.cells b) := by
  by_cases hfit : s.len + vs.length ≤ s.cap
  · have hs1 : (append h s vs spare).2 = { s with len := s.len + vs.length } := by
      rw [append_inplace h s vs spare hfit]
    refine ⟨⟨fun _ => hfit, fun _ => by rw [hs1]⟩, fun hne => absurd (by rw [hs1]) hne⟩
  · have hs1 := append_realloc_snd h s vs spare hfit
    refine ⟨⟨fun he => ?_, fun hf => absurd hf hfit⟩, fun _ b hb => ?_⟩
    · rw [hs1] at he; simp only [] at he; have := hwf.2.2; omega
    · rw [append_realloc_cells h s vs spare hfit, if_neg hb]

/-! ### Grow -/

theorem grow_contents (h : Heap α) (zero : α) (s : Slice) (n : Nat) (spare : List α) (hwf : WF h s) :
    WF (Splice.grow h zero s n spare).1 (Splice.grow h zero s n spare).2 ∧
    contents (Splice.grow h zero s n spare).1 (Splice.grow h zero s n spare).2 =
      contents h s ++ List.replicate n zero :=
  append_contents h s (List.replicate n zero) spare hwf

/-! ### Repeat -/

theorem repeat_contents (h : Heap α) (zero value : α) (count : Nat) :
    ∃ h' r, Splice.repeat_ h zero value count = .ok (h', r) ∧ WF h' r ∧ r.bid = h.next ∧
      (∀ b, b ≠ h.next → h'.cells b = h.cells b) ∧
      contents h' r = List.replicate count value := by
  have hwf := make_wf h zero count count (Nat.le_refl _)
  obtain ⟨h', he, hn, hlen, hcells⟩ := fill_spec (make h zero count count).1 (make h zero count count).2 value hwf
  obtain ⟨h'', he', hwf', hcont⟩ := fill_contents (make h zero count count).1 (make h zero count count).2 value hwf
  have : h'' = h' := by rw [he] at he'; injection he' with e; exact e.symm
  subst this
  refine ⟨h'', (make h zero count count).2, ?_, hwf', rfl, ?_, hcont⟩
  · unfold Splice.repeat_
    simp only [bind, Except.bind]
    rw [he]; rfl
  · intro b hb
    apply List.ext_getElem?
    intro j
    rw [hcells, make_snd]
    simp only [hb, false_and, if_false]
    rw [make_cells, if_neg hb]

/-! ### Clone -/

theorem clone_spec (h : Heap α) (zero : α) (s : Slice) (hwf : WF h s) :
    (Splice.clone h zero s).2 = { bid := h.next, off := 0, len := s.len, cap := s.len } ∧
    WF (Splice.clone h zero s).1 (Splice.clone h zero s).2 ∧
    (∀ b, b ≠ h.next → (Splice.clone h zero s).1.cells b = h.cells b) ∧
    contents (Splice.clone h zero s).1 (Splice.clone h zero s).2 = contents h s := by
  obtain ⟨hlc, hlen, hb⟩ := hwf
  have hne : s.bid ≠ h.next := by omega
  have hs : Splice.clone h zero s =
      ((copy (make h zero s.len s.len).1 ⟨h.next, 0, s.len, s.len⟩ s).1, ⟨h.next, 0, s.len, s.len⟩) := rfl
  have hm := make_cells h zero s.len s.len
  have hc1 := fun b j => copy_cells (make h zero s.len s.len).1 ⟨h.next, 0, s.len, s.len⟩ s
    (by rw [hm, if_neg hne]; omega) (by simp only []; rw [hm, if_pos rfl, List.length_replicate]; omega) b j
  have hl1 := fun b => copy_length (make h zero s.len s.len).1 ⟨h.next, 0, s.len, s.len⟩ s
    (by simp only []; rw [hm, if_pos rfl, List.length_replicate]; omega) b
  simp only [] at hc1
  rw [hs]
  refine ⟨rfl, ⟨Nat.le_refl _, ?_, ?_⟩, ?_, ?_⟩
  · simp only []; rw [hl1, hm, if_pos rfl, List.length_replicate]; omega
  · simp only []; rw [copy_next, make_next]; omega
  · intro b hbn
    apply List.ext_getElem?
    intro j
    simp only [hc1, hbn, false_and, if_false, hm]
  · apply List.ext_getElem?
    intro k
    simp only [getElem?_contents, hc1, hm, hne, if_false, true_and, Nat.zero_add, Nat.min_self, Nat.zero_le,
      Nat.sub_zero]
    repeat' split
    all_goals idx

/-! ### Concat -/

theorem concat_spec (h : Heap α) (zero : α) (a b : Slice) (hwa : WF h a) (hwb : WF h b) :
    ∃ h', Splice.concat h zero a b =
        .ok (h', { bid := h.next, off := 0, len := a.len + b.len, cap := a.len + b.len }) ∧
      WF h' { bid := h.next, off := 0, len := a.len + b.len, cap := a.len + b.len } ∧
      (∀ x, x ≠ h.next → h'.cells x = h.cells x) ∧
      contents h' { bid := h.next, off := 0, len := a.len + b.len, cap := a.len + b.len } =
        contents h a ++ contents h b := by
  have hna : a.bid ≠ h.next := by have := hwa.2.2; omega
  have hnb : b.bid ≠ h.next := by have := hwb.2.2; omega
  have hla : (contents h a).length = a.len := length_contents (by have := hwa.1; have := hwa.2.1; omega)
  have hm := make_cells h zero (a.len + b.len) (a.len + b.len)
  unfold Splice.concat
  have hmk : make h zero (a.len + b.len) (a.len + b.len) =
      ((make h zero (a.len + b.len) (a.len + b.len)).1, ⟨h.next, 0, a.len + b.len, a.len + b.len⟩) := rfl
  rw [hmk]
  simp only []
  rw [sliceTo_ok _ a.len (by simp only []; omega),
    sliceFrom_ok _ a.len (by simp only []; omega) (by simp only []; omega)]
  simp only [bind, Except.bind, pure, Except.pure]
  have hc1 := fun x j => copy_cells (make h zero (a.len + b.len) (a.len + b.len)).1
    ⟨h.next, 0, a.len, a.len + b.len⟩ a
    (by rw [hm, if_neg hna]; have := hwa.1; have := hwa.2.1; omega)
    (by simp only []; rw [hm, if_pos rfl, List.length_replicate]; omega) x j
  have hl1 := fun x => copy_length (make h zero (a.len + b.len) (a.len + b.len)).1
    ⟨h.next, 0, a.len, a.len + b.len⟩ a
    (by simp only []; rw [hm, if_pos rfl, List.length_replicate]; omega) x
  have hc2 := fun x j => copy_cells (copy (make h zero (a.len + b.len) (a.len + b.len)).1
      ⟨h.next, 0, a.len, a.len + b.len⟩ a).1
    ⟨h.next, 0 + a.len, a.len + b.len - a.len, a.len + b.len - a.len⟩ b
    (by rw [hl1, hm, if_neg hnb]; have := hwb.1; have := hwb.2.1; omega)
    (by simp only []; rw [hl1, hm, if_pos rfl, List.length_replicate]; omega) x j
  have hl2 := fun x => copy_length (copy (make h zero (a.len + b.len) (a.len + b.len)).1
      ⟨h.next, 0, a.len, a.len + b.len⟩ a).1
    ⟨h.next, 0 + a.len, a.len + b.len - a.len, a.len + b.len - a.len⟩ b
    (by simp only []; rw [hl1, hm, if_pos rfl, List.length_replicate]; omega) x
  simp only [] at hc1 hc2
  refine ⟨_, rfl, ⟨Nat.le_refl _, ?_, ?_⟩, ?_, ?_⟩
  · simp only []; rw [hl2, hl1, hm, if_pos rfl, List.length_replicate]; omega
  · simp only []; rw [copy_next, copy_next, make_next]; omega
  · intro x hx
    apply List.ext_getElem?
    intro j
    simp only [hc2, hc1, hx, false_and, if_false, hm]
  · apply List.ext_getElem?
    intro k
    simp only [getElem?_contents, hc2, hc1, hm, hna, hnb, if_false, true_and]
    simp only [Nat.zero_add, Nat.zero_le, List.getElem?_append, hla, getElem?_contents, true_and, false_and, if_false]
    repeat' split
    all_goals idx


end TypVerif.Lemmas.Splice
