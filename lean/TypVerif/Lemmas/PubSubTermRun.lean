import TypVerif.Lemmas.PubSubTermStep
/-
Internal runs of the PubSub model (only steps of PubSub goroutines and of receivers, no invocation by the
environment): they are bounded by `measure`, they preserve the invariants, and they tell how a sender ends.
-/
namespace TypVerif.Lemmas.PubSubTerm
open TypVerif TypVerif.Model.PubSub TypVerif.Lemmas.PubSubSafe TypVerif.Lemmas.PubSubLive
  TypVerif.Lemmas.PubSubLog TypVerif.Lemmas.PubSubLocal

/-- one internal step: a step of some PubSub goroutine or of some receiver -/
def IStep (cfg : Cfg) (s s' : State) : Prop :=
  ∃ l, (∃ i, (l, s') ∈ taskSteps cfg s i) ∨ (∃ ch ∈ s.chans, (l, s') ∈ recvSteps s ch)

/-- `InternalRun cfg s n s'`: `s'` is reached from `s` by exactly `n` internal steps -/
inductive InternalRun (cfg : Cfg) : State → Nat → State → Prop
  | nil (s : State) : InternalRun cfg s 0 s
  | cons {s s1 s' : State} {n : Nat} : IStep cfg s s1 → InternalRun cfg s1 n s' → InternalRun cfg s (n + 1) s'

/-- no internal step is enabled -/
def Quiescent (cfg : Cfg) (s : State) : Prop :=
  (∀ i, taskSteps cfg s i = []) ∧ (∀ ch ∈ s.chans, recvSteps s ch = [])

theorem taskSteps_mem {cfg : Cfg} {s s' : State} {i : Nat} {l : Option Event} (h : (l, s') ∈ taskSteps cfg s i) :
    ∃ t, s.tasks[i]? = some t ∧ (l, s') ∈ stepTask cfg s i t := by
  unfold taskSteps at h
  split at h
  · simp at h
  · rename_i t ht; exact ⟨t, ht, h⟩

theorem istep_dec {cfg : Cfg} {s s' : State} (hs : Safe s) (hu : ChanIdsOk s) (h : IStep cfg s s') : Dec cfg s s' := by
  obtain ⟨l, ⟨i, hi⟩ | ⟨ch, hm, hc⟩⟩ := h
  · obtain ⟨t, ht, hstep⟩ := taskSteps_mem hi
    exact dec_stepTask hs hu ht hstep
  · exact dec_recvSteps hu hm hc

theorem istep_safe {cfg : Cfg} {s s' : State} (hs : Safe s) (h : IStep cfg s s') : Safe s' := by
  obtain ⟨l, ⟨i, hi⟩ | ⟨ch, _, hc⟩⟩ := h
  · obtain ⟨t, ht, hstep⟩ := taskSteps_mem hi
    exact safe_stepTask hs ht hstep
  · exact safe_recvSteps hs hc

theorem istep_chanIds {cfg : Cfg} {s s' : State} (hu : ChanIdsOk s) (h : IStep cfg s s') : ChanIdsOk s' := by
  obtain ⟨l, ⟨i, hi⟩ | ⟨ch, _, hc⟩⟩ := h
  · obtain ⟨t, ht, hstep⟩ := taskSteps_mem hi
    exact chanIds_stepTask hu ht hstep
  · exact chanIds_recvSteps hu hc

theorem istep_bstep {cfg : Cfg} {s s' : State} (h : IStep cfg s s') : BStep cfg s s' := by
  obtain ⟨l, ⟨i, hi⟩ | ⟨ch, _, hc⟩⟩ := h
  · obtain ⟨t, ht, hstep⟩ := taskSteps_mem hi
    obtain ⟨t', new, dl, tl, h1, h2, h3, h4, h5⟩ := stepTask_tsum ht hstep
    exact .task i t t' new dl tl ht h1 h2 h3 h4 h5
  · exact recvSteps_bstep hc

/-- an internal run of `n` steps uses up at least `n` units of the measure -/
theorem run_measure {cfg : Cfg} {s s' : State} {n : Nat} (h : InternalRun cfg s n s') :
    Safe s → ChanIdsOk s → n + measure cfg s' ≤ measure cfg s := by
  induction h with
  | nil s => intro _ _; omega
  | cons hstep _ ih =>
    intro hs hu
    have hd := istep_dec hs hu hstep
    have := ih (istep_safe hs hstep) (istep_chanIds hu hstep)
    have := hd.lt
    omega

theorem run_safe {cfg : Cfg} {s s' : State} {n : Nat} (h : InternalRun cfg s n s') :
    Safe s → ChanIdsOk s → Safe s' ∧ ChanIdsOk s' := by
  induction h with
  | nil s => intro hs hu; exact ⟨hs, hu⟩
  | cons hstep _ ih => intro hs hu; exact ih (istep_safe hs hstep) (istep_chanIds hu hstep)

theorem run_append {cfg : Cfg} {s s1 s2 : State} {n m : Nat} (h1 : InternalRun cfg s n s1)
    (h2 : InternalRun cfg s1 m s2) : InternalRun cfg s (n + m) s2 := by
  induction h1 with
  | nil s => simpa using h2
  | cons hstep _ ih =>
    have := InternalRun.cons hstep (ih h2)
    rw [show ∀ a b : Nat, a + 1 + b = a + b + 1 from fun a b => by omega]
    exact this

/-- a maximal run exists from every state (of the system without clones): keep taking enabled internal steps -/
theorem run_exists (cfg : Cfg) : ∀ (k : Nat) (s : State), measure cfg s ≤ k → Safe s → ChanIdsOk s →
    ∃ n s', InternalRun cfg s n s' ∧ Quiescent cfg s'
  | k, s, hk, hs, hu => by
    by_cases hq : Quiescent cfg s
    · exact ⟨0, s, .nil s, hq⟩
    · have hstep : ∃ s1, IStep cfg s s1 := by
        apply Classical.byContradiction
        intro hno
        apply hq
        constructor
        · intro i
          cases hl : taskSteps cfg s i with
          | nil => rfl
          | cons p rest =>
            exact absurd ⟨p.2, p.1, Or.inl ⟨i, by rw [hl]; exact List.mem_cons_self⟩⟩ hno
        · intro ch hm
          cases hl : recvSteps s ch with
          | nil => rfl
          | cons p rest =>
            exact absurd ⟨p.2, p.1, Or.inr ⟨ch, hm, by rw [hl]; exact List.mem_cons_self⟩⟩ hno
      obtain ⟨s1, h1⟩ := hstep
      have hd := (istep_dec hs hu h1).lt
      match k, hk with
      | 0, hk => omega
      | k + 1, hk =>
        obtain ⟨n, s', hrun, hq'⟩ := run_exists cfg k s1 (by omega) (istep_safe hs h1) (istep_chanIds hu h1)
        exact ⟨n + 1, s', .cons h1 hrun, hq'⟩

/-! ### the pending timeout callbacks are logged -/

/-- the item whose timer has fired and whose `OnPubTimeout` callback is pending -/
def cbItem : Task → Option Item
  | .syncLoop _ _ (it :: _) true => some it
  | .asyncSend _ it true => some it
  | .wgSend _ _ it true => some it
  | _ => none

/-- a sender waiting to run its timeout callback has its item in `timedOut` -/
def CbLogged (s : State) : Prop := ∀ t ∈ s.tasks, ∀ it, cbItem t = some it → key it ∈ s.timedOut

theorem cbItem_ctl {t : Task} (h : isCtl t = true) : cbItem t = none := by
  cases t <;> first | rfl | simp [isCtl] at h

theorem cbItem_syncNext (p o : Nat) (w : List Item) : cbItem (syncNext p o w) = none := by
  cases w <;> rfl

theorem tstep_cb {cfg : Cfg} {s : State} {t t' : Task} {new : List Task} {dl tl : List Key} {T : List Key}
    (h : TStep cfg s t t' new dl tl) (ht : ∀ it, cbItem t = some it → key it ∈ T) :
    (∀ it, cbItem t' = some it → key it ∈ T ++ tl) ∧ ∀ x ∈ new, cbItem x = none := by
  cases h with
  | stuck t _ => exact ⟨fun it h => (by simpa using ht it h), by simp⟩
  | ctl _ h2 => exact ⟨fun it h => (by rw [cbItem_ctl h2] at h; cases h), by simp⟩
  | ret p => exact ⟨fun it h => (by cases h), by simp⟩
  | waitRet p o w _ => exact ⟨fun it h => (by cases h), by simp⟩
  | pubSync p o v evs _ => exact ⟨fun it h => (by rw [cbItem_syncNext] at h; cases h), by simp⟩
  | pubWait p o v evs _ _ =>
    refine ⟨fun it h => (by cases h), fun x hx => ?_⟩
    obtain ⟨_, _, rfl⟩ := List.mem_map.mp hx; rfl
  | pubAsync p o v evs _ _ =>
    refine ⟨fun it h => (by cases h), fun x hx => ?_⟩
    obtain ⟨_, _, rfl⟩ := List.mem_map.mp hx; rfl
  | syncCb p o it rest => exact ⟨fun it h => (by rw [cbItem_syncNext] at h; cases h), by simp⟩
  | syncSent p o it rest => exact ⟨fun it h => (by rw [cbItem_syncNext] at h; cases h), by simp⟩
  | syncTmo p o it rest _ =>
    refine ⟨fun it' h => ?_, by simp⟩
    simp only [cbItem, Option.some.injEq] at h; subst h; simp
  | asyncGo o it _ => exact ⟨fun it h => (by cases h), by simp⟩
  | asyncDrop o it _ => exact ⟨fun it h => (by cases h), by simp⟩
  | asyncCb o it => exact ⟨fun it h => (by cases h), by simp⟩
  | asyncSent o it => exact ⟨fun it h => (by cases h), by simp⟩
  | asyncTmo o it _ =>
    refine ⟨fun it' h => ?_, by simp⟩
    simp only [cbItem, Option.some.injEq] at h; subst h; simp
  | wgCb o w it => exact ⟨fun it h => (by cases h), by simp⟩
  | wgSent o w it => exact ⟨fun it h => (by cases h), by simp⟩
  | wgTmo o w it _ =>
    refine ⟨fun it' h => ?_, by simp⟩
    simp only [cbItem, Option.some.injEq] at h; subst h; simp

theorem cbLogged_bstep {cfg : Cfg} {s s' : State} (hc : CbLogged s) (h : BStep cfg s s') : CbLogged s' := by
  cases h with
  | same h1 _ h3 _ => intro t ht it hcb; rw [h3]; exact hc t (h1 ▸ ht) it hcb
  | spawnCtl t0 hctl h1 _ h3 _ =>
    intro t ht it hcb
    rw [h1] at ht; rw [h3]
    rcases List.mem_append.mp ht with ht | ht
    · exact hc t ht it hcb
    · simp only [List.mem_singleton] at ht; subst ht
      rw [cbItem_ctl hctl] at hcb; cases hcb
  | invoke p o v evs _ _ h1 _ h3 =>
    intro t ht it hcb
    rw [h1] at ht; rw [h3]
    rcases List.mem_append.mp ht with ht | ht
    · exact hc t ht it hcb
    · simp only [List.mem_singleton] at ht; subst ht; cases hcb
  | task i t0 t' new dl tl hi hT h1 _ h3 _ =>
    obtain ⟨g1, g2⟩ := tstep_cb (T := s.timedOut) hT (hc t0 (List.mem_of_getElem? hi))
    intro t ht it hcb
    rw [h1] at ht; rw [h3]
    rcases List.mem_append.mp ht with ht | ht
    · rcases List.mem_or_eq_of_mem_set ht with ht | ht
      · exact List.mem_append_left _ (hc t ht it hcb)
      · subst ht; exact g1 it hcb
    · rw [g2 t ht] at hcb; cases hcb

/-- every configuration, every reachable state -/
theorem cbLogged_reachable (cfg : Cfg) : ∀ s, Conc.Reachable (sys cfg) s → CbLogged s :=
  Conc.invariant (sys cfg) CbLogged (show CbLogged ({} : State) from fun t ht => by cases ht)
    (fun _ _ _ hc h => cbLogged_bstep hc (succ_bstep h))

/-! ### how a sender ends -/

theorem getElem?_set_append_self' {α} (l new : List α) (i : Nat) (x : α) (hi : i < l.length) :
    (l.set i x ++ new)[i]? = some x := by
  rw [List.getElem?_append_left (by simpa using hi), List.getElem?_set]
  simp [hi]

/-- the task after a step of task `i` -/
theorem tsum_next {cfg : Cfg} {s s' : State} {i : Nat} {t : Task} (hi : s.tasks[i]? = some t)
    (h : TSum cfg s s' i t) : ∃ t' new dl tl, TStep cfg s t t' new dl tl ∧ s'.tasks[i]? = some t' ∧
      s'.delivered = s.delivered ++ dl ∧ s'.timedOut = s.timedOut ++ tl := by
  obtain ⟨t', new, dl, tl, h1, h2, h3, h4, _⟩ := h
  exact ⟨t', new, dl, tl, h1, by rw [h2]; exact getElem?_set_append_self' _ _ _ _ (lt_length_of_getElem? hi), h3, h4⟩

/-- an asynchronous sender (Pub / PubSlice) whose step ends it: delivered, or timed out, or not subscribed when it
took the read lock -/
theorem async_end_tstep {cfg : Cfg} {s : State} {t : Task} {new : List Task} {dl tl : List Key} {o : Nat} {it : Item}
    (hc : ∀ it', cbItem t = some it' → key it' ∈ s.timedOut)
    (h : TStep cfg s t .done new dl tl) (ht : t = .asyncStart o it ∨ ∃ cb, t = .asyncSend o it cb) :
    key it ∈ s.delivered ++ dl ∨ key it ∈ s.timedOut ++ tl ∨ it.c ∉ (s.obj o).subs := by
  rcases ht with rfl | ⟨cb, rfl⟩
  · cases h with
    | ctl h1 _ => simp [isCtl] at h1
    | asyncDrop _ _ hm => exact Or.inr (Or.inr hm)
  · cases h with
    | ctl h1 _ => simp [isCtl] at h1
    | asyncCb _ _ => exact Or.inr (Or.inl (by simpa using hc it rfl))
    | asyncSent _ _ => exact Or.inl (by simp)

theorem wg_end_tstep {cfg : Cfg} {s : State} {new : List Task} {dl tl : List Key} {o w : Nat} {it : Item} {cb : Bool}
    (hc : ∀ it', cbItem (.wgSend o w it cb) = some it' → key it' ∈ s.timedOut)
    (h : TStep cfg s (.wgSend o w it cb) .done new dl tl) :
    key it ∈ s.delivered ++ dl ∨ key it ∈ s.timedOut ++ tl := by
  cases h with
  | ctl h1 _ => simp [isCtl] at h1
  | wgCb _ _ _ => exact Or.inr (by simpa using hc it rfl)
  | wgSent _ _ _ => exact Or.inl (by simp)

/-! ### the fate of an asynchronous sender along a run -/

/-- task `t` is the `sendAsync` goroutine of item `it` on object `o` -/
def asyncOf (o : Nat) (it : Item) (t : Task) : Prop := t = .asyncStart o it ∨ ∃ cb, t = .asyncSend o it cb

theorem tstep_asyncOf {cfg : Cfg} {s : State} {t t' : Task} {new : List Task} {dl tl : List Key} {o : Nat} {it : Item}
    (h : TStep cfg s t t' new dl tl) (ht : asyncOf o it t) : asyncOf o it t' ∨ t' = .done := by
  rcases ht with rfl | ⟨cb, rfl⟩
  · cases h with
    | stuck _ _ => exact Or.inl (Or.inl rfl)
    | ctl h1 _ => simp [isCtl] at h1
    | asyncGo _ _ _ => exact Or.inl (Or.inr ⟨false, rfl⟩)
    | asyncDrop _ _ _ => exact Or.inr rfl
  · cases h with
    | stuck _ _ => exact Or.inl (Or.inr ⟨cb, rfl⟩)
    | ctl h1 _ => simp [isCtl] at h1
    | asyncCb _ _ => exact Or.inr rfl
    | asyncSent _ _ => exact Or.inr rfl
    | asyncTmo _ _ _ => exact Or.inl (Or.inr ⟨true, rfl⟩)

theorem bstep_logs_mono {cfg : Cfg} {s s' : State} (h : BStep cfg s s') :
    (∀ k, k ∈ s.delivered → k ∈ s'.delivered) ∧ (∀ k, k ∈ s.timedOut → k ∈ s'.timedOut) := by
  cases h with
  | same _ h2 h3 _ => rw [h2, h3]; exact ⟨fun _ h => h, fun _ h => h⟩
  | spawnCtl _ _ _ h2 h3 _ => rw [h2, h3]; exact ⟨fun _ h => h, fun _ h => h⟩
  | invoke _ _ _ _ _ _ _ h2 h3 => rw [h2, h3]; exact ⟨fun _ h => h, fun _ h => h⟩
  | task _ _ _ _ _ _ _ _ _ h2 h3 _ =>
    rw [h2, h3]; exact ⟨fun _ h => List.mem_append_left _ h, fun _ h => List.mem_append_left _ h⟩

theorem run_logs_mono {cfg : Cfg} {s s' : State} {n : Nat} (h : InternalRun cfg s n s') :
    (∀ k, k ∈ s.delivered → k ∈ s'.delivered) ∧ (∀ k, k ∈ s.timedOut → k ∈ s'.timedOut) := by
  induction h with
  | nil s => exact ⟨fun _ h => h, fun _ h => h⟩
  | cons hstep _ ih =>
    have := bstep_logs_mono (istep_bstep hstep)
    exact ⟨fun k h => ih.1 k (this.1 k h), fun k h => ih.2 k (this.2 k h)⟩

theorem run_cbLogged {cfg : Cfg} {s s' : State} {n : Nat} (h : InternalRun cfg s n s') : CbLogged s → CbLogged s' := by
  induction h with
  | nil s => exact id
  | cons hstep _ ih => exact fun hc => ih (cbLogged_bstep hc (istep_bstep hstep))

/-- Along an internal run, a `sendAsync` goroutine that is finished at the end of the run has handed its item over
(`delivered`), or its timer fired (`timedOut`), or at some state of the run — the one in which it took the read lock —
its channel was not subscribed. -/
theorem async_fate_run {cfg : Cfg} {s s' : State} {n : Nat} (h : InternalRun cfg s n s') :
    ∀ {i o : Nat} {it : Item} {t : Task}, CbLogged s → s.tasks[i]? = some t → asyncOf o it t →
      s'.tasks[i]? = some .done →
      key it ∈ s'.delivered ∨ key it ∈ s'.timedOut ∨
        ∃ m sm, m < n ∧ InternalRun cfg s m sm ∧ it.c ∉ (sm.obj o).subs := by
  induction h with
  | nil s =>
    intro i o it t _ hi ht hdone
    rw [hi] at hdone
    rcases ht with rfl | ⟨cb, rfl⟩ <;> cases hdone
  | @cons s s1 s' n hstep hrun ih =>
    intro i o it t hc hi ht hdone
    have hb := istep_bstep hstep
    have hc1 := cbLogged_bstep hc hb
    have lift : (key it ∈ s'.delivered ∨ key it ∈ s'.timedOut ∨
        ∃ m sm, m < n ∧ InternalRun cfg s1 m sm ∧ it.c ∉ (sm.obj o).subs) →
        key it ∈ s'.delivered ∨ key it ∈ s'.timedOut ∨
        ∃ m sm, m < n + 1 ∧ InternalRun cfg s m sm ∧ it.c ∉ (sm.obj o).subs := by
      rintro (h | h | ⟨m, sm, hm, hr, hs⟩)
      · exact Or.inl h
      · exact Or.inr (Or.inl h)
      · exact Or.inr (Or.inr ⟨m + 1, sm, by omega, .cons hstep hr, hs⟩)
    rcases bstep_other hb hi with h1 | ⟨t', new, dl, tl, hT, h1, h2, h3, _⟩
    · exact lift (ih hc1 h1 ht hdone)
    · have h1' : s1.tasks[i]? = some t' := by
        rw [h1]; exact getElem?_set_append_self' _ _ _ _ (lt_length_of_getElem? hi)
      rcases tstep_asyncOf hT ht with ht' | rfl
      · exact lift (ih hc1 h1' ht' hdone)
      · have hmono := run_logs_mono hrun
        rcases async_end_tstep (hc t (List.mem_of_getElem? hi)) hT ht with h | h | h
        · exact Or.inl (hmono.1 _ (h2 ▸ h))
        · exact Or.inr (Or.inl (hmono.2 _ (h3 ▸ h)))
        · exact Or.inr (Or.inr ⟨0, s, by omega, .nil s, h⟩)

/-! ### receivers that last -/

theorem chanW_le_chansW {cs : List ChanSt} {ch : ChanSt} (h : ch ∈ cs) : chanW ch ≤ chansW cs := by
  induction cs with
  | nil => cases h
  | cons a cs ih =>
    rcases List.mem_cons.mp h with rfl | h
    · simp only [chansW]; omega
    · have := ih h; simp only [chansW]; omega

/-- every receiver that has not seen its channel closed may still take as many values as there is work left -/
def Lasting (cfg : Cfg) (s : State) : Prop := ∀ ch ∈ s.chans, ch.rdone = false → measure cfg s ≤ ch.allow

theorem lasting_pos {cfg : Cfg} {s : State} (h : Lasting cfg s) : ∀ ch ∈ s.chans, ch.rdone = false → 0 < ch.allow := by
  intro ch hm hr
  have h1 := h ch hm hr
  have h2 := chanW_le_chansW hm
  have h3 : 1 ≤ chanW ch := by unfold chanW; rw [hr]; simp
  have h4 : chansW s.chans ≤ measure cfg s := by unfold measure; omega
  omega

def NoPendingSub (s : State) : Prop := ∀ t ∈ s.tasks, pendingSub t = false

theorem noPendingSub_iff {s : State} : NoPendingSub s ↔ s.tasks.countP pendingSub = 0 := by
  unfold NoPendingSub
  rw [List.countP_eq_zero]
  constructor
  · intro h t ht; simp [h t ht]
  · intro h t ht; simpa using h t ht

theorem istep_lasting {cfg : Cfg} {s s' : State} (hs : Safe s) (hu : ChanIdsOk s) (hn : NoPendingSub s)
    (hl : Lasting cfg s) (h : IStep cfg s s') : NoPendingSub s' ∧ Lasting cfg s' := by
  have hd := istep_dec hs hu h
  refine ⟨?_, ?_⟩
  · rw [noPendingSub_iff] at hn ⊢
    have := hd.pend; omega
  · intro ch' hm' hr'
    rcases hd.crel with hc | ⟨t, ht, hp⟩
    · obtain ⟨ch, hm, _, hr, ha⟩ := hc ch' hm'
      have := hl ch hm (hr hr')
      have := hd.lt
      omega
    · rw [hn t ht] at hp; cases hp

theorem run_lasting {cfg : Cfg} {s s' : State} {n : Nat} (h : InternalRun cfg s n s') :
    Safe s → ChanIdsOk s → NoPendingSub s → Lasting cfg s → NoPendingSub s' ∧ Lasting cfg s' := by
  induction h with
  | nil s => intro _ _ hn hl; exact ⟨hn, hl⟩
  | cons hstep _ ih =>
    intro hs hu hn hl
    obtain ⟨hn1, hl1⟩ := istep_lasting hs hu hn hl hstep
    exact ih (istep_safe hs hstep) (istep_chanIds hu hstep) hn1 hl1

/-- internal steps are steps of the system as long as it has not exited -/
theorem run_reachable {cfg : Cfg} (hc : cfg.allowClone = false) {s s' : State} {n : Nat} (h : InternalRun cfg s n s') :
    Conc.Reachable (sys cfg) s → s.exited = false → Conc.Reachable (sys cfg) s' ∧ s'.exited = false := by
  induction h with
  | nil s => intro hr hx; exact ⟨hr, hx⟩
  | @cons s s1 s' n hstep _ ih =>
    intro hr hx
    have hs := no_panic_noClone cfg hc s hr
    have hd := istep_dec hs (chanIds_reachable cfg s hr) hstep
    obtain ⟨l, hl⟩ := hstep
    have hm : (l, s1) ∈ (sys cfg).succ s := mem_succ_of_task_or_recv hx hs.nopanic hl
    exact ih (Conc.Reachable.step hr hm) (hd.exited.trans hx)

end TypVerif.Lemmas.PubSubTerm

namespace TypVerif.Lemmas.PubSubTerm
open TypVerif TypVerif.Model.PubSub TypVerif.Lemmas.PubSubSafe TypVerif.Lemmas.PubSubLive
  TypVerif.Lemmas.PubSubLog TypVerif.Lemmas.PubSubLocal

/-- positions are stable: a task never disappears -/
theorem run_task_some {cfg : Cfg} {s s' : State} {n : Nat} (h : InternalRun cfg s n s') :
    ∀ {i : Nat} {t : Task}, s.tasks[i]? = some t → ∃ t', s'.tasks[i]? = some t' := by
  induction h with
  | nil s => intro i t hi; exact ⟨t, hi⟩
  | cons hstep _ ih =>
    intro i t hi
    rcases bstep_other (istep_bstep hstep) hi with h1 | ⟨t', new, dl, tl, _, h1, _⟩
    · exact ih h1
    · exact ih (t := t') (by rw [h1]; exact getElem?_set_append_self' _ _ _ _ (lt_length_of_getElem? hi))

/-! ### explicit internal runs (for the examples) -/

/-- all enabled internal steps -/
def isteps (cfg : Cfg) (s : State) : Steps :=
  (List.range s.tasks.length).flatMap (taskSteps cfg s) ++ s.chans.flatMap (recvSteps s)

theorem istep_of_mem {cfg : Cfg} {s : State} {p : Option Event × State} (h : p ∈ isteps cfg s) : IStep cfg s p.2 := by
  simp only [isteps, List.mem_append, List.mem_flatMap, List.mem_range] at h
  rcases h with ⟨i, _, hi⟩ | ⟨ch, hm, hc⟩
  · exact ⟨p.1, Or.inl ⟨i, hi⟩⟩
  · exact ⟨p.1, Or.inr ⟨ch, hm, hc⟩⟩

theorem quiescent_iff {cfg : Cfg} {s : State} : Quiescent cfg s ↔ isteps cfg s = [] := by
  unfold Quiescent isteps
  rw [List.append_eq_nil_iff, taskSteps_all_nil_iff, recvSteps_all_nil_iff]

instance (cfg : Cfg) (s : State) : Decidable (Quiescent cfg s) := decidable_of_iff _ quiescent_iff.symm

/-- follow the path `ks` (k-th enabled internal step at each state) -/
def runInternal (cfg : Cfg) : State → List Nat → Option State
  | s, [] => some s
  | s, k :: ks =>
    match (isteps cfg s)[k]? with
    | none => none
    | some p => runInternal cfg p.2 ks

theorem runInternal_run (cfg : Cfg) : ∀ (ks : List Nat) (s s' : State),
    runInternal cfg s ks = some s' → InternalRun cfg s ks.length s'
  | [], s, s', h => by
    simp [runInternal] at h; subst h; exact .nil s
  | k :: ks, s, s', h => by
    simp only [runInternal] at h
    cases hk : (isteps cfg s)[k]? with
    | none => simp [hk] at h
    | some p =>
      simp only [hk] at h
      exact .cons (istep_of_mem (List.mem_of_getElem? hk)) (runInternal_run cfg ks p.2 s' h)

instance (cfg : Cfg) (s : State) : Decidable (Lasting cfg s) := by unfold Lasting; infer_instance
instance (s : State) : Decidable (NoPendingSub s) := by unfold NoPendingSub; infer_instance

end TypVerif.Lemmas.PubSubTerm
