import TypVerif.Lemmas.SmcQuiet
import TypVerif.Lemmas.SmcEntry
import TypVerif.Lemmas.SmcMaps
/-
C04 concurrent half: the promotion steps — `loadMiss`, `losMiss`, `ladMiss` (`unlock (promote sh)`, the tail of
`missLocked`), `rangeStore` (the inline promotion of `Range`) — and the quiet `rangeRead2` that leads to it.

None of them is a linearization step.  General lemma: `R_promote` (the owner `t`, not a builder, promotes the dirty
map, releases the mutex and goes on at `pc'`).
-/
namespace TypVerif.Lemmas.Smc
open TypVerif.Model TypVerif.Model.SyncMapConc TypVerif.Model.RelObj
open TypVerif.Model.SyncMap (alookup ainsert aerase akeys)

set_option linter.unusedSimpArgs false
set_option linter.unusedVariables false
set_option linter.unusedSectionVars false

variable {K V : Type} [DecidableEq K] [DecidableEq V] [Inhabited V]
variable {menu : List (Op K V)} {s : State K V} {a : AState K V} {t : Tid}

/-! ### the general lemma -/

omit [Inhabited V] in
/-- the owner of the mutex is about to promote and is not inside the `dirtyLocked` loop: nobody is -/
theorem GS_nil_of_promoting (hR : R s a) (hprom : Promoting s.sh t) (hunp : unprocPc (s.pc t) = []) :
    GS s.sh [] := by
  have h := ((G_iff s a.pcs).mp hR.g).1
  rw [unprocessed_eq_nil_of_own hR.thr hprom.1 hunp] at h
  exact h

omit [Inhabited V] in
/-- Promotion by `t` (`unlock (promote sh)`), not a linearization step: `R` is re-established, provided `T` holds for
`t` itself at its new pc (stated for the un-observed abstract pc) and `t` unlinks nothing new. -/
theorem R_promote (hR : R s a) (ht : t < s.pcs.length) (hlin : isLin s.sh (s.pc t) (a.pcs t) = false)
    (hprom : Promoting s.sh t) (hunp : unprocPc (s.pc t) = []) {pc' : Pc K V}
    (hself : T (unlock (promote s.sh)) t pc' (a.pcs t))
    (hunl : ∀ e ∈ unlinkedPc pc' (a.pcs t), e ∈ unlinkedPc (s.pc t) (a.pcs t)) :
    R (setPc s t (unlock (promote s.sh)) pc') (witness s t none a) := by
  have ho : Own s.sh t := hprom.1
  have hds : s.sh.dirty.isSome = true := hprom.2.2
  have g0 : GS s.sh [] := GS_nil_of_promoting hR hprom hunp
  rw [witness_none_tau s t a hlin]
  apply R_of_parts
  · rw [G_iff]
    refine ⟨(GS_promote_unlock g0).weaken (fun p hp => by cases hp), ⟨?_, ?_⟩⟩
    · intro u hu
      simp only [setPc_sh, unlock_mu] at hu
      cases hu
    · apply hR.g.unlinked_setPc
      · intro u hu
        rw [observeAll_pcs, unlinkedPc_observePc]
      · intro e he
        rw [observeAll_pcs, unlinkedPc_observePc] at he
        exact Or.inl (hunl e he)
  · intro k
    rw [observeAll_obj, hR.abs k, setPc_sh]
    exact (absOf_promote_unlock g0 hds k).symm
  · intro u
    rw [setPc_sh, observeAll_pcs]
    by_cases hut : u = t
    · subst hut
      rw [pc_setPc_self ht]
      exact T_observePc hself a.obj
    · rw [pc_setPc_ne hut]
      exact bystanders_promote_unlock g0 hR.thr hR.obs hR.abs ho hds
        (apcs' := fun u => observePc a.obj (a.pcs u)) (fun u => SeenLe_observePc _ _) u hut
  · exact obs_observeAll a

/-! ### small facts -/

omit [Inhabited V] [DecidableEq K] [DecidableEq V] in
theorem retOk_of_doneWith {p : APc K V} {f : Op K V → Bool} {r : Res K V} (h : DoneWith p f r) : RetOk p r := by
  cases p with
  | idle => exact h.elim
  | pending op seen => exact h.elim
  | done op r' => exact h.2

omit [Inhabited V] in
/-- an unlinker keeps its unlinked entry through a promotion -/
theorem Unlinker_promote_unlock {sh : Shared K V} {d : Bool} {k : K} {e : EId} {p : APc K V}
    (h : Unlinker sh d k e p) : Unlinker (unlock (promote sh)) d k e p := by
  rw [Unlinker_congr (sameData_unlock _)]
  rw [Unlinker_iff] at h ⊢
  obtain ⟨h1, h2, h3, v, hv, hdw⟩ := h
  exact ⟨h1, h3, by simp, v, hv, hdw⟩

omit [Inhabited V] [DecidableEq K] [DecidableEq V] in
theorem unlinkedPc_delLoad_sub_ladMiss (d : Bool) (k : K) (e : EId) (p : APc K V) :
    ∀ x ∈ unlinkedPc (.delLoad d k e : Pc K V) p, x ∈ unlinkedPc (.ladMiss d k (some e) : Pc K V) p := by
  intro x hx
  cases p with
  | idle => cases hx
  | pending op seen => cases hx
  | done op r => exact hx

/-! ### the steps -/

theorem stepOK_loadMiss {k : K} {e : Option EId} (hR : R s a) (ht : t < s.pcs.length)
    (hpc : s.pc t = .loadMiss k e) : StepOK menu s a t := by
  have hT := hR.thr t
  rw [hpc] at hT
  simp only [T] at hT
  obtain ⟨hpend, hprom, hr, he⟩ := hT
  have hlin : isLin s.sh (s.pc t) (a.pcs t) = false := by rw [hpc]; rfl
  apply stepOK_of_internal hR ht (by rw [hpc]; simp) (by rw [hpc]; simp) _ (pickOK_of_nil (by rw [hpc]; rfl))
  intro sh' pc' hex
  rw [hpc] at hex
  simp only [exec, Option.some.injEq, Prod.mk.injEq] at hex
  obtain ⟨rfl, rfl⟩ := hex
  refine R_promote hR ht hlin hprom (by rw [hpc]; rfl) ?_ ?_
  · cases e with
    | some e' =>
      simp only [loadAfter, T]
      refine ⟨hpend, Own_unlock _ _, ?_, Or.inl (Or.inl ?_)⟩
      · exact hR.g.dirty_lt_length he.symm
      · exact he.symm
    | none =>
      simp only [loadAfter, T]
      refine ⟨hR.obs.retOk hpend ?_, Own_unlock _ _⟩
      rw [pureRes_load, hR.abs k, absOf_of_none_none hr he.symm]
  · intro e' he'
    rw [unlinkedPc_of_pend hpend (loadAfter_ne_ladMiss _ _)] at he'; cases he'

/-- `losMiss k r`: `T` records that `r` is not a `Range` result (every `r` that `missTail` parks here is a `pair`) -/
theorem stepOK_losMiss {k : K} {r : Res K V} (hR : R s a) (ht : t < s.pcs.length)
    (hpc : s.pc t = .losMiss k r) : StepOK menu s a t := by
  have hT := hR.thr t
  rw [hpc] at hT
  simp only [T] at hT
  obtain ⟨hdw, hnp, hprom⟩ := hT
  have hr : ∀ l, r ≠ .pairs l := by
    intro l h
    rw [h] at hnp
    simp [isPairs] at hnp
  have hlin : isLin s.sh (s.pc t) (a.pcs t) = false := by rw [hpc]; rfl
  apply stepOK_of_internal hR ht (by rw [hpc]; simp) (by rw [hpc]; simp) _ (pickOK_of_nil (by rw [hpc]; rfl))
  intro sh' pc' hex
  rw [hpc] at hex
  simp only [exec, Option.some.injEq, Prod.mk.injEq] at hex
  obtain ⟨rfl, rfl⟩ := hex
  refine R_promote hR ht hlin hprom (by rw [hpc]; rfl) ?_ ?_
  · rw [T_ret_iff hr]
    exact ⟨retOk_of_doneWith hdw, Own_unlock _ _⟩
  · intro e' he'
    rw [unlinkedPc_ret] at he'; cases he'

theorem stepOK_ladMiss {d : Bool} {k : K} {e : Option EId} (hR : R s a) (ht : t < s.pcs.length)
    (hpc : s.pc t = .ladMiss d k e) : StepOK menu s a t := by
  have hT := hR.thr t
  rw [hpc] at hT
  have hlin : isLin s.sh (s.pc t) (a.pcs t) = false := by rw [hpc]; rfl
  apply stepOK_of_internal hR ht (by rw [hpc]; simp) (by rw [hpc]; simp) _ (pickOK_of_nil (by rw [hpc]; rfl))
  intro sh' pc' hex
  rw [hpc] at hex
  simp only [exec, Option.some.injEq, Prod.mk.injEq] at hex
  obtain ⟨rfl, rfl⟩ := hex
  cases e with
  | some e' =>
    simp only [T] at hT
    obtain ⟨hprom, hr, hdm, hu⟩ := hT
    refine R_promote hR ht hlin hprom (by rw [hpc]; rfl) ?_ ?_
    · simp only [ladAfter, T]
      exact ⟨Own_unlock _ _, Or.inr (Unlinker_promote_unlock hu)⟩
    · rw [hpc]
      exact unlinkedPc_delLoad_sub_ladMiss d k e' _
  | none =>
    simp only [T] at hT
    obtain ⟨hprom, hr, hdm, hpend⟩ := hT
    refine R_promote hR ht hlin hprom (by rw [hpc]; rfl) ?_ ?_
    · simp only [ladAfter]
      rw [T_ret_iff (noneRes_ne_pairs d)]
      refine ⟨hR.obs.retOk hpend (pureRes_ladOp_none ?_), Own_unlock _ _⟩
      rw [hR.abs k, absOf_of_none_none hr hdm]
    · intro e' he'
      simp only [ladAfter] at he'
      rw [unlinkedPc_ret] at he'; cases he'

theorem stepOK_rangeRead2 (hR : R s a) (ht : t < s.pcs.length) (hpc : s.pc t = .rangeRead2) :
    StepOK menu s a t := by
  have hT := hR.thr t
  rw [hpc] at hT
  simp only [T] at hT
  have hlin : isLin s.sh (s.pc t) (a.pcs t) = false := by rw [hpc]; rfl
  have hunp : ∀ pc' : Pc K V, ∀ p, p ∈ unprocPc (s.pc t) → p ∈ unprocPc pc' := by
    intro pc' p hp; rw [hpc] at hp; cases hp
  have hunl : ∀ pc' : Pc K V, (∀ d k e, pc' ≠ .ladMiss d k e) →
      ∀ e ∈ unlinkedPc pc' (a.pcs t), e ∈ unlinkedPc (s.pc t) (a.pcs t) := by
    intro pc' h e he; rw [unlinkedPc_of_idle hT.1 h] at he; cases he
  apply stepOK_of_internal hR ht (by rw [hpc]; simp) (by rw [hpc]; simp) _ (pickOK_of_nil (by rw [hpc]; rfl))
  intro sh' pc' hex
  rw [hpc] at hex
  simp only [exec] at hex
  cases ha : s.sh.amended with
  | true =>
    simp only [ha, if_true, Option.some.injEq, Prod.mk.injEq] at hex
    obtain ⟨rfl, rfl⟩ := hex
    refine R_quiet_same hR ht hlin ?_ (hunp _) (hunl _ (by intro d k e h; cases h))
    simp only [T]
    exact ⟨hT.1, ⟨hT.2, ha, hR.g.dirty_isSome_of_amended ha⟩, trivial⟩
  | false =>
    simp only [ha, Bool.false_eq_true, if_false, Option.some.injEq, Prod.mk.injEq] at hex
    obtain ⟨rfl, rfl⟩ := hex
    refine R_quiet' hR ht hlin (sameData_unlock _) hR.g.nofault (MuStep.unlock hT.2 rfl) ?_ (hunp _)
      (hunl _ (rangeNext_ne_ladMiss _ _))
    rw [T_rangeNext_iff]
    exact ⟨hT.1, Own_unlock _ _, RangeHold.snapshot rfl hR.g.keysR hR.g.boundR⟩

theorem stepOK_rangeStore {dm : List (K × EId)} (hR : R s a) (ht : t < s.pcs.length)
    (hpc : s.pc t = .rangeStore dm) : StepOK menu s a t := by
  have hT := hR.thr t
  rw [hpc] at hT
  simp only [T] at hT
  obtain ⟨hidle, hprom, hdm⟩ := hT
  have hlin : isLin s.sh (s.pc t) (a.pcs t) = false := by rw [hpc]; rfl
  apply stepOK_of_internal hR ht (by rw [hpc]; simp) (by rw [hpc]; simp) _ (pickOK_of_nil (by rw [hpc]; rfl))
  intro sh' pc' hex
  rw [hpc] at hex
  simp only [exec, Option.some.injEq, Prod.mk.injEq] at hex
  obtain ⟨rfl, rfl⟩ := hex
  rw [rangeStore_update_eq hdm]
  refine R_promote hR ht hlin hprom (by rw [hpc]; rfl) ?_ ?_
  · rw [T_rangeNext_iff]
    exact ⟨hidle, Own_unlock _ _, RangeHold.snapshot hdm (by rw [hdm]; exact hR.g.keysD)
      (by rw [hdm]; exact hR.g.boundD)⟩
  · intro e he
    rw [unlinkedPc_of_idle hidle (rangeNext_ne_ladMiss _ _)] at he; cases he

end TypVerif.Lemmas.Smc
