import TypVerif.Model.ChanHelpers
/-
Invariants of the RecvTimeout / RecvContext transition system (all schedules, arbitrary environment).
-/
namespace TypVerif.Lemmas.ChanRecv
open TypVerif TypVerif.Conc TypVerif.Model.ChanHelpers TypVerif.Model.Chan

theorem recv_cons {c : Chan} {v : Int} {rest : List Int} (h : c.buf = v :: rest) :
    c.recv = ((v, true), { c with buf := rest }) := by
  simp [Chan.recv, h]

theorem recv_nil {c : Chan} (h : c.buf = []) : c.recv = ((0, false), c) := by
  simp [Chan.recv, h]

theorem canRecv_nil {c : Chan} (h : c.buf = []) : c.canRecv = c.closed := by
  simp [Chan.canRecv, h]

def atRecv (pc : RPc) : Prop := pc = .blk ∨ pc = .sel ∨ pc = .wait

/-- the steps of the receive system, as a relation (one constructor per kind of step) -/
inductive RStep (p : Params) (s : RState) : RState → Prop where
  | startBlk (tmo : Int) : s.pc = .start → p.mode = .timeout tmo → tmo ≤ 0 → RStep p s { s with pc := .blk }
  | startArm (tmo : Int) : s.pc = .start → p.mode = .timeout tmo → 0 < tmo →
      RStep p s { s with pc := .sel, armed := true }
  | startCtx (pre mc : Bool) : s.pc = .start → p.mode = .context pre mc → RStep p s { s with pc := .sel }
  | recvBuf (v : Int) (rest : List Int) : atRecv s.pc → s.ch.buf = v :: rest →
      RStep p s { s with ch := { s.ch with buf := rest }, pc := recvNext p s.pc v true,
                         consumed := s.consumed ++ [v], log := s.log ++ [v], recvFired := true, headAt := some v }
  | recvClosed : atRecv s.pc → s.ch.buf = [] → s.ch.closed = true →
      RStep p s { s with pc := recvNext p s.pc 0 false, recvFired := true, headAt := none }
  | recvHandoff (v : Int) (vs : List Int) : atRecv s.pc → s.supply = v :: vs → s.ch.buf = [] → s.ch.closed = false →
      RStep p s { s with supply := vs, pc := recvNext p s.pc v true, consumed := s.consumed ++ [v],
                         sent := s.sent ++ [v], log := s.log ++ [v], recvFired := true, headAt := some v }
  | timer : (s.pc = .sel ∨ s.pc = .wait) → s.fired = true → RStep p s { s with pc := .done 0 false }
  | park : s.pc = .sel → s.ch.canRecv = false → s.fired = false → RStep p s { s with pc := .wait }
  | stop (v : Int) (ok : Bool) : s.pc = .stop v ok → RStep p s { s with pc := .done v ok }
  | fire : fireOk p s.armed s.fired (decide (s.pc = .wait)) = true → RStep p s { s with fired := true }
  | peerRecv (v : Int) (rest : List Int) : s.ch.buf = v :: rest → peerRecvOkR p s = true →
      RStep p s { s with ch := { s.ch with buf := rest }, budget := s.budget - 1, taken := s.taken ++ [v],
                         log := s.log ++ [v] }
  | peerSend (v : Int) (vs : List Int) : s.supply = v :: vs → s.ch.canSend = true →
      RStep p s { s with ch := s.ch.send v, supply := vs, sent := s.sent ++ [v] }
  | peerHandoff (v : Int) (vs : List Int) : s.supply = v :: vs → handoffOkR p s = true →
      RStep p s { s with supply := vs, budget := s.budget - 1, taken := s.taken ++ [v],
                         sent := s.sent ++ [v], log := s.log ++ [v] }
  | close : p.mayClose = true → s.ch.closed = false → RStep p s { s with ch := s.ch.close }

theorem mem_recvAlts {p : Params} {s : RState} {x : Option Unit × RState} (h : x ∈ recvAlts p s)
    (hpc : atRecv s.pc) : RStep p s x.2 := by
  unfold recvAlts at h
  rcases List.mem_append.mp h with h | h
  · split at h
    · rename_i hc
      simp at h; subst h
      cases hb : s.ch.buf with
      | nil =>
        rw [canRecv_nil hb] at hc
        have := RStep.recvClosed (p := p) hpc hb hc
        simpa [recv_nil hb] using this
      | cons v rest =>
        have := RStep.recvBuf (p := p) v rest hpc hb
        simpa [recv_cons hb] using this
    · simp at h
  · split at h
    · split at h
      · rename_i hc
        simp at h; subst h
        simp at hc
        exact .recvHandoff _ _ hpc ‹_› hc.1 hc.2
      · simp at h
    · simp at h

theorem mem_timerAltR {p : Params} {s : RState} {x : Option Unit × RState} (h : x ∈ timerAltR s)
    (hpc : s.pc = .sel ∨ s.pc = .wait) : RStep p s x.2 := by
  unfold timerAltR at h
  split at h
  · simp at h; subst h; exact .timer hpc ‹_›
  · simp at h

theorem mem_stepRH {p : Params} {s : RState} {x : Option Unit × RState} (h : x ∈ stepRH p s) : RStep p s x.2 := by
  unfold stepRH at h
  split at h
  · split at h
    · split at h
      · simp at h; subst h; exact .startBlk _ ‹_› ‹_› ‹_›
      · simp at h; subst h; exact .startArm _ ‹_› ‹_› (by omega)
    · simp at h; subst h; exact .startCtx _ _ ‹_› ‹_›
  · exact mem_recvAlts h (.inl ‹_›)
  · rcases List.mem_append.mp h with h | h
    · rcases List.mem_append.mp h with h | h
      · exact mem_recvAlts h (.inr (.inl ‹_›))
      · exact mem_timerAltR h (.inl ‹_›)
    · split at h
      · simp at h
      · rename_i hc
        simp at h; subst h
        simp at hc
        exact .park ‹_› hc.1 hc.2
  · rcases List.mem_append.mp h with h | h
    · exact mem_recvAlts h (.inr (.inr ‹_›))
    · exact mem_timerAltR h (.inr ‹_›)
  · simp at h; subst h; exact .stop _ _ ‹_›
  · simp at h

theorem mem_envR {p : Params} {s : RState} {x : Option Unit × RState} (h : x ∈ envR p s) : RStep p s x.2 := by
  unfold envR at h
  rcases List.mem_append.mp h with h | h
  · rcases List.mem_append.mp h with h | h
    · rcases List.mem_append.mp h with h | h
      · split at h
        · simp at h; subst h; exact .fire ‹_›
        · simp at h
      · split at h
        · split at h
          · simp at h; subst h; exact .peerRecv _ _ ‹_› ‹_›
          · simp at h
        · simp at h
    · split at h
      · rcases List.mem_append.mp h with h | h
        · split at h
          · simp at h; subst h; exact .peerSend _ _ ‹_› ‹_›
          · simp at h
        · split at h
          · simp at h; subst h; exact .peerHandoff _ _ ‹_› ‹_›
          · simp at h
      · simp at h
  · split at h
    · rename_i hc
      simp at h; subst h
      simp at hc
      exact .close hc.1 hc.2
    · simp at h

theorem step_of_mem {p : Params} {s s' : RState} {l : Option Unit} (h : (l, s') ∈ succR p s) : RStep p s s' := by
  unfold succR at h
  rcases List.mem_append.mp h with h | h
  · exact mem_stepRH h
  · exact mem_envR h


/-! ### the invariant -/

/-- what a (pending or delivered) result `(v, ok)` of the helper means -/
def RetOk (s : RState) (v : Int) (ok : Bool) : Prop :=
  (s.recvFired = true → ok = true → s.consumed = [v] ∧ s.headAt = some v) ∧
  (s.recvFired = true → ok = false →
     v = 0 ∧ s.consumed = [] ∧ s.headAt = none ∧ s.ch.closed = true ∧ s.ch.buf = []) ∧
  (s.recvFired = false → v = 0 ∧ ok = false ∧ s.consumed = [] ∧ s.fired = true)

def RPcOk (s : RState) : Prop :=
  match s.pc with
  | .start | .blk | .sel | .wait => s.recvFired = false ∧ s.consumed = []
  | .stop v ok => s.recvFired = true ∧ RetOk s v ok
  | .done v ok => RetOk s v ok

def RModeOk (p : Params) (s : RState) : Prop :=
  match p.mode with
  | .timeout tmo =>
    (s.armed = true → 0 < tmo) ∧ (s.fired = true → s.armed = true) ∧
    (s.pc = .blk → tmo ≤ 0) ∧ (s.pc = .sel → 0 < tmo) ∧ (s.pc = .wait → 0 < tmo) ∧ (∀ v ok, s.pc = .stop v ok → 0 < tmo)
  | .context _ _ => s.armed = false ∧ s.pc ≠ .blk ∧ ∀ v ok, s.pc ≠ .stop v ok

structure RGood (p : Params) (s : RState) : Prop where
  fifo : s.sent = s.log ++ s.ch.buf
  split : ∀ x, s.log.count x = s.taken.count x + s.consumed.count x
  single : s.taken = [] → s.log = s.consumed
  budgetOk : s.taken.length + s.budget = p.peerRecvs
  pcOk : RPcOk s
  modeOk : RModeOk p s

theorem good_init (p : Params) : RGood p (initR p) := by
  refine ⟨?_, ?_, ?_, ?_, ?_, ?_⟩
  · simp [initR, Chan.mk']
  · simp [initR]
  · simp [initR]
  · simp [initR]
  · simp [RPcOk, initR]
  · unfold RModeOk
    split <;> simp_all [initR, Params.preFired]

theorem fifo_step {p : Params} {s s' : RState} (hg : RGood p s) (h : RStep p s s') :
    s'.sent = s'.log ++ s'.ch.buf := by
  have h1 := hg.fifo
  cases h <;> simp_all [Chan.send, Chan.close, handoffOkR, List.isEmpty_iff]

theorem split_step {p : Params} {s s' : RState} (hg : RGood p s) (h : RStep p s s') :
    ∀ x, s'.log.count x = s'.taken.count x + s'.consumed.count x := by
  have h1 := hg.split
  intro x
  have h1x := h1 x
  cases h <;> simp_all [List.count_append] <;> omega

theorem single_step {p : Params} {s s' : RState} (hg : RGood p s) (h : RStep p s s') :
    s'.taken = [] → s'.log = s'.consumed := by
  have h1 := hg.single
  cases h <;> simp_all

theorem budget_step {p : Params} {s s' : RState} (hg : RGood p s) (h : RStep p s s') :
    s'.taken.length + s'.budget = p.peerRecvs := by
  have h1 := hg.budgetOk
  cases h
  all_goals first
    | (simpa using h1; done)
    | (simp_all [peerRecvOkR, handoffOkR]; omega)


theorem recvNext_cases (p : Params) (pc : RPc) (v : Int) (ok : Bool) :
    recvNext p pc v ok = .done v ok ∨ recvNext p pc v ok = .stop v ok := by
  unfold recvNext
  split <;> simp

theorem pcOk_step {p : Params} {s s' : RState} (hg : RGood p s) (h : RStep p s s') : RPcOk s' := by
  have h3 := hg.pcOk
  unfold RPcOk at h3 ⊢
  cases h
  case recvBuf v rest hpc hb =>
    rcases hpc with hpc | hpc | hpc <;> cases hm : p.mode <;> simp_all [recvNext, RetOk]
  case recvClosed hpc hb hc =>
    rcases hpc with hpc | hpc | hpc <;> cases hm : p.mode <;> simp_all [recvNext, RetOk]
  case recvHandoff v vs hpc hs hb hc =>
    rcases hpc with hpc | hpc | hpc <;> cases hm : p.mode <;> simp_all [recvNext, RetOk]
  all_goals first
    | (simp_all [RetOk]; done)
    | (split at h3 <;> simp_all [RetOk, Chan.canSend, Chan.close]; done)


theorem modeOk_step {p : Params} {s s' : RState} (hg : RGood p s) (h : RStep p s s') : RModeOk p s' := by
  have h4 := hg.modeOk
  unfold RModeOk at h4 ⊢
  cases h
  case recvBuf v rest hpc hb =>
    rcases hpc with hpc | hpc | hpc <;> cases hm : p.mode <;> simp_all [recvNext]
  case recvClosed hpc hb hc =>
    rcases hpc with hpc | hpc | hpc <;> cases hm : p.mode <;> simp_all [recvNext]
  case recvHandoff v vs hpc hs hb hc =>
    rcases hpc with hpc | hpc | hpc <;> cases hm : p.mode <;> simp_all [recvNext]
  all_goals first
    | (split at h4 <;> simp_all <;> omega; done)
    | (split at h4 <;> simp_all [fireOk]; done)

theorem good_step {p : Params} {s s' : RState} (hg : RGood p s) (h : RStep p s s') : RGood p s' :=
  ⟨fifo_step hg h, split_step hg h, single_step hg h, budget_step hg h, pcOk_step hg h, modeOk_step hg h⟩

theorem good_reachable (p : Params) : ∀ s, Reachable (recvSys p) s → RGood p s :=
  Conc.invariant (recvSys p) (RGood p) (good_init p) (fun _ _ _ hg hm => good_step hg (step_of_mem hm))

/-! ### consequences -/

/-- the result of RecvTimeout / RecvContext tells exactly what the helper took from the channel -/
theorem recv_iff (p : Params) (s : RState) (hr : Reachable (recvSys p) s) (v : Int) (ok : Bool)
    (hpc : s.pc = .done v ok) :
    (ok = true ↔ s.consumed = [v]) ∧
    (ok = true → s.recvFired = true ∧ s.headAt = some v) ∧
    (ok = false → v = 0 ∧ s.consumed = []) ∧
    (ok = false → s.recvFired = true → s.headAt = none ∧ s.ch.closed = true ∧ s.ch.buf = []) ∧
    (ok = false → s.recvFired = false → s.fired = true) := by
  have hg := good_reachable p s hr
  have h3 := hg.pcOk
  unfold RPcOk at h3
  rw [hpc] at h3
  simp only [RetOk] at h3
  obtain ⟨a1, a2, a3⟩ := h3
  cases hf : s.recvFired <;> cases hok : ok <;> simp_all

/-- FIFO conservation in every reachable state: everything that ever entered the channel is, in this
order, what has been delivered followed by what is still buffered; the deliveries are the peers' and
the helper's receipts; with the helper as the only consumer the lists coincide. -/
theorem recv_conservation (p : Params) (s : RState) (hr : Reachable (recvSys p) s) :
    s.sent = s.log ++ s.ch.buf ∧
    s.log.Perm (s.taken ++ s.consumed) ∧
    (p.peerRecvs = 0 → s.taken = [] ∧ s.sent = s.consumed ++ s.ch.buf) := by
  have hg := good_reachable p s hr
  refine ⟨hg.fifo, ?_, ?_⟩
  · rw [List.perm_iff_count]
    intro x
    rw [hg.split x, List.count_append]
  · intro h0
    have hb := hg.budgetOk
    have ht : s.taken = [] := by
      apply List.eq_nil_of_length_eq_zero; omega
    exact ⟨ht, by rw [hg.fifo, hg.single ht]⟩

/-- with a non-positive timeout no timer exists: RecvTimeout returns false only on a closed, drained channel -/
theorem nonpositive_recv (p : Params) (tmo : Int) (hm : p.mode = .timeout tmo) (ht : tmo ≤ 0)
    (s : RState) (hr : Reachable (recvSys p) s) :
    s.armed = false ∧ s.fired = false ∧ s.pc ≠ .sel ∧ s.pc ≠ .wait ∧
    (∀ v, s.pc = .done v false → v = 0 ∧ s.recvFired = true ∧ s.ch.closed = true ∧ s.ch.buf = [] ∧ s.consumed = []) := by
  have hg := good_reachable p s hr
  have h3 := hg.pcOk
  have h4 := hg.modeOk
  unfold RModeOk at h4
  rw [hm] at h4
  simp only at h4
  obtain ⟨a1, a2, _, a4, a5, _⟩ := h4
  have ha : s.armed = false := by
    cases h : s.armed
    · rfl
    · have := a1 h; omega
  have hf : s.fired = false := by
    cases h : s.fired
    · rfl
    · have := a2 h; simp_all
  refine ⟨ha, hf, ?_, ?_, ?_⟩
  · intro h; have := a4 h; omega
  · intro h; have := a5 h; omega
  · intro v h
    unfold RPcOk at h3
    rw [h] at h3
    simp only [RetOk] at h3
    cases hrf : s.recvFired <;> simp_all

/-- on a closed and drained channel the helper's receive statement / case yields `(0, false)` and changes nothing -/
theorem closed_drained_recv (p : Params) (s : RState) (hc : s.ch.closed = true) (hb : s.ch.buf = [])
    (x : Option Unit × RState) (hx : x ∈ recvAlts p s) :
    x.2.pc = recvNext p s.pc 0 false ∧ x.2.ch = s.ch ∧ x.2.consumed = s.consumed ∧ x.2.recvFired = true := by
  unfold recvAlts at hx
  rcases List.mem_append.mp hx with h | h
  · simp [Chan.canRecv, hc, recv_nil hb] at h
    subst h
    simp
  · split at h
    · simp [hb, hc] at h
    · simp at h

end TypVerif.Lemmas.ChanRecv
