import TypVerif.Conc.Sys
/-
Soundness of the generic trace acceptor of `Conc/Sys.lean`: every state kept by the subset construction is
reached by an execution of the system whose visible labels are exactly the events consumed so far; hence an
accepted trace is the visible trace of an execution from the initial state.

(Only soundness: the fuel bound and the early exit of `tauClosure` make the acceptor incomplete in general.)
The statements need fewer class hypotheses than the task sheet lists: no lawfulness of `BEq sys.State` is needed
(`dedup` only ever drops elements), and `LawfulBEq sys.Event` is needed only where an event is compared (`stepEvent`).
-/
namespace TypVerif.Conc

/-! ### executions -/

theorem Exec.single {sys : Sys} {s s' : sys.State} {l : Option sys.Event} (h : (l, s') ∈ sys.succ s) :
    Exec sys s [l] s' := Exec.cons h (Exec.nil s')

theorem Exec.append {sys : Sys} {a b c : sys.State} {ls1 ls2 : List (Option sys.Event)}
    (h1 : Exec sys a ls1 b) (h2 : Exec sys b ls2 c) : Exec sys a (ls1 ++ ls2) c := by
  induction h1 with
  | nil s => simpa using h2
  | cons hm _ ih => exact Exec.cons hm (ih h2)

theorem Exec.snoc {sys : Sys} {a b c : sys.State} {ls : List (Option sys.Event)} {l : Option sys.Event}
    (h1 : Exec sys a ls b) (h2 : (l, c) ∈ sys.succ b) : Exec sys a (ls ++ [l]) c :=
  Exec.append h1 (Exec.single h2)

theorem Exec.reachable {sys : Sys} {a b : sys.State} {ls : List (Option sys.Event)}
    (h : Exec sys a ls b) (ha : Reachable sys a) : Reachable sys b := by
  induction h with
  | nil s => exact ha
  | cons hm _ ih => exact ih (Reachable.step ha hm)

@[simp] theorem visible_nil {ε : Type} : visible ([] : List (Option ε)) = [] := rfl
@[simp] theorem visible_cons_none {ε : Type} (ls : List (Option ε)) : visible (none :: ls) = visible ls := rfl
@[simp] theorem visible_cons_some {ε : Type} (e : ε) (ls : List (Option ε)) :
    visible (some e :: ls) = e :: visible ls := rfl
@[simp] theorem visible_append {ε : Type} (a b : List (Option ε)) : visible (a ++ b) = visible a ++ visible b := by
  simp [visible, List.filterMap_append]

/-! ### `dedup` -/

theorem mem_dedup_foldl {α : Type} [BEq α] (xs : List α) :
    ∀ (acc : List α) (x : α),
      x ∈ xs.foldl (fun acc x => if acc.contains x then acc else acc ++ [x]) acc → x ∈ acc ∨ x ∈ xs := by
  induction xs with
  | nil => intro acc x h; exact Or.inl h
  | cons y ys ih =>
    intro acc x h
    rw [List.foldl_cons] at h
    rcases ih _ x h with h' | h'
    · split at h'
      · exact Or.inl h'
      · rcases List.mem_append.1 h' with h'' | h''
        · exact Or.inl h''
        · right; rw [List.mem_singleton.1 h'']; exact List.mem_cons_self
    · exact Or.inr (List.mem_cons_of_mem _ h')

theorem mem_of_mem_dedup {α : Type} [BEq α] {xs : List α} {x : α} (h : x ∈ dedup xs) : x ∈ xs := by
  rcases mem_dedup_foldl xs [] x h with h' | h'
  · cases h'
  · exact h'

/-! ### the acceptor -/

section Accept
variable (sys : Sys) [BEq sys.State] [BEq sys.Event]

omit [BEq sys.Event] in
theorem tauClosure_sound (fuel : Nat) : ∀ (ss : List sys.State), ∀ s' ∈ tauClosure sys fuel ss,
    ∃ s ∈ ss, ∃ ls, Exec sys s ls s' ∧ visible ls = [] := by
  induction fuel with
  | zero => intro ss s' h; exact ⟨s', h, [], Exec.nil _, rfl⟩
  | succ fuel ih =>
    intro ss s' h
    unfold tauClosure at h
    simp only at h
    split at h
    · exact ⟨s', h, [], Exec.nil _, rfl⟩
    · obtain ⟨s1, hs1, ls, hex, hv⟩ := ih _ s' h
      rcases List.mem_append.1 (mem_of_mem_dedup hs1) with hm | hm
      · exact ⟨s1, hm, ls, hex, hv⟩
      · obtain ⟨s0, hs0, hm⟩ := List.mem_flatMap.1 hm
        obtain ⟨p, hp, hpe⟩ := List.mem_filterMap.1 hm
        obtain ⟨l, t⟩ := p
        cases l with
        | some e => simp at hpe
        | none =>
          simp only [Option.some.injEq] at hpe
          subst hpe
          exact ⟨s0, hs0, none :: ls, Exec.cons hp hex, by simpa using hv⟩

theorem stepEvent_sound [LawfulBEq sys.Event] (fuel : Nat) (ss : List sys.State) (e : sys.Event) :
    ∀ s' ∈ stepEvent sys fuel ss e, ∃ s ∈ ss, ∃ ls, Exec sys s ls s' ∧ visible ls = [e] := by
  intro s' h
  unfold stepEvent at h
  obtain ⟨s1, hs1, ls, hex, hv⟩ := tauClosure_sound sys fuel _ s' h
  obtain ⟨s0, hs0, hm⟩ := List.mem_flatMap.1 (mem_of_mem_dedup hs1)
  obtain ⟨p, hp, hpe⟩ := List.mem_filterMap.1 hm
  obtain ⟨l, t⟩ := p
  cases l with
  | none => simp at hpe
  | some e' =>
    simp only at hpe
    split at hpe
    · rename_i heq
      have : e' = e := eq_of_beq heq
      subst this
      simp only [Option.some.injEq] at hpe
      subst hpe
      exact ⟨s0, hs0, some e' :: ls, Exec.cons hp hex, by simp [hv]⟩
    · cases hpe

theorem foldl_stepEvent_sound [LawfulBEq sys.Event] (fuel : Nat) (tr : List sys.Event) :
    ∀ (ss : List sys.State), ∀ s' ∈ tr.foldl (stepEvent sys fuel) ss,
      ∃ s ∈ ss, ∃ ls, Exec sys s ls s' ∧ visible ls = tr := by
  induction tr with
  | nil => intro ss s' h; exact ⟨s', h, [], Exec.nil _, rfl⟩
  | cons e tr ih =>
    intro ss s' h
    rw [List.foldl_cons] at h
    obtain ⟨s1, hs1, ls2, hex2, hv2⟩ := ih _ s' h
    obtain ⟨s0, hs0, ls1, hex1, hv1⟩ := stepEvent_sound sys fuel ss e s1 hs1
    exact ⟨s0, hs0, ls1 ++ ls2, Exec.append hex1 hex2, by simp [hv1, hv2]⟩

theorem after_sound [LawfulBEq sys.Event] (fuel : Nat) (tr : List sys.Event) :
    ∀ s ∈ after sys fuel tr, ∃ ls, Exec sys sys.init ls s ∧ visible ls = tr := by
  intro s h
  unfold after at h
  obtain ⟨s1, hs1, ls2, hex2, hv2⟩ := foldl_stepEvent_sound sys fuel tr _ s h
  obtain ⟨s0, hs0, ls1, hex1, hv1⟩ := tauClosure_sound sys fuel _ s1 hs1
  rw [List.mem_singleton.1 hs0] at hex1
  exact ⟨ls1 ++ ls2, Exec.append hex1 hex2, by simp [hv1, hv2]⟩

theorem accepts_sound [LawfulBEq sys.Event] (fuel : Nat) (tr : List sys.Event) (h : accepts sys fuel tr = true) :
    ∃ ls s, Exec sys sys.init ls s ∧ visible ls = tr := by
  unfold accepts at h
  cases hA : after sys fuel tr with
  | nil => simp [hA] at h
  | cons s rest =>
    obtain ⟨ls, hex, hv⟩ := after_sound sys fuel tr s (by rw [hA]; exact List.mem_cons_self)
    exact ⟨ls, s, hex, hv⟩

end Accept

/-! ### change of system

`sys'` has the same state and event types as `sys` and each of its steps is a finite execution of `sys` with the
same visible label (a reduced system: fewer transitions, or several merged into one). -/

theorem Exec.rel_induct {sys' : Sys} (R : sys'.State → List (Option sys'.Event) → sys'.State → Prop)
    (hnil : ∀ s, R s [] s)
    (hcons : ∀ s l s' ls s'', (l, s') ∈ sys'.succ s → R s' ls s'' → R s (l :: ls) s'')
    {a b : sys'.State} {ls : List (Option sys'.Event)} (h : Exec sys' a ls b) : R a ls b := by
  induction h with
  | nil s => exact hnil s
  | cons hm _ ih => exact hcons _ _ _ _ _ hm ih

theorem Exec.of_steps {State Event : Type} {i i' : State} {succ succ' : State → List (Option Event × State)}
    (hstep : ∀ s l s', (l, s') ∈ succ' s →
      ∃ ls, Exec ⟨State, Event, i, succ⟩ s ls s' ∧ visible ls = visible [l])
    {a b : State} {ls' : List (Option Event)} (h : Exec ⟨State, Event, i', succ'⟩ a ls' b) :
    ∃ ls, Exec ⟨State, Event, i, succ⟩ a ls b ∧ visible ls = visible ls' := by
  refine Exec.rel_induct (sys' := ⟨State, Event, i', succ'⟩)
    (fun a ls' b => ∃ ls, Exec ⟨State, Event, i, succ⟩ a ls b ∧ visible ls = visible ls') ?_ ?_ h
  · intro s; exact ⟨[], Exec.nil _, rfl⟩
  · intro s l s' ls s'' hm ih
    obtain ⟨ls2, hex2, hv2⟩ := ih
    obtain ⟨ls1, hex1, hv1⟩ := hstep s l s' hm
    refine ⟨ls1 ++ ls2, Exec.append hex1 hex2, ?_⟩
    cases l <;> simp [hv1, hv2]

end TypVerif.Conc
