import TypVerif.Lemmas.C17DrvCompletePad
/-
Completeness of the fold the C17 driver performs (`ConcAcceptC17.jfold`), part 2: the invariant and the theorem.

The model runs `N` goroutines from the start; the judge only knows the goroutines that have shown an event.  `DInv` relates
the judge state `j` (its `n`, its state set) and the model state `s` through the projection `p` of `s` to the first `j.n`
goroutines: `s = padTo N p` (all other goroutines are idle), `p` has `j.n` goroutines, and the judge's set covers `p`
(`CoverD`: every state `red` reaches internally from `nf p` within the remaining budget is in the set).

* an internal step of the model is a step of a goroutine `< j.n` (an idle goroutine has no internal step): it is a step of `p`,
  and `OnceRed.sim_tau` applies.
* a visible step `e` of goroutine `t`: the judge pads to `n' = max j.n (t+1)`; `padTo n' p` is the projection to `n'`
  goroutines (`padTo_padTo`), the padded set covers it (`cover_pad`), the step is a step of `padTo n' p` with the result
  function `resOf e` the judge chooses (a `fend` of `t` shows `res t`), and `OnceRed.sim_vis` + `stepEvent_complete` apply.
-/
namespace TypVerif.Lemmas.C17Drv
open TypVerif TypVerif.Conc TypVerif.Model.Once TypVerif.Drv.C17 TypVerif.Lemmas.Once TypVerif.Lemmas.OnceRed
open TypVerif.Lemmas.ConcAcceptC17

structure DInv (N : Nat) (j : JS) (s p : State) : Prop where
  pad : s = padTo N p
  le : p.pcs.length ≤ N
  len : p.pcs.length = j.n
  good : GoodX p
  cover : CoverD j.ss p

theorem dinv_tau (N : Nat) (res : Nat → List Int) (j : JS) (s p s1 : State) (h : DInv N j s p)
    (hm : (none, s1) ∈ succ res s) : ∃ p1, DInv N j s1 p1 := by
  obtain ⟨hpad, hle, hlen, hg, hc⟩ := h
  subst hpad
  rcases succ_pad_inv res N p none s1 hm with ⟨p1, hp1, hs1⟩ | ⟨t, _, hl⟩
  · have hm' : (none, p1) ∈ succ cres p := succ_res res cres p none p1 hp1 (by intro t r hl; cases hl)
    obtain ⟨t, ht, hst⟩ := mem_succ.1 hp1
    refine ⟨p1, hs1, ?_, ?_, goodX_step res p none p1 hg hp1, ?_⟩
    · rw [stepT_len res p t none p1 hst]; exact hle
    · rw [stepT_len res p t none p1 hst]; exact hlen
    · obtain ⟨k0, ht0, hk0⟩ := sim_tau 0 0 cres p p1 hg hm'
      intro x k hk ht
      exact hc x (k0 + k) (by omega) (ht0.trans ht)
  · cases hl

theorem dinv_vis (N a fuel : Nat) (hf : 3 ≤ fuel) (res : Nat → List Int) (j : JS) (s p : State) (e : Event)
    (s1 : State) (h : DInv N j s p) (hm : (some e, s1) ∈ succ res s) :
    ∃ p1, DInv N (jstep a fuel j e) s1 p1 := by
  obtain ⟨hpad, hle, hlen, hg, hc⟩ := h
  subst hpad
  obtain ⟨t, ht, hst⟩ := mem_succ.1 hm
  have htN : t < N := by rw [padTo_len] at ht; omega
  rcases stepT_label res _ t _ s1 hst with ⟨hl, _⟩ | ⟨e', he', htid, hfend⟩
  · cases hl
  · cases he'
    unfold jstep
    simp only
    generalize hn' : (if Event.tid e + 1 > j.n then Event.tid e + 1 else j.n) = n'
    have hn1 : j.n ≤ n' ∧ t + 1 ≤ n' ∧ n' ≤ N := by
      rw [← hn', htid]
      split <;> omega
    have hp'len : (padTo n' p).pcs.length = n' := by rw [padTo_len]; omega
    have hpp : padTo N (padTo n' p) = padTo N p := padTo_padTo n' N p (by omega)
    rw [← hpp] at hst
    obtain ⟨p1, hp1, hs1⟩ := stepT_pad_inv res N (padTo n' p) t _ s1 (by omega) hst
    have hg' := goodX_pad n' p hg
    have hc' : CoverD (if n' > j.n then j.ss.map (padTo n') else j.ss) (padTo n' p) := by
      split
      · exact cover_pad n' j.ss p hg hc
      · rw [padTo_of_le n' p (by omega)]; exact hc
    have hm1 : (some e, p1) ∈ succ (resOf e) (padTo n' p) := by
      refine succ_res res (resOf e) _ _ _ (mem_succ.2 ⟨t, by omega, hp1⟩) ?_
      intro u r hl
      cases hl
      have h1 : r = res t := hfend u r rfl
      have h2 : u = t := htid
      show r = res u
      rw [h2]
      exact h1
    obtain ⟨r1, hr1, ht1⟩ := sim_vis n' a (resOf e) (padTo n' p) p1 e hg' hm1
    refine ⟨p1, hs1, ?_, ?_, goodX_step _ _ _ _ hg' hm1, ?_⟩
    · rw [stepT_len _ _ _ _ _ hp1]; omega
    · show p1.pcs.length = n'
      rw [stepT_len _ _ _ _ _ hp1]; exact hp'len
    · intro x k hk ht
      have hb : bud p1 ≤ 2 := by unfold bud; split <;> omega
      exact stepEvent_complete (red n' a (resOf e)) fuel _ e (nf (padTo n' p)) r1 x (1 + k)
        (hc' _ 0 (Nat.zero_le _) (TauN.refl _ _)) hr1
        (ht1.trans (tauN_indep 0 0 cres n' a (resOf e) ht)) (by omega)

theorem dinv_exec (N a fuel : Nat) (hf : 3 ≤ fuel) (res : Nat → List Int) {s s' : State}
    {ls : List (Option Event)} (h : Exec (sys N a res) s ls s') :
    ∀ j p, DInv N j s p → ∃ p', DInv N ((visible ls).foldl (jstep a fuel) j) s' p' := by
  refine Exec.rel_induct (sys' := sys N a res)
    (fun s ls s' => ∀ j p, DInv N j s p → ∃ p', DInv N ((visible ls).foldl (jstep a fuel) j) s' p') ?_ ?_ h
  · intro s j p hd
    exact ⟨p, hd⟩
  · intro s l s1 ls s'' hm ih j p hd
    cases l with
    | none =>
      obtain ⟨p1, h1⟩ := dinv_tau N res j s p s1 hd hm
      exact ih j p1 h1
    | some e =>
      obtain ⟨p1, h1⟩ := dinv_vis N a fuel hf res j s p e s1 hd hm
      rw [visible_cons_some, List.foldl_cons]
      exact ih _ p1 h1

theorem red_succ_init0 (n a : Nat) (res : Nat → List Int) (a0 : Nat) : (red n a res).succ (init 0 a0) = [] := by
  have hp : pick (init 0 a0) = none := rfl
  rw [red_succ_none _ _ _ _ hp]
  rfl

theorem tauN_stuck {sys : Sys} {k : Nat} {z x : sys.State} (h : TauN sys k z x) (h0 : sys.succ z = []) : x = z := by
  cases h with
  | refl => rfl
  | step hm _ =>
    rw [h0] at hm
    cases hm

theorem dinv_init (N a : Nat) : DInv N { n := 0, ss := [init 0 a] } (init N a) (init 0 a) := by
  refine ⟨(padTo_init 0 N a (Nat.zero_le _)).symm, Nat.zero_le _, rfl, goodX_init 0 a, ?_⟩
  intro x k _ ht
  rw [nf_init] at ht
  exact List.mem_singleton.2 (tauN_stuck ht (red_succ_init0 0 0 cres a))

/-- the judge state after the visible trace of a model execution covers (the projection of) the state reached -/
theorem jfold_complete (N arity fuel : Nat) (hf : 3 ≤ fuel) (res : Nat → List Int) (ls : List (Option Event))
    (s : State) (h : Exec (sys N arity res) (init N arity) ls s) :
    ∃ p, s = padTo N p ∧ p.pcs.length = (jfold arity fuel (visible ls)).n ∧
      nf p ∈ (jfold arity fuel (visible ls)).ss := by
  obtain ⟨p, hd⟩ := dinv_exec N arity fuel hf res h _ _ (dinv_init N arity)
  exact ⟨p, hd.pad, hd.len, hd.cover (nf p) 0 (Nat.zero_le _) (TauN.refl _ _)⟩

/-- the fold the driver performs never empties its state set on a visible trace of the model -/
theorem driver_accept_complete (N arity fuel : Nat) (hf : 3 ≤ fuel) (res : Nat → List Int)
    (ls : List (Option Event)) (s : State) (h : Exec (sys N arity res) (init N arity) ls s) :
    (jfold arity fuel (visible ls)).ss ≠ [] := by
  obtain ⟨p, _, _, hmem⟩ := jfold_complete N arity fuel hf res ls s h
  intro h0
  rw [h0] at hmem
  cases hmem

end TypVerif.Lemmas.C17Drv
