import TypVerif.Lemmas.ObjComplete
import TypVerif.Lemmas.ObjAcceptC18
/-
The C18 judge (`Drv.C18.step`) computes exactly the generic fold `ObjAccept.foldObj` (fuel 16, `nextN`) on its
atomic-object state sets, and its flags record exactly whether the fold is empty:
  mode `av`:   `violated = none ↔ fold over Spec.Register.spec ≠ []`,  `rejected = false ↔ fold over AtomicValue.spec ≠ []`;
  mode `pool`: `violated = none → fold over bagSpec ≠ []`, `violated = some "not-linearizable" → fold over bagSpec = []`
               (the flag is shared with the holding-discipline predicates `put-unheld` / `double-hold` / `unknown-item`).
With `ObjComplete.fold_stepObj_iff_linearizable` this makes the judge a decision procedure for linearizability on
histories with goroutine ids `< 16`.
-/
namespace TypVerif.Lemmas.ObjCompleteC18
open TypVerif TypVerif.Conc TypVerif.Model TypVerif.Proto TypVerif.Drv.C18 TypVerif.Lemmas.ObjAccept
open TypVerif.Lemmas.ObjAcceptC18 TypVerif.Lemmas.ObjComplete

/-- the judge's rule for the number of goroutines -/
def nfJ {Op Res : Type} (n : Nat) (e : AtomicObj.Event Op Res) : Nat := nextN n (evTid e)

theorem evT_eq {Op Res : Type} (e : AtomicObj.Event Op Res) : evT e = evTid e := by cases e <;> rfl

theorem nfJ_mono {Op Res : Type} (n : Nat) (e : AtomicObj.Event Op Res) : n ≤ nfJ n e := by
  unfold nfJ nextN; split <;> omega

theorem nfJ_inv {Op Res : Type} (n t : Nat) (op : Op) : t < nfJ n (AtomicObj.Event.inv (Res := Res) t op) := by
  show t < nextN n t
  unfold nextN; split <;> omega

theorem nfJ_bound {Op Res : Type} (fuel n : Nat) (e : AtomicObj.Event Op Res) (hn : n ≤ fuel) (he : evT e < fuel) :
    nfJ n e ≤ fuel := by
  rw [evT_eq] at he
  unfold nfJ nextN; split <;> omega

section Generic
variable (S : AtomicObj.Spec) [DecidableEq S.σ] [DecidableEq S.Op] [DecidableEq S.Res]

/-- the fold the judge performs on a state set over `S` -/
def jfold (tr : List (AtomicObj.Event S.Op S.Res)) : Nat × List (AtomicObj.State S.σ S.Op S.Res) :=
  foldObj S closureFuel nfJ (0, [AtomicObj.init S 0]) tr

/-- the number of goroutines after a history -/
def nOf {Op Res : Type} (tr : List (AtomicObj.Event Op Res)) : Nat := tr.foldl nfJ 0

theorem foldObj_fst (fuel : Nat) (nf : Nat → AtomicObj.Event S.Op S.Res → Nat) (tr : List (AtomicObj.Event S.Op S.Res)) :
    ∀ j : Nat × List (AtomicObj.State S.σ S.Op S.Res), (foldObj S fuel nf j tr).1 = tr.foldl nf j.1 := by
  induction tr with
  | nil => intro j; rfl
  | cons e tr ih => intro j; exact ih _

theorem jfold_fst (tr : List (AtomicObj.Event S.Op S.Res)) : (jfold S tr).1 = nOf tr := foldObj_fst S _ _ tr _

theorem jfold_snoc (tr : List (AtomicObj.Event S.Op S.Res)) (e : AtomicObj.Event S.Op S.Res) :
    jfold S (tr ++ [e]) =
      (nextN (nOf tr) (evTid e), stepObj S (nextN (nOf tr) (evTid e)) (jfold S tr).2 e) := by
  unfold jfold foldObj
  rw [List.foldl_append]
  simp only [List.foldl_cons, List.foldl_nil]
  have := jfold_fst S tr
  unfold jfold foldObj at this
  rw [this]
  rfl

theorem nOf_snoc {Op Res : Type} (tr : List (AtomicObj.Event Op Res)) (e : AtomicObj.Event Op Res) :
    nOf (tr ++ [e]) = nextN (nOf tr) (evTid e) := by
  unfold nOf
  rw [List.foldl_append]
  rfl

theorem stepObj_nil (n : Nat) (e : AtomicObj.Event S.Op S.Res) : stepObj S n [] e = [] :=
  stepObjF_nil S closureFuel n e

/-- the judge's fold decides linearizability on histories with goroutine ids `< 16` -/
theorem jfold_iff_linearizable (tr : List (AtomicObj.Event S.Op S.Res)) (htid : ∀ e ∈ tr, evTid e < 16) :
    (jfold S tr).2 ≠ [] ↔ AtomicObj.Linearizable S tr :=
  fold_stepObj_iff_linearizable S closureFuel nfJ nfJ_mono nfJ_inv (nfJ_bound closureFuel) 0 (Nat.zero_le _) tr
    (fun e h => by rw [evT_eq]; exact htid e h)

end Generic

/-! ### mode `av` -/

/-- the judge state (mode `av`) after the history `tr` IS the fold, and the flags say whether it is empty -/
def AvC (tr : List AvEvent) (st : St) : Prop :=
  st.mode = .av ∧ st.n = nOf tr ∧
  (st.violated = none ↔ (jfold Spec.Register.spec tr).2 ≠ []) ∧
  (st.violated = none → st.avS = (jfold Spec.Register.spec tr).2) ∧
  (st.rejected = false ↔ (jfold AtomicValue.spec tr).2 ≠ []) ∧
  (st.rejected = false → st.avM = (jfold AtomicValue.spec tr).2)

theorem avC_header (st0 : St) (impl0 : String) : AvC [] (step st0 [.w "av"] impl0).1 := by
  refine ⟨rfl, rfl, ⟨fun _ h => ?_, fun _ => rfl⟩, fun _ => rfl, ⟨fun _ h => ?_, fun _ => rfl⟩, fun _ => rfl⟩
  · cases h
  · cases h

theorem isEmpty_false_iff {α : Type} (l : List α) : l.isEmpty = false ↔ l ≠ [] := by
  cases l <;> simp

/-- bookkeeping of the `violated` flag, abstractly -/
theorem optFlag_step {α : Type} (G : List α → List α) (hnil : G [] = []) (v v' : Option String) (cur cur' F : List α)
    (hVi : v = none ↔ F ≠ []) (hVs : v = none → cur = F)
    (h4 : cur' = if v.isSome = true then [] else G cur)
    (h6 : v' = match (generalizing := false) v with
      | some w => some w
      | none => if cur'.isEmpty = true then some "not-linearizable" else none) :
    (v' = none ↔ G F ≠ []) ∧ (v' = none → cur' = G F) := by
  cases v with
  | some w =>
    have he : F = [] := by
      cases F with
      | nil => rfl
      | cons a l => exact absurd (hVi.2 (by simp)) (by simp)
    subst he
    simp only at h6
    subst h6
    rw [hnil]
    simp
  | none =>
    have hc := hVs rfl
    subst hc
    simp only [Option.isSome_none, Bool.false_eq_true, if_false] at h4
    subst h4
    simp only at h6
    subst h6
    cases G cur <;> simp

/-- bookkeeping of the `rejected` flag, abstractly -/
theorem boolFlag_step {α : Type} (G : List α → List α) (hnil : G [] = []) (r r' : Bool) (cur cur' F : List α)
    (hRi : r = false ↔ F ≠ []) (hRs : r = false → cur = F)
    (h3 : cur' = if r = true then [] else G cur)
    (h5 : r' = (r || cur'.isEmpty)) :
    (r' = false ↔ G F ≠ []) ∧ (r' = false → cur' = G F) := by
  cases r with
  | true =>
    have he : F = [] := by
      cases F with
      | nil => rfl
      | cons a l => exact absurd (hRi.2 (by simp)) (by simp)
    subst he
    subst h5
    rw [hnil]
    simp
  | false =>
    have hc := hRs rfl
    subst hc
    simp only [Bool.false_eq_true, if_false] at h3
    subst h3
    subst h5
    cases G cur <;> simp

theorem avC_step (tr : List AvEvent) (st : St) (toks : List Val) (impl : String) (e : AvEvent)
    (hp : parseAv toks = some e) (h : AvC tr st) : AvC (tr ++ [e]) (step st toks impl).1 := by
  obtain ⟨hmode, hn, hVi, hVs, hRi, hRs⟩ := h
  obtain ⟨h1, h2, h3, h4, h5, h6⟩ := step_av st toks impl e hmode hp
  rw [hn] at h2 h3 h4
  have hS : (jfold Spec.Register.spec (tr ++ [e])).2 =
      stepObj Spec.Register.spec (nextN (nOf tr) (evTid e)) (jfold Spec.Register.spec tr).2 e :=
    congrArg Prod.snd (jfold_snoc Spec.Register.spec tr e)
  have hM : (jfold AtomicValue.spec (tr ++ [e])).2 =
      stepObj AtomicValue.spec (nextN (nOf tr) (evTid e)) (jfold AtomicValue.spec tr).2 e :=
    congrArg Prod.snd (jfold_snoc AtomicValue.spec tr e)
  obtain ⟨a1, a2⟩ := optFlag_step (fun ss => stepObj Spec.Register.spec (nextN (nOf tr) (evTid e)) ss e)
    (stepObj_nil Spec.Register.spec _ e) st.violated (step st toks impl).1.violated st.avS
    (step st toks impl).1.avS (jfold Spec.Register.spec tr).2 hVi hVs h4 h6
  obtain ⟨b1, b2⟩ := boolFlag_step (fun ss => stepObj AtomicValue.spec (nextN (nOf tr) (evTid e)) ss e)
    (stepObj_nil AtomicValue.spec _ e) st.rejected (step st toks impl).1.rejected st.avM
    (step st toks impl).1.avM (jfold AtomicValue.spec tr).2 hRi hRs h3 h5
  refine ⟨h1, by rw [h2, nOf_snoc], ?_, ?_, ?_, ?_⟩
  · rw [hS]; exact a1
  · rw [hS]; exact a2
  · rw [hM]; exact b1
  · rw [hM]; exact b2

theorem runLines_avC (lines : List (List Val × String)) :
    ∀ (tr0 tr : List AvEvent) (st : St), lines.map (fun l => parseAv l.1) = tr.map some → AvC tr0 st →
      AvC (tr0 ++ tr) (runLines st lines) := by
  induction lines with
  | nil =>
    intro tr0 tr st hl h
    cases tr with
    | nil => simpa [runLines] using h
    | cons e tr => simp at hl
  | cons l lines ih =>
    intro tr0 tr st hl h
    cases tr with
    | nil => simp at hl
    | cons e tr =>
      rw [List.map_cons, List.map_cons, List.cons.injEq] at hl
      have := ih (tr0 ++ [e]) tr _ hl.2 (avC_step tr0 st l.1 l.2 e hl.1 h)
      simpa [runLines] using this

/-- the flags of the AtomicValue judge after the header and lines standing for `tr` -/
theorem av_flags (st0 : St) (impl0 : String) (lines : List (List Val × String)) (tr : List AvEvent)
    (hparse : lines.map (fun l => parseAv l.1) = tr.map some) :
    ((runLines (step st0 [.w "av"] impl0).1 lines).violated = none ↔ (jfold Spec.Register.spec tr).2 ≠ []) ∧
    ((runLines (step st0 [.w "av"] impl0).1 lines).rejected = false ↔ (jfold AtomicValue.spec tr).2 ≠ []) := by
  have h := runLines_avC lines [] tr _ hparse (avC_header st0 impl0)
  rw [List.nil_append] at h
  exact ⟨h.2.2.1, h.2.2.2.2.1⟩

/-! ### mode `pool` (bag component) -/

/-- the `violated` flag of an event line in mode `pool` (not trace-only): an earlier verdict is kept; otherwise the verdict
`disc` of the holding-discipline predicates (never `not-linearizable`), otherwise `not-linearizable` iff the bag state set
became empty -/
theorem step_pool_flag (st : St) (toks : List Val) (impl : String) (hasNew : Bool) (e : Pool.Event)
    (hmode : st.mode = .pool hasNew) (htr : st.traceOnly = false) (hp : parsePool toks = some e) :
    ∃ disc : Option String, disc ≠ some "not-linearizable" ∧
      (step st toks impl).1.violated = (match (generalizing := false) st.violated with
        | some w => some w
        | none => match disc with
          | some w => some w
          | none => if (step st toks impl).1.poolS.isEmpty = true then some "not-linearizable" else none) := by
  have hn : (if evTid e + 1 > st.n then evTid e + 1 else st.n) = nextN st.n (evTid e) := rfl
  unfold step
  split
  · rw [parsePool_av] at hp; cases hp
  · rw [parsePool_poolt] at hp; cases hp
  · rw [parsePool_pool] at hp; cases hp
  · simp only [hmode, hp, htr, hn, Bool.or_false]
    simp only [Bool.not_false, Bool.and_true]
    refine ⟨?disc, ?hne, ?heq⟩
    case heq => rfl
    case hne =>
      split
      · split
        · simp
        · split <;> simp
      · split
        · simp
        · split
          · simp
          · split <;> simp
      · simp

theorem poolFlag_step {α : Type} (G : List α → List α) (hnil : G [] = []) (v v' disc : Option String)
    (cur cur' F : List α)
    (hA : v = none → cur = F ∧ F ≠ []) (hB : v = some "not-linearizable" → F = [])
    (hd : disc ≠ some "not-linearizable")
    (h4 : cur' = if v.isSome = true then [] else G cur)
    (h6 : v' = match (generalizing := false) v with
      | some w => some w
      | none => match (generalizing := false) disc with
        | some w => some w
        | none => if cur'.isEmpty = true then some "not-linearizable" else none) :
    (v' = none → cur' = G F ∧ G F ≠ []) ∧ (v' = some "not-linearizable" → G F = []) := by
  cases v with
  | some w =>
    simp only at h6
    subst h6
    refine ⟨fun h => (by cases h), fun h => ?_⟩
    rw [hB h, hnil]
  | none =>
    obtain ⟨hc, hF⟩ := hA rfl
    subst hc
    simp only [Option.isSome_none, Bool.false_eq_true, if_false] at h4
    subst h4
    cases disc with
    | some d =>
      simp only at h6
      subst h6
      refine ⟨fun h => (by cases h), fun h => ?_⟩
      exact absurd h hd
    | none =>
      simp only at h6
      subst h6
      cases G cur <;> simp

/-- the judge state (mode `pool hasNew`, not trace-only) after the history `tr`: while no violation is reported the bag state
set IS the (non-empty) fold; the verdict `not-linearizable` is reported only when the fold is empty -/
def PoolC (hasNew : Bool) (tr : List Pool.Event) (st : St) : Prop :=
  st.mode = .pool hasNew ∧ st.traceOnly = false ∧ st.n = nOf tr ∧
  (st.violated = none → st.poolS = (jfold (Pool.bagSpec hasNew) tr).2 ∧ (jfold (Pool.bagSpec hasNew) tr).2 ≠ []) ∧
  (st.violated = some "not-linearizable" → (jfold (Pool.bagSpec hasNew) tr).2 = [])

theorem poolC_header (st0 : St) (hn : Int) (impl0 : String) :
    PoolC (hn != 0) [] (step st0 [.w "pool", .i hn] impl0).1 := by
  refine ⟨rfl, rfl, rfl, fun _ => ⟨rfl, fun h => ?_⟩, fun h => ?_⟩
  · cases h
  · cases h

theorem poolC_step (hasNew : Bool) (tr : List Pool.Event) (st : St) (toks : List Val) (impl : String)
    (e : Pool.Event) (hp : parsePool toks = some e) (h : PoolC hasNew tr st) :
    PoolC hasNew (tr ++ [e]) (step st toks impl).1 := by
  obtain ⟨hmode, htr, hn, hA, hB⟩ := h
  obtain ⟨h1, h2, h3, h4, _⟩ := step_pool st toks impl hasNew e hmode htr hp
  obtain ⟨disc, hd, h6⟩ := step_pool_flag st toks impl hasNew e hmode htr hp
  rw [hn] at h3 h4
  have hS : (jfold (Pool.bagSpec hasNew) (tr ++ [e])).2 =
      stepObj (Pool.bagSpec hasNew) (nextN (nOf tr) (evTid e)) (jfold (Pool.bagSpec hasNew) tr).2 e :=
    congrArg Prod.snd (jfold_snoc (Pool.bagSpec hasNew) tr e)
  obtain ⟨a1, a2⟩ := poolFlag_step (fun ss => stepObj (Pool.bagSpec hasNew) (nextN (nOf tr) (evTid e)) ss e)
    (stepObj_nil (Pool.bagSpec hasNew) _ e) st.violated (step st toks impl).1.violated disc st.poolS
    (step st toks impl).1.poolS (jfold (Pool.bagSpec hasNew) tr).2 hA hB hd h4 h6
  refine ⟨h1, h2, by rw [h3, nOf_snoc], ?_, ?_⟩
  · rw [hS]; exact a1
  · rw [hS]; exact a2

theorem runLines_poolC (hasNew : Bool) (lines : List (List Val × String)) :
    ∀ (tr0 tr : List Pool.Event) (st : St), lines.map (fun l => parsePool l.1) = tr.map some →
      PoolC hasNew tr0 st → PoolC hasNew (tr0 ++ tr) (runLines st lines) := by
  induction lines with
  | nil =>
    intro tr0 tr st hl h
    cases tr with
    | nil => simpa [runLines] using h
    | cons e tr => simp at hl
  | cons l lines ih =>
    intro tr0 tr st hl h
    cases tr with
    | nil => simp at hl
    | cons e tr =>
      rw [List.map_cons, List.map_cons, List.cons.injEq] at hl
      have := ih (tr0 ++ [e]) tr _ hl.2 (poolC_step hasNew tr0 st l.1 l.2 e hl.1 h)
      simpa [runLines] using this

/-- the `violated` flag of the Pool judge after the header and lines standing for `tr`, bag component -/
theorem pool_flags (st0 : St) (hn : Int) (impl0 : String) (lines : List (List Val × String)) (tr : List Pool.Event)
    (hparse : lines.map (fun l => parsePool l.1) = tr.map some) :
    ((runLines (step st0 [.w "pool", .i hn] impl0).1 lines).violated = none →
      (jfold (Pool.bagSpec (hn != 0)) tr).2 ≠ []) ∧
    ((runLines (step st0 [.w "pool", .i hn] impl0).1 lines).violated = some "not-linearizable" →
      (jfold (Pool.bagSpec (hn != 0)) tr).2 = []) := by
  have h := runLines_poolC (hn != 0) lines [] tr _ hparse (poolC_header st0 hn impl0)
  rw [List.nil_append] at h
  exact ⟨fun hv => (h.2.2.2.1 hv).2, h.2.2.2.2⟩

end TypVerif.Lemmas.ObjCompleteC18
