import TypVerif.Lemmas.PubSubRedTask
/-
C10, completeness of the judge's reduction: a lag step commutes with the receivers, the environment, the exit steps; the two kinds of
lag steps (`LagStep`); the commutation lemma for the whole successor function, by source of the step (`stepsOf`).
-/
set_option linter.unusedSectionVars false
namespace TypVerif.Lemmas.PubSubRed
open TypVerif TypVerif.Conc TypVerif.Model.PubSub TypVerif.Drv.C10

section
variable {o : Nat} {f : RW → RW} {g : Nat} {t' : Task} {x : State} {Q : ObjSt → Prop}

theorem recvSteps_lag (ho : o < x.objs.length) (ch : ChanSt) :
    Sub (lagT o f g t') (Keeps o g Q x) (recvSteps (lagT o f g t' x) ch) (recvSteps x ch) := by
  unfold recvSteps
  rw [lagT_chans]
  split
  · exact sub_nil _ _ _
  · split
    · exact sub_single _ _ rfl (keeps_withChans (keeps_refl ho) _)
    · split
      · exact sub_nil _ _ _
      · split
        · exact sub_single _ _ rfl (keeps_withChans (keeps_refl ho) _)
        · split
          · exact sub_single _ _ rfl (keeps_withChans (keeps_refl ho) _)
          · exact sub_nil _ _ _

theorem exitSteps_lag (ho : o < x.objs.length) :
    Sub (lagT o f g t') (Keeps o g Q x) (exitSteps (lagT o f g t' x)) (exitSteps x) := by
  unfold exitSteps
  intro p hp
  obtain ⟨r, hr, rfl⟩ := List.mem_map.1 hp
  exact ⟨(some (.exit r), { x with exited := true }), List.mem_map.2 ⟨r, hr, rfl⟩, rfl, keeps_of_same (keeps_refl ho) rfl rfl⟩

theorem any_set_same {α : Type} (p : α → Bool) (l : List α) (i : Nat) (a b : α) (h : l[i]? = some a) (hp : p b = p a) :
    (l.set i b).any p = l.any p := by
  induction l generalizing i with
  | nil => cases h
  | cons c l ih =>
    cases i with
    | zero =>
      simp only [List.getElem?_cons_zero, Option.some.injEq] at h
      subst h
      simp [List.set, hp]
    | succ i =>
      simp only [List.getElem?_cons_succ] at h
      simp [List.set, ih i h]

theorem nameTaken_lag {t : Task} (ht : x.tasks[g]? = some t) (hsub : ∀ c, subName c t' = subName c t) (c : Chan) :
    nameTaken (lagT o f g t' x) c = nameTaken x c := by
  unfold nameTaken
  rw [lagT_chans, lagT_tasks, any_set_same _ _ _ _ _ ht (hsub c)]

theorem lagT_withPids (W : List Nat) (y : State) : ({ lagT o f g t' y with pids := W } : State) = lagT o f g t' { y with pids := W } := rfl

theorem lagT_appendObj (ho : o < x.objs.length) (A : ObjSt) :
    ({ lagT o f g t' x with objs := (lagT o f g t' x).objs ++ [A] } : State) = lagT o f g t' { x with objs := x.objs ++ [A] } := by
  have e : ({ x with objs := x.objs ++ [A] } : State).obj o = x.obj o := by
    show (x.objs ++ [A]).getD o {} = x.objs.getD o {}
    rw [List.getD_eq_getElem?_getD, List.getD_eq_getElem?_getD, List.getElem?_append_left ho]
  show ({ x with objs := x.objs.set o (rwMap f (x.obj o)) ++ [A], tasks := x.tasks.set g t' } : State)
    = { x with objs := (x.objs ++ [A]).set o (rwMap f (({ x with objs := x.objs ++ [A] } : State).obj o)), tasks := x.tasks.set g t' }
  rw [e, List.set_append_left _ _ ho]

theorem keeps_appendObj (ho : o < x.objs.length) (A : ObjSt) : Keeps o g Q x { x with objs := x.objs ++ [A] } := by
  refine ⟨by simp only [List.length_append]; omega, rfl, ?_⟩
  have e : ({ x with objs := x.objs ++ [A] } : State).obj o = x.obj o := by
    show (x.objs ++ [A]).getD o {} = x.objs.getD o {}
    rw [List.getD_eq_getElem?_getD, List.getD_eq_getElem?_getD, List.getElem?_append_left ho]
  rw [e]; exact id

theorem envStep_lag (cfg : Cfg) (ho : o < x.objs.length) (hgl : g < x.tasks.length) {t : Task} (ht : x.tasks[g]? = some t)
    (hsub : ∀ c, subName c t' = subName c t) (e : Event) (z : State) (h : envStep cfg (lagT o f g t' x) e = some z) :
    ∃ y', envStep cfg x e = some y' ∧ z = lagT o f g t' y' ∧ Keeps o g Q x y' := by
  cases e with
  | sub c cap =>
    simp only [envStep, nameTaken_lag ht hsub] at h ⊢
    split at h
    · cases h
    · rename_i hn
      rw [if_neg hn]
      injection h with h
      exact ⟨_, rfl, by rw [← h, lagT_spawn _ _ _ _ _ _ hgl], keeps_spawn (keeps_refl ho) hgl _⟩
  | mkchan c =>
    simp only [envStep, nameTaken_lag ht hsub] at h ⊢
    split at h
    · cases h
    · rename_i hn
      rw [if_neg hn]
      injection h with h
      exact ⟨_, rfl, by rw [← h]; rfl, keeps_withChans (keeps_refl ho) _⟩
  | withonly w via c =>
    simp only [envStep, lagT_validObj _ _ _ _ _ ho, lagT_objs_length] at h ⊢
    split at h
    · rename_i hc
      rw [if_pos hc]
      injection h with h
      refine ⟨_, rfl, ?_, keeps_spawn (keeps_appendObj ho _) hgl _⟩
      rw [← h, lagT_appendObj ho, lagT_spawn _ _ _ _ _ _ (by simpa using hgl)]
    · cases h
  | pubinv p via v evs =>
    simp only [envStep, lagT_validObj _ _ _ _ _ ho, lagT_pids] at h ⊢
    split at h
    · cases h
    · rename_i hc
      rw [if_neg hc]
      injection h with h
      refine ⟨_, rfl, ?_, keeps_spawn (keeps_of_same (keeps_refl ho) rfl rfl) hgl _⟩
      rw [← h, lagT_withPids, lagT_spawn _ _ _ _ _ _ (by simpa using hgl)]
  | allow c n =>
    simp only [envStep] at h ⊢
    by_cases hc : hasChan x.chans c = true
    · have hc' : hasChan (lagT o f g t' x).chans c = true := hc
      rw [if_pos hc'] at h
      rw [if_pos hc]
      injection h with h
      exact ⟨_, rfl, by rw [← h]; rfl, keeps_withChans (keeps_refl ho) _⟩
    · have hc' : ¬ hasChan (lagT o f g t' x).chans c = true := hc
      rw [if_neg hc'] at h; cases h
  | unsubinv u via c =>
    simp only [envStep, lagT_validObj _ _ _ _ _ ho] at h ⊢
    split at h
    · rename_i hc
      rw [if_pos hc]
      injection h with h
      exact ⟨_, rfl, by rw [← h, lagT_spawn _ _ _ _ _ _ hgl], keeps_spawn (keeps_refl ho) hgl _⟩
    · cases h
  | unsuballinv u via =>
    simp only [envStep, lagT_validObj _ _ _ _ _ ho] at h ⊢
    split at h
    · rename_i hc
      rw [if_pos hc]
      injection h with h
      exact ⟨_, rfl, by rw [← h, lagT_spawn _ _ _ _ _ _ hgl], keeps_spawn (keeps_refl ho) hgl _⟩
    · cases h
  | subret _ => simp [envStep] at h
  | pubret _ => simp [envStep] at h
  | recv _ _ => simp [envStep] at h
  | closed _ => simp [envStep] at h
  | tmo _ => simp [envStep] at h
  | unsubret _ _ => simp [envStep] at h
  | unsuballret _ => simp [envStep] at h
  | exit _ => simp [envStep] at h

theorem envSteps_lag (cfg : Cfg) (ho : o < x.objs.length) (hgl : g < x.tasks.length) {t : Task} (ht : x.tasks[g]? = some t)
    (hsub : ∀ c, subName c t' = subName c t) :
    Sub (lagT o f g t') (Keeps o g Q x) (envSteps cfg (lagT o f g t' x)) (envSteps cfg x) := by
  intro p hp
  unfold envSteps at hp
  obtain ⟨e, he, hpe⟩ := List.mem_filterMap.1 hp
  cases hz : envStep cfg (lagT o f g t' x) e with
  | none => rw [hz] at hpe; cases hpe
  | some z =>
    rw [hz] at hpe
    simp only [Option.map_some, Option.some.injEq] at hpe
    obtain ⟨y', hy, hzy, hkp⟩ := envStep_lag (Q := Q) cfg ho hgl ht hsub e z hz
    refine ⟨(some e, y'), ?_, by rw [← hpe, hzy], hkp⟩
    unfold envSteps
    exact List.mem_filterMap.2 ⟨e, he, by rw [hy]; rfl⟩

end
end TypVerif.Lemmas.PubSubRed
