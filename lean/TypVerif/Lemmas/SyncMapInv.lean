import TypVerif.Lemmas.SyncMapAssoc
/-
The sequential invariant `SeqInv` of `sync2.Map` (DESIGN §8 C04, S1–S7), the abstraction `abs`,
and how the primitive state updates act on them.
-/
namespace TypVerif.Lemmas.SyncMap
open TypVerif.Model.SyncMap

set_option linter.unusedSectionVars false
set_option linter.unusedVariables false

variable {K V : Type} [DecidableEq K]

/-- `read.m[k]` -/
def rd (s : State K V) (k : K) : Option EId := alookup k s.read
/-- `m.dirty[k]` -/
def dt (s : State K V) (k : K) : Option EId := alookup k (dirtyMap s)

/-- the entry that currently stands for key `k`: `read.m[k]`, else `dirty[k]` when `amended` -/
def cur (s : State K V) (k : K) : Option EId :=
  match rd s k with
  | some e => some e
  | none => if s.amended then dt s k else none

/-- the abstraction: the value of `k`'s current entry (`nil`/`expunged` count as absent) -/
def abs (s : State K V) (k : K) : Option V := (cur s k).bind (loadEntry s)

structure SeqInv (s : State K V) : Prop where
  /-- no "assignment to entry in nil map" happened -/
  nofault : s.fault = false
  readNodup : (akeys s.read).Nodup
  dirtyNodup : (akeys (dirtyMap s)).Nodup
  /-- entry ids are allocated -/
  readRange : ∀ k e, rd s k = some e → e < s.entries.length
  dirtyRange : ∀ k e, dt s k = some e → e < s.entries.length
  /-- S1 -/
  s1 : s.dirty = none → s.amended = false
  /-- S2: with a dirty map, a non-expunged read entry is in it under the same key, an expunged one is absent -/
  s2 : s.dirty ≠ none → ∀ k e, rd s k = some e →
        (getP s e ≠ .expunged → dt s k = some e) ∧ (getP s e = .expunged → dt s k = none)
  /-- S3 -/
  s3 : s.dirty = none → ∀ k e, rd s k = some e → getP s e ≠ .expunged
  /-- S4 -/
  s4 : s.amended = false → ∀ k e, dt s k = some e → (rd s k).isSome
  /-- S5: dirty-only entries are live -/
  s5 : ∀ k e, rd s k = none → dt s k = some e → ∃ v, getP s e = .val v
  /-- S6: no entry serves two keys -/
  s6 : ∀ k k' e, (rd s k = some e ∨ dt s k = some e) → (rd s k' = some e ∨ dt s k' = some e) → k = k'
  /-- S7 (sequential executions only): the dirty map exists exactly when `amended` -/
  s7 : s.dirty ≠ none → s.amended = true

/-! ### projections through the primitive updates -/

@[simp] theorem setP_read (s : State K V) (e : EId) (p : P V) : (setP s e p).read = s.read := rfl
@[simp] theorem setP_dirty (s : State K V) (e : EId) (p : P V) : (setP s e p).dirty = s.dirty := rfl
@[simp] theorem setP_amended (s : State K V) (e : EId) (p : P V) : (setP s e p).amended = s.amended := rfl
@[simp] theorem setP_misses (s : State K V) (e : EId) (p : P V) : (setP s e p).misses = s.misses := rfl
@[simp] theorem setP_fault (s : State K V) (e : EId) (p : P V) : (setP s e p).fault = s.fault := rfl
@[simp] theorem setP_length (s : State K V) (e : EId) (p : P V) :
    (setP s e p).entries.length = s.entries.length := by simp [setP]
@[simp] theorem rd_setP (s : State K V) (e : EId) (p : P V) (k : K) : rd (setP s e p) k = rd s k := rfl
@[simp] theorem dt_setP (s : State K V) (e : EId) (p : P V) (k : K) : dt (setP s e p) k = dt s k := rfl
@[simp] theorem dirtyMap_setP (s : State K V) (e : EId) (p : P V) : dirtyMap (setP s e p) = dirtyMap s := rfl
@[simp] theorem cur_setP (s : State K V) (e : EId) (p : P V) (k : K) : cur (setP s e p) k = cur s k := rfl

theorem getP_setP (s : State K V) (e e' : EId) (p : P V) (he : e < s.entries.length) :
    getP (setP s e p) e' = if e' = e then p else getP s e' := by
  unfold getP setP
  simp only [List.getD_eq_getElem?_getD, List.getElem?_set]
  by_cases h : e = e'
  · subst h; simp [he]
  · have : ¬ e' = e := fun h2 => h h2.symm
    simp [h, this]

theorem getP_of_ge (s : State K V) (e : EId) (he : s.entries.length ≤ e) : getP s e = .nil := by
  unfold getP
  simp [List.getD_eq_getElem?_getD, List.getElem?_eq_none he]

/-- value carried by a pointer state -/
def pval : P V → Option V
  | .val v => some v
  | _ => none

theorem loadEntry_eq (s : State K V) (e : EId) : loadEntry s e = pval (getP s e) := by
  unfold loadEntry pval; cases getP s e <;> rfl

theorem loadEntry_setP (s : State K V) (e e' : EId) (p : P V) (he : e < s.entries.length) :
    loadEntry (setP s e p) e' = if e' = e then pval p else loadEntry s e' := by
  rw [loadEntry_eq, getP_setP s e e' p he, loadEntry_eq]; split <;> rfl

/-! ### consequences of the invariant -/

theorem SeqInv.dirty_of_amended {s : State K V} (h : SeqInv s) (ha : s.amended = true) : s.dirty ≠ none := by
  intro hd; have := h.s1 hd; simp [ha] at this

theorem SeqInv.dt_none_of_clean {s : State K V} (hd : s.dirty = none) (k : K) : dt s k = none := by
  simp [dt, dirtyMap, hd]

/-- no entry of the dirty map is expunged -/
theorem SeqInv.dirty_not_expunged {s : State K V} (h : SeqInv s) {k : K} {e : EId} (hk : dt s k = some e) :
    getP s e ≠ .expunged := by
  have hd : s.dirty ≠ none := by
    intro hd; rw [SeqInv.dt_none_of_clean hd] at hk; cases hk
  cases hr : rd s k with
  | none => obtain ⟨v, hv⟩ := h.s5 k e hr hk; rw [hv]; intro h2; cases h2
  | some e' =>
    have h2 := h.s2 hd k e' hr
    by_cases hx : getP s e' = .expunged
    · have := h2.2 hx; rw [this] at hk; cases hk
    · have := h2.1 hx; rw [this] at hk; injection hk with hk; subst hk; exact hx

/-- two keys with the same current entry are equal -/
theorem SeqInv.cur_inj {s : State K V} (h : SeqInv s) {k k' : K} {e : EId}
    (hk : cur s k = some e) (hk' : cur s k' = some e) : k = k' := by
  apply h.s6 k k' e
  · unfold cur at hk
    cases hr : rd s k with
    | none => rw [hr] at hk; simp only at hk; right; split at hk; exact hk; cases hk
    | some e0 => rw [hr] at hk; simp only at hk; left; exact hk
  · unfold cur at hk'
    cases hr : rd s k' with
    | none => rw [hr] at hk'; simp only at hk'; right; split at hk'; exact hk'; cases hk'
    | some e0 => rw [hr] at hk'; simp only at hk'; left; exact hk'

theorem SeqInv.cur_lt {s : State K V} (h : SeqInv s) {k : K} {e : EId} (hk : cur s k = some e) :
    e < s.entries.length := by
  unfold cur at hk
  cases hr : rd s k with
  | none =>
    rw [hr] at hk; simp only at hk
    split at hk
    · exact h.dirtyRange k e hk
    · cases hk
  | some e0 => rw [hr] at hk; simp only at hk; injection hk with hk; subst hk; exact h.readRange k e0 hr

theorem cur_of_rd {s : State K V} {k : K} {e : EId} (h : rd s k = some e) : cur s k = some e := by
  unfold cur; rw [h]

theorem cur_of_dt {s : State K V} {k : K} (h : rd s k = none) (ha : s.amended = true) : cur s k = dt s k := by
  unfold cur; rw [h]; simp [ha]

theorem cur_of_clean_miss {s : State K V} {k : K} (h : rd s k = none) (ha : s.amended = false) : cur s k = none := by
  unfold cur; rw [h]; simp [ha]

/-- writing an entry changes the abstraction exactly at the key it currently stands for -/
theorem abs_setP {s : State K V} (h : SeqInv s) (e : EId) (p : P V) (he : e < s.entries.length) (k : K) :
    abs (setP s e p) k = if cur s k = some e then pval p else abs s k := by
  unfold abs
  rw [cur_setP]
  cases hc : cur s k with
  | none => simp
  | some e' =>
    simp only [Option.bind_some, loadEntry_setP s e e' p he]
    by_cases h1 : e' = e
    · simp [h1]
    · simp [h1]

theorem abs_setP_cur {s : State K V} (h : SeqInv s) {k : K} {e : EId} (hk : cur s k = some e) (p : P V) (k' : K) :
    abs (setP s e p) k' = if k' = k then pval p else abs s k' := by
  rw [abs_setP h e p (h.cur_lt hk)]
  by_cases h1 : k' = k
  · subst h1; simp [hk]
  · have : ¬ cur s k' = some e := fun h2 => h1 (h.cur_inj h2 hk)
    simp [h1, this]

/-- writing an entry that stands for no key leaves the abstraction alone -/
theorem abs_setP_unref {s : State K V} (h : SeqInv s) (e : EId) (p : P V)
    (hun : ∀ k, cur s k ≠ some e) (k : K) : abs (setP s e p) k = abs s k := by
  by_cases he : e < s.entries.length
  · rw [abs_setP h e p he]; simp [hun k]
  · have : setP s e p = s := by
      unfold setP
      have : s.entries.set e p = s.entries := List.set_eq_of_length_le (Nat.le_of_not_lt he)
      rw [this]
    rw [this]

/-- `setP` preserves the invariant when a read entry stays non-expunged and a dirty-only entry stays live -/
theorem SeqInv.setP_ok {s : State K V} (h : SeqInv s) (e : EId) (p : P V)
    (hr : ∀ k, rd s k = some e → p ≠ .expunged ∧ getP s e ≠ .expunged)
    (hdo : ∀ k, rd s k = none → dt s k = some e → ∃ v, p = .val v) : SeqInv (setP s e p) := by
  by_cases he : e < s.entries.length
  case neg =>
    have : setP s e p = s := by
      unfold Model.SyncMap.setP
      have : s.entries.set e p = s.entries := List.set_eq_of_length_le (Nat.le_of_not_lt he)
      rw [this]
    rw [this]; exact h
  refine
    { nofault := h.nofault, readNodup := h.readNodup, dirtyNodup := h.dirtyNodup,
      readRange := ?_, dirtyRange := ?_, s1 := h.s1, s2 := ?_, s3 := ?_, s4 := h.s4, s5 := ?_, s6 := h.s6, s7 := h.s7 }
  · intro k e' hk; rw [setP_length]; exact h.readRange k e' hk
  · intro k e' hk; rw [setP_length]; exact h.dirtyRange k e' hk
  · intro hd k e' hk
    simp only [rd_setP, dt_setP, setP_dirty] at hd hk ⊢
    rw [getP_setP s e e' p he]
    by_cases h1 : e' = e
    · subst h1
      simp only [if_true]
      have := hr k hk
      exact ⟨fun _ => (h.s2 hd k e' hk).1 this.2, fun hx => absurd hx this.1⟩
    · simp only [h1, if_false]; exact h.s2 hd k e' hk
  · intro hd k e' hk
    simp only [rd_setP, setP_dirty] at hd hk
    rw [getP_setP s e e' p he]
    by_cases h1 : e' = e
    · subst h1; simp only [if_true]; exact (hr k hk).1
    · simp only [h1, if_false]; exact h.s3 hd k e' hk
  · intro k e' hk hk'
    simp only [rd_setP, dt_setP] at hk hk'
    rw [getP_setP s e e' p he]
    by_cases h1 : e' = e
    · subst h1; simp only [if_true]; exact hdo k hk hk'
    · simp only [h1, if_false]; exact h.s5 k e' hk hk'

end TypVerif.Lemmas.SyncMap
