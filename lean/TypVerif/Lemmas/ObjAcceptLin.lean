import TypVerif.Lemmas.ObjAccept
import TypVerif.Drv.ObjLin
/-
Soundness of the folds the ObjLin judge (`Drv.ObjLin.step`) performs on its atomic-object state sets, for histories of
SINGLE operations: `ms` in map mode (`cmap`; load / store / loadorstore / loadanddelete / delete) and the `s` components of
`cs` in set mode (`cset`; add / remove / has).

`MapLine toks oe` / `SetLine toks oe` describe the lines covered: `oe = some e` — the line stands for the event `e` of the
history; `oe = none` — the line is read by the judge without touching the state set (map mode: `inv range`, the Range
result `res t [[k,v],…]`, `step`/`iter` lines of step-level traces; set mode: `step`/`iter`, and `inv t len` / `res t <int>`:
Len is a Range count, the judge only checks `≥ 0`).
`Lines P lines tr`: every line of `lines` is covered, `tr` is the history they stand for.

Left out: set mode's composite operations (`addset`, `removeset`: expansion into element operations in `compClosure`) — a
history containing such a line is not covered by `SetLine`; `len` lines are covered but skipped (not part of the history); the Range predicates of map mode are not part of the
linearizability statement (the Range lines are skipped: the statement is about the history of the single operations).
-/
namespace TypVerif.Lemmas.ObjAcceptLin
open TypVerif TypVerif.Conc TypVerif.Model TypVerif.Proto TypVerif.Drv.ObjLin TypVerif.Lemmas.ObjAccept

abbrev MEvent := AtomicObj.Event MapObj.Op MapObj.Res
abbrev SEvent := AtomicObj.Event MapObj.SOp Bool

/-- the judge's `stepObj` is the generic one with fuel 24 -/
theorem stepObj_eq (S : AtomicObj.Spec) [DecidableEq S.σ] [DecidableEq S.Op] [DecidableEq S.Res] (n : Nat)
    (ss : List (AtomicObj.State S.σ S.Op S.Res)) (e : AtomicObj.Event S.Op S.Res) :
    Drv.ObjLin.stepObj S n ss e = stepObjF S Drv.ObjLin.closureFuel n ss e := rfl

/-- the judge state after the lines `lines` -/
def runLines (j : JSt) (lines : List (List Val × String)) : JSt :=
  lines.foldl (fun j l => (step j l.1 l.2).1) j

/-- `lines` are all covered by `P`; `tr` is the list of the events they stand for -/
inductive Lines {E : Type} (P : List Val → Option E → Prop) : List (List Val × String) → List E → Prop where
  | nil : Lines P [] []
  | ev {l : List Val × String} {ls : List (List Val × String)} {e : E} {tr : List E} :
      P l.1 (some e) → Lines P ls tr → Lines P (l :: ls) (e :: tr)
  | skip {l : List Val × String} {ls : List (List Val × String)} {tr : List E} :
      P l.1 none → Lines P ls tr → Lines P (l :: ls) tr

theorem ne_nil_of_isEmpty {α : Type} {l : List α} (h : l.isEmpty = false) : l ≠ [] := by
  intro h0
  rw [h0] at h
  cases h

theorem fin_viol {v w : Option String}
    (h : (match v with | some x => some x | none => w) = none) : v = none ∧ w = none := by
  cases v <;> simp_all

theorem ite_none {b : Bool} (h : (if b = true then some "not-linearizable" else none) = none) : b = false := by
  cases b <;> simp_all

theorem finish_fst (st : St) (v : Option String) (tags : List String) :
    (finish st v tags).1 = { st with violated := match st.violated with | some w => some w | none => v } := rfl

/-! ### map mode -/

inductive MapLine : List Val → Option MEvent → Prop where
  | inv (toks : List Val) (t : Nat) (op : MapObj.Op) :
      parseMapInv toks = some (t, op) → MapLine toks (some (.inv t op))
  | resDone (t : Int) : MapLine [.w "res", .i t, .w "done"] (some (.res t.toNat .done))
  | resVal (t v : Int) (b : String) :
      MapLine [.w "res", .i t, .i v, .w b] (some (.res t.toNat (.val v (b == "true"))))
  | rangeInv (t : Int) : MapLine [.w "inv", .i t, .w "range"] none
  | rangeRes (t : Int) (pairs : List Val) : MapLine [.w "res", .i t, .l pairs] none
  | stepLine (a b : Val) : MapLine [.w "step", a, b] none
  | iterLine (a b : Val) : MapLine [.w "iter", a, b] none

/-- what a covered line does to the part of the judge state the theorem is about -/
def StepOK (st st' : St) (oe : Option MEvent) : Prop :=
  st'.mode = st.mode ∧
  (st'.violated = none → st.violated = none ∧
    (match oe with
     | some e => (∃ n, st'.ms = stepObj MapObj.mapSpec n st.ms e) ∧ st'.ms ≠ []
     | none => st'.ms = st.ms))

theorem stepOK_event (st st' : St) (e : MEvent) (n : Nat) (hm : st'.mode = st.mode)
    (hms : st'.ms = stepObj MapObj.mapSpec n st.ms e)
    (hv : st'.violated = (match st.violated with
      | some w => some w
      | none => if st'.ms.isEmpty = true then some "not-linearizable" else none)) : StepOK st st' (some e) := by
  refine ⟨hm, fun h => ?_⟩
  rw [h, eq_comm] at hv
  obtain ⟨h1, h2⟩ := fin_viol hv
  exact ⟨h1, ⟨n, hms⟩, ne_nil_of_isEmpty (ite_none h2)⟩

theorem stepOK_noop (st st' : St) (w : Option String) (hm : st'.mode = st.mode) (hms : st'.ms = st.ms)
    (hv : st'.violated = (match st.violated with | some x => some x | none => w)) : StepOK st st' none := by
  refine ⟨hm, fun h => ?_⟩
  rw [h, eq_comm] at hv
  exact ⟨(fin_viol hv).1, hms⟩

theorem stepOK_refl (st : St) : StepOK st st none := ⟨rfl, fun h => ⟨h, rfl⟩⟩

theorem stepMap_ok (st : St) (toks : List Val) (oe : Option MEvent) (h : MapLine toks oe) :
    StepOK st (stepMap st toks).1 oe := by
  cases h with
  | inv _ t op hp =>
    unfold stepMap
    simp only [hp, finish_fst]
    exact stepOK_event _ _ _ (max st.n (t + 1)) rfl rfl rfl
  | resDone t =>
    have hp : parseMapInv [.w "res", .i t, .w "done"] = none := by simp [parseMapInv]
    unfold stepMap
    simp only [hp, finish_fst]
    exact stepOK_event _ _ _ st.n rfl rfl rfl
  | resVal t v b =>
    have hp : parseMapInv [.w "res", .i t, .i v, .w b] = none := by simp [parseMapInv]
    unfold stepMap
    simp only [hp, finish_fst]
    exact stepOK_event _ _ _ st.n rfl rfl rfl
  | rangeInv t =>
    have hp : parseMapInv [.w "inv", .i t, .w "range"] = none := by simp [parseMapInv]
    unfold stepMap
    simp only [hp, finish_fst]
    exact stepOK_noop _ _ none rfl rfl rfl
  | rangeRes t pairs =>
    have hp : parseMapInv [.w "res", .i t, .l pairs] = none := by simp [parseMapInv]
    unfold stepMap
    simp only [hp]
    split
    · rw [finish_fst]; exact stepOK_noop _ _ _ rfl rfl rfl
    · rw [finish_fst]; exact stepOK_noop _ _ _ rfl rfl rfl
  | stepLine a b =>
    have hp : parseMapInv [.w "step", a, b] = none := by simp [parseMapInv]
    unfold stepMap
    simp only [hp]
    exact stepOK_refl st
  | iterLine a b =>
    have hp : parseMapInv [.w "iter", a, b] = none := by simp [parseMapInv]
    unfold stepMap
    simp only [hp]
    exact stepOK_refl st

theorem mapLine_not_header {toks : List Val} {oe : Option MEvent} (h : MapLine toks oe) :
    toks ≠ [.w "cmap"] ∧ toks ≠ [.w "cset"] := by
  cases h with
  | inv _ t op hp =>
    constructor
    · intro h0; rw [h0] at hp; simp [parseMapInv] at hp
    · intro h0; rw [h0] at hp; simp [parseMapInv] at hp
  | _ => constructor <;> (intro h0; simp at h0)

/-- in map mode `Drv.ObjLin.step` is `stepMap` on the `st` component -/
theorem step_map (j : JSt) (toks : List Val) (impl : String) (oe : Option MEvent) (hmode : j.st.mode = 1)
    (h : MapLine toks oe) : (step j toks impl).1.st = (stepMap j.st toks).1 := by
  obtain ⟨h1, h2⟩ := mapLine_not_header h
  unfold step
  split
  · exact absurd rfl h1
  · exact absurd rfl h2
  · simp [hmode]

/-- relation between the judge state (map mode) and the history `tr` read so far -/
def MRel (tr : List MEvent) (j : JSt) : Prop :=
  j.st.mode = 1 ∧ (j.st.violated = none → Acc MapObj.mapSpec tr j.st.ms ∧ j.st.ms ≠ [])

theorem mRel_header (j0 : JSt) (impl0 : String) : MRel [] (step j0 [.w "cmap"] impl0).1 := by
  refine ⟨rfl, fun _ => ⟨acc_init MapObj.mapSpec 0, ?_⟩⟩
  intro h; cases h

theorem mRel_step (tr : List MEvent) (j : JSt) (toks : List Val) (impl : String) (oe : Option MEvent)
    (hl : MapLine toks oe) (h : MRel tr j) :
    MRel (match oe with | some e => tr ++ [e] | none => tr) (step j toks impl).1 := by
  obtain ⟨hmode, hA⟩ := h
  have hst := step_map j toks impl oe hmode hl
  obtain ⟨hm, hok⟩ := stepMap_ok j.st toks oe hl
  rw [← hst] at hm hok
  refine ⟨hm.trans hmode, fun hv => ?_⟩
  obtain ⟨hv0, hcase⟩ := hok hv
  obtain ⟨hacc, hne⟩ := hA hv0
  cases oe with
  | some e =>
    obtain ⟨⟨n, hms⟩, hne'⟩ := hcase
    refine ⟨?_, hne'⟩
    rw [hms]
    exact acc_step MapObj.mapSpec Drv.ObjLin.closureFuel n hacc e
  | none =>
    simp only at hcase ⊢
    rw [hcase]
    exact ⟨hacc, hne⟩

theorem runLines_mRel (lines : List (List Val × String)) (tr : List MEvent) (hl : Lines MapLine lines tr) :
    ∀ (tr0 : List MEvent) (j : JSt), MRel tr0 j → MRel (tr0 ++ tr) (runLines j lines) := by
  induction hl with
  | nil => intro tr0 j h; simpa [runLines] using h
  | @ev l ls e tr hP _ ih =>
    intro tr0 j h
    have := ih (tr0 ++ [e]) _ (mRel_step tr0 j l.1 l.2 (some e) hP h)
    simpa [runLines] using this
  | @skip l ls tr hP _ ih =>
    intro tr0 j h
    have := ih tr0 _ (mRel_step tr0 j l.1 l.2 none hP h)
    simpa [runLines] using this

/-- **map mode**: after the header `cmap` and covered lines standing for the history `tr` of single operations, a judge
that has reported no violation has read the visible trace of an execution of `AtomicObj.sys MapObj.mapSpec` -/
theorem map_accept_sound (j0 : JSt) (impl0 : String) (lines : List (List Val × String)) (tr : List MEvent)
    (hl : Lines MapLine lines tr) (hok : (runLines (step j0 [.w "cmap"] impl0).1 lines).st.violated = none) :
    ∃ (N : Nat) (menu : List MapObj.Op) (ls : List (Option MEvent)) (s : MSt),
      Exec (AtomicObj.sys MapObj.mapSpec menu N) (AtomicObj.sys MapObj.mapSpec menu N).init ls s ∧ visible ls = tr := by
  have h := runLines_mRel lines tr hl [] _ (mRel_header j0 impl0)
  rw [List.nil_append] at h
  exact acc_nonempty MapObj.mapSpec (h.2 hok).1 (h.2 hok).2

/-! ### set mode -/

/-- the operation the judge reads from `inv t <op> v` -/
def sopOf (op : String) (v : Int) : MapObj.SOp :=
  if op == "add" then .add v else if op == "remove" then .remove v else .has v

inductive SetLine : List Val → Option SEvent → Prop where
  | inv (t : Int) (op : String) (rest : List Val) (v : Int) :
      (op = "add" ∨ op = "remove" ∨ op = "has") → rest.filterMap Val.int? = [v] →
      SetLine (.w "inv" :: .i t :: .w op :: rest) (some (.inv t.toNat (sopOf op v)))
  | res (t : Int) (b : String) : (b = "true" ∨ b = "false") →
      SetLine [.w "res", .i t, .w b] (some (.res t.toNat (b == "true")))
  | lenInv (t : Int) (rest : List Val) : rest.filterMap Val.int? = [] →
      SetLine (.w "inv" :: .i t :: .w "len" :: rest) none
  | lenRes (t c : Int) : SetLine [.w "res", .i t, .i c] none
  | stepLine (a b : Val) : SetLine [.w "step", a, b] none
  | iterLine (a b : Val) : SetLine [.w "iter", a, b] none

/-- the only pending multi-element calls are `len` calls (no `addset` / `removeset` line has been read) -/
def OnlyLen (st : St) : Prop := ∀ m ∈ st.multi, m.2.1 = "len"

/-- no composite operation is in progress, and every set state is accounted for -/
def CRel (tr : List SEvent) (cs : List CSt) : Prop :=
  ∀ c ∈ cs, c.prog = [] ∧ Acc MapObj.setSpec tr [c.s]

/-- without composites in progress `compClosure` adds nothing -/
theorem compClosure_sub (n : Nat) (fuel : Nat) : ∀ (cs : List CSt), (∀ c ∈ cs, c.prog = []) →
    ∀ c ∈ compClosure n fuel cs, c ∈ cs := by
  induction fuel with
  | zero => intro cs _ c h; exact h
  | succ fuel ih =>
    intro cs hp c h
    unfold compClosure at h
    simp only at h
    have hsub : ∀ x ∈ Conc.dedup (cs ++ cs.flatMap (fun c =>
        c.prog.flatMap (fun (t, ops, k) =>
          match ops with
          | [] => []
          | op :: rest =>
            let s1 := stepObj MapObj.setSpec n [c.s] (.inv t op)
            let upd (k' : Nat) (s' : SSt) : CSt :=
              { s := s', prog := c.prog.map (fun p => if p.1 == t then (t, rest, k') else p) }
            (stepObj MapObj.setSpec n s1 (.res t true)).map (upd (k + 1)) ++
            (stepObj MapObj.setSpec n s1 (.res t false)).map (upd k)))), x ∈ cs := by
      intro x hx
      rcases List.mem_append.1 (mem_of_mem_dedup hx) with hx | hx
      · exact hx
      · obtain ⟨c0, hc0, hx⟩ := List.mem_flatMap.1 hx
        rw [hp c0 hc0] at hx
        simp at hx
    split at h
    · exact h
    · exact hsub c (ih _ (fun x hx => hp x (hsub x hx)) c h)

theorem liftStep_crel (n : Nat) (tr : List SEvent) (cs : List CSt) (e : SEvent) (h : CRel tr cs) :
    CRel (tr ++ [e]) (liftStep n cs e) := by
  have hprog : ∀ c ∈ cs, c.prog = [] := fun c hc => (h c hc).1
  intro c' hc'
  unfold liftStep at hc'
  simp only at hc'
  -- members of the flatMap
  have hout : ∀ x ∈ (compClosure n 16 cs).flatMap (fun c =>
      (stepObj MapObj.setSpec n [c.s] e).map (fun s' => { c with s := s' })),
      x.prog = [] ∧ Acc MapObj.setSpec (tr ++ [e]) [x.s] := by
    intro x hx
    obtain ⟨c, hc, hx⟩ := List.mem_flatMap.1 hx
    obtain ⟨s', hs', rfl⟩ := List.mem_map.1 hx
    have hc := compClosure_sub n 16 cs hprog c hc
    refine ⟨(h c hc).1, ?_⟩
    have hacc := acc_step MapObj.setSpec Drv.ObjLin.closureFuel n (h c hc).2 e
    intro s hs
    rw [List.mem_singleton.1 hs]
    exact hacc s' hs'
  have hded : ∀ x ∈ Conc.dedup ((compClosure n 16 cs).flatMap (fun c =>
      (stepObj MapObj.setSpec n [c.s] e).map (fun s' => { c with s := s' }))),
      x.prog = [] ∧ Acc MapObj.setSpec (tr ++ [e]) [x.s] :=
    fun x hx => hout x (mem_of_mem_dedup hx)
  exact hded c' (compClosure_sub n 16 _ (fun x hx => (hded x hx).1) c' hc')

def StepOKS (st : St) (cs : List CSt) (r : St × List CSt × Out) (oe : Option SEvent) : Prop :=
  OnlyLen st → r.1.mode = st.mode ∧ OnlyLen r.1 ∧
  (r.1.violated = none → st.violated = none ∧
    (match oe with
     | some e => (∃ n, r.2.1 = liftStep n cs e) ∧ r.2.1 ≠ []
     | none => r.2.1 = cs))

theorem stepOKS_event (st st1 : St) (cs cs' : List CSt) (o : Out) (e : SEvent) (n : Nat) (tags : List String)
    (hm : st1.mode = st.mode) (hv1 : st1.violated = st.violated) (hmu : st1.multi = st.multi)
    (hcs : cs' = liftStep n cs e) :
    StepOKS st cs ((finish st1 (if cs'.isEmpty = true then some "not-linearizable" else none) tags).1, cs', o)
      (some e) := by
  intro hol
  refine ⟨hm, (by intro m hm; exact hol m (by rw [← hmu]; exact hm)), fun h => ?_⟩
  rw [finish_fst] at h
  simp only [hv1] at h
  obtain ⟨h1, h2⟩ := fin_viol h
  exact ⟨h1, ⟨n, hcs⟩, ne_nil_of_isEmpty (ite_none h2)⟩

theorem stepSet_ok (st : St) (cs : List CSt) (toks : List Val) (oe : Option SEvent) (h : SetLine toks oe) :
    StepOKS st cs (stepSet st cs toks) oe := by
  cases h with
  | inv t op rest v hop hvs =>
    have hc : ((op == "add" || op == "remove" || op == "has") && (rest.filterMap Val.int?).length == 1) = true := by
      rw [hvs]
      rcases hop with rfl | rfl | rfl <;> first | rfl | simp
    unfold stepSet
    simp only [hc, if_true]
    refine stepOKS_event st _ cs _ _ _ (max st.n (t.toNat + 1)) _ rfl rfl rfl ?_
    rw [hvs]
    rfl
  | res t b hb =>
    have hc : (b == "true" || b == "false") = true := by
      rcases hb with rfl | rfl <;> decide
    unfold stepSet
    simp only [hc, if_true]
    exact stepOKS_event st _ cs _ _ _ st.n _ rfl rfl rfl rfl
  | lenInv t rest hvs =>
    unfold stepSet
    simp only [hvs]
    intro hol
    refine ⟨rfl, ?_, fun h => ?_⟩
    · intro m hm
      have hm : m ∈ (t.toNat, "len", [], 0) :: st.multi := hm
      rcases List.mem_cons.1 hm with rfl | hm
      · rfl
      · exact hol m hm
    · rw [finish_fst] at h
      exact ⟨(fin_viol h).1, rfl⟩
  | lenRes t c =>
    unfold stepSet
    simp only
    intro hol
    split
    · exact ⟨rfl, hol, fun h => ⟨h, rfl⟩⟩
    · rename_i x kind y z heq
      have hk : kind = "len" := hol _ (List.mem_of_find?_eq_some heq)
      subst hk
      simp only [beq_self_eq_true, if_true]
      refine ⟨rfl, ?_, fun h => ?_⟩
      · intro m hm
        have hm : m ∈ st.multi.filter (fun x => x.1 != t.toNat) := hm
        exact hol m (List.mem_filter.1 hm).1
      · rw [finish_fst] at h
        exact ⟨(fin_viol h).1, by first | trivial | rfl⟩
  | stepLine a b =>
    unfold stepSet
    exact fun hol => ⟨rfl, hol, fun h => ⟨h, rfl⟩⟩
  | iterLine a b =>
    unfold stepSet
    exact fun hol => ⟨rfl, hol, fun h => ⟨h, rfl⟩⟩

theorem setLine_not_header {toks : List Val} {oe : Option SEvent} (h : SetLine toks oe) :
    toks ≠ [.w "cmap"] ∧ toks ≠ [.w "cset"] := by
  cases h <;> constructor <;> (intro h0; simp at h0)

/-- in set mode `Drv.ObjLin.step` is `stepSet` on the `st` and `cs` components -/
theorem step_set (j : JSt) (toks : List Val) (impl : String) (oe : Option SEvent) (hmode : j.st.mode = 2)
    (h : SetLine toks oe) :
    (step j toks impl).1.st = (stepSet j.st j.cs toks).1 ∧ (step j toks impl).1.cs = (stepSet j.st j.cs toks).2.1 := by
  obtain ⟨h1, h2⟩ := setLine_not_header h
  unfold step
  split
  · exact absurd rfl h1
  · exact absurd rfl h2
  · simp [hmode]

/-- relation between the judge state (set mode) and the history `tr` read so far -/
def SRel (tr : List SEvent) (j : JSt) : Prop :=
  j.st.mode = 2 ∧ OnlyLen j.st ∧ (j.st.violated = none → CRel tr j.cs ∧ j.cs ≠ [])

theorem sRel_header (j0 : JSt) (impl0 : String) : SRel [] (step j0 [.w "cset"] impl0).1 := by
  refine ⟨rfl, (by intro m hm; cases hm), fun _ => ⟨?_, ?_⟩⟩
  · intro c hc
    have hc : c ∈ [({ s := AtomicObj.init MapObj.setSpec 0, prog := [] } : CSt)] := hc
    rw [List.mem_singleton.1 hc]
    exact ⟨rfl, acc_init MapObj.setSpec 0⟩
  · intro h; cases h

theorem sRel_step (tr : List SEvent) (j : JSt) (toks : List Val) (impl : String) (oe : Option SEvent)
    (hl : SetLine toks oe) (h : SRel tr j) :
    SRel (match oe with | some e => tr ++ [e] | none => tr) (step j toks impl).1 := by
  obtain ⟨hmode, hol, hA⟩ := h
  obtain ⟨hst, hcs⟩ := step_set j toks impl oe hmode hl
  obtain ⟨hm, hol', hok⟩ := stepSet_ok j.st j.cs toks oe hl hol
  rw [← hst] at hm hok hol'
  rw [← hcs] at hok
  refine ⟨hm.trans hmode, hol', fun hv => ?_⟩
  obtain ⟨hv0, hcase⟩ := hok hv
  obtain ⟨hacc, hne⟩ := hA hv0
  cases oe with
  | some e =>
    obtain ⟨⟨n, hms⟩, hne'⟩ := hcase
    refine ⟨?_, hne'⟩
    rw [hms]
    exact liftStep_crel n tr j.cs e hacc
  | none =>
    simp only at hcase ⊢
    rw [hcase]
    exact ⟨hacc, hne⟩

theorem runLines_sRel (lines : List (List Val × String)) (tr : List SEvent) (hl : Lines SetLine lines tr) :
    ∀ (tr0 : List SEvent) (j : JSt), SRel tr0 j → SRel (tr0 ++ tr) (runLines j lines) := by
  induction hl with
  | nil => intro tr0 j h; simpa [runLines] using h
  | @ev l ls e tr hP _ ih =>
    intro tr0 j h
    have := ih (tr0 ++ [e]) _ (sRel_step tr0 j l.1 l.2 (some e) hP h)
    simpa [runLines] using this
  | @skip l ls tr hP _ ih =>
    intro tr0 j h
    have := ih tr0 _ (sRel_step tr0 j l.1 l.2 none hP h)
    simpa [runLines] using this

/-- **set mode**: after the header `cset` and covered lines standing for the history `tr` of single operations, a judge
that has reported no violation has read the visible trace of an execution of `AtomicObj.sys MapObj.setSpec` -/
theorem set_accept_sound (j0 : JSt) (impl0 : String) (lines : List (List Val × String)) (tr : List SEvent)
    (hl : Lines SetLine lines tr) (hok : (runLines (step j0 [.w "cset"] impl0).1 lines).st.violated = none) :
    ∃ (N : Nat) (menu : List MapObj.SOp) (ls : List (Option SEvent)) (s : SSt),
      Exec (AtomicObj.sys MapObj.setSpec menu N) (AtomicObj.sys MapObj.setSpec menu N).init ls s ∧ visible ls = tr := by
  have h := runLines_sRel lines tr hl [] _ (sRel_header j0 impl0)
  rw [List.nil_append] at h
  obtain ⟨hcr, hne⟩ := h.2.2 hok
  cases hcs : (runLines (step j0 [.w "cset"] impl0).1 lines).cs with
  | nil => exact absurd hcs hne
  | cons c rest =>
    have := (hcr c (by rw [hcs]; exact List.mem_cons_self)).2
    exact acc_nonempty MapObj.setSpec this (by intro h0; cases h0)

end TypVerif.Lemmas.ObjAcceptLin
