import TypVerif.Lemmas.PubSubSafeWriter
/-
`Safe` is an inductive invariant of the system without clones.
-/
namespace TypVerif.Lemmas.PubSubSafe
open TypVerif TypVerif.Model.PubSub

theorem safe_pids {s : State} (hs : Safe s) (x : List Nat) : Safe { s with pids := x } :=
  ⟨hs.objs1, hs.obj0, hs.readers, hs.opn, hs.nodup, hs.exist, hs.targ, hs.wgc, hs.wgw, hs.nopanic⟩

theorem safe_exited {s : State} (hs : Safe s) (x : Bool) : Safe { s with exited := x } :=
  ⟨hs.objs1, hs.obj0, hs.readers, hs.opn, hs.nodup, hs.exist, hs.targ, hs.wgc, hs.wgw, hs.nopanic⟩

theorem safe_chans {s : State} (hs : Safe s) (cs' : List ChanSt)
    (hcl : ∀ c, isClosed cs' c = isClosed s.chans c) (hex : ∀ c, hasChan s.chans c = true → hasChan cs' c = true) :
    Safe { s with chans := cs' } :=
  ⟨hs.objs1, hs.obj0, hs.readers, fun c hc => (hcl c).trans (hs.opn c hc), hs.nodup,
   fun c hc => hex c (hs.exist c hc), hs.targ, hs.wgc, hs.wgw, hs.nopanic⟩

theorem safe_updChan {s : State} (hs : Safe s) (c : Chan) (f : ChanSt → ChanSt)
    (hid : ∀ ch, (f ch).id = ch.id) (hcl : ∀ ch, (f ch).closed = ch.closed) :
    Safe { s with chans := updChan s.chans c f } :=
  safe_chans hs _ (fun c' => isClosed_updChan _ _ _ _ hid hcl) (fun c' h => by rw [hasChan_updChan _ _ _ _ hid]; exact h)

theorem safe_recvSteps {s s' : State} {ch : ChanSt} {l : Option Event} (hs : Safe s)
    (h : (l, s') ∈ recvSteps s ch) : Safe s' := by
  unfold recvSteps at h
  split at h
  · simp at h
  · split at h
    · simp only [List.mem_singleton, Prod.mk.injEq] at h
      obtain ⟨_, rfl⟩ := h
      exact safe_updChan hs _ _ (fun _ => rfl) (fun _ => rfl)
    · split at h
      · simp at h
      · split at h
        · simp only [List.mem_singleton, Prod.mk.injEq] at h
          obtain ⟨_, rfl⟩ := h
          exact safe_updChan hs _ _ (fun _ => rfl) (fun _ => rfl)
        · split at h
          · simp only [List.mem_singleton, Prod.mk.injEq] at h
            obtain ⟨_, rfl⟩ := h
            exact safe_updChan hs _ _ (fun _ => rfl) (fun _ => rfl)
          · simp at h

theorem validObj_zero {s : State} (hs : Safe s) {o : Nat} (h : s.validObj o = true) : o = 0 := by
  simp [State.validObj, hs.objs1] at h
  omega


theorem safe_spawn1 {s : State} (t : Task) (hs : Safe s) (hobj : objOk t) (hr : holdsRead t = false)
    (htarg : targets t = []) (hwg : ∀ w, isWgSend w t = false) : Safe (s.spawn [t]) := by
  refine safe_spawn [t] hs ?_ ?_ ?_ ?_ <;>
  · intro x hx
    simp only [List.mem_singleton] at hx
    subst hx
    assumption

theorem safe_envStep {cfg : Cfg} {s s' : State} {e : Event} (hc : cfg.allowClone = false) (hs : Safe s)
    (h : envStep cfg s e = some s') : Safe s' := by
  cases e with
  | sub c cap =>
    simp only [envStep] at h
    split at h
    · cases h
    · injection h with h; subst h
      exact safe_spawn1 _ hs rfl rfl rfl (fun _ => rfl)
  | mkchan c =>
    simp only [envStep] at h
    split at h
    · cases h
    · injection h with h; subst h
      exact safe_chans hs _ (fun c' => isClosed_append_open _ _ _ rfl)
        (fun c' h => by rw [hasChan_append]; simp [h])
  | withonly w via c => simp [envStep, hc] at h
  | pubinv p via v evs =>
    simp only [envStep] at h
    split at h
    · cases h
    · rename_i hg
      injection h with h; subst h
      have hv : s.validObj via = true := by
        simp only [Bool.or_eq_true, not_or, Bool.not_eq_true, Bool.not_eq_false'] at hg
        simpa using hg.2
      have := validObj_zero hs hv
      subst this
      exact safe_spawn1 _ (safe_pids hs _) rfl rfl rfl (fun _ => rfl)
  | allow c n =>
    simp only [envStep] at h
    split at h
    · injection h with h; subst h
      exact safe_updChan hs _ _ (fun _ => rfl) (fun _ => rfl)
    · cases h
  | unsubinv u via c =>
    simp only [envStep] at h
    split at h
    · rename_i hv
      injection h with h; subst h
      have := validObj_zero hs hv
      subst this
      exact safe_spawn1 _ hs rfl rfl rfl (fun _ => rfl)
    · cases h
  | unsuballinv u via =>
    simp only [envStep] at h
    split at h
    · rename_i hv
      injection h with h; subst h
      have := validObj_zero hs hv
      subst this
      exact safe_spawn1 _ hs rfl rfl rfl (fun _ => rfl)
    · cases h
  | _ => simp [envStep] at h


theorem safe_stepTask {cfg : Cfg} {s s' : State} {i : Nat} {t : Task} {l : Option Event} (hs : Safe s)
    (hi : s.tasks[i]? = some t) (h : (l, s') ∈ stepTask cfg s i t) : Safe s' := by
  have hobj : objOk t := hs.obj0 t (List.mem_of_getElem? hi)
  cases t with
  | pubStart p o v evs => cases hobj; exact safe_stepPubStart hs hi h
  | syncLoop p o work cb => cases hobj; exact safe_stepSyncLoop hs hi h
  | waitWg p o w => cases hobj; exact safe_stepWaitWg hs hi h
  | pubRet p =>
    simp only [stepTask, List.mem_singleton, Prod.mk.injEq] at h
    obtain ⟨_, rfl⟩ := h
    exact safe_setTask_inert hs hi rfl rfl (fun _ => rfl) (fun _ => rfl) (fun _ => rfl) trivial rfl
  | asyncStart o it => cases hobj; exact safe_stepAsyncStart hs hi h
  | asyncSend o it cb => cases hobj; exact safe_stepAsyncSend hs hi h
  | wgSend o w it cb => cases hobj; exact safe_stepWgSend hs hi h
  | subStart o c cap =>
    cases hobj
    simp only [stepTask, List.mem_singleton, Prod.mk.injEq] at h
    obtain ⟨_, rfl⟩ := h
    exact safe_announce_inert hs hi rfl rfl (fun _ => rfl) (fun _ => rfl) (fun _ => rfl) rfl rfl
  | subWait o c cap => cases hobj; exact safe_stepSubWait hs hi h
  | subRet c =>
    simp only [stepTask, List.mem_singleton, Prod.mk.injEq] at h
    obtain ⟨_, rfl⟩ := h
    exact safe_setTask_inert hs hi rfl rfl (fun _ => rfl) (fun _ => rfl) (fun _ => rfl) trivial rfl
  | unsubStart u o c =>
    cases hobj
    cases c with
    | none =>
      simp only [stepTask, List.mem_singleton, Prod.mk.injEq] at h
      obtain ⟨_, rfl⟩ := h
      exact safe_setTask_inert hs hi rfl rfl (fun _ => rfl) (fun _ => rfl) (fun _ => rfl) trivial rfl
    | some c =>
      simp only [stepTask, List.mem_singleton, Prod.mk.injEq] at h
      obtain ⟨_, rfl⟩ := h
      exact safe_announce_inert hs hi rfl rfl (fun _ => rfl) (fun _ => rfl) (fun _ => rfl) rfl rfl
  | unsubWait u o c => cases hobj; exact safe_stepUnsubWait hs hi h
  | unsubRet u code =>
    simp only [stepTask, List.mem_singleton, Prod.mk.injEq] at h
    obtain ⟨_, rfl⟩ := h
    exact safe_setTask_inert hs hi rfl rfl (fun _ => rfl) (fun _ => rfl) (fun _ => rfl) trivial rfl
  | uaStart u o =>
    cases hobj
    simp only [stepTask, List.mem_singleton, Prod.mk.injEq] at h
    obtain ⟨_, rfl⟩ := h
    exact safe_announce_inert hs hi rfl rfl (fun _ => rfl) (fun _ => rfl) (fun _ => rfl) rfl rfl
  | uaWait u o => cases hobj; exact safe_stepUaWait hs hi h
  | uaRet u =>
    simp only [stepTask, List.mem_singleton, Prod.mk.injEq] at h
    obtain ⟨_, rfl⟩ := h
    exact safe_setTask_inert hs hi rfl rfl (fun _ => rfl) (fun _ => rfl) (fun _ => rfl) trivial rfl
  | woStart w o c => exact absurd hobj (by simp [objOk])
  | done => simp [stepTask] at h

theorem safe_succ {cfg : Cfg} {s s' : State} {l : Option Event} (hc : cfg.allowClone = false) (hs : Safe s)
    (h : (l, s') ∈ succ cfg s) : Safe s' := by
  unfold succ at h
  split at h
  · simp at h
  · rw [hs.nopanic] at h
    simp only [List.mem_append] at h
    rcases h with ((h | h) | h) | h
    · simp only [envSteps, List.mem_filterMap] at h
      obtain ⟨e, _, he⟩ := h
      cases hes : envStep cfg s e with
      | none => simp [hes] at he
      | some s1 =>
        simp [hes] at he
        obtain ⟨_, rfl⟩ := he
        exact safe_envStep hc hs hes
    · simp only [List.mem_flatMap, List.mem_range] at h
      obtain ⟨i, _, hi⟩ := h
      unfold taskSteps at hi
      split at hi
      · simp at hi
      · rename_i t ht
        exact safe_stepTask hs ht hi
    · simp only [List.mem_flatMap] at h
      obtain ⟨ch, _, hch⟩ := h
      exact safe_recvSteps hs hch
    · simp only [exitSteps, List.mem_map] at h
      obtain ⟨r, _, hr⟩ := h
      injection hr with _ hr; subst hr
      exact safe_exited hs true

/-- in the system without clones no schedule reaches a panic -/
theorem no_panic_noClone (cfg : Cfg) (hc : cfg.allowClone = false) :
    ∀ s, Conc.Reachable (sys cfg) s → Safe s :=
  Conc.invariant (sys cfg) Safe safe_init (fun _ _ _ hs h => safe_succ hc hs h)

end TypVerif.Lemmas.PubSubSafe
