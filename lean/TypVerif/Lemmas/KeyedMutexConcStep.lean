import TypVerif.Lemmas.KeyedMutexConcInv
/-
C09 on the step-level map, layer 3: every step of the composed system preserves `Inv k` (for a menu that never applies
`ClearKey` to `k`), hence every reachable state satisfies it (`reachable_inv`).

One lemma per kind of step:
* `inv_invStep`   invocation — the map's `inv` step (`sim_step`), a fresh identity is offered;
* `inv_mapStep`   one internal step of the map component (`sim_step`);
* `inv_finish`    the map call returns — the map's `res` step (`sim_step`) fused with the method's continuation; the returned mutex
                  is the abstract map's value (`retOk_okRes`);
* `inv_hookStep`  the mutex action at the hook;
* `inv_resStep`   the response.
-/
namespace TypVerif.Lemmas.KeyedMutexConc
open TypVerif TypVerif.Conc TypVerif.Model TypVerif.Model.SyncMapConc TypVerif.Model.RelObj TypVerif.Lemmas.Smc
open TypVerif.Model.KeyedMutexConc (Phase Kind Mu MId mapOp invOk invStep afterMap retOf valOf finish mapSteps contMap
  acqW acqR hookStep getMu putMu)

set_option linter.unusedSectionVars false
set_option linter.unusedVariables false

variable {K : Type} [DecidableEq K]

theorem Inv.lt_map {k : K} {s : KState K} {a : AState K Nat} (h : Inv k s a) {t : Tid} (ht : t < s.phases.length) :
    t < s.map.pcs.length := by rw [h.len]; exact ht

/-! ### invocation -/

theorem inv_invStep {k : K} {s : KState K} {a : AState K Nat} {t : Tid} {op : KeyedMutexConc.Op K} (h : Inv k s a)
    (ht : t < s.phases.length) (hph : s.phase t = .idle) (hok : invOk s t op = true)
    (hclear : op.kind = .clear → op.key ≠ k) :
    Inv k (invStep s t op) (witness s.map t (some (.inv t (mapOp op.kind op.key s.next))) a) := by
  have hpc : s.map.pc t = .idle := (link_idle hph).mp (h.link t)
  have hsub : ∀ p ∈ s.offers, p ∈ (invStep s t op).offers := by
    intro p hp
    show p ∈ (if op.kind = .clear then s.offers else (s.next, op.key) :: s.offers)
    split
    · exact hp
    · exact List.mem_cons_of_mem _ hp
  have hmop : OkOp k (invStep s t op).offers (mapOp op.kind op.key s.next) := by
    by_cases hc : op.kind = .clear
    · rw [hc, mapOp_clear]
      exact hclear hc
    · rw [mapOp_of_ne_clear hc]
      show (s.next, op.key) ∈ (if op.kind = .clear then s.offers else (s.next, op.key) :: s.offers)
      rw [if_neg hc]
      exact List.mem_cons_self
  have hne : mapOp op.kind op.key s.next ≠ .range := by
    intro he; rw [he] at hmop; exact hmop
  have hsim := sim_step h.r (h.lt_map ht) _ _ (mem_stepT_inv (mapOp op.kind op.key s.next) hpc)
  obtain ⟨hak, hst⟩ := absKey_witness (h.ak.mono hsub) s.map t (some (.inv t (mapOp op.kind op.key s.next)))
    (fun t' op' heq => by cases heq; exact hmop)
  have hoff : OffersOk (invStep s t op) := by
    refine ⟨?_, ?_⟩
    · intro p hp
      show p.1 < s.next + 1
      have hp' : p ∈ (if op.kind = .clear then s.offers else (s.next, op.key) :: s.offers) := hp
      split at hp'
      · exact Nat.lt_succ_of_lt (h.off.lt p hp')
      · rcases List.mem_cons.mp hp' with hp' | hp'
        · rw [hp']; exact Nat.lt_succ_self _
        · exact Nat.lt_succ_of_lt (h.off.lt p hp')
    · intro m k1 k2 h1 h2
      have h1' : (m, k1) ∈ (if op.kind = .clear then s.offers else (s.next, op.key) :: s.offers) := h1
      have h2' : (m, k2) ∈ (if op.kind = .clear then s.offers else (s.next, op.key) :: s.offers) := h2
      by_cases hc : op.kind = .clear
      · rw [if_pos hc] at h1' h2'
        exact h.off.func m k1 k2 h1' h2'
      · rw [if_neg hc] at h1' h2'
        rcases List.mem_cons.mp h1' with h1' | h1'
        · rcases List.mem_cons.mp h2' with h2' | h2'
          · cases h1'; cases h2'; rfl
          · cases h1'
            exact absurd (h.off.lt _ h2') (Nat.lt_irrefl _)
        · rcases List.mem_cons.mp h2' with h2' | h2'
          · cases h2'
            exact absurd (h.off.lt _ h1') (Nat.lt_irrefl _)
          · exact h.off.func m k1 k2 h1' h2'
  refine ⟨?_, hsim.2, hak, hoff, ?_, ?_⟩
  · show (s.map.pcs.set t _).length = (s.phases.set t _).length
    rw [List.length_set, List.length_set]; exact h.len
  · intro u
    by_cases hu : u = t
    · subst hu
      have hph' : (invStep s u op).phase u = .inMap op.kind op.key := phase_of_set_self rfl ht
      rw [link_inMap hph']
      refine ⟨⟨s.next, opOf_witness_inv s.map u u a hne⟩, ?_, ?_⟩
      · intro h1 h2
        have : s.holdsW u op.key = true := by
          simp only [invOk, h1] at hok; exact hok
        rw [h2] at this
        exact holdsW_iff.mp this
      · intro h1 h2
        have : s.holdsR u op.key = true := by
          simp only [invOk, h1] at hok; exact hok
        rw [h2] at this
        exact holdsR_iff.mp this
    · exact (h.link u).other (phase_of_set_ne rfl hu) (pc_setPc_ne hu _ _) (opOf_witness_other _ _ _ _ hu) hst hsub
        (fun _ x => x) (fun _ x => x)
  · exact h.mu.abs_step rfl rfl rfl rfl hsub hoff hak hst

/-! ### a step of the map component -/

theorem inv_mapStep {k : K} {s : KState K} {a : AState K Nat} {t : Tid} {kind : Kind} {k' : K}
    {ms' : SyncMapConc.State K MId} (h : Inv k s a)
    (ht : t < s.phases.length) (hph : s.phase t = .inMap kind k') (hmem : ms' ∈ mapSteps s.map t) :
    Inv k { s with map := ms' } (witness s.map t none a) := by
  obtain ⟨sh', pc', hms⟩ := mapSteps_shape hmem
  have hsim := sim_step h.r (h.lt_map ht) _ _ (mem_stepT_of_mapSteps [] hmem)
  obtain ⟨hak, hst⟩ := absKey_witness h.ak s.map t none (fun t' op' heq => by cases heq)
  have hoff : OffersOk { s with map := ms' } := ⟨h.off.lt, h.off.func⟩
  refine ⟨?_, hsim.2, hak, hoff, ?_, ?_⟩
  · show ms'.pcs.length = s.phases.length
    rw [hms]
    show (s.map.pcs.set t _).length = _
    rw [List.length_set]; exact h.len
  · intro u
    by_cases hu : u = t
    · subst hu
      have hl := (link_inMap hph).mp (h.link u)
      have hph' : ({ s with map := ms' } : KState K).phase u = .inMap kind k' := hph
      rw [link_inMap hph', opOf_witness_none]
      exact hl
    · refine (h.link u).other rfl ?_ (opOf_witness_other _ _ _ _ hu) hst (fun _ x => x) (fun _ x => x) (fun _ x => x)
      show ms'.pc u = s.map.pc u
      rw [hms]; exact pc_setPc_ne hu _ _
  · exact h.mu.abs_step rfl rfl rfl rfl (fun _ x => x) hoff hak hst

/-! ### the map call returns -/

/-- what the map call of a `LoadOrStore`-method returns: the abstract map's value -/
theorem ret_facts {k : K} {s : KState K} {a : AState K Nat} {t : Tid} {kind : Kind} {k' : K}
    {r : SyncMapConc.Res K MId} (h : Inv k s a)
    (hph : s.phase t = .inMap kind k') (hpc : s.map.pc t = .ret r) :
    (∀ l, r ≠ .pairs l) ∧
    (kind ≠ .clear → ∃ w b, r = .pair w b ∧ (w, k') ∈ s.offers ∧ (k' = k → a.obj k = some w)) := by
  obtain ⟨⟨v, hv⟩, _, _⟩ := (link_inMap hph).mp (h.link t)
  have hT := h.r.thr t
  rw [hpc] at hT
  have hnp : ∀ l, r ≠ .pairs l := by
    intro l he
    subst he
    have hi : IsIdle (a.pcs t) := hT.1
    rw [isIdle_iff.mp hi] at hv
    cases hv
  refine ⟨hnp, ?_⟩
  intro hk
  rw [mapOp_of_ne_clear hk] at hv
  have hret : RetOk (a.pcs t) r := by
    cases r with
    | pairs l => exact absurd rfl (hnp l)
    | done => exact hT.1
    | val o => exact hT.1
    | pair w b => exact hT.1
  exact retOk_okRes h.ak hv hret

theorem inv_finish {k : K} {s : KState K} {a : AState K Nat} {t : Tid} {kind : Kind} {k' : K}
    {r : SyncMapConc.Res K MId} (h : Inv k s a)
    (ht : t < s.phases.length) (hph : s.phase t = .inMap kind k') (hpc : s.map.pc t = .ret r)
    (hclear : kind = .clear → k' ≠ k) :
    Inv k (finish { s with map := setPc s.map t s.map.sh .idle } t kind k' (valOf r))
      (witness s.map t (some (.res t r)) a) := by
  obtain ⟨hnp, hfacts⟩ := ret_facts h hph hpc
  obtain ⟨_, hlw, hlr⟩ := (link_inMap hph).mp (h.link t)
  have hsim := sim_step h.r (h.lt_map ht) _ _ (mem_stepT_res hpc)
  obtain ⟨hak, hst⟩ := absKey_witness h.ak s.map t (some (.res t r)) (fun t' op' heq => by cases heq)
  have hobj : (witness s.map t (some (.res t r)) a).obj = a.obj := witness_obj_res _ _ _ _ _
  have hop : ∀ u, u ≠ t → opOf ((witness s.map t (some (.res t r)) a).pcs u) = opOf (a.pcs u) :=
    fun u hu => opOf_witness_other _ _ _ _ hu
  have hlen : (setPc s.map t s.map.sh .idle).pcs.length = s.map.pcs.length := by
    show (s.map.pcs.set t _).length = _
    rw [List.length_set]
  have hpcs : ∀ u, u ≠ t → (setPc s.map t s.map.sh .idle).pc u = s.map.pc u := fun u hu => pc_setPc_ne hu _ _
  have hpct : (setPc s.map t s.map.sh .idle).pc t = .idle := pc_setPc_self (h.lt_map ht) _ _
  -- the simple continuations: only the phase changes
  have simple : ∀ p : Phase K, RestOk k s (witness s.map t (some (.res t r)) a) p →
      Inv k (({ s with map := setPc s.map t s.map.sh .idle } : KState K).setPhase t p)
        (witness s.map t (some (.res t r)) a) := by
    intro p hp
    refine h.frame ht hlen hsim.2 hak hst hop hpcs hpct rfl rfl rfl hp (fun _ _ _ x => x) (fun _ _ _ x => x) ?_
    exact h.mu.abs_step rfl rfl rfl rfl (fun _ x => x) ⟨h.off.lt, h.off.func⟩ hak hst
  by_cases hk : kind = .clear
  · subst hk
    rw [finish_clear]
    exact simple (.ret .done) trivial
  · obtain ⟨w, b, hr, hwo, hwk⟩ := hfacts hk
    subst hr
    show Inv k (afterMap _ t kind k' w) _
    have hatHook : Inv k (({ s with map := setPc s.map t s.map.sh .idle } : KState K).setPhase t (.atHook kind k' w))
        (witness s.map t (some (.res t (.pair w b))) a) :=
      simple (.atHook kind k' w) ⟨hwo, fun hkk => by rw [hobj]; exact hwk hkk⟩
    cases kind with
    | clear => exact absurd rfl hk
    | lock => exact hatHook
    | trylock => exact hatHook
    | rlock => exact hatHook
    | tryrlock => exact hatHook
    | unlock =>
      refine h.frame (p := .ret .done) ht hlen hsim.2 hak hst hop hpcs hpct rfl rfl rfl trivial ?_ (fun _ _ _ x => x) ?_
      · intro u hu m hm
        show (u, k, m) ∈ s.wh.erase (t, k', w)
        refine (List.mem_erase_of_ne ?_).mpr hm
        intro he; cases he; exact hu rfl
      · have hmu : MuInv k (afterMap ({ s with map := setPc s.map t s.map.sh .idle } : KState K) t .unlock k' w) a := by
          by_cases hkk : k' = k
          · subst hkk
            obtain ⟨m, hm⟩ := hlw rfl rfl
            have h1 := h.mu.wkey t m hm
            rw [hwk rfl] at h1
            have := Option.some.inj h1; subst this
            exact h.mu.relW_key hm rfl rfl rfl rfl rfl
          · refine h.mu.foreign (x := { s.mu w with writer := none }) hkk hwo h.off h.ak rfl (fun hc => absurd rfl hc)
              ?_ (fun _ _ => rfl) ?_ rfl
            · intro y hy
              show List.count y (s.wh.erase (t, k', w)) = _
              rw [List.count_erase]
              have : ¬ ((t, k', w) == y) = true := by
                intro he
                have := eq_of_beq he
                rw [← this] at hy
                exact hkk hy
              simp [this]
            · show k ∉ (if (s.mu w).writer = some t then s.faults else k' :: s.faults)
              split
              · exact h.mu.nofault
              · intro hc
                rcases List.mem_cons.mp hc with hc | hc
                · exact hkk hc.symm
                · exact h.mu.nofault hc
        exact hmu.abs_step rfl rfl rfl rfl (fun _ x => x) ⟨h.off.lt, h.off.func⟩ hak hst
    | runlock =>
      refine h.frame (p := .ret .done) ht hlen hsim.2 hak hst hop hpcs hpct rfl rfl rfl trivial (fun _ _ _ x => x) ?_ ?_
      · intro u hu m hm
        show (u, k, m) ∈ s.rh.erase (t, k', w)
        refine (List.mem_erase_of_ne ?_).mpr hm
        intro he; cases he; exact hu rfl
      · have hmu : MuInv k (afterMap ({ s with map := setPc s.map t s.map.sh .idle } : KState K) t .runlock k' w) a := by
          by_cases hkk : k' = k
          · subst hkk
            obtain ⟨m, hm⟩ := hlr rfl rfl
            have h1 := h.mu.rkey t m hm
            rw [hwk rfl] at h1
            have := Option.some.inj h1; subst this
            exact h.mu.relR_key hm rfl rfl rfl rfl rfl
          · refine h.mu.foreign (x := { s.mu w with readers := (s.mu w).readers.erase t }) hkk hwo h.off h.ak rfl ?_
              (fun _ _ => rfl) ?_ ?_ rfl
            · intro hc
              show (s.mu w).readers.erase t = []
              rw [h.mu.wr w hc]; rfl
            · intro y hy
              show List.count y (s.rh.erase (t, k', w)) = _
              rw [List.count_erase]
              have : ¬ ((t, k', w) == y) = true := by
                intro he
                have := eq_of_beq he
                rw [← this] at hy
                exact hkk hy
              simp [this]
            · show k ∉ (if t ∈ (s.mu w).readers then s.faults else k' :: s.faults)
              split
              · exact h.mu.nofault
              · intro hc
                rcases List.mem_cons.mp hc with hc | hc
                · exact hkk hc.symm
                · exact h.mu.nofault hc
        exact hmu.abs_step rfl rfl rfl rfl (fun _ x => x) ⟨h.off.lt, h.off.func⟩ hak hst

/-- one composed step of a goroutine inside its map call -/
theorem inv_contMap {k : K} {s : KState K} {a : AState K Nat} {t : Tid} {kind : Kind} {k' : K}
    {ms' : SyncMapConc.State K MId} (h : Inv k s a)
    (ht : t < s.phases.length) (hph : s.phase t = .inMap kind k') (hmem : ms' ∈ mapSteps s.map t)
    (hclear : kind = .clear → k' ≠ k) :
    ∃ a', Inv k (contMap s t kind k' ms') a' := by
  have h1 := inv_mapStep h ht hph hmem
  unfold contMap
  cases hr : retOf (ms'.pc t) with
  | none => exact ⟨_, h1⟩
  | some r =>
    have hpc : ms'.pc t = .ret r := retOf_eq_some hr
    exact ⟨_, inv_finish (s := { s with map := ms' }) h1 ht hph hpc hclear⟩

/-! ### the mutex action at the hook -/

theorem inv_acqW {k : K} {s : KState K} {a : AState K Nat} {t : Tid} {kind : Kind} {k' : K} {m : MId}
    (h : Inv k s a) (ht : t < s.phases.length) (hph : s.phase t = .atHook kind k' m) (hfree : (s.mu m).free)
    (r : KeyedMutexConc.Res) : Inv k (acqW s t k' m r) a := by
  obtain ⟨hpc, hmo, hmk⟩ := (link_atHook hph).mp (h.link t)
  refine h.frame (p := .ret r) ht rfl h.r h.ak (fun _ x => x) (fun _ _ => rfl) (fun _ _ => rfl) hpc rfl rfl rfl trivial
    ?_ (fun _ _ _ x => x) ?_
  · intro u hu m' hm'
    exact List.mem_cons_of_mem _ hm'
  · by_cases hkk : k' = k
    · subst hkk
      exact h.mu.acqW_key (hmk rfl) hfree rfl rfl rfl rfl rfl
    · refine h.mu.foreign (x := { s.mu m with writer := some t }) hkk hmo h.off h.ak rfl (fun _ => hfree.2)
        ?_ (fun _ _ => rfl) h.mu.nofault rfl
      intro y hy
      show List.count y ((t, k', m) :: s.wh) = _
      rw [List.count_cons]
      have : ¬ ((t, k', m) == y) = true := by
        intro he
        have := eq_of_beq he
        rw [← this] at hy
        exact hkk hy
      simp [this]

theorem inv_acqR {k : K} {s : KState K} {a : AState K Nat} {t : Tid} {kind : Kind} {k' : K} {m : MId}
    (h : Inv k s a) (ht : t < s.phases.length) (hph : s.phase t = .atHook kind k' m) (hfree : (s.mu m).readable)
    (r : KeyedMutexConc.Res) : Inv k (acqR s t k' m r) a := by
  obtain ⟨hpc, hmo, hmk⟩ := (link_atHook hph).mp (h.link t)
  refine h.frame (p := .ret r) ht rfl h.r h.ak (fun _ x => x) (fun _ _ => rfl) (fun _ _ => rfl) hpc rfl rfl rfl trivial
    (fun _ _ _ x => x) ?_ ?_
  · intro u hu m' hm'
    exact List.mem_cons_of_mem _ hm'
  · by_cases hkk : k' = k
    · subst hkk
      exact h.mu.acqR_key (hmk rfl) hfree rfl rfl rfl rfl rfl
    · refine h.mu.foreign (x := { s.mu m with readers := t :: (s.mu m).readers }) hkk hmo h.off h.ak rfl
        (fun hc => absurd hfree hc) (fun _ _ => rfl) ?_ h.mu.nofault rfl
      intro y hy
      show List.count y ((t, k', m) :: s.rh) = _
      rw [List.count_cons]
      have : ¬ ((t, k', m) == y) = true := by
        intro he
        have := eq_of_beq he
        rw [← this] at hy
        exact hkk hy
      simp [this]

theorem inv_setPhase_ret {k : K} {s : KState K} {a : AState K Nat} {t : Tid} (h : Inv k s a) (ht : t < s.phases.length)
    (hpc : s.map.pc t = .idle) (p : Phase K) (hp : p = .idle ∨ ∃ r, p = .ret r) : Inv k (s.setPhase t p) a := by
  refine h.frame (p := p) ht rfl h.r h.ak (fun _ x => x) (fun _ _ => rfl) (fun _ _ => rfl) hpc rfl rfl rfl ?_
    (fun _ _ _ x => x) (fun _ _ _ x => x) ?_
  · rcases hp with hp | ⟨r, hp⟩ <;> subst hp <;> trivial
  · exact h.mu.abs_step rfl rfl rfl rfl (fun _ x => x) ⟨h.off.lt, h.off.func⟩ h.ak (fun _ x => x)

theorem inv_hookStep {k : K} {s s' : KState K} {a : AState K Nat} {t : Tid} {kind : Kind} {k' : K} {m : MId}
    (h : Inv k s a) (ht : t < s.phases.length) (hph : s.phase t = .atHook kind k' m)
    (hs : hookStep s t kind k' m = some s') : Inv k s' a := by
  have hpc : s.map.pc t = .idle := ((link_atHook hph).mp (h.link t)).1
  cases kind with
  | lock =>
    simp only [hookStep] at hs
    split at hs
    · rename_i hf; cases hs; exact inv_acqW h ht hph hf _
    · cases hs
  | rlock =>
    simp only [hookStep] at hs
    split at hs
    · rename_i hf; cases hs; exact inv_acqR h ht hph hf _
    · cases hs
  | trylock =>
    simp only [hookStep] at hs
    split at hs
    · rename_i hf; cases hs; exact inv_acqW h ht hph hf _
    · cases hs; exact inv_setPhase_ret h ht hpc _ (Or.inr ⟨_, rfl⟩)
  | tryrlock =>
    simp only [hookStep] at hs
    split at hs
    · rename_i hf; cases hs; exact inv_acqR h ht hph hf _
    · cases hs; exact inv_setPhase_ret h ht hpc _ (Or.inr ⟨_, rfl⟩)
  | unlock => simp [hookStep] at hs
  | runlock => simp [hookStep] at hs
  | clear => simp [hookStep] at hs

/-! ### every step, every reachable state -/

/-- the menu never applies `ClearKey` to `k` -/
def NoClearKey (k : K) (menu : List (KeyedMutexConc.Op K)) : Prop := ∀ op ∈ menu, op.kind = .clear → op.key ≠ k

/-- in phase `inMap .clear k'` the key is not `k` -/
theorem Inv.clear_ne {k : K} {s : KState K} {a : AState K Nat} (h : Inv k s a) {t : Tid} {k' : K}
    (hph : s.phase t = .inMap .clear k') : k' ≠ k := by
  obtain ⟨⟨v, hv⟩, _, _⟩ := (link_inMap hph).mp (h.link t)
  have := h.ak.ops t _ hv
  rw [mapOp_clear] at this
  exact this

theorem inv_stepT {k : K} {menu : List (KeyedMutexConc.Op K)} (hmenu : NoClearKey k menu) {s s' : KState K}
    {a : AState K Nat} {t : Tid} {l : Option (KeyedMutexConc.Event K)} (h : Inv k s a) (ht : t < s.phases.length)
    (hstep : (l, s') ∈ KeyedMutexConc.stepT menu s t) : ∃ a', Inv k s' a' := by
  unfold KeyedMutexConc.stepT at hstep
  cases hph : s.phase t with
  | idle =>
    rw [hph] at hstep
    obtain ⟨op, hop, heq⟩ := List.mem_map.mp hstep
    obtain ⟨hop1, hop2⟩ := List.mem_filter.mp hop
    cases heq
    exact ⟨_, inv_invStep h ht hph hop2 (hmenu op hop1)⟩
  | inMap kind k' =>
    rw [hph] at hstep
    obtain ⟨ms', hms, heq⟩ := List.mem_map.mp hstep
    cases heq
    exact inv_contMap h ht hph hms (fun hk => by subst hk; exact h.clear_ne hph)
  | atHook kind k' m =>
    simp only [hph] at hstep
    cases hs : hookStep s t kind k' m with
    | none => rw [hs] at hstep; cases hstep
    | some s1 =>
      rw [hs] at hstep
      have := List.mem_singleton.mp hstep
      cases this
      exact ⟨a, inv_hookStep h ht hph hs⟩
  | ret r =>
    rw [hph] at hstep
    have := List.mem_singleton.mp hstep
    cases this
    exact ⟨a, inv_setPhase_ret h ht ((link_ret hph).mp (h.link t)) _ (Or.inl rfl)⟩

/-- the initial abstract state (`RState.init (mapSpec K Nat)`) -/
def a0 (K : Type) : AState K Nat := { pcs := fun _ => .idle, obj := fun _ => none, hist := [] }

theorem inv_init (k : K) (n : Nat) : Inv k (KeyedMutexConc.init n : KState K) (a0 K) := by
  have hR : R (SyncMapConc.init n false : SyncMapConc.State K Nat) (a0 K) := R_init n false
  refine ⟨?_, hR, ?_, ?_, ?_, ?_⟩
  · simp [KeyedMutexConc.init, SyncMapConc.init]
  · refine ⟨?_, ?_, ?_, ?_⟩
    · intro t op ho; cases ho
    · intro t k' v seen hp; cases hp
    · intro t k' v r hp; cases hp
    · intro k' m hm; cases hm
  · refine ⟨?_, ?_⟩
    · intro p hp; cases hp
    · intro m k1 k2 h1; cases h1
  · intro t
    have hph : (KeyedMutexConc.init n : KState K).phase t = .idle := by
      simp only [KeyedMutexConc.State.phase, KeyedMutexConc.init, List.getD_eq_getElem?_getD]
      by_cases ht : t < n
      · simp [ht]
      · simp [ht]
    rw [link_idle hph]
    exact init_pc n false t
  · refine ⟨?_, ?_, ?_, ?_, ?_, ?_, ?_⟩
    · intro t m hm; cases hm
    · intro t m hm; cases hm
    · intro t m hm; cases hm
    · intro t m hm; cases hm
    · intro m hm; exact absurd rfl hm
    · intro m _ _; exact ⟨rfl, rfl⟩
    · intro hc; cases hc

/-- **the composed invariant holds in every reachable state**, for every schedule -/
theorem reachable_inv {k : K} {menu : List (KeyedMutexConc.Op K)} (hmenu : NoClearKey k menu) (n : Nat) {s : KState K}
    (hr : Reachable (KeyedMutexConc.sys K menu n) s) : ∃ a, Inv k s a := by
  refine Conc.invariant (KeyedMutexConc.sys K menu n) (fun s => ∃ a, Inv k s a) ⟨_, inv_init k n⟩ ?_ s hr
  intro s1 l s2 ih hmem
  obtain ⟨a, h⟩ := ih
  obtain ⟨t, ht, hstep⟩ := List.mem_flatMap.mp hmem
  exact inv_stepT hmenu h (List.mem_range.mp ht) hstep

end TypVerif.Lemmas.KeyedMutexConc
