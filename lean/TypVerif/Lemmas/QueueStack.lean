import TypVerif.Lemmas.ListOps2
import TypVerif.Spec.QueueStack
/-
C16: the Queue (over the heap list model) and the Stack refine their FIFO / LIFO specifications.
-/
namespace TypVerif.Lemmas.QueueStack
open TypVerif.Spec.ListOp (Ptr ElemId ListId)
open TypVerif.Spec.Seq
open TypVerif.Model
open TypVerif.Model.LinkedList
open TypVerif.Model.Queue (Op Res qlist)
open TypVerif.Lemmas.LinkedList
open TypVerif.Spec.QueueStack

/-- the heap list cell of the queue spells the abstract queue: front-to-back it holds the values in
reverse order of arrival -/
def QSim (h : Heap) (q : List Int) : Prop :=
  ∃ w, Sim h w ∧ (w.lists.get qlist).map w.value.get = q.reverse

theorem QSim.init : QSim Heap.empty [] := by
  refine ⟨World.empty, Sim.init, ?_⟩
  show ((Store.empty : Store (List ElemId)).get qlist).map _ = _
  rw [Store.get_empty]; rfl

theorem step_of_ok {h h' : Heap} {op : Op} {r : Res} (hr : Queue.runOp op h = .ok r h') :
    Queue.step h op = (h', r) := by
  unfold Queue.step; rw [hr]

theorem optPtr_eq_null {o : Option ElemId} : optPtr o = .null ↔ o = none := by
  cases o <;> simp [optPtr]

theorem qstep_sim {h : Heap} {q : List Int} (hq : QSim h q) (op : Op) :
    (Queue.step h op).2 = (qstep q op).2 ∧ QSim (Queue.step h op).1 (qstep q op).1 := by
  obtain ⟨w, hs, hv⟩ := hq
  cases op with
  | enq v =>
    obtain ⟨h', hr, hs'⟩ := pushFront_sim hs qlist v
    have : Queue.runOp (.enq v) h = .ok .ok h' := by
      show ((Queue.enqueue v) >>= fun _ => pure Res.ok) h = _
      unfold Queue.enqueue
      rw [bind_ok (a := ()) (h' := h')]
      · rfl
      · rw [bind_ok hr]; rfl
    rw [step_of_ok this]
    refine ⟨rfl, _, hs', ?_⟩
    have hid : w.nextId ∉ w.lists.get qlist := by
      intro hm
      have := (hs.mem _ _).2 hm
      rw [hs.fresh _ (Nat.le_refl _)] at this; cases this
    show ((w.lists.set qlist (w.nextId :: w.lists.get qlist)).get qlist).map ((w.value.set w.nextId v).get) = _
    rw [Store.get_set_self]
    simp only [List.map_cons, Store.get_set_self, qstep, List.reverse_append, List.reverse_cons,
      List.reverse_nil, List.nil_append, List.cons_append, ← hv]
    congr 1
    apply List.map_congr_left
    intro x hx
    have : x ≠ w.nextId := fun hh => hid (hh ▸ hx)
    rw [Store.get_set_ne _ _ this]
  | deq =>
    have hb := back_run hs qlist
    cases hl : (w.lists.get qlist).getLast? with
    | none =>
      have hxs : w.lists.get qlist = [] := by simpa using hl
      have hq0 : q = [] := by
        rw [hxs] at hv; simpa using hv.symm
      have : Queue.runOp .deq h = .ok (.pair 0 false) h := by
        show ((Queue.dequeue) >>= fun r => pure (Res.pair r.1 r.2)) h = _
        unfold Queue.dequeue
        rw [bind_ok (a := ((0 : Int), false)) (h' := h)]
        · rfl
        · rw [bind_ok hb, hl]; rfl
      rw [step_of_ok this, hq0]
      exact ⟨rfl, w, hs, by rw [hxs]; rfl⟩
    | some x =>
      obtain ⟨A, hA⟩ := List.getLast?_eq_some_iff.1 hl
      obtain ⟨h', hr, hs'⟩ := removeM_sim hs qlist x
      have hx : x ∈ w.lists.get qlist := by rw [hA]; simp
      have ho : w.owner.get x = some qlist := (hs.mem x qlist).2 hx
      have : Queue.runOp .deq h = .ok (.pair (w.value.get x) true) h' := by
        show ((Queue.dequeue) >>= fun r => pure (Res.pair r.1 r.2)) h = _
        unfold Queue.dequeue
        rw [bind_ok (a := (w.value.get x, true)) (h' := h')]
        · rfl
        · rw [bind_ok hb, hl]
          rw [ite_run, if_neg (show ¬ optPtr (some x) = Ptr.null from elem_ne_null x)]
          simp only [optPtr]
          rw [bind_ok hr]; rfl
      rw [step_of_ok this]
      have hnd := hs.nodup qlist
      have hxA : x ∉ A := by
        intro hm
        rw [hA] at hnd
        exact (List.nodup_append.1 hnd).2.2 x hm x (by simp) rfl
      have hq' : q = w.value.get x :: (A.map w.value.get).reverse := by
        have := congrArg List.reverse hv
        rw [List.reverse_reverse] at this
        rw [← this, hA]; simp
      rw [hq']
      refine ⟨rfl, _, hs', ?_⟩
      simp only [Spec.Seq.step, if_pos ho, qstep, List.reverse_reverse]
      show ((w.lists.set qlist ((w.lists.get qlist).erase x)).get qlist).map w.value.get = _
      rw [Store.get_set_self, hA, List.erase_append_right _ hxA]
      simp
  | peek =>
    have hb := back_run hs qlist
    cases hl : (w.lists.get qlist).getLast? with
    | none =>
      have hxs : w.lists.get qlist = [] := by simpa using hl
      have hq0 : q = [] := by
        rw [hxs] at hv; simpa using hv.symm
      have : Queue.runOp .peek h = .ok (.pair 0 false) h := by
        show ((Queue.peek) >>= fun r => pure (Res.pair r.1 r.2)) h = _
        unfold Queue.peek
        rw [bind_ok (a := ((0 : Int), false)) (h' := h)]
        · rfl
        · rw [bind_ok hb, hl]; rfl
      rw [step_of_ok this, hq0]
      exact ⟨rfl, w, hs, by rw [hxs]; rfl⟩
    | some x =>
      obtain ⟨A, hA⟩ := List.getLast?_eq_some_iff.1 hl
      have : Queue.runOp .peek h = .ok (.pair (w.value.get x) true) h := by
        show ((Queue.peek) >>= fun r => pure (Res.pair r.1 r.2)) h = _
        unfold Queue.peek
        rw [bind_ok (a := (w.value.get x, true)) (h' := h)]
        · rfl
        · rw [bind_ok hb, hl]
          rw [ite_run, if_neg (show ¬ optPtr (some x) = Ptr.null from elem_ne_null x)]
          simp only [optPtr]
          rw [bind_ok (getValue_ok _ (elem_ne_null x)), hs.value]; rfl
      rw [step_of_ok this]
      have hq' : q = w.value.get x :: (A.map w.value.get).reverse := by
        have := congrArg List.reverse hv
        rw [List.reverse_reverse] at this
        rw [← this, hA]; simp
      rw [hq']
      refine ⟨rfl, w, hs, ?_⟩
      simp only [qstep]
      rw [hA]; simp
  | len =>
    have : Queue.runOp .len h = .ok (.int ((w.lists.get qlist).length : Int)) h := by
      show ((Queue.qlen) >>= fun n => pure (Res.int n)) h = _
      unfold Queue.qlen
      rw [bind_ok (len_run hs qlist)]; rfl
    rw [step_of_ok this]
    have hlen : (w.lists.get qlist).length = q.length := by
      have := congrArg List.length hv
      simpa using this
    refine ⟨?_, w, hs, hv⟩
    simp only [qstep, hlen]

theorem queue_run_sim : ∀ (ops : List Op) {h : Heap} {q : List Int}, QSim h q →
    Queue.run h ops = runWith qstep q ops
  | [], _, _, _ => rfl
  | op :: ops, h, q, hq => by
    obtain ⟨h1, h2⟩ := qstep_sim hq op
    simp only [Queue.run, runWith, h1, queue_run_sim ops h2]

theorem queue_final_sim : ∀ (ops : List Op) {h : Heap} {q : List Int}, QSim h q →
    QSim (Queue.final h ops) (finalWith qstep q ops)
  | [], _, _, hq => hq
  | op :: ops, _, _, hq => queue_final_sim ops (qstep_sim hq op).2

/-- Peek changes nothing in the heap -/
theorem queue_peek_pure {h : Heap} {q : List Int} (hq : QSim h q) : (Queue.step h .peek).1 = h := by
  obtain ⟨w, hs, hv⟩ := hq
  have hb := back_run hs qlist
  cases hl : (w.lists.get qlist).getLast? with
  | none =>
    have : Queue.runOp .peek h = .ok (.pair 0 false) h := by
      show ((Queue.peek) >>= fun r => pure (Res.pair r.1 r.2)) h = _
      unfold Queue.peek
      rw [bind_ok (a := ((0 : Int), false)) (h' := h)]
      · rfl
      · rw [bind_ok hb, hl]; rfl
    rw [step_of_ok this]
  | some x =>
    have : Queue.runOp .peek h = .ok (.pair (w.value.get x) true) h := by
      show ((Queue.peek) >>= fun r => pure (Res.pair r.1 r.2)) h = _
      unfold Queue.peek
      rw [bind_ok (a := (w.value.get x, true)) (h' := h)]
      · rfl
      · rw [bind_ok hb, hl]
        rw [ite_run, if_neg (show ¬ optPtr (some x) = Ptr.null from elem_ne_null x)]
        simp only [optPtr]
        rw [bind_ok (getValue_ok _ (elem_ne_null x)), hs.value]; rfl
    rw [step_of_ok this]

/-! ### Stack -/

theorem sstep_sim (s : List Int) (op : Op) :
    (Stack.step s op).2 = (sstep s.reverse op).2 ∧ (Stack.step s op).1.reverse = (sstep s.reverse op).1 := by
  cases op with
  | enq v => simp [Stack.step, Stack.push, sstep]
  | deq =>
    rcases List.eq_nil_or_concat s with rfl | ⟨A, x, rfl⟩
    · simp [Stack.step, Stack.pop, sstep]
    · simp [Stack.step, Stack.pop, sstep]
  | peek =>
    rcases List.eq_nil_or_concat s with rfl | ⟨A, x, rfl⟩
    · simp [Stack.step, Stack.peek, sstep]
    · simp [Stack.step, Stack.peek, sstep]
  | len => simp [Stack.step, sstep]

theorem stack_run_sim : ∀ (ops : List Op) (s : List Int),
    Stack.run s ops = runWith sstep s.reverse ops
  | [], _ => rfl
  | op :: ops, s => by
    obtain ⟨h1, h2⟩ := sstep_sim s op
    simp only [Stack.run, runWith, h1, stack_run_sim ops, h2]

theorem stack_final_sim : ∀ (ops : List Op) (s : List Int),
    (Stack.final s ops).reverse = finalWith sstep s.reverse ops
  | [], _ => rfl
  | op :: ops, s => by
    simp only [Stack.final, finalWith, stack_final_sim ops, (sstep_sim s op).2]

end TypVerif.Lemmas.QueueStack
