import TypVerif.Lemmas.PubSubSafe
/-
Channel-table lemmas for the `Safe` invariant: updates that keep ids and `closed` flags, `sendTo`, `closeAll`.
-/
namespace TypVerif.Lemmas.PubSubSafe
open TypVerif TypVerif.Model.PubSub

theorem isClosed_updChan (cs : List ChanSt) (c c' : Chan) (f : ChanSt → ChanSt)
    (hid : ∀ ch, (f ch).id = ch.id) (hcl : ∀ ch, (f ch).closed = ch.closed) :
    isClosed (updChan cs c f) c' = isClosed cs c' := by
  induction cs with
  | nil => rfl
  | cons ch rest ih =>
    simp only [isClosed, updChan, List.map_cons, List.any_cons] at ih ⊢
    rw [ih]
    by_cases h : (ch.id == c) = true
    · simp [h, hid, hcl]
    · simp [h]

theorem hasChan_updChan (cs : List ChanSt) (c c' : Chan) (f : ChanSt → ChanSt)
    (hid : ∀ ch, (f ch).id = ch.id) :
    hasChan (updChan cs c f) c' = hasChan cs c' := by
  induction cs with
  | nil => rfl
  | cons ch rest ih =>
    simp only [hasChan, updChan, List.map_cons, List.any_cons] at ih ⊢
    rw [ih]
    by_cases h : (ch.id == c) = true
    · simp [h, hid]
    · simp [h]

theorem isClosed_append_open (cs : List ChanSt) (ch : ChanSt) (c' : Chan) (h : ch.closed = false) :
    isClosed (cs ++ [ch]) c' = isClosed cs c' := by
  simp [isClosed, h]

theorem hasChan_append (cs : List ChanSt) (ch : ChanSt) (c' : Chan) :
    hasChan (cs ++ [ch]) c' = (hasChan cs c' || ch.id == c') := by
  simp [hasChan]

/-- closing `c` closes no other channel -/
theorem isClosed_closeChan_ne (cs : List ChanSt) (c c' : Chan) (h : c' ≠ c) :
    isClosed (closeChan cs c) c' = isClosed cs c' := by
  induction cs with
  | nil => rfl
  | cons ch rest ih =>
    simp only [isClosed, closeChan, updChan, List.map_cons, List.any_cons] at ih ⊢
    rw [ih]
    by_cases h1 : (ch.id == c) = true
    · have : ch.id = c := by simpa using h1
      have h2 : (ch.id == c') = false := by simp [this]; exact fun h3 => h h3.symm
      simp [h1, h2]
    · simp [h1]

theorem hasChan_closeChan (cs : List ChanSt) (c c' : Chan) :
    hasChan (closeChan cs c) c' = hasChan cs c' :=
  hasChan_updChan cs c c' _ (fun _ => rfl)

theorem getChan_some_closed {cs : List ChanSt} {c : Chan} {ch : ChanSt}
    (h : getChan cs c = some ch) (hc : ch.closed = true) : isClosed cs c = true := by
  simp only [getChan] at h
  have hm := List.mem_of_find?_eq_some h
  have hp := List.find?_some h
  simp only [isClosed, List.any_eq_true]
  exact ⟨ch, hm, by simp [hc]; simpa using hp⟩


/-- what a completed send leaves untouched -/
structure SendFrame (s s' : State) : Prop where
  objs : s'.objs = s.objs
  tasks : s'.tasks = s.tasks
  wgs : s'.wgs = s.wgs
  panicked : s'.panicked = s.panicked
  closed : ∀ c, isClosed s'.chans c = isClosed s.chans c
  has : ∀ c, hasChan s'.chans c = hasChan s.chans c

theorem sendTo_sent {s s' : State} {it : Item} (h : sendTo s it = .sent s') : SendFrame s s' := by
  unfold sendTo at h
  split at h
  · cases h
  · split at h
    · cases h
    · split at h
      · injection h with h; subst h
        exact ⟨rfl, rfl, rfl, rfl,
          fun c => isClosed_updChan _ _ _ _ (fun _ => rfl) (fun _ => rfl),
          fun c => hasChan_updChan _ _ _ _ (fun _ => rfl)⟩
      · split at h
        · injection h with h; subst h
          exact ⟨rfl, rfl, rfl, rfl,
            fun c => isClosed_updChan _ _ _ _ (fun _ => rfl) (fun _ => rfl),
            fun c => hasChan_updChan _ _ _ _ (fun _ => rfl)⟩
        · cases h

theorem sendTo_panic {s : State} {it : Item} (h : sendTo s it = .panic) : isClosed s.chans it.c = true := by
  unfold sendTo at h
  split at h
  · cases h
  · rename_i ch hch
    split at h
    · rename_i hc
      exact getChan_some_closed hch hc
    · split at h
      · cases h
      · split at h <;> cases h


theorem mem_stepSend {cfg : Cfg} {s : State} {it : Item} {cb : Bool} {fin setCb : State → State}
    {l : Option Event} {s' : State} (h : (l, s') ∈ stepSend cfg s it cb fin setCb) :
    (cb = true ∧ s' = fin s) ∨
    (cb = false ∧ ∃ s1, sendTo s it = .sent s1 ∧ s' = fin s1) ∨
    (cb = false ∧ sendTo s it = .panic) ∨
    (cb = false ∧ s' = setCb (s.logTimeout it)) := by
  unfold stepSend at h
  cases cb with
  | true =>
    simp at h
    exact Or.inl ⟨rfl, h.2⟩
  | false =>
    simp only [Bool.false_eq_true, if_false, List.mem_append] at h
    rcases h with h | h
    · cases hst : sendTo s it with
      | blocked => simp [hst] at h
      | panic => exact Or.inr (Or.inr (Or.inl ⟨rfl, rfl⟩))
      | sent s1 =>
        simp [hst] at h
        exact Or.inr (Or.inl ⟨rfl, s1, rfl, h.2⟩)
    · split at h
      · simp at h
        exact Or.inr (Or.inr (Or.inr ⟨rfl, h.2⟩))
      · simp at h

end TypVerif.Lemmas.PubSubSafe
