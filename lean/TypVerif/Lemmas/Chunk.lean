import TypVerif.Model.Chunk
import TypVerif.Spec.Chunk
/-
Lemmas for C13: the Go loops of Chunk / Windowed / Pairs (and their `…Func` twins) compute the
specification functions.
-/
namespace TypVerif.Lemmas.Chunk
open TypVerif

variable {α : Type}

/-! ### the specification `Spec.Chunk.chunks` -/

theorem chunks_nil (size : Nat) : Spec.Chunk.chunks size ([] : List α) = [] := by
  rw [Spec.Chunk.chunks]; simp

theorem chunks_step {size : Nat} {s : List α} (hs : s ≠ []) (hz : 0 < size) :
    Spec.Chunk.chunks size s = s.take size :: Spec.Chunk.chunks size (s.drop size) := by
  rw [Spec.Chunk.chunks]
  have : ¬ (s = [] ∨ size = 0) := by
    intro h; cases h with
    | inl h => exact hs h
    | inr h => omega
  simp [this]

theorem chunks_short {size : Nat} {s : List α} (hs : s ≠ []) (hl : s.length ≤ size) :
    Spec.Chunk.chunks size s = [s] := by
  have hpos : 0 < s.length := List.length_pos_iff.mpr hs
  rw [chunks_step hs (by omega)]
  rw [List.take_of_length_le hl, List.drop_of_length_le hl, chunks_nil]

/-- a prefix whose length is a multiple of `size` is chunked independently of what follows -/
theorem chunks_append {size : Nat} (hz : 0 < size) :
    ∀ (m : Nat) (l1 l2 : List α), l1.length = m * size →
      Spec.Chunk.chunks size (l1 ++ l2) = Spec.Chunk.chunks size l1 ++ Spec.Chunk.chunks size l2
  | 0, l1, l2, h => by
    have : l1 = [] := List.length_eq_zero_iff.mp (by simpa using h)
    subst this; simp [chunks_nil]
  | m + 1, l1, l2, h => by
    have hlen : l1.length = m * size + size := by rw [h, Nat.succ_mul]
    have h1 : l1 ≠ [] := by
      intro e; rw [e] at hlen; simp at hlen; omega
    have h12 : l1 ++ l2 ≠ [] := by simp [h1]
    rw [chunks_step h12 hz, chunks_step h1 hz]
    have ht : (l1 ++ l2).take size = l1.take size := by
      rw [List.take_append]
      have : size - l1.length = 0 := by omega
      rw [this]; simp
    have hd : (l1 ++ l2).drop size = l1.drop size ++ l2 := by
      rw [List.drop_append]
      have : size - l1.length = 0 := by omega
      rw [this]; simp
    rw [ht, hd, chunks_append hz m (l1.drop size) l2 (by rw [List.length_drop]; omega)]
    simp

theorem chunks_length_of_mul {size : Nat} (hz : 0 < size) :
    ∀ (m : Nat) (l : List α), l.length = m * size → (Spec.Chunk.chunks size l).length = m
  | 0, l, h => by
    have : l = [] := List.length_eq_zero_iff.mp (by simpa using h)
    subst this; simp [chunks_nil]
  | m + 1, l, h => by
    have hlen : l.length = m * size + size := by rw [h, Nat.succ_mul]
    have h1 : l ≠ [] := by
      intro e; rw [e] at hlen; simp at hlen; omega
    rw [chunks_step h1 hz, List.length_cons,
      chunks_length_of_mul hz m (l.drop size) (by rw [List.length_drop]; omega)]

/-- strong induction principle on the list length, stepping by `drop size` -/
theorem chunks_induction {size : Nat} (hz : 0 < size) (P : List α → Prop)
    (hnil : P [])
    (hstep : ∀ s : List α, s ≠ [] → P (s.drop size) → P s) : ∀ s, P s := by
  intro s
  generalize hn : s.length = n
  induction n using Nat.strongRecOn generalizing s with
  | _ n ih =>
    by_cases hs : s = []
    · subst hs; exact hnil
    · have hpos : 0 < s.length := List.length_pos_iff.mpr hs
      exact hstep s hs (ih (s.drop size).length (by rw [List.length_drop]; omega) _ rfl)

theorem chunks_flatten {size : Nat} (hz : 0 < size) (s : List α) :
    (Spec.Chunk.chunks size s).flatten = s := by
  refine chunks_induction hz (fun s => (Spec.Chunk.chunks size s).flatten = s) ?_ ?_ s
  · simp [chunks_nil]
  · intro s hs ih
    rw [chunks_step hs hz, List.flatten_cons, ih, List.take_append_drop]

theorem ceilDiv_zero {size : Nat} (hz : 0 < size) : Spec.Chunk.ceilDiv 0 size = 0 := by
  unfold Spec.Chunk.ceilDiv
  exact Nat.div_eq_of_lt (by omega)

theorem ceilDiv_step {n size : Nat} (hz : 0 < size) (hn : 0 < n) :
    Spec.Chunk.ceilDiv n size = Spec.Chunk.ceilDiv (n - size) size + 1 := by
  unfold Spec.Chunk.ceilDiv
  by_cases h : size ≤ n
  · have : n + size - 1 = (n - size + size - 1) + size := by omega
    rw [this, Nat.add_div_right _ hz]
  · have h0 : n - size = 0 := by omega
    have : n + size - 1 = (n - 1) + size := by omega
    rw [this, Nat.add_div_right _ hz, h0, Nat.div_eq_of_lt (by omega : n - 1 < size)]
    have : (0 + size - 1) / size = 0 := Nat.div_eq_of_lt (by omega)
    rw [this]

theorem chunks_length {size : Nat} (hz : 0 < size) (s : List α) :
    (Spec.Chunk.chunks size s).length = Spec.Chunk.ceilDiv s.length size := by
  refine chunks_induction hz
    (fun s => (Spec.Chunk.chunks size s).length = Spec.Chunk.ceilDiv s.length size) ?_ ?_ s
  · simp [chunks_nil, ceilDiv_zero hz]
  · intro s hs ih
    have hpos : 0 < s.length := List.length_pos_iff.mpr hs
    rw [chunks_step hs hz, List.length_cons, ih, List.length_drop, ceilDiv_step hz hpos]

/-- every piece is non-empty and at most `size` long -/
theorem chunks_mem_bounds {size : Nat} (hz : 0 < size) (s : List α) :
    ∀ c ∈ Spec.Chunk.chunks size s, 0 < c.length ∧ c.length ≤ size := by
  refine chunks_induction hz
    (fun s => ∀ c ∈ Spec.Chunk.chunks size s, 0 < c.length ∧ c.length ≤ size) ?_ ?_ s
  · simp [chunks_nil]
  · intro s hs ih c hc
    have hpos : 0 < s.length := List.length_pos_iff.mpr hs
    rw [chunks_step hs hz, List.mem_cons] at hc
    cases hc with
    | inl h => subst h; rw [List.length_take]; omega
    | inr h => exact ih c h

/-- every piece except the last one has length exactly `size` -/
theorem chunks_getElem_length {size : Nat} (hz : 0 < size) (s : List α) :
    ∀ (i : Nat) (h : i < (Spec.Chunk.chunks size s).length),
      i + 1 < (Spec.Chunk.chunks size s).length → ((Spec.Chunk.chunks size s)[i]).length = size := by
  refine chunks_induction hz
    (fun s => ∀ (i : Nat) (h : i < (Spec.Chunk.chunks size s).length),
      i + 1 < (Spec.Chunk.chunks size s).length → ((Spec.Chunk.chunks size s)[i]).length = size) ?_ ?_ s
  · intro i h; simp [chunks_nil] at h
  · intro s hs ih i h h1
    have hstep := chunks_step hs hz
    have key : ∀ (L : List (List α)) (_ : L = s.take size :: Spec.Chunk.chunks size (s.drop size))
        (h : i < L.length), i + 1 < L.length → (L[i]).length = size := by
      intro L hL h h1
      subst hL
      cases i with
      | zero =>
        simp only [List.getElem_cons_zero, List.length_take]
        -- the tail is non-empty, hence `drop size s ≠ []`, hence `size < s.length`
        have hne : Spec.Chunk.chunks size (s.drop size) ≠ [] := by
          intro e; rw [e] at h1; simp at h1
        have : s.drop size ≠ [] := by
          intro e; rw [e, chunks_nil] at hne; exact hne rfl
        have : ¬ s.length ≤ size := fun hle => this (List.drop_eq_nil_iff.mpr hle)
        omega
      | succ i =>
        simp only [List.getElem_cons_succ]
        simp only [List.length_cons] at h h1
        exact ih i (by omega) (by omega)
    exact key _ hstep h h1

/-! ### the arithmetic kernel -/

theorem kernel_lim {n size : Nat} (hz : 0 < size) :
    (Model.Chunk.kernel n size).2.2 = Spec.Chunk.ceilDiv n size := by
  unfold Model.Chunk.kernel Spec.Chunk.ceilDiv
  have hdm := Nat.div_add_mod n size
  have hmod := Nat.mod_lt n hz
  have hcomm : size * (n / size) = n / size * size := Nat.mul_comm _ _
  simp only [bne_iff_ne, ne_eq]
  by_cases h : n / size * size = n
  · rw [if_neg (by simpa using h)]
    symm
    apply Nat.div_eq_of_lt_le
    · omega
    · rw [Nat.succ_mul]; omega
  · rw [if_pos (by simpa using h)]
    symm
    apply Nat.div_eq_of_lt_le
    · rw [Nat.succ_mul]; omega
    · rw [Nat.succ_mul, Nat.succ_mul]; omega

/-! ### the loops of Chunk / ChunkFunc -/

theorem sub_eq (s : List α) (j size : Nat) :
    Model.Chunk.sub s j (j + size) = (s.drop j).take size := by
  unfold Model.Chunk.sub; rw [List.take_drop]

/-- one unfolding of the specification on the window `s[j:rounded]` -/
theorem chunks_window_step {s : List α} {size rounded j m : Nat} (hz : 0 < size)
    (hj : j + (m + 1) * size = rounded) (hr : rounded ≤ s.length) :
    Spec.Chunk.chunks size ((s.take rounded).drop j) =
      Model.Chunk.sub s j (j + size) :: Spec.Chunk.chunks size ((s.take rounded).drop (j + size)) := by
  rw [Nat.succ_mul] at hj
  have hne : (s.take rounded).drop j ≠ [] := by
    intro e
    have := List.drop_eq_nil_iff.mp e
    rw [List.length_take] at this; omega
  rw [chunks_step hne hz, List.drop_drop]
  congr 1
  unfold Model.Chunk.sub
  rw [List.take_drop, List.take_take]
  have : min (j + size) rounded = j + size := by omega
  rw [this]

theorem chunks_window_end {s : List α} {size rounded : Nat} :
    Spec.Chunk.chunks size ((s.take rounded).drop rounded) = [] := by
  have : (s.take rounded).drop rounded = [] := by
    apply List.drop_eq_nil_iff.mpr; rw [List.length_take]; omega
  rw [this, chunks_nil]

theorem chunkFuncLoop_spec {s : List α} {size rounded : Nat} (hz : 0 < size) (hr : rounded ≤ s.length) :
    ∀ (fuel j m : Nat) (trace : List (List α)), j + m * size = rounded → m < fuel →
      Model.Chunk.chunkFuncLoop s size rounded fuel j trace =
        trace ++ Spec.Chunk.chunks size ((s.take rounded).drop j)
  | 0, _, _, _, _, hf => by omega
  | fuel + 1, j, 0, trace, hj, _ => by
    have : j = rounded := by simpa using hj
    subst this
    simp [Model.Chunk.chunkFuncLoop, chunks_nil]
  | fuel + 1, j, m + 1, trace, hj, hf => by
    have hlt : j < rounded := by rw [Nat.succ_mul] at hj; omega
    rw [Model.Chunk.chunkFuncLoop, if_pos hlt,
      chunkFuncLoop_spec hz hr fuel (j + size) m _ (by rw [Nat.succ_mul] at hj; omega) (by omega),
      chunks_window_step hz hj hr]
    simp

theorem chunkLoop_spec {s : List α} {size rounded : Nat} (hz : 0 < size) (hr : rounded ≤ s.length) :
    ∀ (fuel i j m : Nat) (pre post : List (List α)), j + m * size = rounded → m < fuel →
      pre.length = i → m ≤ post.length →
      Model.Chunk.chunkLoop s size rounded fuel i j (pre ++ post) =
        pre ++ Spec.Chunk.chunks size ((s.take rounded).drop j) ++ post.drop m
  | 0, _, _, _, _, _, _, hf, _, _ => by omega
  | fuel + 1, i, j, 0, pre, post, hj, _, _, _ => by
    have : j = rounded := by simpa using hj
    subst this
    simp [Model.Chunk.chunkLoop, chunks_nil]
  | fuel + 1, i, j, m + 1, pre, post, hj, hf, hi, hp => by
    have hlt : j < rounded := by rw [Nat.succ_mul] at hj; omega
    cases post with
    | nil => simp at hp
    | cons y post' =>
      have hset : (pre ++ y :: post').set i (Model.Chunk.sub s j (j + size)) =
          (pre ++ [Model.Chunk.sub s j (j + size)]) ++ post' := by
        subst hi; simp
      rw [Model.Chunk.chunkLoop, if_pos hlt, hset,
        chunkLoop_spec hz hr fuel (i + 1) (j + size) m _ post'
          (by rw [Nat.succ_mul] at hj; omega) (by omega) (by simp [hi])
          (by simpa using hp),
        chunks_window_step hz hj hr]
      simp

theorem div_facts (n size : Nat) (hz : 0 < size) :
    n / size * size ≤ n ∧ n - n / size * size < size ∧ (n / size * size = n ∨ 0 < n - n / size * size) := by
  have hdm := Nat.div_add_mod n size
  have hmod := Nat.mod_lt n hz
  have hcomm : size * (n / size) = n / size * size := Nat.mul_comm _ _
  omega

/-- the specification splits at `rounded` -/
theorem chunks_split (s : List α) {size : Nat} (hz : 0 < size) :
    Spec.Chunk.chunks size s =
      Spec.Chunk.chunks size (s.take (s.length / size * size)) ++
        (if s.length / size * size = s.length then [] else [s.drop (s.length / size * size)]) := by
  have ⟨h1, h2, _⟩ := div_facts s.length size hz
  have hlen : (s.take (s.length / size * size)).length = s.length / size * size := by
    rw [List.length_take]; omega
  conv => lhs; rw [← List.take_append_drop (s.length / size * size) s]
  rw [chunks_append hz _ _ _ hlen]
  congr 1
  by_cases h : s.length / size * size = s.length
  · rw [if_pos h]
    have : s.drop (s.length / size * size) = [] := List.drop_eq_nil_iff.mpr (by omega)
    rw [this, chunks_nil]
  · rw [if_neg h]
    apply chunks_short
    · intro e; have := List.drop_eq_nil_iff.mp e; omega
    · rw [List.length_drop]; omega

theorem chunkFunc_eq_spec (s : List α) {size : Nat} (hz : 0 < size) :
    Model.Chunk.chunkFunc s size = Spec.Chunk.chunks size s := by
  unfold Model.Chunk.chunkFunc
  by_cases h0 : s.length = 0
  · have : s = [] := List.length_eq_zero_iff.mp h0
    subst this; simp [chunks_nil]
  · rw [if_neg h0]
    have ⟨h1, _, _⟩ := div_facts s.length size hz
    simp only []
    rw [chunkFuncLoop_spec hz h1 (s.length / size + 1) 0 (s.length / size) [] (by simp) (by omega)]
    rw [chunks_split s hz]
    simp only [List.nil_append, List.drop_zero, bne_iff_ne, ne_eq]
    by_cases h : s.length / size * size = s.length
    · simp [h]
    · simp [h]

theorem chunk_eq_spec (s : List α) {size : Nat} (hz : 0 < size) :
    Model.Chunk.chunk s size = Spec.Chunk.chunks size s := by
  unfold Model.Chunk.chunk
  by_cases h0 : s.length = 0
  · have : s = [] := List.length_eq_zero_iff.mp h0
    subst this; simp [chunks_nil]
  · rw [if_neg h0]
    have ⟨h1, _, _⟩ := div_facts s.length size hz
    have hlenr : (s.take (s.length / size * size)).length = s.length / size * size := by
      rw [List.length_take]; omega
    have hcl := chunks_length_of_mul hz (s.length / size) (s.take (s.length / size * size)) hlenr
    unfold Model.Chunk.kernel
    simp only [bne_iff_ne, ne_eq]
    rw [chunks_split s hz]
    by_cases h : s.length / size * size = s.length
    · have e1 : (if ¬ s.length / size * size = s.length then s.length / size + 1 else s.length / size)
          = s.length / size := if_neg (fun hn => hn h)
      have e2 : (if s.length / size * size = s.length then ([] : List (List α))
          else [s.drop (s.length / size * size)]) = [] := if_pos h
      rw [e1, e2, if_neg (fun hn => hn rfl), List.append_nil]
      have := chunkLoop_spec (s := s) hz h1 (s.length / size + 1) 0 0 (s.length / size) []
        (List.replicate (s.length / size) []) (by simp) (by omega) rfl (by simp)
      simp only [List.nil_append, List.drop_zero] at this
      rw [this]
      simp
    · have e1 : (if ¬ s.length / size * size = s.length then s.length / size + 1 else s.length / size)
          = s.length / size + 1 := if_pos h
      have e2 : (if s.length / size * size = s.length then ([] : List (List α))
          else [s.drop (s.length / size * size)]) = [s.drop (s.length / size * size)] := if_neg h
      have hne : ¬ (s.length / size = s.length / size + 1) := by omega
      rw [e1, e2, if_pos hne]
      have := chunkLoop_spec (s := s) hz h1 (s.length / size + 1) 0 0 (s.length / size) []
        (List.replicate (s.length / size + 1) []) (by simp) (by omega) rfl (by simp)
      simp only [List.nil_append, List.drop_zero] at this
      rw [this, List.drop_replicate]
      have h11 : s.length / size + 1 - s.length / size = 1 := by omega
      rw [h11, Nat.add_sub_cancel, List.set_append]
      rw [if_neg (by omega)]
      rw [hcl]
      simp

/-! ### Windowed -/

theorem windowedLoop_spec (s : List α) (size lim : Nat) :
    ∀ (fuel i : Nat) (pre post : List (List α)), pre.length = i → post.length = lim - i → lim - i ≤ fuel →
      Model.Chunk.windowedLoop s size lim fuel i (pre ++ post) =
        pre ++ (List.range' i (lim - i)).map (fun k => Model.Chunk.sub s k (k + size))
  | 0, i, pre, post, _, hp, hf => by
    have h0 : lim - i = 0 := by omega
    have : post = [] := List.length_eq_zero_iff.mp (by omega)
    subst this
    simp [Model.Chunk.windowedLoop, h0]
  | fuel + 1, i, pre, post, hi, hp, hf => by
    rw [Model.Chunk.windowedLoop]
    by_cases hlt : i < lim
    · rw [if_pos hlt]
      cases post with
      | nil => simp at hp; omega
      | cons y post' =>
        have hset : (pre ++ y :: post').set i (Model.Chunk.sub s i (i + size)) =
            (pre ++ [Model.Chunk.sub s i (i + size)]) ++ post' := by
          subst hi; simp
        rw [hset, windowedLoop_spec s size lim fuel (i + 1) _ post' (by simp [hi])
          (by simp at hp; omega) (by omega)]
        have : lim - i = (lim - (i + 1)) + 1 := by omega
        rw [this, List.range'_succ]
        simp
    · rw [if_neg hlt]
      have h0 : lim - i = 0 := by omega
      have : post = [] := List.length_eq_zero_iff.mp (by omega)
      subst this
      simp [h0]

theorem windowedFuncLoop_spec (s : List α) (size lim : Nat) :
    ∀ (fuel i : Nat) (tr : List (List α)), lim - i ≤ fuel →
      Model.Chunk.windowedFuncLoop s size lim fuel i tr =
        tr ++ (List.range' i (lim - i)).map (fun k => Model.Chunk.sub s k (k + size))
  | 0, i, tr, hf => by
    have h0 : lim - i = 0 := by omega
    simp [Model.Chunk.windowedFuncLoop, h0]
  | fuel + 1, i, tr, hf => by
    rw [Model.Chunk.windowedFuncLoop]
    by_cases hlt : i < lim
    · rw [if_pos hlt, windowedFuncLoop_spec s size lim fuel (i + 1) _ (by omega)]
      have : lim - i = (lim - (i + 1)) + 1 := by omega
      rw [this, List.range'_succ]
      simp
    · rw [if_neg hlt]
      have h0 : lim - i = 0 := by omega
      simp [h0]

theorem windows_spec_alt (s : List α) (size : Nat) :
    Spec.Chunk.windows size s =
      (List.range' 0 (s.length + 1 - size)).map (fun k => Model.Chunk.sub s k (k + size)) := by
  unfold Spec.Chunk.windows
  rw [List.range_eq_range']
  apply List.map_congr_left
  intro k _
  rw [sub_eq]

theorem windowed_eq_spec (s : List α) (size : Nat) :
    Model.Chunk.windowed s size = Spec.Chunk.windows size s := by
  rw [windows_spec_alt]
  unfold Model.Chunk.windowed
  by_cases h : s.length < size
  · rw [if_pos h]
    have : s.length + 1 - size = 0 := by omega
    simp [this]
  · rw [if_neg h]
    have := windowedLoop_spec s size (s.length - size + 1) (s.length - size + 1) 0 []
      (List.replicate (s.length - size + 1) []) rfl (by simp) (by omega)
    simp only [List.nil_append, Nat.sub_zero] at this
    simp only []
    rw [this]
    have : s.length + 1 - size = s.length - size + 1 := by omega
    rw [this]

theorem windowedFunc_eq_spec (s : List α) (size : Nat) :
    Model.Chunk.windowedFunc s size = Spec.Chunk.windows size s := by
  rw [windows_spec_alt]
  unfold Model.Chunk.windowedFunc
  by_cases h : s.length < size
  · rw [if_pos h]
    have : s.length + 1 - size = 0 := by omega
    simp [this]
  · rw [if_neg h]
    have := windowedFuncLoop_spec s size (s.length - size + 1) (s.length - size + 1) 0 [] (by omega)
    simp only [List.nil_append, Nat.sub_zero] at this
    simp only []
    rw [this]
    have : s.length + 1 - size = s.length - size + 1 := by omega
    rw [this]

theorem windows_length (s : List α) (size : Nat) :
    (Spec.Chunk.windows size s).length = s.length + 1 - size := by
  simp [Spec.Chunk.windows]

theorem windows_getElem (s : List α) (size : Nat) (i : Nat) (h : i < (Spec.Chunk.windows size s).length) :
    (Spec.Chunk.windows size s)[i] = (s.drop i).take size := by
  simp [Spec.Chunk.windows]

/-! ### Pairs -/

theorem pairsLoop_spec [Inhabited α] (s : List α) (lim : Nat) :
    ∀ (fuel i : Nat) (pre post : List (α × α)), pre.length = i → post.length = lim - i → lim - i ≤ fuel →
      Model.Chunk.pairsLoop s lim fuel i (pre ++ post) =
        pre ++ (List.range' i (lim - i)).map (fun k => (s[k]!, s[k+1]!))
  | 0, i, pre, post, _, hp, hf => by
    have h0 : lim - i = 0 := by omega
    have : post = [] := List.length_eq_zero_iff.mp (by omega)
    subst this
    simp [Model.Chunk.pairsLoop, h0]
  | fuel + 1, i, pre, post, hi, hp, hf => by
    rw [Model.Chunk.pairsLoop]
    by_cases hlt : i < lim
    · rw [if_pos hlt]
      cases post with
      | nil => simp at hp; omega
      | cons y post' =>
        have hset : (pre ++ y :: post').set i (s[i]!, s[i+1]!) = (pre ++ [(s[i]!, s[i+1]!)]) ++ post' := by
          subst hi; simp
        rw [hset, pairsLoop_spec s lim fuel (i + 1) _ post' (by simp [hi])
          (by simp at hp; omega) (by omega)]
        have : lim - i = (lim - (i + 1)) + 1 := by omega
        rw [this, List.range'_succ]
        simp
    · rw [if_neg hlt]
      have h0 : lim - i = 0 := by omega
      have : post = [] := List.length_eq_zero_iff.mp (by omega)
      subst this
      simp [h0]

theorem pairsFuncLoop_spec [Inhabited α] (s : List α) (lim : Nat) :
    ∀ (fuel i : Nat) (tr : List (α × α)), lim - i ≤ fuel →
      Model.Chunk.pairsFuncLoop s lim fuel i tr =
        tr ++ (List.range' i (lim - i)).map (fun k => (s[k]!, s[k+1]!))
  | 0, i, tr, hf => by
    have h0 : lim - i = 0 := by omega
    simp [Model.Chunk.pairsFuncLoop, h0]
  | fuel + 1, i, tr, hf => by
    rw [Model.Chunk.pairsFuncLoop]
    by_cases hlt : i < lim
    · rw [if_pos hlt, pairsFuncLoop_spec s lim fuel (i + 1) _ (by omega)]
      have : lim - i = (lim - (i + 1)) + 1 := by omega
      rw [this, List.range'_succ]
      simp
    · rw [if_neg hlt]
      have h0 : lim - i = 0 := by omega
      simp [h0]

theorem pairs_spec_alt [Inhabited α] (s : List α) :
    Spec.Chunk.pairs s = (List.range' 0 (s.length - 1)).map (fun k => (s[k]!, s[k+1]!)) := by
  unfold Spec.Chunk.pairs
  apply List.ext_getElem
  · simp [List.length_zip]
  · intro i h1 h2
    simp only [List.length_zip, List.length_tail] at h1
    have hi : i + 1 < s.length := by omega
    simp only [List.getElem_zip, List.getElem_tail, List.getElem_map, List.getElem_range', Nat.zero_add,
      Nat.one_mul]
    rw [getElem!_pos s i (by omega), getElem!_pos s (i + 1) hi]

theorem pairs_eq_spec [Inhabited α] (s : List α) : Model.Chunk.pairs s = Spec.Chunk.pairs s := by
  rw [pairs_spec_alt]
  unfold Model.Chunk.pairs
  by_cases h : s.length < 2
  · rw [if_pos h]
    have : s.length - 1 = 0 := by omega
    simp [this]
  · rw [if_neg h]
    have := pairsLoop_spec s (s.length - 1) (s.length - 1) 0 []
      (List.replicate (s.length - 1) (default, default)) rfl (by simp) (by omega)
    simp only [List.nil_append, Nat.sub_zero] at this
    simp only []
    rw [this]

theorem pairsFunc_eq_spec [Inhabited α] (s : List α) : Model.Chunk.pairsFunc s = Spec.Chunk.pairs s := by
  rw [pairs_spec_alt]
  unfold Model.Chunk.pairsFunc
  by_cases h : s.length < 2
  · rw [if_pos h]
    have : s.length - 1 = 0 := by omega
    simp [this]
  · rw [if_neg h]
    have := pairsFuncLoop_spec s (s.length - 1) (s.length - 1) 0 [] (by omega)
    simp only [List.nil_append, Nat.sub_zero] at this
    simp only []
    rw [this]

end TypVerif.Lemmas.Chunk
