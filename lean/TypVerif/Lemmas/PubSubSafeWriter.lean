import TypVerif.Lemmas.PubSubSafePub
/-
`Safe` is preserved by the writers' critical sections (Sub, Unsub, UnsubAll): they run only when no reader
holds the lock, hence when no sender is alive.
-/
namespace TypVerif.Lemmas.PubSubSafe
open TypVerif TypVerif.Model.PubSub

/-- replacement of an inert task by an inert task while `subs` and the channel table change -/
theorem safe_replace_subs {s s' : State} {i : Nat} {t t' : Task} (hs : Safe s) (hi : s.tasks[i]? = some t)
    (htasks : s'.tasks = s.tasks.set i t')
    (hobjs : s'.objs.length = 1)
    (hrd : (s'.obj 0).rw.readers = (s.obj 0).rw.readers)
    (hwgs : s'.wgs = s.wgs) (hp : s'.panicked = none)
    (ht : holdsRead t = false) (ht' : holdsRead t' = false)
    (hw : ∀ w, isWgSend w t = false) (hw' : ∀ w, isWgSend w t' = false)
    (hww : ∀ w, isWaitWg w t = false) (hobj : objOk t')
    (hopn : ∀ c ∈ (s'.obj 0).subs, isClosed s'.chans c = false)
    (hnd : (s'.obj 0).subs.Nodup)
    (hex : ∀ c ∈ (s'.obj 0).subs, hasChan s'.chans c = true)
    (htg : ∀ x ∈ s.tasks.set i t', ∀ c ∈ targets x, c ∈ (s'.obj 0).subs) : Safe s' := by
  constructor
  · exact hobjs
  · rw [htasks]; exact forall_set _ _ _ _ hs.obj0 hobj
  · have h1 := countP_set_eq holdsRead s.tasks i t t' hi
    have h2 := hs.readers
    rw [htasks, hrd]; simp [ht, ht'] at h1; omega
  · exact hopn
  · exact hnd
  · exact hex
  · rw [htasks]; exact htg
  · intro w
    have h1 := countP_set_eq (isWgSend w) s.tasks i t t' hi
    have h2 := hs.wgc w
    rw [htasks, hwgs]; simp [hw w, hw' w] at h1; omega
  · intro w hwp
    rw [hwgs] at hwp
    rw [htasks]
    exact exists_set (isWaitWg w) s.tasks i t t' hi (hs.wgw w hwp) (by intro h; simp [hww w] at h)
  · exact hp

/-- with no reader inside, no task is about to send -/
theorem quiet {s : State} (hs : Safe s) (h0 : (s.obj 0).rw.readers = 0) : ∀ t ∈ s.tasks, targets t = [] := by
  have hc : s.tasks.countP holdsRead = 0 := by rw [← hs.readers]; exact h0
  have hno : ∀ t ∈ s.tasks, holdsRead t = false := by
    intro t ht
    have := (List.countP_eq_zero.mp hc) t ht
    simpa using this
  intro t ht
  cases t with
  | syncLoop p o work cb => have := hno _ ht; simp [holdsRead] at this
  | asyncSend o it cb => have := hno _ ht; simp [holdsRead] at this
  | wgSend o w it cb =>
    have hpos : 0 < s.wgs.getD w 0 := by
      rw [hs.wgc]; exact List.countP_pos_iff.mpr ⟨_, ht, by simp [isWgSend]⟩
    obtain ⟨t2, ht2, hq⟩ := hs.wgw w hpos
    have := hno t2 ht2
    cases t2 <;> simp [isWaitWg] at hq
    simp [holdsRead] at this
  | _ => rfl

theorem isClosed_of_not_hasChan (cs : List ChanSt) (c : Chan) (h : hasChan cs c = false) : isClosed cs c = false := by
  simp only [hasChan, List.any_eq_false] at h
  simp only [isClosed, List.any_eq_false]
  intro ch hch
  have := h ch hch
  simp [this]


theorem canLock_readers {rw : RW} (h : ¬ (!rw.canLock) = true) : rw.readers = 0 := by
  simp [RW.canLock] at h; exact h.1

theorem quiet_set {s : State} {i : Nat} {t' : Task} {X : List Chan} (hq : ∀ t ∈ s.tasks, targets t = [])
    (ht' : targets t' = []) : ∀ x ∈ s.tasks.set i t', ∀ c ∈ targets x, c ∈ X := by
  intro x hx c hc
  have : targets x = [] := forall_set (fun t => targets t = []) _ _ _ hq ht' x hx
  simp [this] at hc

theorem safe_stepSubWait {s s' : State} {i c cap : Nat} {l : Option Event}
    (hs : Safe s) (hi : s.tasks[i]? = some (.subWait 0 c cap))
    (h : (l, s') ∈ stepSubWait s i 0 c cap) : Safe s' := by
  obtain ⟨r, hr⟩ := objs_eq hs
  have hobj0 : s.obj 0 = r := by simp [State.obj, hr]
  unfold stepSubWait at h
  split at h
  · simp at h
  · rename_i hg
    simp only [Bool.or_eq_true, not_or, Bool.not_eq_true] at hg
    obtain ⟨hlock, hnew⟩ := hg
    have h0 : (s.obj 0).rw.readers = 0 := canLock_readers (by simp [hlock])
    have hq := quiet hs h0
    simp only [List.mem_singleton, Prod.mk.injEq] at h
    obtain ⟨_, rfl⟩ := h
    have hsubs' : ∀ x, x ∈ r.subs ++ [c] ↔ (x ∈ (s.obj 0).subs ∨ x = c) := by
      intro x; simp [hobj0]
    refine safe_replace_subs (t' := .subRet c) hs hi rfl ?_ ?_ rfl hs.nopanic rfl rfl (fun _ => rfl) (fun _ => rfl)
      (fun _ => rfl) trivial ?_ ?_ ?_ (quiet_set hq rfl)
    · simp [State.setTask, State.setObj, hr]
    · simp [State.setTask, State.setObj, State.obj, hr, RW.lockUnlock]
    · intro x hx
      simp only [State.setTask, State.setObj, State.obj, hr, List.set_cons_zero, List.getD_cons_zero] at hx ⊢
      rw [isClosed_append_open _ _ _ rfl]
      rcases (hsubs' x).mp hx with h1 | h1
      · exact hs.opn x h1
      · subst h1; exact isClosed_of_not_hasChan _ _ hnew
    · simp only [State.setTask, State.setObj, State.obj, hr, List.set_cons_zero, List.getD_cons_zero]
      have hnd := hs.nodup
      rw [hobj0] at hnd
      refine List.nodup_append.mpr ⟨hnd, by simp, ?_⟩
      intro a ha b hb
      simp only [List.mem_singleton] at hb
      subst hb
      intro hab; subst hab
      have := hs.exist a (hobj0 ▸ ha)
      rw [hnew] at this; cases this
    · intro x hx
      simp only [State.setTask, State.setObj, State.obj, hr, List.set_cons_zero, List.getD_cons_zero] at hx ⊢
      rw [hasChan_append]
      rcases (hsubs' x).mp hx with h1 | h1
      · simp [hs.exist x h1]
      · subst h1; simp


theorem safe_stepUnsubWait {s s' : State} {i u c : Nat} {l : Option Event}
    (hs : Safe s) (hi : s.tasks[i]? = some (.unsubWait u 0 c))
    (h : (l, s') ∈ stepUnsubWait s i u 0 c) : Safe s' := by
  obtain ⟨r, hr⟩ := objs_eq hs
  have hobj0 : s.obj 0 = r := by simp [State.obj, hr]
  unfold stepUnsubWait at h
  split at h
  · simp at h
  · rename_i hlock
    have h0 : (s.obj 0).rw.readers = 0 := canLock_readers hlock
    have hq := quiet hs h0
    split at h
    · rename_i hmem
      have hopen := hs.opn c hmem
      rw [hopen] at h
      simp only [Bool.false_eq_true, if_false, List.mem_singleton, Prod.mk.injEq] at h
      obtain ⟨_, rfl⟩ := h
      have hnd := hs.nodup
      rw [hobj0] at hnd
      refine safe_replace_subs (t' := .unsubRet u .nil) hs hi rfl ?_ ?_ rfl hs.nopanic rfl rfl (fun _ => rfl)
        (fun _ => rfl) (fun _ => rfl) trivial ?_ ?_ ?_ (quiet_set hq rfl)
      · simp [State.setTask, State.setObj, hr]
      · simp [State.setTask, State.setObj, State.obj, hr, RW.lockUnlock]
      · intro x hx
        simp only [State.setTask, State.setObj, State.obj, hr, List.set_cons_zero, List.getD_cons_zero] at hx ⊢
        obtain ⟨hne, hx'⟩ := hnd.mem_erase_iff.mp hx
        rw [isClosed_closeChan_ne _ _ _ hne]
        exact hs.opn x (hobj0 ▸ hx')
      · simp only [State.setTask, State.setObj, State.obj, hr, List.set_cons_zero, List.getD_cons_zero]
        exact hnd.erase c
      · intro x hx
        simp only [State.setTask, State.setObj, State.obj, hr, List.set_cons_zero, List.getD_cons_zero] at hx ⊢
        rw [hasChan_closeChan]
        exact hs.exist x (hobj0 ▸ (List.mem_of_mem_erase hx))
    · simp only [List.mem_singleton, Prod.mk.injEq] at h
      obtain ⟨_, rfl⟩ := h
      refine safe_inert hs hi rfl ?_ ?_ ?_ rfl rfl rfl rfl rfl (fun _ => rfl) (fun _ => rfl) (fun _ => rfl) trivial rfl
      · simp [State.setTask, State.setObj, hr]
      · simp [State.setTask, State.setObj, State.obj, hr]
      · simp [State.setTask, State.setObj, State.obj, hr, RW.lockUnlock]

theorem closeAll_some : ∀ (l : List Chan) (cs : List ChanSt), (∀ c ∈ l, isClosed cs c = false) → l.Nodup →
    ∃ cs', closeAll cs l = some cs'
  | [], cs, _, _ => ⟨cs, rfl⟩
  | c :: rest, cs, hop, hnd => by
    have hc : isClosed cs c = false := hop c (List.mem_cons_self ..)
    simp only [closeAll, hc, Bool.false_eq_true, if_false]
    have hnd' := List.nodup_cons.mp hnd
    refine closeAll_some rest (closeChan cs c) ?_ hnd'.2
    intro x hx
    have hne : x ≠ c := fun h => hnd'.1 (h ▸ hx)
    rw [isClosed_closeChan_ne _ _ _ hne]
    exact hop x (List.mem_cons_of_mem _ hx)

theorem safe_stepUaWait {s s' : State} {i u : Nat} {l : Option Event}
    (hs : Safe s) (hi : s.tasks[i]? = some (.uaWait u 0))
    (h : (l, s') ∈ stepUaWait s i u 0) : Safe s' := by
  obtain ⟨r, hr⟩ := objs_eq hs
  unfold stepUaWait at h
  split at h
  · simp at h
  · rename_i hlock
    have h0 : (s.obj 0).rw.readers = 0 := canLock_readers hlock
    have hq := quiet hs h0
    obtain ⟨cs', hcs⟩ := closeAll_some _ _ hs.opn hs.nodup
    rw [hcs] at h
    simp only [List.mem_singleton, Prod.mk.injEq] at h
    obtain ⟨_, rfl⟩ := h
    refine safe_replace_subs (t' := .uaRet u) hs hi rfl ?_ ?_ rfl hs.nopanic rfl rfl (fun _ => rfl)
      (fun _ => rfl) (fun _ => rfl) trivial ?_ ?_ ?_ (quiet_set hq rfl)
    · simp [State.setTask, State.setObj, hr]
    · simp [State.setTask, State.setObj, State.obj, hr, RW.lockUnlock]
    · intro x hx; simp [State.setTask, State.setObj, State.obj, hr] at hx
    · simp [State.setTask, State.setObj, State.obj, hr]
    · intro x hx; simp [State.setTask, State.setObj, State.obj, hr] at hx

end TypVerif.Lemmas.PubSubSafe
