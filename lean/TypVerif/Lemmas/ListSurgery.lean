import TypVerif.Lemmas.ListLinked
/-
The straight-line pointer surgeries of list.go as pure heap transformers, the proof that the monadic
model code computes exactly them when no nil pointer is dereferenced, and their effect on the views.
-/
namespace TypVerif.Lemmas.LinkedList
open TypVerif.Spec.ListOp
open TypVerif.Spec.Seq
open TypVerif.Model
open TypVerif.Model.LinkedList

/-- `e.prev = at; e.next = at.next; e.prev.next = e; e.next.prev = e` -/
def linkH (h : Heap) (e : ElemId) (at' : Ptr) : Heap :=
  (((h.setPrev (.elem e) at').setNext (.elem e) (h.next at')).setNext at' (.elem e)).setPrev (h.next at') (.elem e)

/-- `e.prev.next = e.next; e.next.prev = e.prev` -/
def unlinkH (h : Heap) (e : ElemId) : Heap :=
  (h.setNext (h.prev (.elem e)) (h.next (.elem e))).setPrev (h.next (.elem e)) (h.prev (.elem e))

def insertH (h : Heap) (l : ListId) (e : ElemId) (at' : Ptr) : Heap :=
  ((linkH h e at').setList e (some l)).setLen l (h.len l + 1)

def removeH (h : Heap) (l : ListId) (e : ElemId) : Heap :=
  ((((unlinkH h e).setNext (.elem e) .null).setPrev (.elem e) .null).setList e none).setLen l (h.len l - 1)

def moveH (h : Heap) (e : ElemId) (at' : Ptr) : Heap := linkH (unlinkH h e) e at'

/-! ### views -/

theorem next_linkH (h : Heap) (e : ElemId) {at' : Ptr} (hat : at' ≠ .null) (x : Ptr) :
    (linkH h e at').next x = if x = at' then .elem e else if x = .elem e then h.next at' else h.next x := by
  simp only [linkH, next_setPrev, next_setNext _ _ hat, next_setNext _ _ (elem_ne_null e), upd_apply]

theorem prev_linkH (h : Heap) (e : ElemId) (at' : Ptr) (hn : h.next at' ≠ .null) (x : Ptr) :
    (linkH h e at').prev x = if x = h.next at' then .elem e else if x = .elem e then at' else h.prev x := by
  simp only [linkH, prev_setNext, prev_setPrev _ _ hn, prev_setPrev _ _ (elem_ne_null e), upd_apply]

@[simp] theorem listOf_linkH (h : Heap) (e : ElemId) (at' : Ptr) : (linkH h e at').listOf = h.listOf := by
  simp [linkH]
@[simp] theorem value_linkH (h : Heap) (e : ElemId) (at' : Ptr) : (linkH h e at').value = h.value := by
  simp [linkH]
@[simp] theorem len_linkH (h : Heap) (e : ElemId) (at' : Ptr) : (linkH h e at').len = h.len := by
  simp [linkH]
@[simp] theorem nextElem_linkH (h : Heap) (e : ElemId) (at' : Ptr) : (linkH h e at').nextElem = h.nextElem := by
  simp [linkH]

theorem next_unlinkH (h : Heap) (e : ElemId) (hp : h.prev (.elem e) ≠ .null) (x : Ptr) :
    (unlinkH h e).next x = if x = h.prev (.elem e) then h.next (.elem e) else h.next x := by
  simp only [unlinkH, next_setPrev, next_setNext _ _ hp, upd_apply]

theorem prev_unlinkH (h : Heap) (e : ElemId) (hn : h.next (.elem e) ≠ .null) (x : Ptr) :
    (unlinkH h e).prev x = if x = h.next (.elem e) then h.prev (.elem e) else h.prev x := by
  simp only [unlinkH, prev_setNext, prev_setPrev _ _ hn, upd_apply]

@[simp] theorem listOf_unlinkH (h : Heap) (e : ElemId) : (unlinkH h e).listOf = h.listOf := by
  simp [unlinkH]
@[simp] theorem value_unlinkH (h : Heap) (e : ElemId) : (unlinkH h e).value = h.value := by
  simp [unlinkH]
@[simp] theorem len_unlinkH (h : Heap) (e : ElemId) : (unlinkH h e).len = h.len := by
  simp [unlinkH]
@[simp] theorem nextElem_unlinkH (h : Heap) (e : ElemId) : (unlinkH h e).nextElem = h.nextElem := by
  simp [unlinkH]

/-! ### the monadic code computes the pure transformers -/

theorem insert_run (h : Heap) (l : ListId) (e : ElemId) {at' : Ptr}
    (hat : at' ≠ .null) (hn : h.next at' ≠ .null) (hne : at' ≠ .elem e) :
    LinkedList.insert l e at' h = .ok (.elem e) (insertH h l e at') := by
  unfold LinkedList.insert
  rw [bind_ok (setPrev_ok _ _ (elem_ne_null e))]
  rw [bind_ok (getNext_ok _ hat)]
  rw [bind_ok (setNext_ok _ _ (elem_ne_null e))]
  rw [bind_ok (getPrev_ok _ (elem_ne_null e))]
  have e1 : ((h.setPrev (.elem e) at').setNext (.elem e) ((h.setPrev (.elem e) at').next at')).prev (.elem e) = at' := by
    simp [prev_setPrev _ _ (elem_ne_null e)]
  rw [e1, bind_ok (setNext_ok _ _ hat)]
  rw [bind_ok (getNext_ok _ (elem_ne_null e))]
  have e2 : (((h.setPrev (.elem e) at').setNext (.elem e) ((h.setPrev (.elem e) at').next at')).setNext at' (.elem e)).next (.elem e)
      = h.next at' := by
    simp [next_setNext _ _ hat, next_setNext _ _ (elem_ne_null e), upd_apply, hne.symm]
  rw [e2, bind_ok (setPrev_ok _ _ hn)]
  simp [bind_run, insertH, linkH]

theorem remove_run (h : Heap) (l : ListId) (e : ElemId)
    (hp : h.prev (.elem e) ≠ .null) (hn : h.next (.elem e) ≠ .null) (hpe : h.prev (.elem e) ≠ .elem e) :
    remove l e h = .ok () (removeH h l e) := by
  unfold remove
  rw [bind_ok (getPrev_ok _ (elem_ne_null e))]
  rw [bind_ok (getNext_ok _ (elem_ne_null e))]
  rw [bind_ok (setNext_ok _ _ hp)]
  rw [bind_ok (getNext_ok _ (elem_ne_null e))]
  rw [bind_ok (getPrev_ok _ (elem_ne_null e))]
  have e1 : (h.setNext (h.prev (.elem e)) (h.next (.elem e))).next (.elem e) = h.next (.elem e) := by
    simp [next_setNext _ _ hp, upd_apply, hpe.symm]
  rw [e1, prev_setNext, bind_ok (setPrev_ok _ _ hn)]
  rw [bind_ok (setNext_ok _ _ (elem_ne_null e))]
  rw [bind_ok (setPrev_ok _ _ (elem_ne_null e))]
  simp [bind_run, removeH, unlinkH, len_setNext, len_setPrev]

theorem move_same (h : Heap) (l : ListId) (e : ElemId) : move l e (.elem e) h = .ok () h := by
  simp [move]

theorem move_run (h : Heap) (l : ListId) (e : ElemId) {at' : Ptr} (hne : at' ≠ .elem e)
    (hp : h.prev (.elem e) ≠ .null) (hn : h.next (.elem e) ≠ .null) (hpe : h.prev (.elem e) ≠ .elem e)
    (hat : at' ≠ .null) (hn2 : (unlinkH h e).next at' ≠ .null) :
    move l e at' h = .ok () (moveH h e at') := by
  unfold move moveH
  rw [if_neg (fun hh => hne hh.symm)]
  rw [bind_ok (getPrev_ok _ (elem_ne_null e))]
  rw [bind_ok (getNext_ok _ (elem_ne_null e))]
  rw [bind_ok (setNext_ok _ _ hp)]
  rw [bind_ok (getNext_ok _ (elem_ne_null e))]
  rw [bind_ok (getPrev_ok _ (elem_ne_null e))]
  have e1 : (h.setNext (h.prev (.elem e)) (h.next (.elem e))).next (.elem e) = h.next (.elem e) := by
    simp [next_setNext _ _ hp, upd_apply, hpe.symm]
  rw [e1, prev_setNext, bind_ok (setPrev_ok _ _ hn)]
  have e0 : (h.setNext (h.prev (.elem e)) (h.next (.elem e))).setPrev (h.next (.elem e)) (h.prev (.elem e))
      = unlinkH h e := rfl
  rw [e0]
  generalize unlinkH h e = g at hn2 ⊢
  rw [bind_ok (setPrev_ok _ _ (elem_ne_null e))]
  rw [bind_ok (getNext_ok _ hat)]
  rw [bind_ok (setNext_ok _ _ (elem_ne_null e))]
  rw [bind_ok (getPrev_ok _ (elem_ne_null e))]
  have e1 : ((g.setPrev (.elem e) at').setNext (.elem e) ((g.setPrev (.elem e) at').next at')).prev (.elem e) = at' := by
    simp [prev_setPrev _ _ (elem_ne_null e)]
  rw [e1, bind_ok (setNext_ok _ _ hat)]
  rw [bind_ok (getNext_ok _ (elem_ne_null e))]
  have e2 : (((g.setPrev (.elem e) at').setNext (.elem e) ((g.setPrev (.elem e) at').next at')).setNext at' (.elem e)).next (.elem e)
      = g.next at' := by
    simp [next_setNext _ _ hat, next_setNext _ _ (elem_ne_null e), upd_apply, hne.symm]
  rw [e2, setPrev_ok _ _ hn2]
  simp [linkH]

end TypVerif.Lemmas.LinkedList
